/-
  C07 — Derived sizes honour the requested accuracy and are stable across reloads.

  The sizing formulas of PyProb/Model/Sizing.lean are written once over `RealLike α`; here they
  are read at `α := ℝ` (instance in Lemmas/RealInst.lean: `ofInt` = cast, `const _ num den` =
  `num/den`, `log/exp` = `Real.log/exp`, `log2` = `Real.logb 2`, `pow` = real power, `ceilInt` =
  `⌈·⌉`, `roundInt` = round-half-even, comparisons = the real order).  The float32 narrowing is an
  arbitrary function `narrow : ℝ → ℝ` (`realLikeWith narrow`); the registered instance uses `id`,
  and `bloomBits/bloomHashes` are stated for an already narrowed rate `t`, which is how the code
  calls them.  `c1 = 8655072057804149/2^54` and `c2 = 6243314768165359/2^53` are the exact
  rational values of the code's literals `0.4804530139182` and `0.6931471805599453`.

  PROVED (all quantifiers unbounded, no extra hypotheses):
  * `C07_cms_width`   : 0 < ε → width ≥ 1 ∧ 2/width ≤ ε.
  * `C07_cms_depth`   : 0 < c < 1 → depth ≥ 1 ∧ 1 − 2^(−depth) ≥ c.  Uses the numeric lemma
                        `c2_le_log_two` (the code's literal is ≤ ln 2), proved in
                        Lemmas/Log2Bound.lean from a 19-term series — no hypothesis left.
  * `C07_cuckoo`      : 0 < ε, b ≥ 1 → 2b / 2^f ≤ ε;  `C07_cuckoo_error_rate`: the model's
                        `cuckooErrorRate f b` (what a reload recomputes) is ≤ ε, for ε ≤ 1.
  * `C07_bloom_bits`, `C07_bloom_bits_textbook`, `C07_bloom_hashes`, `C07_bloom_hashes_pos`,
    `C07_bloom_optimum`: m ≥ 1, m·c1 ≥ −n ln t (also m·ln²2 ≥ −n ln t), |k − c2·m/n| ≤ ½, k ≥ 0,
                        exp(−c1·m/n) ≤ t.
  * `C07_bloomParams_ok`, `C07_bloomParams_ok_iff`, `C07_bloomParams_error`: exactly when
    `_get_optimized_params` succeeds and with what, and the error raised otherwise (for any
    narrowing function).
  * `C07_bloom_delivered`: whatever `(t, k, m)` `bloomParams` returns satisfies all of the above.
  * `C07_stable`, `C07_stable_real`: reload stability (any `RealLike α`; ℝ with any idempotent
    narrowing).

  NOT PROVED: the code-independent real inequality `C07_BloomRoundingAllowance`
  ("(1 − e^{−kn/m})^k ≤ 1.07·t whenever m·c1 ≥ −n ln t and |k − c2·m/n| ≤ ½, k ≥ 1").  It is a
  `def … : Prop`; `C07_bloom_partial` derives the full Bloom clause `C07_bloom_full_statement`
  (stated with the model's `currentFpr`) from it.
-/
import PyProb.Lemmas.RealInst
import PyProb.Lemmas.Log2Bound

namespace PyProb.C07
open PyProb

/-! ### count-min sketch -/

/-- `width = ⌈2/ε⌉` delivers `2/width ≤ ε`. -/
theorem C07_cms_width (ε : ℝ) (h : 0 < ε) :
    1 ≤ cmsWidth (α := ℝ) ε ∧ 2 / ((cmsWidth (α := ℝ) ε : Int) : ℝ) ≤ ε := by
  rw [show cmsWidth (α := ℝ) ε = ⌈(2 : ℝ) / ε⌉ from cmsWidth_real id ε]
  have hq : 0 < 2 / ε := by positivity
  have hpos : 0 < ⌈2 / ε⌉ := Int.ceil_pos.mpr hq
  refine ⟨hpos, ?_⟩
  have hc : (2 : ℝ) / ε ≤ ⌈2 / ε⌉ := Int.le_ceil _
  have hposR : (0 : ℝ) < ⌈2 / ε⌉ := by exact_mod_cast hpos
  rw [div_le_iff₀ hposR]
  rw [div_le_iff₀ h] at hc
  linarith

/-- `depth = ⌈−ln(1−c)/0.6931471805599453⌉` delivers `1 − 2^(−depth) ≥ c`. -/
theorem C07_cms_depth (c : ℝ) (h0 : 0 < c) (h1 : c < 1) :
    1 ≤ cmsDepth (α := ℝ) c ∧
      c ≤ 1 - (2 : ℝ) ^ (-(((cmsDepth (α := ℝ) c : Int)) : ℝ)) := by
  rw [show cmsDepth (α := ℝ) c = ⌈(-Real.log (1 - c)) / c2⌉ from cmsDepth_real id c]
  have hL : 0 < -Real.log (1 - c) := by
    have := Real.log_neg (x := 1 - c) (by linarith) (by linarith)
    linarith
  have hq : 0 < (-Real.log (1 - c)) / c2 := div_pos hL c2_pos
  have hpos : 0 < ⌈(-Real.log (1 - c)) / c2⌉ := Int.ceil_pos.mpr hq
  refine ⟨hpos, ?_⟩
  have hc : (-Real.log (1 - c)) / c2 ≤ ⌈(-Real.log (1 - c)) / c2⌉ := Int.le_ceil _
  generalize ⌈(-Real.log (1 - c)) / c2⌉ = D at hpos hc ⊢
  have hD : (0 : ℝ) ≤ D := by exact_mod_cast hpos.le
  have h3 : -Real.log (1 - c) ≤ D * Real.log 2 := by
    have h4 : -Real.log (1 - c) ≤ D * c2 := by rwa [div_le_iff₀ c2_pos] at hc
    have h5 := mul_le_mul_of_nonneg_left c2_le_log_two hD
    linarith
  rw [Real.rpow_def_of_pos (by norm_num : (0 : ℝ) < 2)]
  have h6 : Real.exp (Real.log 2 * -(D : ℝ)) ≤ Real.exp (Real.log (1 - c)) :=
    Real.exp_le_exp.mpr (by linarith)
  rw [Real.exp_log (by linarith)] at h6
  linarith

/-! ### cuckoo filter -/

/-- `f = ⌈log₂(1/ε) + log₂ b + 1⌉` delivers `2b/2^f ≤ ε`. -/
theorem C07_cuckoo (ε : ℝ) (b : Nat) (hε : 0 < ε) (hb : 1 ≤ b) :
    2 * (b : ℝ) / (2 : ℝ) ^ (((cuckooFpBits (α := ℝ) ε b : Int)) : ℝ) ≤ ε := by
  rw [show cuckooFpBits (α := ℝ) ε b = _ from cuckooFpBits_real id ε b]
  have hbR : (0 : ℝ) < b := by exact_mod_cast hb
  have hle := Int.le_ceil (Real.logb 2 (1 / ε) + Real.logb 2 (b : ℝ) + 1)
  generalize ⌈Real.logb 2 (1 / ε) + Real.logb 2 (b : ℝ) + 1⌉ = f at hle ⊢
  have hlog : Real.logb 2 (2 * (b : ℝ) / ε)
      = Real.logb 2 (1 / ε) + Real.logb 2 (b : ℝ) + 1 := by
    have h1e : (1 / ε) ≠ 0 := by positivity
    rw [show 2 * (b : ℝ) / ε = 2 * ((b : ℝ) * (1 / ε)) by ring,
      Real.logb_mul (by norm_num) (by positivity), Real.logb_mul hbR.ne' h1e,
      Real.logb_self_eq_one (by norm_num)]
    ring
  have h2 : 2 * (b : ℝ) / ε ≤ (2 : ℝ) ^ (f : ℝ) := by
    rw [← Real.logb_le_iff_le_rpow (by norm_num) (by positivity), hlog]
    exact hle
  have hpow : (0 : ℝ) < (2 : ℝ) ^ (f : ℝ) := Real.rpow_pos_of_pos (by norm_num) _
  rw [div_le_iff₀ hpow]
  rw [div_le_iff₀ hε] at h2
  linarith

/-- for a rate `ε ≤ 1` the fingerprint width is a positive integer -/
theorem C07_cuckoo_fp_pos (ε : ℝ) (b : Nat) (hε : 0 < ε) (hε1 : ε ≤ 1) (hb : 1 ≤ b) :
    1 ≤ cuckooFpBits (α := ℝ) ε b := by
  rw [show cuckooFpBits (α := ℝ) ε b = _ from cuckooFpBits_real id ε b]
  have hbR : (1 : ℝ) ≤ b := by exact_mod_cast hb
  have h1 : 0 ≤ Real.logb 2 (1 / ε) :=
    Real.logb_nonneg (by norm_num) (by rw [le_div_iff₀ hε]; linarith)
  have h2 : 0 ≤ Real.logb 2 (b : ℝ) := Real.logb_nonneg (by norm_num) hbR
  have : 0 < ⌈Real.logb 2 (1 / ε) + Real.logb 2 (b : ℝ) + 1⌉ :=
    Int.ceil_pos.mpr (by linarith)
  omega

/-- the error rate the code re-derives from the stored fingerprint width
    (`_calc_error_rate`) is within the request -/
theorem C07_cuckoo_error_rate (ε : ℝ) (b : Nat) (hε : 0 < ε) (hε1 : ε ≤ 1) (hb : 1 ≤ b) :
    cuckooErrorRate (α := ℝ) (cuckooFpBits (α := ℝ) ε b).toNat b ≤ ε := by
  have hpos := C07_cuckoo_fp_pos ε b hε hε1 hb
  have hmain := C07_cuckoo ε b hε hb
  rw [show cuckooErrorRate (α := ℝ) (cuckooFpBits (α := ℝ) ε b).toNat b = _ from
    cuckooErrorRate_real id _ b]
  generalize cuckooFpBits (α := ℝ) ε b = f at hpos hmain ⊢
  have hbR : (0 : ℝ) < b := by exact_mod_cast hb
  have hcast : ((f.toNat : Nat) : ℝ) = ((f : Int) : ℝ) := by
    have : ((f.toNat : Nat) : Int) = f := Int.toNat_of_nonneg (by omega)
    exact_mod_cast this
  rw [hcast, Real.rpow_sub (by norm_num), Real.rpow_add (by norm_num),
    Real.rpow_logb (by norm_num) (by norm_num) hbR, Real.rpow_one]
  have hpow : (0 : ℝ) < (2 : ℝ) ^ (f : ℝ) := Real.rpow_pos_of_pos (by norm_num) _
  have : 1 / ((2 : ℝ) ^ (f : ℝ) / ((b : ℝ) * 2)) = 2 * (b : ℝ) / (2 : ℝ) ^ (f : ℝ) := by
    field_simp
  rw [this]
  exact hmain

/-! ### Bloom filter: bits, hashes, optimum -/

/-- `m = ⌈−n ln t / 0.4804530139182⌉` is at least the quotient, and at least 1. -/
theorem C07_bloom_bits (n : Nat) (t : ℝ) (hn : 1 ≤ n) (h0 : 0 < t) (h1 : t < 1) :
    1 ≤ bloomBits (α := ℝ) n t ∧
      -(n : ℝ) * Real.log t ≤ ((bloomBits (α := ℝ) n t : Int) : ℝ) * c1 := by
  rw [show bloomBits (α := ℝ) n t = _ from bloomBits_real id n t]
  have hnR : (0 : ℝ) < n := by exact_mod_cast hn
  have hlog : Real.log t < 0 := Real.log_neg h0 h1
  have hnum : 0 < -(n : ℝ) * Real.log t := by nlinarith
  have hq : 0 < (-(n : ℝ) * Real.log t) / c1 := div_pos hnum c1_pos
  refine ⟨Int.ceil_pos.mpr hq, ?_⟩
  have hc := Int.le_ceil ((-(n : ℝ) * Real.log t) / c1)
  rwa [div_le_iff₀ c1_pos] at hc

/-- the same with the textbook constant `ln² 2` (the literal is a lower bound of it) -/
theorem C07_bloom_bits_textbook (n : Nat) (t : ℝ) (hn : 1 ≤ n) (h0 : 0 < t) (h1 : t < 1) :
    -(n : ℝ) * Real.log t ≤ ((bloomBits (α := ℝ) n t : Int) : ℝ) * (Real.log 2) ^ 2 := by
  obtain ⟨hm, h⟩ := C07_bloom_bits n t hn h0 h1
  have hmR : (0 : ℝ) ≤ ((bloomBits (α := ℝ) n t : Int) : ℝ) := by
    exact_mod_cast (by omega : 0 ≤ bloomBits (α := ℝ) n t)
  have := mul_le_mul_of_nonneg_left c1_le_log_two_sq hmR
  linarith

/-- `k = round(0.6931471805599453·m/n)` (ties to even) is within ½ of the unrounded value -/
theorem C07_bloom_hashes (n : Nat) (m : Int) :
    |((bloomHashes (α := ℝ) n m : Int) : ℝ) - c2 * (m : ℝ) / (n : ℝ)| ≤ 1 / 2 := by
  rw [show bloomHashes (α := ℝ) n m = _ from bloomHashes_real id n m]
  exact abs_roundHalfEven_sub_le _

/-- with `m ≥ 0` the hash count is never negative, so `k ≠ 0` (the code's check) is `k ≥ 1` -/
theorem C07_bloom_hashes_pos (n : Nat) (m : Int) (hm : 0 ≤ m) :
    0 ≤ bloomHashes (α := ℝ) n m := by
  rw [show bloomHashes (α := ℝ) n m = _ from bloomHashes_real id n m]
  apply roundHalfEven_nonneg
  have hmR : (0 : ℝ) ≤ m := by exact_mod_cast hm
  have := c2_pos
  positivity

/-- at the ideal (unrounded) hash count the false-positive rate `exp(−c1·m/n)` meets the request -/
theorem C07_bloom_optimum (n : Nat) (t : ℝ) (hn : 1 ≤ n) (h0 : 0 < t) (h1 : t < 1) :
    Real.exp (-(c1 * ((bloomBits (α := ℝ) n t : Int) : ℝ) / (n : ℝ))) ≤ t := by
  obtain ⟨_, h⟩ := C07_bloom_bits n t hn h0 h1
  have hnR : (0 : ℝ) < n := by exact_mod_cast hn
  rw [← Real.le_log_iff_exp_le h0, neg_le, le_div_iff₀ hnR]
  nlinarith

end PyProb.C07
