/-
  C07 — Derived sizes honour the requested accuracy and are stable across reloads.

  The sizing formulas of PyProb/Model/Sizing.lean are written once over `RealLike α`; here they
  are read at `α := ℝ` (instance in Lemmas/RealInst.lean: `ofInt` = cast, `const _ num den` =
  `num/den`, `log/exp` = `Real.log/exp`, `log2` = `Real.logb 2`, `pow` = real power, `ceilInt` =
  `⌈·⌉`, `roundInt` = round-half-even, comparisons = the real order).  The float32 narrowing is an
  arbitrary function `narrow : ℝ → ℝ` (`realLikeWith narrow`); the registered instance uses `id`,
  and `bloomBits/bloomHashes` are stated for an already narrowed rate `t`, which is how the code
  calls them.  `c1 = 8655072057804149/2^54` and `c2 = 6243314768165359/2^53` are the exact
  rational values of the code's literals `0.4804530139182` and `0.6931471805599453`.

  PROVED (all quantifiers unbounded, no extra hypotheses):
  * `C07_cms_width`   : 0 < ε → width ≥ 1 ∧ 2/width ≤ ε.
  * `C07_cms_depth`   : 0 < c < 1 → depth ≥ 1 ∧ 1 − 2^(−depth) ≥ c.  Uses the numeric lemma
                        `c2_le_log_two` (the code's literal is ≤ ln 2), proved in
                        Lemmas/Log2Bound.lean from a 19-term series — no hypothesis left.
  * `C07_cuckoo`      : 0 < ε, b ≥ 1 → 2b / 2^f ≤ ε;  `C07_cuckoo_fp_pos`: f ≥ 1 for ε ≤ 1;
                        `C07_cuckoo_error_rate`: the model's `cuckooErrorRate f b` (what a reload
                        recomputes) is ≤ ε, for ε ≤ 1.
  * `C07_bloom_bits`, `C07_bloom_bits_textbook`, `C07_bloom_hashes`, `C07_bloom_hashes_pos`,
    `C07_bloom_optimum`: m ≥ 1, m·c1 ≥ −n ln t (also m·ln²2 ≥ −n ln t), |k − c2·m/n| ≤ ½, k ≥ 0,
                        exp(−c1·m/n) ≤ t.
  * `C07_bloomParams_ok`, `C07_bloomParams_ok_iff`, `C07_bloomParams_error`: exactly when
    `_get_optimized_params` succeeds and with what, and the error raised otherwise (for any
    narrowing function).
  * `C07_bloom_delivered`: whatever `(t, k, m)` `bloomParams` returns satisfies all of the above
                        (needs `narrow p ≤ 1`; `C07_narrow_le_one`: true of every monotone
                        narrowing that fixes 1).  `C07_bits_hashes_narrow_irrelevant`: bits and
                        hashes are the same function in every member of the instance family.
  * `C07_stable`, `C07_stable_real`: reload stability (any `RealLike α`; ℝ with any idempotent
    narrowing).

  ALSO PROVED (added later): the code-independent real inequality `C07_BloomRoundingAllowance`
  ("(1 − e^{−kn/m})^k ≤ 1.07·t for the rounded k") — `C07_allowance`, analytic proof in
  `Lemmas/BloomAllowance.lean` — hence the full Bloom clause `C07_bloom_full : C07_bloom_full_statement`
  without hypotheses.  What remains outside Lean is only the IEEE-754 rounding between these real-number
  theorems and the `Float` instance the code's behaviour is compared with.
-/
import PyProb.Lemmas.BloomAllowance
import PyProb.Lemmas.RealInst
import PyProb.Lemmas.Log2Bound
import PyProb.Lemmas.SizingExamples

namespace PyProb.C07
open PyProb

/-! ### count-min sketch -/

/-- `width = ⌈2/ε⌉` delivers `2/width ≤ ε`. -/
theorem C07_cms_width (ε : ℝ) (h : 0 < ε) :
    1 ≤ cmsWidth (α := ℝ) ε ∧ 2 / ((cmsWidth (α := ℝ) ε : Int) : ℝ) ≤ ε := by
  rw [show cmsWidth (α := ℝ) ε = ⌈(2 : ℝ) / ε⌉ from cmsWidth_real id ε]
  have hq : 0 < 2 / ε := by positivity
  have hpos : 0 < ⌈2 / ε⌉ := Int.ceil_pos.mpr hq
  refine ⟨hpos, ?_⟩
  have hc : (2 : ℝ) / ε ≤ ⌈2 / ε⌉ := Int.le_ceil _
  have hposR : (0 : ℝ) < ⌈2 / ε⌉ := by exact_mod_cast hpos
  rw [div_le_iff₀ hposR]
  rw [div_le_iff₀ h] at hc
  linarith

/-- `depth = ⌈−ln(1−c)/0.6931471805599453⌉` delivers `1 − 2^(−depth) ≥ c`. -/
theorem C07_cms_depth (c : ℝ) (h0 : 0 < c) (h1 : c < 1) :
    1 ≤ cmsDepth (α := ℝ) c ∧
      c ≤ 1 - (2 : ℝ) ^ (-(((cmsDepth (α := ℝ) c : Int)) : ℝ)) := by
  rw [show cmsDepth (α := ℝ) c = ⌈(-Real.log (1 - c)) / c2⌉ from cmsDepth_real id c]
  have hL : 0 < -Real.log (1 - c) := by
    have := Real.log_neg (x := 1 - c) (by linarith) (by linarith)
    linarith
  have hq : 0 < (-Real.log (1 - c)) / c2 := div_pos hL c2_pos
  have hpos : 0 < ⌈(-Real.log (1 - c)) / c2⌉ := Int.ceil_pos.mpr hq
  refine ⟨hpos, ?_⟩
  have hc : (-Real.log (1 - c)) / c2 ≤ ⌈(-Real.log (1 - c)) / c2⌉ := Int.le_ceil _
  generalize ⌈(-Real.log (1 - c)) / c2⌉ = D at hpos hc ⊢
  have hD : (0 : ℝ) ≤ D := by exact_mod_cast hpos.le
  have h3 : -Real.log (1 - c) ≤ D * Real.log 2 := by
    have h4 : -Real.log (1 - c) ≤ D * c2 := by rwa [div_le_iff₀ c2_pos] at hc
    have h5 := mul_le_mul_of_nonneg_left c2_le_log_two hD
    linarith
  rw [Real.rpow_def_of_pos (by norm_num : (0 : ℝ) < 2)]
  have h6 : Real.exp (Real.log 2 * -(D : ℝ)) ≤ Real.exp (Real.log (1 - c)) :=
    Real.exp_le_exp.mpr (by linarith)
  rw [Real.exp_log (by linarith)] at h6
  linarith

/-! ### cuckoo filter -/

/-- `f = ⌈log₂(1/ε) + log₂ b + 1⌉` delivers `2b/2^f ≤ ε`. -/
theorem C07_cuckoo (ε : ℝ) (b : Nat) (hε : 0 < ε) (hb : 1 ≤ b) :
    2 * (b : ℝ) / (2 : ℝ) ^ (((cuckooFpBits (α := ℝ) ε b : Int)) : ℝ) ≤ ε := by
  rw [show cuckooFpBits (α := ℝ) ε b = _ from cuckooFpBits_real id ε b]
  have hbR : (0 : ℝ) < b := by exact_mod_cast hb
  have hle := Int.le_ceil (Real.logb 2 (1 / ε) + Real.logb 2 (b : ℝ) + 1)
  generalize ⌈Real.logb 2 (1 / ε) + Real.logb 2 (b : ℝ) + 1⌉ = f at hle ⊢
  have hlog : Real.logb 2 (2 * (b : ℝ) / ε)
      = Real.logb 2 (1 / ε) + Real.logb 2 (b : ℝ) + 1 := by
    have h1e : (1 / ε) ≠ 0 := by positivity
    rw [show 2 * (b : ℝ) / ε = 2 * ((b : ℝ) * (1 / ε)) by ring,
      Real.logb_mul (by norm_num) (by positivity), Real.logb_mul hbR.ne' h1e,
      Real.logb_self_eq_one (by norm_num)]
    ring
  have h2 : 2 * (b : ℝ) / ε ≤ (2 : ℝ) ^ (f : ℝ) := by
    rw [← Real.logb_le_iff_le_rpow (by norm_num) (by positivity), hlog]
    exact hle
  have hpow : (0 : ℝ) < (2 : ℝ) ^ (f : ℝ) := Real.rpow_pos_of_pos (by norm_num) _
  rw [div_le_iff₀ hpow]
  rw [div_le_iff₀ hε] at h2
  linarith

/-- for a rate `ε ≤ 1` the fingerprint width is a positive integer -/
theorem C07_cuckoo_fp_pos (ε : ℝ) (b : Nat) (hε : 0 < ε) (hε1 : ε ≤ 1) (hb : 1 ≤ b) :
    1 ≤ cuckooFpBits (α := ℝ) ε b := by
  rw [show cuckooFpBits (α := ℝ) ε b = _ from cuckooFpBits_real id ε b]
  have hbR : (1 : ℝ) ≤ b := by exact_mod_cast hb
  have h1 : 0 ≤ Real.logb 2 (1 / ε) :=
    Real.logb_nonneg (by norm_num) (by rw [le_div_iff₀ hε]; linarith)
  have h2 : 0 ≤ Real.logb 2 (b : ℝ) := Real.logb_nonneg (by norm_num) hbR
  have : 0 < ⌈Real.logb 2 (1 / ε) + Real.logb 2 (b : ℝ) + 1⌉ :=
    Int.ceil_pos.mpr (by linarith)
  omega

/-- the error rate the code re-derives from the stored fingerprint width
    (`_calc_error_rate`) is within the request -/
theorem C07_cuckoo_error_rate (ε : ℝ) (b : Nat) (hε : 0 < ε) (hε1 : ε ≤ 1) (hb : 1 ≤ b) :
    cuckooErrorRate (α := ℝ) (cuckooFpBits (α := ℝ) ε b).toNat b ≤ ε := by
  have hpos := C07_cuckoo_fp_pos ε b hε hε1 hb
  have hmain := C07_cuckoo ε b hε hb
  rw [show cuckooErrorRate (α := ℝ) (cuckooFpBits (α := ℝ) ε b).toNat b = _ from
    cuckooErrorRate_real id _ b]
  generalize cuckooFpBits (α := ℝ) ε b = f at hpos hmain ⊢
  have hbR : (0 : ℝ) < b := by exact_mod_cast hb
  have hcast : ((f.toNat : Nat) : ℝ) = ((f : Int) : ℝ) := by
    have : ((f.toNat : Nat) : Int) = f := Int.toNat_of_nonneg (by omega)
    exact_mod_cast this
  rw [hcast, Real.rpow_sub (by norm_num), Real.rpow_add (by norm_num),
    Real.rpow_logb (by norm_num) (by norm_num) hbR, Real.rpow_one]
  have hpow : (0 : ℝ) < (2 : ℝ) ^ (f : ℝ) := Real.rpow_pos_of_pos (by norm_num) _
  have : 1 / ((2 : ℝ) ^ (f : ℝ) / ((b : ℝ) * 2)) = 2 * (b : ℝ) / (2 : ℝ) ^ (f : ℝ) := by
    field_simp
  rw [this]
  exact hmain

/-! ### Bloom filter: bits, hashes, optimum -/

/-- `m = ⌈−n ln t / 0.4804530139182⌉` is at least the quotient, and at least 1. -/
theorem C07_bloom_bits (n : Nat) (t : ℝ) (hn : 1 ≤ n) (h0 : 0 < t) (h1 : t < 1) :
    1 ≤ bloomBits (α := ℝ) n t ∧
      -(n : ℝ) * Real.log t ≤ ((bloomBits (α := ℝ) n t : Int) : ℝ) * c1 := by
  rw [show bloomBits (α := ℝ) n t = _ from bloomBits_real id n t]
  have hnR : (0 : ℝ) < n := by exact_mod_cast hn
  have hlog : Real.log t < 0 := Real.log_neg h0 h1
  have hnum : 0 < -(n : ℝ) * Real.log t := by nlinarith
  have hq : 0 < (-(n : ℝ) * Real.log t) / c1 := div_pos hnum c1_pos
  refine ⟨Int.ceil_pos.mpr hq, ?_⟩
  have hc := Int.le_ceil ((-(n : ℝ) * Real.log t) / c1)
  rwa [div_le_iff₀ c1_pos] at hc

/-- the same with the textbook constant `ln² 2` (the literal is a lower bound of it) -/
theorem C07_bloom_bits_textbook (n : Nat) (t : ℝ) (hn : 1 ≤ n) (h0 : 0 < t) (h1 : t < 1) :
    -(n : ℝ) * Real.log t ≤ ((bloomBits (α := ℝ) n t : Int) : ℝ) * (Real.log 2) ^ 2 := by
  obtain ⟨hm, h⟩ := C07_bloom_bits n t hn h0 h1
  have hmR : (0 : ℝ) ≤ ((bloomBits (α := ℝ) n t : Int) : ℝ) := by
    exact_mod_cast (by omega : 0 ≤ bloomBits (α := ℝ) n t)
  have := mul_le_mul_of_nonneg_left c1_le_log_two_sq hmR
  linarith

/-- `k = round(0.6931471805599453·m/n)` (ties to even) is within ½ of the unrounded value -/
theorem C07_bloom_hashes (n : Nat) (m : Int) :
    |((bloomHashes (α := ℝ) n m : Int) : ℝ) - c2 * (m : ℝ) / (n : ℝ)| ≤ 1 / 2 := by
  rw [show bloomHashes (α := ℝ) n m = _ from bloomHashes_real id n m]
  exact abs_roundHalfEven_sub_le _

/-- with `m ≥ 0` the hash count is never negative, so `k ≠ 0` (the code's check) is `k ≥ 1` -/
theorem C07_bloom_hashes_pos (n : Nat) (m : Int) (hm : 0 ≤ m) :
    0 ≤ bloomHashes (α := ℝ) n m := by
  rw [show bloomHashes (α := ℝ) n m = _ from bloomHashes_real id n m]
  apply roundHalfEven_nonneg
  have hmR : (0 : ℝ) ≤ m := by exact_mod_cast hm
  have := c2_pos
  positivity

/-- at the ideal (unrounded) hash count the false-positive rate `exp(−c1·m/n)` meets the request -/
theorem C07_bloom_optimum (n : Nat) (t : ℝ) (hn : 1 ≤ n) (h0 : 0 < t) (h1 : t < 1) :
    Real.exp (-(c1 * ((bloomBits (α := ℝ) n t : Int) : ℝ) / (n : ℝ))) ≤ t := by
  obtain ⟨_, h⟩ := C07_bloom_bits n t hn h0 h1
  have hnR : (0 : ℝ) < n := by exact_mod_cast hn
  rw [← Real.le_log_iff_exp_le h0, neg_le, le_div_iff₀ hnR]
  nlinarith

/-! ### `_get_optimized_params` as a whole (`bloomParams`), for any narrowing function -/

/-- The hashes/bits do not depend on the narrowing function of the instance. -/
theorem C07_bits_hashes_narrow_irrelevant (nr : ℝ → ℝ) (n : Nat) (t : ℝ) (m : Int) :
    @bloomBits ℝ (realLikeWith nr) n t = bloomBits (α := ℝ) n t ∧
      @bloomHashes ℝ (realLikeWith nr) n m = bloomHashes (α := ℝ) n m :=
  ⟨rfl, rfl⟩

/-- Success of `bloomParams` characterised exactly: `n ≥ 1`, `0 ≤ p < 1`, the narrowed rate
    `t = narrow p` is positive, and the rounded hash count is not 0; the result is `(t, k, m)`. -/
theorem C07_bloomParams_ok_iff (nr : ℝ → ℝ) (n : Int) (p : ℝ) (r : ℝ × Nat × Nat) :
    @bloomParams ℝ (realLikeWith nr) n p = .ok r ↔
      1 ≤ n ∧ 0 ≤ p ∧ p < 1 ∧ 0 < nr p ∧
        bloomHashes (α := ℝ) n.toNat (bloomBits (α := ℝ) n.toNat (nr p)) ≠ 0 ∧
        r = (nr p,
             (bloomHashes (α := ℝ) n.toNat (bloomBits (α := ℝ) n.toNat (nr p))).toNat,
             (bloomBits (α := ℝ) n.toNat (nr p)).toNat) := by
  rw [bloomParams_real]
  change (if n ≤ 0 then _ else if ¬(0 ≤ p ∧ p < 1) then _ else if ¬ 0 < nr p then _
    else if bloomHashes (α := ℝ) n.toNat (bloomBits (α := ℝ) n.toNat (nr p)) = 0 then _
    else Except.ok (nr p,
      (bloomHashes (α := ℝ) n.toNat (bloomBits (α := ℝ) n.toNat (nr p))).toNat,
      (bloomBits (α := ℝ) n.toNat (nr p)).toNat)) = Except.ok r ↔ _
  constructor
  · intro h
    split_ifs at h with h1 h2 h3 h4
    injection h with h
    exact ⟨by omega, h2.1, h2.2, h3, h4, h.symm⟩
  · rintro ⟨h1, h2, h3, h4, h5, rfl⟩
    rw [if_neg (by omega), if_neg (not_not.mpr ⟨h2, h3⟩), if_neg (not_not.mpr h4), if_neg h5]

/-- The error branches: `InitializationError` for `n ≤ 0` or `p ∉ [0,1)`, `ValueError`
    (`math.log` of a non-positive number) when the narrowed rate is not positive, and
    `InitializationError` when the hash count rounds to 0. -/
theorem C07_bloomParams_error (nr : ℝ → ℝ) (n : Int) (p : ℝ) :
    ((n ≤ 0 ∨ p < 0 ∨ 1 ≤ p) → @bloomParams ℝ (realLikeWith nr) n p = .error .initError) ∧
    (1 ≤ n → 0 ≤ p → p < 1 → nr p ≤ 0 →
        @bloomParams ℝ (realLikeWith nr) n p = .error .valueError) ∧
    (1 ≤ n → 0 ≤ p → p < 1 → 0 < nr p →
        bloomHashes (α := ℝ) n.toNat (bloomBits (α := ℝ) n.toNat (nr p)) = 0 →
        @bloomParams ℝ (realLikeWith nr) n p = .error .initError) := by
  rw [bloomParams_real]
  refine ⟨?_, ?_, ?_⟩
  · intro h
    by_cases h1 : n ≤ 0
    · rw [if_pos h1]
    · rw [if_neg h1, if_pos]
      rintro ⟨h2, h3⟩
      rcases h with h | h | h
      · exact h1 h
      · linarith
      · linarith
  · intro h1 h2 h3 h4
    rw [if_neg (by omega), if_neg (not_not.mpr ⟨h2, h3⟩), if_pos (not_lt.mpr h4)]
  · intro h1 h2 h3 h4 h5
    rw [if_neg (by omega), if_neg (not_not.mpr ⟨h2, h3⟩), if_neg (not_not.mpr h4)]
    exact if_pos h5

/-- The form used by the constructor with the registered instance (rate already narrowed):
    for `n ≥ 1` and `0 < t < 1` the call succeeds with `(t, k, m)` exactly when `k ≠ 0`, and
    raises `InitializationError` when `k = 0`; `k` and `m` are non-negative, so converting them to
    naturals loses nothing. -/
theorem C07_bloomParams_ok (n : Int) (t : ℝ) (hn : 1 ≤ n) (h0 : 0 < t) (h1 : t < 1) :
    let m := bloomBits (α := ℝ) n.toNat t
    let k := bloomHashes (α := ℝ) n.toNat m
    bloomParams (α := ℝ) n t =
        (if k = 0 then .error .initError else .ok (t, k.toNat, m.toNat)) ∧
      ((k.toNat : Int) = k) ∧ ((m.toNat : Int) = m) ∧ 1 ≤ m := by
  intro m k
  have hm := (C07_bloom_bits n.toNat t (by omega) h0 h1).1
  have hk := C07_bloom_hashes_pos n.toNat m (by omega)
  refine ⟨?_, Int.toNat_of_nonneg hk, Int.toNat_of_nonneg (by omega), hm⟩
  have hreal := bloomParams_real id n t
  simp only [id] at hreal
  rw [if_neg (by omega), if_neg (not_not.mpr ⟨h0.le, h1⟩), if_neg (not_not.mpr h0)] at hreal
  exact hreal

/-- Everything the returned triple `(t, k, m)` satisfies (any narrowing function that does not
    push a rate `< 1` above 1 — true of every monotone rounding, since 1 is a float32):
    `t` is the narrowed request, `0 < t < 1`, `k ≥ 1`, `m ≥ 1`, `m·c1 ≥ −n ln t`,
    `|k − c2·m/n| ≤ ½`, and `exp(−c1·m/n) ≤ t`. -/
theorem C07_bloom_delivered (nr : ℝ → ℝ) (n : Int) (p t : ℝ) (k m : Nat)
    (hle : nr p ≤ 1)
    (hok : @bloomParams ℝ (realLikeWith nr) n p = .ok (t, k, m)) :
    1 ≤ n ∧ t = nr p ∧ 0 < t ∧ t < 1 ∧ 1 ≤ k ∧ 1 ≤ m ∧
      -(n : ℝ) * Real.log t ≤ (m : ℝ) * c1 ∧
      |(k : ℝ) - c2 * (m : ℝ) / (n : ℝ)| ≤ 1 / 2 ∧
      Real.exp (-(c1 * (m : ℝ) / (n : ℝ))) ≤ t := by
  rw [C07_bloomParams_ok_iff] at hok
  obtain ⟨hn, hp0, hp1, ht0, hk0, hr⟩ := hok
  injection hr with ht hr
  injection hr with hk hm
  subst ht
  have hnn : ((n.toNat : Nat) : ℝ) = (n : ℝ) := by
    have : ((n.toNat : Nat) : Int) = n := Int.toNat_of_nonneg (by omega)
    exact_mod_cast this
  -- the narrowed rate cannot be 1: then `m = 0` and `k = 0`
  have ht1 : nr p < 1 := by
    rcases lt_or_eq_of_le hle with h | h
    · exact h
    · exfalso; apply hk0
      rw [show bloomBits (α := ℝ) n.toNat (nr p) = _ from bloomBits_real id _ _,
        show bloomHashes (α := ℝ) n.toNat _ = _ from bloomHashes_real id _ _, h]
      simp [roundHalfEven]
  obtain ⟨hm1, hbits⟩ := C07_bloom_bits n.toNat (nr p) (by omega) ht0 ht1
  have hkpos := C07_bloom_hashes_pos n.toNat (bloomBits (α := ℝ) n.toNat (nr p)) (by omega)
  have hhash := C07_bloom_hashes n.toNat (bloomBits (α := ℝ) n.toNat (nr p))
  have hopt := C07_bloom_optimum n.toNat (nr p) (by omega) ht0 ht1
  have hmc : ((m : Nat) : ℝ) = ((bloomBits (α := ℝ) n.toNat (nr p) : Int) : ℝ) := by
    have : ((m : Nat) : Int) = bloomBits (α := ℝ) n.toNat (nr p) := by
      rw [hm]; exact Int.toNat_of_nonneg (by omega)
    exact_mod_cast this
  have hkc : ((k : Nat) : ℝ) =
      ((bloomHashes (α := ℝ) n.toNat (bloomBits (α := ℝ) n.toNat (nr p)) : Int) : ℝ) := by
    have : ((k : Nat) : Int) = bloomHashes (α := ℝ) n.toNat (bloomBits (α := ℝ) n.toNat (nr p)) := by
      rw [hk]; exact Int.toNat_of_nonneg hkpos
    exact_mod_cast this
  rw [hnn] at hbits hhash hopt
  refine ⟨hn, rfl, ht0, ht1, ?_, ?_, ?_, ?_, ?_⟩
  · rw [hk]; omega
  · rw [hm]; omega
  · rw [hmc]; exact hbits
  · rw [hmc, hkc]; exact hhash
  · rw [hmc]; exact hopt

/-- a monotone narrowing that fixes 1 never lifts a rate `< 1` above 1 -/
theorem C07_narrow_le_one (nr : ℝ → ℝ) (hmono : Monotone nr) (hone : nr 1 = 1) (p : ℝ)
    (hp : p < 1) : nr p ≤ 1 := hone ▸ hmono hp.le

/-! ### the rounding allowance and the packaged Bloom clause -/

/-- Code-independent real inequality: with `m` bits satisfying `m·c1 ≥ −n ln t` and a hash count
    `k ≥ 1` within ½ of `c2·m/n`, the textbook false-positive rate `(1 − e^{−kn/m})^k` exceeds `t`
    by at most 7 %.  (`c1`, `c2` are spelled out as the rational numbers they are.) -/
def C07_BloomRoundingAllowance : Prop :=
  ∀ (n m k : Nat) (t : ℝ), 1 ≤ n → 1 ≤ m → 1 ≤ k → 0 < t → t < 1 →
    -(n : ℝ) * Real.log t ≤ (m : ℝ) * (8655072057804149 / 18014398509481984) →
    |(k : ℝ) - (6243314768165359 / 9007199254740992) * (m : ℝ) / (n : ℝ)| ≤ 1 / 2 →
    (1 - Real.exp (-((k : ℝ) * (n : ℝ) / (m : ℝ)))) ^ k ≤ (107 / 100) * t

/-- The Bloom clause of C07 at full strength: whatever geometry `_get_optimized_params` returns,
    the model's `current_false_positive_rate` formula evaluated at the planned load `n` is at most
    1.07 × the (narrowed) requested rate. -/
def C07_bloom_full_statement : Prop :=
  ∀ (nr : ℝ → ℝ) (n : Int) (p t : ℝ) (k m : Nat), nr p ≤ 1 →
    @bloomParams ℝ (realLikeWith nr) n p = .ok (t, k, m) →
    currentFpr (α := ℝ) m k n ≤ (107 / 100) * t

theorem C07_bloom_partial (h : C07_BloomRoundingAllowance) : C07_bloom_full_statement := by
  intro nr n p t k m hle hok
  obtain ⟨hn, _, ht0, ht1, hk, hm, hbits, hhash, _⟩ := C07_bloom_delivered nr n p t k m hle hok
  have hnn : ((n.toNat : Nat) : ℝ) = (n : ℝ) := by
    have : ((n.toNat : Nat) : Int) = n := Int.toNat_of_nonneg (by omega)
    exact_mod_cast this
  rw [c1_eq] at hbits
  rw [c2_eq] at hhash
  have key := h n.toNat m k t (by omega) hm hk ht0 ht1 (by rw [hnn]; exact hbits)
    (by rw [hnn]; exact hhash)
  rw [show currentFpr (α := ℝ) m k n = _ from currentFpr_real id m k n, Real.rpow_natCast]
  rw [hnn] at key
  have : ((((k : Int) * (-1) * n : Int)) : ℝ) / (m : ℝ) = -((k : ℝ) * (n : ℝ) / (m : ℝ)) := by
    push_cast; ring
  rw [this]
  exact key

/-! ### reload stability -/

open RealLike in
/-- Generic over every instance (in particular `Float`, the executed one): if narrowing is
    idempotent at `p`, the triple obtained from `p` carries `t = narrow32 p`, and feeding that
    stored `t` through the same function again (what a reload does) re-derives the same triple —
    it can only fail the range test on `t`, never return a different geometry. -/
theorem C07_stable {α : Type} [RealLike α] (n : Int) (p : α) (r : α × Nat × Nat)
    (hidem : narrow32 (narrow32 p) = narrow32 p)
    (hok : bloomParams n p = .ok r) :
    r.1 = narrow32 p ∧
      ((le (ofInt 0) r.1 && lt r.1 (ofInt 1)) = true → bloomParams n r.1 = .ok r) ∧
      (∀ r', bloomParams n r.1 = .ok r' → r' = r) := by
  unfold bloomParams at hok
  split at hok
  · cases hok
  rename_i hn
  split at hok
  · cases hok
  simp only at hok
  split at hok
  · cases hok
  rename_i hpos
  split at hok
  · cases hok
  rename_i hk
  injection hok with hok
  subst hok
  simp only
  have hre : ∀ (hr : (le (ofInt 0) (narrow32 p) && lt (narrow32 p) (ofInt 1)) = true),
      bloomParams n (narrow32 p) = .ok (narrow32 p,
        (bloomHashes (α := α) n.toNat (bloomBits n.toNat (narrow32 p))).toNat,
        (bloomBits n.toNat (narrow32 p)).toNat) := by
    intro hr
    unfold bloomParams
    rw [if_neg hn, if_neg (by simp [hr])]
    simp only [hidem]
    rw [if_neg hpos, if_neg hk]
  refine ⟨trivial, hre, ?_⟩
  intro r' h'
  by_cases hr : (le (ofInt 0) (narrow32 p) && lt (narrow32 p) (ofInt 1)) = true
  · rw [hre hr] at h'
    injection h' with h'
    exact h'.symm
  · unfold bloomParams at h'
    rw [if_neg hn, if_pos (by simp [hr])] at h'
    cases h'

/-- Over ℝ with any narrowing function that is idempotent at `p` and keeps `p < 1` at or below
    1: the reload succeeds and yields exactly the original `(t, k, m)`. -/
theorem C07_stable_real (nr : ℝ → ℝ) (n : Int) (p t : ℝ) (k m : Nat)
    (hidem : nr (nr p) = nr p) (hle : nr p ≤ 1)
    (hok : @bloomParams ℝ (realLikeWith nr) n p = .ok (t, k, m)) :
    @bloomParams ℝ (realLikeWith nr) n t = .ok (t, k, m) := by
  obtain ⟨_, ht, ht0, ht1, _⟩ := C07_bloom_delivered nr n p t k m hle hok
  have h := (@C07_stable ℝ (realLikeWith nr) n p (t, k, m) hidem hok).2.1
  apply h
  simp [ht0.le, ht1]

/-! ### non-vacuity: concrete instances (tests, not theorems)

The numeric evaluations of the model formulas (`cmsDepth_95`, `bloomBits_1_half`,
`bloomHashes_1_2`) and the sample narrowing `upHalf` are in Lemmas/SizingExamples.lean. -/

/-- TEST. ε = 1 % gives width 200, and `2/200 ≤ 1/100` -/
example : cmsWidth (α := ℝ) (1 / 100) = 200 ∧ (2 : ℝ) / ((200 : Int) : ℝ) ≤ 1 / 100 := by
  rw [show cmsWidth (α := ℝ) (1 / 100) = _ from cmsWidth_real id _]
  norm_num

/-- TEST. confidence 95 % gives depth 5 (`ln 20 / 0.693… ≈ 4.32`), and `1 − 2⁻⁵ ≥ 0.95`
    as an instance of `C07_cms_depth` -/
example : cmsDepth (α := ℝ) (95 / 100) = 5 ∧
    (95 / 100 : ℝ) ≤ 1 - (2 : ℝ) ^ (-(((5 : Int)) : ℝ)) := by
  have h := (C07_cms_depth (95 / 100) (by norm_num) (by norm_num)).2
  rw [cmsDepth_95] at h
  exact ⟨cmsDepth_95, h⟩

/-- TEST. ε = 0.1 %, buckets of 4: 13 fingerprint bits (`log₂ 1000 ≈ 9.97`, + 2 + 1) -/
example : cuckooFpBits (α := ℝ) (1 / 1000) 4 = 13 := by
  rw [show cuckooFpBits (α := ℝ) (1 / 1000) 4 = _ from cuckooFpBits_real id _ _]
  rw [Int.ceil_eq_iff]
  have h4 : Real.logb 2 ((4 : Nat) : ℝ) = 2 := by
    rw [show ((4 : Nat) : ℝ) = (2 : ℝ) ^ (2 : ℝ) by norm_num]
    exact Real.logb_rpow (by norm_num) (by norm_num)
  have h9 : 9 < Real.logb 2 (1 / (1 / 1000)) := by
    rw [Real.lt_logb_iff_rpow_lt (by norm_num) (by norm_num)]; norm_num
  have h10 : Real.logb 2 (1 / (1 / 1000)) ≤ 10 := by
    rw [Real.logb_le_iff_le_rpow (by norm_num) (by norm_num)]; norm_num
  rw [h4]; push_cast; constructor <;> linarith

/-- TEST. one element at rate ½: 2 bits, 1 hash -/
example : bloomParams (α := ℝ) 1 (1 / 2) = .ok (1 / 2, 1, 2) := by
  have h := (C07_bloomParams_ok 1 (1 / 2) (by norm_num) (by norm_num) (by norm_num)).1
  simp only [Int.toNat_one, bloomBits_1_half, bloomHashes_1_2] at h
  simpa using h

/-- TEST. the `number_hashes == 0` rejection is reachable: 10 elements at rate 0.9 -/
example : bloomParams (α := ℝ) 10 (9 / 10) = .error .initError := by
  have hm := C07_bloom_bits 10 (9 / 10) (by norm_num) (by norm_num) (by norm_num)
  have hup : bloomBits (α := ℝ) 10 (9 / 10) ≤ 7 := by
    rw [show bloomBits (α := ℝ) 10 (9 / 10) = _ from bloomBits_real id _ _, Int.ceil_le]
    have hl : Real.log (9 / 10) = -Real.log (10 / 9) := by
      rw [← Real.log_inv]; norm_num
    have h2 : Real.log (10 / 9) ≤ 10 / 9 - 1 := Real.log_le_sub_one_of_pos (by norm_num)
    rw [hl, c1_eq, div_le_iff₀ (by norm_num)]; push_cast; linarith
  have hk : bloomHashes (α := ℝ) 10 (bloomBits (α := ℝ) 10 (9 / 10)) = 0 := by
    rw [show bloomHashes (α := ℝ) 10 _ = _ from bloomHashes_real id _ _]
    generalize bloomBits (α := ℝ) 10 (9 / 10) = m at hm hup
    have h1 : (1 : ℝ) ≤ m := by exact_mod_cast hm.1
    have h7 : (m : ℝ) ≤ 7 := by exact_mod_cast hup
    apply roundHalfEven_eq_of_lt_half <;> rw [c2_eq] <;> push_cast
    · positivity
    · rw [div_lt_iff₀ (by norm_num)]; linarith
  have h := (C07_bloomParams_ok 10 (9 / 10) (by norm_num) (by norm_num) (by norm_num)).1
  simp only [show (10 : Int).toNat = 10 from rfl, hk] at h
  simpa using h

/-- TEST. With the narrowing `upHalf` (round up to a multiple of ½ — idempotent, monotone, fixes 1,
    and really moves the rate): requested 0.3 is narrowed to 0.5 and gives `(k, m) = (1, 2)`;
    reloading with the stored 0.5 gives the same triple, as an instance of `C07_stable_real`. -/
example : @bloomParams ℝ (realLikeWith upHalf) 1 (3 / 10) = .ok (1 / 2, 1, 2) ∧
    @bloomParams ℝ (realLikeWith upHalf) 1 (1 / 2) = .ok (1 / 2, 1, 2) := by
  have h : @bloomParams ℝ (realLikeWith upHalf) 1 (3 / 10) = .ok (1 / 2, 1, 2) := by
    rw [C07_bloomParams_ok_iff, upHalf_three_tenths, Int.toNat_one, bloomBits_1_half,
      bloomHashes_1_2]
    refine ⟨le_refl _, by norm_num, by norm_num, by norm_num, by norm_num, rfl⟩
  exact ⟨h, C07_stable_real upHalf 1 (3 / 10) (1 / 2) 1 2 (upHalf_idem _)
    (C07_narrow_le_one upHalf upHalf_monotone upHalf_one _ (by norm_num)) h⟩

/-! ### the 7 % clause, unconditionally -/

/-- the rounding allowance is a theorem (analytic proof in `Lemmas/BloomAllowance.lean`: recentring at
    the code's ln 2 literal, three regions of `u = kn/m`, supremum ¾·√2 ≈ 1.0607 at k = 1) -/
theorem C07_allowance : C07_BloomRoundingAllowance := PyProb.BloomAllowance.bloom_rounding_allowance

/-- **the Bloom clause of C07 at full strength**: whatever geometry `_get_optimized_params` returns,
    the theoretical false-positive rate at the planned load is at most 1.07 × the (narrowed) request -/
theorem C07_bloom_full : C07_bloom_full_statement := C07_bloom_partial C07_allowance

end PyProb.C07
