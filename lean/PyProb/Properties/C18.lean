/-
  C18 — hash strategies are deterministic (functions), return exactly `depth` values, are
  prefix-stable, in range, and equal the published FNV-1a.  Property theorems only.
-/
import PyProb.Model.Hashes
import PyProb.Model.Digest
import PyProb.Spec.Fnv

namespace PyProb.C18
open PyProb

/-! ### exactly `depth` values -/

theorem C18_len_default (key : Key) (d : Nat) : (defaultFnv key d).length = d := by
  simp [defaultFnv]

private theorem depthBytesGo_length (f : Bytes → Nat → Bytes) (tmp : Bytes) (i n : Nat) :
    (depthBytesGo f tmp i n).length = n := by
  induction n generalizing tmp i with
  | zero => rfl
  | succ n ih => simp [depthBytesGo, ih]

/-- any strategy built by `hash_with_depth_bytes` from any function (hence md5, sha256) -/
theorem C18_len_bytes (f : Bytes → Nat → Bytes) (key : Key) (d : Nat) :
    (withDepthBytes f key d).length = d := depthBytesGo_length f _ _ _

private theorem depthIntGo_length (f : Key → Nat → Nat) (tmp i n : Nat) :
    (depthIntGo f tmp i n).length = n := by
  induction n generalizing tmp i with
  | zero => rfl
  | succ n ih => simp [depthIntGo, ih]

/-- any strategy built by `hash_with_depth_int`, for depth ≥ 1 -/
theorem C18_len_int (f : Key → Nat → Nat) (key : Key) (d : Nat) (hd : 1 ≤ d) :
    (withDepthInt f key d).length = d := by
  simp [withDepthInt, depthIntGo_length]; omega

/-! ### a smaller depth is a prefix of a larger one -/

theorem C18_prefix_default (key : Key) (d d' : Nat) (h : d ≤ d') :
    defaultFnv key d = (defaultFnv key d').take d := by
  simp only [defaultFnv, ← List.map_take, List.take_range, Nat.min_eq_left h]

private theorem depthBytesGo_prefix (f : Bytes → Nat → Bytes) (tmp : Bytes) (i n n' : Nat) (h : n ≤ n') :
    depthBytesGo f tmp i n = (depthBytesGo f tmp i n').take n := by
  induction n generalizing tmp i n' with
  | zero => simp [depthBytesGo]
  | succ n ih =>
      cases n' with
      | zero => omega
      | succ n' => simp [depthBytesGo, ih _ _ n' (by omega)]

theorem C18_prefix_bytes (f : Bytes → Nat → Bytes) (key : Key) (d d' : Nat) (h : d ≤ d') :
    withDepthBytes f key d = (withDepthBytes f key d').take d := depthBytesGo_prefix f _ _ _ _ h

private theorem depthIntGo_prefix (f : Key → Nat → Nat) (tmp i n n' : Nat) (h : n ≤ n') :
    depthIntGo f tmp i n = (depthIntGo f tmp i n').take n := by
  induction n generalizing tmp i n' with
  | zero => simp [depthIntGo]
  | succ n ih =>
      cases n' with
      | zero => omega
      | succ n' => simp [depthIntGo, ih _ _ n' (by omega)]

theorem C18_prefix_int (f : Key → Nat → Nat) (key : Key) (d d' : Nat) (hd : 1 ≤ d) (h : d ≤ d') :
    withDepthInt f key d = (withDepthInt f key d').take d := by
  obtain ⟨n, rfl⟩ : ∃ n, d = n + 1 := ⟨d - 1, by omega⟩
  obtain ⟨n', rfl⟩ : ∃ n', d' = n' + 1 := ⟨d' - 1, by omega⟩
  simp [withDepthInt, depthIntGo_prefix f _ _ n n' (by omega)]

/-! ### unsigned 64-bit range of the shipped strategies -/

private theorem mask64 : Gen.fnv64Mask = 2 ^ 64 - 1 := by decide
private theorem mask32 : Gen.fnv32Mask = 2 ^ 32 - 1 := by decide

private theorem fnvLoop_lt (prime bits h : Nat) (l : List Nat) (hh : h < 2 ^ bits) :
    fnvLoop prime (2 ^ bits - 1) h l < 2 ^ bits := by
  induction l generalizing h with
  | nil => exact hh
  | cons c cs ih =>
      apply ih
      rw [Nat.and_two_pow_sub_one_eq_mod]
      exact Nat.mod_lt _ (Nat.two_pow_pos _)

private theorem fnvStart_lt (offset mult bits : Nat) (seed : Int) :
    fnvStart offset mult (2 ^ bits - 1) seed < 2 ^ bits := by
  unfold fnvStart
  have hpos : (0 : Int) < ((2 ^ bits - 1 : Nat) : Int) + 1 := by omega
  have h1 := Int.emod_lt_of_pos ((offset : Int) + (mult : Int) * seed) hpos
  have h0 := Int.emod_nonneg ((offset : Int) + (mult : Int) * seed) (Int.ne_of_gt hpos)
  have h2 : ((2 ^ bits - 1 : Nat) : Int) + 1 = ((2 ^ bits : Nat) : Int) := by
    have := Nat.two_pow_pos bits; omega
  omega

/-- the source masks the seeded offset basis (extracted fact; `rfl` fails if it no longer does) -/
private theorem init64 (seed : Int) :
    fnvInit Gen.fnv64StartMasked Gen.fnv64Offset Gen.fnv64Mult Gen.fnv64Mask seed =
      fnvStart Gen.fnv64Offset Gen.fnv64Mult Gen.fnv64Mask seed := rfl

private theorem init32 (seed : Int) :
    fnvInit Gen.fnv32StartMasked Gen.fnv32Offset Gen.fnv32Mult Gen.fnv32Mask seed =
      fnvStart Gen.fnv32Offset Gen.fnv32Mult Gen.fnv32Mask seed := rfl

theorem C18_range_fnv64 (key : Key) (seed : Int) : fnv1a64 key seed < 2 ^ 64 := by
  unfold fnv1a64; rw [init64, mask64]; exact fnvLoop_lt _ 64 _ _ (fnvStart_lt _ _ 64 _)

theorem C18_range_fnv32 (key : Key) (seed : Int) : fnv1a32 key seed < 2 ^ 32 := by
  unfold fnv1a32; rw [init32, mask32]; exact fnvLoop_lt _ 32 _ _ (fnvStart_lt _ _ 32 _)

theorem C18_range_default (key : Key) (d : Nat) : ∀ v ∈ defaultFnv key d, v < 2 ^ 64 := by
  intro v hv
  simp only [defaultFnv, List.mem_map] at hv
  obtain ⟨i, _, rfl⟩ := hv
  exact C18_range_fnv64 _ _

private theorem ofLE_lt (bs : Bytes) (h : ∀ x ∈ bs, x < 256) : ofLE bs < 256 ^ bs.length := by
  induction bs with
  | nil => simp [ofLE]
  | cons b bs ih =>
      have hb := h b (by simp)
      have := ih (fun x hx => h x (by simp [hx]))
      simp only [ofLE, List.length_cons, Nat.pow_succ]
      omega

private theorem depthBytesGo_range (f : Bytes → Nat → Bytes) (hf : ∀ b i, ∀ x ∈ f b i, x < 256)
    (tmp : Bytes) (i n : Nat) : ∀ v ∈ depthBytesGo f tmp i n, v < 2 ^ 64 := by
  induction n generalizing tmp i with
  | zero => simp [depthBytesGo]
  | succ n ih =>
      intro v hv
      simp only [depthBytesGo, List.mem_cons] at hv
      rcases hv with rfl | hv
      · have h1 := ofLE_lt ((f tmp i).take 8) (fun x hx => hf _ _ x (List.mem_of_mem_take hx))
        have h2 : ((f tmp i).take 8).length ≤ 8 := by simp; omega
        calc ofLE _ < 256 ^ ((f tmp i).take 8).length := h1
          _ ≤ 256 ^ 8 := Nat.pow_le_pow_right (by decide) h2
          _ = 2 ^ 64 := by decide
      · exact ih _ _ v hv

/-- the byte decorator applied to any function returning bytes (md5, sha256) stays within 64 bits -/
theorem C18_range_bytes (f : Bytes → Nat → Bytes) (hf : ∀ b i, ∀ x ∈ f b i, x < 256)
    (key : Key) (d : Nat) : ∀ v ∈ withDepthBytes f key d, v < 2 ^ 64 :=
  depthBytesGo_range f hf _ _ _

/-! ### the default strategy is the published FNV-1a -/

private theorem fnvLoop_eq_spec (prime bits h : Nat) (l : List Nat) :
    fnvLoop prime (2 ^ bits - 1) h l = Spec.fnv1a prime bits h l := by
  induction l generalizing h with
  | nil => rfl
  | cons c cs ih =>
      simp only [fnvLoop, Spec.fnv1a, List.foldl_cons]
      rw [Nat.and_two_pow_sub_one_eq_mod]
      exact ih _

private theorem fnvStart_nat (offset mult bits : Nat) (i : Nat) :
    fnvStart offset mult (2 ^ bits - 1) (Int.ofNat i) = (offset + mult * i) % 2 ^ bits := by
  unfold fnvStart
  have h2 : ((2 ^ bits - 1 : Nat) : Int) + 1 = ((2 ^ bits : Nat) : Int) := by
    have := Nat.two_pow_pos bits; omega
  rw [h2]
  have : (offset : Int) + (mult : Int) * Int.ofNat i = ((offset + mult * i : Nat) : Int) := by
    simp
  rw [this, ← Int.natCast_emod, Int.toNat_natCast]

/-- `fnv_1a(key, i)` is the published 64-bit FNV-1a started from the basis advanced by `31·i`;
    the constants on the left are extracted from the source, those on the right are the published ones -/
theorem C18_fnv64_is_published (key : Key) (i : Nat) :
    fnv1a64 key (Int.ofNat i) = Spec.fnv1a64 ((Spec.fnv64Basis + 31 * i) % 2 ^ 64) key.units := by
  unfold fnv1a64 Spec.fnv1a64
  rw [init64, mask64, fnvLoop_eq_spec, fnvStart_nat]
  rfl

/-- the 32-bit variant used by the quotient filter -/
theorem C18_fnv32_is_published (key : Key) (i : Nat) :
    fnv1a32 key (Int.ofNat i) = Spec.fnv1a32 ((Spec.fnv32Basis + 31 * i) % 2 ^ 32) key.units := by
  unfold fnv1a32 Spec.fnv1a32
  rw [init32, mask32, fnvLoop_eq_spec, fnvStart_nat]
  rfl

theorem C18_default_is_published_fnv (key : Key) (d : Nat) :
    defaultFnv key d =
      (List.range d).map fun i => Spec.fnv1a64 ((Spec.fnv64Basis + 31 * i) % 2 ^ 64) key.units := by
  simp only [defaultFnv, C18_fnv64_is_published]

/-! ### text keys hash like their UTF-8 bytes -/

private theorem utf8_ascii (cps : List Nat) (h : ∀ c ∈ cps, c < 128) : utf8 cps = cps := by
  induction cps with
  | nil => rfl
  | cons c cs ih =>
      have hc := h c (by simp)
      have := ih (fun x hx => h x (by simp [hx]))
      simp only [utf8, List.flatMap_cons] at this ⊢
      rw [this]
      simp [utf8Char, hc]

/-- FNV-1a: an ASCII text key hashes like its UTF-8 bytes -/
theorem C18_ascii (cps : List Nat) (h : ∀ c ∈ cps, c < 128) (d : Nat) :
    defaultFnv ⟨true, cps⟩ d = defaultFnv ⟨false, utf8 cps⟩ d := by
  rw [utf8_ascii cps h]; rfl

/-- byte decorator (md5, sha256, any function): a text key always hashes like its UTF-8 bytes -/
theorem C18_text_bytes_digest (f : Bytes → Nat → Bytes) (cps : List Nat) (d : Nat) :
    withDepthBytes f ⟨true, cps⟩ d = withDepthBytes f ⟨false, utf8 cps⟩ d := rfl

/-! ### the shipped digest strategies (MD5 / SHA-256 as implemented in `Model/Digest.lean`, which the
    hashes suite compares with `hashlib`) are instances of the byte decorator -/

private theorem leBytes_lt (n v : Nat) : ∀ x ∈ leBytes n v, x < 256 := by
  induction n generalizing v with
  | zero => simp [leBytes]
  | succ n ih =>
      intro x hx
      simp only [leBytes, List.mem_cons] at hx
      rcases hx with rfl | hx
      · exact Nat.mod_lt _ (by decide)
      · exact ih _ x hx

private theorem md5_bytes (b : Bytes) : ∀ x ∈ md5 b, x < 256 := by
  intro x hx
  simp only [md5, List.mem_append] at hx
  rcases hx with ((h | h) | h) | h <;> exact leBytes_lt _ _ x h

private theorem sha256_bytes (b : Bytes) : ∀ x ∈ sha256 b, x < 256 := by
  intro x hx
  simp only [sha256, List.mem_flatMap] at hx
  obtain ⟨w, _, hw⟩ := hx
  simp only [beBytes, List.mem_reverse] at hw
  exact leBytes_lt _ _ x hw

/-- `default_md5` and `default_sha256`: exactly `depth` values, prefix-stable, unsigned 64-bit, and a
    text key hashes like its UTF-8 bytes -/
theorem C18_md5 (key : Key) (d d' : Nat) (h : d ≤ d') :
    (defaultMd5 key d).length = d ∧ defaultMd5 key d = (defaultMd5 key d').take d ∧
    (∀ v ∈ defaultMd5 key d, v < 2 ^ 64) :=
  ⟨C18_len_bytes _ key d, C18_prefix_bytes _ key d d' h, C18_range_bytes _ (fun b _ => md5_bytes b) key d⟩

theorem C18_sha256 (key : Key) (d d' : Nat) (h : d ≤ d') :
    (defaultSha256 key d).length = d ∧ defaultSha256 key d = (defaultSha256 key d').take d ∧
    (∀ v ∈ defaultSha256 key d, v < 2 ^ 64) :=
  ⟨C18_len_bytes _ key d, C18_prefix_bytes _ key d d' h, C18_range_bytes _ (fun b _ => sha256_bytes b) key d⟩

theorem C18_digest_text (cps : List Nat) (d : Nat) :
    defaultMd5 ⟨true, cps⟩ d = defaultMd5 ⟨false, utf8 cps⟩ d ∧
    defaultSha256 ⟨true, cps⟩ d = defaultSha256 ⟨false, utf8 cps⟩ d := ⟨rfl, rfl⟩

/-! ### published test vectors (tests, labelled as such) and non-vacuity -/

example : fnv1a64 ⟨true, [97]⟩ 0 = 0xaf63dc4c8601ec8c := by decide
example : fnv1a64 ⟨false, [102, 111, 111, 98, 97, 114]⟩ 0 = 0x85944171f73967e8 := by decide
example : fnv1a32 ⟨true, [97]⟩ 0 = 0xe40c292c := by decide
example : fnv1a32 ⟨false, [102, 111, 111, 98, 97, 114]⟩ 0 = 0xbf9cf968 := by decide
example : defaultFnv ⟨true, [97]⟩ 2 = (defaultFnv ⟨true, [97]⟩ 5).take 2 := C18_prefix_default _ 2 5 (by decide)
example : (withDepthInt (fun k i => k.units.sum + i) ⟨true, [1, 2]⟩ 3).length = 3 := C18_len_int _ _ 3 (by decide)

end PyProb.C18
