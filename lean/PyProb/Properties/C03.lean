/-
  C03 — cuckoo filters (plain and counting) lose no key through kicks, expansion or a failed insert.

  Everything is proved for ALL second-index hashes `G`, ALL oracles (resolutions of the filter's
  random choices), all `maxSwaps`, capacities, bucket sizes, rates ≥ 1 (via `C15.Inv`, which every
  reachable state satisfies: `C15_init`, `C15_run`).  Keys are represented by their hash value
  (`add`/`check`/`remove` only ever use `hash(key)`).

  * `C03_insertFp_conservation`, `…_bins`, `…_counts` : conservation law of `_insert_fingerprint`:
    occurrences after + [left-over] = occurrences before + [inserted], per fingerprint, per bin value
    (a kicked victim keeps its count) and per fingerprint count; `C03_insertFp_failed`: a failed
    insert returns the table unchanged together with the bin it was given.
  * `C03_check_eq_cnt`, `C03_check_pos_iff` : `check` returns the stored count; `check > 0 ↔ contains`.
  * `C03_add_ok`, `C03_add_ok_absent`, `C03_failed_add`, `C03_remove`, `C03_remove_false`, `C03_expand` :
    per-operation statements (success and failure branch).
  * `C03_exact` : over any history the count stored for every fingerprint equals the count predicted
    by a table-free specification (nothing lost, nothing invented, counts exact).
  * `C03_history` : over any history, every key added (by an `add` that returned normally) and whose
    fingerprint was not the target of a later `remove` is reported present by `check` — after every
    call, including calls that raised `CuckooFilterFullError`.
  Nothing is left unproved.  Loading an export is not part of the histories (see C05).
-/
import PyProb.Properties.C15

namespace PyProb.C03
open PyProb PyProb.Cuckoo PyProb.C15

/-! ### definitions used in the statements -/

/-- what `check` tests: the fingerprint sits in one of its two candidate buckets -/
def contains (G : Nat → Nat) (c : Cuckoo) (fp : Nat) : Prop :=
  c.hasFp (fp % c.cap) fp = true ∨ c.hasFp (G fp % c.cap) fp = true

/-- number of stored bins with fingerprint `g` -/
def occ (c : Cuckoo) (g : Nat) : Nat := (c.buckets.map (fun bkt => (bkt.map (·.1)).count g)).sum

/-- number of stored bins equal to `bn` (fingerprint and count) -/
def occBin (c : Cuckoo) (bn : CBin) : Nat := (c.buckets.map (fun bkt => bkt.count bn)).sum

/-- total count stored for fingerprint `g` -/
def cnt (c : Cuckoo) (g : Nat) : Nat :=
  (c.buckets.map (fun bkt => ((bkt.filter (·.1 == g)).map (·.2)).sum)).sum

/-- 1 if the left-over bin satisfies `p`, else 0 -/
def inHand (left : Option CBin) (p : CBin → Bool) : Nat :=
  match left with
  | some l => if p l then 1 else 0
  | none => 0

/-- count of the left-over bin if it has fingerprint `g` -/
def inHandCnt (left : Option CBin) (g : Nat) : Nat :=
  match left with
  | some l => if l.1 = g then l.2 else 0
  | none => 0

private theorem contains_iff (G : Nat → Nat) (c : Cuckoo) (fp : Nat) : contains G c fp ↔ containsL G c fp := Iff.rfl

private theorem occ_eq (c : Cuckoo) (g : Nat) : occ c g = tsum (isFp g) c := by
  unfold occ tsum; congr 1
  exact List.map_congr_left (fun bkt _ => (bsum_isFp_eq_count g bkt).symm)

private theorem occBin_eq (c : Cuckoo) (bn : CBin) : occBin c bn = tsum (isBin bn) c := by
  unfold occBin tsum; congr 1
  exact List.map_congr_left (fun bkt _ => (bsum_isBin_eq_count bn bkt).symm)

private theorem cnt_eq (c : Cuckoo) (g : Nat) : cnt c g = tsum (cntW g) c := by
  unfold cnt tsum; congr 1
  exact List.map_congr_left (fun bkt _ => (bsum_cntW_eq g bkt).symm)

private theorem wf {G : Nat → Nat} {c : Cuckoo} (h : Inv G c) : WF G c := (inv_iff_wf G c).mp h

private theorem contains_iff_cnt {G : Nat → Nat} {c : Cuckoo} (h : Inv G c) (g : Nat) :
    contains G c g ↔ 0 < cnt c g := by
  rw [cnt_eq]; exact containsL_iff_cnt (wf h) g

theorem C03_contains_iff_occ (G : Nat → Nat) (c : Cuckoo) (hinv : Inv G c) (g : Nat) :
    contains G c g ↔ 0 < occ c g := by
  rw [occ_eq]; exact containsL_iff_isFp (wf hinv).ts g

/-! ### `check` -/

/-- `check` returns the count stored for the key's fingerprint (0 or 1 for the plain filter) -/
theorem C03_check_eq_cnt (G : Nat → Nat) (c : Cuckoo) (hinv : Inv G c) (h : Nat) :
    check G c h = cnt c (c.fingerprint h) := by
  rw [cnt_eq]; exact check_eq_cnt (wf hinv) h

theorem C03_check_pos_iff (G : Nat → Nat) (c : Cuckoo) (hinv : Inv G c) (h : Nat) :
    0 < check G c h ↔ contains G c (c.fingerprint h) := by
  rw [C03_check_eq_cnt G c hinv, contains_iff_cnt hinv]

/-! ### conservation law of `_insert_fingerprint` -/

private theorem insertFp_cons {G : Nat → Nat} {c : Cuckoo} (hinv : Inv G c) (bin : CBin) (o : List Nat)
    (f : CBin → Nat) :
    tsum f (insertFp G c bin (bin.1 % c.cap) (G bin.1 % c.cap) o).1
      + optW f (insertFp G c bin (bin.1 % c.cap) (G bin.1 % c.cap) o).2.1 = tsum f c + f bin := by
  rcases insertFp_spec (G := G) bin o (wf hinv).ts with ⟨hl, _, _, hc⟩ | ⟨hl, hc⟩
  · rw [hl, hc]; rfl
  · rw [hl, hc]; rfl

/-- per fingerprint `g`: occurrences after + [left-over has fingerprint `g`] = occurrences before +
    [inserted fingerprint is `g`] -/
theorem C03_insertFp_conservation (G : Nat → Nat) (c : Cuckoo) (hinv : Inv G c) (bin : CBin)
    (oracle : List Nat) (g : Nat) :
    occ (insertFp G c bin (bin.1 % c.cap) (G bin.1 % c.cap) oracle).1 g
      + inHand (insertFp G c bin (bin.1 % c.cap) (G bin.1 % c.cap) oracle).2.1 (·.1 == g)
    = occ c g + (if bin.1 = g then 1 else 0) := by
  have := insertFp_cons hinv bin oracle (isFp g)
  rw [occ_eq, occ_eq]
  generalize insertFp G c bin (bin.1 % c.cap) (G bin.1 % c.cap) oracle = r at this ⊢
  obtain ⟨c', left, o'⟩ := r
  cases left <;> simpa [inHand, optW, isFp] using this

/-- per bin value `bn` (fingerprint together with its count): a kicked victim keeps its count -/
theorem C03_insertFp_conservation_bins (G : Nat → Nat) (c : Cuckoo) (hinv : Inv G c) (bin : CBin)
    (oracle : List Nat) (bn : CBin) :
    occBin (insertFp G c bin (bin.1 % c.cap) (G bin.1 % c.cap) oracle).1 bn
      + inHand (insertFp G c bin (bin.1 % c.cap) (G bin.1 % c.cap) oracle).2.1 (· == bn)
    = occBin c bn + (if bin = bn then 1 else 0) := by
  have := insertFp_cons hinv bin oracle (isBin bn)
  rw [occBin_eq, occBin_eq]
  generalize insertFp G c bin (bin.1 % c.cap) (G bin.1 % c.cap) oracle = r at this ⊢
  obtain ⟨c', left, o'⟩ := r
  cases left <;> simpa [inHand, optW, isBin] using this

/-- per fingerprint `g`: the total count is conserved -/
theorem C03_insertFp_conservation_counts (G : Nat → Nat) (c : Cuckoo) (hinv : Inv G c) (bin : CBin)
    (oracle : List Nat) (g : Nat) :
    cnt (insertFp G c bin (bin.1 % c.cap) (G bin.1 % c.cap) oracle).1 g
      + inHandCnt (insertFp G c bin (bin.1 % c.cap) (G bin.1 % c.cap) oracle).2.1 g
    = cnt c g + (if bin.1 = g then bin.2 else 0) := by
  have := insertFp_cons hinv bin oracle (cntW g)
  rw [cnt_eq, cnt_eq]
  generalize insertFp G c bin (bin.1 % c.cap) (G bin.1 % c.cap) oracle = r at this ⊢
  obtain ⟨c', left, o'⟩ := r
  cases left <;> simpa [inHandCnt, optW, cntW] using this

/-- a failed insert (swaps exhausted) hands back exactly the bin it was given and the table it was given -/
theorem C03_insertFp_failed (G : Nat → Nat) (c : Cuckoo) (hinv : Inv G c) (bin : CBin) (oracle : List Nat)
    (hfail : (insertFp G c bin (bin.1 % c.cap) (G bin.1 % c.cap) oracle).2.1 ≠ none) :
    (insertFp G c bin (bin.1 % c.cap) (G bin.1 % c.cap) oracle).2.1 = some bin ∧
    (insertFp G c bin (bin.1 % c.cap) (G bin.1 % c.cap) oracle).1 = c := by
  rcases insertFp_spec (G := G) bin oracle (wf hinv).ts with ⟨hl, _⟩ | h
  · exact absurd hl hfail
  · exact h

/-! ### one operation -/

private theorem frame_cnt {c c' : Cuckoo} {fp : Nat}
    (hfr : ∀ f : CBin → Nat, (∀ b, b.1 = fp → f b = 0) → tsum f c' = tsum f c) (g : Nat) (hg : g ≠ fp) :
    cnt c' g = cnt c g := by
  rw [cnt_eq, cnt_eq]
  apply hfr
  intro b hb
  simp only [cntW]
  split
  · rename_i e; exact absurd (e.symm.trans hb) hg
  · rfl

private theorem frame_bin {c c' : Cuckoo} {fp : Nat}
    (hfr : ∀ f : CBin → Nat, (∀ b, b.1 = fp → f b = 0) → tsum f c' = tsum f c) (bn : CBin) (hg : bn.1 ≠ fp) :
    occBin c' bn = occBin c bn := by
  rw [occBin_eq, occBin_eq]
  apply hfr
  intro b hb
  simp only [isBin]
  split
  · rename_i e; subst e; exact absurd hb hg
  · rfl

/-- `add` returned normally: the added key's fingerprint is contained, every fingerprint contained
    before is still contained, all bins of other fingerprints are untouched (same fingerprint, same
    count), and the count of the added fingerprint is `old + 1` (counting filter) resp. 1 (plain) -/
theorem C03_add_ok (G : Nat → Nat) (c : Cuckoo) (h : Nat) (oracle : List Nat) (hinv : Inv G c)
    (hok : (c.add G h oracle).2.1 = none) :
    contains G (c.add G h oracle).1 (c.fingerprint h) ∧
    (∀ g, contains G c g → contains G (c.add G h oracle).1 g) ∧
    (∀ g, g ≠ c.fingerprint h → cnt (c.add G h oracle).1 g = cnt c g) ∧
    (∀ bn : CBin, bn.1 ≠ c.fingerprint h → occBin (c.add G h oracle).1 bn = occBin c bn) ∧
    cnt (c.add G h oracle).1 (c.fingerprint h) = (if c.counting then cnt c (c.fingerprint h) + 1 else 1) := by
  rcases add_spec h oracle (wf hinv) with ⟨_, hw', _, _, hfr, hcnt, _⟩ | ⟨he, _⟩
  · have hinv' : Inv G (c.add G h oracle).1 := (inv_iff_wf _ _).mpr hw'
    have hc : cnt (c.add G h oracle).1 (c.fingerprint h)
        = (if c.counting then cnt c (c.fingerprint h) + 1 else 1) := by
      rw [cnt_eq, cnt_eq]; exact hcnt
    refine ⟨?_, ?_, fun g hg => frame_cnt hfr g hg, fun bn hb => frame_bin hfr bn hb, hc⟩
    · rw [contains_iff_cnt hinv', hc]; split <;> omega
    · intro g hg
      rw [contains_iff_cnt hinv] at hg
      rw [contains_iff_cnt hinv']
      by_cases e : g = c.fingerprint h
      · subst e; rw [hc]; split <;> omega
      · rw [frame_cnt hfr g e]; exact hg
  · rw [he] at hok; exact absurd hok (by simp)

/-- `add` of a new fingerprint returned normally (possibly after kicks and an automatic expansion):
    the bins of the table are exactly the old bins plus `(fp, 1)` -/
theorem C03_add_ok_absent (G : Nat → Nat) (c : Cuckoo) (h : Nat) (oracle : List Nat) (hinv : Inv G c)
    (hok : (c.add G h oracle).2.1 = none) (hnew : ¬ contains G c (c.fingerprint h)) (bn : CBin) :
    occBin (c.add G h oracle).1 bn = occBin c bn + (if bn = (c.fingerprint h, 1) then 1 else 0) := by
  rcases add_spec h oracle (wf hinv) with ⟨_, _, _, _, _, _, hall⟩ | ⟨he, _⟩
  · rw [occBin_eq, occBin_eq, hall hnew (isBin bn)]
    simp only [isBin, eq_comm]
  · rw [he] at hok; exact absurd hok (by simp)

/-- `add` raised `CuckooFilterFullError`: the filter is unchanged, in particular every fingerprint
    contained before the call is contained afterwards -/
theorem C03_failed_add (G : Nat → Nat) (c : Cuckoo) (h : Nat) (oracle : List Nat) (hinv : Inv G c)
    (hfail : (c.add G h oracle).2.1 = some .cuckooFull) :
    (c.add G h oracle).1 = c ∧ ∀ g, contains G c g → contains G (c.add G h oracle).1 g := by
  rcases add_spec h oracle (wf hinv) with ⟨he, _⟩ | ⟨_, hc⟩
  · rw [he] at hfail; exact absurd hfail (by simp)
  · exact ⟨hc, fun g hg => by rw [hc]; exact hg⟩

/-- `remove` that returned `True`: only the key's own fingerprint is affected — its count drops by
    exactly one (so for the plain filter it is gone); all bins of other fingerprints are untouched -/
theorem C03_remove (G : Nat → Nat) (c : Cuckoo) (h : Nat) (hinv : Inv G c)
    (hret : (c.remove G h).2 = true) :
    (∀ g, g ≠ c.fingerprint h → contains G c g → contains G (c.remove G h).1 g) ∧
    (∀ g, g ≠ c.fingerprint h → cnt (c.remove G h).1 g = cnt c g) ∧
    (∀ bn : CBin, bn.1 ≠ c.fingerprint h → occBin (c.remove G h).1 bn = occBin c bn) ∧
    cnt (c.remove G h).1 (c.fingerprint h) + 1 = cnt c (c.fingerprint h) ∧
    (c.counting = false → ¬ contains G (c.remove G h).1 (c.fingerprint h)) := by
  rcases remove_spec h (wf hinv) with ⟨_, hw', _, hcon, hfr, hcnt, _⟩ | ⟨he, _⟩
  · have hinv' : Inv G (c.remove G h).1 := (inv_iff_wf _ _).mpr hw'
    have hc : cnt (c.remove G h).1 (c.fingerprint h) + 1 = cnt c (c.fingerprint h) := by
      rw [cnt_eq, cnt_eq]; exact hcnt
    refine ⟨?_, fun g hg => frame_cnt hfr g hg, fun bn hb => frame_bin hfr bn hb, hc, ?_⟩
    · intro g hg hcg
      rw [contains_iff_cnt hinv] at hcg
      rw [contains_iff_cnt hinv', frame_cnt hfr g hg]; exact hcg
    · intro hplain
      rw [contains_iff_cnt hinv']
      -- plain filter: the count before was exactly 1
      obtain ⟨bin, hst, e⟩ := (containsL_iff_stored (wf hinv).ts _).mp hcon
      have h1 : cnt c (c.fingerprint h) = bin.2 := by
        rw [cnt_eq, tsum_unique (wf hinv) (cntW (c.fingerprint h)) bin hst
          (by intro b hb; simp [cntW, e ▸ hb])]
        simp [cntW, e]
      have h2 := (wf hinv).plain hplain bin hst
      omega
  · rw [he] at hret; exact absurd hret (by simp)

/-- `remove` that returned `False`: the fingerprint was not contained and nothing changed -/
theorem C03_remove_false (G : Nat → Nat) (c : Cuckoo) (h : Nat) (hinv : Inv G c)
    (hret : (c.remove G h).2 = false) :
    (c.remove G h).1 = c ∧ ¬ contains G c (c.fingerprint h) := by
  rcases remove_spec h (wf hinv) with ⟨ht, _⟩ | ⟨_, hc, hn⟩
  · rw [hret] at ht; exact absurd ht (by simp)
  · exact ⟨hc, hn⟩

/-- the public `expand()`: on success the capacity is multiplied by the rate and the stored bins are
    exactly the same (fingerprints with their counts), all still found by look-ups; on failure
    (`CuckooFilterFullError`) the filter is unchanged.  These are the only two outcomes. -/
theorem C03_expand (G : Nat → Nat) (c : Cuckoo) (oracle : List Nat) (hinv : Inv G c) :
    ((expandLogic G c none oracle).2.1 = none ∧
      (expandLogic G c none oracle).1.cap = c.cap * c.rate ∧
      (∀ bn : CBin, occBin (expandLogic G c none oracle).1 bn = occBin c bn) ∧
      (∀ g, cnt (expandLogic G c none oracle).1 g = cnt c g) ∧
      (∀ g, contains G c g → contains G (expandLogic G c none oracle).1 g)) ∨
    ((expandLogic G c none oracle).2.1 = some .cuckooFull ∧ (expandLogic G c none oracle).1 = c) := by
  rcases expand_spec oracle (wf hinv) with ⟨he, hw', _, hcap, hall⟩ | ⟨he, hc⟩
  · have hinv' : Inv G (expandLogic G c none oracle).1 := (inv_iff_wf _ _).mpr hw'
    refine Or.inl ⟨he, hcap, fun bn => by rw [occBin_eq, occBin_eq, hall], fun g => by rw [cnt_eq, cnt_eq, hall], ?_⟩
    intro g hg
    rw [contains_iff_cnt hinv] at hg
    rw [contains_iff_cnt hinv', cnt_eq, hall, ← cnt_eq]; exact hg
  · exact Or.inr ⟨he, hc⟩

/-! ### histories -/

private theorem fingerprint_congr {c c' : Cuckoo} (h : c'.fpBits = c.fpBits) (k : Nat) :
    c'.fingerprint k = c.fingerprint k := by
  unfold fingerprint; rw [h]

/-- history with a table-free specification of the count of every fingerprint: an `add` that
    returned normally sets it to 1 (plain) or increments it (counting), a `remove` resets it (plain)
    or decrements it (counting), `expand` and failed calls do not change it -/
def stepSpec (G : Nat → Nat) : Cuckoo × (Nat → Nat) → Op × List Nat → Cuckoo × (Nat → Nat)
  | (c, m), (.add h, oracle) =>
      (step G c (.add h, oracle),
        if (c.add G h oracle).2.1 = none then
          fun g => if g = c.fingerprint h then (if c.counting then m g + 1 else 1) else m g
        else m)
  | (c, m), (.remove h, oracle) =>
      (step G c (.remove h, oracle),
        fun g => if g = c.fingerprint h then (if c.counting then m g - 1 else 0) else m g)
  | (c, m), (.expand, oracle) => (step G c (.expand, oracle), m)

/-- history with the list of live keys: added by an `add` that returned normally, and no later
    `remove` targeted their fingerprint -/
def stepLive (G : Nat → Nat) : Cuckoo × List Nat → Op × List Nat → Cuckoo × List Nat
  | (c, live), (.add h, oracle) =>
      (step G c (.add h, oracle), if (c.add G h oracle).2.1 = none then h :: live else live)
  | (c, live), (.remove h, oracle) =>
      (step G c (.remove h, oracle), live.filter (fun k => c.fingerprint k != c.fingerprint h))
  | (c, live), (.expand, oracle) => (step G c (.expand, oracle), live)

private theorem stepSpec_ok (G : Nat → Nat) (c : Cuckoo) (m : Nat → Nat) (op : Op × List Nat)
    (hinv : Inv G c) (hm : ∀ g, cnt c g = m g) :
    (stepSpec G (c, m) op).1 = step G c op ∧ ∀ g, cnt (stepSpec G (c, m) op).1 g = (stepSpec G (c, m) op).2 g := by
  obtain ⟨op, oracle⟩ := op
  cases op with
  | add h =>
    refine ⟨rfl, ?_⟩
    simp only [stepSpec, step]
    rcases C15_add_result G c h oracle hinv with hok | ⟨hfail, hc⟩
    · obtain ⟨_, _, hfr, _, hcnt⟩ := C03_add_ok G c h oracle hinv hok
      rw [if_pos hok]
      intro g
      by_cases e : g = c.fingerprint h
      · subst e; simp only [if_true]; rw [hcnt, hm]
      · simp only [e, if_false]; rw [hfr g e, hm]
    · rw [hfail, hc]; simpa using hm
  | remove h =>
    refine ⟨rfl, ?_⟩
    simp only [stepSpec, step]
    intro g
    cases hret : (c.remove G h).2 with
    | true =>
      obtain ⟨_, hfr, _, hcnt, hpl⟩ := C03_remove G c h hinv hret
      by_cases e : g = c.fingerprint h
      · subst e
        simp only [if_true]
        by_cases hcount : c.counting = true
        · simp only [hcount, if_true]; rw [← hm]; omega
        · have hcf : c.counting = false := by simpa using hcount
          simp only [hcf]
          have := hpl hcf
          rw [contains_iff_cnt (C15_remove G c h hinv)] at this
          simp only [Bool.false_eq_true, if_false]; omega
      · simp only [e, if_false]; rw [hfr g e, hm]
    | false =>
      obtain ⟨hc, hn⟩ := C03_remove_false G c h hinv hret
      rw [contains_iff_cnt hinv] at hn
      rw [hc]
      by_cases e : g = c.fingerprint h
      · subst e; simp only [if_true]; rw [← hm]; split <;> omega
      · simp only [e, if_false]; exact hm g
  | expand =>
    refine ⟨rfl, ?_⟩
    simp only [stepSpec, step]
    rcases C03_expand G c oracle hinv with ⟨_, _, _, hcnt, _⟩ | ⟨_, hc⟩
    · intro g; rw [hcnt, hm]
    · rw [hc]; exact hm

/-- exactness over histories: starting from any state satisfying the invariant whose counts agree
    with `m`, after any history the stored count of every fingerprint is the specified one -/
theorem C03_exact (G : Nat → Nat) (c : Cuckoo) (m : Nat → Nat) (ops : List (Op × List Nat))
    (hinv : Inv G c) (hm : ∀ g, cnt c g = m g) :
    (ops.foldl (stepSpec G) (c, m)).1 = run G c ops ∧
    ∀ g, cnt (ops.foldl (stepSpec G) (c, m)).1 g = (ops.foldl (stepSpec G) (c, m)).2 g := by
  unfold run
  induction ops generalizing c m with
  | nil => exact ⟨rfl, hm⟩
  | cons op ops ih =>
    obtain ⟨h1, h2⟩ := stepSpec_ok G c m op hinv hm
    simp only [List.foldl_cons]
    have hinv' : Inv G (stepSpec G (c, m) op).1 := by rw [h1]; exact C15_step G c op hinv
    have := ih (stepSpec G (c, m) op).1 (stepSpec G (c, m) op).2 hinv' h2
    rw [h1] at this
    rw [show stepSpec G (c, m) op = (step G c op, (stepSpec G (c, m) op).2) from by rw [← h1]]
    exact this

/-- a fresh filter stores nothing -/
theorem C03_new_cnt (counting : Bool) (cap b maxSwaps rate : Nat) (auto : Bool) (fpBits : Nat) (g : Nat) :
    cnt (Cuckoo.new counting cap b maxSwaps rate auto fpBits) g = 0 := by
  rw [cnt_eq]; exact tsum_empty_table _ _ cap rfl

/-- `check` of any key after any history on a fresh filter is the specified count of its fingerprint -/
theorem C03_exact_check (G : Nat → Nat) (counting : Bool) (cap b maxSwaps rate : Nat) (auto : Bool) (fpBits : Nat)
    (hcap : 1 ≤ cap) (hb : 1 ≤ b) (hrate : 1 ≤ rate) (ops : List (Op × List Nat)) (k : Nat) :
    check G (run G (Cuckoo.new counting cap b maxSwaps rate auto fpBits) ops) k
      = (ops.foldl (stepSpec G) (Cuckoo.new counting cap b maxSwaps rate auto fpBits, fun _ => 0)).2
          ((Cuckoo.new counting cap b maxSwaps rate auto fpBits).fingerprint k) := by
  have hinv := C15_init G counting cap b maxSwaps rate auto fpBits hcap hb hrate
  obtain ⟨h1, h2⟩ := C03_exact G _ (fun _ => 0) ops hinv (fun g => C03_new_cnt counting cap b maxSwaps rate auto fpBits g)
  rw [C03_check_eq_cnt G _ (C15_run G _ ops hinv), ← h2, h1]
  rw [fingerprint_congr (C15_capacity G _ ops hinv).2.2.2.2.2.2 k]

private theorem stepLive_ok (G : Nat → Nat) (c : Cuckoo) (live : List Nat) (op : Op × List Nat)
    (hinv : Inv G c) (hl : ∀ k ∈ live, contains G c (c.fingerprint k)) :
    (stepLive G (c, live) op).1 = step G c op ∧
    ∀ k ∈ (stepLive G (c, live) op).2, contains G (step G c op) ((step G c op).fingerprint k) := by
  have hfp : ∀ k, (step G c op).fingerprint k = c.fingerprint k :=
    fun k => fingerprint_congr (C15_step_capacity G c op hinv).2.2.2.2.2.2 k
  simp only [hfp]
  obtain ⟨op, oracle⟩ := op
  cases op with
  | add h =>
    refine ⟨rfl, ?_⟩
    simp only [stepLive, step]
    rcases C15_add_result G c h oracle hinv with hok | ⟨hfail, hc⟩
    · obtain ⟨hnew, hmono, _⟩ := C03_add_ok G c h oracle hinv hok
      rw [if_pos hok]
      intro k hk
      rcases List.mem_cons.mp hk with rfl | hk
      · exact hnew
      · exact hmono _ (hl k hk)
    · rw [hfail, hc]; simpa using hl
  | remove h =>
    refine ⟨rfl, ?_⟩
    simp only [stepLive, step]
    intro k hk
    rw [List.mem_filter] at hk
    obtain ⟨hk, hne⟩ := hk
    have hne' : c.fingerprint k ≠ c.fingerprint h := by simpa using hne
    cases hret : (c.remove G h).2 with
    | true => exact (C03_remove G c h hinv hret).1 _ hne' (hl k hk)
    | false => rw [(C03_remove_false G c h hinv hret).1]; exact hl k hk
  | expand =>
    refine ⟨rfl, ?_⟩
    simp only [stepLive, step]
    rcases C03_expand G c oracle hinv with ⟨_, _, _, _, hmono⟩ | ⟨_, hc⟩
    · intro k hk; exact hmono _ (hl k hk)
    · rw [hc]; exact hl

/-- no key lost over any history: for all `G`, all oracles, all operation sequences, every live key
    is reported present by `check` in the final state (`check > 0`), whatever evictions and
    expansions happened and whichever calls failed with `CuckooFilterFullError` -/
theorem C03_history (G : Nat → Nat) (c : Cuckoo) (live : List Nat) (ops : List (Op × List Nat))
    (hinv : Inv G c) (hl : ∀ k ∈ live, 0 < check G c k) :
    (ops.foldl (stepLive G) (c, live)).1 = run G c ops ∧
    ∀ k ∈ (ops.foldl (stepLive G) (c, live)).2, 0 < check G (run G c ops) k := by
  have hl' : ∀ k ∈ live, contains G c (c.fingerprint k) :=
    fun k hk => (C03_check_pos_iff G c hinv k).mp (hl k hk)
  suffices h : (ops.foldl (stepLive G) (c, live)).1 = run G c ops ∧
      ∀ k ∈ (ops.foldl (stepLive G) (c, live)).2, contains G (run G c ops) ((run G c ops).fingerprint k) from
    ⟨h.1, fun k hk => (C03_check_pos_iff G _ (C15_run G c ops hinv) k).mpr (h.2 k hk)⟩
  clear hl
  unfold run
  induction ops generalizing c live with
  | nil => exact ⟨rfl, hl'⟩
  | cons op ops ih =>
    obtain ⟨h1, h2⟩ := stepLive_ok G c live op hinv hl'
    simp only [List.foldl_cons]
    have := ih (step G c op) (stepLive G (c, live) op).2 (C15_step G c op hinv) h2
    rw [show stepLive G (c, live) op = (step G c op, (stepLive G (c, live) op).2) from by rw [← h1]]
    exact this

/-- the same for a fresh filter: live keys start empty -/
theorem C03_history_new (G : Nat → Nat) (counting : Bool) (cap b maxSwaps rate : Nat) (auto : Bool) (fpBits : Nat)
    (hcap : 1 ≤ cap) (hb : 1 ≤ b) (hrate : 1 ≤ rate) (ops : List (Op × List Nat)) :
    ∀ k ∈ (ops.foldl (stepLive G) (Cuckoo.new counting cap b maxSwaps rate auto fpBits, [])).2,
      0 < check G (run G (Cuckoo.new counting cap b maxSwaps rate auto fpBits) ops) k :=
  (C03_history G _ [] ops (C15_init G counting cap b maxSwaps rate auto fpBits hcap hb hrate)
    (by intro k hk; simp at hk)).2

/-! ### tests and non-vacuity (concrete instances, evaluated by `decide`; `G0 fp = fp / 2`,
    `c0` = plain filter with 2 buckets of 1 slot, `maxSwaps = 2`, see C15) -/

/-- the state after `add 2` -/
def c1 : Cuckoo := run G0 c0 [(.add 2, [])]

example : c1.buckets = [[(2, 1)], []] := by decide
/-- `add 4` (candidate buckets 0 and 0, both full) cannot be placed directly … -/
example : c1.insertAt 0 (4, 1) = none := by decide
/-- … so it goes through the kick loop, which succeeds by evicting 2 to bucket 1 -/
example : ((kick G0 1 c1.maxSwaps c1 (4, 1) 0 [0]).1.map (·.buckets)) = some [[(4, 1)], [(2, 1)]] := by decide
example : (c1.add G0 4 [0, 0]).2.1 = none ∧ (c1.add G0 4 [0, 0]).1 = c2 := by decide
/-- hypotheses of `C03_add_ok` are satisfiable on this kick path, and its conclusion in the concrete -/
example : contains G0 c2 4 ∧ contains G0 c2 2 := by
  have hinv : Inv G0 c1 := C15_run G0 c0 _ (C15_init G0 false 2 1 2 2 false 8 (by decide) (by decide) (by decide))
  have h := C03_add_ok G0 c1 4 [0, 0] hinv (by decide)
  exact ⟨h.1, h.2.1 2 (by unfold contains; decide)⟩
example : check G0 c2 4 = 1 ∧ check G0 c2 2 = 1 ∧ check G0 c2 6 = 0 := by decide
/-- a failing add: fingerprint 6 (buckets 0 and 1), both full, two swaps are not enough, under the
    oracle `[0, 0, 0]` (start at bucket 0, evict slot 0 twice); `C03_failed_add` applies -/
example : (c2.add G0 6 [0, 0, 0]).2.1 = some .cuckooFull := by decide
example : (kick G0 1 c2.maxSwaps c2 (6, 1) 0 [0, 0]).1 = none := by decide
example : (c2.add G0 6 [0, 0, 0]).1 = c2 :=
  (C03_failed_add G0 c2 6 [0, 0, 0]
    (C15_run G0 c0 _ (C15_init G0 false 2 1 2 2 false 8 (by decide) (by decide) (by decide))) (by decide)).1
/-- a history with a kick, a failed add, a remove and an expansion: live keys and final table -/
example : (([(.add 2, []), (.add 4, [0, 0]), (.add 6, [0, 0, 0]), (.remove 2, []), (.expand, [])] :
    List (Op × List Nat)).foldl (stepLive G0) (c0, [])).2 = [4] := by decide
example : (run G0 c0 [(.add 2, []), (.add 4, [0, 0]), (.add 6, [0, 0, 0]), (.remove 2, []), (.expand, [])]).buckets
    = [[(4, 1)], [], [], []] := by decide
/-- counting filter with auto-expansion: counts survive kicks and the expansion; the specification
    function predicts them -/
example : (([(.add 2, []), (.add 4, [0, 0]), (.add 4, []), (.add 6, [0, 0, 0]), (.remove 4, [])] :
    List (Op × List Nat)).foldl (stepSpec G0) (Cuckoo.new true 2 1 2 2 true 8, fun _ => 0)).2 4 = 1 := by decide
example : (run G0 (Cuckoo.new true 2 1 2 2 true 8)
    [(.add 2, []), (.add 4, [0, 0]), (.add 4, []), (.add 6, [0, 0, 0]), (.remove 4, [])]).buckets
      = [[(4, 1)], [(2, 1)], [(6, 1)], []] := by decide
/-- fingerprint 0 is never used: a hash value that is a multiple of `2^fpBits` gets fingerprint 1 -/
example : c0.fingerprint 256 = 1 := by decide

end PyProb.C03
