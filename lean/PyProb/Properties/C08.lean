/-
  C08 — Counting filters count exactly and removal undoes addition.

  Counting Bloom filter (`PyProb.CBF`, countingbloom.py), proved for every geometry `k ≥ 1`,
  `m ≥ 1`, every hash strategy (positions of one key may coincide), every history:
  * `C08_cbf_undo`   : below the saturation limit, `remove_alt` after `add_alt` restores the state
                        exactly (cells and counter), whatever the multiplicities of the positions.
  * `C08_cbf_cells`  : along a legitimate unsaturated history every cell equals
                        `Σ_keys outstanding(key) · multiplicity(key, cell)`, and every call returns a value.
  * `C08_cbf_lower`  : hence `check` never reports less than the key's outstanding additions.
  * `C08_cbf_absent` : removing a key that `check` reports absent changes nothing and returns 0.
  * `C08_cbf_short`  : a hash list shorter than `k` raises IndexError and changes nothing.

  Counting cuckoo filter (`PyProb.Cuckoo` with `counting = true`, countingcuckoo.py), proved for
  every fingerprint hash `G`, every oracle (sequence of random draws), every table satisfying the
  invariant `Ccf.Inv` (no duplicate fingerprint in the table, every bin in one of its two candidate
  buckets, counts ≥ 1; established by `new`, preserved by every operation). The definitions used
  in the statements (`Ccf.Inv`, `Ccf.countOf`, `Ccf.Op`, `Ccf.run`, `Ccf.NoKick`, `Ccf.AllAddsOk`,
  `Ccf.outstanding`, …) are in `PyProb/Lemmas/CcfCount.lean`, the proofs in `CcfCount.lean`,
  `CcfTable.lean` and `CcfKick.lean`:
  * `C08_ccf_add_present`, `C08_ccf_add_room`, `C08_ccf_remove`, `C08_ccf_remove_many`,
    `C08_ccf_remove_last`, `C08_ccf_absent` : the single operations.
  * `C08_ccf_exact`  : histories without evictions: `check key` = outstanding additions of the keys
                        sharing the key's fingerprint.
  * `C08_ccf_exact_with_kicks` : the same for ALL histories in which no call raised, i.e. after any
                        number of evictions (kick loop) and automatic expansions, for every oracle —
                        under `0 < expansion_rate` (with rate 0 the model's expansion silently
                        loses every bin whereas Python raises ZeroDivisionError; see the test in
                        `CcfCount.lean`).
  Nothing is left unproved.  Not covered: saturated counting-Bloom cells (the property is stated
  below the saturation limit), cuckoo counts beyond the uint32 export range.
-/
import PyProb.Lemmas.CcfKick
import PyProb.Lemmas.CbfCore

namespace PyProb.C08

/-! ## counting Bloom filter -/

section CountingBloom
open PyProb CBF Cbf

/-- representation invariant: `m > 0` cells, none negative -/
def WF (c : CBF) : Prop := c.cells.length = c.m ∧ 0 < c.m ∧ ∀ x ∈ c.cells, 0 ≤ x

/-- positions of a hash list: the first `k` hashes modulo `m` (repetitions kept) -/
def positions (k m : Nat) (hs : List Nat) : List Nat := (hs.take k).map (· % m)

/-- "below the saturation limit" for one `add(hs, n)`: no touched cell reaches `UINT32_MAX`,
    counting `n` once per occurrence of the cell among the positions -/
def CellRoom (c : CBF) (hs : List Nat) (n : Int) : Prop :=
  ∀ j < c.m, c.cells.getD j 0 + ((positions c.k c.m hs).count j : Int) * n < Gen.uint32Max

theorem WF_new (est fpr32 k m : Nat) (hm : 0 < m) : WF (CBF.new est fpr32 k m) := by
  refine ⟨by simp [CBF.new], hm, ?_⟩
  intro x hx
  simp [CBF.new] at hx
  omega

private theorem pos_eq (c : CBF) (hs : List Nat) (wf : WF c) : pos c hs = positions c.k c.m hs := by
  simp [pos, positions, wf.1]

private theorem room_all (c : CBF) (hs : List Nat) (n : Int) (wf : WF c) (room : CellRoom c hs n) :
    ∀ j, c.cells.getD j 0 + ((pos c hs).count j : Int) * n < Gen.uint32Max := by
  intro j
  by_cases hj : j < c.m
  · rw [pos_eq c hs wf]; exact room j hj
  · have h0 : (pos c hs).count j = 0 :=
      List.count_eq_zero.mpr fun h => hj (wf.1 ▸ pos_lt c hs (wf.1 ▸ wf.2.1) j h)
    have h2 : c.cells.getD j 0 = 0 := by
      rw [List.getD_eq_getElem?_getD, List.getElem?_eq_none (by have := wf.1; omega)]; rfl
    rw [h0, h2]; simp [Gen.uint32Max]

/-- **Removal undoes addition.** Below the saturation limit (`CellRoom`, and the element counter
    below `UINT64_MAX`), `add_alt(hs, n)` followed by `remove_alt(hs, n)` restores the filter
    exactly — also when several of the key's positions coincide. The returned values are the
    `check` of the state before (plus `n`) and of the state in between (minus `n`). -/
theorem C08_cbf_undo (c : CBF) (hs : List Nat) (n : Int) (wf : WF c) (hk : 0 < c.k)
    (hl : c.k ≤ hs.length) (hn : 1 ≤ n) (room : CellRoom c hs n)
    (hcount : c.count + n ≤ Gen.uint64Max) :
    ∃ v w, (c.addAlt hs n).2 = .ok v ∧
      removeAlt (c.addAlt hs n).1 hs n = (c, .ok w) ∧
      WF (c.addAlt hs n).1 ∧
      checkAlt c (hs.take c.k) = .ok (v - n) ∧
      checkAlt (c.addAlt hs n).1 (hs.take c.k) = .ok (w + n) := by
  have hn0 : 0 ≤ n := by omega
  have hm : 0 < c.cells.length := wf.1 ▸ wf.2.1
  have hroom := room_all c hs n wf room
  have hne : pos c hs ≠ [] := pos_ne_nil c hs hk hl
  have hadd := addAlt_unsat c hs n hl hn0 wf.2.2 (fun j => Int.le_of_lt (hroom j))
  -- the intermediate state
  obtain ⟨c', hc'⟩ : ∃ c' : CBF,
      ({ c with cells := bump n c.cells (pos c hs), count := min (c.count + n) Gen.uint64Max } : CBF) = c' :=
    ⟨_, rfl⟩
  rw [hc'] at hadd
  have hcells : c'.cells = bump n c.cells (pos c hs) := by rw [← hc']
  have hk' : c'.k = c.k := by rw [← hc']
  have hm' : c'.m = c.m := by rw [← hc']
  have hlen : c'.cells.length = c.cells.length := by rw [hcells, bump_length]
  have hpos : pos c' hs = pos c hs := by simp [pos, hk', hlen]
  have hget : ∀ j, c'.cells.getD j 0 = c.cells.getD j 0 + ((pos c hs).count j : Int) * n := by
    intro j; rw [hcells]; exact getD_bump_all n c.cells _ (pos_lt c hs hm) j
  have hmul : ∀ j, 0 ≤ ((pos c hs).count j : Int) * n := fun j =>
    Int.mul_nonneg (Int.natCast_nonneg _) hn0
  have wf' : WF c' := by
    refine ⟨by rw [hlen, hm']; exact wf.1, hm' ▸ wf.2.1, ?_⟩
    apply mem_iff_getD
    intro j _
    rw [hget]
    have := getD_nonneg_of_mem wf.2.2 j
    have := hmul j
    omega
  -- the minimum over the touched cells after the add
  have hne' : (pos c' hs).map (fun k => c'.cells.getD k 0) ≠ [] := by rw [hpos]; simpa using hne
  have hmn : n ≤ minList ((pos c' hs).map fun k => c'.cells.getD k 0) := by
    apply le_minList hne'
    intro x hx
    obtain ⟨j, hj, rfl⟩ := List.mem_map.mp hx
    rw [hget]
    have := getD_nonneg_of_mem wf.2.2 j
    have := le_count_mul (hpos ▸ hj) hn0
    omega
  have hrem := removeAlt_ok c' hs n n (by rw [hk']; exact hl) (by rw [hlen]; exact hm)
    (by rw [hpos]; exact hne)
    (by intro j; rw [hget]; exact hroom j)
    (by omega)
    (by split <;> omega)
    hn0
    (by intro j; rw [hpos, hget]; have := getD_nonneg_of_mem wf.2.2 j; omega)
  have hback : ({ c' with cells := bump (-n) c'.cells (pos c' hs), count := c'.count - n } : CBF) = c := by
    rw [hpos, hcells, bump_bump_neg, ← hc']
    have : min (c.count + n) Gen.uint64Max - n = c.count := by omega
    simp [this]
  rw [hback] at hrem
  refine ⟨_, _, by rw [hadd], by rw [hadd]; exact hrem, by rw [hadd]; exact wf', ?_, ?_⟩
  · have hne2 : hs.take c.k ≠ [] := by
      intro h; apply hne; simp [pos, h]
    have e : minList ((pos c hs).map fun j => c.cells.getD j 0 + n) - n
        = minList ((hs.take c.k).map fun h => c.cells.getD (h % c.m) 0) := by
      rw [minList_map_add _ _ _ hne]
      simp [pos, List.map_map, Function.comp_def, wf.1]
    rw [e]
    unfold checkAlt
    split
    · next h => exact absurd h hne2
    · rfl
  · rw [hadd]
    have hne2 : hs.take c.k ≠ [] := by
      intro h; apply hne; simp [pos, h]
    have e : minList ((pos c' hs).map fun k => c'.cells.getD k 0) - n + n
        = minList ((hs.take c.k).map fun h => c'.cells.getD (h % c'.m) 0) := by
      simp [pos, List.map_map, Function.comp_def, wf'.1, hk']
    rw [e]
    unfold checkAlt
    split
    · next h => exact absurd h hne2
    · rfl

/-- **Removing a key the filter reports absent changes nothing and says so** (returns 0).
    `check_alt` takes the minimum over all supplied hashes, `remove_alt` over the first `k`:
    the statement is for a hash list of exactly `k` hashes, as `hashes(key)` produces. -/
theorem C08_cbf_absent (c : CBF) (hs : List Nat) (n : Int) (wf : WF c) (hl : hs.length = c.k)
    (h : checkAlt c hs = .ok 0) : removeAlt c hs n = (c, .ok 0) := by
  have hne : hs ≠ [] := by
    intro e; rw [e] at h; simp [checkAlt] at h
  have hmin : minList (hs.map fun h => c.cells.getD (h % c.m) 0) = 0 := by
    cases hs with
    | nil => exact absurd rfl hne
    | cons a l => simpa [checkAlt] using h
  have hp : pos c hs = hs.map (· % c.m) := by simp [pos, wf.1, ← hl]
  have hpne : pos c hs ≠ [] := by rw [hp]; simpa using hne
  have hmin' : minList ((pos c hs).map fun k => c.cells.getD k 0) = 0 := by
    rw [hp, List.map_map]; exact hmin
  unfold removeAlt
  rw [indices_ok c hs (by omega)]
  simp only [hmin', beq_iff_eq]
  simp [Gen.uint32Max]

/-- a hash list shorter than `number_hashes` raises IndexError and leaves the filter unchanged -/
theorem C08_cbf_short (c : CBF) (hs : List Nat) (n : Int) (hl : hs.length < c.k) :
    removeAlt c hs n = (c, .error .indexError) ∧ addAlt c hs n = (c, .error .indexError) := by
  simp [removeAlt, addAlt, indices_short c hs hl]

/-! ### histories -/

inductive Op (κ : Type) where
  | add (key : κ) (n : Int)
  | remove (key : κ) (n : Int)

def Op.key {κ} : Op κ → κ
  | .add key _ => key
  | .remove key _ => key

/-- signed amount of the operation -/
def Op.delta {κ} : Op κ → Int
  | .add _ n => n
  | .remove _ n => -n

variable {κ : Type} [DecidableEq κ]

/-- one call; `H key k` is `hashes(key, depth = k)` -/
def step (H : κ → Nat → List Nat) (c : CBF) : Op κ → CBF × R Int
  | .add key n => c.addAlt (H key c.k) n
  | .remove key n => c.removeAlt (H key c.k) n

def run (H : κ → Nat → List Nat) (c : CBF) (ops : List (Op κ)) : CBF :=
  ops.foldl (fun c op => (step H c op).1) c

/-- outstanding additions of `key`: added minus removed -/
def cnt (ops : List (Op κ)) (key : κ) : Int :=
  (ops.map fun op => if op.key = key then op.delta else 0).sum

/-- multiplicity of cell `j` among the `k` positions of `key` -/
def mult (H : κ → Nat → List Nat) (k m : Nat) (key : κ) (j : Nat) : Nat :=
  (positions k m (H key k)).count j

/-- the operation `op` is legitimate after the history `pre`: amounts are ≥ 1 and a removal does
    not exceed the key's outstanding count -/
def legitAt (pre : List (Op κ)) : Op κ → Prop
  | .add _ n => 1 ≤ n
  | .remove key n => 1 ≤ n ∧ n ≤ cnt pre key

/-- an `add` meets a state `c` with room below the saturation limit -/
def roomAt (H : κ → Nat → List Nat) (c : CBF) : Op κ → Prop
  | .add key n => CellRoom c (H key c.k) n
  | .remove _ _ => True

/-- amounts are ≥ 1 and a removal never exceeds the key's outstanding count (prefix property) -/
def Legit (ops : List (Op κ)) : Prop :=
  ∀ i (hi : i < ops.length), legitAt (ops.take i) ops[i]

/-- no cell ever reaches the saturation limit: every `add` meets a state with room (prefix property) -/
def Unsat (H : κ → Nat → List Nat) (c0 : CBF) (ops : List (Op κ)) : Prop :=
  ∀ i (hi : i < ops.length), roomAt H (run H c0 (ops.take i)) ops[i]

theorem cnt_append (ops : List (Op κ)) (op : Op κ) (key : κ) :
    cnt (ops ++ [op]) key = cnt ops key + if op.key = key then op.delta else 0 := by
  simp [cnt, List.sum_append]

omit [DecidableEq κ] in
theorem run_append (H : κ → Nat → List Nat) (c : CBF) (ops : List (Op κ)) (op : Op κ) :
    run H c (ops ++ [op]) = (step H (run H c ops) op).1 := by
  simp [run, List.foldl_append]

/-- under `Legit` no key's outstanding count is ever negative -/
theorem cnt_nonneg (ops : List (Op κ)) (hL : Legit ops) : ∀ i, i ≤ ops.length → ∀ key, 0 ≤ cnt (ops.take i) key := by
  intro i
  induction i with
  | zero => intro _ key; simp [cnt]
  | succ i ih =>
    intro hi key
    rw [List.take_succ_eq_append_getElem (by omega), cnt_append]
    have h1 := ih (by omega) key
    have h2 := hL i (by omega)
    cases e : ops[i] with
    | add key' n =>
      rw [e] at h2
      simp only [legitAt] at h2
      simp only [Op.key, Op.delta]
      by_cases h : key' = key
      · simp only [h, if_true]; omega
      · simp only [h, if_false]; omega
    | remove key' n =>
      rw [e] at h2
      simp only [legitAt] at h2
      simp only [Op.key, Op.delta]
      by_cases h : key' = key
      · subst h; simp only [if_true]; omega
      · simp only [h, if_false]; omega

/-- the invariant of the history theorem -/
private structure CellInv (H : κ → Nat → List Nat) (k m : Nat) (K : List κ) (ops : List (Op κ)) (c : CBF) : Prop where
  k_eq : c.k = k
  m_eq : c.m = m
  len : c.cells.length = m
  cells : ∀ j, j < m → c.cells.getD j 0 = (K.map fun key => cnt ops key * (mult H k m key j : Int)).sum
  lt : ∀ j, c.cells.getD j 0 < Gen.uint32Max

private theorem inv_wf {H : κ → Nat → List Nat} {k m : Nat} {K : List κ} {ops : List (Op κ)} {c : CBF}
    (hm : 0 < m) (inv : CellInv H k m K ops c) (hc : ∀ key, 0 ≤ cnt ops key) : WF c := by
  refine ⟨inv.len.trans inv.m_eq.symm, inv.m_eq ▸ hm, ?_⟩
  apply mem_iff_getD
  intro j hj
  rw [inv.cells j (inv.len ▸ hj)]
  apply sum_nonneg
  intro x hx
  obtain ⟨key, _, rfl⟩ := List.mem_map.mp hx
  exact Int.mul_nonneg (hc key) (Int.natCast_nonneg _)

private theorem inv_step {H : κ → Nat → List Nat} {k m : Nat} {K : List κ} (hk : 0 < k) (hm : 0 < m)
    (hH : ∀ key, (H key k).length = k) (hK : K.Nodup)
    {ops : List (Op κ)} {c : CBF} (op : Op κ) (hop : op.key ∈ K)
    (inv : CellInv H k m K ops c) (hc : ∀ key, 0 ≤ cnt ops key)
    (hleg : legitAt ops op) (hroom : roomAt H c op) :
    (∃ v, (step H c op).2 = .ok v) ∧ CellInv H k m K (ops ++ [op]) (step H c op).1 := by
  have wf := inv_wf hm inv hc
  have hlen : 0 < c.cells.length := by rw [inv.len]; exact hm
  have hposmult : ∀ key j, (pos c (H key c.k)).count j = mult H k m key j := by
    intro key j; rw [pos_eq _ _ wf, mult, inv.k_eq, inv.m_eq]
  cases op with
  | add key n =>
    simp only [legitAt, roomAt] at hleg hroom
    have hn0 : 0 ≤ n := by omega
    have hr := room_all c (H key c.k) n wf hroom
    have hadd := addAlt_unsat c (H key c.k) n (by rw [inv.k_eq, hH]; omega) hn0 wf.2.2
      (fun j => Int.le_of_lt (hr j))
    simp only [step, hadd]
    refine ⟨⟨_, rfl⟩, ⟨inv.k_eq, inv.m_eq, by simp [inv.len], ?_, ?_⟩⟩
    · intro j hj
      simp only
      rw [getD_bump_all n c.cells _ (pos_lt c _ hlen) j, inv.cells j hj, hposmult]
      have e : (K.map fun key' => cnt (ops ++ [Op.add key n]) key' * (mult H k m key' j : Int))
          = K.map fun key' => cnt ops key' * (mult H k m key' j : Int)
              + if key' = key then (mult H k m key j : Int) * n else 0 := by
        apply List.map_congr_left
        intro key' _
        rw [cnt_append]
        simp only [Op.key, Op.delta]
        by_cases h : key = key'
        · subst h; simp [Int.add_mul, Int.mul_comm]
        · have : ¬ key' = key := fun e => h e.symm
          simp [h, this]
      rw [e, sum_map_add_single K _ key _ hK hop]
    · intro j
      simp only
      rw [getD_bump_all n c.cells _ (pos_lt c _ hlen) j]
      exact hr j
  | remove key n =>
    simp only [legitAt] at hleg
    have hn0 : 0 ≤ n := by omega
    have hcell : ∀ j, j < m → (mult H k m key j : Int) * cnt ops key ≤ c.cells.getD j 0 := by
      intro j hj
      rw [inv.cells j hj, Int.mul_comm]
      exact term_le_sum K (fun key' => cnt ops key' * (mult H k m key' j : Int))
        (fun x _ => Int.mul_nonneg (hc x) (Int.natCast_nonneg _)) hop
    have hne : pos c (H key c.k) ≠ [] := pos_ne_nil c _ (inv.k_eq ▸ hk) (by rw [inv.k_eq, hH]; omega)
    have hne' : (pos c (H key c.k)).map (fun k => c.cells.getD k 0) ≠ [] := by simpa using hne
    have hmn : n ≤ minList ((pos c (H key c.k)).map fun k => c.cells.getD k 0) := by
      apply le_minList hne'
      intro x hx
      obtain ⟨j, hj, rfl⟩ := List.mem_map.mp hx
      have hjm : j < m := inv.len ▸ pos_lt c _ hlen j hj
      have h1 := hcell j hjm
      have h2 : cnt ops key ≤ (mult H k m key j : Int) * cnt ops key := by
        rw [← hposmult]; exact le_count_mul hj (hc key)
      omega
    have hrem := removeAlt_ok c (H key c.k) n n (by rw [inv.k_eq, hH]; omega) hlen hne inv.lt
      (by omega) (by split <;> omega) hn0
      (by
        intro j
        by_cases hj : j < m
        · rw [hposmult]
          have h1 := hcell j hj
          have h2 : (mult H k m key j : Int) * n ≤ (mult H k m key j : Int) * cnt ops key :=
            Int.mul_le_mul_of_nonneg_left hleg.2 (Int.natCast_nonneg _)
          omega
        · have h0 : (pos c (H key c.k)).count j = 0 :=
            List.count_eq_zero.mpr fun h => hj (inv.len ▸ pos_lt c _ hlen j h)
          rw [h0]
          have := getD_nonneg_of_mem wf.2.2 j
          simpa using this)
    simp only [step, hrem]
    refine ⟨⟨_, rfl⟩, ⟨inv.k_eq, inv.m_eq, by simp [inv.len], ?_, ?_⟩⟩
    · intro j hj
      simp only
      rw [getD_bump_all (-n) c.cells _ (pos_lt c _ hlen) j, inv.cells j hj, hposmult]
      have e : (K.map fun key' => cnt (ops ++ [Op.remove key n]) key' * (mult H k m key' j : Int))
          = K.map fun key' => cnt ops key' * (mult H k m key' j : Int)
              + if key' = key then (mult H k m key j : Int) * (-n) else 0 := by
        apply List.map_congr_left
        intro key' _
        rw [cnt_append]
        simp only [Op.key, Op.delta]
        by_cases h : key = key'
        · subst h; simp [Int.add_mul, Int.mul_comm]
        · have : ¬ key' = key := fun e => h e.symm
          simp [h, this]
      rw [e, sum_map_add_single K _ key _ hK hop]
    · intro j
      simp only
      rw [getD_bump_all (-n) c.cells _ (pos_lt c _ hlen) j]
      have := inv.lt j
      have : 0 ≤ ((pos c (H key c.k)).count j : Int) * n := Int.mul_nonneg (Int.natCast_nonneg _) hn0
      rw [Int.mul_neg]; omega

private theorem inv_new (H : κ → Nat → List Nat) (est fpr32 k m : Nat) (K : List κ) :
    CellInv H k m K [] (CBF.new est fpr32 k m) := by
  refine ⟨rfl, rfl, by simp [CBF.new], ?_, ?_⟩
  · intro j hj
    have : (K.map fun key => cnt ([] : List (Op κ)) key * (mult H k m key j : Int)) = K.map fun _ => 0 := by
      apply List.map_congr_left; intro key _; simp [cnt]
    rw [this]
    have hz : ∀ l : List κ, (l.map fun _ => (0 : Int)).sum = 0 := by
      intro l; induction l with
      | nil => rfl
      | cons a l ih => simpa using ih
    rw [hz]
    simp [CBF.new, List.getD_eq_getElem?_getD, hj]
  · intro j
    simp only [CBF.new, List.getD_eq_getElem?_getD]
    by_cases hj : j < m
    · simp [hj, Gen.uint32Max]
    · simp [hj, Gen.uint32Max]

private theorem inv_prefix (H : κ → Nat → List Nat) (est fpr32 k m : Nat) (hk : 0 < k) (hm : 0 < m)
    (hH : ∀ key, (H key k).length = k) (K : List κ) (hK : K.Nodup) (ops : List (Op κ))
    (hcov : ∀ op ∈ ops, op.key ∈ K) (hL : Legit ops) (hU : Unsat H (CBF.new est fpr32 k m) ops) :
    ∀ i, i ≤ ops.length →
      CellInv H k m K (ops.take i) (run H (CBF.new est fpr32 k m) (ops.take i)) := by
  apply prefix_induction_all (fun pre => CellInv H k m K pre (run H (CBF.new est fpr32 k m) pre))
  · exact inv_new H est fpr32 k m K
  · intro i hi inv
    rw [run_append]
    exact (inv_step hk hm hH hK ops[i] (hcov _ (List.getElem_mem hi)) inv
      (cnt_nonneg ops hL i (by omega)) (hL i hi) (hU i hi)).2

/-- **Exact cell contents.** Along any history of `add(key, n)` / `remove(key, n)` from a fresh
    filter that is legitimate (amounts ≥ 1, removals never exceed the key's outstanding count) and
    stays below the saturation limit, for any duplicate-free list `K` of keys covering the history:
    every call returns a value (no exception), the geometry is unchanged, every cell stays below
    `UINT32_MAX`, and cell `j` holds exactly `Σ_{key ∈ K} outstanding(key) · mult(key, j)`. -/
theorem C08_cbf_cells (H : κ → Nat → List Nat) (est fpr32 k m : Nat) (hk : 0 < k) (hm : 0 < m)
    (hH : ∀ key, (H key k).length = k) (K : List κ) (hK : K.Nodup) (ops : List (Op κ))
    (hcov : ∀ op ∈ ops, op.key ∈ K) (hL : Legit ops) (hU : Unsat H (CBF.new est fpr32 k m) ops) :
    WF (run H (CBF.new est fpr32 k m) ops) ∧
    (run H (CBF.new est fpr32 k m) ops).k = k ∧ (run H (CBF.new est fpr32 k m) ops).m = m ∧
    (∀ j, j < m → (run H (CBF.new est fpr32 k m) ops).cells.getD j 0
        = (K.map fun key => cnt ops key * (mult H k m key j : Int)).sum) ∧
    (∀ x ∈ (run H (CBF.new est fpr32 k m) ops).cells, x < Gen.uint32Max) ∧
    (∀ i (hi : i < ops.length),
        ∃ v, (step H (run H (CBF.new est fpr32 k m) (ops.take i)) ops[i]).2 = .ok v) := by
  have hall := inv_prefix H est fpr32 k m hk hm hH K hK ops hcov hL hU
  have inv := hall ops.length (Nat.le_refl _)
  rw [List.take_length] at inv
  have hc : ∀ key, 0 ≤ cnt ops key := by
    have := cnt_nonneg ops hL ops.length (Nat.le_refl _)
    rwa [List.take_length] at this
  refine ⟨inv_wf hm inv hc, inv.k_eq, inv.m_eq, inv.cells, ?_, ?_⟩
  · apply mem_iff_getD; intro j _; exact inv.lt j
  · intro i hi
    exact (inv_step hk hm hH hK ops[i] (hcov _ (List.getElem_mem hi)) (hall i (by omega))
      (cnt_nonneg ops hL i (by omega)) (hL i hi) (hU i hi)).1

/-- **`check` never reports less than the key's outstanding additions** (∀ key, whether or not
    it occurs in the history; positions may coincide within a key and across keys). -/
theorem C08_cbf_lower (H : κ → Nat → List Nat) (est fpr32 k m : Nat) (hk : 0 < k) (hm : 0 < m)
    (hH : ∀ key, (H key k).length = k) (ops : List (Op κ))
    (hL : Legit ops) (hU : Unsat H (CBF.new est fpr32 k m) ops) (key : κ) :
    ∃ v, checkAlt (run H (CBF.new est fpr32 k m) ops) (H key k) = .ok v ∧ cnt ops key ≤ v := by
  obtain ⟨wf, hk', hm', hcells, _, _⟩ := C08_cbf_cells H est fpr32 k m hk hm hH
    (dedup (key :: ops.map Op.key)) (nodup_dedup _) ops
    (by intro op hop; rw [mem_dedup]; exact List.mem_cons_of_mem _ (List.mem_map.mpr ⟨op, hop, rfl⟩))
    hL hU
  have hc : ∀ key, 0 ≤ cnt ops key := by
    have := cnt_nonneg ops hL ops.length (Nat.le_refl _)
    rwa [List.take_length] at this
  have hne : H key k ≠ [] := by
    intro h; have := hH key; rw [h] at this; simp at this; omega
  refine ⟨minList ((H key k).map fun h => (run H (CBF.new est fpr32 k m) ops).cells.getD (h % (run H (CBF.new est fpr32 k m) ops).m) 0), ?_, ?_⟩
  · unfold checkAlt
    split
    · next h => exact absurd h hne
    · rfl
  · apply le_minList (by simpa using hne)
    intro x hx
    obtain ⟨h, hh, rfl⟩ := List.mem_map.mp hx
    rw [hm']
    have hj : h % m < m := Nat.mod_lt _ hm
    rw [hcells _ hj]
    have hmem : key ∈ dedup (key :: ops.map Op.key) := by rw [mem_dedup]; simp
    have h1 := term_le_sum (dedup (key :: ops.map Op.key))
      (fun key' => cnt ops key' * (mult H k m key' (h % m) : Int))
      (fun x _ => Int.mul_nonneg (hc x) (Int.natCast_nonneg _)) hmem
    have h2 : cnt ops key ≤ (mult H k m key (h % m) : Int) * cnt ops key := by
      apply le_count_mul _ (hc key)
      simp only [positions]
      have : (H key k).take k = H key k := by rw [List.take_of_length_le]; rw [hH]; exact Nat.le_refl _
      rw [this]
      exact List.mem_map.mpr ⟨h, hh, rfl⟩
    rw [Int.mul_comm] at h2
    omega

/-! ### non-vacuity (tests on concrete instances) -/

instance (c : CBF) (hs : List Nat) (n : Int) : Decidable (CellRoom c hs n) := by
  unfold CellRoom; infer_instance
instance (pre : List (Op κ)) (op : Op κ) : Decidable (legitAt pre op) := by
  cases op <;> simp only [legitAt] <;> infer_instance
instance (H : κ → Nat → List Nat) (c : CBF) (op : Op κ) : Decidable (roomAt H c op) := by
  cases op <;> simp only [roomAt] <;> infer_instance
instance (ops : List (Op κ)) : Decidable (Legit ops) := by unfold Legit; infer_instance
instance (H : κ → Nat → List Nat) (c0 : CBF) (ops : List (Op κ)) : Decidable (Unsat H c0 ops) := by
  unfold Unsat; infer_instance

/-- test strategy: key `x` hashes to `x, 2x, 3x, …`; with `m = 4`, `k = 3` key 2 has the
    positions 2, 0, 2 (one cell twice) and shares cells with keys 1 and 3 -/
def exH : Nat → Nat → List Nat := fun key d => (List.range d).map fun i => key * (i + 1)
def exOps : List (Op Nat) := [.add 2 3, .add 1 1, .remove 2 2, .add 3 1, .remove 1 1, .add 2 1]

example : ∀ key, (exH key 3).length = 3 := by simp [exH]
example : positions 3 4 (exH 2 3) = [2, 0, 2] := by decide
example : Legit exOps := by decide
example : Unsat exH (CBF.new 10 0 3 4) exOps := by decide
example : (run exH (CBF.new 10 0 3 4) exOps).cells = [2, 1, 5, 1] := by decide
example : cnt exOps 2 = 2 ∧
    (checkAlt (run exH (CBF.new 10 0 3 4) exOps) (exH 2 3)).toOption = some 2 := by decide
/-- the undo theorem's hypotheses and conclusion on a state with coinciding positions -/
example : WF (run exH (CBF.new 10 0 3 4) exOps) ∧
    CellRoom (run exH (CBF.new 10 0 3 4) exOps) (exH 2 3) 7 :=
  ⟨⟨by decide, by decide, by decide⟩, by decide⟩
example : (addAlt (run exH (CBF.new 10 0 3 4) exOps) (exH 2 3) 7).2.toOption = some 9 ∧
    (addAlt (run exH (CBF.new 10 0 3 4) exOps) (exH 2 3) 7).1.cells = [9, 1, 19, 1] := by decide
example :
    (removeAlt (addAlt (run exH (CBF.new 10 0 3 4) exOps) (exH 2 3) 7).1 (exH 2 3) 7).1
      = run exH (CBF.new 10 0 3 4) exOps ∧
    (removeAlt (addAlt (run exH (CBF.new 10 0 3 4) exOps) (exH 2 3) 7).1 (exH 2 3) 7).2.toOption
      = some 2 := by decide +kernel
/-- absent key: `check` is 0, `remove` changes nothing -/
example : (checkAlt (CBF.new 10 0 3 4) (exH 1 3)).toOption = some 0 ∧
    (removeAlt (CBF.new 10 0 3 4) (exH 1 3) 5).1 = CBF.new 10 0 3 4 ∧
    (removeAlt (CBF.new 10 0 3 4) (exH 1 3) 5).2.toOption = some 0 := by decide

end CountingBloom

/-! ## counting cuckoo filter -/

section CountingCuckoo
open PyProb Cuckoo
open PyProb.Ccf (Inv countOf SameParams SameCfg NoKick AllAddsOk outstanding)

/-- the invariant holds of a fresh filter -/
theorem C08_ccf_inv_new (G : Nat → Nat) (cap b maxSwaps rate : Nat) (auto : Bool) (fpBits : Nat)
    (h : 0 < cap) : Inv G (Cuckoo.new true cap b maxSwaps rate auto fpBits) :=
  Ccf.inv_new G cap b maxSwaps rate auto fpBits h

/-- under the invariant `check` reads the count stored for the key's fingerprint anywhere in the table -/
theorem C08_ccf_check {G : Nat → Nat} {c : Cuckoo} (inv : Inv G c) (h : Nat) :
    check G c h = countOf c (c.fingerprint h) := Ccf.ccf_check inv h

/-- **add of a key whose fingerprint is stored**: exactly that bin's count goes up by one (all
    other bins, their order and their buckets unchanged), `check` returns old + 1, no random draw
    is consumed, the invariant is kept. -/
theorem C08_ccf_add_present {G : Nat → Nat} {c : Cuckoo} (inv : Inv G c) (h : Nat) (oracle : List Nat)
    (hp : 0 < countOf c (c.fingerprint h)) :
    ∃ c', add G c h oracle = (c', none, oracle) ∧ Inv G c' ∧ SameParams c c' ∧
      c'.count = c.count + 1 ∧ c'.unique = c.unique ∧
      c'.buckets = c.buckets.map (fun bkt => bkt.map (Ccf.bump (c.fingerprint h))) ∧
      countOf c' (c.fingerprint h) = countOf c (c.fingerprint h) + 1 ∧
      (∀ fp', fp' ≠ c.fingerprint h → countOf c' fp' = countOf c fp') ∧
      check G c' h = check G c h + 1 := Ccf.ccf_add_present inv h oracle hp

/-- **add of a new fingerprint when one of its two buckets has room**: stored with count 1 -/
theorem C08_ccf_add_room {G : Nat → Nat} {c : Cuckoo} (inv : Inv G c) (h : Nat) (oracle : List Nat)
    (habs : countOf c (c.fingerprint h) = 0)
    (hroom : (c.bucket (indices G c (c.fingerprint h)).1).length < c.b ∨
             (c.bucket (indices G c (c.fingerprint h)).2).length < c.b) :
    ∃ c', add G c h oracle = (c', none, oracle) ∧ Inv G c' ∧ SameParams c c' ∧
      c'.count = c.count + 1 ∧ c'.unique = c.unique + 1 ∧
      (∃ i, (i = (indices G c (c.fingerprint h)).1 ∨ i = (indices G c (c.fingerprint h)).2) ∧
          i < c.buckets.length ∧ (c.bucket i).length < c.b ∧
          c'.buckets = c.buckets.set i (c.bucket i ++ [(c.fingerprint h, 1)])) ∧
      countOf c' (c.fingerprint h) = 1 ∧
      (∀ fp', fp' ≠ c.fingerprint h → countOf c' fp' = countOf c fp') ∧
      check G c' h = 1 := Ccf.ccf_add_room inv h oracle habs hroom

/-- **remove of a present fingerprint** (both cases): returns `true`, the reported count goes
    down by one, no other fingerprint is affected -/
theorem C08_ccf_remove {G : Nat → Nat} {c : Cuckoo} (inv : Inv G c) (h : Nat)
    (hv : 0 < countOf c (c.fingerprint h)) :
    ∃ c', remove G c h = (c', true) ∧ Inv G c' ∧ SameParams c c' ∧ c'.count = c.count - 1 ∧
      countOf c' (c.fingerprint h) = countOf c (c.fingerprint h) - 1 ∧
      (∀ fp', fp' ≠ c.fingerprint h → countOf c' fp' = countOf c fp') ∧
      check G c' h = check G c h - 1 := Ccf.ccf_remove inv h hv

/-- **remove at count > 1**: the count is decremented, the bin stays in place -/
theorem C08_ccf_remove_many {G : Nat → Nat} {c : Cuckoo} (inv : Inv G c) (h : Nat)
    (hv : 1 < countOf c (c.fingerprint h)) :
    ∃ c', remove G c h = (c', true) ∧ Inv G c' ∧ SameParams c c' ∧
      c'.count = c.count - 1 ∧ c'.unique = c.unique ∧
      c'.buckets = c.buckets.map (fun bkt => bkt.map (Ccf.drop1 (c.fingerprint h))) ∧
      countOf c' (c.fingerprint h) = countOf c (c.fingerprint h) - 1 ∧
      (∀ fp', fp' ≠ c.fingerprint h → countOf c' fp' = countOf c fp') ∧
      check G c' h = check G c h - 1 := Ccf.ccf_remove_many inv h hv

/-- **remove at count 1**: the bin is dropped, `check` returns 0 afterwards -/
theorem C08_ccf_remove_last {G : Nat → Nat} {c : Cuckoo} (inv : Inv G c) (h : Nat)
    (hv : countOf c (c.fingerprint h) = 1) :
    ∃ c', remove G c h = (c', true) ∧ Inv G c' ∧ SameParams c c' ∧
      c'.count = c.count - 1 ∧ c'.unique = c.unique - 1 ∧
      (∃ i, (i = (indices G c (c.fingerprint h)).1 ∨ i = (indices G c (c.fingerprint h)).2) ∧
          (c.fingerprint h, 1) ∈ c.bucket i ∧
          c'.buckets = c.buckets.set i ((c.bucket i).erase (c.fingerprint h, 1))) ∧
      c.fingerprint h ∉ c'.buckets.flatten.map (·.1) ∧
      countOf c' (c.fingerprint h) = 0 ∧
      (∀ fp', fp' ≠ c.fingerprint h → countOf c' fp' = countOf c fp') ∧
      check G c' h = 0 := Ccf.ccf_remove_last inv h hv

/-- **Removing a key the filter reports absent changes nothing and says so.** -/
theorem C08_ccf_absent {G : Nat → Nat} {c : Cuckoo} (inv : Inv G c) (h : Nat)
    (h0 : check G c h = 0) : remove G c h = (c, false) := Ccf.ccf_absent inv h h0

/-- **Exact counts, histories without evictions** (`NoKick`: every add finds its fingerprint stored
    or room in one of its two buckets): `check key` = outstanding additions of the keys sharing the
    key's fingerprint; no call raised, no random draw was consumed, the invariant holds. -/
theorem C08_ccf_exact (G : Nat → Nat) (cap b maxSwaps rate : Nat) (auto : Bool) (fpBits : Nat)
    (hcap : 0 < cap) (oracle : List Nat) (ops : List Ccf.Op)
    (hk : NoKick G (Cuckoo.new true cap b maxSwaps rate auto fpBits, oracle) ops) :
    Inv G (Ccf.run G (Cuckoo.new true cap b maxSwaps rate auto fpBits) oracle ops).1 ∧
    SameParams (Cuckoo.new true cap b maxSwaps rate auto fpBits)
      (Ccf.run G (Cuckoo.new true cap b maxSwaps rate auto fpBits) oracle ops).1 ∧
    (Ccf.run G (Cuckoo.new true cap b maxSwaps rate auto fpBits) oracle ops).2 = oracle ∧
    AllAddsOk G (Cuckoo.new true cap b maxSwaps rate auto fpBits, oracle) ops ∧
    ∀ h, check G (Ccf.run G (Cuckoo.new true cap b maxSwaps rate auto fpBits) oracle ops).1 h =
      outstanding (Cuckoo.new true cap b maxSwaps rate auto fpBits).fingerprint ops
        ((Cuckoo.new true cap b maxSwaps rate auto fpBits).fingerprint h) :=
  Ccf.ccf_exact G cap b maxSwaps rate auto fpBits hcap oracle ops hk

/-- the full statement: evictions and automatic expansions allowed, any oracle -/
def C08_ccf_exact_with_kicks_statement : Prop :=
  ∀ (G : Nat → Nat) (cap b maxSwaps rate : Nat) (auto : Bool) (fpBits : Nat), 0 < cap → 0 < rate →
  ∀ (oracle : List Nat) (ops : List Ccf.Op),
    AllAddsOk G (Cuckoo.new true cap b maxSwaps rate auto fpBits, oracle) ops →
    ∀ h, check G (Ccf.run G (Cuckoo.new true cap b maxSwaps rate auto fpBits) oracle ops).1 h =
      outstanding (Cuckoo.new true cap b maxSwaps rate auto fpBits).fingerprint ops
        ((Cuckoo.new true cap b maxSwaps rate auto fpBits).fingerprint h)

/-- **Exact counts after any number of evictions and expansions**: the full statement holds. -/
theorem C08_ccf_exact_with_kicks : C08_ccf_exact_with_kicks_statement :=
  Ccf.ccf_exact_with_kicks

/-- the same with the invariant and the unchanged settings at the end made explicit -/
theorem C08_ccf_exact_any (G : Nat → Nat) (cap b maxSwaps rate : Nat) (auto : Bool) (fpBits : Nat)
    (hcap : 0 < cap) (hrate : 0 < rate) (oracle : List Nat) (ops : List Ccf.Op)
    (hok : AllAddsOk G (Cuckoo.new true cap b maxSwaps rate auto fpBits, oracle) ops) :
    Inv G (Ccf.run G (Cuckoo.new true cap b maxSwaps rate auto fpBits) oracle ops).1 ∧
    SameCfg (Cuckoo.new true cap b maxSwaps rate auto fpBits)
      (Ccf.run G (Cuckoo.new true cap b maxSwaps rate auto fpBits) oracle ops).1 ∧
    ∀ h, check G (Ccf.run G (Cuckoo.new true cap b maxSwaps rate auto fpBits) oracle ops).1 h =
      outstanding (Cuckoo.new true cap b maxSwaps rate auto fpBits).fingerprint ops
        ((Cuckoo.new true cap b maxSwaps rate auto fpBits).fingerprint h) :=
  Ccf.ccf_exact_any G cap b maxSwaps rate auto fpBits hcap hrate oracle ops hok

/-! ### non-vacuity (tests on concrete instances; more in `CcfCount.lean` / `CcfKick.lean`) -/

/-- test fingerprint hash -/
def exG : Nat → Nat := fun fp => fp + 1
/-- 3 buckets of 2 slots; fingerprint 3 stored with count 2, fingerprint 4 once -/
def exT : Cuckoo := ⟨true, 3, 2, 5, 2, false, 8, [[(3, 2)], [(4, 1)], []], 3, 2⟩

example : Inv exG exT := by decide
-- key 259 shares fingerprint 3 with key 3
example : exT.fingerprint 259 = 3 ∧ check exG exT 259 = 2 ∧ check exG (add exG exT 259 []).1 3 = 3 := by decide
example : check exG (remove exG exT 3).1 259 = 1 ∧ check exG (remove exG exT 4).1 4 = 0 ∧
    (remove exG exT 4).1.buckets = [[(3, 2)], [], []] := by decide
example : check exG exT 5 = 0 ∧ remove exG exT 5 = (exT, false) := by decide
example := C08_ccf_add_present (G := exG) (c := exT) (by decide) 259 [] (by decide)
example := C08_ccf_remove_many (G := exG) (c := exT) (by decide) 3 (by decide)
example := C08_ccf_remove_last (G := exG) (c := exT) (by decide) 4 (by decide)
example := C08_ccf_absent (G := exG) (c := exT) (by decide) 5 (by decide)

/-- a history on 3 one-slot buckets with a real eviction chain (not `NoKick`), no call raising -/
def exKick : List Ccf.Op := [.add 3, .add 4, .add 6, .add 3, .remove 4]
example : ¬ NoKick exG (Cuckoo.new true 3 1 5 2 false 8, [0, 0, 0, 7]) exKick := by decide
example : AllAddsOk exG (Cuckoo.new true 3 1 5 2 false 8, [0, 0, 0, 7]) exKick := by decide
example : check exG (Ccf.run exG (Cuckoo.new true 3 1 5 2 false 8) [0, 0, 0, 7] exKick).1 3 = 2 ∧
    check exG (Ccf.run exG (Cuckoo.new true 3 1 5 2 false 8) [0, 0, 0, 7] exKick).1 4 = 0 ∧
    check exG (Ccf.run exG (Cuckoo.new true 3 1 5 2 false 8) [0, 0, 0, 7] exKick).1 6 = 1 := by decide
example := C08_ccf_exact_any exG 3 1 5 2 false 8 (by decide) (by decide) [0, 0, 0, 7] exKick (by decide)
/-- a history with an automatic expansion (capacity 1 → 2) -/
example : AllAddsOk exG (Cuckoo.new true 1 1 2 2 true 8, [0, 0, 0]) [.add 1, .add 1, .add 2] ∧
    (Ccf.run exG (Cuckoo.new true 1 1 2 2 true 8) [0, 0, 0] [.add 1, .add 1, .add 2]).1.cap = 2 ∧
    check exG (Ccf.run exG (Cuckoo.new true 1 1 2 2 true 8) [0, 0, 0] [.add 1, .add 1, .add 2]).1 1 = 2 := by
  decide

end CountingCuckoo

end PyProb.C08
