/-
  C15 — cuckoo table invariants hold after every operation (plain and counting cuckoo filter,
  one model `PyProb.Cuckoo` with a `counting` flag).

  Proved here, for ALL `G` (the second-index hash `hash(str(fp))`), ALL oracles (resolutions of
  `random.choice` / `random.randint`), all `maxSwaps`, all capacities / bucket sizes / rates ≥ 1:
  * `C15_init`      : `Inv` holds for a fresh filter;
  * `C15_add`, `C15_remove`, `C15_expand` : every public operation preserves `Inv`, whether it
    returns normally or raises `CuckooFilterFullError`;
  * `C15_add_result`, `C15_expand_result`, `C15_remove_false` : the only error is `cuckooFull`, and
    a failed call (or a `remove` returning `False`) leaves the filter state unchanged;
  * `C15_step_capacity` / `C15_capacity` : the capacity changes only by multiplication with the
    expansion rate (`cap' = cap ∨ cap' = cap * rate` per call, `cap₀ * rate ^ j` over a history),
    all other configuration fields never change;
  * `C15_run`       : `Inv` for every state reachable by any history of add / remove / expand, every
    operation with its own arbitrary oracle.
  Not proved here: that a table obtained by `Cuckoo.load` of an export satisfies `Inv` (that clause
  of C15 is handled with the export round trip, property C05).
  `Inv` contains `0 < rate` in addition to the clauses listed in the design: with rate 0 the model's
  expansion would build a table of capacity 0 (Python raises instead), so the parameter guard is needed.
-/
import PyProb.Lemmas.CuckooOps

namespace PyProb.C15
open PyProb PyProb.Cuckoo

/-- the table invariant -/
def Inv (G : Nat → Nat) (c : Cuckoo) : Prop :=
  c.buckets.length = c.cap ∧ 0 < c.cap ∧ 0 < c.b ∧ 0 < c.rate ∧
  (∀ bkt ∈ c.buckets, bkt.length ≤ c.b) ∧
  (∀ i (h : i < c.buckets.length), ∀ bin ∈ c.buckets[i], i = bin.1 % c.cap ∨ i = G bin.1 % c.cap) ∧
  (c.buckets.flatten.map (·.1)).Nodup ∧
  (∀ bin ∈ c.buckets.flatten, 1 ≤ bin.2) ∧
  (c.counting = false → ∀ bin ∈ c.buckets.flatten, bin.2 = 1)

/-- `Inv` is the lemma library's `WF` written out -/
theorem inv_iff_wf (G : Nat → Nat) (c : Cuckoo) : Inv G c ↔ WF G c := by
  constructor
  · rintro ⟨hlen, hcap, hb, hrate, hsize, hpos, hnd, hcnt, hplain⟩
    refine ⟨⟨hlen, hcap, hb, ?_, ?_⟩, hrate, (nodup_iff_tsum c).mp hnd, hcnt, hplain⟩
    · intro i
      unfold bucket
      by_cases hi : i < c.buckets.length
      · rw [getD_eq_getElem_of_lt _ i hi]; exact hsize _ (List.getElem_mem hi)
      · rw [getD_nil_of_ge _ i (by omega)]; simp
    · intro i bin
      unfold bucket
      by_cases hi : i < c.buckets.length
      · rw [getD_eq_getElem_of_lt _ i hi]; exact hpos i hi bin
      · rw [getD_nil_of_ge _ i (by omega)]; simp
  · intro hw
    refine ⟨hw.ts.len, hw.ts.cap_pos, hw.ts.b_pos, hw.rate_pos, ?_, ?_, (nodup_iff_tsum c).mpr hw.nodup,
      hw.cnt_pos, hw.plain⟩
    · intro bkt hbkt
      obtain ⟨i, hi, rfl⟩ := List.mem_iff_getElem.mp hbkt
      have := hw.ts.size i
      unfold bucket at this
      rwa [getD_eq_getElem_of_lt _ i hi] at this
    · intro i hi bin hbin
      have := hw.ts.pos i bin
      unfold bucket at this
      rw [getD_eq_getElem_of_lt _ i hi] at this
      exact this hbin

/-- the configuration fields other than the capacity -/
def SameConfig (c c' : Cuckoo) : Prop :=
  c'.counting = c.counting ∧ c'.b = c.b ∧ c'.maxSwaps = c.maxSwaps ∧ c'.rate = c.rate ∧
  c'.auto = c.auto ∧ c'.fpBits = c.fpBits

theorem sameConfig_of {c c' : Cuckoo} (h : SameX c c') : SameConfig c c' :=
  ⟨h.counting, h.b, h.maxSwaps, h.rate, h.auto, h.fpBits⟩

/-! ### fresh filter -/

theorem C15_init (G : Nat → Nat) (counting : Bool) (cap b maxSwaps rate : Nat) (auto : Bool) (fpBits : Nat)
    (hcap : 1 ≤ cap) (hb : 1 ≤ b) (hrate : 1 ≤ rate) :
    Inv G (Cuckoo.new counting cap b maxSwaps rate auto fpBits) :=
  (inv_iff_wf _ _).mpr (WF_new G counting cap b maxSwaps rate auto fpBits hcap hb hrate)

/-! ### one operation -/

/-- `add` returns normally or raises `CuckooFilterFullError`; in the latter case nothing changed -/
theorem C15_add_result (G : Nat → Nat) (c : Cuckoo) (h : Nat) (oracle : List Nat) (hinv : Inv G c) :
    (c.add G h oracle).2.1 = none ∨
    ((c.add G h oracle).2.1 = some .cuckooFull ∧ (c.add G h oracle).1 = c) := by
  rcases add_spec h oracle ((inv_iff_wf G c).mp hinv) with ⟨he, _⟩ | ⟨he, hc⟩
  · exact Or.inl he
  · exact Or.inr ⟨he, hc⟩

theorem C15_add (G : Nat → Nat) (c : Cuckoo) (h : Nat) (oracle : List Nat) (hinv : Inv G c) :
    Inv G (c.add G h oracle).1 := by
  rcases add_spec h oracle ((inv_iff_wf G c).mp hinv) with ⟨_, hw', _⟩ | ⟨_, hc⟩
  · exact (inv_iff_wf _ _).mpr hw'
  · rw [hc]; exact hinv

theorem C15_add_capacity (G : Nat → Nat) (c : Cuckoo) (h : Nat) (oracle : List Nat) (hinv : Inv G c) :
    ((c.add G h oracle).1.cap = c.cap ∨ (c.add G h oracle).1.cap = c.cap * c.rate) ∧
    SameConfig c (c.add G h oracle).1 := by
  rcases add_spec h oracle ((inv_iff_wf G c).mp hinv) with ⟨_, _, hx, hcap, _⟩ | ⟨_, hc⟩
  · exact ⟨hcap.imp id (·.2), sameConfig_of hx⟩
  · rw [hc]; exact ⟨Or.inl rfl, sameConfig_of (SameX.refl c)⟩

/-- without `auto_expand` an `add` never changes the capacity -/
theorem C15_add_capacity_noauto (G : Nat → Nat) (c : Cuckoo) (h : Nat) (oracle : List Nat) (hinv : Inv G c)
    (hauto : c.auto = false) : (c.add G h oracle).1.cap = c.cap := by
  rcases add_spec h oracle ((inv_iff_wf G c).mp hinv) with ⟨_, _, _, hcap, _⟩ | ⟨_, hc⟩
  · rcases hcap with hcap | ⟨ha, _⟩
    · exact hcap
    · rw [hauto] at ha; exact absurd ha (by simp)
  · rw [hc]

theorem C15_remove (G : Nat → Nat) (c : Cuckoo) (h : Nat) (hinv : Inv G c) :
    Inv G (c.remove G h).1 := by
  rcases remove_spec h ((inv_iff_wf G c).mp hinv) with ⟨_, hw', _⟩ | ⟨_, hc, _⟩
  · exact (inv_iff_wf _ _).mpr hw'
  · rw [hc]; exact hinv

/-- a `remove` that reports `False` changed nothing -/
theorem C15_remove_false (G : Nat → Nat) (c : Cuckoo) (h : Nat) (hinv : Inv G c)
    (hret : (c.remove G h).2 = false) : (c.remove G h).1 = c := by
  rcases remove_spec h ((inv_iff_wf G c).mp hinv) with ⟨ht, _⟩ | ⟨_, hc, _⟩
  · rw [hret] at ht; exact absurd ht (by simp)
  · exact hc

theorem C15_remove_capacity (G : Nat → Nat) (c : Cuckoo) (h : Nat) (hinv : Inv G c) :
    (c.remove G h).1.cap = c.cap ∧ SameConfig c (c.remove G h).1 := by
  rcases remove_spec h ((inv_iff_wf G c).mp hinv) with ⟨_, _, hs, _⟩ | ⟨_, hc, _⟩
  · exact ⟨hs.cap, sameConfig_of hs.toX⟩
  · rw [hc]; exact ⟨rfl, sameConfig_of (SameX.refl c)⟩

/-- the public `expand()` returns normally with the capacity multiplied by the rate, or raises
    `CuckooFilterFullError` and leaves the filter unchanged -/
theorem C15_expand_result (G : Nat → Nat) (c : Cuckoo) (oracle : List Nat) (hinv : Inv G c) :
    ((expandLogic G c none oracle).2.1 = none ∧ (expandLogic G c none oracle).1.cap = c.cap * c.rate) ∨
    ((expandLogic G c none oracle).2.1 = some .cuckooFull ∧ (expandLogic G c none oracle).1 = c) := by
  rcases expand_spec oracle ((inv_iff_wf G c).mp hinv) with ⟨he, _, _, hcap, _⟩ | ⟨he, hc⟩
  · exact Or.inl ⟨he, hcap⟩
  · exact Or.inr ⟨he, hc⟩

theorem C15_expand (G : Nat → Nat) (c : Cuckoo) (oracle : List Nat) (hinv : Inv G c) :
    Inv G (expandLogic G c none oracle).1 := by
  rcases expand_spec oracle ((inv_iff_wf G c).mp hinv) with ⟨_, hw', _⟩ | ⟨_, hc⟩
  · exact (inv_iff_wf _ _).mpr hw'
  · rw [hc]; exact hinv

theorem C15_expand_capacity (G : Nat → Nat) (c : Cuckoo) (oracle : List Nat) (hinv : Inv G c) :
    ((expandLogic G c none oracle).1.cap = c.cap ∨ (expandLogic G c none oracle).1.cap = c.cap * c.rate) ∧
    SameConfig c (expandLogic G c none oracle).1 := by
  rcases expand_spec oracle ((inv_iff_wf G c).mp hinv) with ⟨_, _, hx, hcap, _⟩ | ⟨_, hc⟩
  · exact ⟨Or.inr hcap, sameConfig_of hx⟩
  · rw [hc]; exact ⟨Or.inl rfl, sameConfig_of (SameX.refl c)⟩

/-! ### histories -/

/-- the public operations; keys are given by their hash value -/
inductive Op where
  | add (hashVal : Nat)
  | remove (hashVal : Nat)
  | expand
  deriving DecidableEq, Repr

/-- one operation with its own oracle (the draws it may consume); errors are caught by the caller -/
def step (G : Nat → Nat) (c : Cuckoo) : Op × List Nat → Cuckoo
  | (.add h, oracle) => (c.add G h oracle).1
  | (.remove h, _) => (c.remove G h).1
  | (.expand, oracle) => (expandLogic G c none oracle).1

/-- a history: every operation comes with an arbitrary oracle -/
def run (G : Nat → Nat) (c : Cuckoo) (ops : List (Op × List Nat)) : Cuckoo := ops.foldl (step G) c

theorem C15_step (G : Nat → Nat) (c : Cuckoo) (op : Op × List Nat) (hinv : Inv G c) :
    Inv G (step G c op) := by
  obtain ⟨op, oracle⟩ := op
  cases op with
  | add h => exact C15_add G c h oracle hinv
  | remove h => exact C15_remove G c h hinv
  | expand => exact C15_expand G c oracle hinv

theorem C15_step_capacity (G : Nat → Nat) (c : Cuckoo) (op : Op × List Nat) (hinv : Inv G c) :
    ((step G c op).cap = c.cap ∨ (step G c op).cap = c.cap * c.rate) ∧ SameConfig c (step G c op) := by
  obtain ⟨op, oracle⟩ := op
  cases op with
  | add h => exact C15_add_capacity G c h oracle hinv
  | remove h => exact ⟨Or.inl (C15_remove_capacity G c h hinv).1, (C15_remove_capacity G c h hinv).2⟩
  | expand => exact C15_expand_capacity G c oracle hinv

/-- the invariant holds in every reachable state -/
theorem C15_run (G : Nat → Nat) (c : Cuckoo) (ops : List (Op × List Nat)) (hinv : Inv G c) :
    Inv G (run G c ops) := by
  unfold run
  induction ops generalizing c with
  | nil => exact hinv
  | cons op ops ih => exact ih (step G c op) (C15_step G c op hinv)

/-- over any history the capacity is the initial capacity times a power of the (unchanged) rate, and
    no other configuration field changes -/
theorem C15_capacity (G : Nat → Nat) (c : Cuckoo) (ops : List (Op × List Nat)) (hinv : Inv G c) :
    (∃ j, j ≤ ops.length ∧ (run G c ops).cap = c.cap * c.rate ^ j) ∧ SameConfig c (run G c ops) := by
  unfold run
  induction ops generalizing c with
  | nil => exact ⟨⟨0, Nat.le_refl _, by simp⟩, sameConfig_of (SameX.refl c)⟩
  | cons op ops ih =>
    obtain ⟨hcap, hcfg⟩ := C15_step_capacity G c op hinv
    obtain ⟨⟨j, hj, hjc⟩, hcfg'⟩ := ih (step G c op) (C15_step G c op hinv)
    obtain ⟨h1, h2, h3, h4, h5, h6⟩ := hcfg
    obtain ⟨g1, g2, g3, g4, g5, g6⟩ := hcfg'
    refine ⟨?_, g1.trans h1, g2.trans h2, g3.trans h3, g4.trans h4, g5.trans h5, g6.trans h6⟩
    simp only [List.foldl_cons, List.length_cons]
    rw [h4] at hjc
    rcases hcap with hc | hc
    · exact ⟨j, by omega, by rw [hjc, hc]⟩
    · exact ⟨j + 1, by omega, by rw [hjc, hc, Nat.pow_succ, Nat.mul_assoc, Nat.mul_comm (c.rate ^ j)]⟩

/-! ### tests and non-vacuity (concrete instances, evaluated by `decide`) -/

/-- a simple concrete second-index hash -/
def G0 : Nat → Nat := fun fp => fp / 2
/-- plain filter: 2 buckets of 1 slot, 2 swaps, no auto-expansion -/
def c0 : Cuckoo := Cuckoo.new false 2 1 2 2 false 8
/-- after `add 2; add 4`: the second add finds both candidate buckets (0 and 0) full and goes through
    the kick loop: 2 is evicted from bucket 0 to its other bucket 1 -/
def c2 : Cuckoo := run G0 c0 [(.add 2, []), (.add 4, [0, 0])]

example : Inv G0 c0 := C15_init G0 false 2 1 2 2 false 8 (by decide) (by decide) (by decide)
example : c2.buckets = [[(4, 1)], [(2, 1)]] := by decide
example : Inv G0 c2 := C15_run G0 c0 _ (C15_init G0 false 2 1 2 2 false 8 (by decide) (by decide) (by decide))
/-- the invariant is decidable on concrete tables and is not trivially true: -/
example : Inv G0 c2 := by unfold Inv; decide
example : ¬ Inv G0 { c2 with buckets := [[(4, 1)], [(4, 1)]] } := by unfold Inv; decide
example : ¬ Inv G0 { c2 with buckets := [[(2, 1)], [(4, 1)]] } := by unfold Inv; decide
example : ¬ Inv G0 { c2 with buckets := [[(4, 1), (6, 1)], [(2, 1)]] } := by unfold Inv; decide
/-- a third add (fingerprint 6, buckets 0 and 1) runs out of swaps: error, state unchanged -/
example : (c2.add G0 6 [0, 0, 0]).2.1 = some .cuckooFull ∧ (c2.add G0 6 [0, 0, 0]).1 = c2 := by decide
/-- counting filter with auto-expansion: the same failing add expands the table to capacity 4;
    the bin of fingerprint 4 keeps its count 2 -/
example : (run G0 (Cuckoo.new true 2 1 2 2 true 8)
    [(.add 2, []), (.add 4, [0, 0]), (.add 4, []), (.add 6, [0, 0, 0])]).buckets
      = [[(4, 2)], [(2, 1)], [(6, 1)], []] := by decide
example : (run G0 (Cuckoo.new true 2 1 2 2 true 8)
    [(.add 2, []), (.add 4, [0, 0]), (.add 4, []), (.add 6, [0, 0, 0])]).cap = 2 * 2 ^ 1 := by decide

end PyProb.C15
