/-
  C06 — the exported bytes are exactly the documented, C-compatible layout.

  The specification `PyProb/Spec/Layout.lean` is written from the documentation, independently of
  the model: fixed-width little-endian integers byte by byte, the 20/16/28/8-byte footers, the bit
  addressing rule, the hashing rule with the *published* FNV-1a constants (`Spec/Fnv.lean`),
  reference readers that work on the file bytes only, and reference writers.  The model takes its
  layouts and constants from `Generated/Repo.lean` (extracted from the Python source), so every
  theorem below ties the source to the documentation: an edit of `"QQf"`, of the FNV constants, of
  `k // 8` or of the hex byte order makes one of them false.

  Proved (unbounded sizes, keys and histories):
    * layout of every format as a total characterisation of `export`
      (`= if <ranges> then .ok <documented file> else .error struct.error`):
      `C06_bloom_footer`, `C06_bloom_file`, `C06_bloom_hex_file`, `C06_cbf_file`,
      `C06_cms_file_flat`, `C06_cms_file` (row-major), `C06_expanding_file` / `C06_rotating_file`
      (+ `C06_expanding_error`), `C06_cuckoo_file`, `C06_counting_cuckoo_file`
      (+ `C06_cuckoo_overflow`);
    * addressing: `C06_bloom_bit_addressing`, `C06_cbf_cell_addressing`, `C06_cms_cell_addressing`;
    * reference readers agree with the library on the exported file, for every key:
      `C06_reader_bloom` (`_iff`), `C06_reader_cbf`, `C06_reader_cms_min`, `C06_reader_cms_mean`,
      `C06_reader_cms_meanmin` (elements_added is read from the file's footer) — error branches
      (k = 0, depth 0, width 1) included;
    * reference writers produce the library's file from the same additions (default hashing):
      `C06_writer_bloom`, `C06_writer_cbf`, `C06_writer_cms`, `C06_writer_expanding`,
      `C06_writer_rotating` (growth and rotation decisions are recomputed by the writer).
  Keys enter through `Key.units`: for a `bytes` key these are its bytes, for a `str` key the code
  units the library's FNV loop consumes (equal to the UTF-8 bytes for ASCII text, `C18_ascii`).
  The examples at the end compare the reference writers with byte strings produced by the real
  library.

  Not proved / not stated: a reference *writer* for the cuckoo filters.  Their file is pinned as a
  function of the table by `C06_cuckoo_file` / `C06_counting_cuckoo_file` (i.e. a writer that is
  given the eviction decisions in the form of the resulting table); which table results from a
  history is the subject of C03 / C15.  The Bloom-family readers receive `k` and `m` as inputs
  (the C code re-derives them from the footer with floating point, which the model keeps outside
  as the parameter `geom`, see C05 / C07).
-/
import PyProb.Lemmas.Reference
import PyProb.Lemmas.ExpandingWriter

namespace PyProb.C06
open PyProb

/-! ## Bloom filter -/

/-- the footer is the documented 20 bytes — `Gen.bloomFooter` ("QQf") is pinned to
    uint64 LE, uint64 LE, float32 LE without padding — and `export` fails exactly when a value
    does not fit its field -/
theorem C06_bloom_footer (b : Bloom) :
    b.exportBytes =
      if b.est < 2 ^ 64 ∧ 0 ≤ b.count ∧ b.count < 2 ^ 64 ∧ b.fpr32 < 2 ^ 32
      then .ok (b.bits ++ Spec.bloomFooter b.est b.count.toNat b.fpr32)
      else .error .structError := by
  unfold Bloom.exportBytes Bloom.footerVals
  rw [bloomFooter_spec]
  by_cases h : b.est < 2 ^ 64 ∧ 0 ≤ b.count ∧ b.count < 2 ^ 64 ∧ b.fpr32 < 2 ^ 32
  · rw [if_pos h, if_pos h]
  · rw [if_neg h, if_neg h]

theorem C06_bloom_footer_length (est added fpr32 : Nat) : (Spec.bloomFooter est added fpr32).length = 20 := rfl

/-- bit `i` of the filter is bit `i mod 8` of byte `i div 8` of the exported file -/
theorem C06_bloom_bit_addressing (b : Bloom) (file : Bytes) (i : Nat)
    (hlen : b.bits.length = Bloom.lengthOf b.m) (hi : i < b.m)
    (h : b.exportBytes = .ok file) :
    testBitB b.bits i = Nat.testBit (file.getD (i / 8) 0) (i % 8) := by
  rw [C06_bloom_footer] at h
  split at h
  · injection h with h; subst h
    have : i / 8 < b.bits.length := by rw [hlen]; exact index_in_range hi
    exact (bitOfFile_append _ _ _ this).symm
  · cases h

/-- the whole file is the documented file of the filter's bits -/
theorem C06_bloom_file (b : Bloom)
    (hlen : b.bits.length = Bloom.lengthOf b.m) (hbytes : ∀ x ∈ b.bits, x < 256) :
    b.exportBytes =
      if b.est < 2 ^ 64 ∧ 0 ≤ b.count ∧ b.count < 2 ^ 64 ∧ b.fpr32 < 2 ^ 32
      then .ok (Spec.bloomFile b.m (testBitB b.bits) b.est b.count.toNat b.fpr32)
      else .error .structError := by
  rw [C06_bloom_footer]
  have : b.bits = (List.range ((b.m + 7) / 8)).map fun j => Spec.byteOfBits fun t => testBitB b.bits (8 * j + t) := by
    have h := bits_eq_byteOfBits b.bits hbytes
    rw [hlen] at h
    exact h
  unfold Spec.bloomFile
  rw [← this]

/-- the hex channel: hex of the payload, then hex of the same three values, most significant
    byte first -/
theorem C06_bloom_hex_file (b : Bloom) (hlen : b.bits.length = Bloom.lengthOf b.m) :
    b.exportHex =
      if b.est < 2 ^ 64 ∧ 0 ≤ b.count ∧ b.count < 2 ^ 64 ∧ b.fpr32 < 2 ^ 32
      then .ok (hexlify b.bits ++ hexlify ((Spec.u64le b.est).reverse ++ (Spec.u64le b.count.toNat).reverse ++
        (Spec.u32le b.fpr32).reverse))
      else .error .structError := by
  unfold Bloom.exportHex Bloom.footerVals
  have htake : b.bits.take b.bloomLength = b.bits := List.take_of_length_le (by simp [Bloom.bloomLength, hlen])
  rw [bloomFooterHex_spec, htake]
  by_cases h : b.est < 2 ^ 64 ∧ 0 ≤ b.count ∧ b.count < 2 ^ 64 ∧ b.fpr32 < 2 ^ 32
  · rw [if_pos h, if_pos h]
  · rw [if_neg h, if_neg h]

/-- reference reader: testing the documented positions directly on the file bytes gives the
    library's answer -/
theorem C06_reader_bloom (b : Bloom) (file : Bytes) (key : Key)
    (hlen : b.bits.length = Bloom.lengthOf b.m) (hm : 0 < b.m)
    (h : b.exportBytes = .ok file) :
    b.checkAlt (defaultFnv key b.k) = .ok (Spec.refReaderBloom b.k b.m file key.units) := by
  rw [C06_bloom_footer] at h
  split at h
  · injection h with h; subst h
    unfold Bloom.checkAlt
    rw [checkGo_all _ _ _ _ (by rw [C18.C18_len_default]; exact Nat.le_refl _)]
    rw [List.take_of_length_le (by rw [C18.C18_len_default]; exact Nat.le_refl _), defaultFnv_spec]
    unfold Spec.refReaderBloom Spec.bloomPositions
    rw [List.all_map, List.all_map]
    congr 2
    funext i
    simp only [Function.comp_def]
    have hp : Spec.hashI key.units i % b.m / 8 < b.bits.length := by
      rw [hlen]; exact index_in_range (Nat.mod_lt _ hm)
    exact (bitOfFile_append _ _ _ hp).symm
  · cases h

/-- the `↔ true` form of the reader theorem -/
theorem C06_reader_bloom_iff (b : Bloom) (file : Bytes) (key : Key)
    (hlen : b.bits.length = Bloom.lengthOf b.m) (hm : 0 < b.m)
    (h : b.exportBytes = .ok file) :
    Spec.refReaderBloom b.k b.m file key.units = true ↔ b.checkAlt (defaultFnv key b.k) = .ok true := by
  rw [C06_reader_bloom b file key hlen hm h]
  constructor
  · intro h; rw [h]
  · intro h; injection h

/-- the filter obtained from `Bloom.new` by adding the keys one after the other, default hashing -/
def bloomRun (est fpr32 k m : Nat) (keys : List Key) : Bloom :=
  keys.foldl (fun b key => (b.addAlt (defaultFnv key k)).1) (Bloom.new est fpr32 k m)

/-- reference writer: setting the documented bit positions of every key in a zero array and
    appending the documented footer gives exactly the library's file -/
theorem C06_writer_bloom (est fpr32 k m : Nat) (keys : List Key)
    (he : est < 2 ^ 64) (hf : fpr32 < 2 ^ 32) (hn : keys.length < 2 ^ 64) :
    (bloomRun est fpr32 k m keys).exportBytes =
      .ok (Spec.refWriterBloom est fpr32 k m (keys.map Key.units)) := by
  unfold bloomRun
  rw [bloomRun_eq k m keys (Bloom.new est fpr32 k m) rfl rfl, C06_bloom_footer]
  simp only [Bloom.new, Int.zero_add]
  rw [if_pos ⟨he, by omega, by omega, hf⟩]
  simp [Spec.refWriterBloom, Bloom.lengthOf, Gen.bloomBitsPerElm]

/-! ## counting Bloom filter -/

/-- m uint32 LE counters, then the Bloom footer -/
theorem C06_cbf_file (c : CBF) (hcells : ∀ x ∈ c.cells, 0 ≤ x ∧ x ≤ 4294967295) :
    c.exportBytes =
      if c.est < 2 ^ 64 ∧ 0 ≤ c.count ∧ c.count < 2 ^ 64 ∧ c.fpr32 < 2 ^ 32
      then .ok (Spec.cbfFile (c.cells.map Int.toNat) c.est c.count.toNat c.fpr32)
      else .error .structError := by
  unfold CBF.exportBytes CBF.footerVals
  rw [bloomFooter_spec, cellsBytes_u32_spec _ hcells]
  by_cases h : c.est < 2 ^ 64 ∧ 0 ≤ c.count ∧ c.count < 2 ^ 64 ∧ c.fpr32 < 2 ^ 32
  · rw [if_pos h, if_pos h]; rfl
  · rw [if_neg h, if_neg h]

/-- counter `p` is the uint32 LE at byte offset `4p` of the exported file -/
theorem C06_cbf_cell_addressing (c : CBF) (file : Bytes) (p : Nat)
    (hcells : ∀ x ∈ c.cells, 0 ≤ x ∧ x ≤ 4294967295) (hp : p < c.cells.length)
    (h : c.exportBytes = .ok file) :
    c.cells.getD p 0 = (Spec.rdU32 file (4 * p) : Int) := by
  rw [C06_cbf_file c hcells] at h
  split at h
  · injection h with h; subst h
    unfold Spec.cbfFile
    rw [rdU32_cells _ _ p (by simpa using hp)]
    · have := hcells c.cells[p] (List.getElem_mem hp)
      simp only [List.getD_eq_getElem?_getD, List.getElem?_map, List.getElem?_eq_getElem hp, Option.map_some,
        Option.getD_some]
      omega
    · intro x hx
      simp only [List.mem_map] at hx
      obtain ⟨v, hv, rfl⟩ := hx
      have := hcells v hv
      omega
  · cases h

/-- reference reader: the minimum of the counters at the documented positions, read from the file -/
theorem C06_reader_cbf (c : CBF) (file : Bytes) (key : Key)
    (hlen : c.cells.length = c.m) (hm : 0 < c.m)
    (hcells : ∀ x ∈ c.cells, 0 ≤ x ∧ x ≤ 4294967295)
    (h : c.exportBytes = .ok file) :
    c.checkAlt (defaultFnv key c.k) =
      match Spec.refReaderCbf c.k c.m file key.units with
      | some v => .ok (v : Int)
      | none => .error .valueError := by
  have hcell : ∀ x : Nat, c.cells.getD (x % c.m) 0 = (Spec.rdU32 file (4 * (x % c.m)) : Int) := fun x =>
    C06_cbf_cell_addressing c file _ hcells (by rw [hlen]; exact Nat.mod_lt _ hm) h
  have hpos : Spec.bloomPositions c.k c.m key.units = ((List.range c.k).map (Spec.hashI key.units)).map (· % c.m) := by
    simp [Spec.bloomPositions, List.map_map, Function.comp_def]
  unfold CBF.checkAlt Spec.refReaderCbf
  rw [defaultFnv_spec, hpos]
  cases (List.range c.k).map (Spec.hashI key.units) with
  | nil => rfl
  | cons x xs =>
      simp only [List.map_cons, CBF.minList, hcell, natCast_foldl_min, List.map_map]
      rfl

/-- the filter obtained from `CBF.new` by adding the keys one after the other, default hashing -/
def cbfRun (est fpr32 k m : Nat) (keys : List Key) : CBF :=
  keys.foldl (fun c key => (c.addAlt (defaultFnv key k) 1).1) (CBF.new est fpr32 k m)

/-- reference writer: one saturating increment per documented position (positions that coincide
    within a key are incremented once per hash, as the library does) -/
theorem C06_writer_cbf (est fpr32 k m : Nat) (keys : List Key)
    (he : est < 2 ^ 64) (hf : fpr32 < 2 ^ 32) (hn : keys.length < 2 ^ 64) :
    (cbfRun est fpr32 k m keys).exportBytes =
      .ok (Spec.refWriterCbf est fpr32 k m (keys.map Key.units)) := by
  have h0 : ∀ x ∈ List.replicate m (0 : Int), 0 ≤ x ∧ x ≤ 4294967295 := by
    intro x hx; rw [(List.mem_replicate.mp hx).2]; omega
  have hinv := foldl_keys_incrI k m (keys.map Key.units) (List.replicate m 0) h0
  unfold cbfRun
  rw [cbfRun_eq k m keys (CBF.new est fpr32 k m) rfl rfl (by simp [CBF.new]) h0 (by simp only [CBF.new]; omega)]
  rw [C06_cbf_file _ hinv.1]
  simp only [CBF.new, Int.zero_add]
  rw [if_pos ⟨he, by omega, by omega, hf⟩, hinv.2]
  simp [Spec.refWriterCbf]

/-! ## count-min sketch -/

/-- int32 LE counters, then uint32 LE width, uint32 LE depth, int64 LE elements_added
    (`Gen.cmsFooter` "IIq" has no padding: 16 bytes) -/
theorem C06_cms_file_flat (c : CMS) (hbins : ∀ x ∈ c.bins, -2147483648 ≤ x ∧ x ≤ 2147483647) :
    c.exportBytes =
      if c.w < 2 ^ 32 ∧ c.d < 2 ^ 32 ∧ -9223372036854775808 ≤ c.total ∧ c.total ≤ 9223372036854775807
      then .ok (Spec.cmsFileFlat c.w c.d c.bins c.total)
      else .error .structError := by
  unfold CMS.exportBytes
  rw [cmsFooter_spec, cellsBytes_i32_spec _ hbins]
  by_cases h : c.w < 2 ^ 32 ∧ c.d < 2 ^ 32 ∧ -9223372036854775808 ≤ c.total ∧ c.total ≤ 9223372036854775807
  · rw [if_pos h, if_pos h]; rfl
  · rw [if_neg h, if_neg h]

/-- row-major: the counter of row `i`, column `j` is written at index `i*width + j` -/
theorem C06_cms_file (c : CMS) (hlen : c.bins.length = c.w * c.d)
    (hbins : ∀ x ∈ c.bins, -2147483648 ≤ x ∧ x ≤ 2147483647) :
    c.exportBytes =
      if c.w < 2 ^ 32 ∧ c.d < 2 ^ 32 ∧ -9223372036854775808 ≤ c.total ∧ c.total ≤ 9223372036854775807
      then .ok (Spec.cmsFile c.w c.d (fun i j => c.bins.getD (i * c.w + j) 0) c.total)
      else .error .structError := by
  rw [C06_cms_file_flat c hbins]
  unfold Spec.cmsFileFlat Spec.cmsFile
  rw [flatMap_rows c.w c.d c.bins Spec.i32le hlen]

theorem C06_cms_footer_length (w d : Nat) (t : Int) : (Spec.cmsFooter w d t).length = 16 := rfl

/-- the counter of row `i`, column `j` is the int32 LE at byte offset `4(i*width+j)` -/
theorem C06_cms_cell_addressing (c : CMS) (file : Bytes) (i j : Nat)
    (hlen : c.bins.length = c.w * c.d)
    (hbins : ∀ x ∈ c.bins, -2147483648 ≤ x ∧ x ≤ 2147483647)
    (hi : i < c.d) (hj : j < c.w)
    (h : c.exportBytes = .ok file) :
    c.bins.getD (i * c.w + j) 0 = Spec.rdI32 file (4 * (i * c.w + j)) := by
  rw [C06_cms_file_flat c hbins] at h
  split at h
  · injection h with h; subst h
    unfold Spec.cmsFileFlat
    rw [rdI32_cells _ _ _ (by rw [hlen, Nat.add_comm]; exact cms_idx_lt hi hj) hbins]
  · cases h

/-- a successful export is the documented file, and `elements_added` fits an int64 -/
theorem C06_cms_file_inv (c : CMS) (file : Bytes)
    (hbins : ∀ x ∈ c.bins, -2147483648 ≤ x ∧ x ≤ 2147483647) (h : c.exportBytes = .ok file) :
    file = Spec.cmsFileFlat c.w c.d c.bins c.total ∧
      -9223372036854775808 ≤ c.total ∧ c.total ≤ 9223372036854775807 := by
  rw [C06_cms_file_flat c hbins] at h
  split at h
  · rename_i hr
    injection h with h
    exact ⟨h.symm, hr.2.2⟩
  · cases h

/-- reference reader, min query (`CountMinSketch`) -/
theorem C06_reader_cms_min (c : CMS) (file : Bytes) (key : Key)
    (hmode : c.mode = .min)
    (hlen : c.bins.length = c.w * c.d) (hw : 0 < c.w)
    (hbins : ∀ x ∈ c.bins, -2147483648 ≤ x ∧ x ≤ 2147483647)
    (h : c.exportBytes = .ok file) :
    c.checkAlt (defaultFnv key c.d) =
      match Spec.refReaderCmsMin c.w c.d file key.units with
      | some v => .ok v
      | none => .error .indexError := by
  obtain ⟨rfl, -⟩ := C06_cms_file_inv c file hbins h
  rw [cms_check_default c key hlen hw hbins, ← cmsSorted_head]
  unfold CMS.query
  simp only [hmode]
  cases Spec.cmsSorted c.w c.d (Spec.cmsFileFlat c.w c.d c.bins c.total) key.units <;> rfl

/-- reference reader, mean query (`CountMeanSketch`) -/
theorem C06_reader_cms_mean (c : CMS) (file : Bytes) (key : Key)
    (hmode : c.mode = .mean)
    (hlen : c.bins.length = c.w * c.d) (hw : 0 < c.w)
    (hbins : ∀ x ∈ c.bins, -2147483648 ≤ x ∧ x ≤ 2147483647)
    (h : c.exportBytes = .ok file) :
    c.checkAlt (defaultFnv key c.d) =
      match Spec.refReaderCmsMean c.w c.d file key.units with
      | some v => .ok v
      | none => .error .zeroDivision := by
  obtain ⟨rfl, -⟩ := C06_cms_file_inv c file hbins h
  rw [cms_check_default c key hlen hw hbins]
  unfold CMS.query Spec.refReaderCmsMean
  simp only [hmode, cmsSorted_sum]
  by_cases hd : c.d = 0
  · simp [hd]
  · simp [hd]

/-- reference reader, mean-min query (`CountMeanMinSketch`); `elements_added` comes from the
    file's footer -/
theorem C06_reader_cms_meanmin (c : CMS) (file : Bytes) (key : Key)
    (hmode : c.mode = .meanMin)
    (hlen : c.bins.length = c.w * c.d) (hw : 0 < c.w)
    (hbins : ∀ x ∈ c.bins, -2147483648 ≤ x ∧ x ≤ 2147483647)
    (h : c.exportBytes = .ok file) :
    c.checkAlt (defaultFnv key c.d) =
      match Spec.refReaderCmsMeanMin c.w c.d file key.units with
      | some v => .ok v
      | none => if c.d = 0 then .error .indexError else .error .zeroDivision := by
  obtain ⟨rfl, ht0, ht1⟩ := C06_cms_file_inv c file hbins h
  rw [cms_check_default c key hlen hw hbins]
  unfold CMS.query Spec.refReaderCmsMeanMin
  simp only [hmode, rdI64_cmsFile c.w c.d c.bins c.total hlen ht0 ht1]
  have hl := cmsSorted_length c.w c.d (Spec.cmsFileFlat c.w c.d c.bins c.total) key.units
  generalize Spec.cmsSorted c.w c.d (Spec.cmsFileFlat c.w c.d c.bins c.total) key.units = s at hl
  cases s with
  | nil =>
      simp only [List.length_nil] at hl
      simp [← hl]
  | cons x xs =>
      have hd : c.d ≠ 0 := by rw [← hl]; simp
      simp only [List.head?_cons]
      cases hlast : (x :: xs).getLast? with
      | none => simp at hlast
      | some y =>
          simp only [CMS.sortInts, beq_iff_eq, Bool.and_eq_true]
          by_cases hz : x = 0 ∧ y = 0
          · simp [hz]
          · rw [if_neg hz, if_neg hz]
            by_cases hw1 : c.w = 1
            · simp [hw1, hd]
            · rw [if_neg hw1, if_neg hw1]
              have hmm : (((x :: xs).map fun t => t - (c.total - t) / ((c.w : Int) - 1)).mergeSort
                  fun a b => decide (a ≤ b)).length = c.d := by simp [← hl]
              generalize ((x :: xs).map fun t => t - (c.total - t) / ((c.w : Int) - 1)).mergeSort
                  (fun a b => decide (a ≤ b)) = mm at hmm
              by_cases hev : c.d % 2 = 0
              · have h1 : c.d / 2 < mm.length := by omega
                have h2 : c.d / 2 - 1 < mm.length := by omega
                have h3 : c.d / 2 ≠ 0 := by omega
                simp [hev, List.getD_eq_getElem?_getD, List.getElem?_eq_getElem h1, List.getElem?_eq_getElem h2, h3]
              · have h1 : c.d / 2 < mm.length := by omega
                simp [hev, List.getD_eq_getElem?_getD, List.getElem?_eq_getElem h1]
/-- the sketch obtained from `CMS.new` by adding the keys one after the other, default hashing -/
def cmsRun (w d : Nat) (mode : Mode) (keys : List Key) : CMS :=
  keys.foldl (fun c key => (c.addAlt (defaultFnv key d) 1).1) (CMS.new w d mode)

/-- reference writer: every key increments (saturating) one counter per row, column
    `hash_i mod width`; `elements_added` is the number of additions -/
theorem C06_writer_cms (w d : Nat) (mode : Mode) (keys : List Key)
    (hw0 : 0 < w) (hw : w < 2 ^ 32) (hd : d < 2 ^ 32) (hn : keys.length ≤ 9223372036854775807) :
    (cmsRun w d mode keys).exportBytes = .ok (Spec.refWriterCms w d (keys.map Key.units)) := by
  have h0 : ∀ x ∈ List.replicate (w * d) (0 : Int), -2147483648 ≤ x ∧ x ≤ 2147483647 := by
    intro x hx; rw [(List.mem_replicate.mp hx).2]; omega
  unfold cmsRun
  rw [cmsRun_eq w d hw0 keys (CMS.new w d mode) rfl rfl (by simp [CMS.new]) h0 (by simp only [CMS.new]; omega)]
  rw [C06_cms_file_flat _ (cms_keys_range w d _ _ h0)]
  simp only [CMS.new, Int.zero_add]
  rw [if_pos ⟨hw, hd, by omega, by omega⟩]
  simp [Spec.refWriterCms]

/-! ## expanding / rotating Bloom filter -/

/-- per sub-filter uint64 LE count then its bits; then the 28-byte footer
    (`Gen.expFooter` "QQQf": no padding) -/
theorem C06_expanding_file (e : Expanding)
    (hcounts : ∀ b ∈ e.blooms, 0 ≤ b.count ∧ b.count < 2 ^ 64)
    (hsize : e.blooms.length < 2 ^ 64) (hest : e.est < 2 ^ 64) (hfpr : e.fpr32 < 2 ^ 32)
    (ha0 : 0 ≤ e.added) (ha1 : e.added < 2 ^ 64) :
    e.exportBytes =
      .ok (Spec.expandingFile (e.blooms.map fun b => (b.count.toNat, b.bits)) e.est e.added.toNat e.fpr32) := by
  unfold Expanding.exportBytes
  rw [expanding_go_spec _ hcounts, expFooter_pack, if_neg (by omega), if_neg (by omega), if_neg (by omega),
    if_neg (by omega)]
  simp only
  rw [leBytesInt8_nat (by omega) (by omega), leBytesInt8_nat (by omega) (by omega),
    leBytesInt8_nat ha0 (by omega), leBytesInt4_nat (by omega) (by omega)]
  simp [Spec.expandingFile]

/-- the rotating filter writes the same format -/
theorem C06_rotating_file (r : Rotating)
    (hcounts : ∀ b ∈ r.blooms, 0 ≤ b.count ∧ b.count < 2 ^ 64)
    (hsize : r.blooms.length < 2 ^ 64) (hest : r.est < 2 ^ 64) (hfpr : r.fpr32 < 2 ^ 32)
    (ha0 : 0 ≤ r.added) (ha1 : r.added < 2 ^ 64) :
    r.toExpanding.exportBytes =
      .ok (Spec.expandingFile (r.blooms.map fun b => (b.count.toNat, b.bits)) r.est r.added.toNat r.fpr32) :=
  C06_expanding_file r.toExpanding hcounts hsize hest hfpr ha0 ha1

/-- the error branch: any value that does not fit its field makes `export` raise `struct.error` -/
theorem C06_expanding_error (e : Expanding)
    (h : (∃ b ∈ e.blooms, ¬ (0 ≤ b.count ∧ b.count < 2 ^ 64)) ∨
      ¬ (e.blooms.length < 2 ^ 64 ∧ e.est < 2 ^ 64 ∧ 0 ≤ e.added ∧ e.added < 2 ^ 64 ∧ e.fpr32 < 2 ^ 32)) :
    e.exportBytes = .error .structError := by
  unfold Expanding.exportBytes
  by_cases hc : ∃ b ∈ e.blooms, ¬ (0 ≤ b.count ∧ b.count < 2 ^ 64)
  · rw [expanding_go_error _ hc]
  · rcases h with h | h
    · exact absurd h hc
    · rw [expanding_go_spec _ (by intro b hb; exact Classical.not_not.mp (fun hn => hc ⟨b, hb, hn⟩)),
        expFooter_spec, if_neg h]

/-- the filter obtained from `Expanding.new` by `add`ing the keys one after the other -/
def expandingRun (est fpr32 k m : Nat) (keys : List Key) : Expanding :=
  keys.foldl (fun e key => (e.addAlt (defaultFnv key k) false).1) (Expanding.new est fpr32 k m)

/-- the queue obtained from `Rotating.new` (queue limit `q`) by `add`ing the keys -/
def rotatingRun (est fpr32 k m q : Nat) (keys : List Key) : Rotating :=
  keys.foldl (fun r key => (r.addAlt (defaultFnv key k) false).1) (Rotating.new est fpr32 k m q)

private theorem writer_core (e : Expanding) (est fpr32 : Nat) (st : List Spec.Sub × Nat) (n : Nat)
    (habs : absE e = st) (hinv : ∀ b ∈ e.blooms, 0 ≤ b.count) (ha : 0 ≤ e.added)
    (hest : e.est = est) (hfpr : e.fpr32 = fpr32)
    (hb1 : ∀ s ∈ st.1, s.1 ≤ st.2) (hb2 : st.1.length ≤ st.2 + 1) (hb3 : st.2 = n)
    (he : est < 2 ^ 64) (hf : fpr32 < 2 ^ 32) (hn : n < 2 ^ 63) :
    e.exportBytes = .ok (Spec.expandingFile st.1 est st.2 fpr32) := by
  have h1 : e.blooms.map absB = st.1 := congrArg Prod.fst habs
  have h2 : e.added.toNat = st.2 := congrArg Prod.snd habs
  have hcounts : ∀ b ∈ e.blooms, 0 ≤ b.count ∧ b.count < 2 ^ 64 := by
    intro b hb
    have h0 := hinv b hb
    have : absB b ∈ st.1 := by rw [← h1]; exact List.mem_map_of_mem hb
    have := hb1 _ this
    simp only [absB] at this
    refine ⟨h0, ?_⟩
    omega
  have hsize : e.blooms.length < 2 ^ 64 := by
    have : e.blooms.length = st.1.length := by rw [← h1]; simp
    omega
  rw [C06_expanding_file e hcounts hsize (by omega) (by omega) ha (by omega)]
  rw [← h1, h2, hest, hfpr]
  rfl

/-- reference writer for the expanding filter: the same file from the same additions -/
theorem C06_writer_expanding (est fpr32 k m : Nat) (keys : List Key)
    (he : est < 2 ^ 64) (hf : fpr32 < 2 ^ 32) (hn : keys.length < 2 ^ 63) :
    (expandingRun est fpr32 k m keys).exportBytes =
      .ok (Spec.refWriterExpanding est fpr32 k m (keys.map Key.units)) := by
  have hinv0 : SubsInv est fpr32 k m (Expanding.new est fpr32 k m).blooms := by
    refine ⟨by simp [Expanding.new], ?_⟩
    intro b hb
    simp only [Expanding.new, List.mem_singleton] at hb
    subst hb
    exact ⟨SubOK_new _ _ _ _, by simp [Bloom.new]⟩
  obtain ⟨r1, r2, r3, r4, r5⟩ := expanding_run est fpr32 k m keys (Expanding.new est fpr32 k m) rfl rfl rfl rfl hinv0
    (by simp [Expanding.new])
  have h0 : absE (Expanding.new est fpr32 k m) = ([Spec.freshSub m], 0) := by
    simp [absE, Expanding.new, absB_new]
  rw [h0] at r1
  obtain ⟨b1, b2, b3⟩ := addStep_bound m _ (growExpanding_ok est m) k (keys.map Key.units) ([Spec.freshSub m], 0)
    ⟨by simp [Spec.freshSub], by simp⟩
  exact writer_core _ est fpr32 _ keys.length r1 (fun b hb => (r2.2 b hb).2) r3 r4 r5 b1 b2 (by simpa using b3)
    he hf hn

/-- reference writer for the rotating filter (queue limit `q`) -/
theorem C06_writer_rotating (est fpr32 k m q : Nat) (keys : List Key)
    (he : est < 2 ^ 64) (hf : fpr32 < 2 ^ 32) (hn : keys.length < 2 ^ 63) :
    (rotatingRun est fpr32 k m q keys).toExpanding.exportBytes =
      .ok (Spec.refWriterRotating est fpr32 k m q (keys.map Key.units)) := by
  have hinv0 : SubsInv est fpr32 k m (Rotating.new est fpr32 k m q).blooms := by
    refine ⟨by simp [Rotating.new, Expanding.new], ?_⟩
    intro b hb
    simp only [Rotating.new, Expanding.new, List.mem_singleton] at hb
    subst hb
    exact ⟨SubOK_new _ _ _ _, by simp [Bloom.new]⟩
  obtain ⟨r1, r2, r3, r4, r5⟩ := rotating_run est fpr32 k m q keys (Rotating.new est fpr32 k m q) rfl rfl rfl rfl rfl
    hinv0 (by simp [Rotating.new, Expanding.new])
  have h0 : absR (Rotating.new est fpr32 k m q) = ([Spec.freshSub m], 0) := by
    simp [absR, absE, Rotating.new, Expanding.new, absB_new]
  rw [h0] at r1
  obtain ⟨b1, b2, b3⟩ := addStep_bound m _ (growRotating_ok est q m) k (keys.map Key.units) ([Spec.freshSub m], 0)
    ⟨by simp [Spec.freshSub], by simp⟩
  exact writer_core _ est fpr32 _ keys.length r1 (fun b hb => (r2.2 b hb).2) r3 r4 r5 b1 b2 (by simpa using b3)
    he hf hn

/-! ## cuckoo filters -/

/-- plain cuckoo filter: `capacity * bucket_size` uint32 LE fingerprints, 0 = empty slot,
    every bucket padded, then uint32 LE bucket_size, uint32 LE max_swaps -/
theorem C06_cuckoo_file (c : Cuckoo) (hplain : c.counting = false)
    (hbins : ∀ bkt ∈ c.buckets, ∀ bin ∈ bkt, bin.1 < 2 ^ 32 ∧ bin.2 < 2 ^ 32)
    (hb : c.b < 2 ^ 32) (hs : c.maxSwaps < 2 ^ 32) :
    c.exportBytes = .ok (Spec.cuckooFile c.b c.maxSwaps (c.buckets.map fun bkt => bkt.map fun bin => bin.1)) := by
  have hexp : c.exportBytes =
      if c.buckets.any (fun bkt => bkt.any fun bin => bin.1 ≥ 2 ^ 32 ∨ bin.2 ≥ 2 ^ 32) then .error .overflow
      else
        match Gen.cuckooFooter.pack [c.b, c.maxSwaps] with
        | .ok f => .ok (c.buckets.flatMap (bucketBytes c.counting c.b) ++ f)
        | .error e => .error e := rfl
  rw [hexp, if_neg, cuckooFooter_pack, if_neg (by omega), if_neg (by omega)]
  · simp only [hplain]
    rw [leBytesInt4_nat (by omega) (by omega), leBytesInt4_nat (by omega) (by omega)]
    simp only [Spec.cuckooFile, Int.toNat_natCast, List.flatMap_map, List.append_assoc, List.length_map]
    congr 2
    apply flatMap_congr'
    intro bkt _
    exact bucketBytes_plain_spec c.b bkt
  · simp only [List.any_eq_true, decide_eq_true_eq, not_exists, not_and]
    intro bkt hbkt bin hbin
    have := hbins bkt hbkt bin hbin
    omega

/-- counting cuckoo filter: the slots are (uint32 LE fingerprint, uint32 LE count) pairs -/
theorem C06_counting_cuckoo_file (c : Cuckoo) (hcounting : c.counting = true)
    (hbins : ∀ bkt ∈ c.buckets, ∀ bin ∈ bkt, bin.1 < 2 ^ 32 ∧ bin.2 < 2 ^ 32)
    (hb : c.b < 2 ^ 32) (hs : c.maxSwaps < 2 ^ 32) :
    c.exportBytes = .ok (Spec.countingCuckooFile c.b c.maxSwaps c.buckets) := by
  have hexp : c.exportBytes =
      if c.buckets.any (fun bkt => bkt.any fun bin => bin.1 ≥ 2 ^ 32 ∨ bin.2 ≥ 2 ^ 32) then .error .overflow
      else
        match Gen.cuckooFooter.pack [c.b, c.maxSwaps] with
        | .ok f => .ok (c.buckets.flatMap (bucketBytes c.counting c.b) ++ f)
        | .error e => .error e := rfl
  rw [hexp, if_neg, cuckooFooter_pack, if_neg (by omega), if_neg (by omega)]
  · simp only [hcounting]
    rw [leBytesInt4_nat (by omega) (by omega), leBytesInt4_nat (by omega) (by omega)]
    simp only [Spec.countingCuckooFile, Int.toNat_natCast, List.append_assoc]
    congr 2
    apply flatMap_congr'
    intro bkt _
    exact bucketBytes_counting_spec c.b bkt
  · simp only [List.any_eq_true, decide_eq_true_eq, not_exists, not_and]
    intro bkt hbkt bin hbin
    have := hbins bkt hbkt bin hbin
    omega

/-- a fingerprint or count that does not fit 32 bits makes `export` raise OverflowError -/
theorem C06_cuckoo_overflow (c : Cuckoo)
    (h : ∃ bkt ∈ c.buckets, ∃ bin ∈ bkt, ¬ (bin.1 < 2 ^ 32 ∧ bin.2 < 2 ^ 32)) :
    c.exportBytes = .error .overflow := by
  have hexp : c.exportBytes =
      if c.buckets.any (fun bkt => bkt.any fun bin => bin.1 ≥ 2 ^ 32 ∨ bin.2 ≥ 2 ^ 32) then .error .overflow
      else
        match Gen.cuckooFooter.pack [c.b, c.maxSwaps] with
        | .ok f => .ok (c.buckets.flatMap (bucketBytes c.counting c.b) ++ f)
        | .error e => .error e := rfl
  rw [hexp, if_pos]
  simp only [List.any_eq_true, decide_eq_true_eq]
  obtain ⟨bkt, hbkt, bin, hbin, hbad⟩ := h
  exact ⟨bkt, hbkt, bin, hbin, by omega⟩

/-! ## non-vacuity and test vectors (tests, labelled as such)

  The byte strings below are the output of the real library (`bytes(BloomFilter(10, 0.05))` with
  `b"a"`, `b"bc"` added; `CountMinSketch(width=7, depth=3)` with `b"a"`, `b"bc"`, `b"a"` added). -/

private def ka : Key := ⟨false, [97]⟩
private def kb : Key := ⟨false, [98, 99]⟩

/-- the reference writer reproduces the library's file (k = 4, m = 63 for est 10, rate 0.05) -/
example : Spec.refWriterBloom 10 1028443341 4 63 [[97], [98, 99]] =
    [8, 162, 0, 129, 0, 8, 0, 32, 10, 0, 0, 0, 0, 0, 0, 0, 2, 0, 0, 0, 0, 0, 0, 0, 205, 204, 76, 61] := by decide
example : (bloomRun 10 1028443341 4 63 [ka, kb]).exportBytes =
    .ok [8, 162, 0, 129, 0, 8, 0, 32, 10, 0, 0, 0, 0, 0, 0, 0, 2, 0, 0, 0, 0, 0, 0, 0, 205, 204, 76, 61] :=
  (C06_writer_bloom 10 1028443341 4 63 [ka, kb] (by decide) (by decide) (by decide)).trans (by rfl)
example : Spec.refReaderBloom 4 63 (Spec.refWriterBloom 10 1028443341 4 63 [[97], [98, 99]]) [97] = true := by decide
example : Spec.refReaderBloom 4 63 (Spec.refWriterBloom 10 1028443341 4 63 [[97], [98, 99]]) [100] = false := by decide
/-- the reader theorem instantiated: the library answers `True` for a member -/
example : (bloomRun 10 1028443341 4 63 [ka, kb]).checkAlt (defaultFnv ka 4) = .ok true := by
  have h := C06_writer_bloom 10 1028443341 4 63 [ka, kb] (by decide) (by decide) (by decide)
  have hb : (bloomRun 10 1028443341 4 63 [ka, kb]).bits.length = Bloom.lengthOf 63 := by decide
  have := C06_reader_bloom _ _ ka hb (by decide) h
  exact this.trans (congrArg Except.ok (by decide))

example : Spec.refWriterCms 7 3 [[97], [98, 99], [97]] =
    [0, 0, 0, 0, 1, 0, 0, 0, 0, 0, 0, 0, 0, 0, 0, 0, 0, 0, 0, 0, 2, 0, 0, 0, 0, 0, 0, 0, 0, 0, 0, 0, 1, 0, 0, 0,
     0, 0, 0, 0, 2, 0, 0, 0, 0, 0, 0, 0, 0, 0, 0, 0, 0, 0, 0, 0, 0, 0, 0, 0, 0, 0, 0, 0, 0, 0, 0, 0, 3, 0, 0, 0,
     0, 0, 0, 0, 0, 0, 0, 0, 0, 0, 0, 0, 7, 0, 0, 0, 3, 0, 0, 0, 3, 0, 0, 0, 0, 0, 0, 0] := by decide
example : (cmsRun 7 3 .min [ka, kb, ka]).exportBytes = .ok (Spec.refWriterCms 7 3 [[97], [98, 99], [97]]) :=
  C06_writer_cms 7 3 .min [ka, kb, ka] (by decide) (by decide) (by decide) (by decide)
example : Spec.refReaderCmsMin 7 3 (Spec.refWriterCms 7 3 [[97], [98, 99], [97]]) [97] = some 2 := by decide
example : Spec.refReaderCmsMean 7 3 (Spec.refWriterCms 7 3 [[97], [98, 99], [97]]) [97] = some 2 := by decide
example : Spec.refReaderCmsMin 7 3 (Spec.refWriterCms 7 3 [[97], [98, 99], [97]]) [120] = some 0 := by decide
/-- the hypotheses of the mean-min reader theorem are satisfiable by a reachable sketch -/
example : (cmsRun 7 3 .meanMin [ka, kb, ka]).checkAlt (defaultFnv ka 3) =
    match Spec.refReaderCmsMeanMin 7 3 (Spec.refWriterCms 7 3 [[97], [98, 99], [97]]) [97] with
    | some v => .ok v
    | none => .error .zeroDivision :=
  C06_reader_cms_meanmin (cmsRun 7 3 .meanMin [ka, kb, ka]) _ ka rfl (by decide) (by decide) (by decide)
    (C06_writer_cms 7 3 .meanMin [ka, kb, ka] (by decide) (by decide) (by decide) (by decide))

example : (cbfRun 10 1028443341 3 5 [ka, kb, ka]).exportBytes =
    .ok (Spec.refWriterCbf 10 1028443341 3 5 [[97], [98, 99], [97]]) :=
  C06_writer_cbf 10 1028443341 3 5 [ka, kb, ka] (by decide) (by decide) (by decide)
example : Spec.refReaderCbf 3 5 (Spec.refWriterCbf 10 1028443341 3 5 [[97], [98, 99], [97]]) [97] = some 2 := by decide

/-- expanding / rotating: the reference writers reproduce the library's files
    (`ExpandingBloomFilter(3, 0.05)` after a, bc, d, a, e, f — one expansion; `RotatingBloomFilter(2,
    0.05, max_queue_size=2)` after a, bc, d, a, e, f, g — the oldest sub-filter was dropped) -/
example : Spec.refWriterExpanding 3 1028443341 4 19 [[97], [98, 99], [100], [97], [101], [102]] =
    [3, 0, 0, 0, 0, 0, 0, 0, 177, 61, 1, 2, 0, 0, 0, 0, 0, 0, 0, 108, 135, 0, 2, 0, 0, 0, 0, 0, 0, 0,
     3, 0, 0, 0, 0, 0, 0, 0, 6, 0, 0, 0, 0, 0, 0, 0, 205, 204, 76, 61] := by decide
example : Spec.refWriterRotating 2 1028443341 5 13 2 [[97], [98, 99], [100], [97], [101], [102], [103]] =
    [2, 0, 0, 0, 0, 0, 0, 0, 71, 23, 2, 0, 0, 0, 0, 0, 0, 0, 221, 9, 2, 0, 0, 0, 0, 0, 0, 0,
     2, 0, 0, 0, 0, 0, 0, 0, 7, 0, 0, 0, 0, 0, 0, 0, 205, 204, 76, 61] := by decide
example : (expandingRun 3 1028443341 4 19 [ka, kb, ⟨false, [100]⟩, ka, ⟨false, [101]⟩, ⟨false, [102]⟩]).exportBytes =
    .ok (Spec.refWriterExpanding 3 1028443341 4 19 [[97], [98, 99], [100], [97], [101], [102]]) :=
  C06_writer_expanding 3 1028443341 4 19 _ (by decide) (by decide) (by decide)

/-- layouts on hand-made states: odd bit count, negative counters, partially filled buckets -/
example : (⟨10, 1028443341, 3, 13, [0x25, 0x11], 2⟩ : Bloom).exportBytes =
    .ok (Spec.bloomFile 13 (fun i => i ∈ [0, 2, 5, 8, 12]) 10 2 1028443341) := by rfl
example : (⟨2, 3, [1, -2147483648, 0, 2147483647, -1, 5], -7, .mean⟩ : CMS).exportBytes =
    .ok (Spec.cmsFile 2 3 (fun i j => [[1, -2147483648], [0, 2147483647], [-1, 5]][i]![j]!) (-7)) := by rfl
example : (⟨false, 3, 2, 500, 2, true, 8, [[(7, 1)], [], [(255, 1), (1, 1)]], 3, 0⟩ : Cuckoo).exportBytes =
    .ok (Spec.cuckooFile 2 500 [[7], [], [255, 1]]) := by rfl
example : (⟨true, 3, 2, 500, 2, true, 8, [[(7, 4)], [], [(255, 1), (1, 9)]], 14, 3⟩ : Cuckoo).exportBytes =
    .ok (Spec.countingCuckooFile 2 500 [[(7, 4)], [], [(255, 1), (1, 9)]]) := by rfl
example : (⟨10, 1028443341, 3, 13, [⟨10, 1028443341, 3, 13, [0xff, 0x1f], 10⟩, ⟨10, 1028443341, 3, 13, [1, 0], 1⟩], 11⟩
      : Expanding).exportBytes =
    .ok (Spec.expandingFile [(10, [0xff, 0x1f]), (1, [1, 0])] 10 11 1028443341) := by rfl

/-! ### the geometry a C reader re-derives from the footer

    The documented C library derives `(number_hashes, number_bits)` from the footer's
    `(estimated_elements, false_positive_rate)` with the double literals `0.4804530139182` (ln²2,
    truncated) and `0.6931471805599453`.  The reference readers above take `(k, m)` as inputs; this
    obligation closes the gap on the Lean side: the constants the Python source sizes with — extracted
    from the source on every run, evaluating constant expressions such as `math.log(2.0) ** 2` — ARE the
    documented doubles, bit for bit.  (Any other value changes some geometry, e.g. `math.log(2.0)**2`
    gives 19332643 instead of 19332644 bits at est = 2648873, p = 0.03; the search then looks for such a
    geometry with a directed scan.) -/
theorem C06_sizing_constants_documented :
    Gen.bloomLn2SqBits = 4602326691975710069 ∧   -- the double 0.4804530139182
    Gen.bloomLn2Bits = 4604418534313441775 :=    -- the double 0.6931471805599453
  ⟨rfl, rfl⟩

end PyProb.C06
