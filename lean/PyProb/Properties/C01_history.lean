/-
  C01, second module — the property at full strength over the whole operation language of its
  statement: add / push / union / query / clear **and export+load (bytes and hex channels) and
  close+reopen** as steps of one history.  The reload steps are strict (a failing export, load or
  reopen would abort the run); the theorems show they never fail on reachable states and are
  invisible: the run equals the run with the reloads erased.  Proofs in `Lemmas/FullHistory.lean`
  (built on C01, C05 and C11).
-/
import PyProb.Lemmas.FullHistory

namespace PyProb.C01
open PyProb PyProb.FullHistory

/-- in-memory Bloom filter: reloads anywhere in the history change nothing and never fail -/
theorem C01_bloom_reloads_invisible (geom : Geom) (est : Estimator) (ops : List BOp) (b₀ : Bloom)
    (h : BInv geom b₀ (adds ops)) (hu : UnionsOK est ops) :
    brun geom est b₀ ops = .ok (C01.run est b₀ (eraseReloads ops)) :=
  (bloom_run_eq geom est ops b₀ h hu).1

/-- **C01, in-memory, full operation language**: every hash list added since the last clear is reported
    present after any sequence of add / union / query / clear / export+load (bytes or hex) -/
theorem C01_bloom_full_history (geom : Geom) (est : Estimator) (b₀ : Bloom) (ops : List BOp)
    (h : BInv geom b₀ (adds ops)) (hu : UnionsOK est ops) (hs : List Nat)
    (hmem : hs ∈ FullHistory.addedSinceLastClear ops) (hl : b₀.k ≤ hs.length) :
    ∃ b, brun geom est b₀ ops = .ok b ∧ b.checkAlt hs = .ok true :=
  bloom_full_history geom est b₀ ops h hu hs hmem hl

/-- the same on keys, for an arbitrary hashing strategy returning at least `depth` values -/
theorem C01_bloom_full_history_keys (H : Key → Nat → List Nat) (hH : ∀ key d, d ≤ (H key d).length)
    (geom : Geom) (est : Estimator) (b₀ : Bloom) (ops : List BKOp)
    (h : BInv geom b₀ (adds (ops.map (BKOp.toOp H b₀.k))))
    (hu : UnionsOK est (ops.map (BKOp.toOp H b₀.k))) (key : Key)
    (hmem : key ∈ FullHistory.keysAddedSinceLastClear ops) :
    ∃ b, brun geom est b₀ (ops.map (BKOp.toOp H b₀.k)) = .ok b ∧ b.checkAlt (H key b₀.k) = .ok true :=
  bloom_full_history_keys H hH geom est b₀ ops h hu key hmem

/-- **expanding filter**: add(force) / push / export+load in any order -/
theorem C01_expanding_full_history (geom : Geom) (e₀ : Expanding) (ops : List FullHistory.EOp)
    (h : EInv geom e₀ (work ops)) (hs : List Nat) (hmem : hs ∈ FullHistory.eadded ops)
    (hl : e₀.k ≤ hs.length) :
    ∃ e, FullHistory.erun geom e₀ ops = .ok e ∧ e.checkAlt hs = .ok true :=
  expanding_full_history geom e₀ ops h hs hmem hl

/-- **on-disk filter**: from a freshly created file, any history of add and close+reopen cycles (fewer
    than 2^64 adds) keeps every added hash list -/
theorem C01_ondisk_full_history (geom : Geom) (est fpr32 k m : Nat) (hm : 0 < m)
    (he : est < 2 ^ 64) (hf : fpr32 < 2 ^ 32) (hg : C05.GeomStable geom est fpr32 k m) :
    ∃ o₀, OnDisk.create est fpr32 k m = .ok o₀ ∧
      ∀ (ops : List C11.Op), C11.adds ops < 2 ^ 64 → ∀ hs ∈ dadded ops, k ≤ hs.length →
        ∃ o, drun geom o₀ ops = .ok o ∧ o.checkAlt hs = .ok true :=
  ondisk_full_history_created geom est fpr32 k m hm he hf hg

end PyProb.C01
