/-
  C17 — HeavyHitters / StreamThreshold tracking tables (countminsketch.py:629-661, 787-830).

  PROVED, from the model, for all widths `w > 0`, depths `d > 0` (colliding or not), every hash
  strategy `H` (any function giving `d` hashes per key), every `number_heavy_hitters ≥ 1`, every
  history of `add(key, n)` with `n ≥ 0` (Python default 1) on `HH.new w d num`:
    * `C17_hh_ok`        every add returns an estimate `≥ 0` (no IndexError / OverflowError from
                         the sketch, and the two `ValueError` branches of the eviction are dead);
    * `C17_hh_size`      the table holds exactly `min(num, distinct keys seen)` keys, `size` agrees;
    * `C17_hh_tracked`   every tracked key carries the estimate returned by its most recent add,
                         and no key is tracked twice;
    * `C17_hh_untracked` no untracked key's most recent estimate exceeds any tracked one
                         (although the field `smallest` may be stale, see the first test);
    * `C17_hh_monotone`  the returned estimates of one key never decrease (this is what makes
                         `C17_hh_untracked` true; saturation at int32 max does not break it, so
                         there is no no-saturation hypothesis).
  and for every `w d` (also 0), every threshold `T` (any Int), every hash strategy (any lengths),
  every interleaving of `add(key, n)` / `remove(key, n)` (any Int `n`) on `ST.new w d T`:
    * `C17_st_table`         the table holds exactly the keys whose most recent *returned* estimate
                             (add or remove) is `≥ T`, with that estimate; no key twice;
    * `C17_st_never_missing` a key whose most recent returned estimate is `≥ T` is in the table;
    * `C17_st_dropped`       a key whose most recent returned estimate is `< T` is not.
  A StreamThreshold call that raises (IndexError / OverflowError of the sketch: removals can
  drive bins out of range) returns no estimate; it is proved to leave the table untouched
  (`C17_st_error_keeps_table`) and `lastEst` skips it (`C17_lastEst_spec`).  So there is no
  "every call succeeded" hypothesis.
  For add-only histories (`n ≥ 0`, `w, d > 0`, `d` hashes per key) additionally:
    * `C17_st_estimate_ge_count`   every estimate is `≥ min(int32Max, true count)`;
    * `C17_st_never_missing_count` for `1 ≤ T ≤ int32Max`, a key whose true count reaches the
                                   threshold is in the table.

  NOT proved: the true-count form for histories with removals.  It is false without a
  "removals are legal" hypothesis (last test: removing a never-added key drops a key whose true
  count is above the threshold); with legal removals it is the count-min upper-bound property
  (C15/C16), not repeated here.  HeavyHitters histories with `n < 0` are outside the statement
  (the class has no remove).

  The abstract table logic is in `Lemmas/Tables.lean`, sketch monotonicity in `Lemmas/CmsMono.lean`.
-/
import PyProb.Lemmas.Tables
import PyProb.Lemmas.CmsMono

namespace PyProb.C17
open PyProb

/-- log of a run: the key of each call and what the call returned -/
abbrev Log := List (Key × R Int)

/-- the estimate returned by the most recent call on `k` that returned one
    (`none`: no call on `k` has returned an estimate) -/
def lastEst (log : Log) (k : Key) : Option Int :=
  log.foldl (fun acc e => if e.1 = k then (match e.2 with | .ok v => some v | .error _ => acc)
    else acc) none

/-- the `(key, estimate)` pairs of the calls that returned an estimate -/
def okSeq (log : Log) : List (Key × Int) :=
  log.filterMap fun e => match e.2 with | .ok v => some (e.1, v) | .error _ => none

theorem okSeq_snoc_ok (log : Log) (k : Key) (v : Int) :
    okSeq (log ++ [(k, .ok v)]) = okSeq log ++ [(k, v)] := by
  simp [okSeq, List.filterMap_append]

theorem okSeq_snoc_error (log : Log) (k : Key) (e : Err) :
    okSeq (log ++ [(k, .error e)]) = okSeq log := by
  simp [okSeq, List.filterMap_append]

theorem lastEst_eq (log : Log) (k : Key) : lastEst log k = lastRet (okSeq log) k := by
  induction log using snoc_induction with
  | nil => rfl
  | snoc log e ih =>
      obtain ⟨k', r⟩ := e
      have : lastEst (log ++ [(k', r)]) k =
          if k' = k then (match r with | .ok v => some v | .error _ => lastEst log k)
          else lastEst log k := by
        simp [lastEst, List.foldl_append]
      rw [this]
      cases r with
      | ok v => rw [okSeq_snoc_ok, lastRet_snoc, ih]
      | error e => rw [okSeq_snoc_error, ih]; simp

/-- what `lastEst` means: the last call on `k` that returned an estimate returned `v` -/
theorem C17_lastEst_spec (pre post : Log) (k : Key) (v : Int)
    (hpost : ∀ e ∈ post, e.1 = k → ∃ err, e.2 = .error err) :
    lastEst (pre ++ (k, .ok v) :: post) k = some v := by
  have h1 : lastEst (pre ++ (k, .ok v) :: post) k =
      post.foldl (fun acc e => if e.1 = k then (match e.2 with | .ok v => some v | .error _ => acc)
        else acc) (some v) := by
    simp [lastEst, List.foldl_append]
  rw [h1]
  clear h1
  induction post with
  | nil => rfl
  | cons e post ih =>
      rw [List.foldl_cons]
      have hp : ∀ e ∈ post, e.1 = k → ∃ err, e.2 = .error err :=
        fun e he => hpost e (List.mem_cons_of_mem _ he)
      by_cases ek : e.1 = k
      · obtain ⟨err, he⟩ := hpost e (by simp) ek
        simp only [ek, if_true, he]; exact ih hp
      · simp only [ek, if_false]; exact ih hp

/-! ## HeavyHitters -/

/-- one `add(key, n)`: the hashes are `H key depth`; the call and its result go to the log -/
def stepHH (H : Key → Nat → List Nat) (s : HH × Log) (op : Key × Int) : HH × Log :=
  ((s.1.addAlt op.1 (H op.1 s.1.cms.d) op.2).1,
   s.2 ++ [(op.1, (s.1.addAlt op.1 (H op.1 s.1.cms.d) op.2).2)])

/-- a history of adds -/
def runHH (H : Key → Nat → List Nat) (h : HH) (ops : List (Key × Int)) : HH × Log :=
  ops.foldl (stepHH H) (h, [])

theorem runHH_snoc (H : Key → Nat → List Nat) (h : HH) (ops : List (Key × Int)) (op : Key × Int) :
    runHH H h (ops ++ [op]) = stepHH H (runHH H h ops) op := by
  simp [runHH, List.foldl_append]

/-- number of distinct keys among the calls -/
def distinctKeys (ops : List (Key × Int)) : Nat := (ops.map (·.1)).eraseDups.length

/-- invariant of a HeavyHitters run -/
structure HHRunInv (H : Key → Nat → List Nat) (w d : Nat) (num : Int) (ops : List (Key × Int))
    (st : HH × Log) : Prop where
  wf : CMS.WF st.1.cms
  hw : st.1.cms.w = w
  hd : st.1.cms.d = d
  hnum : st.1.num = num
  keys : st.2.map (·.1) = ops.map (·.1)
  okkeys : (okSeq st.2).map (·.1) = ops.map (·.1)
  allok : ∀ e ∈ st.2, ∃ v, e.2 = .ok v ∧ 0 ≤ v
  inv : HHInv num (okSeq st.2) st.1.abs
  lb : ∀ k v, lastRet (okSeq st.2) k = some v → CMS.LB st.1.cms (H k d) v
  mono : MonoSeq (okSeq st.2)

theorem HHRunInv.init (H : Key → Nat → List Nat) (w d : Nat) (num : Int) (hw : 0 < w) (hd : 0 < d)
    (hnum : 1 ≤ num) : HHRunInv H w d num [] (HH.new w d num, []) where
  wf := CMS.WF.new w d hw hd
  hw := rfl
  hd := rfl
  hnum := rfl
  keys := rfl
  okkeys := rfl
  allok := by simp
  inv := HHInv.init num hnum
  lb := by simp [okSeq]
  mono := monoSeq_nil

theorem HHRunInv.step {H : Key → Nat → List Nat} {w d : Nat} {num : Int} {ops : List (Key × Int)}
    {st : HH × Log} (I : HHRunInv H w d num ops st) (hnum : 1 ≤ num) (op : Key × Int)
    (hn : 0 ≤ op.2) (hH : (H op.1 d).length = d) :
    HHRunInv H w d num (ops ++ [op]) (stepHH H st op) := by
  obtain ⟨key, n⟩ := op
  obtain ⟨h, log⟩ := st
  have hd := I.hd
  have hnm := I.hnum
  dsimp only at hd hnm hn hH
  have hlen : (H key h.cms.d).length = h.cms.d := by rw [hd]; exact hH
  obtain ⟨c', res, e, sp⟩ := CMS.addAlt_spec h.cms I.wf (H key h.cms.d) hlen n hn
  have hstep := HH.addAlt_ok h key _ n c' res e
  have hI : HHInv h.num (okSeq log) h.abs := by rw [hnm]; exact I.inv
  have hlbk : ∀ v, lastRet (okSeq log) key = some v → v ≤ res := by
    intro v hv
    have := I.lb key v hv
    rw [← hd] at this
    exact sp.lb_le_res this
  have hpos := sp.res_nonneg
  obtain ⟨hr, hI'⟩ := hhStep_inv (by rw [hnm]; exact hnum) hI key res hpos hlbk
  have hs : stepHH H (h, log) (key, n) =
      ({ h with cms := c', table := (hhStep h.num h.abs key res).1.table,
                size := (hhStep h.num h.abs key res).1.size,
                smallest := (hhStep h.num h.abs key res).1.smallest },
       log ++ [(key, .ok res)]) := by
    simp only [stepHH, hstep, hr]
  rw [hs]
  exact {
    wf := sp.wf
    hw := by rw [← I.hw]; exact sp.w
    hd := by rw [← I.hd]; exact sp.d
    hnum := hnm
    keys := by simp [I.keys]
    okkeys := by rw [okSeq_snoc_ok]; simp [I.okkeys]
    allok := by
      intro x hx
      rcases List.mem_append.mp hx with hx | hx
      · exact I.allok x hx
      · simp only [List.mem_singleton] at hx; subst hx; exact ⟨res, rfl, hpos⟩
    inv := by
      dsimp only
      rw [okSeq_snoc_ok, ← hnm]
      exact hI'
    lb := by
      intro k v hk
      dsimp only at hk ⊢
      rw [okSeq_snoc_ok, lastRet_snoc] at hk
      by_cases ek : key = k
      · simp only [ek, if_true, Option.some.injEq] at hk
        subst hk; subst ek
        have := sp.res_le
        rw [hd] at this
        exact this
      · simp only [ek, if_false] at hk
        exact sp.lb_preserved (I.lb k v hk)
    mono := by
      dsimp only
      rw [okSeq_snoc_ok]
      exact (monoSeq_snoc _ _).mpr ⟨I.mono, hpos, hlbk⟩ }

/-- the invariant holds after every history of adds with `n ≥ 0` -/
theorem runHH_inv (w d : Nat) (num : Int) (hw : 0 < w) (hd : 0 < d) (hnum : 1 ≤ num)
    (H : Key → Nat → List Nat) (hH : ∀ key, (H key d).length = d)
    (ops : List (Key × Int)) (hops : ∀ op ∈ ops, 0 ≤ op.2) :
    HHRunInv H w d num ops (runHH H (HH.new w d num) ops) := by
  induction ops using snoc_induction with
  | nil => exact HHRunInv.init H w d num hw hd hnum
  | snoc ops op ih =>
      rw [runHH_snoc]
      exact (ih fun o ho => hops o (List.mem_append_left _ ho)).step hnum op
        (hops op (by simp)) (hH op.1)

/-- every add returns an estimate (`≥ 0`): the sketch raises neither IndexError nor
    OverflowError, and the `ValueError` branches of the eviction are never taken -/
theorem C17_hh_ok (w d : Nat) (num : Int) (hw : 0 < w) (hd : 0 < d) (hnum : 1 ≤ num)
    (H : Key → Nat → List Nat) (hH : ∀ key, (H key d).length = d)
    (ops : List (Key × Int)) (hops : ∀ op ∈ ops, 0 ≤ op.2) :
    let log := (runHH H (HH.new w d num) ops).2
    log.map (·.1) = ops.map (·.1) ∧ ∀ e ∈ log, ∃ v, e.2 = .ok v ∧ 0 ≤ v :=
  let I := runHH_inv w d num hw hd hnum H hH ops hops
  ⟨I.keys, I.allok⟩

/-- (a) the table always holds `min(number_heavy_hitters, distinct keys seen)` keys -/
theorem C17_hh_size (w d : Nat) (num : Int) (hw : 0 < w) (hd : 0 < d) (hnum : 1 ≤ num)
    (H : Key → Nat → List Nat) (hH : ∀ key, (H key d).length = d)
    (ops : List (Key × Int)) (hops : ∀ op ∈ ops, 0 ≤ op.2) :
    let h := (runHH H (HH.new w d num) ops).1
    (h.table.length : Int) = min num (distinctKeys ops) ∧ h.size = h.table.length ∧ h.num = num := by
  have I := runHH_inv w d num hw hd hnum H hH ops hops
  have hc := I.inv.count
  have : distinct (okSeq (runHH H (HH.new w d num) ops).2) = distinctKeys ops := by
    simp only [distinct, distinctKeys, I.okkeys]
  rw [this] at hc
  exact ⟨hc, I.inv.size, I.hnum⟩

/-- (b) each tracked key carries the estimate returned by its most recent add; keys are distinct -/
theorem C17_hh_tracked (w d : Nat) (num : Int) (hw : 0 < w) (hd : 0 < d) (hnum : 1 ≤ num)
    (H : Key → Nat → List Nat) (hH : ∀ key, (H key d).length = d)
    (ops : List (Key × Int)) (hops : ∀ op ∈ ops, 0 ≤ op.2) :
    let r := runHH H (HH.new w d num) ops
    (r.1.table.map (·.1)).Nodup ∧ ∀ k v, (k, v) ∈ r.1.table → lastEst r.2 k = some v := by
  have I := runHH_inv w d num hw hd hnum H hH ops hops
  refine ⟨I.inv.nodup, ?_⟩
  intro k v hkv
  rw [lastEst_eq]
  exact I.inv.tracked k v (Table.get?_of_mem I.inv.nodup hkv)

/-- (c) no untracked key's most recent estimate exceeds a tracked one -/
theorem C17_hh_untracked (w d : Nat) (num : Int) (hw : 0 < w) (hd : 0 < d) (hnum : 1 ≤ num)
    (H : Key → Nat → List Nat) (hH : ∀ key, (H key d).length = d)
    (ops : List (Key × Int)) (hops : ∀ op ∈ ops, 0 ≤ op.2) :
    let r := runHH H (HH.new w d num) ops
    ∀ u est, lastEst r.2 u = some est → u ∉ r.1.table.map (·.1) →
      ∀ k v, (k, v) ∈ r.1.table → est ≤ v := by
  have I := runHH_inv w d num hw hd hnum H hH ops hops
  intro r u est hu hn k v hkv
  rw [lastEst_eq] at hu
  exact I.inv.untracked_le hu hn hkv

/-- the estimates returned for one key never decrease over the history (saturation included) -/
theorem C17_hh_monotone (w d : Nat) (num : Int) (hw : 0 < w) (hd : 0 < d) (hnum : 1 ≤ num)
    (H : Key → Nat → List Nat) (hH : ∀ key, (H key d).length = d)
    (ops : List (Key × Int)) (hops : ∀ op ∈ ops, 0 ≤ op.2) :
    MonoSeq (okSeq (runHH H (HH.new w d num) ops).2) :=
  (runHH_inv w d num hw hd hnum H hH ops hops).mono

/-! ## StreamThreshold -/

inductive StOp
  | add (key : Key) (n : Int)
  | remove (key : Key) (n : Int)

/-- one `add` / `remove`; the call and its result go to the log -/
def stepST (H : Key → Nat → List Nat) (s : ST × Log) : StOp → ST × Log
  | .add key n =>
      ((s.1.addAlt key (H key s.1.cms.d) n).1, s.2 ++ [(key, (s.1.addAlt key (H key s.1.cms.d) n).2)])
  | .remove key n =>
      ((s.1.removeAlt key (H key s.1.cms.d) n).1,
       s.2 ++ [(key, (s.1.removeAlt key (H key s.1.cms.d) n).2)])

def runST (H : Key → Nat → List Nat) (s : ST) (ops : List StOp) : ST × Log :=
  ops.foldl (stepST H) (s, [])

theorem runST_snoc (H : Key → Nat → List Nat) (s : ST) (ops : List StOp) (op : StOp) :
    runST H s (ops ++ [op]) = stepST H (runST H s ops) op := by
  simp [runST, List.foldl_append]

/-- a call that raises returns no estimate and leaves threshold and table as they were;
    a call that returns `res` applies `stStep` -/
theorem C17_st_error_keeps_table (H : Key → Nat → List Nat) (s : ST × Log) (op : StOp) :
    let s' := stepST H s op
    s'.1.threshold = s.1.threshold ∧
    ((∃ key e, s'.2 = s.2 ++ [(key, .error e)] ∧ s'.1.table = s.1.table) ∨
     (∃ isAdd key res, s'.2 = s.2 ++ [(key, .ok res)] ∧
        s'.1.table = stStep s.1.threshold s.1.table isAdd key res)) := by
  obtain ⟨st, log⟩ := s
  cases op with
  | add key n =>
      rcases h : st.cms.addAlt (H key st.cms.d) n with ⟨c, _ | res⟩
      · rename_i e
        have := ST.addAlt_error st key _ n c e h
        exact ⟨by simp [stepST, this], Or.inl ⟨key, e, by simp [stepST, this], by simp [stepST, this]⟩⟩
      · have := ST.addAlt_ok st key _ n c res h
        exact ⟨by simp [stepST, this],
          Or.inr ⟨true, key, res, by simp [stepST, this], by simp [stepST, this]⟩⟩
  | remove key n =>
      rcases h : st.cms.removeAlt (H key st.cms.d) n with ⟨c, _ | res⟩
      · rename_i e
        have := ST.removeAlt_error st key _ n c e h
        exact ⟨by simp [stepST, this], Or.inl ⟨key, e, by simp [stepST, this], by simp [stepST, this]⟩⟩
      · have := ST.removeAlt_ok st key _ n c res h
        exact ⟨by simp [stepST, this],
          Or.inr ⟨false, key, res, by simp [stepST, this], by simp [stepST, this]⟩⟩

theorem runST_inv (w d : Nat) (T : Int) (H : Key → Nat → List Nat) (ops : List StOp) :
    (runST H (ST.new w d T) ops).1.threshold = T ∧
      STInv T (okSeq (runST H (ST.new w d T) ops).2) (runST H (ST.new w d T) ops).1.table := by
  induction ops using snoc_induction with
  | nil => exact ⟨rfl, STInv.init T⟩
  | snoc ops op ih =>
      obtain ⟨hT, hI⟩ := ih
      rw [runST_snoc]
      obtain ⟨h1, h2⟩ := C17_st_error_keeps_table H (runST H (ST.new w d T) ops) op
      refine ⟨by rw [h1, hT], ?_⟩
      rcases h2 with ⟨key, e, hl, ht⟩ | ⟨isAdd, key, res, hl, ht⟩
      · rw [hl, ht, okSeq_snoc_error]; exact hI
      · rw [hl, ht, okSeq_snoc_ok, hT]; exact stStep_inv hI isAdd key res

/-- the table is exactly the set of keys whose most recent returned estimate (from an add or a
    remove) is at or above the threshold, each with that estimate, no key twice -/
theorem C17_st_table (w d : Nat) (T : Int) (H : Key → Nat → List Nat) (ops : List StOp) :
    let r := runST H (ST.new w d T) ops
    (r.1.table.map (·.1)).Nodup ∧
    (∀ k v, r.1.table.get? k = some v ↔ lastEst r.2 k = some v ∧ T ≤ v) ∧
    (∀ k v, (k, v) ∈ r.1.table ↔ lastEst r.2 k = some v ∧ T ≤ v) := by
  obtain ⟨_, hI⟩ := runST_inv w d T H ops
  refine ⟨hI.nodup, ?_, ?_⟩
  · intro k v; rw [lastEst_eq]; exact hI.spec k v
  · intro k v; rw [lastEst_eq, ← Table.get?_iff_mem hI.nodup]; exact hI.spec k v

/-- a key whose most recent returned estimate is at or above the threshold is never missing -/
theorem C17_st_never_missing (w d : Nat) (T : Int) (H : Key → Nat → List Nat) (ops : List StOp)
    (k : Key) (v : Int) (hk : lastEst (runST H (ST.new w d T) ops).2 k = some v) (hv : T ≤ v) :
    (k, v) ∈ (runST H (ST.new w d T) ops).1.table :=
  ((C17_st_table w d T H ops).2.2 k v).mpr ⟨hk, hv⟩

/-- … and a key whose most recent returned estimate is below the threshold is not tracked -/
theorem C17_st_dropped (w d : Nat) (T : Int) (H : Key → Nat → List Nat) (ops : List StOp)
    (k : Key) (v : Int) (hk : lastEst (runST H (ST.new w d T) ops).2 k = some v) (hv : v < T) :
    k ∉ (runST H (ST.new w d T) ops).1.table.map (·.1) := by
  intro hmem
  obtain ⟨p, hp, rfl⟩ := List.mem_map.mp hmem
  have := ((C17_st_table w d T H ops).2.2 p.1 p.2).mp hp
  rw [hk] at this
  simp only [Option.some.injEq] at this
  omega

/-! ### add-only histories: the estimate dominates the true count, so a key whose true count
    reaches the threshold is never missing -/

/-- the true count of `k`: what was added minus what was removed -/
def trueCount (ops : List StOp) (k : Key) : Int :=
  (ops.map fun op => match op with
    | .add key n => if key = k then n else 0
    | .remove key n => if key = k then -n else 0).sum

/-- histories made of `add(key, n)` with `n ≥ 0` only -/
def AddOnly (ops : List StOp) : Prop := ∀ op ∈ ops, ∃ key n, op = .add key n ∧ 0 ≤ n

theorem lastEst_snoc_ok (log : Log) (key : Key) (res : Int) (k : Key) :
    lastEst (log ++ [(key, .ok res)]) k = if key = k then some res else lastEst log k := by
  rw [lastEst_eq, okSeq_snoc_ok, lastRet_snoc, lastEst_eq]

/-- invariant of an add-only StreamThreshold run: every bin of `k` is at least
    `min(int32Max, true count of k)`, and so is `k`'s most recent estimate -/
structure STAddInv (H : Key → Nat → List Nat) (w d : Nat) (ops : List StOp) (st : ST × Log) :
    Prop where
  wf : CMS.WF st.1.cms
  hw : st.1.cms.w = w
  hd : st.1.cms.d = d
  lb : ∀ k, CMS.LB st.1.cms (H k d) (min Gen.int32Max (trueCount ops k))
  seen : ∀ k, 1 ≤ trueCount ops k → ∃ v, lastEst st.2 k = some v
  est : ∀ k v, lastEst st.2 k = some v → min Gen.int32Max (trueCount ops k) ≤ v

theorem runST_addonly_inv (w d : Nat) (T : Int) (hw : 0 < w) (hd : 0 < d)
    (H : Key → Nat → List Nat) (hH : ∀ key, (H key d).length = d)
    (ops : List StOp) (hops : AddOnly ops) :
    STAddInv H w d ops (runST H (ST.new w d T) ops) := by
  induction ops using snoc_induction with
  | nil =>
      exact {
        wf := CMS.WF.new w d hw hd
        hw := rfl
        hd := rfl
        lb := by
          intro k idx _
          have := (CMS.WF.getD_range (CMS.WF.new w d hw hd) idx).1
          simp only [trueCount, List.map_nil, List.sum_nil]
          exact Int.le_trans (Int.min_le_right _ _) this
        seen := by intro k h; simp [trueCount] at h
        est := by intro k v h; simp [runST, lastEst] at h }
  | snoc ops op ih =>
      have I := ih fun o ho => hops o (List.mem_append_left _ ho)
      obtain ⟨key, n, rfl, hn⟩ := hops op (by simp)
      rw [runST_snoc]
      generalize runST H (ST.new w d T) ops = st at I ⊢
      obtain ⟨s, log⟩ := st
      have hd' := I.hd
      dsimp only at hd'
      have hlen : (H key s.cms.d).length = s.cms.d := by rw [hd']; exact hH key
      obtain ⟨c', res, e, sp⟩ := CMS.addAlt_spec s.cms I.wf (H key s.cms.d) hlen n hn
      have hstep := ST.addAlt_ok s key _ n c' res e
      have hs : stepST H (s, log) (.add key n) =
          ({ s with cms := c', table := stStep s.threshold s.table true key res },
           log ++ [(key, .ok res)]) := by
        simp only [stepST, hstep]
      have htc : ∀ k, trueCount (ops ++ [.add key n]) k =
          trueCount ops k + if key = k then n else 0 := by
        intro k; simp [trueCount, List.sum_append]
      have hlb : ∀ k, CMS.LB c' (H k d) (min Gen.int32Max (trueCount (ops ++ [.add key n]) k)) := by
        intro k
        rw [htc]
        by_cases ek : key = k
        · subst ek
          intro idx hidx
          rw [CMS.binIdx_congr s.cms c' sp.w, ← hd'] at hidx
          have h1 := I.lb key idx (by rw [← hd']; exact hidx)
          have h2 := sp.bins idx
          rw [if_pos hidx] at h2
          dsimp only at h1
          rw [h2]
          simp only [if_true, CMS.clamp]
          split <;> omega
        · simp only [ek, if_false, Int.add_zero]
          exact sp.lb_preserved (I.lb k)
      rw [hs]
      exact {
        wf := sp.wf
        hw := by rw [← I.hw]; exact sp.w
        hd := by rw [← I.hd]; exact sp.d
        lb := hlb
        seen := by
          intro k hk
          dsimp only
          rw [lastEst_snoc_ok]
          by_cases ek : key = k
          · exact ⟨res, by simp [ek]⟩
          · rw [htc] at hk
            simp only [ek, if_false, Int.add_zero] at hk ⊢
            exact I.seen k hk
        est := by
          intro k v hv
          dsimp only at hv
          rw [lastEst_snoc_ok] at hv
          by_cases ek : key = k
          · simp only [ek, if_true, Option.some.injEq] at hv
            subst hv; subst ek
            obtain ⟨idx, hidx, e'⟩ := sp.res_mem
            rw [e']
            apply hlb key idx
            rw [CMS.binIdx_congr s.cms c' sp.w, ← hd']; exact hidx
          · simp only [ek, if_false] at hv
            rw [htc]
            simp only [ek, if_false, Int.add_zero]
            exact I.est k v hv }

/-- for histories of adds (`n ≥ 0`): every estimate returned for `k` is at least
    `min(int32Max, true count of k)` -/
theorem C17_st_estimate_ge_count (w d : Nat) (T : Int) (hw : 0 < w) (hd : 0 < d)
    (H : Key → Nat → List Nat) (hH : ∀ key, (H key d).length = d)
    (ops : List StOp) (hops : AddOnly ops) (k : Key) (v : Int)
    (hk : lastEst (runST H (ST.new w d T) ops).2 k = some v) :
    min Gen.int32Max (trueCount ops k) ≤ v :=
  (runST_addonly_inv w d T hw hd H hH ops hops).est k v hk

/-- for histories of adds (`n ≥ 0`) and a threshold in `1..int32Max`: a key whose true count
    reaches the threshold is never missing from the table -/
theorem C17_st_never_missing_count (w d : Nat) (T : Int) (hw : 0 < w) (hd : 0 < d)
    (hT : 1 ≤ T) (hT' : T ≤ Gen.int32Max)
    (H : Key → Nat → List Nat) (hH : ∀ key, (H key d).length = d)
    (ops : List StOp) (hops : AddOnly ops) (k : Key) (hk : T ≤ trueCount ops k) :
    ∃ v, (k, v) ∈ (runST H (ST.new w d T) ops).1.table ∧ T ≤ v := by
  have I := runST_addonly_inv w d T hw hd H hH ops hops
  obtain ⟨v, hv⟩ := I.seen k (by omega)
  have := I.est k v hv
  have hTv : T ≤ v := by omega
  exact ⟨v, C17_st_never_missing w d T H ops k v hv hTv, hTv⟩

/-! ## tests (non-vacuity; concrete runs evaluated by `simp`) -/

/-- a legal hash strategy: `depth` hashes per key -/
def Hx : Key → Nat → List Nat := fun key d => (List.range d).map fun i => key.units.sum + i
def ka : Key := ⟨true, [0]⟩
def kb : Key := ⟨true, [1]⟩
def kc : Key := ⟨true, [2]⟩
def kd : Key := ⟨true, [3]⟩

theorem Hx_length (d : Nat) (key : Key) : (Hx key d).length = d := by simp [Hx]

/-- test, HeavyHitters w=2 d=2 num=2 over four keys (`a`,`c` collide in both rows, so do `b`,`d`):
    `c` evicts `b` (smallest becomes 5), then `a` is raised to 8 so `smallest = 5` is stale
    (true minimum 6), then `d` (estimate 4) is rejected.  Untracked `b`:3, `d`:4 ≤ tracked 6, 8. -/
example :
    let r := runHH Hx (HH.new 2 2 2) [(ka, 5), (kb, 3), (kc, 1), (ka, 2), (kd, 1)]
    r.1.table = [(ka, 8), (kc, 6)] ∧ r.1.smallest = 5 ∧ r.1.size = 2 ∧
    r.2 = [(ka, .ok 5), (kb, .ok 3), (kc, .ok 6), (ka, .ok 8), (kd, .ok 4)] ∧
    (runHH Hx (HH.new 2 2 2) [(ka, 5), (kb, 3)]).1.table = [(ka, 5), (kb, 3)] ∧
    (runHH Hx (HH.new 2 2 2) [(ka, 5), (kb, 3), (kc, 1)]).1.table = [(ka, 5), (kc, 6)] := by
  simp [runHH, stepHH, HH.addAlt, HH.new, CMS.addAlt, CMS.new, CMS.binIdx, CMS.addLoop, CMS.query,
    CMS.sortInts_pair, Cmp.evalInt, Gen.cmsAddClampCmp, Gen.cmsTotalMaxCmp, Gen.int32Max,
    Gen.int32Min, Gen.int64Max, List.range_succ, Hx, ka, kb, kc, kd, Table.set, Table.get?,
    Table.pop, Table.argmin]

/-- test: the hypotheses of the HeavyHitters theorems are satisfiable, and the theorems say
    something about this run (4 distinct keys, 2 tracked) -/
example :
    let r := runHH Hx (HH.new 2 2 2) [(ka, 5), (kb, 3), (kc, 1), (ka, 2), (kd, 1)]
    (r.1.table.length : Int) = min 2 (distinctKeys [(ka, 5), (kb, 3), (kc, 1), (ka, 2), (kd, 1)]) ∧
    distinctKeys [(ka, 5), (kb, 3), (kc, 1), (ka, 2), (kd, 1)] = 4 ∧
    (∀ u est, lastEst r.2 u = some est → u ∉ r.1.table.map (·.1) →
      ∀ k v, (k, v) ∈ r.1.table → est ≤ v) :=
  ⟨(C17_hh_size 2 2 2 (by decide) (by decide) (by decide) Hx (Hx_length 2) _ (by decide)).1,
   by decide,
   C17_hh_untracked 2 2 2 (by decide) (by decide) (by decide) Hx (Hx_length 2) _ (by decide)⟩

/-- test, StreamThreshold width 1 (everything collides), threshold 5 — the D12 scenario:
    `a` crosses the threshold upwards (2 → 6) and is tracked, `b` is dropped by its removal,
    `a` ends at 4 < 5 and is dropped by its own last add -/
example :
    (runST Hx (ST.new 1 1 5) [.add ka 2, .add kb 3, .add ka 1]).1.table = [(kb, 5), (ka, 6)] ∧
    (runST Hx (ST.new 1 1 5) [.add ka 2, .add kb 3, .add ka 1, .remove kb 3]).1.table = [(ka, 6)] ∧
    (runST Hx (ST.new 1 1 5) [.add ka 2, .add kb 3, .add ka 1, .remove kb 3, .add ka 1]).1.table = [] ∧
    (runST Hx (ST.new 1 1 5) [.add ka 2, .add kb 3, .add ka 1, .remove kb 3, .add ka 1]).2 =
      [(ka, .ok 2), (kb, .ok 5), (ka, .ok 6), (kb, .ok 3), (ka, .ok 4)] := by
  simp [runST, stepST, ST.addAlt, ST.removeAlt, ST.new, CMS.addAlt, CMS.removeAlt, CMS.new,
    CMS.binIdx, CMS.addLoop, CMS.removeLoop, CMS.query, CMS.sortInts, Cmp.evalInt,
    Gen.cmsAddClampCmp, Gen.cmsTotalMaxCmp, Gen.cmsRemoveKeepCmp, Gen.int32Max, Gen.int32Min,
    Gen.int64Max, Gen.int64Min, List.range_succ, Hx, ka, kb, Table.set, Table.pop]

/-- test: a call that raises (removing `-2^31` overflows the int32 bin) returns no estimate and
    leaves the table alone; `lastEst` still reports the last returned estimate -/
example :
    let r := runST Hx (ST.new 1 1 5) [.add ka 6, .remove ka (-2147483648)]
    r.1.table = [(ka, 6)] ∧ r.2 = [(ka, .ok 6), (ka, .error .overflow)] ∧ lastEst r.2 ka = some 6 := by
  simp [runST, stepST, ST.addAlt, ST.removeAlt, ST.new, CMS.addAlt, CMS.removeAlt, CMS.new,
    CMS.binIdx, CMS.addLoop, CMS.removeLoop, CMS.query, CMS.sortInts, Cmp.evalInt,
    Gen.cmsAddClampCmp, Gen.cmsTotalMaxCmp, Gen.cmsRemoveKeepCmp, Gen.int32Max, Gen.int32Min,
    Gen.int64Max, List.range_succ, Hx, ka, Table.set, lastEst]

/-- test: the hypotheses of the true-count theorem are satisfiable (add-only, width 1) -/
example : ∃ v, (ka, v) ∈ (runST Hx (ST.new 1 1 5) [.add ka 2, .add kb 3, .add ka 4]).1.table ∧ 5 ≤ v :=
  C17_st_never_missing_count 1 1 5 (by decide) (by decide) (by decide) (by decide) Hx (Hx_length 1)
    [.add ka 2, .add kb 3, .add ka 4]
    (by intro op h
        simp only [List.mem_cons, List.not_mem_nil, or_false] at h
        rcases h with rfl | rfl | rfl <;> exact ⟨_, _, rfl, by decide⟩)
    ka (by decide)

/-- test (why the true-count form needs add-only / legal removals): removing a key that was never
    added lowers a shared bin, and `a` with true count 6 ≥ 5 is then dropped by its own add
    (its most recent estimate is 3, so `C17_st_table` still holds) -/
example :
    let ops := [StOp.add ka 5, .remove kb 3, .add ka 1]
    (runST Hx (ST.new 1 1 5) ops).1.table = [] ∧ trueCount ops ka = 6 ∧
    lastEst (runST Hx (ST.new 1 1 5) ops).2 ka = some 3 := by
  simp [runST, stepST, ST.addAlt, ST.removeAlt, ST.new, CMS.addAlt, CMS.removeAlt, CMS.new,
    CMS.binIdx, CMS.addLoop, CMS.removeLoop, CMS.query, CMS.sortInts, Cmp.evalInt,
    Gen.cmsAddClampCmp, Gen.cmsTotalMaxCmp, Gen.cmsRemoveKeepCmp, Gen.int32Max, Gen.int32Min,
    Gen.int64Max, Gen.int64Min, List.range_succ, Hx, ka, kb, Table.set, Table.pop, lastEst,
    trueCount]

end PyProb.C17
