/-
  BOUNDED CHECK (a test by kernel evaluation): `A1_contained`, `A2_hashes` at q = 3 on every
  subset of two universes, and closure of the subsets under the
  set operations.
-/
import PyProb.Lemmas.QFBoundedDefs

namespace PyProb.QFBounded

theorem checkContained_UA : checkContained UA = true := by decide +kernel
theorem checkContained_UB : checkContained UB = true := by decide +kernel
theorem checkHashes_UA : checkHashes UA = true := by decide +kernel
theorem checkHashes_UB : checkHashes UB = true := by decide +kernel
theorem checkClosed_UA : checkClosed UA = true := by decide +kernel
theorem checkClosed_UB : checkClosed UB = true := by decide +kernel

end PyProb.QFBounded
