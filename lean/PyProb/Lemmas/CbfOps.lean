/-
  Lemmas on the counting Bloom filter model (`Model/Bloom.lean`, structure `CBF`): below
  saturation `add_alt` adds `n` to a cell once per occurrence of the cell among the indices.
  Used by C12 and C13.
-/
import PyProb.Model.Bloom

namespace PyProb

theorem getD_set_int (l : List Int) (i j : Nat) (v : Int) (h : i < l.length) :
    (l.set i v).getD j 0 = if i = j then v else l.getD j 0 := by
  simp only [List.getD_eq_getElem?_getD, List.getElem?_set]
  by_cases e : i = j
  · subst e; simp [h]
  · simp [e]

theorem getElem_eq_getD_int (l : List Int) (i : Nat) (h : i < l.length) : l[i] = l.getD i 0 := by
  simp [List.getD_eq_getElem?_getD, h]

theorem zip_map_self {α β} (f : α → β) (l : List α) : l.zip (l.map f) = l.map fun i => (i, f i) := by
  induction l with
  | nil => rfl
  | cons a l ih => simp [ih]

/-- the indices of a hash list: `hashes[i] % len` for `i < k` -/
def cbfIdx (k len : Nat) (hs : List Nat) : List Nat := (hs.take k).map (· % len)

theorem cbfIdx_lt (k len : Nat) (hs : List Nat) (h : 0 < len) : ∀ i ∈ cbfIdx k len hs, i < len := by
  intro i hi
  simp only [cbfIdx, List.mem_map] at hi
  obtain ⟨x, _, rfl⟩ := hi
  exact Nat.mod_lt _ h

theorem cbfIdx_length_le (k len : Nat) (hs : List Nat) : (cbfIdx k len hs).length ≤ k := by
  simp [cbfIdx]; omega

/-- what one `add_alt(hs, n)` adds to cell `j`: `n` per occurrence of `j` among the indices -/
def cbfInc (n : Int) (j : Nat) : List Nat → Int
  | [] => 0
  | i :: is => (if i = j then n else 0) + cbfInc n j is

theorem cbfInc_nonneg (n : Int) (hn : 0 ≤ n) (j : Nat) (is : List Nat) : 0 ≤ cbfInc n j is := by
  induction is with
  | nil => simp [cbfInc]
  | cons i is ih => simp only [cbfInc]; split <;> omega

theorem cbfInc_eq_zero (n : Int) (j : Nat) (is : List Nat) (h : j ∉ is) : cbfInc n j is = 0 := by
  induction is with
  | nil => rfl
  | cons i is ih =>
      simp only [List.mem_cons, not_or] at h
      simp only [cbfInc, ih h.2]
      rw [if_neg (fun e => h.1 e.symm)]; rfl

theorem cbfInc_ge_of_mem (n : Int) (hn : 0 ≤ n) (j : Nat) (is : List Nat) (h : j ∈ is) : n ≤ cbfInc n j is := by
  induction is with
  | nil => cases h
  | cons a l ih =>
      simp only [cbfInc]
      have hnn := cbfInc_nonneg n hn j l
      by_cases e : a = j
      · simp [e]; omega
      · have : j ∈ l := by
          rcases List.mem_cons.1 h with h | h
          · exact absurd h.symm e
          · exact h
        simp [e]; exact ih this

theorem cbfInc_le (n : Int) (hn : 0 ≤ n) (j : Nat) (is : List Nat) : cbfInc n j is ≤ is.length * n := by
  induction is with
  | nil => simp [cbfInc]
  | cons i is ih =>
      simp only [cbfInc, List.length_cons]
      rw [show ((is.length + 1 : Nat) : Int) * n = is.length * n + n by rw [Int.natCast_add, Int.add_mul]; simp]
      split <;> omega

/-- the unclamped store loop -/
def plainAdd (n : Int) (cells : List Int) (is : List Nat) : List Int :=
  is.foldl (fun c i => c.set i (c.getD i 0 + n)) cells

theorem plainAdd_length (n : Int) (cells : List Int) (is : List Nat) :
    (plainAdd n cells is).length = cells.length := by
  induction is generalizing cells with
  | nil => rfl
  | cons i is ih => simp only [plainAdd, List.foldl_cons] at *; rw [ih]; simp

theorem plainAdd_getD (n : Int) (cells : List Int) (is : List Nat) (j : Nat)
    (h : ∀ i ∈ is, i < cells.length) :
    (plainAdd n cells is).getD j 0 = cells.getD j 0 + cbfInc n j is := by
  induction is generalizing cells with
  | nil => simp [plainAdd, cbfInc]
  | cons i is ih =>
      have hi : i < cells.length := h i (by simp)
      have := ih (cells.set i (cells.getD i 0 + n)) (fun x hx => by simpa using h x (by simp [hx]))
      simp only [plainAdd, List.foldl_cons] at *
      rw [this, getD_set_int _ _ _ _ hi]
      simp only [cbfInc]
      by_cases e : i = j
      · subst e; simp; omega
      · simp [e]

/-- below saturation the store loop of `add_alt` is the unclamped loop and does not raise -/
theorem CBF.addLoop_unsat (n : Int) (hn : 0 ≤ n) (ps : List (Nat × Int)) (cells acc : List Int)
    (hv : ∀ p ∈ ps, p.2 ≤ Gen.uint32Max) (hi : ∀ p ∈ ps, p.1 < cells.length)
    (hc : ∀ j, 0 ≤ cells.getD j 0 ∧ cells.getD j 0 + cbfInc n j (ps.map (·.1)) ≤ Gen.uint32Max) :
    ∃ vals, CBF.addLoop n cells ps acc = (plainAdd n cells (ps.map (·.1)), vals, none) := by
  induction ps generalizing cells acc with
  | nil => exact ⟨acc.reverse, rfl⟩
  | cons p ps ih =>
      obtain ⟨k, v⟩ := p
      have hv1 : v ≤ Gen.uint32Max := hv (k, v) (by simp)
      have hk : k < cells.length := hi (k, v) (by simp)
      have hck := hc k
      simp only [List.map_cons, cbfInc, if_true] at hck
      have hnn := cbfInc_nonneg n hn k (ps.map (·.1))
      have h1 : Gen.cbfAddClampCmp.evalInt v Gen.uint32Max = false := by
        simp only [Gen.cbfAddClampCmp, Cmp.evalInt, decide_eq_false_iff_not]; omega
      have h2 : ¬ (cells.getD k 0 + n > Gen.uint32Max) := by omega
      have h3 : ¬ (cells.getD k 0 + n < 0) := by omega
      have hrec := ih (cells.set k (cells.getD k 0 + n)) (v :: acc)
        (fun q hq => hv q (by simp [hq])) (fun q hq => by simpa using hi q (by simp [hq]))
        (fun j => by
          have := hc j
          simp only [List.map_cons, cbfInc] at this
          rw [getD_set_int _ _ _ _ hk]
          by_cases e : k = j
          · subst e; simp at this ⊢; omega
          · simp [e] at this ⊢; exact this)
      obtain ⟨vals, hvals⟩ := hrec
      refine ⟨vals, ?_⟩
      rw [CBF.addLoop]
      simp only [h1, Bool.false_eq_true, if_false, if_neg h2, if_neg h3]
      rw [hvals]
      simp [plainAdd]

theorem CBF.addAlt_short (c : CBF) (hs : List Nat) (n : Int) (h : hs.length < c.k) :
    (c.addAlt hs n).1 = c := by
  simp [CBF.addAlt, CBF.indices, h]

/-- `add_alt` below saturation -/
theorem CBF.addAlt_unsat (c : CBF) (hs : List Nat) (n : Int) (hn : 0 ≤ n) (hl : c.k ≤ hs.length)
    (hm : 0 < c.cells.length)
    (hc : ∀ j, 0 ≤ c.cells.getD j 0 ∧
      c.cells.getD j 0 + cbfInc n j (cbfIdx c.k c.cells.length hs) ≤ Gen.uint32Max) :
    (c.addAlt hs n).1.cells = plainAdd n c.cells (cbfIdx c.k c.cells.length hs) ∧
    (c.addAlt hs n).1.k = c.k ∧ (c.addAlt hs n).1.m = c.m ∧
    (c.addAlt hs n).1.est = c.est ∧ (c.addAlt hs n).1.fpr32 = c.fpr32 := by
  have hidx : c.indices hs = .ok (cbfIdx c.k c.cells.length hs) := by
    simp [CBF.indices, cbfIdx, Nat.not_lt.2 hl]
  have hz : (cbfIdx c.k c.cells.length hs).zip
      ((cbfIdx c.k c.cells.length hs).map fun k => c.cells.getD k 0 + n)
      = (cbfIdx c.k c.cells.length hs).map fun k => (k, c.cells.getD k 0 + n) := zip_map_self _ _
  have hfst : ((cbfIdx c.k c.cells.length hs).map fun k => (k, c.cells.getD k 0 + n)).map (·.1)
      = cbfIdx c.k c.cells.length hs := by simp [List.map_map, Function.comp_def]
  obtain ⟨vals, hvals⟩ := CBF.addLoop_unsat n hn
    ((cbfIdx c.k c.cells.length hs).map fun k => (k, c.cells.getD k 0 + n)) c.cells []
    (by
      intro p hp
      obtain ⟨i, hi, rfl⟩ := List.mem_map.1 hp
      have := hc i
      have h1 := cbfInc_nonneg n hn i (cbfIdx c.k c.cells.length hs)
      have h2 := cbfInc_ge_of_mem n hn i _ hi
      show c.cells.getD i 0 + n ≤ Gen.uint32Max
      omega)
    (by
      intro p hp
      obtain ⟨i, hi, rfl⟩ := List.mem_map.1 hp
      exact cbfIdx_lt _ _ _ hm i hi)
    (by rw [hfst]; exact hc)
  rw [hfst] at hvals
  unfold CBF.addAlt
  rw [hidx]
  simp only [hz, hvals, and_self]

/-! ### histories of additions -/

/-- a history of `add_alt(hashes, num_els)` calls; a failed call leaves what it has stored -/
def CBF.runAdds (c : CBF) (xs : List (List Nat × Int)) : CBF :=
  xs.foldl (fun c p => (c.addAlt p.1 p.2).1) c

/-- the exact (unclamped) count a history contributes to cell `j`; calls with too few hashes raise
    IndexError before anything is stored and contribute nothing -/
def cbfTot (k len j : Nat) : List (List Nat × Int) → Int
  | [] => 0
  | p :: xs => (if k ≤ p.1.length then cbfInc p.2 j (cbfIdx k len p.1) else 0) + cbfTot k len j xs

theorem cbfTot_append (k len j : Nat) (xs ys : List (List Nat × Int)) :
    cbfTot k len j (xs ++ ys) = cbfTot k len j xs + cbfTot k len j ys := by
  induction xs with
  | nil => simp [cbfTot]
  | cons p xs ih => simp only [List.cons_append, cbfTot, ih]; omega

theorem cbfTot_nonneg (k len j : Nat) (xs : List (List Nat × Int)) (hn : ∀ p ∈ xs, 0 ≤ p.2) :
    0 ≤ cbfTot k len j xs := by
  induction xs with
  | nil => simp [cbfTot]
  | cons p xs ih =>
      have := ih (fun q hq => hn q (by simp [hq]))
      have h2 := cbfInc_nonneg p.2 (hn p (by simp)) j (cbfIdx k len p.1)
      simp only [cbfTot]; split <;> omega

theorem cbfTot_eq_zero (k len j : Nat) (xs : List (List Nat × Int)) (hlen : 0 < len) (hj : len ≤ j) :
    cbfTot k len j xs = 0 := by
  induction xs with
  | nil => rfl
  | cons p xs ih =>
      have : cbfInc p.2 j (cbfIdx k len p.1) = 0 :=
        cbfInc_eq_zero _ _ _ (fun h => by have := cbfIdx_lt k len p.1 hlen j h; omega)
      simp only [cbfTot, ih, this]; split <;> rfl

theorem CBF.runAdds_unsat (xs : List (List Nat × Int)) (c : CBF) (hm : 0 < c.cells.length)
    (hn : ∀ p ∈ xs, 0 ≤ p.2)
    (hc : ∀ j, 0 ≤ c.cells.getD j 0 ∧ c.cells.getD j 0 + cbfTot c.k c.cells.length j xs ≤ Gen.uint32Max) :
    (c.runAdds xs).cells.length = c.cells.length ∧ (c.runAdds xs).k = c.k ∧ (c.runAdds xs).m = c.m ∧
    (c.runAdds xs).est = c.est ∧ (c.runAdds xs).fpr32 = c.fpr32 ∧
    ∀ j, (c.runAdds xs).cells.getD j 0 = c.cells.getD j 0 + cbfTot c.k c.cells.length j xs := by
  induction xs generalizing c with
  | nil => exact ⟨rfl, rfl, rfl, rfl, rfl, fun j => by simp [CBF.runAdds, cbfTot]⟩
  | cons p xs ih =>
      have hn' : ∀ q ∈ xs, 0 ≤ q.2 := fun q hq => hn q (by simp [hq])
      have hp : 0 ≤ p.2 := hn p (by simp)
      have hrun : c.runAdds (p :: xs) = (c.addAlt p.1 p.2).1.runAdds xs := rfl
      rw [hrun]
      by_cases hl : c.k ≤ p.1.length
      · obtain ⟨e1, e2, e3, e4, e5⟩ := CBF.addAlt_unsat c p.1 p.2 hp hl hm (fun j => by
          have := hc j
          have h2 := cbfTot_nonneg c.k c.cells.length j xs hn'
          simp only [cbfTot, if_pos hl] at this
          omega)
        have hlen : (c.addAlt p.1 p.2).1.cells.length = c.cells.length := by rw [e1, plainAdd_length]
        have hget : ∀ j, (c.addAlt p.1 p.2).1.cells.getD j 0
            = c.cells.getD j 0 + cbfInc p.2 j (cbfIdx c.k c.cells.length p.1) := fun j => by
          rw [e1, plainAdd_getD _ _ _ _ (cbfIdx_lt _ _ _ hm)]
        obtain ⟨r1, r2, r3, r4, r5, r6⟩ := ih (c.addAlt p.1 p.2).1 (by rw [hlen]; exact hm) hn' (fun j => by
          have := hc j
          have h2 := cbfInc_nonneg p.2 hp j (cbfIdx c.k c.cells.length p.1)
          rw [hget, e2, hlen]
          simp only [cbfTot, if_pos hl] at this
          omega)
        refine ⟨by rw [r1, hlen], by rw [r2, e2], by rw [r3, e3], by rw [r4, e4], by rw [r5, e5], fun j => ?_⟩
        rw [r6, hget, e2, hlen]
        simp only [cbfTot, if_pos hl]; omega
      · have hs : (c.addAlt p.1 p.2).1 = c := CBF.addAlt_short c p.1 p.2 (by omega)
        rw [hs]
        obtain ⟨r1, r2, r3, r4, r5, r6⟩ := ih c hm hn' (fun j => by
          have := hc j
          simp only [cbfTot, if_neg hl] at this
          omega)
        refine ⟨r1, r2, r3, r4, r5, fun j => ?_⟩
        rw [r6]; simp only [cbfTot, if_neg hl]; omega

/-- a simple sufficient condition for "unsaturated": `k` times the sum of all amounts fits a cell -/
def cbfAmt : List (List Nat × Int) → Int
  | [] => 0
  | p :: xs => p.2 + cbfAmt xs

theorem cbfAmt_append (xs ys : List (List Nat × Int)) : cbfAmt (xs ++ ys) = cbfAmt xs + cbfAmt ys := by
  induction xs with
  | nil => simp [cbfAmt]
  | cons p xs ih => simp only [List.cons_append, cbfAmt, ih]; omega

theorem cbfTot_le_amt (k len j : Nat) (xs : List (List Nat × Int)) (hn : ∀ p ∈ xs, 0 ≤ p.2) :
    cbfTot k len j xs ≤ k * cbfAmt xs := by
  induction xs with
  | nil => simp [cbfTot, cbfAmt]
  | cons p xs ih =>
      have := ih (fun q hq => hn q (by simp [hq]))
      have hp : 0 ≤ p.2 := hn p (by simp)
      have h1 := cbfInc_le p.2 hp j (cbfIdx k len p.1)
      have h2 : ((cbfIdx k len p.1).length : Int) * p.2 ≤ (k : Int) * p.2 :=
        Int.mul_le_mul_of_nonneg_right (by exact_mod_cast cbfIdx_length_le k len p.1) hp
      have h3 : 0 ≤ (k : Int) * p.2 := Int.mul_nonneg (by omega) hp
      simp only [cbfTot, cbfAmt, Int.mul_add]
      split <;> omega

/-! ### union, intersection -/

theorem CBF.similar_iff (a b : CBF) (same : Bool) :
    a.similar b same = true ↔ a.k = b.k ∧ a.m = b.m ∧ same = true := by
  simp [CBF.similar, and_assoc]

theorem CBF.union_eq_some (est : Estimator) (a b r : CBF) (same : Bool)
    (h : CBF.union est a b same = some r) :
    a.similar b same = true ∧ r.k = a.k ∧ r.m = a.m ∧ r.est = a.est ∧ r.fpr32 = a.fpr32 ∧
      r.cells = (List.range a.cells.length).map fun i => CBF.clampCell (a.cells.getD i 0 + b.cells.getD i 0) := by
  unfold CBF.union at h
  split at h
  · cases h
  · rename_i hs
    injection h with h; subst h
    simp at hs
    exact ⟨hs, rfl, rfl, rfl, rfl, rfl⟩

theorem CBF.union_of_similar (est : Estimator) (a b : CBF) (same : Bool) (h : a.similar b same = true) :
    ∃ r, CBF.union est a b same = some r := by
  simp [CBF.union, h]

theorem CBF.intersection_eq_some (est : Estimator) (a b r : CBF) (same : Bool)
    (h : CBF.intersection est a b same = some r) :
    a.similar b same = true ∧ r.k = a.k ∧ r.m = a.m ∧ r.est = a.est ∧ r.fpr32 = a.fpr32 ∧
      r.cells = (List.range a.cells.length).map fun i =>
        if a.cells.getD i 0 > 0 ∧ b.cells.getD i 0 > 0
        then CBF.clampCell (a.cells.getD i 0 + b.cells.getD i 0) else 0 := by
  unfold CBF.intersection at h
  split at h
  · cases h
  · rename_i hs
    injection h with h; subst h
    simp at hs
    exact ⟨hs, rfl, rfl, rfl, rfl, rfl⟩

/-! ### minimum of the addressed cells -/

theorem foldl_min_pos (xs : List Int) (x : Int) : 0 < xs.foldl min x ↔ 0 < x ∧ ∀ y ∈ xs, 0 < y := by
  induction xs generalizing x with
  | nil => simp
  | cons y ys ih =>
      rw [List.foldl_cons, ih]
      simp only [List.mem_cons, forall_eq_or_imp]
      constructor
      · rintro ⟨h1, h2⟩; exact ⟨by omega, by omega, h2⟩
      · rintro ⟨h1, h2, h3⟩; exact ⟨by omega, h3⟩

theorem minList_pos (l : List Int) (h : l ≠ []) : 0 < CBF.minList l ↔ ∀ y ∈ l, 0 < y := by
  cases l with
  | nil => exact absurd rfl h
  | cons x xs => simp [CBF.minList, foldl_min_pos]

theorem clampCell_pos (v : Int) : 0 < CBF.clampCell v ↔ 0 < v := by
  unfold CBF.clampCell
  have : (Gen.uint32Max : Int) = 4294967295 := rfl
  split <;> omega

/-- representation invariant of the counting filter: one cell per position, at least one -/
def CBF.WF (c : CBF) : Prop := c.cells.length = c.m ∧ 0 < c.m

theorem CBF.new_wf (e f k m : Nat) (hm : 0 < m) : (CBF.new e f k m).WF := by
  simp [CBF.WF, CBF.new, hm]

/-- `check_alt` of a counting filter answers with a positive count exactly when all addressed
    cells are non-zero -/
theorem CBF.checkAlt_pos_iff (c : CBF) (hs : List Nat) :
    (∃ v, c.checkAlt hs = .ok v ∧ 0 < v) ↔ hs ≠ [] ∧ ∀ h ∈ hs, 0 < c.cells.getD (h % c.m) 0 := by
  cases hs with
  | nil => simp [CBF.checkAlt]
  | cons x xs =>
      simp only [CBF.checkAlt, ne_eq, reduceCtorEq, not_false_eq_true, true_and]
      constructor
      · rintro ⟨v, hv, hp⟩
        injection hv with hv
        rw [← hv, minList_pos _ (by simp)] at hp
        intro h hh
        exact hp _ (List.mem_map.2 ⟨h, hh, rfl⟩)
      · intro hall
        refine ⟨_, rfl, ?_⟩
        rw [minList_pos _ (by simp)]
        intro y hy
        obtain ⟨h, hh, rfl⟩ := List.mem_map.1 hy
        exact hall h hh

end PyProb
