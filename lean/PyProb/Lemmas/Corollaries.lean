/-
  Cross-property corollaries: theorems that close gaps BETWEEN the separately proved properties.
  Each is a theorem over unbounded histories; all live in `namespace PyProb.Corollaries`.

  1. `CorollariesQF`  (C04 → C14): `qf_count_history`, `qf_count_eq_stored`, `qf_count_bounds`,
       `qf_count_delta` — over every non-raising history of add/remove/resize/merge the quotient
       filter's `elements_added` equals the number of stored hashes (`get_hashes` lists them
       without duplicates), `0 ≤ count < size = 2^q'`.
  4. `CorollariesCcf` (C08 + C05 + C15): `ccf_reload_exact`, `ccf_reload_history` — the counting
       cuckoo filter's exact counts survive export + load into a counting template with the same
       fingerprint width, and stay exact under a further history.
  2. `CorollariesST`  (C02 + C17): `st_never_missing_legit` — StreamThreshold with legitimate
       removals never misses a key whose TRUE count reaches the threshold; `st_cms_eq_run`,
       `st_all_ok`, `st_lastEst_ge_count`, `st_tracked_ge_count`.
  5. `CorollariesExp` (C09 + C05): `expanding_reload_state`, `expanding_reload_growth`,
       `expanding_reload_bound`, `expanding_reload_api` — the expanding filter's growth law holds
       across an export + load in the middle of a history.
  3. `CorollariesHH`  (C02 + C17): `hh_untracked_count_le_tracked`, `hh_tracks_heaviest`,
       `hh_tracked_ge_count` — HeavyHitters in terms of true counts.
-/
import PyProb.Lemmas.CorollariesQF
import PyProb.Lemmas.CorollariesCcf
import PyProb.Lemmas.CorollariesST
import PyProb.Lemmas.CorollariesExp
import PyProb.Lemmas.CorollariesHH
