/-
  **Layer B1 for every table size**: `_add` of a new element on the canonical table of a canonical
  set `S` that keeps one more slot free produces exactly the canonical table of `insert x S`
  (`QF.add_layout`).

  Route: the empty slot `e` of the LARGER set also stays empty in the table of `S`, so the table of
  `S` is in the linear view from `e` (`Spec.layout_lin_at`); `_add` inserts the new element at its
  index of the element sequence read from `e` (`QFLin.view_add`); the result and the canonical table
  of the larger set are both in the linear view of the same sequence from the same slot, hence equal
  (`QFLin.lin_ext`).
-/
import PyProb.Lemmas.QFWriteAddView

namespace PyProb.QFWriteAdd
open PyProb PyProb.Spec PyProb.QF PyProb.QFLin

/-- an element that fits a table with `2^q` slots and `32 - q` remainder bits (the same predicate
    as `C04.InRange`) -/
def InRange (q : Nat) (x : Elem) : Prop := x.1 < 2 ^ q ∧ x.2 < 2 ^ (32 - q)

instance (q : Nat) (x : Elem) : Decidable (InRange q x) := by unfold InRange; infer_instance

theorem getD_insert {α : Type} (l1 l2 : List α) (x dflt : α) (i : Nat) :
    (l1 ++ x :: l2).getD i dflt =
      if i < l1.length then (l1 ++ l2).getD i dflt
      else if i = l1.length then x else (l1 ++ l2).getD (i - 1) dflt := by
  simp only [List.getD_eq_getElem?_getD]
  by_cases h1 : i < l1.length
  · rw [if_pos h1, List.getElem?_append_left h1, List.getElem?_append_left h1]
  · rw [if_neg h1, List.getElem?_append_right (by omega)]
    by_cases h2 : i = l1.length
    · rw [if_pos h2, h2]; simp
    · rw [if_neg h2, List.getElem?_append_right (by omega)]
      obtain ⟨k, hk⟩ : ∃ k, i - l1.length = k + 1 := ⟨i - l1.length - 1, by omega⟩
      rw [hk, List.getElem?_cons_succ, show i - 1 - l1.length = k by omega]

theorem ltRot_irrefl (n e : Nat) (a : Elem) : ¬ ltRot n e a a := by unfold ltRot; omega

/-- the rotated list of the larger set is the rotated list of the smaller one with the new element
    inserted somewhere -/
theorem rot_insert (n e : Nat) (he : e < n) (S : List Elem) (x : Elem) (hS : Sorted S)
    (hq : ∀ y ∈ S, y.1 < n) (hx : x.1 < n) (hnew : x ∉ S) (hno' : NoQuot e (insert x S)) :
    ∃ l1 l2, rot e (insert x S) = l1 ++ x :: l2 ∧ rot e S = l1 ++ l2 := by
  have hS' : Sorted (insert x S) := sorted_insertBy ltE_total x S hS
  have hq' : ∀ y ∈ insert x S, y.1 < n := by
    intro y hy
    rcases (mem_insertBy x y S).1 hy with h | h
    · rw [h]; exact hx
    · exact hq y h
  have hno : NoQuot e S := fun y hy => hno' y ((mem_insertBy x y S).2 (Or.inr hy))
  have hsorted' := rot_sorted n e he (insert x S) hS' hq'
  have hsorted := rot_sorted n e he S hS hq
  have hxm : x ∈ rot e (insert x S) := (mem_rot e _ hno' x).2 ((mem_insertBy x x S).2 (Or.inl rfl))
  obtain ⟨l1, l2, hl⟩ := List.append_of_mem hxm
  refine ⟨l1, l2, hl, ?_⟩
  rw [hl, List.pairwise_append, List.pairwise_cons] at hsorted'
  obtain ⟨p1, ⟨p2, p3⟩, p4⟩ := hsorted'
  have hy' : ∀ y, y ∈ l1 ++ x :: l2 ↔ y ∈ insert x S := by
    intro y; rw [← hl]; exact mem_rot e _ hno' y
  symm
  apply pw_ext (R := ltRot n e)
  · rw [List.pairwise_append]
    exact ⟨p1, p3, fun a ha b hb => p4 a ha b (List.mem_cons_of_mem _ hb)⟩
  · exact hsorted
  · intro y
    rw [mem_rot e S hno y]
    constructor
    · intro hy
      have hyl : y ∈ l1 ++ x :: l2 := by
        rcases List.mem_append.1 hy with h | h
        · exact List.mem_append.2 (Or.inl h)
        · exact List.mem_append.2 (Or.inr (List.mem_cons_of_mem _ h))
      rcases (mem_insertBy x y S).1 ((hy' y).1 hyl) with h | h
      · exfalso
        rcases List.mem_append.1 hy with h1 | h2
        · have := p4 y h1 x (by simp)
          rw [h] at this
          exact ltRot_irrefl n e x this
        · have := p2 y h2
          rw [h] at this
          exact ltRot_irrefl n e x this
      · exact h
    · intro hy
      have := (hy' y).2 ((mem_insertBy x y S).2 (Or.inr hy))
      rcases List.mem_append.1 this with h1 | h2
      · exact List.mem_append.2 (Or.inl h1)
      · rcases List.mem_cons.1 h2 with h | h
        · rw [h] at hy; exact absurd hy hnew
        · exact List.mem_append.2 (Or.inr h)
  · intro a b _ _ h1 h2
    exact ltRot_asymm n e a b h1 h2

end PyProb.QFWriteAdd

namespace PyProb.QF
open PyProb PyProb.Spec PyProb.QFLin PyProb.QFWriteAdd

/-- **insertion refines the canonical layout**, for every table size and every canonical set -/
theorem add_layout (q : Nat) (auto : Bool) (S : List Spec.Elem) (x : Spec.Elem)
    (hc : Spec.Canon q S) (hx : QFWriteAdd.InRange q x) (hroom : S.length + 1 < 2 ^ q) (hnew : x ∉ S) :
    QF.addQR (Spec.layout q auto S) x.1 x.2 = .ok (Spec.layout q auto (Spec.insert x S)) := by
  obtain ⟨h3, h31, hS, hrange, hlen⟩ := hc
  have hq1 : 1 ≤ q := by omega
  have hqS : ∀ y ∈ S, y.1 < 2 ^ q := fun y hy => (hrange y hy).1
  -- the larger set
  have hS' : Sorted (insert x S) := sorted_insertBy ltE_total x S hS
  have hlen' : (insert x S).length = S.length + 1 := length_insertBy_of_not_mem x S hnew
  have hqS' : ∀ y ∈ insert x S, y.1 < 2 ^ q := by
    intro y hy
    rcases (mem_insertBy x y S).1 hy with h | h
    · rw [h]; exact hx.1
    · exact hqS y h
  have hF' := canon_fits (2 ^ q) (insert x S) hS' hqS' (by omega)
  have L' := layout_lin q hq1 auto (insert x S) hS' hqS' hF'
  have X' := layout_extra q auto (insert x S) hF'
  obtain ⟨he, hcnt', _⟩ := hF'
  generalize hee : emptySlot (2 ^ q) (insert x S) = e at *
  have hno' : NoQuot e (insert x S) := (cnt_zero_iff _ e).1 hcnt'
  have hno : NoQuot e S := fun y hy => hno' y ((mem_insertBy x y S).2 (Or.inr hy))
  obtain ⟨l1, l2, hT', hT⟩ := rot_insert (2 ^ q) e he S x hS hqS hx.1 hnew hno'
  -- the element sequences
  have hd : dOf (2 ^ q) e (rot e (insert x S)) =
      insAt l1.length (off (2 ^ q) e x.1) (dOf (2 ^ q) e (rot e S)) := by
    funext i
    simp only [dOf, hT', hT, getD_insert, insAt]
    split
    · rfl
    · split <;> rfl
  have hr : rOf (rot e (insert x S)) = insAt l1.length x.2 (rOf (rot e S)) := by
    funext i
    simp only [rOf, hT', hT, getD_insert, insAt]
    split
    · rfl
    · split <;> rfl
  rw [hd, hr, hlen'] at L'
  rw [hd, hlen'] at X'
  have hj : l1.length ≤ S.length := by
    have := length_rot e S hno
    rw [hT, List.length_append] at this
    omega
  -- the smaller set fits in front of `e` as well
  have hfit : ∀ i, i < S.length → posF (dOf (2 ^ q) e (rot e S)) i + 2 ≤ 2 ^ q := by
    intro i hi
    by_cases h : i < l1.length
    · have := L'.fit i (by omega)
      rw [pos_ins_lt _ _ _ i h] at this
      exact this
    · have h1 := L'.fit (i + 1) (by omega)
      have h2 := pos_ins_ge l1.length (off (2 ^ q) e x.1) (dOf (2 ^ q) e (rot e S)) i (by omega)
      exact Nat.le_trans (Nat.add_le_add_right h2 2) h1
  obtain ⟨L, X⟩ := layout_lin_at q hq1 auto S hS hqS hlen e he hno hfit
  obtain ⟨t, ht, Lt, Xt, tq, tc, ta⟩ :=
    view_add L X l1.length (off (2 ^ q) e x.1) x.2 hj L'.sorted L'.fit
  rw [io_off (2 ^ q) e x.1 he hx.1] at ht
  have hcap : ¬ ((layout q auto S).count ≥ ((layout q auto S).size : Int) - 1) := by
    rw [layout_count, layout_size]
    generalize 2 ^ q = n at *
    omega
  rw [addQR_eq, if_neg hcap, ht]
  simp only []
  congr 1
  have Lt' : Lin { t with count := t.count + 1 } (2 ^ q) e (S.length + 1)
      (insAt l1.length (off (2 ^ q) e x.1) (dOf (2 ^ q) e (rot e S)))
      (insAt l1.length x.2 (rOf (rot e S))) :=
    ⟨Lt.n2, Lt.size, Lt.he, Lt.sorted, Lt.fit, Lt.cont, Lt.shift, Lt.rem, Lt.nocell, Lt.occ⟩
  have Xt' : Extra { t with count := t.count + 1 } (2 ^ q) e (S.length + 1)
      (insAt l1.length (off (2 ^ q) e x.1) (dOf (2 ^ q) e (rot e S))) :=
    ⟨Xt.lrem, Xt.locc, Xt.lcont, Xt.lshift, Xt.rem0⟩
  apply lin_ext Lt' Xt' L' X'
  · show t.q = _
    rw [tq]; rfl
  · show t.count + 1 = _
    rw [tc, layout_count, layout_count, hlen']
    omega
  · show t.auto = _
    rw [ta]; rfl


/-! ### tests (non-vacuity): the three cases of `_add` at `q = 3`, by instantiating the theorem -/

/-- (a) the home slot is empty -/
example : QF.addQR (Spec.layout 3 false [(0, 1), (0, 3), (7, 2)]) 4 9 =
    .ok (Spec.layout 3 false [(0, 1), (0, 3), (4, 9), (7, 2)]) :=
  add_layout 3 false [(0, 1), (0, 3), (7, 2)] (4, 9) (by decide) (by decide) (by decide) (by decide)

/-- (b) the home slot is in use but the quotient is not occupied (and the cluster wraps around) -/
example : QF.addQR (Spec.layout 3 true [(0, 5), (7, 1), (7, 2)]) 0 2 =
    .ok (Spec.layout 3 true [(0, 2), (0, 5), (7, 1), (7, 2)]) ∧
    QF.addQR (Spec.layout 3 true [(6, 1), (6, 2), (6, 3)]) 7 0 =
    .ok (Spec.layout 3 true [(6, 1), (6, 2), (6, 3), (7, 0)]) :=
  ⟨add_layout 3 true [(0, 5), (7, 1), (7, 2)] (0, 2) (by decide) (by decide) (by decide) (by decide),
   add_layout 3 true [(6, 1), (6, 2), (6, 3)] (7, 0) (by decide) (by decide) (by decide) (by decide)⟩

/-- (c) the quotient is occupied: at the head, in the middle and at the end of its run -/
example : QF.addQR (Spec.layout 3 false [(6, 2), (6, 4), (7, 0)]) 6 1 =
    .ok (Spec.layout 3 false [(6, 1), (6, 2), (6, 4), (7, 0)]) ∧
    QF.addQR (Spec.layout 3 false [(6, 2), (6, 4), (7, 0)]) 6 3 =
    .ok (Spec.layout 3 false [(6, 2), (6, 3), (6, 4), (7, 0)]) ∧
    QF.addQR (Spec.layout 3 false [(6, 2), (6, 4), (7, 0)]) 6 5 =
    .ok (Spec.layout 3 false [(6, 2), (6, 4), (6, 5), (7, 0)]) :=
  ⟨add_layout 3 false [(6, 2), (6, 4), (7, 0)] (6, 1) (by decide) (by decide) (by decide) (by decide),
   add_layout 3 false [(6, 2), (6, 4), (7, 0)] (6, 3) (by decide) (by decide) (by decide) (by decide),
   add_layout 3 false [(6, 2), (6, 4), (7, 0)] (6, 5) (by decide) (by decide) (by decide) (by decide)⟩

end PyProb.QF
