/-
  Reusable facts about tables in the linear view (`QFLin.Lin`) that the WRITE paths need:
  * `LinX`: the linear view together with the array lengths and "empty slots hold remainder 0",
    which determines the table completely (`linx_ext`);
  * point-wise access to arrays after a `set` at a slot given by its distance (`getD_set_io`);
  * the status predicates of the model (`isEmpty`, `isClusterStart`, `isRunStart`) at slots with
    and without an element;
  * the end of the cluster of an element, deleting one element from the sequence of homes
    (`del`) and the positions afterwards (`pos_del_*`).
-/
import PyProb.Lemmas.QFLinHashes
import PyProb.Lemmas.QFLayoutLin

namespace PyProb.QFRem
open PyProb PyProb.QF PyProb.QFLin PyProb.Spec

/-- the linear view, plus everything else that pins the table down -/
structure LinX (s : QF) (n e m : Nat) (d r : Nat → Nat) : Prop where
  lin : Lin s n e m d r
  lrem : s.rem.length = n
  locc : s.occ.length = n
  lcont : s.cont.length = n
  lshift : s.shift.length = n
  rem0 : ∀ x, x < n → (∀ i, i < m → posF d i ≠ x) → s.remAt (io n e x) = 0

/-! ### slots and point-wise access -/

theorem io_lt (n e x : Nat) (hn : 0 < n) : io n e x < n := Nat.mod_lt _ hn

theorem io_ne (n e x y : Nat) (hx : x < n) (hy : y < n) (h : x ≠ y) : io n e x ≠ io n e y :=
  fun hh => h (io_inj n e x y hx hy hh)

theorem getD_set_io {α : Type} (l : List α) (n e X y : Nat) (v dflt : α) (hl : l.length = n)
    (hX : X < n) (hy : y < n) :
    (l.set (io n e X) v).getD (io n e y) dflt = if X = y then v else l.getD (io n e y) dflt := by
  by_cases h : X = y
  · subst h
    rw [if_pos rfl]
    exact getD_set_eq _ _ _ _ (by rw [hl]; exact io_lt n e X (by omega))
  · rw [if_neg h]
    exact getD_set_ne _ _ _ _ _ (io_ne n e X y hX hy h)

theorem bit_set_io (l : List Bool) (n e X y : Nat) (v : Bool) (hl : l.length = n)
    (hX : X < n) (hy : y < n) :
    bit (l.set (io n e X) v) (io n e y) = if X = y then v else bit l (io n e y) :=
  getD_set_io l n e X y v false hl hX hy

theorem list_ext_io {α : Type} (l1 l2 : List α) (dflt : α) (n e : Nat) (he : e < n)
    (h1 : l1.length = n) (h2 : l2.length = n)
    (h : ∀ y, y < n → l1.getD (io n e y) dflt = l2.getD (io n e y) dflt) : l1 = l2 := by
  apply List.ext_getElem (by omega)
  intro a ha1 ha2
  have h3 := h (off n e a) (off_lt_n n e a (by omega))
  rw [io_off n e a he (by omega)] at h3
  simpa [List.getD_eq_getElem?_getD, ha1, ha2] using h3

/-- a table is determined by its scalar fields and the point-wise content of its four arrays -/
theorem qf_ext_io (s t : QF) (n e : Nat) (he : e < n) (hq : s.q = t.q) (ha : s.auto = t.auto)
    (hc : s.count = t.count)
    (l1 : s.rem.length = n) (l2 : s.occ.length = n) (l3 : s.cont.length = n) (l4 : s.shift.length = n)
    (k1 : t.rem.length = n) (k2 : t.occ.length = n) (k3 : t.cont.length = n) (k4 : t.shift.length = n)
    (h : ∀ y, y < n → s.remAt (io n e y) = t.remAt (io n e y) ∧ bit s.occ (io n e y) = bit t.occ (io n e y) ∧
      bit s.cont (io n e y) = bit t.cont (io n e y) ∧ bit s.shift (io n e y) = bit t.shift (io n e y)) :
    s = t := by
  cases s; cases t
  simp only [remAt, bit] at *
  subst hq ha hc
  have e1 := list_ext_io _ _ 0 n e he l1 k1 (fun y hy => (h y hy).1)
  have e2 := list_ext_io _ _ false n e he l2 k2 (fun y hy => (h y hy).2.1)
  have e3 := list_ext_io _ _ false n e he l3 k3 (fun y hy => (h y hy).2.2.1)
  have e4 := list_ext_io _ _ false n e he l4 k4 (fun y hy => (h y hy).2.2.2)
  subst e1 e2 e3 e4
  rfl

section lin
variable {s : QF} {n e m : Nat} {d r : Nat → Nat}

theorem pos_lt (L : Lin s n e m d r) (i : Nat) (hi : i < m) : posF d i < n := by
  have := L.fit i hi; omega

/-- every distance holds an element or none -/
theorem cell_or_not (d : Nat → Nat) (m x : Nat) :
    (∃ i, i < m ∧ posF d i = x) ∨ (∀ i, i < m → posF d i ≠ x) := by
  by_cases h : ∃ i, i < m ∧ posF d i = x
  · exact Or.inl h
  · exact Or.inr (fun i hi hp => h ⟨i, hi, hp⟩)

/-- an element at home is not a continuation -/
theorem contF_home (d : Nat → Nat) (i : Nat) (h : posF d i = d i) : contF d i = false := by
  simp only [contF, Bool.and_eq_false_iff, decide_eq_false_iff_not]
  by_cases h0 : i = 0
  · left; omega
  · right
    intro heq
    have h1 := p_ge_d d (i - 1)
    have h2 := p_lt d (i - 1) i (by omega)
    omega

theorem cont_cell (L : Lin s n e m d r) (i : Nat) (hi : i < m) :
    bit s.cont (io n e (posF d i)) = contF d i := L.cont i hi

theorem occ_or_shift_cell (L : Lin s n e m d r) (i : Nat) (hi : i < m) :
    (bit s.occ (io n e (posF d i)) || bit s.shift (io n e (posF d i))) = true := by
  by_cases hh : posF d i = d i
  · have : bit s.occ (io n e (posF d i)) = true := (L.occ _ (pos_lt L i hi)).2 ⟨i, hi, hh.symm⟩
    simp [this]
  · have := L.shift i hi
    simp [this, hh]

theorem isRunStart_cell (L : Lin s n e m d r) (i : Nat) (hi : i < m) :
    s.isRunStart (io n e (posF d i)) = !contF d i := by
  simp only [isRunStart, cont_cell L i hi, occ_or_shift_cell L i hi, Bool.and_true]

theorem isClusterStart_cell (L : Lin s n e m d r) (i : Nat) (hi : i < m) :
    s.isClusterStart (io n e (posF d i)) = decide (posF d i = d i) := by
  by_cases hh : posF d i = d i
  · have h1 : bit s.occ (io n e (posF d i)) = true := (L.occ _ (pos_lt L i hi)).2 ⟨i, hi, hh.symm⟩
    have h2 := L.shift i hi
    have h3 := cont_cell L i hi
    rw [contF_home d i hh] at h3
    simp only [isClusterStart, h1, h2, h3]
    simp [hh]
  · have h2 := L.shift i hi
    simp [isClusterStart, h2, hh]

theorem isClusterStart_nocell (L : Lin s n e m d r) (x : Nat) (hx : x < n)
    (h : ∀ i, i < m → posF d i ≠ x) : s.isClusterStart (io n e x) = false := by
  have := isEmpty_nocell L x hx h
  simp only [isEmpty, Bool.and_eq_true, Bool.not_eq_true'] at this
  simp [isClusterStart, this.1.1]

theorem isRunStart_nocell (L : Lin s n e m d r) (x : Nat) (hx : x < n)
    (h : ∀ i, i < m → posF d i ≠ x) : s.isRunStart (io n e x) = false := by
  have := isEmpty_nocell L x hx h
  simp only [isEmpty, Bool.and_eq_true, Bool.not_eq_true'] at this
  simp [isRunStart, this.1.1, this.2]

theorem occ_nocell (L : Lin s n e m d r) (x : Nat) (hx : x < n)
    (h : ∀ i, i < m → posF d i ≠ x) : bit s.occ (io n e x) = false := by
  have := isEmpty_nocell L x hx h
  simp only [isEmpty, Bool.and_eq_true, Bool.not_eq_true'] at this
  exact this.1.1

theorem isRunOrClusterStart_cell (L : Lin s n e m d r) (i : Nat) (hi : i < m) :
    s.isRunOrClusterStart (io n e (posF d i)) = !contF d i := by
  simp only [isRunOrClusterStart, isRunStart_cell L i hi, isClusterStart_cell L i hi]
  by_cases hh : posF d i = d i
  · simp [hh, contF_home d i hh]
  · simp [hh]

/-! ### the end of a cluster -/

/-- the last element of the cluster of `j`: everything in `(j, b]` is shifted, `b + 1` is not -/
theorem cluster_end (d : Nat → Nat) (m j : Nat) (hj : j < m) :
    ∃ b, j ≤ b ∧ b < m ∧ (∀ k, j < k → k ≤ b → posF d k ≠ d k) ∧
      (b + 1 < m → posF d (b + 1) = d (b + 1)) := by
  have key : ∀ t b, m = b + t + 1 → j ≤ b → (∀ k, j < k → k ≤ b → posF d k ≠ d k) →
      ∃ b, j ≤ b ∧ b < m ∧ (∀ k, j < k → k ≤ b → posF d k ≠ d k) ∧
        (b + 1 < m → posF d (b + 1) = d (b + 1)) := by
    intro t
    induction t with
    | zero =>
        intro b hm hjb hsh
        exact ⟨b, hjb, by omega, hsh, by intro h; omega⟩
    | succ t ih =>
        intro b hm hjb hsh
        by_cases h : posF d (b + 1) = d (b + 1)
        · exact ⟨b, hjb, by omega, hsh, fun _ => h⟩
        · apply ih (b + 1) (by omega) (by omega)
          intro k h1 h2
          by_cases hk : k = b + 1
          · subst hk; exact h
          · exact hsh k h1 (by omega)
  exact key (m - j - 1) j (by omega) (Nat.le_refl _) (by intro k h1 h2; omega)

/-! ### deleting one element -/

/-- the sequence without its `j`-th member -/
def del (j : Nat) (f : Nat → Nat) (i : Nat) : Nat := if i < j then f i else f (i + 1)

theorem pos_del_lt (d : Nat → Nat) (j i : Nat) (h : i < j) : posF (del j d) i = posF d i := by
  induction i with
  | zero => simp [posF, del, h]
  | succ i ih =>
      have := ih (by omega)
      simp only [posF, this, del, h, if_true]

theorem posF_succ (d : Nat → Nat) (i : Nat) : posF d (i + 1) = max (posF d i + 1) (d (i + 1)) := rfl

theorem del_lt (j : Nat) (f : Nat → Nat) (i : Nat) (h : i < j) : del j f i = f i := by simp [del, h]
theorem del_ge (j : Nat) (f : Nat → Nat) (i : Nat) (h : j ≤ i) : del j f i = f (i + 1) := by
  simp only [del]; rw [if_neg (by omega)]

/-- behind the deleted element the elements of its cluster move one slot to the left -/
theorem pos_del_mid (d : Nat → Nat) (j b : Nat) (hmono : ∀ k, k < b → d k ≤ d (k + 1))
    (hsh : ∀ k, j < k → k ≤ b → posF d k ≠ d k) :
    ∀ i, j ≤ i → i < b → posF (del j d) i + 1 = posF d (i + 1) := by
  intro i
  induction i with
  | zero =>
      intro h1 h2
      have hj : j = 0 := by omega
      subst hj
      have h3 := hsh 1 (by omega) (by omega)
      have h4 := hmono 0 (by omega)
      have e1 : posF (del 0 d) 0 = d 1 := by simp [posF, del]
      have e2 : posF d 1 = max (d 0 + 1) (d 1) := rfl
      simp only [Nat.zero_add] at h4 ⊢
      omega
  | succ i ih =>
      intro h1 h2
      have h3 := hsh (i + 1 + 1) (by omega) (by omega)
      have e1 := posF_succ d (i + 1)
      have e2 := posF_succ (del j d) i
      have h7 : del j d (i + 1) = d (i + 1 + 1) := del_ge j d (i + 1) (by omega)
      have h9 := p_ge_d d (i + 1 + 1)
      by_cases hij : j = i + 1
      · subst hij
        have h6 := pos_del_lt d (i + 1) i (by omega)
        have h7' := hmono (i + 1) (by omega)
        have h8 := posF_succ d i
        have h9' := p_ge_d d (i + 1)
        omega
      · have h6 := ih (by omega) (by omega)
        omega

/-- from the next cluster on nothing moves -/
theorem pos_del_ge (d : Nat → Nat) (j b : Nat) (hjb : j ≤ b) (hmono : ∀ k, k < b → d k ≤ d (k + 1))
    (hsh : ∀ k, j < k → k ≤ b → posF d k ≠ d k) (hb : posF d (b + 1) = d (b + 1)) :
    ∀ i, b ≤ i → posF (del j d) i = posF d (i + 1) := by
  intro i hi
  induction i with
  | zero =>
      have : j = 0 := by omega
      subst this
      have : b = 0 := by omega
      subst this
      have e1 : posF (del 0 d) 0 = d 1 := by simp [posF, del]
      have e2 : posF d 1 = max (d 0 + 1) (d 1) := rfl
      simp only [Nat.zero_add] at hb ⊢
      omega
  | succ i ih =>
      have h7 : del j d (i + 1) = d (i + 1 + 1) := del_ge j d (i + 1) (by omega)
      have e1 := posF_succ d (i + 1)
      have e2 := posF_succ (del j d) i
      by_cases hib : b = i + 1
      · subst hib
        by_cases hij : j = i + 1
        · subst hij
          have h6 := pos_del_lt d (i + 1) i (by omega)
          have h9 := posF_succ d i
          omega
        · have h6 := pos_del_mid d j (i + 1) hmono hsh i (by omega) (by omega)
          omega
      · have h6 := ih (by omega)
        omega

/-! ### continuation flags after a deletion -/

theorem contF_del_lt (d : Nat → Nat) (j i : Nat) (h : i < j) : contF (del j d) i = contF d i := by
  simp only [contF, del_lt j d i h, del_lt j d (i - 1) (by omega)]

theorem contF_del_gt (d : Nat → Nat) (j i : Nat) (h : j < i) : contF (del j d) i = contF d (i + 1) := by
  simp only [contF, del_ge j d i (by omega), del_ge j d (i - 1) (by omega),
    show i - 1 + 1 = i by omega, show i + 1 - 1 = i by omega]
  have h1 : decide (i ≠ 0) = true := by simp; omega
  have h2 : decide (i + 1 ≠ 0) = true := by simp
  rw [h1, h2]

theorem contF_del_eq (d : Nat → Nat) (j : Nat) (h1 : j ≠ 0 → d (j - 1) ≤ d j) (h2 : d j ≤ d (j + 1)) :
    contF (del j d) j = (contF d j && contF d (j + 1)) := by
  by_cases h0 : j = 0
  · subst h0; simp [contF]
  · have h3 := h1 h0
    have hd : decide (j ≠ 0) = true := by simp [h0]
    have hd1 : decide (j + 1 ≠ 0) = true := by simp
    simp only [contF, del_ge j d j (Nat.le_refl _), del_lt j d (j - 1) (by omega),
      show j + 1 - 1 = j by omega, hd, hd1, Bool.true_and]
    by_cases e1 : d j = d (j - 1)
    · by_cases e2 : d (j + 1) = d j
      · simp [e1, e2]
      · have : ¬ d (j + 1) = d (j - 1) := by omega
        simp [e2, this]
    · have : ¬ d (j + 1) = d (j - 1) := by omega
      simp [e1, this]

end lin
end PyProb.QFRem
