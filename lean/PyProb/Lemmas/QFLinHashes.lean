/-
  Layer A2 on the linear view: the generator `hashes()` terminates on a table in the linear view
  and yields the hash of every stored element exactly once (in the order of the table, starting
  behind the first empty slot).
-/
import PyProb.Lemmas.QFLin

namespace PyProb.QFLin
open PyProb PyProb.QF

/-! ### thresholds of monotone predicates -/

theorem cntP_le (P : Nat → Bool) (lo len : Nat) : cntP P lo len ≤ len := by
  induction len with
  | zero => simp [cntP_zero]
  | succ len ih => rw [cntP_succ_top]; split <;> omega

/-- for a downward closed predicate on `[0, m)` the count is the threshold -/
theorem cntP_thr (P : Nat → Bool) (m : Nat) (hmono : ∀ i k, i ≤ k → k < m → P k = true → P i = true) :
    ∀ i, i < m → (i < cntP P 0 m ↔ P i = true) := by
  induction m with
  | zero => intro i hi; omega
  | succ m ih =>
      have ih := ih (fun i k h1 h2 h3 => hmono i k h1 (by omega) h3)
      have hle := cntP_le P 0 m
      intro i hi
      rw [cntP_succ_top, Nat.zero_add]
      by_cases hPm : P m = true
      · have hall : ∀ j, j < m → P j = true := fun j hj => hmono j m (by omega) (by omega) hPm
        have hfull : cntP P 0 m = m := by
          cases m with
          | zero => rfl
          | succ m' =>
              have := (ih m' (by omega)).2 (hall m' (by omega))
              omega
        rw [hfull, if_pos hPm]
        by_cases him : i = m
        · subst him; simp [hPm]
        · simp [hall i (by omega)]; omega
      · rw [if_neg hPm, Nat.add_zero]
        by_cases him : i = m
        · subst him
          constructor
          · intro h; omega
          · intro h; exact absurd h hPm
        · exact ih i (by omega)

section hashes
variable {s : QF} {n e m : Nat} {d r : Nat → Nat}

/-- number of elements placed in front of distance `x` -/
def Afn (d : Nat → Nat) (m x : Nat) : Nat := cntP (fun i => decide (posF d i < x)) 0 m
/-- number of elements whose home is in front of distance `x` -/
def Bfn (d : Nat → Nat) (m x : Nat) : Nat := cntP (fun i => decide (d i < x)) 0 m

theorem A_le_m (d : Nat → Nat) (m x : Nat) : Afn d m x ≤ m := cntP_le _ 0 m
theorem B_le_m (d : Nat → Nat) (m x : Nat) : Bfn d m x ≤ m := cntP_le _ 0 m

theorem A_char (d : Nat → Nat) (m x i : Nat) (hi : i < m) : i < Afn d m x ↔ posF d i < x := by
  have := cntP_thr (fun i => decide (posF d i < x)) m (by
    intro i k h1 _ h3
    simp only [decide_eq_true_eq] at *
    have := p_mono d i k h1; omega) i hi
  simpa [Afn] using this

theorem B_char (L : Lin s n e m d r) (x i : Nat) (hi : i < m) : i < Bfn d m x ↔ d i < x := by
  have := cntP_thr (fun i => decide (d i < x)) m (by
    intro i k h1 h2 h3
    simp only [decide_eq_true_eq] at *
    have := d_mono L i k h1 h2; omega) i hi
  simpa [Bfn] using this

theorem A_le_B (L : Lin s n e m d r) (x : Nat) : Afn d m x ≤ Bfn d m x := by
  apply Classical.byContradiction
  intro h
  have hB := B_le_m d m x
  have hA := A_le_m d m x
  have h1 : Bfn d m x < m := by omega
  have h2 := (A_char d m x (Bfn d m x) h1).1 (by omega)
  have h3 := p_ge_d d (Bfn d m x)
  have := (B_char L x (Bfn d m x) h1).2 (by omega)
  omega

/-- a slot without an element: nothing is pending -/
theorem nocell_step (L : Lin s n e m d r) (x : Nat) (h : ∀ i, i < m → posF d i ≠ x) :
    Afn d m (x + 1) = Afn d m x ∧ Bfn d m (x + 1) = Bfn d m x ∧ Afn d m x = Bfn d m x := by
  refine ⟨?_, ?_, ?_⟩
  · apply cntP_congr
    intro i _ hi
    have := h i (by omega)
    simp only [decide_eq_decide]; omega
  · apply cntP_congr
    intro i _ hi
    have : d i ≠ x := by
      intro hd
      obtain ⟨k, hk, hpk⟩ := pos_of_home L i (by omega)
      exact h k (by omega) (by omega)
    simp only [decide_eq_decide]; omega
  · have hle := A_le_B L x
    apply Classical.byContradiction
    intro hne
    have hlt : Afn d m x < Bfn d m x := by omega
    have hB := B_le_m d m x
    have hAm : Afn d m x < m := by omega
    have h1 : d (Afn d m x) < x := (B_char L x _ hAm).1 hlt
    have h2 : ¬ posF d (Afn d m x) < x := fun hh => by
      have := (A_char d m x _ hAm).2 hh; omega
    have h3 := h _ hAm
    cases hA : Afn d m x with
    | zero =>
        rw [hA] at h1 h2 h3
        simp only [posF] at h2 h3; omega
    | succ a =>
        rw [hA] at h1 h2 h3 hAm
        have h4 := p_shifted d a (by omega)
        have h5 : ¬ posF d a < x := by omega
        have := (A_char d m x a (by omega)).1 (by omega)
        exact h5 this

/-- a slot with element `a` -/
theorem cell_step (d : Nat → Nat) (m x a : Nat) (ha : a < m) (hp : posF d a = x) :
    Afn d m x = a ∧ Afn d m (x + 1) = a + 1 := by
  have hA := A_le_m d m x
  have hA1 := A_le_m d m (x + 1)
  constructor
  · apply Classical.byContradiction
    intro hne
    by_cases hlt : a < Afn d m x
    · have := (A_char d m x a ha).1 hlt; omega
    · have h1 : Afn d m x < a := by omega
      have h2 := p_lt d _ _ h1
      have := (A_char d m x (Afn d m x) (by omega)).2 (by omega)
      omega
  · apply Classical.byContradiction
    intro hne
    by_cases hlt : a + 1 ≤ Afn d m (x + 1)
    · have h1 : a + 1 < Afn d m (x + 1) := by omega
      have h2 := (A_char d m (x + 1) (a + 1) (by omega)).1 h1
      have := p_step d a
      omega
    · have := (A_char d m (x + 1) a ha).2 (by omega)
      omega

/-- the elements whose home is `x` -/
theorem home_block (L : Lin s n e m d r) (x : Nat) (hx : x < n) :
    Bfn d m x ≤ Bfn d m (x + 1) ∧
    (bit s.occ (io n e x) = true ↔ Bfn d m x < Bfn d m (x + 1)) ∧
    (∀ i, Bfn d m x ≤ i → i < Bfn d m (x + 1) → d i = x ∧ contF d i = decide (i ≠ Bfn d m x)) := by
  have hB := B_le_m d m x
  have hB1 := B_le_m d m (x + 1)
  have hle : Bfn d m x ≤ Bfn d m (x + 1) := by
    apply Classical.byContradiction
    intro h
    have h1 : Bfn d m (x + 1) < m := by omega
    have h2 := (B_char L x _ h1).1 (by omega)
    have := (B_char L (x + 1) _ h1).2 (by omega)
    omega
  have hblock : ∀ i, Bfn d m x ≤ i → i < Bfn d m (x + 1) → d i = x := by
    intro i h1 h2
    have h3 := (B_char L (x + 1) i (by omega)).1 h2
    have h4 : ¬ d i < x := fun hh => by
      have := (B_char L x i (by omega)).2 hh; omega
    omega
  refine ⟨hle, ?_, ?_⟩
  · rw [L.occ x hx]
    constructor
    · rintro ⟨i, hi, hdi⟩
      have h1 := (B_char L (x + 1) i hi).2 (by omega)
      have h2 : ¬ i < Bfn d m x := fun hh => by
        have := (B_char L x i hi).1 hh; omega
      omega
    · intro hlt
      exact ⟨Bfn d m x, by omega, hblock _ (Nat.le_refl _) hlt⟩
  · intro i h1 h2
    refine ⟨hblock i h1 h2, ?_⟩
    by_cases hib : i = Bfn d m x
    · rw [hib]
      simp only [contF, ne_eq, not_true_eq_false, decide_false, Bool.and_eq_false_iff,
        decide_eq_false_iff_not, Decidable.not_not]
      by_cases h0 : Bfn d m x = 0
      · left; exact h0
      · right
        intro heq
        have h3 := (B_char L x (Bfn d m x - 1) (by omega)).1 (by omega)
        have h4 := hblock (Bfn d m x) (Nat.le_refl _) (by omega)
        omega
    · have h3 := hblock (i - 1) (by omega) (by omega)
      have h4 := hblock i h1 h2
      simp only [contF, hib, ne_eq, not_false_eq_true, decide_true, Bool.and_eq_true, decide_eq_true_eq]
      exact ⟨by omega, by omega⟩

/-! ### the queue of pending quotients -/

/-- the slots of the homes of the run starts among the elements `a, …, a + len - 1` -/
def Qf (n e : Nat) (d : Nat → Nat) : Nat → Nat → List Nat
  | _, 0 => []
  | a, len + 1 => if contF d a then Qf n e d (a + 1) len else io n e (d a) :: Qf n e d (a + 1) len

theorem Qf_append (n e : Nat) (d : Nat → Nat) (a l1 l2 : Nat) :
    Qf n e d a (l1 + l2) = Qf n e d a l1 ++ Qf n e d (a + l1) l2 := by
  induction l1 generalizing a with
  | zero => simp [Qf]
  | succ l1 ih =>
      rw [show l1 + 1 + l2 = (l1 + l2) + 1 by omega]
      simp only [Qf, ih (a + 1)]
      rw [show a + 1 + l1 = a + (l1 + 1) by omega]
      split <;> simp

theorem Qf_cont (n e : Nat) (d : Nat → Nat) (a len : Nat) (h : ∀ i, a ≤ i → i < a + len → contF d i = true) :
    Qf n e d a len = [] := by
  induction len generalizing a with
  | zero => rfl
  | succ len ih =>
      simp only [Qf, h a (Nat.le_refl _) (by omega), if_true]
      exact ih (a + 1) (fun i h1 h2 => h i (by omega) (by omega))

/-! ### one slot of the generator -/

/-- the hash the generator yields for element `i` -/
def hashF (s : QF) (n e : Nat) (d r : Nat → Nat) (i : Nat) : Nat := io n e (d i) * 2 ^ s.r + r i

/-- `cur_quot` is the quotient of the run that is being continued -/
def CurOK (n e : Nat) (d : Nat → Nat) (m x cur : Nat) : Prop :=
  Afn d m x < m → contF d (Afn d m x) = true → cur = io n e (d (Afn d m x - 1))

theorem hashes_step (L : Lin s n e m d r) (x : Nat) (hx : x < n) (i : Nat) (hi : i % n = io n e x)
    (k cur : Nat) (acc : List Nat) (hcur : CurOK n e d m x cur) :
    ∃ cur', CurOK n e d m (x + 1) cur' ∧
      hashesLoop s (k + 1) i (Qf n e d (Afn d m x) (Bfn d m x - Afn d m x)) cur acc =
      hashesLoop s k (i + 1) (Qf n e d (Afn d m (x + 1)) (Bfn d m (x + 1) - Afn d m (x + 1))) cur'
        (((List.range' (Afn d m x) (Afn d m (x + 1) - Afn d m x)).map (hashF s n e d r)).reverse ++ acc) := by
  have hidx : i % s.size = io n e x := by rw [L.size]; exact hi
  by_cases hcell : ∃ a, a < m ∧ posF d a = x
  · obtain ⟨a, ha, hpa⟩ := hcell
    obtain ⟨hA, hA1⟩ := cell_step d m x a ha hpa
    obtain ⟨hBle, hocc, hblock⟩ := home_block L x hx
    have hAB := A_le_B L x
    have hB1 := B_le_m d m (x + 1)
    have haB1 : a < Bfn d m (x + 1) := (B_char L (x + 1) a ha).2 (by have := p_ge_d d a; omega)
    have hne : s.isEmpty (io n e x) = false := by rw [← hpa]; exact isEmpty_cell L a ha
    have hcont : bit s.cont (io n e x) = contF d a := by rw [← hpa]; exact L.cont a ha
    have hrem : s.remAt (io n e x) = r a := by rw [← hpa]; exact L.rem a ha
    have hos : (bit s.occ (io n e x) || bit s.shift (io n e x)) = true := by
      by_cases hh : posF d a = d a
      · have : bit s.occ (io n e x) = true := (L.occ x hx).2 ⟨a, ha, by omega⟩
        simp [this]
      · have := L.shift a ha
        rw [hpa] at this hh
        simp [this, hh]
    have hrs : s.isRunStart (io n e x) = !contF d a := by
      simp only [isRunStart, hcont, hos, Bool.and_true]
    -- the queue after the push
    have hq' : (if bit s.occ (io n e x) = true then
        Qf n e d (Afn d m x) (Bfn d m x - Afn d m x) ++ [io n e x]
        else Qf n e d (Afn d m x) (Bfn d m x - Afn d m x)) = Qf n e d a (Bfn d m (x + 1) - a) := by
      rw [hA] at hAB ⊢
      by_cases ho : bit s.occ (io n e x) = true
      · rw [if_pos ho]
        have hlt := hocc.1 ho
        have e1 : Bfn d m (x + 1) - a = (Bfn d m x - a) + ((Bfn d m (x + 1) - Bfn d m x - 1) + 1) := by omega
        rw [e1, Qf_append, show a + (Bfn d m x - a) = Bfn d m x by omega]
        congr 1
        have hb := hblock (Bfn d m x) (Nat.le_refl _) hlt
        simp only [Qf]
        rw [hb.2]
        simp only [ne_eq, not_true_eq_false, decide_false, Bool.false_eq_true, if_false, hb.1]
        rw [Qf_cont]
        intro j h1 h2
        have := hblock j (by omega) (by omega)
        rw [this.2]
        simp only [decide_eq_true_eq]; omega
      · rw [if_neg ho]
        have : ¬ Bfn d m x < Bfn d m (x + 1) := fun hh => ho (hocc.2 hh)
        rw [show Bfn d m (x + 1) = Bfn d m x by omega]
    rw [hA, hA1, show a + 1 - a = 1 by omega]
    simp only [List.range'_one, List.map_cons, List.map_nil, List.reverse_cons, List.reverse_nil,
      List.nil_append, List.singleton_append]
    rw [show Bfn d m x - Afn d m x = Bfn d m x - Afn d m x from rfl] at hq'
    rw [hA] at hq'
    cases hca : contF d a
    · -- a run start: pop its quotient
      refine ⟨io n e (d a), ?_, ?_⟩
      · intro _ _
        rw [hA1, Nat.add_sub_cancel]
      · have hqf : Qf n e d a (Bfn d m (x + 1) - a) =
            io n e (d a) :: Qf n e d (a + 1) (Bfn d m (x + 1) - (a + 1)) := by
          rw [show Bfn d m (x + 1) - a = (Bfn d m (x + 1) - (a + 1)) + 1 by omega]
          simp only [Qf, hca, Bool.false_eq_true, if_false]
        simp only [hashesLoop, hidx, hne, Bool.false_eq_true, if_false, hrs, hca, Bool.not_false,
          if_true, hq', hqf, hrem, hashF]
    · -- a continuation
      have hc := hcur (by rw [hA]; exact ha) (by rw [hA]; exact hca)
      rw [hA] at hc
      have hda : d a = d (a - 1) := by
        simp only [contF, Bool.and_eq_true, decide_eq_true_eq] at hca; exact hca.2
      refine ⟨cur, ?_, ?_⟩
      · intro _ _
        rw [hA1, Nat.add_sub_cancel, hc, hda]
      · have hqf : Qf n e d a (Bfn d m (x + 1) - a) = Qf n e d (a + 1) (Bfn d m (x + 1) - (a + 1)) := by
          rw [show Bfn d m (x + 1) - a = (Bfn d m (x + 1) - (a + 1)) + 1 by omega]
          simp only [Qf, hca, if_true]
        simp only [hashesLoop, hidx, hne, Bool.false_eq_true, if_false, hrs, hca, Bool.not_true,
          hq', hqf, hrem, hashF, hc, hda]
  · have hno : ∀ i, i < m → posF d i ≠ x := fun i hi hp => hcell ⟨i, hi, hp⟩
    obtain ⟨h1, h2, h3⟩ := nocell_step L x hno
    have hemp := isEmpty_nocell L x hx hno
    refine ⟨cur, ?_, ?_⟩
    · intro ha hc
      rw [h1] at ha hc ⊢
      exact hcur ha hc
    · rw [h1, h2, h3, Nat.sub_self]
      simp only [hashesLoop, hidx, hemp, if_true, Qf, List.isEmpty_nil, List.range'_zero, List.map_nil,
        List.reverse_nil, List.nil_append]

/-! ### the whole generator -/

theorem A_mono_step (d : Nat → Nat) (m x : Nat) : Afn d m x ≤ Afn d m (x + 1) := by
  apply Classical.byContradiction
  intro h
  have hA := A_le_m d m x
  have h1 : Afn d m (x + 1) < m := by omega
  have h2 := (A_char d m x _ h1).1 (by omega)
  have := (A_char d m (x + 1) _ h1).2 (by omega)
  omega

theorem range'_split (a b c : Nat) (h1 : a ≤ b) (h2 : b ≤ c) :
    List.range' a (b - a) ++ List.range' b (c - b) = List.range' a (c - a) := by
  have := @List.range'_append_1 a (b - a) (c - b)
  rw [show a + (b - a) = b by omega, show b - a + (c - b) = c - a by omega] at this
  exact this

theorem io_add (n e x i len : Nat) (hi : i % n = io n e x) : (i + len) % n = io n e (x + len) := by
  simp only [io] at *
  rw [Nat.add_mod, hi, ← Nat.add_mod, Nat.add_assoc]

theorem hashes_walk (L : Lin s n e m d r) : ∀ len x i k cur acc, x + len ≤ n → i % n = io n e x →
    CurOK n e d m x cur →
    ∃ cur', CurOK n e d m (x + len) cur' ∧ Afn d m x ≤ Afn d m (x + len) ∧
      hashesLoop s (len + k) i (Qf n e d (Afn d m x) (Bfn d m x - Afn d m x)) cur acc =
      hashesLoop s k (i + len) (Qf n e d (Afn d m (x + len)) (Bfn d m (x + len) - Afn d m (x + len))) cur'
        (((List.range' (Afn d m x) (Afn d m (x + len) - Afn d m x)).map (hashF s n e d r)).reverse ++ acc) := by
  intro len
  induction len with
  | zero =>
      intro x i k cur acc _ _ hc
      exact ⟨cur, hc, Nat.le_refl _, by simp⟩
  | succ len ih =>
      intro x i k cur acc hx hi hc
      obtain ⟨cur1, hc1, h1⟩ := hashes_step L x (by omega) i hi (len + k) cur acc hc
      obtain ⟨cur2, hc2, hmono, h2⟩ := ih (x + 1) (i + 1) k cur1
        (((List.range' (Afn d m x) (Afn d m (x + 1) - Afn d m x)).map (hashF s n e d r)).reverse ++ acc)
        (by omega) (io_add n e x i 1 hi) hc1
      have hm1 := A_mono_step d m x
      rw [show x + 1 + len = x + (len + 1) by omega] at h2 hc2 hmono
      rw [show i + 1 + len = i + (len + 1) by omega] at h2
      refine ⟨cur2, hc2, by omega, ?_⟩
      rw [show len + 1 + k = (len + k) + 1 by omega, h1, h2]
      congr 1
      rw [← List.append_assoc, ← List.reverse_append, ← List.map_append]
      congr 3
      exact range'_split _ _ _ hm1 hmono

theorem curOK_clean (L : Lin s n e m d r) (x cur : Nat) (h : Afn d m x = Bfn d m x) :
    CurOK n e d m x cur := by
  intro ha hc
  exfalso
  simp only [contF, Bool.and_eq_true, decide_eq_true_eq] at hc
  have h1 := (A_char d m x (Afn d m x - 1) (by omega)).1 (by omega)
  have h2 := p_ge_d d (Afn d m x - 1)
  have h3 : ¬ d (Afn d m x) < x := fun hh => by
    have := (B_char L x _ ha).2 hh; omega
  omega

theorem firstEmpty_spec (hs : s.size = n) (j : Nat) (hj : j < n) (hje : s.isEmpty j = true) :
    ∀ fuel i, i ≤ j → j - i < fuel →
      ∃ e0, hashesFirstEmpty s fuel i = .ok e0 ∧ e0 ≤ j ∧ s.isEmpty e0 = true := by
  intro fuel
  induction fuel with
  | zero => intro i _ h; omega
  | succ fuel ih =>
      intro i hij hf
      simp only [hashesFirstEmpty, hs]
      rw [if_neg (by omega)]
      by_cases he : s.isEmpty i = true
      · rw [if_pos he]; exact ⟨i, rfl, hij, he⟩
      · rw [if_neg he]
        have : i ≠ j := by intro h; subst h; exact he hje
        exact ih (i + 1) (by omega) (by omega)

/-- **Layer A2 on the linear view**: `get_hashes` terminates and lists the hash of every element
    exactly once -/
theorem getHashes_lin (L : Lin s n e m d r) :
    ∃ l, s.getHashes = .ok l ∧ l.Perm ((List.range m).map (hashF s n e d r)) := by
  have hn0 : 0 < n := by have := L.n2; omega
  -- the slot in front of which the table is read is empty
  have hlast : ∀ i, i < m → posF d i ≠ n - 1 := by intro i hi; have := L.fit i hi; omega
  have hemp : s.isEmpty (io n e (n - 1)) = true := isEmpty_nocell L (n - 1) (by omega) hlast
  have hio : io n e (n - 1) < n := Nat.mod_lt _ hn0
  obtain ⟨e0, he0, he0le, he0emp⟩ := firstEmpty_spec L.size (io n e (n - 1)) hio hemp (s.size + 1) 0
    (by omega) (by rw [L.size]; omega)
  have he0n : e0 < n := by omega
  -- its distance
  obtain ⟨o0, ho0n, ho0⟩ : ∃ o0, o0 < n ∧ io n e o0 = e0 := by
    refine ⟨(e0 + n - (e + 1)) % n, Nat.mod_lt _ hn0, ?_⟩
    simp only [io]
    rw [Nat.add_mod_mod]
    have : e + 1 + (e0 + n - (e + 1)) = e0 + n := by have := L.he; omega
    rw [this, Nat.add_mod_right]
    exact Nat.mod_eq_of_lt he0n
  have hno0 : ∀ i, i < m → posF d i ≠ o0 := by
    intro i hi hp
    have := isEmpty_cell L i hi
    rw [hp, ho0, he0emp] at this
    cases this
  obtain ⟨_, _, hclean⟩ := nocell_step L o0 hno0
  have hAn : Afn d m n = m := by
    have hle := A_le_m d m n
    apply Classical.byContradiction
    intro hne
    have hlt : Afn d m n < m := by omega
    have := (A_char d m n _ hlt).2 (by have := L.fit _ hlt; omega)
    omega
  have hBn : Bfn d m n = m := by
    have := A_le_B L n; have := B_le_m d m n; omega
  have hA0 : Afn d m 0 = 0 := by
    apply Classical.byContradiction
    intro hne
    have hle := A_le_m d m 0
    have := (A_char d m 0 0 (by omega)).1 (by omega)
    omega
  have hB0 : Bfn d m 0 = 0 := by
    apply Classical.byContradiction
    intro hne
    have hle := B_le_m d m 0
    have := (B_char L 0 0 (by omega)).1 (by omega)
    omega
  -- first part: from the first empty slot to the end of the linear view
  obtain ⟨cur1, _, hm1, hw1⟩ := hashes_walk L (n - o0) o0 e0 o0 0 [] (by omega)
    (by rw [← ho0]; exact Nat.mod_eq_of_lt (by rw [ho0]; exact he0n)) (curOK_clean L o0 0 hclean)
  -- second part: from the start of the linear view to the first empty slot
  obtain ⟨cur2, _, hm2, hw2⟩ := hashes_walk L o0 0 (e0 + (n - o0)) 0 cur1
    (((List.range' (Afn d m o0) (Afn d m (o0 + (n - o0)) - Afn d m o0)).map (hashF s n e d r)).reverse ++ [])
    (by omega)
    (by
      have := io_add n e o0 e0 (n - o0) (by rw [← ho0]; exact Nat.mod_eq_of_lt (by rw [ho0]; exact he0n))
      rw [this, show o0 + (n - o0) = n by omega]
      simp only [io]
      rw [Nat.add_mod_right])
    (curOK_clean L 0 cur1 (by rw [hA0, hB0]))
  rw [show o0 + (n - o0) = n by omega, hAn, hBn] at hw1
  rw [show o0 + (n - o0) = n by omega, hAn] at hw2
  rw [← hclean, Nat.sub_self] at hw1
  rw [hA0, hB0, Nat.zero_add] at hw2
  simp only [Nat.sub_self, Nat.sub_zero, Qf] at hw1 hw2
  rw [show n - o0 + o0 = n by omega] at hw1
  rw [Nat.add_zero] at hw2
  refine ⟨(((List.range' 0 (Afn d m o0)).map (hashF s n e d r)).reverse ++
      (((List.range' (Afn d m o0) (m - Afn d m o0)).map (hashF s n e d r)).reverse ++ [])).reverse, ?_, ?_⟩
  · rw [L.size] at he0
    simp only [getHashes, L.size, he0]
    rw [hw1, hw2]
    simp only [hashesLoop]
  · simp only [List.append_nil, List.reverse_append, List.reverse_reverse]
    have hAle := A_le_m d m o0
    have : List.range m = List.range' 0 (Afn d m o0) ++ List.range' (Afn d m o0) (m - Afn d m o0) := by
      rw [List.range_eq_range']
      have := @List.range'_append_1 0 (Afn d m o0) (m - Afn d m o0)
      rw [Nat.zero_add] at this
      rw [this]; congr 1; omega
    rw [this, List.map_append]
    exact List.perm_append_comm

end hashes
end PyProb.QFLin
