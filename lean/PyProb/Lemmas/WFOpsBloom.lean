/-
  The well-formedness conditions of the export formats are preserved by the update operations,
  Bloom family: counting-Bloom cells stay within uint32, array lengths never change, the
  sub-filters of expanding / rotating filters stay uniform.
-/
import PyProb.Lemmas.FormatsBloom

namespace PyProb

/-! ### counting Bloom: stores stay within the cell range -/

def CellsOK (cells : List Int) : Prop := ∀ x ∈ cells, 0 ≤ x ∧ x ≤ 4294967295

theorem CellsOK_set {cells : List Int} (h : CellsOK cells) (k : Nat) (v : Int) (hv : 0 ≤ v ∧ v ≤ 4294967295) :
    CellsOK (cells.set k v) := by
  intro x hx
  rcases List.mem_or_eq_of_mem_set hx with hx | rfl
  · exact h x hx
  · exact hv

theorem CellsOK_getD {cells : List Int} (h : CellsOK cells) (k : Nat) :
    0 ≤ cells.getD k 0 ∧ cells.getD k 0 ≤ 4294967295 := by
  rw [List.getD_eq_getElem?_getD]
  cases hq : cells[k]? with
  | none => simp
  | some v => simpa using h v (List.mem_of_getElem? hq)

theorem cbf_addLoop_ok (n : Int) (cells : List Int) (pairs : List (Nat × Int)) (acc : List Int)
    (h : CellsOK cells) :
    CellsOK (CBF.addLoop n cells pairs acc).1 ∧ (CBF.addLoop n cells pairs acc).1.length = cells.length := by
  induction pairs generalizing cells acc with
  | nil => exact ⟨h, rfl⟩
  | cons kv rest ih =>
      obtain ⟨k, v⟩ := kv
      -- only the ORDER of the library's limit and the cell's storage range matters here, not its value
      have hmax : (Gen.uint32Max : Int) ≤ 4294967295 := by decide
      have hmax0 : (0 : Int) ≤ Gen.uint32Max := by decide
      simp only [CBF.addLoop]
      by_cases h1 : Gen.cbfAddClampCmp.evalInt v Gen.uint32Max = true
      · rw [if_pos h1]
        have := ih (cells.set k Gen.uint32Max) (Gen.uint32Max :: acc) (CellsOK_set h k _ (by omega))
        simpa using this
      · rw [if_neg h1]
        generalize hnv : (if cells.getD k 0 + n > Gen.uint32Max then Gen.uint32Max else cells.getD k 0 + n) = nv
        have hle : nv ≤ 4294967295 := by rw [← hnv]; split <;> omega
        by_cases h2 : nv < 0
        · rw [if_pos h2]; exact ⟨h, rfl⟩
        · rw [if_neg h2]
          have := ih (cells.set k nv) (v :: acc) (CellsOK_set h k _ (by omega))
          simpa using this

theorem cbf_addAlt_ok (c : CBF) (hs : List Nat) (n : Int) (h : CellsOK c.cells) :
    CellsOK (c.addAlt hs n).1.cells ∧ (c.addAlt hs n).1.cells.length = c.cells.length ∧
      (c.addAlt hs n).1.m = c.m := by
  unfold CBF.addAlt
  cases c.indices hs with
  | error e => exact ⟨h, rfl, rfl⟩
  | ok idx =>
      simp only
      have := cbf_addLoop_ok n c.cells (idx.zip (idx.map fun k => c.cells.getD k 0 + n)) [] h
      generalize CBF.addLoop n c.cells (idx.zip (idx.map fun k => c.cells.getD k 0 + n)) [] = r at this
      obtain ⟨cells, vals, err⟩ := r
      cases err <;> exact ⟨this.1, this.2, rfl⟩

theorem cbf_removeLoop_ok (r : Int) (hr : 0 ≤ r) (cells : List Int) (ks : List Nat) (h : CellsOK cells) :
    CellsOK (CBF.removeLoop r cells ks).1 ∧ (CBF.removeLoop r cells ks).1.length = cells.length := by
  induction ks generalizing cells with
  | nil => exact ⟨h, rfl⟩
  | cons k rest ih =>
      have hk := CellsOK_getD h k
      simp only [CBF.removeLoop]
      split
      · split
        · exact ⟨h, rfl⟩
        · have := ih (cells.set k (cells.getD k 0 - r)) (CellsOK_set h k _ (by omega))
          simpa using this
      · exact ih cells h

theorem minList_nonneg (l : List Int) (h : ∀ x ∈ l, 0 ≤ x) : 0 ≤ CBF.minList l := by
  cases l with
  | nil => simp [CBF.minList]
  | cons x xs =>
      simp only [CBF.minList]
      have hx := h x (by simp)
      have hxs : ∀ y ∈ xs, 0 ≤ y := fun y hy => h y (List.mem_cons_of_mem _ hy)
      clear h
      induction xs generalizing x with
      | nil => simpa using hx
      | cons y ys ih =>
          simp only [List.foldl_cons]
          exact ih (min x y) (by have := hxs y (by simp); omega) (fun z hz => hxs z (List.mem_cons_of_mem _ hz))

theorem cbf_removeAlt_ok (c : CBF) (hs : List Nat) (n : Int) (hn : 0 ≤ n) (h : CellsOK c.cells) :
    CellsOK (c.removeAlt hs n).1.cells ∧ (c.removeAlt hs n).1.cells.length = c.cells.length ∧
      (c.removeAlt hs n).1.m = c.m := by
  unfold CBF.removeAlt
  split
  · exact ⟨h, rfl, rfl⟩
  · rename_i idx _
    split
    · exact ⟨h, rfl, rfl⟩
    · simp only
      split
      · exact ⟨h, rfl, rfl⟩
      · split
        · exact ⟨h, rfl, rfl⟩
        · have hmn : 0 ≤ CBF.minList (idx.map fun k => c.cells.getD k 0) :=
            minList_nonneg _ (by
              intro x hx
              simp only [List.mem_map] at hx
              obtain ⟨k, _, rfl⟩ := hx
              exact (CellsOK_getD h k).1)
          have hr : 0 ≤ (if CBF.minList (idx.map fun k => c.cells.getD k 0) > n then n
              else CBF.minList (idx.map fun k => c.cells.getD k 0)) := by split <;> omega
          have := cbf_removeLoop_ok _ hr c.cells idx h
          generalize CBF.removeLoop _ c.cells idx = res at this
          obtain ⟨cells, err⟩ := res
          cases err <;> exact ⟨this.1, this.2, rfl⟩

/-! ### expanding / rotating: the sub-filters stay uniform -/

/-- a sub-filter with the shared parameters and a full-size bit array -/
def SubOK (est fpr32 k m : Nat) (b : Bloom) : Prop :=
  b.est = est ∧ b.fpr32 = fpr32 ∧ b.k = k ∧ b.m = m ∧ b.bits.length = Bloom.lengthOf m

theorem foldl_setBitB_length (ps : List Nat) (bs : Bytes) : (ps.foldl setBitB bs).length = bs.length := by
  induction ps generalizing bs with
  | nil => rfl
  | cons p ps ih => simp only [List.foldl_cons]; rw [ih]; simp [setBitB]

theorem SubOK_addAlt {est fpr32 k m : Nat} {b : Bloom} (hs : List Nat) (h : SubOK est fpr32 k m b) :
    SubOK est fpr32 k m (b.addAlt hs).1 := by
  obtain ⟨h1, h2, h3, h4, h5⟩ := h
  unfold Bloom.addAlt
  simp only
  split <;> exact ⟨h1, h2, h3, h4, by simp only [foldl_setBitB_length]; exact h5⟩

theorem SubOK_new (est fpr32 k m : Nat) : SubOK est fpr32 k m (Bloom.new est fpr32 k m) :=
  ⟨rfl, rfl, rfl, rfl, by simp [Bloom.new]⟩

theorem addToLast_ok {P : Bloom → Prop} (hP : ∀ b hs, P b → P (b.addAlt hs).1) (bs : List Bloom) (hs : List Nat)
    (h : ∀ b ∈ bs, P b) (hne : bs ≠ []) :
    (∀ b ∈ (Expanding.addToLast bs hs).1, P b) ∧ (Expanding.addToLast bs hs).1 ≠ [] := by
  unfold Expanding.addToLast
  cases hl : bs.getLast? with
  | none => exact ⟨h, hne⟩
  | some b =>
      simp only
      have hb : b ∈ bs := List.mem_of_getLast? hl
      refine ⟨?_, by simp⟩
      intro x hx
      simp only [List.mem_append, List.mem_singleton] at hx
      rcases hx with hx | rfl
      · exact h x (List.dropLast_subset _ hx)
      · exact hP b hs (h b hb)

theorem grow_ok (e : Expanding) (h : ∀ b ∈ e.blooms, SubOK e.est e.fpr32 e.k e.m b) (hne : e.blooms ≠ []) :
    (∀ b ∈ e.grow.blooms, SubOK e.est e.fpr32 e.k e.m b) ∧ e.grow.blooms ≠ [] ∧
      e.grow.est = e.est ∧ e.grow.fpr32 = e.fpr32 ∧ e.grow.k = e.k ∧ e.grow.m = e.m := by
  unfold Expanding.grow
  cases e.blooms.getLast? with
  | none => exact ⟨h, hne, rfl, rfl, rfl, rfl⟩
  | some b =>
      simp only
      split
      · refine ⟨?_, by simp, rfl, rfl, rfl, rfl⟩
        intro x hx
        simp only [List.mem_append, List.mem_singleton] at hx
        rcases hx with hx | rfl
        · exact h x hx
        · exact SubOK_new _ _ _ _
      · exact ⟨h, hne, rfl, rfl, rfl, rfl⟩

theorem expanding_addCore_ok (e : Expanding) (p : Bool) (hs : List Nat) (f : Bool)
    (h : ∀ b ∈ e.blooms, SubOK e.est e.fpr32 e.k e.m b) (hne : e.blooms ≠ []) :
    let e' := (e.addCore p hs f).1
    (∀ b ∈ e'.blooms, SubOK e'.est e'.fpr32 e'.k e'.m b) ∧ e'.blooms ≠ [] := by
  unfold Expanding.addCore
  simp only
  split
  · have hg := grow_ok { e with added := e.added + 1 } h hne
    obtain ⟨hg1, hg2, -⟩ := hg
    have := addToLast_ok (P := SubOK e.est e.fpr32 e.k e.m) (fun b hs hb => SubOK_addAlt hs hb) _ hs hg1 hg2
    have hgp := grow_ok { e with added := e.added + 1 } h hne
    obtain ⟨-, -, g1, g2, g3, g4⟩ := hgp
    simp only [g1, g2, g3, g4]
    exact this
  · exact ⟨h, hne⟩

theorem expanding_addAlt_ok (e : Expanding) (hs : List Nat) (f : Bool)
    (h : ∀ b ∈ e.blooms, SubOK e.est e.fpr32 e.k e.m b) (hne : e.blooms ≠ []) :
    let e' := (e.addAlt hs f).1
    (∀ b ∈ e'.blooms, SubOK e'.est e'.fpr32 e'.k e'.m b) ∧ e'.blooms ≠ [] := by
  unfold Expanding.addAlt
  split
  · exact expanding_addCore_ok e true hs true h hne
  · split
    · exact ⟨h, hne⟩
    · exact expanding_addCore_ok e _ hs false h hne

theorem rotate_ok (r : Rotating) (f : Bool)
    (h : ∀ b ∈ r.blooms, SubOK r.est r.fpr32 r.k r.m b) (hne : r.blooms ≠ []) :
    (∀ b ∈ (r.rotate f).blooms, SubOK r.est r.fpr32 r.k r.m b) ∧ (r.rotate f).blooms ≠ [] ∧
      (r.rotate f).est = r.est ∧ (r.rotate f).fpr32 = r.fpr32 ∧ (r.rotate f).k = r.k ∧ (r.rotate f).m = r.m ∧
      (r.rotate f).q = r.q := by
  have happ : ∀ x ∈ r.blooms ++ [r.fresh], SubOK r.est r.fpr32 r.k r.m x := by
    intro x hx
    simp only [List.mem_append, List.mem_singleton] at hx
    rcases hx with hx | rfl
    · exact h x hx
    · exact SubOK_new _ _ _ _
  have hdrop : ∀ x ∈ r.blooms.drop 1 ++ [r.fresh], SubOK r.est r.fpr32 r.k r.m x := by
    intro x hx
    simp only [List.mem_append, List.mem_singleton] at hx
    rcases hx with hx | rfl
    · exact h x (List.mem_of_mem_drop hx)
    · exact SubOK_new _ _ _ _
  unfold Rotating.rotate
  cases r.blooms.getLast? with
  | none => exact ⟨h, hne, rfl, rfl, rfl, rfl, rfl⟩
  | some b =>
      simp only
      split
      · exact ⟨happ, by simp, rfl, rfl, rfl, rfl, rfl⟩
      · split
        · exact ⟨hdrop, by simp, rfl, rfl, rfl, rfl, rfl⟩
        · split
          · exact ⟨happ, by simp, rfl, rfl, rfl, rfl, rfl⟩
          · split
            · exact ⟨hdrop, by simp, rfl, rfl, rfl, rfl, rfl⟩
            · exact ⟨h, hne, rfl, rfl, rfl, rfl, rfl⟩

theorem rotating_addCore_ok (r : Rotating) (p : Bool) (hs : List Nat) (f : Bool)
    (h : ∀ b ∈ r.blooms, SubOK r.est r.fpr32 r.k r.m b) (hne : r.blooms ≠ []) :
    let r' := (r.addCore p hs f).1
    (∀ b ∈ r'.blooms, SubOK r'.est r'.fpr32 r'.k r'.m b) ∧ r'.blooms ≠ [] ∧ r'.q = r.q := by
  unfold Rotating.addCore
  simp only
  split
  · obtain ⟨hg1, hg2, g1, g2, g3, g4, g5⟩ := rotate_ok { r with added := r.added + 1 } false h hne
    have := addToLast_ok (P := SubOK r.est r.fpr32 r.k r.m) (fun b hs hb => SubOK_addAlt hs hb) _ hs hg1 hg2
    simp only [g1, g2, g3, g4, g5]
    exact ⟨this.1, this.2, trivial⟩
  · exact ⟨h, hne, rfl⟩

theorem rotating_addAlt_ok (r : Rotating) (hs : List Nat) (f : Bool)
    (h : ∀ b ∈ r.blooms, SubOK r.est r.fpr32 r.k r.m b) (hne : r.blooms ≠ []) :
    let r' := (r.addAlt hs f).1
    (∀ b ∈ r'.blooms, SubOK r'.est r'.fpr32 r'.k r'.m b) ∧ r'.blooms ≠ [] ∧ r'.q = r.q := by
  unfold Rotating.addAlt
  split
  · exact rotating_addCore_ok r true hs true h hne
  · split
    · exact ⟨h, hne, rfl⟩
    · exact rotating_addCore_ok r _ hs false h hne

end PyProb
