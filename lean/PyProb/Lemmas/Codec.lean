/-
  Lemmas on the byte codecs of `Model/Base.lean`: little-endian integers, two's complement,
  `struct` pack/unpack (generic over layouts, native padding included), typed arrays, hex.
-/
import PyProb.Model.Base

namespace PyProb

/-! ### little-endian integers -/

@[simp] theorem leBytes_length (n v : Nat) : (leBytes n v).length = n := by
  induction n generalizing v with
  | zero => rfl
  | succ n ih => simp [leBytes, ih]

theorem leBytes_lt (n v : Nat) : ∀ x ∈ leBytes n v, x < 256 := by
  induction n generalizing v with
  | zero => simp [leBytes]
  | succ n ih =>
      intro x hx
      simp only [leBytes, List.mem_cons] at hx
      rcases hx with rfl | hx
      · omega
      · exact ih _ x hx

theorem ofLE_leBytes (n v : Nat) : ofLE (leBytes n v) = v % 256 ^ n := by
  induction n generalizing v with
  | zero => simp [leBytes, ofLE, Nat.mod_one]
  | succ n ih =>
      simp only [leBytes, ofLE, ih]
      rw [Nat.pow_succ, Nat.mul_comm (256 ^ n) 256, Nat.mod_mul]

theorem ofLE_leBytes_of_lt {n v : Nat} (h : v < 256 ^ n) : ofLE (leBytes n v) = v := by
  rw [ofLE_leBytes, Nat.mod_eq_of_lt h]

theorem ofLE_lt (bs : Bytes) (h : ∀ x ∈ bs, x < 256) : ofLE bs < 256 ^ bs.length := by
  induction bs with
  | nil => simp [ofLE]
  | cons b bs ih =>
      have hb := h b (by simp)
      have := ih (fun x hx => h x (by simp [hx]))
      simp only [ofLE, List.length_cons, Nat.pow_succ]
      omega

theorem leBytes_ofLE (bs : Bytes) (h : ∀ x ∈ bs, x < 256) : leBytes bs.length (ofLE bs) = bs := by
  induction bs with
  | nil => rfl
  | cons b bs ih =>
      have hb := h b (by simp)
      have := ih (fun x hx => h x (by simp [hx]))
      simp only [List.length_cons, leBytes, ofLE]
      rw [show (b + 256 * ofLE bs) % 256 = b by omega, show (b + 256 * ofLE bs) / 256 = ofLE bs by omega, this]

theorem leBytes_zero (n : Nat) : leBytes n 0 = List.replicate n 0 := by
  induction n with
  | zero => rfl
  | succ n ih => simp [leBytes, ih, List.replicate_succ]

/-! ### two's complement -/

@[simp] theorem leBytesInt_length (n : Nat) (v : Int) : (leBytesInt n v).length = n := by
  simp [leBytesInt]

theorem leBytesInt_lt (n : Nat) (v : Int) : ∀ x ∈ leBytesInt n v, x < 256 := leBytes_lt _ _

theorem leBytesInt_nonneg {n : Nat} {v : Int} (h0 : 0 ≤ v) (h1 : v < (256 ^ n : Nat)) :
    leBytesInt n v = leBytes n v.toNat := by
  unfold leBytesInt
  rw [Int.emod_eq_of_lt h0 h1]

/-- unsigned round trip -/
theorem ofLE_leBytesInt {n : Nat} {v : Int} (h0 : 0 ≤ v) (h1 : v < (256 ^ n : Nat)) :
    (ofLE (leBytesInt n v) : Int) = v := by
  rw [leBytesInt_nonneg h0 h1, ofLE_leBytes_of_lt (by omega)]
  omega

/-- two's complement round trip on the signed range of `n` bytes -/
theorem ofLEInt_leBytesInt {n : Nat} {v : Int} (hlo : -((256 ^ n : Nat) : Int) ≤ 2 * v)
    (hhi : 2 * v < ((256 ^ n : Nat) : Int)) : ofLEInt (leBytesInt n v) = v := by
  have hpos : 0 < 256 ^ n := Nat.pow_pos (by decide)
  generalize hP : 256 ^ n = P at *
  unfold ofLEInt
  simp only [leBytesInt_length, hP]
  unfold leBytesInt
  rw [ofLE_leBytes, hP]
  have hm0 := Int.emod_nonneg v (show ((P : Nat) : Int) ≠ 0 by omega)
  have hm1 := Int.emod_lt_of_pos v (show (0 : Int) < ((P : Nat) : Int) by omega)
  rw [Nat.mod_eq_of_lt (by omega)]
  by_cases hv : 0 ≤ v
  · have : v % (P : Int) = v := Int.emod_eq_of_lt hv (by omega)
    rw [this]
    rw [if_pos (by omega)]; omega
  · have : v % (P : Int) = v + P := by
      rw [← Int.add_emod_right, Int.emod_eq_of_lt (by omega) (by omega)]
    rw [this]
    rw [if_neg (by omega)]; omega

theorem ofLEInt_leBytesInt_4 {v : Int} (hlo : -2147483648 ≤ v) (hhi : v ≤ 2147483647) :
    ofLEInt (leBytesInt 4 v) = v :=
  ofLEInt_leBytesInt (by simp; omega) (by simp; omega)

theorem ofLEInt_leBytesInt_8 {v : Int} (hlo : -9223372036854775808 ≤ v) (hhi : v ≤ 9223372036854775807) :
    ofLEInt (leBytesInt 8 v) = v :=
  ofLEInt_leBytesInt (by simp; omega) (by simp; omega)

/-! ### `struct` fields -/

theorem Field.size_pos (f : Field) : 0 < f.size := by cases f <;> decide

theorem encField_length (big : Bool) (f : Field) (v : Int) : (encField big f v).length = f.size := by
  unfold encField; cases big <;> simp

theorem encField_lt (big : Bool) (f : Field) (v : Int) : ∀ x ∈ encField big f v, x < 256 := by
  unfold encField
  cases big <;> simp only [Bool.false_eq_true, if_false, if_true, List.mem_reverse] <;> exact leBytesInt_lt _ _

/-- a value in the range of its field survives encode/decode, in either byte order -/
theorem decField_encField (big : Bool) (f : Field) (v : Int) (hlo : f.lo ≤ v) (hhi : v ≤ f.hi) :
    decField big f (encField big f v) = v := by
  have hrev : (if big = true then (encField big f v).reverse else encField big f v) = leBytesInt f.size v := by
    unfold encField; cases big <;> simp
  unfold decField
  simp only [hrev]
  cases f <;> simp only [Field.lo, Field.hi, Field.size, Gen.int32Min, Gen.int32Max, Gen.int64Min,
      Gen.int64Max, Gen.uint32Max, Gen.uint64Max] at hlo hhi ⊢
  · exact ofLE_leBytesInt hlo (by simp; omega)
  · exact ofLE_leBytesInt hlo (by simp; omega)
  · exact ofLEInt_leBytesInt_4 hlo hhi
  · exact ofLE_leBytesInt hlo (by simp; omega)
  · exact ofLEInt_leBytesInt_8 hlo hhi
  · exact ofLE_leBytesInt hlo (by simp; omega)

/-! ### `struct` pack / unpack, generically -/

theorem packGo_length (l : Layout) (off : Nat) (fs : List Field) (vs : List Int) (bs : Bytes)
    (h : packGo l off fs vs = .ok bs) : off + bs.length = sizeGo l off fs := by
  induction fs generalizing off vs bs with
  | nil =>
      cases vs with
      | nil => simp [packGo] at h; subst h; simp [sizeGo]
      | cons v vs => simp [packGo] at h
  | cons f fs ih =>
      cases vs with
      | nil => simp [packGo] at h
      | cons v vs =>
          simp only [packGo] at h
          split at h
          · cases h
          · split at h
            · rename_i rest hrest
              injection h with h; subst h
              have := ih _ _ _ hrest
              simp only [sizeGo, List.length_append, List.length_replicate, encField_length]
              omega
            · cases h

theorem pack_length (l : Layout) (vs : List Int) (bs : Bytes) (h : l.pack vs = .ok bs) :
    bs.length = l.size := by
  have := packGo_length l 0 l.fields vs bs h
  unfold Layout.size; omega

theorem packGo_lt (l : Layout) (off : Nat) (fs : List Field) (vs : List Int) (bs : Bytes)
    (h : packGo l off fs vs = .ok bs) : ∀ x ∈ bs, x < 256 := by
  induction fs generalizing off vs bs with
  | nil =>
      cases vs with
      | nil => simp [packGo] at h; subst h; simp
      | cons v vs => simp [packGo] at h
  | cons f fs ih =>
      cases vs with
      | nil => simp [packGo] at h
      | cons v vs =>
          simp only [packGo] at h
          split at h
          · cases h
          · split at h
            · rename_i rest hrest
              injection h with h; subst h
              intro x hx
              simp only [List.mem_append, List.mem_replicate] at hx
              rcases hx with (⟨_, rfl⟩ | hx) | hx
              · decide
              · exact encField_lt _ _ _ x hx
              · exact ih _ _ _ hrest x hx
            · cases h

theorem pack_lt (l : Layout) (vs : List Int) (bs : Bytes) (h : l.pack vs = .ok bs) :
    ∀ x ∈ bs, x < 256 := packGo_lt l 0 l.fields vs bs h

/-- unpacking at offset `off` what was packed at offset `off` gives the values back, whatever
    precedes and follows -/
theorem unpackGo_packGo (l : Layout) (off : Nat) (fs : List Field) (vs : List Int) (bs pre suf : Bytes)
    (h : packGo l off fs vs = .ok bs) (hpre : pre.length = off) :
    unpackGo l off (pre ++ bs ++ suf) fs = vs := by
  induction fs generalizing off vs bs pre with
  | nil =>
      cases vs with
      | nil => rfl
      | cons v vs => simp [packGo] at h
  | cons f fs ih =>
      cases vs with
      | nil => simp [packGo] at h
      | cons v vs =>
          simp only [packGo] at h
          split at h
          · cases h
          · rename_i hrange
            split at h
            · rename_i rest hrest
              injection h with h; subst h
              simp only [unpackGo]
              have hdrop : List.drop (off + l.padBefore off f)
                  (pre ++ (List.replicate (l.padBefore off f) 0 ++ encField l.isBig f v ++ rest) ++ suf)
                  = encField l.isBig f v ++ (rest ++ suf) := by
                have : pre ++ (List.replicate (l.padBefore off f) 0 ++ encField l.isBig f v ++ rest) ++ suf
                    = (pre ++ List.replicate (l.padBefore off f) 0) ++ (encField l.isBig f v ++ (rest ++ suf)) := by
                  simp [List.append_assoc]
                rw [this, List.drop_left' (by simp [hpre])]
              rw [hdrop, List.take_left' (encField_length _ _ _)]
              rw [decField_encField _ _ _ (by omega) (by omega)]
              congr 1
              have := ih (off + l.padBefore off f + f.size) vs rest
                (pre ++ List.replicate (l.padBefore off f) 0 ++ encField l.isBig f v) hrest
                (by simp [hpre, encField_length]; omega)
              simpa [List.append_assoc] using this
            · cases h

/-- `unpack_from` after `pack`: the values come back, whatever follows the struct -/
theorem unpack_pack_append (l : Layout) (vs : List Int) (bs suf : Bytes) (h : l.pack vs = .ok bs) :
    l.unpack (bs ++ suf) = .ok vs := by
  have hlen := pack_length l vs bs h
  unfold Layout.unpack
  rw [if_neg (by simp; omega)]
  have := unpackGo_packGo l 0 l.fields vs bs [] suf h rfl
  simp only [List.nil_append] at this
  rw [this]

theorem unpack_pack (l : Layout) (vs : List Int) (bs : Bytes) (h : l.pack vs = .ok bs) :
    l.unpack bs = .ok vs := by
  simpa using unpack_pack_append l vs bs [] h

/-! ### slicing helpers -/

theorem drop_length_sub_append {α} (a b : List α) (n : Nat) (h : b.length = n) :
    (a ++ b).drop ((a ++ b).length - n) = b := by
  rw [List.length_append, h, Nat.add_sub_cancel]
  exact List.drop_left

theorem take_append_of_length {α} (a b : List α) (n : Nat) (h : a.length = n) :
    (a ++ b).take n = a := by
  subst h; exact List.take_left

theorem drop_append_of_length {α} (a b : List α) (n : Nat) (h : a.length = n) :
    (a ++ b).drop n = b := by
  subst h; exact List.drop_left

/-! ### typed arrays -/

theorem cellsBytes_length (f : Field) (a : List Int) : (cellsBytes f a).length = f.size * a.length := by
  induction a with
  | nil => simp [cellsBytes]
  | cons c cs ih =>
      simp only [cellsBytes, List.flatMap_cons, List.length_append, leBytesInt_length, List.length_cons] at ih ⊢
      rw [ih, Nat.mul_succ]; omega

theorem cellsBytes_lt (f : Field) (a : List Int) : ∀ x ∈ cellsBytes f a, x < 256 := by
  intro x hx
  simp only [cellsBytes, List.mem_flatMap] at hx
  obtain ⟨c, _, hx⟩ := hx
  exact leBytesInt_lt _ _ x hx

theorem decField_leBytesInt (f : Field) (v : Int) (hlo : f.lo ≤ v) (hhi : v ≤ f.hi) :
    decField false f (leBytesInt f.size v) = v := by
  have := decField_encField false f v hlo hhi
  simpa [encField] using this

/-- `array(typecode, bytes)` inverts `tofile`, whatever follows the cells -/
theorem bytesCells_cellsBytes_append (f : Field) (cells : List Int) (suf : Bytes)
    (h : ∀ c ∈ cells, f.lo ≤ c ∧ c ≤ f.hi) :
    bytesCells f cells.length (cellsBytes f cells ++ suf) = cells := by
  induction cells with
  | nil => simp [bytesCells, chunks]
  | cons c cs ih =>
      have hc := h c (by simp)
      have ih := ih (fun x hx => h x (by simp [hx]))
      simp only [bytesCells, cellsBytes, List.flatMap_cons, List.length_cons, chunks, List.map_cons,
        List.append_assoc] at ih ⊢
      rw [List.take_left' (leBytesInt_length _ _), List.drop_left' (leBytesInt_length _ _)]
      rw [decField_leBytesInt f c hc.1 hc.2, ih]

theorem bytesCells_cellsBytes (f : Field) (cells : List Int) (n : Nat) (hn : n = cells.length)
    (h : ∀ c ∈ cells, f.lo ≤ c ∧ c ≤ f.hi) :
    bytesCells f n (cellsBytes f cells) = cells := by
  subst hn
  simpa using bytesCells_cellsBytes_append f cells [] h

/-! ### hex -/

theorem hexVal_hexDigit (n : Nat) (h : n < 16) : hexVal (hexDigit n) = some n := by
  revert n; decide

theorem unhexlify_hexlify (bs : Bytes) (h : ∀ x ∈ bs, x < 256) : unhexlify (hexlify bs) = some bs := by
  induction bs with
  | nil => rfl
  | cons b bs ih =>
      have hb := h b (by simp)
      have ih := ih (fun x hx => h x (by simp [hx]))
      simp only [hexlify, List.flatMap_cons, List.cons_append, List.nil_append] at ih ⊢
      simp only [unhexlify, hexVal_hexDigit (b / 16) (by omega), hexVal_hexDigit (b % 16) (by omega), ih]
      congr 2; omega

theorem hexlify_length (bs : Bytes) : (hexlify bs).length = 2 * bs.length := by
  induction bs with
  | nil => rfl
  | cons b bs ih =>
      simp only [hexlify, List.flatMap_cons, List.length_append, List.length_cons, List.length_nil] at ih ⊢
      omega

theorem hexlify_append (a b : Bytes) : hexlify (a ++ b) = hexlify a ++ hexlify b := by
  simp [hexlify]

end PyProb
