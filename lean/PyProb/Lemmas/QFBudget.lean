/-
  The recursion budget of the quotient filter's `add_alt` / `resize` / `merge` never runs out.

  The model (`PyProb/Model/QF.lean`) gives the three mutually recursive functions `addAlt`, `addAll`,
  `resize` an explicit budget and reports `Err.diverged` when it is used up.  `C04_exact_set` speaks
  about histories in which no call raised.  This file closes the gap: on every canonical state
  (`C04.Inv`: the state is `layout q auto (pairs q H)` with `H` strictly sorted 32-bit hashes,
  `|H| < 2^q`, `3 ≤ q ≤ 31`) the three functions return normally or raise `QuotientFilterError`,
  they never report `diverged`, as soon as

    * `addAlt b s h`      : `|H| + 3 ≤ b`
    * `resize b s qn`     : `2·|H| + 3 ≤ b`
    * `addAll b s hs`     : `|H| + 2·|hs| + 2 ≤ b`

  (all three bounds are attained, see the tests at the end), and the budgets of the model,
  `budgetOf s = 4·count + 128` for `add`/`resize` and `budgetOf s + 4·|hs|` for `merge`, satisfy them.

  The reason: re-inserting `|H| < 2^q` hashes into a table with `2^(q+1)` slots never reaches the load
  factor 0.85 and never fills the table, so an automatic resize does not nest
  (`addAlt → resize → addAll → addAlt → _add`); a manual resize to a small table can trigger
  automatic ones during the re-insertion, which are of that non-nesting kind.  At `q = 31` the
  automatic resize raises `QuotientFilterError` (quotient 32 is refused) and `add` propagates it.

  Main theorems: `QF.addAlt_no_diverge`, `QF.resize_no_diverge`, `QF.merge_no_diverge` (explicit
  hypotheses on the canonical table), `QF.addAlt_budgetOf`, `QF.resize_budgetOf`;
  `QF.step_no_diverge` (every state reached from `QuotientFilter(q, auto)` by a history that did not
  raise — in the sense of `C04.run` — answers every further call, with the model's budget or any
  larger one, normally or with `QuotientFilterError`); `QF.runB_no_diverge` (a whole history run with
  the model's own per-call budgets never reports `diverged`).
-/
import PyProb.Properties.C04

namespace PyProb.QF
open PyProb PyProb.Spec PyProb.C04

/-- the call returned normally or raised `QuotientFilterError` — in particular it did not diverge -/
def Good (r : R QF) : Prop := (∃ t, r = .ok t) ∨ r = .error .qfError

theorem Good.ne_diverged {r : R QF} (h : Good r) : r ≠ .error .diverged := by
  rcases h with ⟨t, rfl⟩ | rfl <;> intro h <;> cases h

/-! ### canonical states -/

theorem inv_canon {auto : Bool} {s : QF} {a : Abs} (hI : Inv auto s a) :
    Canon a.q (pairs a.q a.H) := by
  refine ⟨hI.q3, hI.q31, pairs_sorted _ _ hI.sorted, ?_, ?_⟩
  · intro x hx
    simp only [pairs, List.mem_map] at hx
    obtain ⟨h, hh, rfl⟩ := hx
    exact ⟨dec_fst_lt _ _ (by have := hI.q31; omega) (hI.range h hh), dec_snd_lt _ _⟩
  · simp only [pairs, List.length_map]; exact hI.room

theorem inv_empty (auto : Bool) (q : Nat) (h3 : 3 ≤ q) (h31 : q ≤ 31) :
    Inv auto (QF.empty q auto) ⟨q, []⟩ :=
  ⟨h3, h31, by simp [SortedBy], by simp, by simp [Nat.two_pow_pos], by simp [pairs, layout_nil]⟩

theorem inv_count {auto : Bool} {s : QF} {a : Abs} (hI : Inv auto s a) :
    s.count = (a.H.length : Nat) := by
  rw [hI.eq]; simp [pairs]

theorem inv_overLoaded {auto : Bool} {s : QF} {a : Abs} (hI : Inv auto s a) :
    s.overLoaded = over a.q a.H.length := by
  rw [hI.eq]; simp only [pairs]
  show over a.q (a.H.map (dec a.q)).length = _
  rw [List.length_map]

theorem inv_budgetOf {auto : Bool} {s : QF} {a : Abs} (hI : Inv auto s a) :
    budgetOf s = 4 * a.H.length + 128 := by
  simp only [budgetOf, inv_count hI, Int.toNat_natCast]

theorem length_insertN_le (h : Nat) (H : List Nat) (hs : SortedN H) :
    (insertN h H).length ≤ H.length + 1 := by
  by_cases hm : h ∈ H
  · have : insertN h H = H := insertBy_of_mem ltN_total h H hs hm
    rw [this]; omega
  · have : (insertN h H).length = H.length + 1 := length_insertBy_of_not_mem h H hm
    omega

/-- a half-full table is not over-loaded: `c < 2^q` elements in `2^(q+1)` slots -/
theorem over_false_of_half (q c : Nat) (hc : c < 2 ^ q) : over (q + 1) c = false := by
  have hp : 2 ^ (q + 1) = 2 * 2 ^ q := by rw [Nat.pow_succ]; omega
  simp only [over, Gen.qfResizeCmp, Cmp.evalInt, Gen.qfMaxLoadDen, Gen.qfMaxLoadNum, hp,
    decide_eq_false_iff_not]
  omega

/-! ### look-up and insertion (`add_alt` after the resize test) on a canonical table -/

/-- the tail of `add_alt` on a canonical table: it succeeds with the canonical table of the larger
    set, or it is refused because the hash is new and only one slot is left — it never diverges -/
theorem addTail_spec {auto : Bool} {s : QF} {a : Abs} (hI : Inv auto s a) {h : Nat}
    (hh : h < 2 ^ 32) :
    (∃ t, addTail s h = .ok t ∧ Inv auto t ⟨a.q, insertN h a.H⟩) ∨
    (addTail s h = .error .qfError ∧ h ∉ a.H ∧ 2 ^ a.q ≤ a.H.length + 1) := by
  have hC := inv_canon hI
  have hq32 : a.q ≤ 32 := by have := hI.q31; omega
  have hR : InRange a.q (dec a.q h) := ⟨dec_fst_lt a.q h hq32 hh, dec_snd_lt a.q h⟩
  obtain ⟨o, ho, hiff⟩ := C04_contained a.q auto _ (dec a.q h) hC hR
  rw [mem_pairs] at hiff
  have hs := hI.eq
  subst hs
  have e1 : (layout a.q auto (pairs a.q a.H)).quotOf h = (dec a.q h).1 := rfl
  have e2 : (layout a.q auto (pairs a.q a.H)).remOf h = (dec a.q h).2 := rfl
  cases o with
  | some idx =>
      left
      have hm : h ∈ a.H := hiff.1 rfl
      have hins : insertN h a.H = a.H := insertBy_of_mem ltN_total h a.H hI.sorted hm
      refine ⟨layout a.q auto (pairs a.q a.H), ?_, ?_⟩
      · simp only [addTail, e1, e2, ho]
      · rw [hins]; exact ⟨hI.q3, hI.q31, hI.sorted, hI.range, hI.room, rfl⟩
  | none =>
      have hnm : h ∉ a.H := by
        intro hm; have := hiff.2 hm; simp at this
      have hnp : dec a.q h ∉ pairs a.q a.H := fun hm => hnm ((mem_pairs a.q h a.H).1 hm)
      by_cases hfull : 2 ^ a.q ≤ a.H.length + 1
      · right
        refine ⟨?_, hnm, hfull⟩
        simp only [addTail, e1, e2, ho]
        apply (C04_add_refused_iff _ _ _).2
        simp only [layout_count, layout_size, pairs, List.length_map]
        omega
      · left
        have hroom : (pairs a.q a.H).length + 1 < 2 ^ a.q := by
          simp only [pairs, List.length_map]; omega
        have hlen : (insertN h a.H).length = a.H.length + 1 := length_insertBy_of_not_mem h a.H hnm
        refine ⟨layout a.q auto (insert (dec a.q h) (pairs a.q a.H)), ?_, ?_⟩
        · simp only [addTail, e1, e2, ho]
          exact C04_B1_add a.q auto _ _ hC hR hroom hnp
        · refine ⟨hI.q3, hI.q31, sorted_insertBy ltN_total h a.H hI.sorted, ?_, ?_, ?_⟩
          · intro x hx
            rcases (mem_insertBy h x a.H).1 hx with e | hx
            · rw [e]; exact hh
            · exact hI.range x hx
          · show (insertN h a.H).length < 2 ^ a.q
            rw [hlen]; omega
          · simp only [pairs_insertN]

theorem addTail_inv {auto : Bool} {s : QF} {a : Abs} (hI : Inv auto s a) {h : Nat}
    (hh : h < 2 ^ 32) {t : QF} (ht : addTail s h = .ok t) : Inv auto t ⟨a.q, insertN h a.H⟩ := by
  rcases addTail_spec hI hh with ⟨t', ht', hI'⟩ | ⟨he, _⟩
  · rw [ht] at ht'; cases ht'; exact hI'
  · rw [ht] at he; cases he

/-! ### the set of hashes after a re-insertion -/

theorem mem_foldl_insertN (l : List Nat) (H : List Nat) (x : Nat) :
    x ∈ l.foldl (fun H h => insertN h H) H ↔ x ∈ l ∨ x ∈ H := by
  induction l generalizing H with
  | nil => simp
  | cons h l ih =>
      rw [List.foldl_cons, ih, insertN, mem_insertBy, List.mem_cons]
      constructor
      · rintro (h1 | h1 | h1) <;> simp [h1]
      · rintro ((h1 | h1) | h1) <;> simp [h1]

theorem sorted_foldl_insertN (l : List Nat) (H : List Nat) (hH : SortedN H) :
    SortedN (l.foldl (fun H h => insertN h H) H) := by
  induction l generalizing H with
  | nil => exact hH
  | cons h l ih => rw [List.foldl_cons]; exact ih _ (sorted_insertBy ltN_total h H hH)

theorem foldl_absAdd_H (auto : Bool) (l : List Nat) (a : Abs) :
    (l.foldl (absAdd auto) a).H = l.foldl (fun H h => insertN h H) a.H := by
  induction l generalizing a with
  | nil => rfl
  | cons h l ih => rw [List.foldl_cons, List.foldl_cons, ih]; rfl

theorem qIter_const (auto : Bool) (q c k : Nat) (h : ∀ i, i < k → over q (c + i) = false) :
    qIter auto q c k = q := by
  induction k generalizing c with
  | zero => rfl
  | succ k ih =>
      have h0 := h 0 (by omega)
      simp only [Nat.add_zero] at h0
      simp only [qIter, h0, Bool.and_false, Bool.false_eq_true, if_false]
      apply ih
      intro i hi
      have := h (i + 1) (by omega)
      rwa [show c + (i + 1) = c + 1 + i by omega] at this

theorem foldl_absAdd_fresh (auto : Bool) (l : List Nat) (a : Abs) (hnd : l.Nodup)
    (hfresh : ∀ h ∈ l, h ∉ a.H) :
    l.foldl (absAdd auto) a =
      ⟨qIter auto a.q a.H.length l.length, l.foldl (fun H h => insertN h H) a.H⟩ := by
  induction l generalizing a with
  | nil => rfl
  | cons h l ih =>
      rw [List.nodup_cons] at hnd
      have hh : h ∉ a.H := hfresh h (by simp)
      rw [List.foldl_cons, ih _ hnd.2]
      · have hlen : (insertN h a.H).length = a.H.length + 1 := length_insertBy_of_not_mem h a.H hh
        simp only [absAdd, hlen, List.length_cons, qIter, List.foldl_cons]
      · intro x hx hm
        rcases (mem_insertBy h x a.H).1 hm with e | hm
        · subst e; exact hnd.1 hx
        · exact hfresh x (List.mem_cons_of_mem _ hx) hm

/-- re-inserting a permutation of a set into the empty table gives that set -/
theorem foldl_insertN_perm (l H : List Nat) (hH : SortedN H) (hp : l.Perm H) :
    l.foldl (fun H h => insertN h H) [] = H := by
  apply sorted_ext ltN_total (sorted_foldl_insertN l [] (by simp [SortedBy])) hH
  intro x
  rw [mem_foldl_insertN, hp.mem_iff]; simp

theorem foldl_absAdd_perm (auto : Bool) (l H : List Nat) (q : Nat) (hH : SortedN H)
    (hp : l.Perm H) :
    l.foldl (absAdd auto) ⟨q, []⟩ = ⟨qIter auto q 0 H.length, H⟩ := by
  have hnd : l.Nodup := hp.nodup_iff.2 (sorted_nodup ltN_total hH)
  rw [foldl_absAdd_fresh auto l ⟨q, []⟩ hnd (by simp)]
  simp only [List.length_nil, hp.length_eq]
  congr 1
  exact foldl_insertN_perm l H hH hp

/-! ### `resize` on a canonical table: the tests, the iteration, then the re-insertion -/

/-- `resize(quotient)` on a canonical table either refuses (`QuotientFilterError`: quotient outside
    3..31 or too small for the elements) or is the re-insertion of a listing of the set into the
    empty table of the new size -/
theorem resize_cases {auto : Bool} {s : QF} {a : Abs} (hI : Inv auto s a) (b : Nat)
    (qn : Option Int) :
    (QF.resize (b + 1) s qn = .error .qfError ∧
      ¬ (3 ≤ qn.getD ((a.q : Int) + 1) ∧ qn.getD ((a.q : Int) + 1) ≤ 31 ∧
          a.H.length < 2 ^ (qn.getD ((a.q : Int) + 1)).toNat)) ∨
    (∃ (q' : Nat) (l : List Nat), qn.getD ((a.q : Int) + 1) = (q' : Int) ∧ 3 ≤ q' ∧ q' ≤ 31 ∧
      a.H.length < 2 ^ q' ∧ l.Perm a.H ∧
      QF.resize (b + 1) s qn =
        match addAll b (QF.empty q' auto) l with
        | (s', none) => .ok s'
        | (_, some e) => .error e) := by
  have hsq : s.q = a.q := by rw [hI.eq]; rfl
  have hauto : s.auto = auto := by rw [hI.eq]; rfl
  have hcnt := inv_count hI
  obtain ⟨l, hl, hp⟩ := C04_hashes a.q auto _ (inv_canon hI)
  rw [map_enc_pairs] at hp
  have hl' : s.getHashes = .ok l := by rw [hI.eq]; exact hl
  rw [QF.resize, hsq, hauto, hcnt, hl']
  generalize qn.getD ((a.q : Int) + 1) = qn'
  have hpow : ((2 ^ qn'.toNat : Nat) : Int) = (2 : Int) ^ qn'.toNat := by
    rw [Int.natCast_pow]; rfl
  simp only []
  by_cases h1 : qn' ≥ 0 ∧ ((a.H.length : Nat) : Int) ≥ 2 ^ qn'.toNat
  · left
    rw [if_pos h1]
    refine ⟨rfl, ?_⟩
    rintro ⟨_, _, hlt⟩
    omega
  · rw [if_neg h1]
    by_cases h2 : qn' < 3 ∨ qn' > 31
    · left
      rw [if_pos h2]
      refine ⟨rfl, ?_⟩
      rintro ⟨_, _, _⟩
      omega
    · right
      rw [if_neg h2]
      refine ⟨qn'.toNat, l, by omega, by omega, by omega, by omega, hp, rfl⟩

/-! ### success keeps the state canonical (any budget) -/

/-- the three mutually recursive write entries preserve the refinement invariant whenever they
    return normally (whatever the budget) — `C04`'s `budget_inv` with the refinement facts filled in -/
theorem write_inv (auto : Bool) (b : Nat) :
    (∀ s a h t, Inv auto s a → h < 2 ^ 32 → addAlt b s h = .ok t → Inv auto t (absAdd auto a h)) ∧
    (∀ hs s a t, Inv auto s a → (∀ h ∈ hs, h < 2 ^ 32) → addAll b s hs = (t, none) →
      Inv auto t (hs.foldl (absAdd auto) a)) ∧
    (∀ s a qn t, Inv auto s a → QF.resize b s qn = .ok t →
      Inv auto t (absStep auto a (.resize qn))) := by
  induction b with
  | zero =>
      refine ⟨?_, ?_, ?_⟩
      · intro s a h t _ _ ht; rw [addAlt] at ht; cases ht
      · intro hs s a t _ _ ht; rw [addAll] at ht; cases ht
      · intro s a qn t _ ht; rw [QF.resize] at ht; cases ht
  | succ b ih =>
      obtain ⟨ihA, ihL, ihR⟩ := ih
      refine ⟨?_, ?_, ?_⟩
      · intro s a h t hI hh ht
        rw [addAlt_succ] at ht
        have hauto : s.auto = auto := by rw [hI.eq]; rfl
        rw [hauto, inv_overLoaded hI] at ht
        by_cases hc : (auto && over a.q a.H.length) = true
        · rw [if_pos hc] at ht
          cases hr : QF.resize b s none with
          | error e => rw [hr] at ht; cases ht
          | ok s1 =>
              rw [hr] at ht
              have hI1 := ihR s a none s1 hI hr
              have hq : qIter auto (a.q + 1) 0 a.H.length = a.q + 1 := by
                apply qIter_const
                intro i hi
                rw [Nat.zero_add]
                exact over_false_of_half a.q i (by have := hI.room; omega)
              have hI1' : Inv auto s1 ⟨a.q + 1, a.H⟩ := by
                have e : absStep auto a (.resize none) = ⟨a.q + 1, a.H⟩ := by
                  simp only [absStep, Option.getD_none]
                  rw [show ((a.q : Int) + 1).toNat = a.q + 1 by omega, hq]
                rw [e] at hI1; exact hI1
              have := addTail_inv hI1' hh ht
              simp only [absAdd, hc, if_true]
              exact this
        · rw [if_neg hc] at ht
          have := addTail_inv hI hh ht
          simp only [absAdd, hc]
          exact this
      · intro hs
        induction hs with
        | nil =>
            intro s a t hI _ ht
            rw [addAll] at ht
            cases ht; exact hI
        | cons h hs ihl =>
            intro s a t hI hr ht
            rw [addAll] at ht
            cases ha : addAlt b s h with
            | error e => rw [ha] at ht; cases ht
            | ok s' =>
                rw [ha] at ht
                have hI' := ihA s a h s' hI (hr h (by simp)) ha
                rw [List.foldl_cons]
                exact ihL hs s' _ t hI' (fun x hx => hr x (List.mem_cons_of_mem _ hx)) ht
      · intro s a qn t hI ht
        rcases resize_cases hI b qn with ⟨he, _⟩ | ⟨q', l, hq', h3, h31, hlt, hp, he⟩
        · rw [he] at ht; cases ht
        · rw [he] at ht
          have hIe : Inv auto (QF.empty q' auto) ⟨q', []⟩ := inv_empty auto _ h3 h31
          cases hr : addAll b (QF.empty q' auto) l with
          | mk t' oe =>
              rw [hr] at ht
              cases oe with
              | some e => cases ht
              | none =>
                  cases ht
                  have := ihL l _ _ _ hIe (fun x hx => hI.range x (hp.mem_iff.1 hx)) hr
                  rw [foldl_absAdd_perm auto l a.H _ hI.sorted hp] at this
                  simp only [absStep, hq', Int.toNat_natCast]
                  exact this

/-- every public operation that returns normally keeps the state canonical (any budget) -/
theorem step_inv (auto : Bool) (b : Nat) (s : QF) (a : Abs) (op : Op) (t : QF) (hI : Inv auto s a)
    (hr : op.InRange) (ht : step b s op = .ok t) : Inv auto t (absStep auto a op) := by
  obtain ⟨hadd, hall, hres⟩ := write_inv auto b
  cases op with
  | add h => exact hadd s a h t hI hr ht
  | resize qn => exact hres s a qn t hI ht
  | merge hs =>
      simp only [step] at ht
      cases hm : addAll b s hs with
      | mk t' oe =>
          rw [hm] at ht
          cases oe with
          | some e => cases ht
          | none => cases ht; exact hall hs s a _ hI hr hm
  | remove h =>
      have hC := inv_canon hI
      have hq32 : a.q ≤ 32 := by have := hI.q31; omega
      have hR : InRange a.q (dec a.q h) := ⟨dec_fst_lt a.q h hq32 hr, dec_snd_lt a.q h⟩
      simp only [step, removeAlt] at ht
      have hs := hI.eq
      subst hs
      have e1 : (layout a.q auto (pairs a.q a.H)).quotOf h = (dec a.q h).1 := rfl
      have e2 : (layout a.q auto (pairs a.q a.H)).remOf h = (dec a.q h).2 := rfl
      rw [e1, e2] at ht
      by_cases hm : h ∈ a.H
      · rw [C04_B2_remove a.q auto _ _ hC ((mem_pairs a.q h a.H).2 hm)] at ht
        cases ht
        refine ⟨hI.q3, hI.q31, sorted_erase hI.sorted h, ?_, ?_, ?_⟩
        · intro x hx; exact hI.range x (List.mem_of_mem_erase hx)
        · have := hI.room
          have := length_erase_of_mem hm
          simp only [absStep, eraseN]; omega
        · simp only [absStep, eraseN, pairs_erase]
      · obtain ⟨o, ho, hiff⟩ := C04_contained a.q auto _ (dec a.q h) hC hR
        cases o with
        | some idx => exact absurd ((mem_pairs a.q h a.H).1 (hiff.1 rfl)) hm
        | none =>
            rw [C04_remove_absent _ _ _ ho] at ht
            cases ht
            have : eraseN h a.H = a.H := List.erase_of_not_mem hm
            simp only [absStep, this]
            exact hI

/-! ### the budget suffices -/

/-- re-insertion into a table that stays at most half full: no automatic resize, no refusal; one
    budget unit per hash and one for the end of the list suffice -/
theorem addAll_half (auto : Bool) : ∀ (hs : List Nat) (b : Nat) (s : QF) (a : Abs) (q' : Nat),
    Inv auto s a → a.q = q' + 1 → (∀ h ∈ hs, h < 2 ^ 32) → a.H.length + hs.length ≤ 2 ^ q' →
    hs.length + 1 ≤ b →
    ∃ t, addAll b s hs = (t, none) ∧
      Inv auto t ⟨a.q, hs.foldl (fun H h => insertN h H) a.H⟩ := by
  intro hs
  induction hs with
  | nil =>
      intro b s a q' hI _ _ _ hb
      obtain ⟨b, rfl⟩ : ∃ b', b = b' + 1 := ⟨b - 1, by omega⟩
      exact ⟨s, by rw [addAll], hI⟩
  | cons h hs ih =>
      intro b s a q' hI hq hr hlen hb
      simp only [List.length_cons] at hlen hb
      obtain ⟨b, rfl⟩ : ∃ b', b = b' + 2 := ⟨b - 2, by omega⟩
      have hno : (s.auto && s.overLoaded) = false := by
        rw [inv_overLoaded hI, hq, over_false_of_half q' _ (by omega)]; simp
      have hp : 2 ^ (q' + 1) = 2 * 2 ^ q' := by rw [Nat.pow_succ]; omega
      rcases addTail_spec hI (hr h (by simp)) with ⟨t, ht, hIt⟩ | ⟨_, _, hfull⟩
      · have hl := length_insertN_le h a.H hI.sorted
        obtain ⟨t', ht', hIt'⟩ := ih (b + 1) t ⟨a.q, insertN h a.H⟩ q' hIt hq
          (fun x hx => hr x (List.mem_cons_of_mem _ hx))
          (by show (insertN h a.H).length + hs.length ≤ 2 ^ q'; omega) (by omega)
        refine ⟨t', ?_, ?_⟩
        · rw [addAll, addAlt_noresize b s h hno, ht]; exact ht'
        · rw [List.foldl_cons]; exact hIt'
      · rw [hq, hp] at hfull; omega

/-- the automatic resize (`resize()` with no argument) of a canonical table needs one budget unit
    per stored hash and two more: it yields the canonical table of the same set in the table twice as
    large, or raises `QuotientFilterError` when the table already has `2^31` slots -/
theorem resize_none_spec {auto : Bool} {s : QF} {a : Abs} (hI : Inv auto s a) (b : Nat)
    (hb : a.H.length + 2 ≤ b) :
    (a.q < 31 ∧ ∃ t, QF.resize b s none = .ok t ∧ Inv auto t ⟨a.q + 1, a.H⟩) ∨
    (a.q = 31 ∧ QF.resize b s none = .error .qfError) := by
  obtain ⟨b, rfl⟩ : ∃ b', b = b' + 1 := ⟨b - 1, by omega⟩
  have hroom := hI.room
  have hp : 2 ^ (a.q + 1) = 2 * 2 ^ a.q := by rw [Nat.pow_succ]; omega
  have h31 := hI.q31
  have h3 := hI.q3
  rcases resize_cases hI b none with ⟨he, hn⟩ | ⟨q', l, hq', _, h31', _, hp', he⟩
  · right
    refine ⟨?_, he⟩
    simp only [Option.getD_none] at hn
    rw [show ((a.q : Int) + 1).toNat = a.q + 1 by omega] at hn
    by_cases h : a.q = 31
    · exact h
    · exact absurd ⟨by omega, by omega, by omega⟩ hn
  · left
    simp only [Option.getD_none] at hq'
    have hq : q' = a.q + 1 := by omega
    subst hq
    refine ⟨by omega, ?_⟩
    have hIe : Inv auto (QF.empty (a.q + 1) auto) ⟨a.q + 1, []⟩ := inv_empty auto _ (by omega) h31'
    obtain ⟨t, ht, hIt⟩ := addAll_half auto l b _ _ a.q hIe rfl
      (fun x hx => hI.range x (hp'.mem_iff.1 hx))
      (by simp only [List.length_nil, hp'.length_eq]; omega)
      (by rw [hp'.length_eq]; omega)
    refine ⟨t, ?_, ?_⟩
    · rw [he, ht]
    · have e : l.foldl (fun H h => insertN h H) [] = a.H := foldl_insertN_perm l a.H hI.sorted hp'
      simp only [e] at hIt
      exact hIt

/-- **`add_alt` never diverges** on a canonical table when given three budget units more than the
    table holds hashes, and its outcome is: with an automatic resize pending — `QuotientFilterError`
    when the table already has `2^31` slots, otherwise success in the doubled table; without —
    `QuotientFilterError` exactly for a new hash into a table with one free slot, otherwise success -/
theorem addAlt_outcome {auto : Bool} {s : QF} {a : Abs} (hI : Inv auto s a) {h : Nat}
    (hh : h < 2 ^ 32) {b : Nat} (hb : a.H.length + 3 ≤ b) :
    (∃ t, addAlt b s h = .ok t ∧ Inv auto t (absAdd auto a h)) ∨
    (addAlt b s h = .error .qfError ∧
      (((auto && over a.q a.H.length) = true ∧ a.q = 31) ∨
       ((auto && over a.q a.H.length) = false ∧ h ∉ a.H ∧ 2 ^ a.q ≤ a.H.length + 1))) := by
  obtain ⟨b, rfl⟩ : ∃ b', b = b' + 1 := ⟨b - 1, by omega⟩
  rw [addAlt_succ]
  have hauto : s.auto = auto := by rw [hI.eq]; rfl
  rw [hauto, inv_overLoaded hI]
  by_cases hc : (auto && over a.q a.H.length) = true
  · rw [if_pos hc]
    rcases resize_none_spec hI b (by omega) with ⟨_, t, ht, hIt⟩ | ⟨hq, he⟩
    · rw [ht]
      left
      rcases addTail_spec hIt hh with ⟨t', ht', hIt'⟩ | ⟨_, _, hfull⟩
      · refine ⟨t', ht', ?_⟩
        simp only [absAdd, hc, if_true]
        exact hIt'
      · have hp : 2 ^ (a.q + 1) = 2 * 2 ^ a.q := by rw [Nat.pow_succ]; omega
        have := hI.room
        simp only [hp] at hfull
        omega
    · rw [he]; exact Or.inr ⟨rfl, Or.inl ⟨hc, hq⟩⟩
  · rw [if_neg hc]
    rcases addTail_spec hI hh with ⟨t', ht', hIt'⟩ | ⟨he, hnm, hfull⟩
    · left
      refine ⟨t', ht', ?_⟩
      simp only [absAdd, hc]
      exact hIt'
    · exact Or.inr ⟨he, Or.inr ⟨by simpa using hc, hnm, hfull⟩⟩

theorem addAlt_spec {auto : Bool} {s : QF} {a : Abs} (hI : Inv auto s a) {h : Nat}
    (hh : h < 2 ^ 32) {b : Nat} (hb : a.H.length + 3 ≤ b) : Good (addAlt b s h) := by
  rcases addAlt_outcome hI hh hb with ⟨t, ht, _⟩ | ⟨he, _⟩
  · exact Or.inl ⟨t, ht⟩
  · exact Or.inr he

/-- the outcome of a list insertion: completed, or stopped by a `QuotientFilterError` -/
def GoodAll (r : QF × Option Err) : Prop := r.2 = none ∨ r.2 = some .qfError

/-- **the list insertion (`merge`, and the re-insertion of `resize`) never diverges** on a canonical
    table with budget `|H| + 2·|hs| + 2` -/
theorem addAll_spec (auto : Bool) : ∀ (hs : List Nat) (b : Nat) (s : QF) (a : Abs),
    Inv auto s a → (∀ h ∈ hs, h < 2 ^ 32) → a.H.length + 2 * hs.length + 2 ≤ b →
    GoodAll (addAll b s hs) := by
  intro hs
  induction hs with
  | nil =>
      intro b s a _ _ hb
      obtain ⟨b, rfl⟩ : ∃ b', b = b' + 1 := ⟨b - 1, by omega⟩
      rw [addAll]; exact Or.inl rfl
  | cons h hs ih =>
      intro b s a hI hr hb
      simp only [List.length_cons] at hb
      obtain ⟨b, rfl⟩ : ∃ b', b = b' + 1 := ⟨b - 1, by omega⟩
      have hh := hr h (by simp)
      rw [addAll]
      rcases addAlt_spec hI hh (b := b) (by omega) with ⟨t, ht⟩ | he
      · rw [ht]
        have hIt := (write_inv auto b).1 s a h t hI hh ht
        have hl : (absAdd auto a h).H.length ≤ a.H.length + 1 := length_insertN_le h a.H hI.sorted
        exact ih b t _ hIt (fun x hx => hr x (List.mem_cons_of_mem _ hx)) (by omega)
      · rw [he]; exact Or.inr rfl

/-- **`resize` never diverges** on a canonical table with budget `2·|H| + 3`: it returns normally or
    raises `QuotientFilterError` -/
theorem resize_spec {auto : Bool} {s : QF} {a : Abs} (hI : Inv auto s a) (qn : Option Int) {b : Nat}
    (hb : 2 * a.H.length + 3 ≤ b) : Good (QF.resize b s qn) := by
  obtain ⟨b, rfl⟩ : ∃ b', b = b' + 1 := ⟨b - 1, by omega⟩
  rcases resize_cases hI b qn with ⟨he, _⟩ | ⟨q', l, _, h3, h31, _, hp, he⟩
  · exact Or.inr he
  · rw [he]
    have hIe : Inv auto (QF.empty q' auto) ⟨q', []⟩ := inv_empty auto _ h3 h31
    have := addAll_spec auto l b _ _ hIe (fun x hx => hI.range x (hp.mem_iff.1 hx))
      (by simp only [List.length_nil, hp.length_eq]; omega)
    cases hr : addAll b (QF.empty q' auto) l with
    | mk t oe =>
        rw [hr] at this
        rcases this with h | h
        · simp only at h; subst h; exact Or.inl ⟨t, rfl⟩
        · simp only at h; subst h; exact Or.inr rfl

/-- `remove` on a canonical table returns normally -/
theorem removeAlt_ok {auto : Bool} {s : QF} {a : Abs} (hI : Inv auto s a) {h : Nat}
    (hh : h < 2 ^ 32) : ∃ t, removeAlt s h = .ok t := by
  have hC := inv_canon hI
  have hq32 : a.q ≤ 32 := by have := hI.q31; omega
  have hR : InRange a.q (dec a.q h) := ⟨dec_fst_lt a.q h hq32 hh, dec_snd_lt a.q h⟩
  simp only [removeAlt]
  rw [hI.eq]
  have e1 : (layout a.q auto (pairs a.q a.H)).quotOf h = (dec a.q h).1 := rfl
  have e2 : (layout a.q auto (pairs a.q a.H)).remOf h = (dec a.q h).2 := rfl
  rw [e1, e2]
  by_cases hm : h ∈ a.H
  · exact ⟨_, C04_B2_remove a.q auto _ _ hC ((mem_pairs a.q h a.H).2 hm)⟩
  · obtain ⟨o, ho, hiff⟩ := C04_contained a.q auto _ (dec a.q h) hC hR
    cases o with
    | some idx => exact absurd ((mem_pairs a.q h a.H).1 (hiff.1 rfl)) hm
    | none => exact ⟨_, C04_remove_absent _ _ _ ho⟩

/-! ### the model's own budgets -/

/-- `budgetOf` suffices for `add_alt` -/
theorem addAlt_budgetOf {auto : Bool} {s : QF} {a : Abs} (hI : Inv auto s a) {h : Nat}
    (hh : h < 2 ^ 32) {b : Nat} (hb : budgetOf s ≤ b) : Good (addAlt b s h) :=
  addAlt_spec hI hh (by rw [inv_budgetOf hI] at hb; omega)

/-- `budgetOf` suffices for `resize` -/
theorem resize_budgetOf {auto : Bool} {s : QF} {a : Abs} (hI : Inv auto s a) (qn : Option Int)
    {b : Nat} (hb : budgetOf s ≤ b) : Good (QF.resize b s qn) :=
  resize_spec hI qn (by rw [inv_budgetOf hI] at hb; omega)

/-- `budgetOf s + 4·|hs|` suffices for `merge` -/
theorem addAll_budgetOf {auto : Bool} {s : QF} {a : Abs} (hI : Inv auto s a) {hs : List Nat}
    (hr : ∀ h ∈ hs, h < 2 ^ 32) {b : Nat} (hb : budgetOf s + 4 * hs.length ≤ b) :
    GoodAll (addAll b s hs) :=
  addAll_spec auto hs b s a hI hr (by rw [inv_budgetOf hI] at hb; omega)

/-! ### the statements on the canonical table, with explicit hypotheses -/

/-- **(a)** `add_alt` on the canonical table of a set `H` of 32-bit hashes (`|H| < 2^q`,
    `3 ≤ q ≤ 31`), auto-resize on or off, with budget at least `|H| + 3`: it returns normally or raises
    `QuotientFilterError`; it does not diverge -/
theorem addAlt_no_diverge (q : Nat) (auto : Bool) (H : List Nat) (h b : Nat) (h3 : 3 ≤ q)
    (h31 : q ≤ 31) (hs : SortedN H) (hr : ∀ x ∈ H, x < 2 ^ 32) (hl : H.length < 2 ^ q)
    (hh : h < 2 ^ 32) (hb : H.length + 3 ≤ b) :
    ((∃ t, addAlt b (layout q auto (pairs q H)) h = .ok t) ∨
      addAlt b (layout q auto (pairs q H)) h = .error .qfError) ∧
    addAlt b (layout q auto (pairs q H)) h ≠ .error .diverged := by
  have hI : Inv auto (layout q auto (pairs q H)) ⟨q, H⟩ := ⟨h3, h31, hs, hr, hl, rfl⟩
  have := addAlt_spec hI hh hb
  exact ⟨this, this.ne_diverged⟩

/-- … in particular with the model's budget `budgetOf s = 4·count + 128` -/
theorem addAlt_no_diverge_budgetOf (q : Nat) (auto : Bool) (H : List Nat) (h : Nat) (h3 : 3 ≤ q)
    (h31 : q ≤ 31) (hs : SortedN H) (hr : ∀ x ∈ H, x < 2 ^ 32) (hl : H.length < 2 ^ q)
    (hh : h < 2 ^ 32) :
    addAlt (budgetOf (layout q auto (pairs q H))) (layout q auto (pairs q H)) h ≠
      .error .diverged := by
  have hI : Inv auto (layout q auto (pairs q H)) ⟨q, H⟩ := ⟨h3, h31, hs, hr, hl, rfl⟩
  exact (addAlt_budgetOf hI hh (Nat.le_refl _)).ne_diverged

/-- **(b)** `resize(quotient)` (any argument, also none = double) on the canonical table with budget
    at least `2·|H| + 3`: it returns normally or raises `QuotientFilterError` -/
theorem resize_no_diverge (q : Nat) (auto : Bool) (H : List Nat) (qn : Option Int) (b : Nat)
    (h3 : 3 ≤ q) (h31 : q ≤ 31) (hs : SortedN H) (hr : ∀ x ∈ H, x < 2 ^ 32)
    (hl : H.length < 2 ^ q) (hb : 2 * H.length + 3 ≤ b) :
    ((∃ t, QF.resize b (layout q auto (pairs q H)) qn = .ok t) ∨
      QF.resize b (layout q auto (pairs q H)) qn = .error .qfError) ∧
    QF.resize b (layout q auto (pairs q H)) qn ≠ .error .diverged := by
  have hI : Inv auto (layout q auto (pairs q H)) ⟨q, H⟩ := ⟨h3, h31, hs, hr, hl, rfl⟩
  have := resize_spec hI qn hb
  exact ⟨this, this.ne_diverged⟩

theorem resize_no_diverge_budgetOf (q : Nat) (auto : Bool) (H : List Nat) (qn : Option Int)
    (h3 : 3 ≤ q) (h31 : q ≤ 31) (hs : SortedN H) (hr : ∀ x ∈ H, x < 2 ^ 32)
    (hl : H.length < 2 ^ q) :
    QF.resize (budgetOf (layout q auto (pairs q H))) (layout q auto (pairs q H)) qn ≠
      .error .diverged := by
  have hI : Inv auto (layout q auto (pairs q H)) ⟨q, H⟩ := ⟨h3, h31, hs, hr, hl, rfl⟩
  exact (resize_budgetOf hI qn (Nat.le_refl _)).ne_diverged

/-- **(c)** `merge` (the model's `QF.merge`, budget `budgetOf s + 4·|hs|`) of any list of 32-bit
    hashes into the canonical table: it completes or stops with `QuotientFilterError`; it never
    reports `diverged` -/
theorem merge_no_diverge (q : Nat) (auto : Bool) (H : List Nat) (hs : List Nat)
    (h3 : 3 ≤ q) (h31 : q ≤ 31) (hsH : SortedN H) (hr : ∀ x ∈ H, x < 2 ^ 32)
    (hl : H.length < 2 ^ q) (hhs : ∀ h ∈ hs, h < 2 ^ 32) :
    ((QF.merge (layout q auto (pairs q H)) hs).2 = none ∨
      (QF.merge (layout q auto (pairs q H)) hs).2 = some .qfError) ∧
    (QF.merge (layout q auto (pairs q H)) hs).2 ≠ some .diverged := by
  have hI : Inv auto (layout q auto (pairs q H)) ⟨q, H⟩ := ⟨h3, h31, hsH, hr, hl, rfl⟩
  have := addAll_budgetOf hI hhs (Nat.le_refl _)
  refine ⟨this, ?_⟩
  unfold QF.merge
  rcases this with h | h <;> rw [h] <;> intro h' <;> cases h'

/-- the explicit bound for the list insertion -/
theorem addAll_no_diverge (q : Nat) (auto : Bool) (H : List Nat) (hs : List Nat) (b : Nat)
    (h3 : 3 ≤ q) (h31 : q ≤ 31) (hsH : SortedN H) (hr : ∀ x ∈ H, x < 2 ^ 32)
    (hl : H.length < 2 ^ q) (hhs : ∀ h ∈ hs, h < 2 ^ 32) (hb : H.length + 2 * hs.length + 2 ≤ b) :
    (addAll b (layout q auto (pairs q H)) hs).2 = none ∨
      (addAll b (layout q auto (pairs q H)) hs).2 = some .qfError :=
  addAll_spec auto hs b _ ⟨q, H⟩ ⟨h3, h31, hsH, hr, hl, rfl⟩ hhs hb

/-! ### histories -/

/-- the budget the model gives a call: `budgetOf s`, and `budgetOf s + 4·|hs|` for `merge` -/
def opBudget (s : QF) : Op → Nat
  | .merge hs => budgetOf s + 4 * hs.length
  | _ => budgetOf s

/-- on a canonical state every public call, given the model's budget or more, returns normally or
    raises `QuotientFilterError` -/
theorem step_good {auto : Bool} {s : QF} {a : Abs} (hI : Inv auto s a) (op : Op)
    (hop : op.InRange) (b : Nat) (hb : opBudget s op ≤ b) : Good (step b s op) := by
  cases op with
  | add h => exact addAlt_budgetOf hI hop hb
  | remove h => exact Or.inl (removeAlt_ok hI hop)
  | resize qn => exact resize_budgetOf hI qn hb
  | merge hs =>
      have := addAll_budgetOf hI hop hb
      simp only [step]
      cases hr : addAll b s hs with
      | mk t oe =>
          rw [hr] at this
          rcases this with h | h
          · simp only at h; subst h; exact Or.inl ⟨t, rfl⟩
          · simp only at h; subst h; exact Or.inr rfl

/-- **no call diverges on a reachable state**: after any history of `add | remove | resize | merge`
    calls on 32-bit hashes from `QuotientFilter(q, auto)` in which no call raised (`C04.run`, any
    budget `b₀`), every further call with the model's budget `opBudget s op` (or any larger one)
    returns normally or raises `QuotientFilterError` — it never reports `diverged` -/
theorem step_no_diverge (q : Int) (auto : Bool) (b₀ : Nat) (ops : List Op)
    (hops : ∀ op ∈ ops, op.InRange) (s0 s : QF) (hnew : QF.new q auto = .ok s0)
    (hrun : run b₀ s0 ops = .ok s) (op : Op) (hop : op.InRange) (b : Nat)
    (hb : opBudget s op ≤ b) :
    ((∃ t, step b s op = .ok t) ∨ step b s op = .error .qfError) ∧
    step b s op ≠ .error .diverged := by
  have hI := C04_partial_inv C04_contained C04_hashes C04_B1_add C04_B2_remove q auto b₀ ops hops
    s0 s hnew hrun
  have := step_good hI op hop b hb
  exact ⟨this, this.ne_diverged⟩

/-- a history run the way the driver runs it: every call gets the model's budget for the state it
    is applied to -/
def runB : QF → List Op → R QF
  | s, [] => .ok s
  | s, op :: ops => match step (opBudget s op) s op with
      | .error e => .error e
      | .ok t => runB t ops

/-- a history from a canonical state, every call with the model's budget: it ends in the canonical
    table of the set of the history, or some call raised `QuotientFilterError` -/
theorem runB_spec (auto : Bool) : ∀ (ops : List Op) (s : QF) (a : Abs), Inv auto s a →
    (∀ op ∈ ops, op.InRange) →
    (∃ t, runB s ops = .ok t ∧ Inv auto t (absRun auto a ops)) ∨ runB s ops = .error .qfError := by
  intro ops
  induction ops with
  | nil => intro s a hI _; exact Or.inl ⟨s, rfl, hI⟩
  | cons op ops ih =>
      intro s a hI hr
      have hop := hr op (by simp)
      simp only [runB]
      rcases step_good hI op hop _ (Nat.le_refl _) with ⟨t, ht⟩ | he
      · rw [ht]
        have hIt := step_inv auto _ s a op t hI hop ht
        simp only [absRun, List.foldl_cons]
        exact ih t _ hIt (fun o ho => hr o (List.mem_cons_of_mem _ ho))
      · rw [he]; exact Or.inr rfl

/-- **no history diverges**: any history of `add | remove | resize | merge` calls on 32-bit hashes
    from `QuotientFilter(q, auto)`, every call with the model's own budget, ends normally — in the
    canonical table of the set of the history — or with a `QuotientFilterError` (of the constructor
    or of some call); `diverged` is never reported -/
theorem runB_no_diverge (q : Int) (auto : Bool) (ops : List Op) (hops : ∀ op ∈ ops, op.InRange) :
    let r := QF.new q auto >>= fun s0 => runB s0 ops
    ((∃ t, r = .ok t ∧ Inv auto t (absRun auto ⟨q.toNat, []⟩ ops)) ∨ r = .error .qfError) ∧
    r ≠ .error .diverged := by
  intro r
  have key : (∃ t, r = .ok t ∧ Inv auto t (absRun auto ⟨q.toNat, []⟩ ops)) ∨
      r = .error .qfError := by
    show (∃ t, (QF.new q auto >>= fun s0 => runB s0 ops) = .ok t ∧ _) ∨
      (QF.new q auto >>= fun s0 => runB s0 ops) = .error .qfError
    rw [C04_new]
    by_cases hq : 3 ≤ q ∧ q ≤ 31
    · rw [if_pos hq, layout_nil]
      exact runB_spec auto ops _ _ (inv_empty auto _ (by omega) (by omega)) hops
    · rw [if_neg hq]; exact Or.inr rfl
  refine ⟨key, ?_⟩
  rcases key with ⟨t, ht, _⟩ | he
  · rw [ht]; intro h; cases h
  · rw [he]; intro h; cases h

/-! ### non-vacuity and tightness (TESTS by kernel evaluation, labelled as such) -/

section tests
open QFBounded

def isDiverged : R QF → Bool
  | .error .diverged => true
  | _ => false

theorem isDiverged_iff (r : R QF) : isDiverged r = true ↔ r = .error .diverged := by
  unfold isDiverged
  split
  · simp
  · rename_i h; simp only [Bool.false_eq_true, false_iff]; intro e; exact h e

/-- seven hashes with quotients 0..6 in the 8-slot table: the load factor 7/8 ≥ 0.85 is reached -/
def H7 : List Nat := [0, 1, 2, 3, 4, 5, 6].map (fun i => i * 2 ^ 29)

/-- fifteen hashes with quotients 0..14 in the 16-slot table -/
def H15 : List Nat :=
  [0, 1, 2, 3, 4, 5, 6, 7, 8, 9, 10, 11, 12, 13, 14].map (fun i => i * 2 ^ 28)

/-- the hypotheses of the theorems hold of an over-loaded table (the automatic resize happens) -/
example : over 3 H7.length = true := by decide
example : (layout 3 true (pairs 3 H7)).overLoaded = true := by decide +kernel

/-- (a) instantiated: `add_alt` with budget `|H| + 3 = 10` on the over-loaded 8-slot table -/
example : addAlt 10 (layout 3 true (pairs 3 H7)) 5 ≠ .error .diverged :=
  (addAlt_no_diverge 3 true H7 5 10 (by decide) (by decide) (by decide) (by decide) (by decide)
    (by decide) (by decide)).2

/-- TEST: … and it is the doubled table with the hash added -/
example : addAlt 10 (layout 3 true (pairs 3 H7)) 5 = .ok (layout 4 true (pairs 4 (insertN 5 H7))) :=
  (okEq_iff _ _).1 (by decide +kernel)

/-- TEST: the bound `|H| + 3` of (a) is attained: one unit less diverges -/
example : addAlt 9 (layout 3 true (pairs 3 H7)) 5 = .error .diverged :=
  (isDiverged_iff _).1 (by decide +kernel)

/-- TEST: the automatic resize needs `|H| + 2` units -/
example : QF.resize 9 (layout 3 true (pairs 3 H7)) none = .ok (layout 4 true (pairs 4 H7)) :=
  (okEq_iff _ _).1 (by decide +kernel)
example : QF.resize 8 (layout 3 true (pairs 3 H7)) none = .error .diverged :=
  (isDiverged_iff _).1 (by decide +kernel)

/-- (b) instantiated, and TEST that the bound `2·|H| + 3` is attained: the manual `resize(4)` of a
    16-slot table with 15 hashes and auto-resize re-inserts 14 hashes, reaches the load factor, doubles
    to 32 slots (re-inserting the 14) and adds the 15th -/
example : QF.resize 33 (layout 4 true (pairs 4 H15)) (some 4) ≠ .error .diverged :=
  (resize_no_diverge 4 true H15 (some 4) 33 (by decide) (by decide) (by decide) (by decide)
    (by decide) (by decide)).2
example : QF.resize 33 (layout 4 true (pairs 4 H15)) (some 4) = .ok (layout 5 true (pairs 5 H15)) :=
  (okEq_iff _ _).1 (by decide +kernel)
example : QF.resize 32 (layout 4 true (pairs 4 H15)) (some 4) = .error .diverged :=
  (isDiverged_iff _).1 (by decide +kernel)

/-- (c) instantiated, and TEST that the bound `|H| + 2·|hs| + 2` of the list insertion is attained -/
example : (QF.merge (layout 3 true (pairs 3 H7)) [5]).2 ≠ some .diverged :=
  (merge_no_diverge 3 true H7 [5] (by decide) (by decide) (by decide) (by decide) (by decide)
    (by decide)).2
example : (addAll 11 (layout 3 true (pairs 3 H7)) [5]).2 = none := by decide +kernel
example : (addAll 10 (layout 3 true (pairs 3 H7)) [5]).2 = some .diverged := by decide +kernel

/-- the model's budgets are far above the bounds -/
example : budgetOf (layout 3 true (pairs 3 H7)) = 156 := by decide +kernel

end tests

end PyProb.QF
