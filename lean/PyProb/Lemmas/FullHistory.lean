/-
  Full-history form of C01 ("an added key is never reported absent"): the reload steps are part of
  the operation language.

  C01.lean proves the history theorem for add / union / query / clear (in-memory) and add / push
  (expanding); C05.lean proves that export followed by load gives the state back; C11.lean proves the
  on-disk history of add and close+reopen at the level of bits.  Here the three are combined:

  1. in-memory Bloom filter, operations `add hs | union other | query hs | clear | reloadBytes |
     reloadHex`, where a reload replaces the filter by `Bloom.load geom` of its own `exportBytes`
     (resp. `loadHex` of `exportHex`).  The semantics is *strict*: a failing export or load is an
     error of the whole run (`bstep`, `brun : … → R Bloom`), nothing is totalised away.
       * `bloom_reload_noop`, `bloom_reloadHex_noop`: on a well-formed filter a reload succeeds and
         returns exactly the same state;
       * `bloom_run_eq`: a history with reloads does not fail and ends in the very state of the
         same history with the reloads erased (`C01.run` of `eraseReloads ops`);
       * `bloom_full_history`: every hash list (length ≥ k) added since the last `clear` checks true
         at the end; `bloom_full_history_keys`: the same on keys for an arbitrary hash strategy.
         `bloom_full_history_new` / `expanding_full_history_new`: the same from a fresh filter,
         with only the constructor ranges, geometry stability and the 2^64 budget as hypotheses.
  2. expanding filter, operations `add hs force | push | reload`: `expanding_reload_noop`,
     `expanding_run_eq`, `expanding_full_history`.
  3. on-disk filter, operations `add hs | cycle` (close, then reopen the file): `ondisk_run_ok`
     (no reopen ever fails, the strict run is the run of `C11.step`), `ondisk_full_history` (every
     hash list added checks true at the end, `OnDisk.checkAlt`), `ondisk_full_history_created`
     (from a freshly created file).

  Hypotheses that had to be added (all are invariants of reachable states; preservation is proved
  here, `BInv`/`EInv`/`DInv`):
    * `GeomStable geom est fpr32 k m`: the loader re-derives the same geometry (as in C05/C11);
    * the footer fields fit: `est < 2^64`, `fpr32 < 2^32`, and the element counters stay below 2^64:
      `count + (number of adds in the history) < 2^64` (the real `export` raises `struct.error`
      beyond that, so the reload would fail);
    * `union` stores an arbitrary estimator value as the new count and ORs in the bytes of an
      arbitrary second operand, so for histories that contain a union the estimator must return
      values in `[0, 2^64 - adds)` and the operand's bit array must consist of bytes (`< 256`, needed
      for the hex channel only) — `UnionsOK`; histories without union need neither;
    * expanding filter: the same budget for the per-sub-filter counts, the number of sub-filters and
      `added` (`work ops` = number of add/push steps).
  Core Lean only.
-/
import PyProb.Properties.C01
import PyProb.Properties.C05_bloom
import PyProb.Properties.C11
import PyProb.Lemmas.ExpandingCore

namespace PyProb.FullHistory
open PyProb

/-! ## 1. the in-memory Bloom filter -/

/-- `BloomFilter.frombytes(bytes(b))`, or `export(file)` followed by `BloomFilter(filepath=file)` -/
def reloadBytes (geom : Geom) (b : Bloom) : R Bloom :=
  match b.exportBytes with
  | .ok bytes => Bloom.load geom bytes
  | .error e => .error e

/-- `BloomFilter(hex_string=b.export_hex())` -/
def reloadHex (geom : Geom) (b : Bloom) : R Bloom :=
  match b.exportHex with
  | .ok hex => Bloom.loadHex geom hex
  | .error e => .error e

theorem bloom_exportHex_ok (b : Bloom) (wf : C05.BloomWF b) : ∃ hex, b.exportHex = .ok hex := by
  have h1 := wf.est; have h2 := wf.fpr; have h3 := wf.cnt0; have h4 := wf.cnt1
  unfold Bloom.exportHex Bloom.footerVals
  rw [bloomFooterHex_pack, if_neg (by omega), if_neg (by omega), if_neg (by omega)]
  exact ⟨_, rfl⟩

/-- **a binary reload changes nothing at all**: on a well-formed filter it succeeds and gives the
    same state back -/
theorem bloom_reload_noop (geom : Geom) (b : Bloom) (wf : C05.BloomWF b)
    (hg : C05.GeomStable geom b.est b.fpr32 b.k b.m) : reloadBytes geom b = .ok b := by
  obtain ⟨bytes, h⟩ := C05.C05_bloom_export_ok b wf
  unfold reloadBytes
  rw [h]
  exact C05.C05_bloom_roundtrip geom b bytes wf.len hg h

/-- the same for the hex channel -/
theorem bloom_reloadHex_noop (geom : Geom) (b : Bloom) (wf : C05.BloomWF b)
    (hg : C05.GeomStable geom b.est b.fpr32 b.k b.m) : reloadHex geom b = .ok b := by
  obtain ⟨hex, h⟩ := bloom_exportHex_ok b wf
  unfold reloadHex
  rw [h]
  exact C05.C05_bloom_hex_roundtrip geom b hex wf.len wf.bytes hg h

/-- the error branch is real: a filter whose counter left the u64 range cannot be reloaded -/
theorem bloom_reload_overflow (geom : Geom) (b : Bloom) (h : 2 ^ 64 ≤ b.count) :
    reloadBytes geom b = .error .structError := by
  unfold reloadBytes Bloom.exportBytes Bloom.footerVals
  rw [bloomFooter_pack]
  by_cases he : (b.est : Int) < 0 ∨ (b.est : Int) > 18446744073709551615
  · rw [if_pos he]
  · rw [if_neg he, if_pos (by omega)]

/-- operations on one filter, reloads included -/
inductive BOp
  | add (hs : List Nat)
  | union (other : Bloom) (sameProbe : Bool)
  | query (hs : List Nat)
  | clear
  | reloadBytes
  | reloadHex

/-- the operation of `C01.Op` behind a step; `none` for the reload steps -/
def BOp.core : BOp → Option C01.Op
  | .add hs => some (.add hs)
  | .union o s => some (.union o s)
  | .query hs => some (.query hs)
  | .clear => some .clear
  | .reloadBytes => none
  | .reloadHex => none

/-- one step, strict: a failing export / load is an error -/
def bstep (geom : Geom) (est : Estimator) (b : Bloom) : BOp → R Bloom
  | .add hs => .ok (b.addAlt hs).1
  | .union o same => .ok (match Bloom.union est b o same with | some r => r | none => b)
  | .query _ => .ok b
  | .clear => .ok b.clear
  | .reloadBytes => reloadBytes geom b
  | .reloadHex => reloadHex geom b

/-- a history, strict: the first error aborts -/
def brun (geom : Geom) (est : Estimator) : Bloom → List BOp → R Bloom
  | b, [] => .ok b
  | b, op :: ops =>
      match bstep geom est b op with
      | .ok b' => brun geom est b' ops
      | .error e => .error e

/-- the history with the reload steps erased -/
def eraseReloads (ops : List BOp) : List C01.Op := ops.filterMap BOp.core

/-- number of `add` steps -/
def adds : List BOp → Nat
  | [] => 0
  | .add _ :: r => adds r + 1
  | _ :: r => adds r

def blive (acc : List (List Nat)) : BOp → List (List Nat)
  | .add hs => hs :: acc
  | .clear => []
  | _ => acc

/-- the hash lists added since the last `clear` -/
def addedSinceLastClear (ops : List BOp) : List (List Nat) := ops.foldl blive []

theorem bstep_core (geom : Geom) (est : Estimator) (b : Bloom) (op : BOp) (c : C01.Op)
    (h : op.core = some c) : bstep geom est b op = .ok (C01.step est b c) := by
  cases op <;> simp only [BOp.core, Option.some.injEq, reduceCtorEq] at h <;> subst h <;> rfl

private theorem live_erase (ops : List BOp) (acc : List (List Nat)) :
    (eraseReloads ops).foldl C01.live acc = ops.foldl blive acc := by
  induction ops generalizing acc with
  | nil => rfl
  | cons op ops ih =>
      cases op <;> simp only [eraseReloads, List.filterMap_cons, BOp.core, List.foldl_cons] <;>
        exact ih _

theorem addedSinceLastClear_erase (ops : List BOp) :
    C01.addedSinceLastClear (eraseReloads ops) = addedSinceLastClear ops := live_erase ops []

/-- what every reachable state satisfies; `n` is the number of adds still to come -/
structure BInv (geom : Geom) (b : Bloom) (n : Nat) : Prop where
  wf : C05.BloomWF b
  mpos : 0 < b.m
  stable : C05.GeomStable geom b.est b.fpr32 b.k b.m
  room : b.count + (n : Int) < 2 ^ 64

/-- requirement on the `union` steps of a history: the operand's bit array consists of bytes and
    the estimator's value fits the footer field with room for the adds of the history -/
def UnionsOK (est : Estimator) (ops : List BOp) : Prop :=
  ∀ o same, BOp.union o same ∈ ops →
    (∀ x ∈ o.bits, x < 256) ∧ ∀ m k s, 0 ≤ est m k s ∧ est m k s + (adds ops : Int) < 2 ^ 64

theorem adds_tail_le (op : BOp) (ops : List BOp) : adds ops ≤ adds (op :: ops) := by
  cases op <;> simp only [adds] <;> omega

theorem UnionsOK.tail {est : Estimator} {op : BOp} {ops : List BOp} (h : UnionsOK est (op :: ops)) :
    UnionsOK est ops := by
  intro o same hm
  obtain ⟨h1, h2⟩ := h o same (List.mem_cons_of_mem _ hm)
  refine ⟨h1, fun m k s => ?_⟩
  have := h2 m k s
  have := adds_tail_le op ops
  omega

/-- a history without `union` needs no hypothesis on the estimator or on other filters -/
theorem UnionsOK.of_no_union (est : Estimator) (ops : List BOp)
    (h : ∀ o same, BOp.union o same ∉ ops) : UnionsOK est ops :=
  fun o same hm => absurd hm (h o same)

theorem BInv.mono {geom : Geom} {b : Bloom} {n n' : Nat} (h : BInv geom b n) (hn : n' ≤ n) :
    BInv geom b n' :=
  ⟨h.wf, h.mpos, h.stable, by have := h.room; omega⟩

theorem BInv.c01wf {geom : Geom} {b : Bloom} {n : Nat} (h : BInv geom b n) : C01.WF b :=
  ⟨h.wf.len, h.mpos⟩

/-- a fresh filter satisfies the invariant -/
theorem binv_new (geom : Geom) (est fpr32 k m n : Nat) (hm : 0 < m) (he : est < 2 ^ 64)
    (hf : fpr32 < 2 ^ 32) (hn : n < 2 ^ 64) (hg : C05.GeomStable geom est fpr32 k m) :
    BInv geom (Bloom.new est fpr32 k m) n :=
  ⟨C05.C05_bloom_new_wf est fpr32 k m he hf, hm, hg, by simp only [Bloom.new]; omega⟩

theorem binv_add {geom : Geom} {b : Bloom} {n : Nat} (hs : List Nat) (h : BInv geom b (n + 1)) :
    BInv geom (b.addAlt hs).1 n := by
  have hr := h.room
  have h0 := h.wf.cnt0
  refine ⟨C05.C05_bloom_add_wf b hs h.wf (by omega), by rw [Bloom.addAlt_m]; exact h.mpos, ?_, ?_⟩
  · rw [Bloom.addAlt_est, Bloom.addAlt_fpr, Bloom.addAlt_k, Bloom.addAlt_m]; exact h.stable
  · rw [Bloom.addAlt_count]; split <;> omega

theorem binv_clear {geom : Geom} {b : Bloom} {n : Nat} (h : BInv geom b n) : BInv geom b.clear n := by
  have hr := h.room
  have h0 := h.wf.cnt0
  refine ⟨⟨?_, ?_, h.wf.est, h.wf.fpr, by simp [Bloom.clear], by simp [Bloom.clear]⟩, h.mpos, h.stable, ?_⟩
  · simp only [Bloom.clear, List.length_replicate]; exact h.wf.len
  · intro x hx
    simp only [Bloom.clear, List.mem_replicate] at hx
    omega
  · simp only [Bloom.clear]; omega

private theorem getD_lt (l : Bytes) (h : ∀ x ∈ l, x < 256) (i : Nat) : l.getD i 0 < 2 ^ 8 := by
  rw [List.getD_eq_getElem?_getD]
  cases hq : l[i]? with
  | none => simp
  | some v => simpa using h v (List.mem_of_getElem? hq)

private theorem zipOr_lt (n : Nat) (x y : Bytes) (hx : ∀ v ∈ x, v < 256) (hy : ∀ v ∈ y, v < 256) :
    ∀ v ∈ Bloom.zipBytes (· ||| ·) n x y, v < 256 := by
  intro v hv
  simp only [Bloom.zipBytes, List.mem_map, List.mem_range] at hv
  obtain ⟨i, _, rfl⟩ := hv
  exact Nat.or_lt_two_pow (getD_lt x hx i) (getD_lt y hy i)

theorem binv_union {geom : Geom} {est : Estimator} {a o r : Bloom} {same : Bool} {n : Nat}
    (h : BInv geom a n) (ho : ∀ x ∈ o.bits, x < 256)
    (he : ∀ m k s, 0 ≤ est m k s ∧ est m k s + (n : Int) < 2 ^ 64)
    (hu : Bloom.union est a o same = some r) : BInv geom r n := by
  obtain ⟨_, hk, hm, hest, hfpr, hb⟩ := Bloom.union_eq_some est a o r same hu
  have hc : ∃ s, r.count = est a.m a.k s := by
    unfold Bloom.union at hu
    split at hu
    · cases hu
    · injection hu with hu; subst hu; exact ⟨_, rfl⟩
  obtain ⟨s, hc⟩ := hc
  have hes := he a.m a.k s
  refine ⟨⟨?_, ?_, by rw [hest]; exact h.wf.est, by rw [hfpr]; exact h.wf.fpr, by rw [hc]; exact hes.1,
    by rw [hc]; omega⟩, by rw [hm]; exact h.mpos, by rw [hest, hfpr, hk, hm]; exact h.stable,
    by rw [hc]; exact hes.2⟩
  · rw [hb, hm, zipBytes_length]; rfl
  · rw [hb]; exact zipOr_lt _ _ _ h.wf.bytes ho

/-- one step keeps the invariant, does not fail, and is the step of `C01` (or nothing at all) -/
theorem bstep_spec (geom : Geom) (est : Estimator) (b : Bloom) (op : BOp) (ops : List BOp)
    (h : BInv geom b (adds (op :: ops))) (hu : UnionsOK est (op :: ops)) :
    ∃ b', bstep geom est b op = .ok b' ∧ BInv geom b' (adds ops) ∧
      b' = (match op.core with | some c => C01.step est b c | none => b) := by
  cases op with
  | add hs => exact ⟨_, rfl, binv_add hs h, rfl⟩
  | union o same =>
      refine ⟨_, rfl, ?_, rfl⟩
      obtain ⟨h1, h2⟩ := hu o same (by simp)
      cases hq : Bloom.union est b o same with
      | none => exact h
      | some r => exact binv_union h h1 h2 hq
  | query hs => exact ⟨_, rfl, h, rfl⟩
  | clear => exact ⟨_, rfl, binv_clear h, rfl⟩
  | reloadBytes => exact ⟨b, bloom_reload_noop geom b h.wf h.stable, h, rfl⟩
  | reloadHex => exact ⟨b, bloom_reloadHex_noop geom b h.wf h.stable, h, rfl⟩

private theorem c01_run_cons (est : Estimator) (b : Bloom) (c : C01.Op) (l : List C01.Op) :
    C01.run est b (c :: l) = C01.run est (C01.step est b c) l := rfl

/-- **reloads are invisible**: a history with export+load steps (binary or hex) anywhere never
    fails and ends in exactly the state of the same history without them; the invariant holds at
    the end (so the history can be continued) -/
theorem bloom_run_eq (geom : Geom) (est : Estimator) (ops : List BOp) (b₀ : Bloom)
    (h : BInv geom b₀ (adds ops)) (hu : UnionsOK est ops) :
    brun geom est b₀ ops = .ok (C01.run est b₀ (eraseReloads ops)) ∧
      BInv geom (C01.run est b₀ (eraseReloads ops)) 0 := by
  induction ops generalizing b₀ with
  | nil => exact ⟨rfl, h⟩
  | cons op ops ih =>
      obtain ⟨b', hs, hi, he⟩ := bstep_spec geom est b₀ op ops h hu
      obtain ⟨r1, r2⟩ := ih b' hi hu.tail
      have herase : C01.run est b₀ (eraseReloads (op :: ops)) = C01.run est b' (eraseReloads ops) := by
        cases hc : op.core with
        | none => simp only [eraseReloads, List.filterMap_cons, hc]; rw [he, hc]
        | some c => simp only [eraseReloads, List.filterMap_cons, hc]; rw [c01_run_cons, he, hc]
      rw [herase]
      refine ⟨?_, r2⟩
      simp only [brun, hs]
      exact r1

/-- **C01 with reloads, on hash lists**: after any sequence of add / union / query / clear /
    export+load (binary) / export_hex+load the run has not failed and every hash list (of at least
    `k` hashes) added since the last `clear` is reported present -/
theorem bloom_full_history (geom : Geom) (est : Estimator) (b₀ : Bloom) (ops : List BOp)
    (h : BInv geom b₀ (adds ops)) (hu : UnionsOK est ops) (hs : List Nat)
    (hmem : hs ∈ addedSinceLastClear ops) (hl : b₀.k ≤ hs.length) :
    ∃ b, brun geom est b₀ ops = .ok b ∧ b.checkAlt hs = .ok true := by
  refine ⟨_, (bloom_run_eq geom est ops b₀ h hu).1, ?_⟩
  exact C01.C01_bloom est b₀ (eraseReloads ops) h.c01wf hs
    (by rw [addedSinceLastClear_erase]; exact hmem) hl

/-- from a fresh filter: the only hypotheses left are the ranges of the constructor arguments,
    geometry stability, fewer than 2^64 adds, and `UnionsOK` for the unions of the history -/
theorem bloom_full_history_new (geom : Geom) (est : Estimator) (est0 fpr32 k m : Nat) (hm : 0 < m)
    (he : est0 < 2 ^ 64) (hf : fpr32 < 2 ^ 32) (hg : C05.GeomStable geom est0 fpr32 k m)
    (ops : List BOp) (hn : adds ops < 2 ^ 64) (hu : UnionsOK est ops) (hs : List Nat)
    (hmem : hs ∈ addedSinceLastClear ops) (hl : k ≤ hs.length) :
    ∃ b, brun geom est (Bloom.new est0 fpr32 k m) ops = .ok b ∧ b.checkAlt hs = .ok true :=
  bloom_full_history geom est _ ops (binv_new geom est0 fpr32 k m _ hm he hf hn hg) hu hs hmem hl

/-- what the start state reports is kept as well, as long as no `clear` happens -/
theorem bloom_full_history_keeps (geom : Geom) (est : Estimator) (b₀ : Bloom) (ops : List BOp)
    (h : BInv geom b₀ (adds ops)) (hu : UnionsOK est ops) (hs : List Nat)
    (h0 : b₀.checkAlt hs = .ok true) (hnc : BOp.clear ∉ ops) :
    ∃ b, brun geom est b₀ ops = .ok b ∧ b.checkAlt hs = .ok true := by
  refine ⟨_, (bloom_run_eq geom est ops b₀ h hu).1, ?_⟩
  apply C01.C01_bloom_keeps est b₀ (eraseReloads ops) h.c01wf hs h0
  intro c hc hcl
  subst hcl
  simp only [eraseReloads, List.mem_filterMap] at hc
  obtain ⟨op, hop, hcore⟩ := hc
  cases op <;> simp only [BOp.core, Option.some.injEq, reduceCtorEq] at hcore
  exact hnc hop

/-- operations on keys -/
inductive BKOp
  | add (key : Key)
  | union (other : Bloom) (sameProbe : Bool)
  | query (key : Key)
  | clear
  | reloadBytes
  | reloadHex

/-- `add(key)` is `add_alt(hashes(key))`, `check(key)` is `check_alt(hashes(key))` -/
def BKOp.toOp (H : Key → Nat → List Nat) (k : Nat) : BKOp → BOp
  | .add key => .add (H key k)
  | .union o s => .union o s
  | .query key => .query (H key k)
  | .clear => .clear
  | .reloadBytes => .reloadBytes
  | .reloadHex => .reloadHex

def bliveK (acc : List Key) : BKOp → List Key
  | .add key => key :: acc
  | .clear => []
  | _ => acc

def keysAddedSinceLastClear (ops : List BKOp) : List Key := ops.foldl bliveK []

private theorem blive_map (H : Key → Nat → List Nat) (k : Nat) (ops : List BKOp) (acc : List Key) :
    (ops.map (BKOp.toOp H k)).foldl blive (acc.map (H · k)) = (ops.foldl bliveK acc).map (H · k) := by
  induction ops generalizing acc with
  | nil => rfl
  | cons op ops ih =>
      simp only [List.map_cons, List.foldl_cons]
      cases op with
      | add key => exact ih (key :: acc)
      | union o s => exact ih acc
      | query key => exact ih acc
      | clear => exact ih []
      | reloadBytes => exact ih acc
      | reloadHex => exact ih acc

/-- **C01 with reloads, on keys**, for every hash strategy returning at least `depth` values -/
theorem bloom_full_history_keys (H : Key → Nat → List Nat) (hH : ∀ key d, d ≤ (H key d).length)
    (geom : Geom) (est : Estimator) (b₀ : Bloom) (ops : List BKOp)
    (h : BInv geom b₀ (adds (ops.map (BKOp.toOp H b₀.k))))
    (hu : UnionsOK est (ops.map (BKOp.toOp H b₀.k))) (key : Key)
    (hmem : key ∈ keysAddedSinceLastClear ops) :
    ∃ b, brun geom est b₀ (ops.map (BKOp.toOp H b₀.k)) = .ok b ∧
      b.checkAlt (H key b₀.k) = .ok true := by
  apply bloom_full_history geom est b₀ _ h hu _ _ (hH key b₀.k)
  have := blive_map H b₀.k ops []
  simp only [List.map_nil] at this
  unfold addedSinceLastClear
  rw [this]
  exact List.mem_map.2 ⟨key, hmem, rfl⟩

/-! ## 2. the expanding filter -/

/-- `ExpandingBloomFilter.frombytes(bytes(e))`, or `export(file)` then `ExpandingBloomFilter(filepath=file)` -/
def ereload (geom : Geom) (e : Expanding) : R Expanding :=
  match e.exportBytes with
  | .ok bytes => Expanding.load geom bytes
  | .error x => .error x

/-- **a reload of the expanding filter changes nothing at all** -/
theorem expanding_reload_noop (geom : Geom) (e : Expanding) (wf : C05.ExpandingWF e)
    (hg : C05.GeomStable geom e.est e.fpr32 e.k e.m) : ereload geom e = .ok e := by
  obtain ⟨bytes, h⟩ := C05.C05_expanding_export_ok e wf
  unfold ereload
  rw [h]
  exact C05.C05_expanding_roundtrip geom e bytes wf.nonempty wf.subs hg h

inductive EOp
  | add (hs : List Nat) (force : Bool)
  | push
  | reload

def EOp.core : EOp → Option C01.EOp
  | .add hs f => some (.add hs f)
  | .push => some .push
  | .reload => none

/-- one step, strict -/
def estep (geom : Geom) (e : Expanding) : EOp → R Expanding
  | .add hs f => .ok (e.addAlt hs f).1
  | .push => .ok e.push
  | .reload => ereload geom e

def erun (geom : Geom) : Expanding → List EOp → R Expanding
  | e, [] => .ok e
  | e, op :: ops =>
      match estep geom e op with
      | .ok e' => erun geom e' ops
      | .error x => .error x

def eraseEReloads (ops : List EOp) : List C01.EOp := ops.filterMap EOp.core

/-- number of steps that are not reloads -/
def work : List EOp → Nat
  | [] => 0
  | .reload :: r => work r
  | _ :: r => work r + 1

/-- every hash list handed to `add_alt` in the history -/
def eadded : List EOp → List (List Nat)
  | [] => []
  | .add hs _ :: ops => hs :: eadded ops
  | _ :: ops => eadded ops

theorem eadded_erase (ops : List EOp) : C01.eadded (eraseEReloads ops) = eadded ops := by
  induction ops with
  | nil => rfl
  | cons op ops ih =>
      cases op <;> simp only [eraseEReloads, List.filterMap_cons, EOp.core, C01.eadded, eadded] <;>
        simp only [eraseEReloads] at ih <;> rw [ih]

/-- what every reachable state satisfies; `n` is the number of add / push steps still to come -/
structure EInv (geom : Geom) (e : Expanding) (n : Nat) : Prop where
  mpos : 0 < e.m
  nonempty : e.blooms ≠ []
  subs : C05.SubsOK e
  stable : C05.GeomStable geom e.est e.fpr32 e.k e.m
  est : e.est < 2 ^ 64
  fpr : e.fpr32 < 2 ^ 32
  counts : ∀ b ∈ e.blooms, 0 ≤ b.count ∧ b.count + (n : Int) < 2 ^ 64
  size : e.blooms.length + n < 2 ^ 64
  added0 : 0 ≤ e.added
  added1 : e.added + (n : Int) < 2 ^ 64

theorem EInv.wf {geom : Geom} {e : Expanding} {n : Nat} (h : EInv geom e n) : C05.ExpandingWF e :=
  ⟨h.nonempty, h.subs, fun b hb => by have := h.counts b hb; omega, by have := h.size; omega, h.est, h.fpr,
    h.added0, by have := h.added1; omega⟩

theorem EInv.c01wf {geom : Geom} {e : Expanding} {n : Nat} (h : EInv geom e n) : C01.WFE e := by
  refine ⟨h.mpos, h.nonempty, fun b hb => ?_⟩
  obtain ⟨_, _, hk, hm, hl⟩ := h.subs b hb
  exact ⟨⟨by rw [hm]; exact hl, by rw [hm]; exact h.mpos⟩, hk, hm⟩

/-- a fresh expanding filter satisfies the invariant -/
theorem einv_new (geom : Geom) (est fpr32 k m n : Nat) (hm : 0 < m) (he : est < 2 ^ 64)
    (hf : fpr32 < 2 ^ 32) (hn : n + 1 < 2 ^ 64) (hg : C05.GeomStable geom est fpr32 k m) :
    EInv geom (Expanding.new est fpr32 k m) n := by
  have wf := C05.C05_expanding_new_wf est fpr32 k m he hf
  refine ⟨hm, wf.nonempty, wf.subs, hg, he, hf, ?_, ?_, wf.added0, ?_⟩
  · intro b hb
    simp only [Expanding.new, List.mem_singleton] at hb
    subst hb
    simp only [Bloom.new]; omega
  · simp only [Expanding.new, List.length_singleton]; omega
  · simp only [Expanding.new]; omega

private theorem addCore_forall2 (P Q : Bloom → Prop) (e : Expanding) (p : Bool) (hs : List Nat) (f : Bool)
    (hne : e.blooms ≠ []) (hPQ : ∀ b, P b → Q b) (hadd : ∀ b, P b → Q (b.addAlt hs).1)
    (hfresh : P e.fresh) (h : ∀ b ∈ e.blooms, P b) : ∀ b ∈ (e.addCore p hs f).1.blooms, Q b := by
  cases hf : (f || !p)
  · rw [(Expanding.addCore_noeff e p hs f hf).1]; exact fun b hb => hPQ b (h b hb)
  · obtain ⟨init, z, hb⟩ := Expanding.exists_concat e.blooms hne
    rw [Expanding.addCore_blooms_eff e init z p hs f hb hf]
    rw [hb] at h
    intro b
    split
    · intro hm
      simp only [List.mem_append, List.mem_singleton] at hm
      rcases hm with (hm | rfl) | rfl
      · exact hPQ b (h b (by simp [hm]))
      · exact hPQ b (h b (by simp))
      · exact hadd _ hfresh
    · intro hm
      simp only [List.mem_append, List.mem_singleton] at hm
      rcases hm with hm | rfl
      · exact hPQ b (h b (by simp [hm]))
      · exact hadd _ (h z (by simp))

private theorem addCore_length (e : Expanding) (p : Bool) (hs : List Nat) (f : Bool) (hne : e.blooms ≠ []) :
    (e.addCore p hs f).1.blooms.length ≤ e.blooms.length + 1 := by
  cases hf : (f || !p)
  · rw [(Expanding.addCore_noeff e p hs f hf).1]; omega
  · obtain ⟨init, z, hb⟩ := Expanding.exists_concat e.blooms hne
    rw [Expanding.addCore_blooms_eff e init z p hs f hb hf, hb]
    split <;> simp

/-- `add_alt` is `addCore` for some membership answer, or (when the membership test raises) only
    the bump of `added` -/
private theorem addAlt_cases (e : Expanding) (hs : List Nat) (f : Bool) :
    (∃ p f', (e.addAlt hs f).1 = (e.addCore p hs f').1) ∨
      (e.addAlt hs f).1 = { e with added := e.added + 1 } := by
  unfold Expanding.addAlt
  split
  · exact Or.inl ⟨true, true, rfl⟩
  · split
    · exact Or.inr rfl
    · exact Or.inl ⟨_, false, rfl⟩

theorem einv_add {geom : Geom} {e : Expanding} {n : Nat} (hs : List Nat) (f : Bool)
    (h : EInv geom e (n + 1)) : EInv geom (e.addAlt hs f).1 n := by
  obtain ⟨hne', hsubs'⟩ := C05.C05_expanding_add_wf e hs f h.nonempty h.subs
  have hsz := h.size; have ha0 := h.added0; have ha1 := h.added1
  have hcnt : ∀ b ∈ e.blooms, 0 ≤ b.count ∧ b.count + ((n : Int) + 1) < 2 ^ 64 := by
    intro b hb; have := h.counts b hb; omega
  have hlen : 1 ≤ e.blooms.length := List.length_pos_iff.mpr h.nonempty
  rcases addAlt_cases e hs f with ⟨p, f', hc⟩ | hc
  · obtain ⟨s1, s2, s3, s4, s5⟩ := Expanding.addCore_static e p hs f'
    have hl := addCore_length e p hs f' h.nonempty
    have hq := addCore_forall2 (fun b => 0 ≤ b.count ∧ b.count + ((n : Int) + 1) < 2 ^ 64)
      (fun b => 0 ≤ b.count ∧ b.count + (n : Int) < 2 ^ 64) e p hs f' h.nonempty
      (fun b hb => by omega)
      (fun b hb => by rw [Bloom.addAlt_count]; split <;> omega)
      (by simp only [Expanding.fresh_count]; omega) hcnt
    rw [hc] at hne' hsubs' ⊢
    refine ⟨by rw [s4]; exact h.mpos, hne', hsubs', by rw [s1, s2, s3, s4]; exact h.stable,
      by rw [s1]; exact h.est, by rw [s2]; exact h.fpr, hq, by omega, by rw [s5]; omega, by rw [s5]; omega⟩
  · rw [hc] at hne' hsubs' ⊢
    exact ⟨h.mpos, hne', hsubs', h.stable, h.est, h.fpr, fun b hb => by have := hcnt b hb; omega,
      by show e.blooms.length + n < 2 ^ 64; omega, by show 0 ≤ e.added + 1; omega,
      by show e.added + 1 + (n : Int) < 2 ^ 64; omega⟩

theorem einv_push {geom : Geom} {e : Expanding} {n : Nat} (h : EInv geom e (n + 1)) :
    EInv geom e.push n := by
  have hsz := h.size; have ha1 := h.added1
  have hlen : 1 ≤ e.blooms.length := List.length_pos_iff.mpr h.nonempty
  refine ⟨h.mpos, by simp [Expanding.push], C05.C05_expanding_push_subs e h.subs, h.stable, h.est, h.fpr,
    ?_, ?_, h.added0, by show e.added + (n : Int) < 2 ^ 64; omega⟩
  · apply Expanding.push_forall (fun b => 0 ≤ b.count ∧ b.count + (n : Int) < 2 ^ 64) e
    · simp only [Expanding.fresh_count]; omega
    · intro b hb; have := h.counts b hb; omega
  · simp only [Expanding.push, List.length_append, List.length_singleton]; omega

theorem work_tail_le (op : EOp) (ops : List EOp) : work ops ≤ work (op :: ops) := by
  cases op <;> simp only [work] <;> omega

theorem estep_spec (geom : Geom) (e : Expanding) (op : EOp) (ops : List EOp)
    (h : EInv geom e (work (op :: ops))) :
    ∃ e', estep geom e op = .ok e' ∧ EInv geom e' (work ops) ∧
      e' = (match op.core with | some c => C01.estep e c | none => e) := by
  cases op with
  | add hs f => exact ⟨_, rfl, einv_add hs f h, rfl⟩
  | push => exact ⟨_, rfl, einv_push h, rfl⟩
  | reload => exact ⟨e, expanding_reload_noop geom e h.wf h.stable, h, rfl⟩

private theorem c01_erun_cons (e : Expanding) (c : C01.EOp) (l : List C01.EOp) :
    C01.erun e (c :: l) = C01.erun (C01.estep e c) l := rfl

/-- **reloads are invisible** for the expanding filter: a history with export+load steps anywhere
    never fails and ends in exactly the state of the same history without them -/
theorem expanding_run_eq (geom : Geom) (ops : List EOp) (e₀ : Expanding)
    (h : EInv geom e₀ (work ops)) :
    erun geom e₀ ops = .ok (C01.erun e₀ (eraseEReloads ops)) ∧
      EInv geom (C01.erun e₀ (eraseEReloads ops)) 0 := by
  induction ops generalizing e₀ with
  | nil => exact ⟨rfl, h⟩
  | cons op ops ih =>
      obtain ⟨e', hs, hi, he⟩ := estep_spec geom e₀ op ops h
      obtain ⟨r1, r2⟩ := ih e' hi
      have herase : C01.erun e₀ (eraseEReloads (op :: ops)) = C01.erun e' (eraseEReloads ops) := by
        cases hc : op.core with
        | none => simp only [eraseEReloads, List.filterMap_cons, hc]; rw [he, hc]
        | some c => simp only [eraseEReloads, List.filterMap_cons, hc]; rw [c01_erun_cons, he, hc]
      rw [herase]
      refine ⟨?_, r2⟩
      simp only [erun, hs]
      exact r1

/-- **C01 with reloads for the expanding filter**: after any sequence of `add_alt(hs, force)`,
    `push()` and export+load — any number of growth events and reloads — the run has not failed and
    every hash list (of at least `k` hashes) ever added is reported present -/
theorem expanding_full_history (geom : Geom) (e₀ : Expanding) (ops : List EOp)
    (h : EInv geom e₀ (work ops)) (hs : List Nat) (hmem : hs ∈ eadded ops) (hl : e₀.k ≤ hs.length) :
    ∃ e, erun geom e₀ ops = .ok e ∧ e.checkAlt hs = .ok true := by
  refine ⟨_, (expanding_run_eq geom ops e₀ h).1, ?_⟩
  exact C01.C01_expanding e₀ (eraseEReloads ops) h.c01wf hs (by rw [eadded_erase]; exact hmem) hl

/-- from a fresh expanding filter -/
theorem expanding_full_history_new (geom : Geom) (est0 fpr32 k m : Nat) (hm : 0 < m)
    (he : est0 < 2 ^ 64) (hf : fpr32 < 2 ^ 32) (hg : C05.GeomStable geom est0 fpr32 k m)
    (ops : List EOp) (hn : work ops + 1 < 2 ^ 64) (hs : List Nat) (hmem : hs ∈ eadded ops)
    (hl : k ≤ hs.length) :
    ∃ e, erun geom (Expanding.new est0 fpr32 k m) ops = .ok e ∧ e.checkAlt hs = .ok true :=
  expanding_full_history geom _ ops (einv_new geom est0 fpr32 k m _ hm he hf hn hg) hs hmem hl

/-- what the start state reports stays reported -/
theorem expanding_full_history_keeps (geom : Geom) (e₀ : Expanding) (ops : List EOp)
    (h : EInv geom e₀ (work ops)) (hs : List Nat) (hl : e₀.k ≤ hs.length)
    (h0 : e₀.checkAlt hs = .ok true) :
    ∃ e, erun geom e₀ ops = .ok e ∧ e.checkAlt hs = .ok true :=
  ⟨_, (expanding_run_eq geom ops e₀ h).1, C01.C01_expanding_keeps e₀ (eraseEReloads ops) h.c01wf hs hl h0⟩

/-! ## 3. the on-disk filter -/

/-- one call on the on-disk filter, strict: `cycle` is `close()` followed by
    `BloomFilterOnDisk(path)` on the same file; a failing reopen is an error -/
def dstep (geom : Geom) (o : OnDisk) : C11.Op → R OnDisk
  | .add hs => .ok (o.addAlt hs)
  | .cycle => OnDisk.reopen geom o.close.file

def drun (geom : Geom) : OnDisk → List C11.Op → R OnDisk
  | o, [] => .ok o
  | o, op :: ops =>
      match dstep geom o op with
      | .ok o' => drun geom o' ops
      | .error x => .error x

/-- every hash list handed to `add_alt` in the history -/
def dadded : List C11.Op → List (List Nat)
  | [] => []
  | .add hs :: ops => hs :: dadded ops
  | .cycle :: ops => dadded ops

/-- what every reachable on-disk state satisfies; `n` is the number of adds still to come -/
structure DInv (geom : Geom) (o : OnDisk) (n : Nat) : Prop where
  shape : ∃ bits, C11.Shape o bits o.count
  stable : C05.GeomStable geom o.est o.fpr32 o.k o.m
  est : o.est < 2 ^ 64
  fpr : o.fpr32 < 2 ^ 32
  cnt0 : 0 ≤ o.count
  room : o.count + (n : Int) < 2 ^ 64

/-- all positions of `hs` are set in the bit array stored in the file -/
def Present (o : OnDisk) (hs : List Nat) : Prop :=
  ∃ bits, C11.Shape o bits o.count ∧ ∀ x ∈ hs.take o.k, testBitB bits (x % o.m) = true

theorem Present.check {o : OnDisk} {hs : List Nat} (h : Present o hs) (hk : o.k ≤ hs.length) :
    o.checkAlt hs = .ok true := by
  obtain ⟨bits, hsh, hp⟩ := h
  unfold OnDisk.checkAlt
  rw [C11.view_of_shape hsh]
  exact checkGo_true _ _ _ _ hk hp

theorem dinv_add {geom : Geom} {o : OnDisk} {n : Nat} (hs : List Nat) (h : DInv geom o (n + 1)) :
    DInv geom (o.addAlt hs) n := by
  obtain ⟨bits, hsh⟩ := h.shape
  have hr := h.room; have h0 := h.cnt0
  refine ⟨⟨_, by rw [C11.addAlt_count]; exact (C11.C11_add_shape o bits hs hsh).1⟩, h.stable, h.est, h.fpr,
    by rw [C11.addAlt_count]; omega, by rw [C11.addAlt_count]; omega⟩

theorem present_add_self (o : OnDisk) (n : Nat) (geom : Geom) (hs : List Nat) (h : DInv geom o n) :
    Present (o.addAlt hs) hs := by
  obtain ⟨bits, hsh⟩ := h.shape
  refine ⟨_, by rw [C11.addAlt_count]; exact (C11.C11_add_shape o bits hs hsh).1, fun x hx => ?_⟩
  exact setAll_sets _ _ _ hsh.mpos hsh.len x hx

theorem present_add_mono {o : OnDisk} {hs : List Nat} (hs' : List Nat) (h : Present o hs) :
    Present (o.addAlt hs') hs := by
  obtain ⟨bits, hsh, hp⟩ := h
  refine ⟨_, by rw [C11.addAlt_count]; exact (C11.C11_add_shape o bits hs' hsh).1, fun x hx => ?_⟩
  exact setAll_mono _ _ _ hsh.mpos hsh.len _ (hp x hx)

/-- **close + reopen changes nothing but the `closed` flag**, and it does succeed -/
theorem ondisk_cycle_noop (geom : Geom) (o : OnDisk) (n : Nat) (h : DInv geom o n) :
    OnDisk.reopen geom o.close.file = .ok { o with closed := false } := by
  obtain ⟨bits, hsh⟩ := h.shape
  exact C11.C11_reopen geom o bits hsh h.stable h.est h.cnt0 (by have := h.room; omega) h.fpr

theorem dinv_reopened {geom : Geom} {o : OnDisk} {n : Nat} (h : DInv geom o n) :
    DInv geom { o with closed := false } n := by
  obtain ⟨bits, hsh⟩ := h.shape
  exact ⟨⟨bits, ⟨hsh.file, hsh.len, hsh.mpos⟩⟩, h.stable, h.est, h.fpr, h.cnt0, h.room⟩

theorem present_reopened {o : OnDisk} {hs : List Nat} (h : Present o hs) :
    Present { o with closed := false } hs := by
  obtain ⟨bits, hsh, hp⟩ := h
  exact ⟨bits, ⟨hsh.file, hsh.len, hsh.mpos⟩, hp⟩

theorem c11_step_cycle (geom : Geom) (o : OnDisk) (n : Nat) (h : DInv geom o n) :
    C11.step geom o .cycle = { o with closed := false } := by
  show (match OnDisk.reopen geom o.close.file with | .ok o' => o' | .error _ => o) = _
  rw [ondisk_cycle_noop geom o n h]

/-- the whole history at once: the strict run never fails and is the run of `C11.step`; the
    invariant survives; what was present stays present; what is added is present -/
theorem ondisk_run_spec (geom : Geom) (ops : List C11.Op) (o : OnDisk)
    (h : DInv geom o (C11.adds ops)) :
    drun geom o ops = .ok (ops.foldl (C11.step geom) o) ∧
      DInv geom (ops.foldl (C11.step geom) o) 0 ∧
      (ops.foldl (C11.step geom) o).k = o.k ∧
      (∀ hs, Present o hs → Present (ops.foldl (C11.step geom) o) hs) ∧
      (∀ hs ∈ dadded ops, Present (ops.foldl (C11.step geom) o) hs) := by
  induction ops generalizing o with
  | nil => exact ⟨rfl, h, rfl, fun _ hp => hp, fun hs hm => by simp [dadded] at hm⟩
  | cons op ops ih =>
      cases op with
      | add hs' =>
          have hi : DInv geom (o.addAlt hs') (C11.adds ops) := dinv_add hs' h
          obtain ⟨r1, r2, r3, r4, r5⟩ := ih (o.addAlt hs') hi
          simp only [List.foldl_cons, C11.step_add]
          refine ⟨by simp only [drun, dstep]; exact r1, r2, by rw [r3]; rfl,
            fun hs hp => r4 hs (present_add_mono hs' hp), fun hs hm => ?_⟩
          simp only [dadded, List.mem_cons] at hm
          rcases hm with rfl | hm
          · exact r4 _ (present_add_self o _ geom _ h)
          · exact r5 hs hm
      | cycle =>
          have hn : C11.adds (C11.Op.cycle :: ops) = C11.adds ops := rfl
          rw [hn] at h
          have hi : DInv geom { o with closed := false } (C11.adds ops) := dinv_reopened h
          obtain ⟨r1, r2, r3, r4, r5⟩ := ih _ hi
          simp only [List.foldl_cons, c11_step_cycle geom o _ h]
          refine ⟨?_, r2, r3, fun hs hp => r4 hs (present_reopened hp), fun hs hm => r5 hs hm⟩
          simp only [drun, dstep, ondisk_cycle_noop geom o _ h]
          exact r1

/-- no reopen in any history fails; the strict run is the run of `C11.step` -/
theorem ondisk_run_ok (geom : Geom) (ops : List C11.Op) (o₀ : OnDisk)
    (h : DInv geom o₀ (C11.adds ops)) : drun geom o₀ ops = .ok (ops.foldl (C11.step geom) o₀) :=
  (ondisk_run_spec geom ops o₀ h).1

/-- **C01 for the on-disk filter, on hash lists**: after any sequence of `add_alt(hs)` and
    close+reopen cycles every hash list (of at least `k` hashes) ever added is reported present by
    `check_alt` on the reopened / still open file -/
theorem ondisk_full_history (geom : Geom) (o₀ : OnDisk) (ops : List C11.Op)
    (h : DInv geom o₀ (C11.adds ops)) (hs : List Nat) (hmem : hs ∈ dadded ops)
    (hl : o₀.k ≤ hs.length) :
    ∃ o, drun geom o₀ ops = .ok o ∧ o.checkAlt hs = .ok true := by
  obtain ⟨r1, _, r3, _, r5⟩ := ondisk_run_spec geom ops o₀ h
  exact ⟨_, r1, (r5 hs hmem).check (by rw [r3]; exact hl)⟩

/-- what the start state reports is kept (the on-disk history has no `clear`) -/
theorem ondisk_full_history_keeps (geom : Geom) (o₀ : OnDisk) (ops : List C11.Op)
    (h : DInv geom o₀ (C11.adds ops)) (hs : List Nat) (hp : Present o₀ hs) (hl : o₀.k ≤ hs.length) :
    ∃ o, drun geom o₀ ops = .ok o ∧ o.checkAlt hs = .ok true := by
  obtain ⟨r1, _, r3, r4, _⟩ := ondisk_run_spec geom ops o₀ h
  exact ⟨_, r1, (r4 hs hp).check (by rw [r3]; exact hl)⟩

/-- a freshly created file satisfies the invariant -/
theorem dinv_create (geom : Geom) (est fpr32 k m n : Nat) (hm : 0 < m) (he : est < 2 ^ 64)
    (hf : fpr32 < 2 ^ 32) (hn : n < 2 ^ 64) (hg : C05.GeomStable geom est fpr32 k m) :
    ∃ o, OnDisk.create est fpr32 k m = .ok o ∧ o.k = k ∧ DInv geom o n := by
  obtain ⟨o, hc, hsh, c0, e1, e2, e3, e4⟩ := C11.C11_create est fpr32 k m hm he hf
  refine ⟨o, hc, e3, ⟨_, by rw [c0]; exact hsh⟩, by rw [e1, e2, e3, e4]; exact hg, by rw [e1]; exact he,
    by rw [e2]; exact hf, by rw [c0]; omega, by rw [c0]; omega⟩

/-- **from a created file**: `BloomFilterOnDisk(path, est, fpr)` succeeds, and after any history of
    adds and close+reopen cycles every hash list added (length ≥ k) checks true -/
theorem ondisk_full_history_created (geom : Geom) (est fpr32 k m : Nat) (hm : 0 < m)
    (he : est < 2 ^ 64) (hf : fpr32 < 2 ^ 32) (hg : C05.GeomStable geom est fpr32 k m) :
    ∃ o₀, OnDisk.create est fpr32 k m = .ok o₀ ∧
      ∀ (ops : List C11.Op), C11.adds ops < 2 ^ 64 → ∀ hs ∈ dadded ops, k ≤ hs.length →
        ∃ o, drun geom o₀ ops = .ok o ∧ o.checkAlt hs = .ok true := by
  obtain ⟨o, hc, _, _⟩ := dinv_create geom est fpr32 k m 0 hm he hf (by omega) hg
  refine ⟨o, hc, fun ops hn hs hmem hl => ?_⟩
  obtain ⟨o', hc', hk, hi⟩ := dinv_create geom est fpr32 k m (C11.adds ops) hm he hf hn hg
  rw [hc] at hc'; injection hc' with hc'; subst hc'
  exact ondisk_full_history geom o ops hi hs hmem (by rw [hk]; exact hl)

/-! ## non-vacuity (tests): concrete small filters satisfy the hypotheses, the runs are observable -/

/-- a geometry function for the tests: any `(est, rate pattern)` ↦ k = 3, m = 13 (two bytes, not a
    multiple of 8) -/
private def g13 : Geom := fun _ f => .ok (f, 3, 13)
private def est7 : Estimator := fun _ _ _ => 7
private def b13 : Bloom := Bloom.new 10 1028443341 3 13

/-- a history with both reload channels, a clear, a short add (raises half-way) and a union -/
private def bops : List BOp :=
  [.add [3, 14, 25], .reloadBytes, .clear, .add [7, 19, 1000], .reloadHex, .add [1],
   .union ((Bloom.new 10 1028443341 3 13).addAlt [4, 5, 6]).1 true, .reloadBytes, .query [1, 2, 3], .reloadHex]

private theorem bops_inv : BInv g13 b13 (adds bops) :=
  binv_new g13 10 1028443341 3 13 _ (by decide) (by decide) (by decide) (by decide) rfl

private theorem bops_unions : UnionsOK est7 bops := by
  intro o same hm
  have ho : o = ((Bloom.new 10 1028443341 3 13).addAlt [4, 5, 6]).1 := by
    simp only [bops, List.mem_cons, BOp.union.injEq, reduceCtorEq, false_or, List.not_mem_nil, or_false] at hm
    exact hm.1
  subst ho
  refine ⟨by decide, fun m k s => ?_⟩
  have : adds bops = 3 := rfl
  rw [this]
  simp only [est7]
  omega

/-- test: the hypotheses of `bloom_full_history` hold and its conclusion is what evaluation shows -/
example : [7, 19, 1000] ∈ addedSinceLastClear bops ∧
    (∃ b, brun g13 est7 b13 bops = .ok b ∧ b.checkAlt [7, 19, 1000] = .ok true) :=
  ⟨by decide, bloom_full_history g13 est7 b13 bops bops_inv bops_unions _ (by decide) (by decide)⟩

/-- test: the run evaluates, without error, to the state of the history without reloads; the key
    added before the `clear` is forgotten, the one added after it and the united one are present -/
example : brun g13 est7 b13 bops = .ok (C01.run est7 b13 (eraseReloads bops)) ∧
    (brun g13 est7 b13 bops).toOption.map (·.bits) = some [242, 16] ∧
    (brun g13 est7 b13 bops).toOption.map (·.checkAlt [7, 19, 1000]) = some (.ok true) ∧
    (brun g13 est7 b13 bops).toOption.map (·.checkAlt [4, 5, 6]) = some (.ok true) ∧
    (brun g13 est7 b13 bops).toOption.map (·.checkAlt [3, 14, 25]) = some (.ok false) := by
  refine ⟨by rfl, by rfl, by rfl, by rfl, by rfl⟩

/-- test: a single reload on a non-empty filter, both channels -/
example : reloadBytes g13 (b13.addAlt [3, 14, 25]).1 = .ok (b13.addAlt [3, 14, 25]).1 ∧
    reloadHex g13 (b13.addAlt [3, 14, 25]).1 = .ok (b13.addAlt [3, 14, 25]).1 := ⟨by rfl, by rfl⟩

/-- test: the excluded case is real — with the counter at 2^64 the export raises and the strict
    run reports the error -/
example : brun g13 est7 { b13 with count := 2 ^ 64 } [.add [1, 2, 3], .reloadBytes] = .error .structError := by
  rfl

/-- test: the stability hypothesis is needed — if the loader derives 8 bits instead of 13 the
    reload truncates the array and the added key is lost -/
example : (reloadBytes (fun _ f => .ok (f, 3, 8)) (b13.addAlt [3, 14, 25]).1).toOption.map
      (fun b => (b.bits, b.checkAlt [3, 14, 25])) = some ([10], .ok false) ∧
    (b13.addAlt [3, 14, 25]).1.bits = [10, 16] := ⟨by rfl, by rfl⟩

private def e13 : Expanding := Expanding.new 2 1028443341 3 13

/-- growth (est = 2), a push and three reloads -/
private def eops : List EOp :=
  [.add [3, 14, 25] false, .reload, .add [7, 19, 1000] false, .push, .reload, .add [1, 2, 3] true,
   .add [3, 14, 25] false, .add [40, 41, 42] false, .add [5, 6, 8] false, .reload, .add [9, 10, 11] false,
   .reload]

private theorem eops_inv : EInv g13 e13 (work eops) :=
  einv_new g13 2 1028443341 3 13 _ (by decide) (by decide) (by decide) (by decide) rfl

example : ∃ e, erun g13 e13 eops = .ok e ∧ e.checkAlt [3, 14, 25] = .ok true :=
  expanding_full_history g13 e13 eops eops_inv _ (by decide) (by decide)

/-- test: the run evaluates to the reload-free run, three sub-filters, first key still present -/
example : erun g13 e13 eops = .ok (C01.erun e13 (eraseEReloads eops)) ∧
    (erun g13 e13 eops).toOption.map (·.blooms.length) = some 3 ∧
    (erun g13 e13 eops).toOption.map (·.checkAlt [3, 14, 25]) = some (.ok true) ∧
    (erun g13 e13 eops).toOption.map (·.added) = some 7 := ⟨by rfl, by rfl, by rfl, by rfl⟩

/-- geometry for the on-disk tests: k = 2, m = 10 -/
private def g10 : Geom := fun _ f => .ok (f, 2, 10)

private def dops : List C11.Op := [.add [3, 12], .cycle, .add [5, 7], .cycle, .cycle, .add [9, 100, 4]]

/-- test: `ondisk_full_history_created` applies to a 10-bit file and the history `dops` -/
example : ∃ o₀, OnDisk.create 3 1036831949 2 10 = .ok o₀ ∧
    ∃ o, drun g10 o₀ dops = .ok o ∧ o.checkAlt [3, 12] = .ok true := by
  obtain ⟨o₀, hc, h⟩ := ondisk_full_history_created g10 3 1036831949 2 10 (by decide) (by decide) (by decide) rfl
  exact ⟨o₀, hc, h dops (by decide) [3, 12] (by decide) (by decide)⟩

/-- test: the same run evaluated: count 3 stored, the bits of all three adds in the file -/
example : (match OnDisk.create 3 1036831949 2 10 with
    | .ok o₀ => (drun g10 o₀ dops).toOption.map (fun o => (o.count, o.file.take 2, o.checkAlt [5, 7], o.checkAlt [6, 7]))
    | .error _ => none) = some (3, [173, 2], .ok true, .ok false) := by rfl

end PyProb.FullHistory
