/-
  Helper lemmas for the cuckoo filter model (properties C03 and C15), part 1:
  weighted sums over the bucket table (`tsum`), the structural table invariant `TS`,
  `insertAt`, one step of the kick loop, the kick loop, `insertFp`, `reinsert`, `expandLogic`.

  Everything that is "conserved" is expressed with `tsum f c` = the sum of `f bin` over all bins
  stored in the table, for an ARBITRARY weight `f : CBin → Nat`: occurrence counts of a
  fingerprint, occurrence counts of a bin value and the total count of a fingerprint are all
  instances.  Core Lean only.
-/
import PyProb.Model.Cuckoo

namespace PyProb.Cuckoo

/-! ### lists -/

theorem sum_map_set {α : Type} (f : α → Nat) (l : List α) (i : Nat) (h : i < l.length) (x : α) :
    ((l.set i x).map f).sum + f l[i] = (l.map f).sum + f x := by
  induction l generalizing i with
  | nil => simp at h
  | cons a l ih =>
    cases i with
    | zero => simp only [List.set_cons_zero, List.map_cons, List.sum_cons, List.getElem_cons_zero]; omega
    | succ i =>
      have := ih i (by simpa using h)
      simp only [List.set_cons_succ, List.map_cons, List.sum_cons, List.getElem_cons_succ]
      omega

theorem getD_set_nil {α : Type} (l : List (List α)) (i j : Nat) (h : i < l.length) (x : List α) :
    (l.set i x).getD j [] = if j = i then x else l.getD j [] := by
  simp only [List.getD_eq_getElem?_getD, List.getElem?_set]
  by_cases hij : i = j
  · subst hij; simp [h]
  · have : ¬ j = i := fun e => hij e.symm
    simp [hij, this]

theorem getD_eq_getElem_of_lt {α : Type} (l : List α) (i : Nat) (h : i < l.length) (d : α) :
    l.getD i d = l[i] := by
  simp [List.getD_eq_getElem?_getD, h]

theorem getD_nil_of_ge {α : Type} (l : List (List α)) (i : Nat) (h : l.length ≤ i) :
    l.getD i [] = [] := by
  simp [List.getD_eq_getElem?_getD, h]

theorem mem_flatten_iff_getD {α : Type} (l : List (List α)) (a : α) :
    a ∈ l.flatten ↔ ∃ i, a ∈ l.getD i [] := by
  rw [List.mem_flatten]
  constructor
  · rintro ⟨bkt, hb, ha⟩
    obtain ⟨i, hi, rfl⟩ := List.mem_iff_getElem.mp hb
    exact ⟨i, by rw [getD_eq_getElem_of_lt l i hi]; exact ha⟩
  · rintro ⟨i, ha⟩
    by_cases hi : i < l.length
    · rw [getD_eq_getElem_of_lt l i hi] at ha
      exact ⟨l[i], List.getElem_mem hi, ha⟩
    · rw [getD_nil_of_ge l i (by omega)] at ha; simp at ha

/-! ### weighted sums over the table -/

/-- sum of the weight `f` over a bucket -/
def bsum (f : CBin → Nat) (bkt : List CBin) : Nat := (bkt.map f).sum

/-- sum of the weight `f` over all stored bins -/
def tsum (f : CBin → Nat) (c : Cuckoo) : Nat := (c.buckets.map (bsum f)).sum

@[simp] theorem bsum_nil (f : CBin → Nat) : bsum f [] = 0 := rfl
@[simp] theorem bsum_cons (f : CBin → Nat) (a : CBin) (l : List CBin) : bsum f (a :: l) = f a + bsum f l := by
  simp [bsum]
@[simp] theorem bsum_append (f : CBin → Nat) (l₁ l₂ : List CBin) : bsum f (l₁ ++ l₂) = bsum f l₁ + bsum f l₂ := by
  simp [bsum]

theorem bsum_set (f : CBin → Nat) (bkt : List CBin) (i : Nat) (h : i < bkt.length) (x : CBin) :
    bsum f (bkt.set i x) + f bkt[i] = bsum f bkt + f x := sum_map_set f bkt i h x

theorem tsum_eq_flatten (f : CBin → Nat) (c : Cuckoo) : tsum f c = bsum f c.buckets.flatten := by
  unfold tsum
  induction c.buckets with
  | nil => rfl
  | cons a l ih => simp [ih]

theorem tsum_set (f : CBin → Nat) (bs : List (List CBin)) (i : Nat) (h : i < bs.length) (x : List CBin) :
    ((bs.set i x).map (bsum f)).sum + bsum f (bs.getD i []) = (bs.map (bsum f)).sum + bsum f x := by
  rw [getD_eq_getElem_of_lt bs i h]
  exact sum_map_set (bsum f) bs i h x

theorem bsum_le_tsum (f : CBin → Nat) (c : Cuckoo) (i : Nat) : bsum f (c.bucket i) ≤ tsum f c := by
  unfold bucket tsum
  by_cases hi : i < c.buckets.length
  · rw [getD_eq_getElem_of_lt _ i hi]
    generalize c.buckets = l at hi
    induction l generalizing i with
    | nil => simp at hi
    | cons a l ih =>
      cases i with
      | zero => simp
      | succ i =>
        have := ih i (by simpa using hi)
        simp only [List.getElem_cons_succ, List.map_cons, List.sum_cons]; omega
  · rw [getD_nil_of_ge _ i (by omega)]; simp

theorem bsum_pos_iff (f : CBin → Nat) (l : List CBin) : 0 < bsum f l ↔ ∃ bin ∈ l, 0 < f bin := by
  induction l with
  | nil => simp
  | cons a l ih =>
    simp only [bsum_cons, List.mem_cons, exists_eq_or_imp, ← ih]; omega

theorem bsum_congr (f g : CBin → Nat) (l : List CBin) (h : ∀ bin ∈ l, f bin = g bin) : bsum f l = bsum g l := by
  induction l with
  | nil => rfl
  | cons a l ih =>
    simp only [bsum_cons]
    rw [h a (by simp), ih (fun b hb => h b (by simp [hb]))]

/-- a bin is stored somewhere in the table -/
def stored (c : Cuckoo) (bin : CBin) : Prop := bin ∈ c.buckets.flatten

theorem stored_iff_bucket (c : Cuckoo) (bin : CBin) : stored c bin ↔ ∃ i, bin ∈ c.bucket i :=
  mem_flatten_iff_getD c.buckets bin

theorem tsum_pos_iff (f : CBin → Nat) (c : Cuckoo) : 0 < tsum f c ↔ ∃ bin, stored c bin ∧ 0 < f bin := by
  rw [tsum_eq_flatten, bsum_pos_iff]; rfl

/-- indicator weight of a bin value -/
def isBin (bn : CBin) : CBin → Nat := fun b => if b = bn then 1 else 0
/-- indicator weight of a fingerprint -/
def isFp (g : Nat) : CBin → Nat := fun b => if b.1 = g then 1 else 0
/-- count weight of a fingerprint -/
def cntW (g : Nat) : CBin → Nat := fun b => if b.1 = g then b.2 else 0

theorem stored_iff_tsum (c : Cuckoo) (bn : CBin) : stored c bn ↔ 0 < tsum (isBin bn) c := by
  rw [tsum_pos_iff]
  constructor
  · intro h; exact ⟨bn, h, by simp [isBin]⟩
  · rintro ⟨b, hb, hp⟩
    by_cases e : b = bn
    · exact e ▸ hb
    · simp [isBin, e] at hp

theorem bsum_isFp_eq_count (g : Nat) (l : List CBin) : bsum (isFp g) l = (l.map (·.1)).count g := by
  induction l with
  | nil => rfl
  | cons a l ih =>
    simp only [bsum_cons, List.map_cons, List.count_cons, ih, isFp, beq_iff_eq]; omega

theorem nodup_iff_tsum (c : Cuckoo) :
    (c.buckets.flatten.map (·.1)).Nodup ↔ ∀ g, tsum (isFp g) c ≤ 1 := by
  rw [List.nodup_iff_count]
  simp only [tsum_eq_flatten, bsum_isFp_eq_count]

/-! ### the structural invariant and the frame -/

/-- structural part of the table invariant: table length, bucket sizes, positions -/
structure TS (G : Nat → Nat) (c : Cuckoo) : Prop where
  len : c.buckets.length = c.cap
  cap_pos : 0 < c.cap
  b_pos : 0 < c.b
  size : ∀ i, (c.bucket i).length ≤ c.b
  pos : ∀ i, ∀ bin ∈ c.bucket i, i = bin.1 % c.cap ∨ i = G bin.1 % c.cap

/-- all configuration fields agree (the table and the element counters may differ) -/
structure Same (c c' : Cuckoo) : Prop where
  counting : c'.counting = c.counting
  cap : c'.cap = c.cap
  b : c'.b = c.b
  maxSwaps : c'.maxSwaps = c.maxSwaps
  rate : c'.rate = c.rate
  auto : c'.auto = c.auto
  fpBits : c'.fpBits = c.fpBits

theorem Same.refl (c : Cuckoo) : Same c c := ⟨rfl, rfl, rfl, rfl, rfl, rfl, rfl⟩
theorem Same.trans {a b c : Cuckoo} (h₁ : Same a b) (h₂ : Same b c) : Same a c :=
  ⟨h₂.counting.trans h₁.counting, h₂.cap.trans h₁.cap, h₂.b.trans h₁.b, h₂.maxSwaps.trans h₁.maxSwaps,
   h₂.rate.trans h₁.rate, h₂.auto.trans h₁.auto, h₂.fpBits.trans h₁.fpBits⟩

@[simp] theorem tsum_placed (f : CBin → Nat) (c : Cuckoo) (n : Nat) : tsum f (c.placed n) = tsum f c := rfl
theorem Same_placed (c : Cuckoo) (n : Nat) : Same c (c.placed n) := ⟨rfl, rfl, rfl, rfl, rfl, rfl, rfl⟩
theorem TS_placed {G : Nat → Nat} {c : Cuckoo} (n : Nat) (h : TS G c) : TS G (c.placed n) :=
  ⟨h.len, h.cap_pos, h.b_pos, h.size, h.pos⟩

/-! ### `insertAt` -/

theorem insertAt_none {c : Cuckoo} {i : Nat} {bin : CBin} (h : c.insertAt i bin = none) :
    c.b ≤ (c.bucket i).length := by
  unfold insertAt at h
  split at h
  · simp at h
  · omega

theorem insertAt_some {G : Nat → Nat} {c c' : Cuckoo} {i : Nat} {bin : CBin}
    (hs : TS G c) (hi : i < c.cap) (hv : i = bin.1 % c.cap ∨ i = G bin.1 % c.cap)
    (h : c.insertAt i bin = some c') :
    TS G c' ∧ Same c c' ∧ ∀ f, tsum f c' = tsum f c + f bin := by
  unfold insertAt at h
  split at h
  · rename_i hlt
    simp only [Option.some.injEq] at h
    subst h
    have hil : i < c.buckets.length := by rw [hs.len]; exact hi
    have hb : ∀ j, Cuckoo.bucket { c with buckets := c.buckets.set i (c.bucket i ++ [bin]) } j
        = if j = i then c.bucket i ++ [bin] else c.bucket j := by
      intro j; simp only [bucket]; exact getD_set_nil _ _ _ hil _
    refine ⟨⟨?_, hs.cap_pos, hs.b_pos, ?_, ?_⟩, ⟨rfl, rfl, rfl, rfl, rfl, rfl, rfl⟩, ?_⟩
    · simp [hs.len]
    · intro j; rw [hb]
      split
      · simp only [List.length_append, List.length_singleton]; exact hlt
      · exact hs.size j
    · intro j b; rw [hb]
      split
      · rename_i hj
        intro hm
        rcases List.mem_append.mp hm with hm | hm
        · exact hj ▸ hs.pos i b hm
        · simp only [List.mem_singleton] at hm
          subst hm; subst hj; exact hv
      · exact hs.pos j b
    · intro f
      have := tsum_set f c.buckets i hil (c.bucket i ++ [bin])
      simp only [tsum, bucket, bsum_append, bsum_cons, bsum_nil] at this ⊢
      omega
  · simp at h

/-! ### one step of the kick loop -/

/-- one eviction: the bin in hand replaces the bin in a slot of bucket `idx`; result: the new
    table, the victim (now in hand) and the victim's other candidate bucket -/
def kstep (G : Nat → Nat) (c : Cuckoo) (hand : CBin) (idx : Nat) (oracle : List Nat) : Cuckoo × CBin × Nat :=
  let slot := oracle.headD 0 % c.b
  let victim := (c.bucket idx).getD slot (0, 0)
  ({ c with buckets := c.buckets.set idx ((c.bucket idx).set slot hand) }, victim,
    if idx == victim.1 % c.cap then G victim.1 % c.cap else victim.1 % c.cap)

theorem kick_zero (G : Nat → Nat) (cnt : Nat) (c : Cuckoo) (hand : CBin) (idx : Nat) (o : List Nat) :
    kick G cnt 0 c hand idx o = (none, o) := rfl

theorem kick_succ (G : Nat → Nat) (cnt fuel : Nat) (c : Cuckoo) (hand : CBin) (idx : Nat) (o : List Nat) :
    kick G cnt (fuel + 1) c hand idx o =
      match (kstep G c hand idx o).1.insertAt (kstep G c hand idx o).2.2 (kstep G c hand idx o).2.1 with
      | some c' => (some (c'.placed cnt), o.tail)
      | none => kick G cnt fuel (kstep G c hand idx o).1 (kstep G c hand idx o).2.1 (kstep G c hand idx o).2.2 o.tail := rfl

theorem kstep_spec {G : Nat → Nat} {c : Cuckoo} {hand : CBin} {idx : Nat} (o : List Nat)
    (hs : TS G c) (hi : idx < c.cap) (hfull : (c.bucket idx).length = c.b)
    (hv : idx = hand.1 % c.cap ∨ idx = G hand.1 % c.cap) :
    TS G (kstep G c hand idx o).1 ∧ Same c (kstep G c hand idx o).1 ∧
    (kstep G c hand idx o).2.2 < c.cap ∧
    ((kstep G c hand idx o).2.2 = (kstep G c hand idx o).2.1.1 % c.cap ∨
      (kstep G c hand idx o).2.2 = G (kstep G c hand idx o).2.1.1 % c.cap) ∧
    ∀ f, tsum f (kstep G c hand idx o).1 + f (kstep G c hand idx o).2.1 = tsum f c + f hand := by
  have hil : idx < c.buckets.length := by rw [hs.len]; exact hi
  have hslot : o.headD 0 % c.b < (c.bucket idx).length := by rw [hfull]; exact Nat.mod_lt _ hs.b_pos
  simp only [kstep]
  generalize o.headD 0 % c.b = slot at hslot
  have hvic : (c.bucket idx).getD slot (0, 0) = (c.bucket idx)[slot] := getD_eq_getElem_of_lt _ _ hslot _
  have hvm : (c.bucket idx)[slot] ∈ c.bucket idx := List.getElem_mem hslot
  have hb : ∀ j, Cuckoo.bucket { c with buckets := c.buckets.set idx ((c.bucket idx).set slot hand) } j
      = if j = idx then (c.bucket idx).set slot hand else c.bucket j := by
    intro j; simp only [bucket]; exact getD_set_nil _ _ _ hil _
  have hvpos := hs.pos idx _ hvm
  have hcons : ∀ f : CBin → Nat,
      tsum f { c with buckets := c.buckets.set idx ((c.bucket idx).set slot hand) } + f (c.bucket idx)[slot]
        = tsum f c + f hand := by
    intro f
    have h1 := tsum_set f c.buckets idx hil ((c.bucket idx).set slot hand)
    have h2 := bsum_set f (c.bucket idx) slot hslot hand
    simp only [tsum, bucket] at h1 h2 ⊢
    omega
  rw [hvic]
  generalize (c.bucket idx)[slot] = victim at hvm hvpos hcons
  refine ⟨⟨?_, hs.cap_pos, hs.b_pos, ?_, ?_⟩, ⟨rfl, rfl, rfl, rfl, rfl, rfl, rfl⟩, ?_, ?_, ?_⟩
  · simp [hs.len]
  · intro j; rw [hb]
    split
    · rename_i hj; subst hj; simp only [List.length_set]; exact hs.size j
    · exact hs.size j
  · intro j b; rw [hb]
    split
    · rename_i hj
      intro hm
      rcases List.mem_or_eq_of_mem_set hm with hm | hm
      · exact hj ▸ hs.pos idx b hm
      · subst hm; subst hj; exact hv
    · exact hs.pos j b
  · split <;> exact Nat.mod_lt _ hs.cap_pos
  · by_cases e : idx = victim.1 % c.cap
    · simp [e]
    · simp [e]
  · exact hcons

/-! ### the kick loop -/

theorem kick_spec (G : Nat → Nat) (cnt : Nat) : ∀ (fuel : Nat) (c : Cuckoo) (hand : CBin) (idx : Nat)
    (o : List Nat) (c' : Cuckoo) (o' : List Nat),
    TS G c → idx < c.cap → (c.bucket idx).length = c.b →
    (idx = hand.1 % c.cap ∨ idx = G hand.1 % c.cap) →
    kick G cnt fuel c hand idx o = (some c', o') →
    TS G c' ∧ Same c c' ∧ ∀ f, tsum f c' = tsum f c + f hand := by
  intro fuel
  induction fuel with
  | zero => intro c hand idx o c' o' _ _ _ _ h; simp [kick_zero] at h
  | succ fuel ih =>
    intro c hand idx o c' o' hs hi hfull hv h
    rw [kick_succ] at h
    obtain ⟨hs1, hsame, hi', hv', hcons⟩ := kstep_spec o hs hi hfull hv
    generalize kstep G c hand idx o = st at *
    obtain ⟨c1, victim, idx'⟩ := st
    simp only at *
    rw [← hsame.cap] at hi' hv'
    split at h
    · rename_i c2 hins
      simp only [Prod.mk.injEq, Option.some.injEq] at h
      obtain ⟨rfl, _⟩ := h
      obtain ⟨hs2, hsame2, hc2⟩ := insertAt_some hs1 hi' hv' hins
      refine ⟨TS_placed _ hs2, hsame.trans (hsame2.trans (Same_placed _ _)), ?_⟩
      intro f; have := hc2 f; have := hcons f; simp only [tsum_placed]; omega
    · rename_i hins
      have hge := insertAt_none hins
      have hle := hs1.size idx'
      obtain ⟨hs2, hsame2, hc2⟩ := ih c1 victim idx' o.tail c' o' hs1 hi' (by omega) hv' h
      refine ⟨hs2, hsame.trans hsame2, ?_⟩
      intro f; have := hc2 f; have := hcons f; omega

/-- a failed kick loop consumes oracle draws but returns no table -/
theorem kick_none_or_some (G : Nat → Nat) (cnt fuel : Nat) (c : Cuckoo) (hand : CBin) (idx : Nat) (o : List Nat) :
    (∃ o', kick G cnt fuel c hand idx o = (none, o')) ∨ (∃ c' o', kick G cnt fuel c hand idx o = (some c', o')) := by
  generalize kick G cnt fuel c hand idx o = r
  obtain ⟨r1, r2⟩ := r
  cases r1 with
  | none => exact Or.inl ⟨r2, rfl⟩
  | some c' => exact Or.inr ⟨c', r2, rfl⟩

/-! ### `insertFp` -/

theorem insertFp_spec {G : Nat → Nat} {c : Cuckoo} (bin : CBin) (o : List Nat) (hs : TS G c) :
    ((insertFp G c bin (bin.1 % c.cap) (G bin.1 % c.cap) o).2.1 = none ∧
      TS G (insertFp G c bin (bin.1 % c.cap) (G bin.1 % c.cap) o).1 ∧
      Same c (insertFp G c bin (bin.1 % c.cap) (G bin.1 % c.cap) o).1 ∧
      ∀ f, tsum f (insertFp G c bin (bin.1 % c.cap) (G bin.1 % c.cap) o).1 = tsum f c + f bin) ∨
    ((insertFp G c bin (bin.1 % c.cap) (G bin.1 % c.cap) o).2.1 = some bin ∧
      (insertFp G c bin (bin.1 % c.cap) (G bin.1 % c.cap) o).1 = c) := by
  have h1 : bin.1 % c.cap < c.cap := Nat.mod_lt _ hs.cap_pos
  have h2 : G bin.1 % c.cap < c.cap := Nat.mod_lt _ hs.cap_pos
  unfold insertFp
  split
  · rename_i c1 hins
    obtain ⟨hs1, hsame1, hc1⟩ := insertAt_some hs h1 (Or.inl rfl) hins
    exact Or.inl ⟨rfl, TS_placed _ hs1, hsame1.trans (Same_placed _ _), fun f => by simpa using hc1 f⟩
  · rename_i hn1
    split
    · rename_i c1 hins
      obtain ⟨hs1, hsame1, hc1⟩ := insertAt_some hs h2 (Or.inr rfl) hins
      exact Or.inl ⟨rfl, TS_placed _ hs1, hsame1.trans (Same_placed _ _), fun f => by simpa using hc1 f⟩
    · rename_i hn2
      have hf1 : (c.bucket (bin.1 % c.cap)).length = c.b := by
        have := insertAt_none hn1; have := hs.size (bin.1 % c.cap); omega
      have hf2 : (c.bucket (G bin.1 % c.cap)).length = c.b := by
        have := insertAt_none hn2; have := hs.size (G bin.1 % c.cap); omega
      simp only
      have hidx : ∀ idx, (idx = bin.1 % c.cap ∨ idx = G bin.1 % c.cap) →
          idx < c.cap ∧ (c.bucket idx).length = c.b := by
        intro idx h; rcases h with rfl | rfl
        · exact ⟨h1, hf1⟩
        · exact ⟨h2, hf2⟩
      have hv : (if o.headD 0 == 0 then bin.1 % c.cap else G bin.1 % c.cap) = bin.1 % c.cap ∨
          (if o.headD 0 == 0 then bin.1 % c.cap else G bin.1 % c.cap) = G bin.1 % c.cap := by
        split
        · exact Or.inl rfl
        · exact Or.inr rfl
      generalize (if o.headD 0 == 0 then bin.1 % c.cap else G bin.1 % c.cap) = idx at hv
      obtain ⟨hi, hfull⟩ := hidx idx hv
      rcases kick_none_or_some G bin.2 c.maxSwaps c bin idx o.tail with ⟨o', hk⟩ | ⟨c', o', hk⟩
      · rw [hk]; exact Or.inr ⟨rfl, rfl⟩
      · rw [hk]
        obtain ⟨hs', hsame', hc'⟩ := kick_spec G bin.2 c.maxSwaps c bin idx o.tail c' o' hs hi hfull hv hk
        exact Or.inl ⟨rfl, hs', hsame', hc'⟩

/-! ### `reinsert` and `expandLogic` -/

theorem reinsert_spec (G : Nat → Nat) : ∀ (bins : List CBin) (c : Cuckoo) (o : List Nat) (c' : Cuckoo) (o' : List Nat),
    TS G c → reinsert G bins c o = (some c', o') →
    TS G c' ∧ Same c c' ∧ ∀ f, tsum f c' = tsum f c + bsum f bins := by
  intro bins
  induction bins with
  | nil =>
    intro c o c' o' hs h
    simp only [reinsert, Prod.mk.injEq, Option.some.injEq] at h
    obtain ⟨rfl, _⟩ := h
    exact ⟨hs, Same.refl _, fun f => by simp⟩
  | cons bin rest ih =>
    intro c o c' o' hs h
    simp only [reinsert, indices] at h
    have hspec := insertFp_spec (G := G) bin o hs
    generalize insertFp G c bin (bin.1 % c.cap) (G bin.1 % c.cap) o = r at h hspec
    obtain ⟨c1, left, o1⟩ := r
    cases left with
    | some l => simp at h
    | none =>
      simp only at h hspec
      rcases hspec with ⟨_, hs1, hsame1, hc1⟩ | ⟨hbad, _⟩
      · obtain ⟨hs2, hsame2, hc2⟩ := ih c1 o1 c' o' hs1 h
        refine ⟨hs2, hsame1.trans hsame2, fun f => ?_⟩
        have := hc1 f; have := hc2 f; simp only [bsum_cons]; omega
      · simp at hbad

/-- all configuration fields except the capacity agree -/
structure SameX (c c' : Cuckoo) : Prop where
  counting : c'.counting = c.counting
  b : c'.b = c.b
  maxSwaps : c'.maxSwaps = c.maxSwaps
  rate : c'.rate = c.rate
  auto : c'.auto = c.auto
  fpBits : c'.fpBits = c.fpBits

theorem Same.toX {c c' : Cuckoo} (h : Same c c') : SameX c c' :=
  ⟨h.counting, h.b, h.maxSwaps, h.rate, h.auto, h.fpBits⟩
theorem SameX.refl (c : Cuckoo) : SameX c c := ⟨rfl, rfl, rfl, rfl, rfl, rfl⟩
theorem SameX.trans {a b c : Cuckoo} (h₁ : SameX a b) (h₂ : SameX b c) : SameX a c :=
  ⟨h₂.counting.trans h₁.counting, h₂.b.trans h₁.b, h₂.maxSwaps.trans h₁.maxSwaps,
   h₂.rate.trans h₁.rate, h₂.auto.trans h₁.auto, h₂.fpBits.trans h₁.fpBits⟩

/-- the empty table of the enlarged capacity -/
def emptied (c : Cuckoo) : Cuckoo :=
  { c with cap := c.cap * c.rate, buckets := List.replicate (c.cap * c.rate) [], count := 0, unique := 0 }

/-- the weight of the optional extra bin -/
def optW (f : CBin → Nat) : Option CBin → Nat
  | none => 0
  | some bin => f bin

theorem expandLogic_eq (G : Nat → Nat) (c : Cuckoo) (extra : Option CBin) (o : List Nat) :
    expandLogic G c extra o =
      match reinsert G (extra.toList ++ c.buckets.flatten) (emptied c) o with
      | (some c', oracle') => (c', none, oracle')
      | (none, oracle') => (c, some Err.cuckooFull, oracle') := rfl

theorem expandLogic_spec {G : Nat → Nat} {c : Cuckoo} (extra : Option CBin) (o : List Nat)
    (hs : TS G c) (hr : 0 < c.rate) :
    ((expandLogic G c extra o).2.1 = none ∧ TS G (expandLogic G c extra o).1 ∧
      SameX c (expandLogic G c extra o).1 ∧ (expandLogic G c extra o).1.cap = c.cap * c.rate ∧
      ∀ f, tsum f (expandLogic G c extra o).1 = tsum f c + optW f extra) ∨
    ((expandLogic G c extra o).2.1 = some .cuckooFull ∧ (expandLogic G c extra o).1 = c) := by
  have hbk : ∀ i, (emptied c).bucket i = [] := by
    intro i
    simp only [emptied, bucket, List.getD_eq_getElem?_getD, List.getElem?_replicate]
    split <;> rfl
  have hse : TS G (emptied c) := by
    refine ⟨by simp [emptied], Nat.mul_pos hs.cap_pos hr, hs.b_pos, ?_, ?_⟩
    · intro i; rw [hbk]; simp
    · intro i b; rw [hbk]; simp
  have hte : ∀ f, tsum f (emptied c) = 0 := by
    intro f; rw [tsum_eq_flatten]; simp [emptied]
  rw [expandLogic_eq]
  generalize hrr : reinsert G (extra.toList ++ c.buckets.flatten) (emptied c) o = r
  obtain ⟨r1, o'⟩ := r
  cases r1 with
  | none => exact Or.inr ⟨rfl, rfl⟩
  | some c' =>
    obtain ⟨hs', hsame', hc'⟩ := reinsert_spec G _ _ o c' o' hse hrr
    refine Or.inl ⟨rfl, hs', ⟨hsame'.counting, hsame'.b, hsame'.maxSwaps, hsame'.rate, hsame'.auto,
      hsame'.fpBits⟩, hsame'.cap, fun f => ?_⟩
    have := hc' f
    rw [hte, bsum_append, ← tsum_eq_flatten] at this
    cases extra with
    | none => simpa [optW] using this
    | some b => simp only [Option.toList, bsum_cons, bsum_nil, optW] at this ⊢; omega

end PyProb.Cuckoo
