/-
  Every canonical set fits: for a set `S` with fewer than `n` elements (all quotients `< n`), the
  slot chosen by `Spec.emptySlot` is a slot nothing hashes to, and the placement that starts behind
  it ends in front of it (`Spec.Fits`).  This is the "one slot stays empty" combinatorics (a cycle
  lemma) behind the canonical layout.
-/
import PyProb.Lemmas.QFLayoutLin

namespace PyProb.Spec
open PyProb PyProb.QFLin

/-! ### sums over an interval -/

/-- `f lo + … + f (lo + len - 1)` -/
def sumR (f : Nat → Nat) (lo : Nat) : Nat → Nat
  | 0 => 0
  | len + 1 => sumR f lo len + f (lo + len)

theorem sumR_congr (f g : Nat → Nat) (lo len : Nat) (h : ∀ u, lo ≤ u → u < lo + len → f u = g u) :
    sumR f lo len = sumR g lo len := by
  induction len with
  | zero => rfl
  | succ len ih =>
      simp only [sumR]
      rw [ih (fun u h1 h2 => h u h1 (by omega)), h (lo + len) (by omega) (by omega)]

theorem countP_split (κ : Elem → Nat) (S : List Elem) (lo len : Nat) :
    S.countP (fun x => decide (lo ≤ κ x ∧ κ x < lo + (len + 1))) =
      S.countP (fun x => decide (lo ≤ κ x ∧ κ x < lo + len)) + S.countP (fun x => κ x == lo + len) := by
  induction S with
  | nil => rfl
  | cons x S ih =>
      simp only [List.countP_cons, ih]
      by_cases h1 : κ x = lo + len
      · have a1 : (lo ≤ κ x ∧ κ x < lo + (len + 1)) := by omega
        have a2 : ¬ (lo ≤ κ x ∧ κ x < lo + len) := by omega
        simp [h1]; omega
      · by_cases h2 : lo ≤ κ x ∧ κ x < lo + len
        · have a1 : (lo ≤ κ x ∧ κ x < lo + (len + 1)) := by omega
          simp [a1, h2, h1]; omega
        · have a1 : ¬ (lo ≤ κ x ∧ κ x < lo + (len + 1)) := by omega
          simp [a1, h2, h1]

/-- summing the number of elements with key `u` over an interval of keys counts the elements whose
    key lies in the interval -/
theorem sumR_countKey (κ : Elem → Nat) (S : List Elem) (lo len : Nat) :
    sumR (fun u => S.countP (fun x => κ x == u)) lo len =
      S.countP (fun x => decide (lo ≤ κ x ∧ κ x < lo + len)) := by
  induction len with
  | zero =>
      simp only [sumR]
      symm
      rw [List.countP_eq_zero]
      intro x _
      simp
  | succ len ih => rw [countP_split, ← ih]; rfl

/-! ### the carry -/

theorem carry_mono (n : Nat) (S : List Elem) (k : Nat) : carry n S k ≤ carry n S (k + n) := by
  induction k with
  | zero => simp [carry]
  | succ k ih =>
      rw [show k + 1 + n = (k + n) + 1 by omega]
      simp only [carry, Nat.add_mod_right]
      omega

theorem sum_cnt (n : Nat) (S : List Elem) (hq : ∀ x ∈ S, x.1 < n) : sumR (cnt S) 0 n = S.length := by
  have h : sumR (cnt S) 0 n = sumR (fun u => S.countP (fun x => x.1 == u)) 0 n := rfl
  rw [h, sumR_countKey (fun x => x.1) S 0 n, List.countP_eq_length]
  intro x hx
  have := hq x hx
  simp; omega

theorem exists_free (n : Nat) (S : List Elem) (hq : ∀ x ∈ S, x.1 < n) (hlen : S.length < n) :
    ∃ i, i < n ∧ isFree n S (n + i) = true := by
  apply Classical.byContradiction
  intro hno
  have hno' : ∀ i, i < n → 1 ≤ carry n S (n + i) + cnt S i := by
    intro i hi
    apply Classical.byContradiction
    intro h
    apply hno
    refine ⟨i, hi, ?_⟩
    have e1 : (n + i) % n = i := by rw [Nat.add_mod_left]; exact Nat.mod_eq_of_lt hi
    simp only [isFree, e1, Bool.and_eq_true, beq_iff_eq]
    omega
  have key : ∀ j, j ≤ n → carry n S (n + j) + j = carry n S n + sumR (cnt S) 0 j := by
    intro j
    induction j with
    | zero => intro _; simp [sumR]
    | succ j ih =>
        intro hj
        have := ih (by omega)
        have h1 := hno' j (by omega)
        have e1 : (n + j) % n = j := by rw [Nat.add_mod_left]; exact Nat.mod_eq_of_lt (by omega)
        rw [show n + (j + 1) = (n + j) + 1 by omega]
        simp only [carry, sumR, e1, Nat.zero_add]
        omega
  have h1 := key n (Nat.le_refl _)
  rw [sum_cnt n S hq] at h1
  have h2 := carry_mono n S n
  omega

theorem findFree_spec (n : Nat) (S : List Elem) : ∀ fuel i0,
    (∃ i, i0 ≤ i ∧ i < i0 + fuel ∧ isFree n S (n + i) = true) →
    isFree n S (n + findFree n S fuel i0) = true ∧ i0 ≤ findFree n S fuel i0 ∧
      findFree n S fuel i0 < i0 + fuel := by
  intro fuel
  induction fuel with
  | zero => rintro i0 ⟨i, h1, h2, _⟩; omega
  | succ fuel ih =>
      rintro i0 ⟨i, h1, h2, h3⟩
      simp only [findFree]
      by_cases hf : isFree n S (n + i0) = true
      · rw [if_pos hf]; exact ⟨hf, Nat.le_refl _, by omega⟩
      · rw [if_neg hf]
        have hne : i ≠ i0 := by intro h; subst h; exact hf h3
        obtain ⟨a, b, c⟩ := ih (i0 + 1) ⟨i, by omega, by omega, h3⟩
        exact ⟨a, by omega, by omega⟩

/-- the empty slot: in range, nothing hashes to it, nothing is pushed into it, and the carry is
    periodic from it on -/
theorem emptySlot_spec (n : Nat) (S : List Elem) (hq : ∀ x ∈ S, x.1 < n) (hlen : S.length < n) :
    emptySlot n S < n ∧ cnt S (emptySlot n S) = 0 ∧ carry n S (n + emptySlot n S) = 0 ∧
      carry n S (n + emptySlot n S + n) = 0 := by
  obtain ⟨i, hi, hfree⟩ := exists_free n S hq hlen
  obtain ⟨h1, _, h3⟩ := findFree_spec n S n 0 ⟨i, by omega, by omega, hfree⟩
  have he : emptySlot n S < n := by unfold emptySlot; omega
  generalize hee : emptySlot n S = e at *
  have h1' : isFree n S (n + e) = true := by rw [← hee]; exact h1
  have e1 : (n + e) % n = e := by rw [Nat.add_mod_left]; exact Nat.mod_eq_of_lt he
  simp only [isFree, e1, Bool.and_eq_true, beq_iff_eq] at h1'
  refine ⟨he, h1'.2, h1'.1, ?_⟩
  have h0 : carry n S e = 0 := by
    have := carry_mono n S e
    rw [Nat.add_comm e n] at this
    omega
  have hper : ∀ j, carry n S (e + j) = carry n S (n + e + j) := by
    intro j
    induction j with
    | zero => simp [h0, h1'.1]
    | succ j ih =>
        rw [show e + (j + 1) = (e + j) + 1 by omega, show n + e + (j + 1) = (n + e + j) + 1 by omega]
        simp only [carry, ih]
        rw [show n + e + j = n + (e + j) by omega, Nat.add_mod_left]
  rw [← hper n, Nat.add_comm e n]
  exact h1'.1

/-! ### from the carry to the positions -/

/-- the carry into the slot at distance `t + len` is at least the number of elements that hash
    into the `len` slots before it, minus `len` -/
theorem carry_lower (n e : Nat) (S : List Elem) (t : Nat) : ∀ len,
    sumR (fun u => cnt S (io n e u)) t len ≤ carry n S (n + e + 1 + (t + len)) + len := by
  intro len
  induction len with
  | zero => simp [sumR]
  | succ len ih =>
      rw [show n + e + 1 + (t + (len + 1)) = (n + e + 1 + (t + len)) + 1 by omega]
      simp only [sumR, carry]
      have : (n + e + 1 + (t + len)) % n = io n e (t + len) := by
        simp only [io]
        rw [show n + e + 1 + (t + len) = n + (e + 1 + (t + len)) by omega, Nat.add_mod_left]
      rw [this]
      omega

theorem io_last (n e : Nat) (he : e < n) : io n e (n - 1) = e := by
  simp only [io]
  rw [show e + 1 + (n - 1) = e + n by omega, Nat.add_mod_right]
  exact Nat.mod_eq_of_lt he

theorem posF_le (d : Nat → Nat) : ∀ i B, (∀ k, k ≤ i → d k + (i - k) ≤ B) → posF d i ≤ B := by
  intro i
  induction i with
  | zero => intro B h; have := h 0 (Nat.le_refl _); simpa [posF] using this
  | succ i ih =>
      intro B h
      have h1 := h (i + 1) (Nat.le_refl _)
      have h2 : posF d i ≤ B - 1 := by
        apply ih
        intro k hk
        have := h k (by omega)
        omega
      have h3 := h 0 (by omega)
      simp only [posF]
      omega

/-- **every canonical set fits** -/
theorem canon_fits (n : Nat) (S : List Elem) (hS : Sorted S) (hq : ∀ x ∈ S, x.1 < n)
    (hlen : S.length < n) : Fits n S := by
  obtain ⟨he, hcnt, _, hc1⟩ := emptySlot_spec n S hq hlen
  refine ⟨he, hcnt, ?_⟩
  generalize hee : emptySlot n S = e at *
  have hno : NoQuot e S := (cnt_zero_iff S e).1 hcnt
  generalize hT : rot e S = T
  have hperm : T.Perm S := by rw [← hT]; exact rot_perm e S hno
  have hTlen : T.length = S.length := hperm.length_eq
  have hsorted : T.Pairwise (ltRot n e) := by rw [← hT]; exact rot_sorted n e he S hS hq
  have hn : 0 < n := by omega
  -- homes are monotone along `T`
  have hdm : ∀ i k, i ≤ k → k < S.length → dOf n e T i ≤ dOf n e T k := by
    intro i k hik hk
    by_cases h : i = k
    · subst h; exact Nat.le_refl _
    · rw [List.pairwise_iff_getElem] at hsorted
      have := hsorted i k (by omega) (by omega) (by omega)
      simp only [ltRot] at this
      simp only [dOf, List.getD_eq_getElem?_getD, List.getElem?_eq_getElem (show i < T.length by omega),
        List.getElem?_eq_getElem (show k < T.length by omega), Option.getD_some]
      omega
  -- every home is in front of the empty slot
  have hoff : ∀ x ∈ S, off n e x.1 < n - 1 := by
    intro x hx
    have h1 := off_lt_n n e x.1 hn
    by_cases h2 : off n e x.1 = n - 1
    · exfalso
      have := io_off n e x.1 he (hq x hx)
      rw [h2, io_last n e he] at this
      exact hno x hx this.symm
    · omega
  intro i hi
  have hbound : ∀ k, k ≤ i → dOf n e T k + (i - k) ≤ n - 2 := by
    intro k hk
    -- the elements `k, k+1, …` all hash into the slots from the home of `k` to the empty slot
    have hdk : dOf n e T k < n - 1 := by
      have hmem := getD_mem T k (by omega)
      exact hoff _ (hperm.mem_iff.1 hmem)
    have h1 := carry_lower n e S (dOf n e T k) (n - 1 - dOf n e T k)
    rw [show n + e + 1 + (dOf n e T k + (n - 1 - dOf n e T k)) = n + e + n by omega, hc1] at h1
    have h2 : sumR (fun u => cnt S (io n e u)) (dOf n e T k) (n - 1 - dOf n e T k) =
        sumR (fun u => S.countP (fun x => off n e x.1 == u)) (dOf n e T k) (n - 1 - dOf n e T k) := by
      apply sumR_congr
      intro u hu1 hu2
      simp only [cnt]
      apply List.countP_congr
      intro x hx
      simp only [beq_iff_eq]
      constructor
      · intro h; rw [h]; exact off_io n e u he (by omega)
      · intro h; rw [← h]; exact (io_off n e x.1 he (hq x hx)).symm
    rw [h2, sumR_countKey (fun x => off n e x.1) S] at h1
    have hdmk : ∀ j, k + j < S.length → dOf n e T k ≤ dOf n e T (k + j) :=
      fun j hj => hdm k (k + j) (by omega) hj
    generalize dOf n e T k = dk at h1 hdk hdmk ⊢
    rw [← hperm.countP_eq] at h1
    have hsplit : ∀ P : Elem → Bool, T.countP P = (T.take k).countP P + (T.drop k).countP P := by
      intro P; rw [← List.countP_append, List.take_append_drop]
    rw [hsplit] at h1
    have h3 : (T.drop k).countP (fun x => decide (dk ≤ off n e x.1 ∧
        off n e x.1 < dk + (n - 1 - dk))) = (T.drop k).length := by
      rw [List.countP_eq_length]
      intro y hy
      rw [List.mem_drop_iff_getElem] at hy
      obtain ⟨j, hj, rfl⟩ := hy
      have hj' : k + j < T.length := by omega
      have hm1 := hdmk j (by omega)
      have hmem : T[k + j] ∈ S := hperm.mem_iff.1 (List.getElem_mem hj')
      have hm2 := hoff _ hmem
      have e1 : dOf n e T (k + j) = off n e (T[k + j]).1 := by
        simp only [dOf, List.getD_eq_getElem?_getD, List.getElem?_eq_getElem hj', Option.getD_some]
      rw [e1] at hm1
      simp only [decide_eq_true_eq]
      omega
    rw [h3, List.length_drop] at h1
    omega
  have := posF_le (dOf n e T) i (n - 2) hbound
  have : 2 ≤ n := by omega
  omega

end PyProb.Spec
