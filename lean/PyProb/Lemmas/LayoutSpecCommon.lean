/-
  Bridges between the model's codecs (`Model/Base.lean`) and the independently written layout
  specification (`Spec/Layout.lean`): the part that does not depend on any data-structure family
  (integers, cell arrays).
-/
import PyProb.Lemmas.Codec
import PyProb.Spec.Layout

namespace PyProb

/-! ### integers -/

theorem leBytes4_eq (v : Nat) : leBytes 4 v = Spec.u32le v := by
  simp only [leBytes, Spec.u32le]
  congr 1 <;> (try congr 1) <;> (try congr 1) <;> (try congr 1) <;> omega

theorem leBytes8_eq (v : Nat) : leBytes 8 v = Spec.u64le v := by
  simp only [leBytes, Spec.u64le, Nat.div_div_eq_div_mul]

theorem leBytesInt4_nat {v : Int} (h0 : 0 ≤ v) (h1 : v ≤ 4294967295) :
    leBytesInt 4 v = Spec.u32le v.toNat := by
  rw [leBytesInt_nonneg h0 (by simp; omega), leBytes4_eq]

theorem leBytesInt8_nat {v : Int} (h0 : 0 ≤ v) (h1 : v ≤ 18446744073709551615) :
    leBytesInt 8 v = Spec.u64le v.toNat := by
  rw [leBytesInt_nonneg h0 (by simp; omega), leBytes8_eq]

theorem leBytesInt4_int {v : Int} (h0 : -2147483648 ≤ v) (h1 : v ≤ 2147483647) :
    leBytesInt 4 v = Spec.i32le v := by
  unfold leBytesInt Spec.i32le
  rw [leBytes4_eq]
  congr 1
  have : ((256 ^ 4 : Nat) : Int) = 4294967296 := by simp
  rw [this]
  split
  · have : v % 4294967296 = v + 4294967296 := by omega
    rw [this]
  · have : v % 4294967296 = v := by omega
    rw [this]

theorem leBytesInt8_int {v : Int} (h0 : -9223372036854775808 ≤ v) (h1 : v ≤ 9223372036854775807) :
    leBytesInt 8 v = Spec.i64le v := by
  unfold leBytesInt Spec.i64le
  rw [leBytes8_eq]
  congr 1
  have : ((256 ^ 8 : Nat) : Int) = 18446744073709551616 := by simp
  rw [this]
  split
  · have : v % 18446744073709551616 = v + 18446744073709551616 := by omega
    rw [this]
  · have : v % 18446744073709551616 = v := by omega
    rw [this]

theorem flatMap_congr' {α β} {l : List α} {f g : α → List β} (h : ∀ a ∈ l, f a = g a) :
    l.flatMap f = l.flatMap g := by
  simp only [List.flatMap_def, List.map_congr_left h]

/-! ### cell arrays -/

theorem cellsBytes_u32_spec (cells : List Int) (h : ∀ x ∈ cells, 0 ≤ x ∧ x ≤ 4294967295) :
    cellsBytes .u32 cells = (cells.map Int.toNat).flatMap Spec.u32le := by
  induction cells with
  | nil => rfl
  | cons c cs ih =>
      have hc := h c (by simp)
      have ih := ih (fun x hx => h x (List.mem_cons_of_mem _ hx))
      simp only [cellsBytes, List.flatMap_cons, List.map_cons] at ih ⊢
      rw [ih]; congr 1
      exact leBytesInt4_nat hc.1 hc.2

theorem cellsBytes_i32_spec (cells : List Int) (h : ∀ x ∈ cells, -2147483648 ≤ x ∧ x ≤ 2147483647) :
    cellsBytes .i32 cells = cells.flatMap Spec.i32le := by
  induction cells with
  | nil => rfl
  | cons c cs ih =>
      have hc := h c (by simp)
      have ih := ih (fun x hx => h x (List.mem_cons_of_mem _ hx))
      simp only [cellsBytes, List.flatMap_cons] at ih ⊢
      rw [ih]; congr 1
      exact leBytesInt4_int hc.1 hc.2

theorem list_eq_map_getD (l : List Int) (w : Nat) (h : w ≤ l.length) :
    l.take w = (List.range w).map fun j => l.getD j 0 := by
  apply List.ext_getElem
  · simp; omega
  · intro j h1 h2
    simp at h1 h2
    simp [List.getD_eq_getElem?_getD, List.getElem?_eq_getElem (show j < l.length by omega)]

/-- a flat array of `w*d` cells is the row-major concatenation of its rows -/
theorem flatMap_rows {β} (w d : Nat) (cells : List Int) (g : Int → List β) (h : cells.length = w * d) :
    cells.flatMap g = (List.range d).flatMap fun i => (List.range w).flatMap fun j => g (cells.getD (i * w + j) 0) := by
  induction d generalizing cells with
  | zero =>
      have : cells = [] := List.eq_nil_of_length_eq_zero (by simpa using h)
      subst this; rfl
  | succ d ih =>
      have hw : w ≤ cells.length := by rw [h, Nat.mul_succ]; omega
      have hsplit : cells = cells.take w ++ cells.drop w := (List.take_append_drop w cells).symm
      have hd : (cells.drop w).length = w * d := by rw [List.length_drop, h, Nat.mul_succ]; omega
      rw [List.range_succ_eq_map, List.flatMap_cons, List.flatMap_map]
      conv => lhs; rw [hsplit, List.flatMap_append, ih _ hd, list_eq_map_getD cells w hw, List.flatMap_map]
      simp only [Nat.zero_mul, Nat.zero_add]
      congr 1
      apply flatMap_congr'
      intro i _
      apply flatMap_congr'
      intro j _
      congr 1
      simp only [List.getD_eq_getElem?_getD, List.getElem?_drop]
      congr 2
      rw [Nat.succ_mul]; omega

end PyProb
