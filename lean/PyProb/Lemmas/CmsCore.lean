/-
  Helper lemmas about the count-min sketch model (`PyProb/Model/CMS.lean`): list sums, the sorted
  head is the minimum, the store loops of `add_alt` / `remove_alt` in closed form, the index list.
  Core Lean only.
-/
import PyProb.Lemmas.GuardCanon
import PyProb.Model.CMS

namespace PyProb.CmsCore
open PyProb

/-! ### sums of integer lists -/

theorem sum_map_add {α} (l : List α) (f g : α → Int) :
    (l.map fun x => f x + g x).sum = (l.map f).sum + (l.map g).sum := by
  induction l with
  | nil => simp
  | cons a t ih => simp only [List.map_cons, List.sum_cons, ih]; omega

theorem sum_map_nonneg {α} (l : List α) (f : α → Int) (h : ∀ x ∈ l, 0 ≤ f x) :
    0 ≤ (l.map f).sum := by
  induction l with
  | nil => simp
  | cons a t ih =>
      simp only [List.map_cons, List.sum_cons]
      have := h a (by simp)
      have := ih (fun x hx => h x (by simp [hx]))
      omega

theorem sum_map_le {α} (l : List α) (f g : α → Int) (h : ∀ x ∈ l, f x ≤ g x) :
    (l.map f).sum ≤ (l.map g).sum := by
  induction l with
  | nil => simp
  | cons a t ih =>
      simp only [List.map_cons, List.sum_cons]
      have := h a (by simp)
      have := ih (fun x hx => h x (by simp [hx]))
      omega

theorem sum_map_zero {α} (l : List α) (f : α → Int) (h : ∀ x ∈ l, f x = 0) :
    (l.map f).sum = 0 := by
  induction l with
  | nil => simp
  | cons a t ih =>
      simp only [List.map_cons, List.sum_cons]
      have := h a (by simp)
      have := ih (fun x hx => h x (by simp [hx]))
      omega

/-- in a duplicate-free list exactly one entry equals `a` -/
theorem sum_map_ite_eq {α} [DecidableEq α] (ks : List α) (a : α) (f : α → Int)
    (nd : ks.Nodup) (ha : a ∈ ks) : (ks.map fun k => if a = k then f k else 0).sum = f a := by
  induction ks with
  | nil => simp at ha
  | cons k t ih =>
      simp only [List.map_cons, List.sum_cons]
      rw [List.nodup_cons] at nd
      by_cases e : a = k
      · subst e
        have : (t.map fun k => if a = k then f k else 0).sum = 0 :=
          sum_map_zero _ _ (fun x hx => by
            have : a ≠ x := fun e => nd.1 (e ▸ hx)
            simp [this])
        simp [this]
      · have : a ∈ t := by simpa [e] using ha
        simp [e, ih nd.2 this]

/-- induction on a history by its last operation -/
theorem snoc_ind {α} {P : List α → Prop} (h0 : P []) (h1 : ∀ l a, P l → P (l ++ [a])) :
    ∀ l, P l := by
  intro l
  rw [← List.reverse_reverse l]
  induction l.reverse with
  | nil => exact h0
  | cons a t ih => rw [List.reverse_cons]; exact h1 _ _ ih

/-- first occurrences only -/
def dedup {α} [DecidableEq α] : List α → List α
  | [] => []
  | k :: t => if k ∈ dedup t then dedup t else k :: dedup t

theorem mem_dedup {α} [DecidableEq α] (l : List α) (k : α) : k ∈ dedup l ↔ k ∈ l := by
  induction l with
  | nil => simp [dedup]
  | cons a t ih =>
      simp only [dedup]
      split
      · rename_i h
        rw [ih, List.mem_cons]
        constructor
        · exact Or.inr
        · rintro (e | e)
          · subst e; rw [← ih]; exact h
          · exact e
      · rw [List.mem_cons, List.mem_cons, ih]

theorem nodup_dedup {α} [DecidableEq α] (l : List α) : (dedup l).Nodup := by
  induction l with
  | nil => simp [dedup]
  | cons a t ih =>
      simp only [dedup]
      split
      · exact ih
      · rename_i h; exact List.nodup_cons.2 ⟨h, ih⟩

/-! ### the head of the sorted list is the minimum -/

theorem sortInts_length (l : List Int) : (CMS.sortInts l).length = l.length := by
  simp [CMS.sortInts]

theorem sortInts_mem (l : List Int) (x : Int) : x ∈ CMS.sortInts l ↔ x ∈ l := by
  simp [CMS.sortInts]

theorem sortInts_sorted (l : List Int) : (CMS.sortInts l).Pairwise (· ≤ ·) := by
  have := List.pairwise_mergeSort (le := fun a b : Int => decide (a ≤ b))
    (by intro a b c; simp; omega) (by intro a b; simp; omega) l
  simpa [CMS.sortInts] using this

/-- a non-empty list sorts to `x :: _` with `x` a member and a lower bound -/
theorem sortInts_head (l : List Int) (h : l ≠ []) :
    ∃ x rest, CMS.sortInts l = x :: rest ∧ x ∈ l ∧ ∀ y ∈ l, x ≤ y := by
  cases hs : CMS.sortInts l with
  | nil =>
      have := sortInts_length l
      rw [hs] at this
      simp at this
      exact absurd (List.eq_nil_of_length_eq_zero this.symm) h
  | cons x rest =>
      refine ⟨x, rest, rfl, ?_, ?_⟩
      · rw [← sortInts_mem, hs]; simp
      · intro y hy
        have hy' : y ∈ CMS.sortInts l := (sortInts_mem l y).2 hy
        have hp := sortInts_sorted l
        rw [hs] at hy' hp
        rw [List.pairwise_cons] at hp
        rcases List.mem_cons.1 hy' with e | e
        · omega
        · exact hp.1 y e

/-! ### repeated `set` with a value that depends only on the index -/

theorem foldl_set_length (idx : List Nat) (f : Nat → Int) (bins : List Int) :
    (idx.foldl (fun b x => b.set x (f x)) bins).length = bins.length := by
  induction idx generalizing bins with
  | nil => rfl
  | cons x t ih => simp [List.foldl_cons, ih]

theorem foldl_set_getElem? (idx : List Nat) (f : Nat → Int) (bins : List Int) (j : Nat)
    (hj : j < bins.length) :
    (idx.foldl (fun b x => b.set x (f x)) bins)[j]? =
      some (if j ∈ idx then f j else bins.getD j 0) := by
  induction idx generalizing bins with
  | nil => simp [List.getD_eq_getElem?_getD, hj]
  | cons x t ih =>
      rw [List.foldl_cons, ih _ (by simpa using hj)]
      by_cases e : j ∈ t
      · simp [e]
      · by_cases e2 : j = x
        · subst e2; simp [e, List.getD_eq_getElem?_getD, hj]
        · have : ¬ x = j := fun h => e2 h.symm
          simp [e, e2, List.getD_eq_getElem?_getD, this]

theorem foldl_set_forall (P : Int → Prop) (idx : List Nat) (f : Nat → Int) (bins : List Int)
    (hf : ∀ x, P (f x)) (hb : ∀ v ∈ bins, P v) :
    ∀ v ∈ idx.foldl (fun b x => b.set x (f x)) bins, P v := by
  induction idx generalizing bins with
  | nil => exact hb
  | cons x t ih =>
      rw [List.foldl_cons]
      apply ih
      intro v hv
      rcases List.mem_or_eq_of_mem_set hv with e | e
      · exact hb v e
      · subst e; exact hf x

/-! ### clamps -/

/-- what a 32-bit cell holds after a saturating store of `v` -/
def clamp32 (v : Int) : Int := max Gen.int32Min (min Gen.int32Max v)

theorem clamp32_range (v : Int) : Gen.int32Min ≤ clamp32 v ∧ clamp32 v ≤ Gen.int32Max := by
  simp only [clamp32, Gen.int32Min, Gen.int32Max]; omega

theorem clamp32_id (v : Int) (h0 : Gen.int32Min ≤ v) (h1 : v ≤ Gen.int32Max) : clamp32 v = v := by
  simp only [clamp32, Gen.int32Min, Gen.int32Max] at *; omega

theorem clampTotal_eq (t : Int) : CMS.clampTotal t = max Gen.int64Min (min Gen.int64Max t) := by
  simp only [CMS.clampTotal, Gen.cmsTotalMaxCmp, Cmp.evalInt, Gen.int64Min, Gen.int64Max,
    decide_eq_true_eq]
  omega

/-! ### the store loops -/

theorem addLoop_eq (g : Nat → Int) (idx : List Nat) (bins acc : List Int)
    (h : ∀ x ∈ idx, Gen.int32Min ≤ g x) :
    CMS.addLoop bins (idx.zip (idx.map g)) acc =
      (idx.foldl (fun b x => b.set x (clamp32 (g x))) bins,
       acc.reverse ++ idx.map (fun x => clamp32 (g x)), none) := by
  induction idx generalizing bins acc with
  | nil => simp [CMS.addLoop]
  | cons x t ih =>
      have hx := h x (by simp)
      have ht : ∀ y ∈ t, Gen.int32Min ≤ g y := fun y hy => h y (by simp [hy])
      simp only [List.map_cons, List.zip_cons_cons, CMS.addLoop, List.foldl_cons]
      by_cases c : g x > Gen.int32Max
      · have e : clamp32 (g x) = Gen.int32Max := by
          simp only [clamp32, Gen.int32Min, Gen.int32Max] at *; omega
        simp [Gen.cmsAddClampCmp, Cmp.evalInt, c, ih _ _ ht, e]
      · have e : clamp32 (g x) = g x := by
          simp only [clamp32, Gen.int32Min, Gen.int32Max] at *; omega
        have c2 : ¬ g x < (-2147483648 : Int) := by
          have := hx; simp only [Gen.int32Min] at this; omega
        simp [Gen.cmsAddClampCmp, Cmp.evalInt, c, c2, ih _ _ ht, e]

theorem removeLoop_eq (g : Nat → Int) (idx : List Nat) (bins acc : List Int)
    (h : ∀ x ∈ idx, g x ≤ Gen.int32Max) :
    CMS.removeLoop bins (idx.zip (idx.map g)) acc =
      (idx.foldl (fun b x => b.set x (clamp32 (g x))) bins,
       acc.reverse ++ idx.map (fun x => clamp32 (g x)), none) := by
  induction idx generalizing bins acc with
  | nil => simp [CMS.removeLoop]
  | cons x t ih =>
      have hx := h x (by simp)
      have ht : ∀ y ∈ t, g y ≤ Gen.int32Max := fun y hy => h y (by simp [hy])
      simp only [List.map_cons, List.zip_cons_cons, CMS.removeLoop, List.foldl_cons]
      by_cases c : g x > Gen.int32Min
      · have e : clamp32 (g x) = g x := by
          simp only [clamp32, Gen.int32Min, Gen.int32Max] at *; omega
        have c2 : ¬ g x > (2147483647 : Int) := by
          have := hx; simp only [Gen.int32Max] at this; omega
        simp [Gen.cmsRemoveKeepCmp, Cmp.evalInt, c, c2, ih _ _ ht, e]
      · have e : clamp32 (g x) = Gen.int32Min := by
          simp only [clamp32, Gen.int32Min, Gen.int32Max] at *; omega
        simp [Gen.cmsRemoveKeepCmp, Cmp.evalInt, c, ih _ _ ht, e]

/-! ### the index list `binIdx` -/

theorem binIdx_length (c : CMS) (hs : List Nat) : (c.binIdx hs).length = hs.length := by
  simp [CMS.binIdx]

theorem binIdx_getElem (c : CMS) (hs : List Nat) (i : Nat) (h : i < hs.length) :
    (c.binIdx hs)[i]'(by rw [binIdx_length]; exact h) = hs[i] % c.w + i * c.w := by
  simp [CMS.binIdx]

theorem mem_binIdx (c : CMS) (hs : List Nat) (x : Nat) :
    x ∈ c.binIdx hs ↔ ∃ i, ∃ h : i < hs.length, x = hs[i] % c.w + i * c.w := by
  rw [List.mem_iff_getElem]
  constructor
  · rintro ⟨i, h, e⟩
    have h' : i < hs.length := by rw [binIdx_length] at h; exact h
    exact ⟨i, h', by rw [← e, binIdx_getElem c hs i h']⟩
  · rintro ⟨i, h, e⟩
    exact ⟨i, by rw [binIdx_length]; exact h, by rw [binIdx_getElem c hs i h, e]⟩

/-- `r + i*w` with `r < w` determines `i` and `r` -/
theorem row_col_inj {w i i' r r' : Nat} (hr : r < w) (hr' : r' < w)
    (e : r + i * w = r' + i' * w) : i = i' ∧ r = r' := by
  have hw : 0 < w := by omega
  have h1 : (r + i * w) / w = i := by
    rw [Nat.add_mul_div_right _ _ hw, Nat.div_eq_of_lt hr]; omega
  have h2 : (r' + i' * w) / w = i' := by
    rw [Nat.add_mul_div_right _ _ hw, Nat.div_eq_of_lt hr']; omega
  have h3 : (r + i * w) % w = r := by
    rw [Nat.add_mul_mod_self_right, Nat.mod_eq_of_lt hr]
  have h4 : (r' + i' * w) % w = r' := by
    rw [Nat.add_mul_mod_self_right, Nat.mod_eq_of_lt hr']
  rw [e] at h1 h3
  exact ⟨by omega, by omega⟩

/-- all indices are inside a `w × d` table when `d` hashes are supplied -/
theorem binIdx_lt (c : CMS) (hs : List Nat) (hw : 0 < c.w) (hl : hs.length ≤ c.d) :
    ∀ x ∈ c.binIdx hs, x < c.w * c.d := by
  intro x hx
  obtain ⟨i, h, e⟩ := (mem_binIdx c hs x).1 hx
  have h1 : hs[i] % c.w < c.w := Nat.mod_lt _ hw
  have h2 : (i + 1) * c.w ≤ c.d * c.w := Nat.mul_le_mul_right _ (by omega)
  rw [Nat.mul_comm c.w c.d]
  rw [Nat.add_mul] at h2
  omega

theorem binIdx_any_false (c : CMS) (hs : List Nat) (hw : 0 < c.w) (hl : hs.length ≤ c.d)
    (hb : c.bins.length = c.w * c.d) : (c.binIdx hs).any (· ≥ c.bins.length) = false := by
  rw [List.any_eq_false]
  intro x hx
  have := binIdx_lt c hs hw hl x hx
  simp; omega

/-! ### `add_alt` / `remove_alt` in closed form -/

/-- the table after storing `clamp32 (old + δ)` at every index of `hs` -/
def bumpBins (c : CMS) (hs : List Nat) (δ : Int) : List Int :=
  (c.binIdx hs).foldl (fun b x => b.set x (clamp32 (c.bins.getD x 0 + δ))) c.bins

theorem bumpBins_length (c : CMS) (hs : List Nat) (δ : Int) :
    (bumpBins c hs δ).length = c.bins.length := foldl_set_length _ _ _

theorem bumpBins_getElem? (c : CMS) (hs : List Nat) (δ : Int) (j : Nat) (hj : j < c.bins.length) :
    (bumpBins c hs δ)[j]? =
      some (if j ∈ c.binIdx hs then clamp32 (c.bins.getD j 0 + δ) else c.bins.getD j 0) :=
  foldl_set_getElem? _ _ _ _ hj

theorem bumpBins_getD (c : CMS) (hs : List Nat) (δ : Int) (j : Nat) (hj : j < c.bins.length) :
    (bumpBins c hs δ).getD j 0 =
      if j ∈ c.binIdx hs then clamp32 (c.bins.getD j 0 + δ) else c.bins.getD j 0 := by
  rw [List.getD_eq_getElem?_getD, bumpBins_getElem? c hs δ j hj]; rfl

theorem bumpBins_range (c : CMS) (hs : List Nat) (δ : Int)
    (h : ∀ v ∈ c.bins, Gen.int32Min ≤ v ∧ v ≤ Gen.int32Max) :
    ∀ v ∈ bumpBins c hs δ, Gen.int32Min ≤ v ∧ v ≤ Gen.int32Max :=
  foldl_set_forall _ _ _ _ (fun _ => clamp32_range _) h

/-- the values read back at the indices of `hs` are the stored ones -/
theorem bumpBins_vals (c : CMS) (hs : List Nat) (δ : Int)
    (hany : (c.binIdx hs).any (· ≥ c.bins.length) = false) :
    (c.binIdx hs).map (fun x => clamp32 (c.bins.getD x 0 + δ)) =
      (c.binIdx hs).map (fun x => (bumpBins c hs δ).getD x 0) := by
  apply List.map_congr_left
  intro x hx
  rw [List.any_eq_false] at hany
  have hlt : x < c.bins.length := by have := hany x hx; simp at this; omega
  rw [bumpBins_getD c hs δ x hlt]; simp [hx]

theorem addAlt_eq (c : CMS) (hs : List Nat) (n : Int)
    (hany : (c.binIdx hs).any (· ≥ c.bins.length) = false)
    (hlo : ∀ x ∈ c.binIdx hs, Gen.int32Min ≤ c.bins.getD x 0 + n) :
    c.addAlt hs n =
      ({ c with bins := bumpBins c hs n, total := min Gen.int64Max (c.total + n) },
       CMS.query { c with bins := bumpBins c hs n, total := min Gen.int64Max (c.total + n) }
         (min Gen.int64Max (c.total + n))
         (CMS.sortInts ((c.binIdx hs).map fun x => clamp32 (c.bins.getD x 0 + n)))) := by
  have ht : (if Gen.cmsTotalMaxCmp.evalInt (c.total + n) Gen.int64Max then Gen.int64Max
      else c.total + n) = min Gen.int64Max (c.total + n) := by
    simp only [Gen.cmsTotalMaxCmp, Cmp.evalInt, Gen.int64Max, decide_eq_true_eq]; omega
  unfold CMS.addAlt
  simp only [hany, Bool.false_eq_true, if_false]
  rw [addLoop_eq (fun x => c.bins.getD x 0 + n) _ _ _ hlo]
  simp only [ht, bumpBins, List.reverse_nil, List.nil_append]

theorem removeAlt_eq (c : CMS) (hs : List Nat) (n : Int)
    (hany : (c.binIdx hs).any (· ≥ c.bins.length) = false)
    (hhi : ∀ x ∈ c.binIdx hs, c.bins.getD x 0 - n ≤ Gen.int32Max) :
    c.removeAlt hs n =
      ({ c with bins := bumpBins c hs (-n), total := max Gen.int64Min (c.total - n) },
       CMS.query { c with bins := bumpBins c hs (-n), total := max Gen.int64Min (c.total - n) }
         (max Gen.int64Min (c.total - n))
         (CMS.sortInts ((c.binIdx hs).map fun x => clamp32 (c.bins.getD x 0 + -n)))) := by
  have ht : (if c.total - n < Gen.int64Min then Gen.int64Min else c.total - n) =
      max Gen.int64Min (c.total - n) := by
    simp only [Gen.int64Min]; omega
  unfold CMS.removeAlt
  simp only [hany, Bool.false_eq_true, if_false]
  rw [removeLoop_eq (fun x => c.bins.getD x 0 - n) _ _ _ hhi]
  simp only [ht, bumpBins, List.reverse_nil, List.nil_append, ← Int.sub_eq_add_neg]

/-- `check_alt` in a state with the same width reads the same indices -/
theorem checkAlt_bump (c : CMS) (hs : List Nat) (δ t : Int)
    (hany : (c.binIdx hs).any (· ≥ c.bins.length) = false) :
    CMS.checkAlt { c with bins := bumpBins c hs δ, total := t } hs =
      CMS.query { c with bins := bumpBins c hs δ, total := t } t
        (CMS.sortInts ((c.binIdx hs).map fun x => clamp32 (c.bins.getD x 0 + δ))) := by
  have hb : CMS.binIdx { c with bins := bumpBins c hs δ, total := t } hs = c.binIdx hs := rfl
  unfold CMS.checkAlt
  simp only [hb, bumpBins_length, hany, Bool.false_eq_true, if_false]
  rw [bumpBins_vals c hs δ hany]

/-- the value returned by `add_alt` is what `check_alt` reports in the new state (every mode) -/
theorem addAlt_ret (c : CMS) (hs : List Nat) (n : Int)
    (hlo : ∀ x ∈ c.binIdx hs, Gen.int32Min ≤ c.bins.getD x 0 + n) :
    (c.addAlt hs n).2 = (c.addAlt hs n).1.checkAlt hs := by
  cases hany : (c.binIdx hs).any (· ≥ c.bins.length) with
  | true => simp [CMS.addAlt, CMS.checkAlt, hany]
  | false => rw [addAlt_eq c hs n hany hlo, checkAlt_bump c hs n _ hany]

theorem removeAlt_ret (c : CMS) (hs : List Nat) (n : Int)
    (hhi : ∀ x ∈ c.binIdx hs, c.bins.getD x 0 - n ≤ Gen.int32Max) :
    (c.removeAlt hs n).2 = (c.removeAlt hs n).1.checkAlt hs := by
  cases hany : (c.binIdx hs).any (· ≥ c.bins.length) with
  | true => simp [CMS.removeAlt, CMS.checkAlt, hany]
  | false => rw [removeAlt_eq c hs n hany hhi, checkAlt_bump c hs (-n) _ hany]

theorem joinCell_range (x y : Int) (hx : Gen.int32Min ≤ x ∧ x ≤ Gen.int32Max) :
    Gen.int32Min ≤ CMS.joinCell x y ∧ CMS.joinCell x y ≤ Gen.int32Max := by
  unfold CMS.joinCell
  split
  · exact hx
  · simp only [Gen.int32Min, Gen.int32Max] at *
    omega

/-! ### when `query` succeeds -/

theorem query_min (c : CMS) (t : Int) (l : List Int) (hm : c.mode = .min) (hl : l ≠ []) :
    ∃ v, c.query t (CMS.sortInts l) = .ok v ∧ v ∈ l ∧ ∀ y ∈ l, v ≤ y := by
  obtain ⟨x, rest, e, hx, hmin⟩ := sortInts_head l hl
  exact ⟨x, by simp [CMS.query, hm, e], hx, hmin⟩

theorem query_mean (c : CMS) (t : Int) (l : List Int) (hm : c.mode = .mean) (hd : 0 < c.d) :
    c.query t l = .ok (l.sum / (c.d : Int)) := by
  have : c.d ≠ 0 := by omega
  simp [CMS.query, hm, this]

theorem query_meanMin (c : CMS) (t : Int) (l : List Int) (hm : c.mode = .meanMin)
    (hd : 0 < c.d) (hl : l.length = c.d) (hw : c.w ≠ 1) : ∃ v, c.query t l = .ok v := by
  have hne : l ≠ [] := by intro e; rw [e] at hl; simp at hl; omega
  obtain ⟨a, ha⟩ : ∃ a, l.head? = some a := by
    cases l with
    | nil => exact absurd rfl hne
    | cons a t => exact ⟨a, rfl⟩
  obtain ⟨b, hb⟩ : ∃ b, l.getLast? = some b := by
    cases h : l.getLast? with
    | none => rw [List.getLast?_eq_none_iff] at h; exact absurd h hne
    | some b => exact ⟨b, rfl⟩
  simp only [CMS.query, hm, ha, hb]
  split
  · exact ⟨0, rfl⟩
  · simp only [beq_iff_eq, hw, if_false]
    have hlen : (CMS.sortInts (l.map fun t' => t' - (t - t') / ((c.w : Int) - 1))).length = c.d := by
      rw [sortInts_length, List.length_map, hl]
    generalize CMS.sortInts (l.map fun t' => t' - (t - t') / ((c.w : Int) - 1)) = mm at hlen
    split
    · rename_i hev
      have hev' : c.d % 2 = 0 := by simpa using hev
      have h1 : c.d / 2 < mm.length := by omega
      have h2 : c.d / 2 - 1 < mm.length := by omega
      have h3 : ¬ c.d / 2 = 0 := by omega
      simp [List.getElem?_eq_getElem h1, List.getElem?_eq_getElem h2, h3]
    · have h1 : c.d / 2 < mm.length := by omega
      simp [List.getElem?_eq_getElem h1]

end PyProb.CmsCore
