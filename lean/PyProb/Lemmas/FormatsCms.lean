/-
  Lemmas on the export formats, count-min sketch family: closed forms of `struct.pack` for the
  layouts extracted from the source (`Generated/Repo.lean`), footer parsing.
-/
import PyProb.Lemmas.Codec
import PyProb.Model.CMS

namespace PyProb

/-! ### closed forms of `pack` for the concrete layouts (all native paddings are zero) -/

theorem cmsFooter_pack (a b c : Int) : Gen.cmsFooter.pack [a, b, c] =
    if a < 0 ∨ a > 4294967295 then .error .structError
    else if b < 0 ∨ b > 4294967295 then .error .structError
    else if c < -9223372036854775808 ∨ c > 9223372036854775807 then .error .structError
    else .ok (leBytesInt 4 a ++ leBytesInt 4 b ++ leBytesInt 8 c) := by
  simp [Layout.pack, packGo, Gen.cmsFooter, Field.lo, Field.hi, Gen.int64Max, Gen.int64Min, Gen.uint32Max, Layout.padBefore, Field.size, encField, Layout.isBig]
  repeat' split
  all_goals simp_all

theorem cmsFooter_size : Gen.cmsFooter.size = 16 := by decide
theorem cmsCell_size : Gen.cmsCell.size = 4 := by decide

/-! ### footers -/

theorem cms_lastN_append {α} (a b : List α) (n : Nat) (h : b.length = n) : CMS.lastN n (a ++ b) = b := by
  unfold CMS.lastN; exact drop_length_sub_append a b n h

end PyProb
