/-
  Step-level lemmas on the rotating Bloom filter model (`Model/Expanding.lean`, structure
  `Rotating`): the effect of `rotate`, `addCore`, `push`, `pop` on the queue, the invariant
  `Rotating.Inv`, and the one-step potential argument behind the sliding window (`window_step_eff`).
  Used by C10.  Core Lean only.
-/
import PyProb.Lemmas.ExpandingCore

namespace PyProb
namespace Rotating
open Expanding (exists_concat addToLast_concat fresh_count fresh_k fresh_est fresh_geo)

/-! ### `rotate` -/

theorem rotate_static (r : Rotating) (force : Bool) :
    (r.rotate force).est = r.est ∧ (r.rotate force).fpr32 = r.fpr32 ∧ (r.rotate force).k = r.k ∧
    (r.rotate force).m = r.m ∧ (r.rotate force).added = r.added ∧ (r.rotate force).q = r.q := by
  unfold rotate
  split
  · simp
  · simp only []
    repeat' split
    all_goals simp

/-- the automatic rotation: only when the newest sub-filter is full; the oldest is dropped only
    when the queue is at its limit -/
theorem rotate_false_blooms (r : Rotating) (init : List Bloom) (z : Bloom)
    (hb : r.blooms = init ++ [z]) :
    (r.rotate false).blooms =
      if z.count = (z.est : Int) then
        if (init.length : Int) + 1 < r.q then init ++ [z] ++ [r.fresh]
        else (init ++ [z]).drop 1 ++ [r.fresh]
      else init ++ [z] := by
  unfold rotate
  simp only [hb, List.getLast?_concat, rotReady_eval, rotRoom_eval, Bool.false_and,
    Bool.false_eq_true, if_false, List.length_append, List.length_singleton]
  by_cases h1 : z.count = (z.est : Int)
  · by_cases h2 : (init.length : Int) + 1 < r.q
    · simp [h1, h2]
    · simp [h1, h2]
  · simp [h1, hb]

/-- `push()`: always a new sub-filter; the oldest is dropped when the queue is at its limit -/
theorem push_blooms (r : Rotating) (hne : r.blooms ≠ []) :
    r.push.blooms =
      if (r.blooms.length : Int) < r.q then r.blooms ++ [r.fresh]
      else r.blooms.drop 1 ++ [r.fresh] := by
  obtain ⟨init, z, hb⟩ := exists_concat r.blooms hne
  unfold push rotate
  simp only [hb, List.getLast?_concat, rotRoom_eval, Bool.true_and]
  by_cases h2 : (init.length : Int) + 1 < r.q
  · simp [h2]
  · simp [h2]

/-! ### `addCore` -/

theorem addCore_static (r : Rotating) (p : Bool) (hs : List Nat) (f : Bool) :
    (r.addCore p hs f).1.est = r.est ∧ (r.addCore p hs f).1.fpr32 = r.fpr32 ∧
    (r.addCore p hs f).1.k = r.k ∧ (r.addCore p hs f).1.m = r.m ∧
    (r.addCore p hs f).1.added = r.added + 1 ∧ (r.addCore p hs f).1.q = r.q := by
  have := rotate_static { r with added := r.added + 1 } false
  simp only [addCore]
  split
  · simpa using this
  · simp

theorem addCore_noeff (r : Rotating) (p : Bool) (hs : List Nat) (f : Bool)
    (h : (f || !p) = false) :
    (r.addCore p hs f).1.blooms = r.blooms ∧ (r.addCore p hs f).2 = none := by
  simp [addCore, h]

/-- an effective insertion: rotate iff the newest sub-filter is full, then insert into the newest -/
theorem addCore_blooms_eff (r : Rotating) (init : List Bloom) (z : Bloom)
    (p : Bool) (hs : List Nat) (f : Bool)
    (hb : r.blooms = init ++ [z]) (h : (f || !p) = true) :
    (r.addCore p hs f).1.blooms =
      if z.count = (z.est : Int) then
        if (init.length : Int) + 1 < r.q then init ++ [z] ++ [(r.fresh.addAlt hs).1]
        else (init ++ [z]).drop 1 ++ [(r.fresh.addAlt hs).1]
      else init ++ [(z.addAlt hs).1] := by
  have hr := rotate_false_blooms { r with added := r.added + 1 } init z hb
  unfold addCore
  simp only [h, if_true]
  rw [hr]
  by_cases h1 : z.count = (z.est : Int)
  · by_cases h2 : (init.length : Int) + 1 < r.q
    · simp only [h1, h2, if_true]
      rw [addToLast_concat]; rfl
    · simp only [h1, h2, if_true, if_false]
      rw [addToLast_concat]; rfl
  · simp only [h1, if_false]
    rw [addToLast_concat]

theorem addCore_err_eff (r : Rotating) (init : List Bloom) (z : Bloom)
    (p : Bool) (hs : List Nat) (f : Bool)
    (hb : r.blooms = init ++ [z]) (h : (f || !p) = true) :
    (r.addCore p hs f).2 =
      if z.count = (z.est : Int) then (r.fresh.addAlt hs).2 else (z.addAlt hs).2 := by
  have hr := rotate_false_blooms { r with added := r.added + 1 } init z hb
  unfold addCore
  simp only [h, if_true]
  rw [hr]
  by_cases h1 : z.count = (z.est : Int)
  · by_cases h2 : (init.length : Int) + 1 < r.q
    · simp only [h1, h2, if_true]
      rw [addToLast_concat]; rfl
    · simp only [h1, h2, if_true, if_false]
      rw [addToLast_concat]; rfl
  · simp only [h1, if_false]
    rw [addToLast_concat]

/-! ### the invariant -/

/-- C10 invariant for queue limit `Q`: between 1 and `Q` sub-filters, each holding between 0 and
    `est` insertions and carrying the filter's `k` and `est` -/
def Inv (Q : Nat) (r : Rotating) : Prop :=
  1 ≤ r.est ∧ r.q = (Q : Int) ∧ r.blooms ≠ [] ∧ r.blooms.length ≤ Q ∧
  ∀ b ∈ r.blooms, 0 ≤ b.count ∧ b.count ≤ r.est ∧ b.k = r.k ∧ b.est = r.est

theorem inv_new (est fpr32 k m Q : Nat) (h1 : 1 ≤ est) (hq : 1 ≤ Q) :
    (Rotating.new est fpr32 k m Q).Inv Q := by
  refine ⟨h1, rfl, by simp [Rotating.new, Expanding.new], by simpa [Rotating.new, Expanding.new] using hq, ?_⟩
  intro b hb
  simp only [Rotating.new, Expanding.new, List.mem_singleton] at hb
  subst hb
  simp [Rotating.new, Expanding.new, Bloom.new]

/-- a per-filter predicate that holds of fresh filters and survives insertions survives `addCore` -/
theorem addCore_forall (P : Bloom → Prop) (r : Rotating) (p : Bool) (hs : List Nat) (f : Bool)
    (hne : r.blooms ≠ [])
    (hadd : ∀ b hs, P b → P (b.addAlt hs).1) (hfresh : P r.fresh)
    (h : ∀ b ∈ r.blooms, P b) : ∀ b ∈ (r.addCore p hs f).1.blooms, P b := by
  cases hf : (f || !p)
  · rw [(addCore_noeff r p hs f hf).1]; exact h
  · obtain ⟨init, z, hb⟩ := exists_concat r.blooms hne
    rw [addCore_blooms_eff r init z p hs f hb hf]
    rw [hb] at h
    intro b
    split
    · split
      · intro hm
        simp only [List.mem_append, List.mem_singleton] at hm
        rcases hm with (hm | rfl) | rfl
        · exact h b (by simp [hm])
        · exact h b (by simp)
        · exact hadd _ _ hfresh
      · intro hm
        rcases List.mem_append.mp hm with hm | hm
        · exact h b (List.mem_of_mem_drop hm)
        · rw [List.mem_singleton] at hm; subst hm; exact hadd _ _ hfresh
    · intro hm
      simp only [List.mem_append, List.mem_singleton] at hm
      rcases hm with hm | rfl
      · exact h b (by simp [hm])
      · exact hadd _ _ (h z (by simp))

theorem push_forall (P : Bloom → Prop) (r : Rotating) (hne : r.blooms ≠ []) (hfresh : P r.fresh)
    (h : ∀ b ∈ r.blooms, P b) : ∀ b ∈ r.push.blooms, P b := by
  rw [push_blooms r hne]
  intro b
  split
  · intro hm
    rcases List.mem_append.mp hm with hm | hm
    · exact h b hm
    · rw [List.mem_singleton] at hm; subst hm; exact hfresh
  · intro hm
    rcases List.mem_append.mp hm with hm | hm
    · exact h b (List.mem_of_mem_drop hm)
    · rw [List.mem_singleton] at hm; subst hm; exact hfresh

/-- length of the queue after an effective insertion -/
theorem addCore_length_eff (r : Rotating) (init : List Bloom) (z : Bloom)
    (p : Bool) (hs : List Nat) (f : Bool)
    (hb : r.blooms = init ++ [z]) (h : (f || !p) = true) :
    (r.addCore p hs f).1.blooms.length =
      if z.count = (z.est : Int) ∧ (init.length : Int) + 1 < r.q then r.blooms.length + 1
      else r.blooms.length := by
  rw [addCore_blooms_eff r init z p hs f hb h, hb]
  by_cases h1 : z.count = (z.est : Int)
  · by_cases h2 : (init.length : Int) + 1 < r.q <;> simp [h1, h2]
  · simp [h1]

/-- `addCore` keeps the invariant, for any membership answer -/
theorem inv_addCore (Q : Nat) (r : Rotating) (p : Bool) (hs : List Nat) (f : Bool)
    (hk : r.k ≤ hs.length) (hi : r.Inv Q) : (r.addCore p hs f).1.Inv Q := by
  obtain ⟨h1, hq, hne, hlen, hall⟩ := hi
  obtain ⟨s1, -, s3, -, -, s6⟩ := addCore_static r p hs f
  unfold Inv
  rw [s1, s3, s6]
  cases hf : (f || !p)
  · rw [(addCore_noeff r p hs f hf).1]; exact ⟨h1, hq, hne, hlen, hall⟩
  · obtain ⟨init, z, hb⟩ := exists_concat r.blooms hne
    have hz := hall z (by simp [hb])
    have hL : r.blooms.length = init.length + 1 := by simp [hb]
    refine ⟨h1, hq, ?_, ?_, ?_⟩
    · intro h0
      have := congrArg List.length h0
      rw [addCore_length_eff r init z p hs f hb hf, hL] at this
      split at this <;> simp at this
    · rw [addCore_length_eff r init z p hs f hb hf]
      split
      · rename_i hc; omega
      · exact hlen
    · -- counts: the only sub-filter that changes is the newest
      rw [addCore_blooms_eff r init z p hs f hb hf]
      rw [hb] at hall
      have hfr : 0 ≤ (r.fresh.addAlt hs).1.count ∧ (r.fresh.addAlt hs).1.count ≤ (r.est : Int) ∧
          (r.fresh.addAlt hs).1.k = r.k ∧ (r.fresh.addAlt hs).1.est = r.est := by
        rw [Bloom.addAlt_count, Bloom.addAlt_k, Bloom.addAlt_est, fresh_k, fresh_count, fresh_est]
        simp only [show ¬ hs.length < r.k by omega, if_false]
        exact ⟨by omega, by omega, trivial, trivial⟩
      intro b
      split
      · split
        · intro hm
          simp only [List.mem_append, List.mem_singleton] at hm
          rcases hm with (hm | rfl) | rfl
          · exact hall b (by simp [hm])
          · exact hz
          · exact hfr
        · intro hm
          rcases List.mem_append.mp hm with hm | hm
          · exact hall b (List.mem_of_mem_drop hm)
          · rw [List.mem_singleton] at hm; subst hm; exact hfr
      · rename_i hc
        intro hm
        simp only [List.mem_append, List.mem_singleton] at hm
        rcases hm with hm | rfl
        · exact hall b (by simp [hm])
        · rw [Bloom.addAlt_count, Bloom.addAlt_k, Bloom.addAlt_est, hz.2.2.1, hz.2.2.2]
          simp only [show ¬ hs.length < r.k by omega, if_false]
          rw [hz.2.2.2] at hc
          exact ⟨by omega, by omega, trivial, trivial⟩

theorem push_static (r : Rotating) :
    r.push.est = r.est ∧ r.push.fpr32 = r.fpr32 ∧ r.push.k = r.k ∧
    r.push.m = r.m ∧ r.push.added = r.added ∧ r.push.q = r.q := rotate_static r true

theorem inv_push (Q : Nat) (r : Rotating) (hi : r.Inv Q) : r.push.Inv Q := by
  obtain ⟨h1, hq, hne, hlen, hall⟩ := hi
  obtain ⟨s1, -, s3, -, -, s6⟩ := push_static r
  unfold Inv
  rw [s1, s3, s6]
  have hpos : 0 < r.blooms.length := List.length_pos_iff.mpr hne
  refine ⟨h1, hq, ?_, ?_, ?_⟩
  · rw [push_blooms r hne]; split <;> simp
  · rw [push_blooms r hne]
    split
    · rename_i hc; simp; omega
    · simp; omega
  · apply push_forall (fun b => 0 ≤ b.count ∧ b.count ≤ (r.est : Int) ∧ b.k = r.k ∧ b.est = r.est)
      r hne _ hall
    exact ⟨by simp [fresh_count], by simp [fresh_count], rfl, rfl⟩

/-! ### `pop` -/

theorem pop_single (r : Rotating) (h : r.blooms.length = 1) : r.pop = .error .rotateError := by
  simp [pop, h]

theorem pop_longer (r : Rotating) (h : r.blooms.length ≠ 1) :
    r.pop = .ok { r with blooms := r.blooms.drop 1 } := by
  simp [pop, h]

theorem inv_pop (Q : Nat) (r r' : Rotating) (hi : r.Inv Q) (hp : r.pop = .ok r') : r'.Inv Q := by
  obtain ⟨h1, hq, hne, hlen, hall⟩ := hi
  have hpos : 0 < r.blooms.length := List.length_pos_iff.mpr hne
  by_cases h : r.blooms.length = 1
  · rw [pop_single r h] at hp; cases hp
  · rw [pop_longer r h] at hp
    cases hp
    refine ⟨h1, hq, ?_, ?_, ?_⟩
    · intro h0
      have := congrArg List.length h0
      simp at this; omega
    · simp; omega
    · intro b hb
      exact hall b (List.mem_of_mem_drop hb)

/-! ### geometry (for statements about membership) -/

theorem geo_addCore (r : Rotating) (p : Bool) (hs : List Nat) (f : Bool) (hne : r.blooms ≠ [])
    (hg : r.toExpanding.Geo) : (r.addCore p hs f).1.toExpanding.Geo := by
  obtain ⟨-, -, -, s4, -, -⟩ := addCore_static r p hs f
  refine ⟨by rw [s4]; exact hg.1, ?_⟩
  rw [s4]
  exact addCore_forall (fun b => b.GeoOK r.m) r p hs f hne
    (fun b hs h => Bloom.geoOK_addAlt _ b hs h) (fresh_geo r.toExpanding) hg.2

theorem geo_push (r : Rotating) (hne : r.blooms ≠ []) (hg : r.toExpanding.Geo) :
    r.push.toExpanding.Geo := by
  obtain ⟨-, -, -, s4, -, -⟩ := push_static r
  refine ⟨by rw [s4]; exact hg.1, ?_⟩
  rw [s4]
  exact push_forall (fun b => b.GeoOK r.m) r hne (fresh_geo r.toExpanding) hg.2

theorem geo_pop (r r' : Rotating) (hg : r.toExpanding.Geo) (hp : r.pop = .ok r') :
    r'.toExpanding.Geo := by
  by_cases h : r.blooms.length = 1
  · rw [pop_single r h] at hp; cases hp
  · rw [pop_longer r h] at hp
    cases hp
    exact ⟨hg.1, fun b hb => hg.2 b (List.mem_of_mem_drop hb)⟩

theorem geo_new (est fpr32 k m : Nat) (q : Int) (h : 0 < m) :
    (Rotating.new est fpr32 k m q).toExpanding.Geo := Expanding.geo_new est fpr32 k m h

/-- under the invariant an insertion with enough hashes raises nothing -/
theorem addCore_no_error (Q : Nat) (r : Rotating) (p : Bool) (hs : List Nat) (f : Bool)
    (hk : r.k ≤ hs.length) (hi : r.Inv Q) : (r.addCore p hs f).2 = none := by
  obtain ⟨_, _, hne, _, hall⟩ := hi
  cases hf : (f || !p)
  · exact (addCore_noeff r p hs f hf).2
  · obtain ⟨init, z, hb⟩ := exists_concat r.blooms hne
    rw [addCore_err_eff r init z p hs f hb hf]
    have hz := hall z (by simp [hb])
    split
    · rw [Bloom.addAlt_err, fresh_k]; simp; omega
    · rw [Bloom.addAlt_err, hz.2.2.1]; simp; omega

/-- the real `add_alt` is `addCore` with the answer of `check_alt` -/
theorem addAlt_eq_addCore (Q : Nat) (r : Rotating) (hs : List Nat) (f : Bool) (hk : r.k ≤ hs.length)
    (hi : r.Inv Q) :
    ∃ p, r.toExpanding.checkAlt hs = .ok p ∧ r.addAlt hs f = r.addCore p hs f := by
  obtain ⟨p, hp⟩ := Expanding.checkGo_total hs r.blooms
    (fun b hb => by rw [(hi.2.2.2.2 b hb).2.2.1]; exact hk)
  refine ⟨p, hp, ?_⟩
  unfold addAlt
  cases f
  · simp only [Expanding.checkAlt, hp]; rfl
  · simp [addCore]

/-! ### the sliding window: one step of the potential argument -/

/-- the sub-filter `b0` (possibly with further insertions) sits `i` places before the newest -/
def Holds (b0 : Bloom) (r : Rotating) (i : Nat) : Prop :=
  i < r.blooms.length ∧ ∃ b', r.blooms[r.blooms.length - 1 - i]? = some b' ∧ Bloom.Ext b0 b'

theorem Holds.mem {b0 : Bloom} {r : Rotating} {i : Nat} (h : Holds b0 r i) :
    ∃ b' ∈ r.blooms, Bloom.Ext b0 b' := by
  obtain ⟨_, b', hb, he⟩ := h
  exact ⟨b', List.mem_of_getElem? hb, he⟩

/-- the newest sub-filter holds itself at distance 0 -/
theorem holds_last (r : Rotating) (z : Bloom) (hz : r.blooms.getLast? = some z) : Holds z r 0 := by
  have hne : r.blooms ≠ [] := by intro h0; simp [h0] at hz
  obtain ⟨init, z', hb⟩ := exists_concat r.blooms hne
  have : z' = z := by simpa [hb] using hz
  subst this
  refine ⟨by simp [hb], z', ?_, Bloom.Ext.refl _⟩
  simp [hb]

/-- One effective insertion.  The quantity `i·est + (count of the newest)` goes up by exactly one,
    and as long as it stays ≤ `Q·est` the tracked sub-filter is still in the queue (`i` grows by one
    at each rotation; the filter is dropped only by the rotation that finds it oldest of a full
    queue, i.e. when `i = Q − 1` and the newest is full). -/
theorem window_step_eff (Q : Nat) (r : Rotating) (b0 z : Bloom) (i : Nat)
    (p : Bool) (hs : List Nat) (f : Bool) (hk : r.k ≤ hs.length) (hi : r.Inv Q)
    (hh : Holds b0 r i) (hz : r.blooms.getLast? = some z) (hf : (f || !p) = true)
    (hpot : 1 + (i : Int) * r.est + z.count ≤ (Q : Int) * r.est) :
    ∃ i' z', Holds b0 (r.addCore p hs f).1 i' ∧ (r.addCore p hs f).1.blooms.getLast? = some z' ∧
      (i' : Int) * r.est + z'.count = (i : Int) * r.est + z.count + 1 := by
  obtain ⟨h1, hq, hne, hlen, hall⟩ := hi
  obtain ⟨init, z', hb⟩ := exists_concat r.blooms hne
  have : z' = z := by simpa [hb] using hz
  subst this
  have hzz := hall z' (by simp [hb])
  obtain ⟨hil, b', hb', hext⟩ := hh
  have hL : r.blooms.length = init.length + 1 := by simp [hb]
  rw [hL] at hil hb' hlen
  rw [hb] at hb'
  have hfc : (r.fresh.addAlt hs).1.count = 1 := by
    rw [Bloom.addAlt_count, fresh_k, fresh_count]
    simp only [show ¬ hs.length < r.k by omega, if_false]; rfl
  unfold Holds
  rw [addCore_blooms_eff r init z' p hs f hb hf]
  by_cases hc : z'.count = (z'.est : Int)
  · -- the newest is full: a rotation happens, the tracked filter moves one place back
    simp only [hc, if_true]
    rw [hzz.2.2.2] at hc
    have hi2 : i + 2 ≤ Q := by
      apply Classical.byContradiction
      intro hcon
      have hle : (Q : Int) * r.est ≤ ((i : Int) + 1) * r.est :=
        Int.mul_le_mul_of_nonneg_right (by omega) (by omega)
      rw [Int.add_mul] at hle
      omega
    by_cases hroom : (init.length : Int) + 1 < r.q
    · simp only [hroom, if_true]
      refine ⟨i + 1, (r.fresh.addAlt hs).1, ⟨by simp; omega, b', ?_, hext⟩, by simp, ?_⟩
      · have e1 : (init ++ [z'] ++ [(r.fresh.addAlt hs).1]).length - 1 - (i + 1)
            = init.length + 1 - 1 - i := by simp
        rw [e1, List.getElem?_append_left (by simp; omega)]
        exact hb'
      · rw [hfc]; push_cast; rw [Int.add_mul]; omega
    · simp only [hroom, if_false]
      have hQ : init.length + 1 = Q := by rw [hq] at hroom; omega
      refine ⟨i + 1, (r.fresh.addAlt hs).1, ⟨by simp; omega, b', ?_, hext⟩, by simp, ?_⟩
      · have e1 : (List.drop 1 (init ++ [z']) ++ [(r.fresh.addAlt hs).1]).length - 1 - (i + 1)
            = init.length - 1 - i := by simp; omega
        rw [e1, List.getElem?_append_left (by simp; omega), List.getElem?_drop]
        have e2 : 1 + (init.length - 1 - i) = init.length + 1 - 1 - i := by omega
        rw [e2]; exact hb'
      · rw [hfc]; push_cast; rw [Int.add_mul]; omega
  · -- room in the newest: no rotation
    simp only [hc, if_false]
    refine ⟨i, (z'.addAlt hs).1, ?_, by simp, ?_⟩
    · refine ⟨by simp; omega, ?_⟩
      by_cases hi0 : i = 0
      · subst hi0
        have : b' = z' := by
          have : (init ++ [z'])[init.length + 1 - 1 - 0]? = some z' := by simp
          rw [this] at hb'; cases hb'; rfl
        subst this
        exact ⟨(b'.addAlt hs).1, by simp, hext.step hs⟩
      · refine ⟨b', ?_, hext⟩
        have e1 : (init ++ [(z'.addAlt hs).1]).length - 1 - i = init.length + 1 - 1 - i := by simp
        rw [e1, List.getElem?_append_left (by omega)]
        rw [List.getElem?_append_left (by omega)] at hb'
        exact hb'
    · rw [Bloom.addAlt_count, hzz.2.2.1]
      simp only [show ¬ hs.length < r.k by omega, if_false]
      omega

/-- what an effective insertion leaves in the newest sub-filter: the key is there -/
theorem addCore_eff_last (Q : Nat) (r : Rotating) (p : Bool) (hs : List Nat) (f : Bool)
    (hk : r.k ≤ hs.length) (hi : r.Inv Q) (hg : r.toExpanding.Geo) (hf : (f || !p) = true) :
    ∃ z, (r.addCore p hs f).1.blooms.getLast? = some z ∧ z.checkAlt hs = .ok true ∧
      z.GeoOK r.m ∧ 1 ≤ z.count := by
  obtain ⟨h1, hq, hne, hlen, hall⟩ := hi
  obtain ⟨init, z, hb⟩ := exists_concat r.blooms hne
  have hzz := hall z (by simp [hb])
  have hzg := hg.2 z (by simp [hb])
  rw [addCore_blooms_eff r init z p hs f hb hf]
  have hfresh : (r.fresh.addAlt hs).1.checkAlt hs = .ok true ∧ (r.fresh.addAlt hs).1.GeoOK r.m ∧
      1 ≤ (r.fresh.addAlt hs).1.count := by
    refine ⟨Bloom.check_addAlt_self r.m _ hs hg.1 (fresh_geo r.toExpanding) (by rw [fresh_k]; exact hk),
      Bloom.geoOK_addAlt _ _ _ (fresh_geo r.toExpanding), ?_⟩
    rw [Bloom.addAlt_count, fresh_k, fresh_count]
    simp only [show ¬ hs.length < r.k by omega, if_false]; omega
  split
  · split
    · exact ⟨_, by simp, hfresh⟩
    · exact ⟨_, by simp, hfresh⟩
  · refine ⟨_, by simp, Bloom.check_addAlt_self r.m _ hs hg.1 hzg (by rw [hzz.2.2.1]; exact hk),
      Bloom.geoOK_addAlt _ _ _ hzg, ?_⟩
    rw [Bloom.addAlt_count, hzz.2.2.1]
    simp only [show ¬ hs.length < r.k by omega, if_false]; omega

end Rotating
end PyProb
