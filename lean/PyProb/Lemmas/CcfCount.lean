/-
  C08, counting-cuckoo half (probables/cuckoo/countingcuckoo.py, model `PyProb.Model.Cuckoo` with
  `counting = true`): a counting cuckoo filter reports for each key exactly the outstanding
  additions of all keys sharing its fingerprint; removing a key the filter reports absent changes
  nothing and says so.

  Proved, for every hash strategy `G`, every oracle, every table satisfying `Inv`:
    `inv_new`, `ccf_check`, `ccf_add_present`, `ccf_add_room`, `ccf_remove_many`, `ccf_remove_last`,
    `ccf_remove`, `ccf_absent`, and for all histories in which no addition has to evict
    (`NoKick`): `ccf_run`, `ccf_exact`.
  Stated here (`def … : Prop`) and proved in `CcfKick.lean` (`ccf_exact_with_kicks`):
    `ccf_exact_with_kicks_statement` (kick loop / automatic expansions allowed).
-/
import PyProb.Lemmas.CcfTable
namespace PyProb.Ccf
open PyProb Cuckoo

/-- the count stored for `fp` anywhere in the table (0 if no bin carries `fp`) -/
def countOf (c : Cuckoo) (fp : Nat) : Nat :=
  ((c.buckets.flatten.find? (·.1 == fp)).map (·.2)).getD 0

theorem countOf_eq_lookup (c : Cuckoo) (fp : Nat) : countOf c fp = lookup c.buckets.flatten fp := rfl

/-- the fingerprints stored in the table -/
def fps (c : Cuckoo) : List Nat := c.buckets.flatten.map (·.1)

def Inv (G : Nat → Nat) (c : Cuckoo) : Prop :=
  c.counting = true ∧ c.buckets.length = c.cap ∧ 0 < c.cap ∧
  (c.buckets.flatten.map (·.1)).Nodup ∧
  (∀ i, i < c.buckets.length → ∀ bin ∈ c.bucket i,
      i = (indices G c bin.1).1 ∨ i = (indices G c bin.1).2) ∧
  (∀ bin ∈ c.buckets.flatten, 1 ≤ bin.2)

instance (G : Nat → Nat) (c : Cuckoo) : Decidable (Inv G c) := by unfold Inv; infer_instance

/-- the settings of the filter that no operation without expansion touches -/
def SameParams (c c' : Cuckoo) : Prop :=
  c'.counting = c.counting ∧ c'.cap = c.cap ∧ c'.b = c.b ∧ c'.maxSwaps = c.maxSwaps ∧
  c'.rate = c.rate ∧ c'.auto = c.auto ∧ c'.fpBits = c.fpBits

theorem inv_new (G : Nat → Nat) (cap b maxSwaps rate : Nat) (auto : Bool) (fpBits : Nat) (h : 0 < cap) :
    Inv G (Cuckoo.new true cap b maxSwaps rate auto fpBits) := by
  refine ⟨rfl, by simp [Cuckoo.new], h, ?_, ?_, ?_⟩
  · simp [Cuckoo.new]
  · intro i hi bin hb
    simp [Cuckoo.new, bucket, List.getD_eq_getElem?_getD] at hb hi
    simp [hi] at hb
  · simp [Cuckoo.new]

theorem countOf_new (cap b maxSwaps rate : Nat) (auto : Bool) (fpBits : Nat) (fp : Nat) :
    countOf (Cuckoo.new true cap b maxSwaps rate auto fpBits) fp = 0 := by
  simp [countOf, Cuckoo.new]

theorem bucket_eq (c : Cuckoo) {i : Nat} (h : i < c.buckets.length) : c.bucket i = c.buckets[i] := by
  simp [bucket, List.getD_eq_getElem?_getD, h]

theorem mem_bucket {c : Cuckoo} {i : Nat} {x : CBin} (h : x ∈ c.bucket i) :
    i < c.buckets.length ∧ x ∈ c.buckets.flatten := by
  by_cases hi : i < c.buckets.length
  · rw [bucket_eq c hi] at h
    exact ⟨hi, List.mem_flatten.2 ⟨_, List.getElem_mem hi, h⟩⟩
  · simp [bucket, List.getD_eq_getElem?_getD, List.getElem?_eq_none (Nat.le_of_not_lt hi)] at h

theorem mem_flatten_bucket {c : Cuckoo} {x : CBin} (h : x ∈ c.buckets.flatten) :
    ∃ j, j < c.buckets.length ∧ x ∈ c.bucket j := by
  obtain ⟨l, hl, hx⟩ := List.mem_flatten.1 h
  obtain ⟨j, hj, rfl⟩ := List.mem_iff_getElem.1 hl
  exact ⟨j, hj, by rw [bucket_eq c hj]; exact hx⟩

theorem ccf_hasFp_iff (c : Cuckoo) (i fp : Nat) : c.hasFp i fp = true ↔ ∃ v, (fp, v) ∈ c.bucket i := by
  simp only [hasFp, List.any_eq_true, beq_iff_eq]
  constructor
  · rintro ⟨⟨a, v⟩, hx, rfl⟩; exact ⟨v, hx⟩
  · rintro ⟨v, hx⟩; exact ⟨_, hx, rfl⟩

theorem ccf_present_some {c : Cuckoo} {i1 i2 fp i : Nat} (h : c.present i1 i2 fp = some i) :
    (i = i1 ∨ i = i2) ∧ ∃ v, (fp, v) ∈ c.bucket i := by
  unfold present at h
  split at h
  · rename_i h1; cases h; exact ⟨Or.inl rfl, (ccf_hasFp_iff _ _ _).1 h1⟩
  · split at h
    · rename_i h2; cases h; exact ⟨Or.inr rfl, (ccf_hasFp_iff _ _ _).1 h2⟩
    · cases h

theorem ccf_present_none {G : Nat → Nat} {c : Cuckoo} (inv : Inv G c) {fp : Nat}
    (h : c.present (indices G c fp).1 (indices G c fp).2 fp = none) : fp ∉ c.buckets.flatten.map (·.1) := by
  intro hc
  obtain ⟨⟨a, v⟩, hx, rfl⟩ := List.mem_map.1 hc
  obtain ⟨j, hj, hxj⟩ := mem_flatten_bucket hx
  have hp := inv.2.2.2.2.1 j hj _ hxj
  have hf : c.hasFp j a = true := (ccf_hasFp_iff _ _ _).2 ⟨v, hxj⟩
  unfold present at h
  rcases hp with e | e <;> simp only [← e] at h <;> simp [hf] at h
  split at h <;> cases h

theorem bucket_find {G : Nat → Nat} {c : Cuckoo} (inv : Inv G c) {i fp v : Nat} (h : (fp, v) ∈ c.bucket i) :
    (c.bucket i).find? (·.1 == fp) = some (fp, v) := by
  cases e : (c.bucket i).find? (·.1 == fp) with
  | none =>
    have := List.find?_eq_none.1 e _ h
    simp at this
  | some y =>
    have h1 := List.mem_of_find?_eq_some e
    have h2 := List.find?_some e
    simp only [beq_iff_eq] at h2
    rw [fst_inj inv.2.2.2.1 (mem_bucket h1).2 (mem_bucket h).2 h2]

/-- the two outcomes of the lookup `_check_if_present` on a well-formed table -/
theorem present_cases {G : Nat → Nat} {c : Cuckoo} (inv : Inv G c) (fp : Nat) :
    (c.present (indices G c fp).1 (indices G c fp).2 fp = none ∧ fp ∉ c.buckets.flatten.map (·.1) ∧
        countOf c fp = 0) ∨
    (∃ i v, c.present (indices G c fp).1 (indices G c fp).2 fp = some i ∧ i < c.buckets.length ∧
        (i = (indices G c fp).1 ∨ i = (indices G c fp).2) ∧ (fp, v) ∈ c.bucket i ∧ 1 ≤ v ∧
        countOf c fp = v ∧ (c.bucket i).find? (·.1 == fp) = some (fp, v)) := by
  cases e : c.present (indices G c fp).1 (indices G c fp).2 fp with
  | none =>
    have := ccf_present_none inv e
    exact Or.inl ⟨rfl, this, lookup_of_not_mem this⟩
  | some i =>
    obtain ⟨hi, v, hv⟩ := ccf_present_some e
    have hm := mem_bucket hv
    exact Or.inr ⟨i, v, rfl, hm.1, hi, hv, inv.2.2.2.2.2 _ hm.2, lookup_of_mem inv.2.2.2.1 hm.2,
      bucket_find inv hv⟩

/-- `check` reads the table -/
theorem ccf_check {G : Nat → Nat} {c : Cuckoo} (inv : Inv G c) (h : Nat) :
    check G c h = countOf c (c.fingerprint h) := by
  unfold check
  simp only []
  rcases present_cases inv (c.fingerprint h) with ⟨e, _, e0⟩ | ⟨i, v, e, _, _, _, _, ev, ef⟩
  · rw [e, e0]
  · rw [e, ev]; simp only []; rw [ef]; rfl

theorem countOf_pos_iff {G : Nat → Nat} {c : Cuckoo} (inv : Inv G c) (fp : Nat) :
    0 < countOf c fp ↔ fp ∈ c.buckets.flatten.map (·.1) := by
  rcases present_cases inv fp with ⟨_, hn, e0⟩ | ⟨i, v, _, _, _, hm, hv, ev, _⟩
  · rw [e0]; exact ⟨fun h => absurd h (Nat.lt_irrefl 0), fun h => absurd h hn⟩
  · rw [ev]
    exact ⟨fun _ => List.mem_map.2 ⟨_, (mem_bucket hm).2, rfl⟩, fun _ => hv⟩


theorem fingerprint_congr {c c' : Cuckoo} (h : c'.fpBits = c.fpBits) (x : Nat) :
    c'.fingerprint x = c.fingerprint x := by
  simp [fingerprint, h]

theorem indices_congr (G : Nat → Nat) {c c' : Cuckoo} (h : c'.cap = c.cap) (fp : Nat) :
    indices G c' fp = indices G c fp := by
  simp [indices, h]

/-- the table of a well-formed filter split around bucket `i` -/
theorem inv_split {G : Nat → Nat} {c : Cuckoo} (inv : Inv G c) {i : Nat} (hi : i < c.buckets.length) :
    (((c.buckets.take i).flatten ++ c.bucket i ++ (c.buckets.drop (i + 1)).flatten).map (·.1)).Nodup ∧
    (∀ y ∈ (c.buckets.take i).flatten ++ c.bucket i ++ (c.buckets.drop (i + 1)).flatten, 1 ≤ y.2) ∧
    c.buckets.flatten = (c.buckets.take i).flatten ++ c.bucket i ++ (c.buckets.drop (i + 1)).flatten := by
  have e := flatten_split c.buckets i hi
  rw [← bucket_eq c hi] at e
  rw [← e]
  exact ⟨inv.2.2.2.1, inv.2.2.2.2.2, rfl⟩

/-- replacing bucket `i` by `X'` keeps the invariant if the new table still has distinct
    fingerprints, positive counts, and every bin of `X'` has `i` as a candidate bucket -/
theorem inv_set {G : Nat → Nat} {c : Cuckoo} (inv : Inv G c) {i : Nat} (hi : i < c.buckets.length)
    {X' : List CBin} {c' : Cuckoo}
    (hb : c'.buckets = c.buckets.set i X') (hcnt : c'.counting = c.counting) (hcap : c'.cap = c.cap)
    (hn : (((c.buckets.take i).flatten ++ X' ++ (c.buckets.drop (i + 1)).flatten).map (·.1)).Nodup)
    (hpl : ∀ y ∈ X', i = (indices G c y.1).1 ∨ i = (indices G c y.1).2)
    (hpos : ∀ y ∈ (c.buckets.take i).flatten ++ X' ++ (c.buckets.drop (i + 1)).flatten, 1 ≤ y.2) :
    Inv G c' := by
  obtain ⟨i1, i2, i3, i4, i5, i6⟩ := inv
  refine ⟨by rw [hcnt, i1], by rw [hb, List.length_set, hcap, i2], by rw [hcap]; exact i3, ?_, ?_, ?_⟩
  · rw [hb, flatten_set _ _ hi]; exact hn
  · intro j hj bin hbin
    rw [indices_congr G hcap]
    rw [hb, List.length_set] at hj
    by_cases e : j = i
    · subst e
      have : c'.bucket j = X' := by
        simp [bucket, hb, List.getD_eq_getElem?_getD, hj]
      rw [this] at hbin
      exact hpl _ hbin
    · have : c'.bucket j = c.bucket j := by
        have e' : ¬ i = j := fun x => e x.symm
        simp [bucket, hb, List.getD_eq_getElem?_getD, e']
      rw [this] at hbin
      exact i5 j hj _ hbin
  · rw [hb, flatten_set _ _ hi]; exact hpos

theorem countOf_set {c c' : Cuckoo} {i : Nat} (hi : i < c.buckets.length) {X' : List CBin}
    (hb : c'.buckets = c.buckets.set i X') (fp : Nat) :
    countOf c' fp = lookup ((c.buckets.take i).flatten ++ X' ++ (c.buckets.drop (i + 1)).flatten) fp := by
  rw [countOf_eq_lookup, hb, flatten_set _ _ hi]

/-- a fingerprint lives in one bucket only -/
theorem unique_bucket {G : Nat → Nat} {c : Cuckoo} (inv : Inv G c) {i j : Nat} {x y : CBin}
    (hx : x ∈ c.bucket i) (hy : y ∈ c.bucket j) (e : x.1 = y.1) : i = j := by
  have hi := (mem_bucket hx).1
  have hj := (mem_bucket hy).1
  obtain ⟨hn, _, _⟩ := inv_split inv hi
  have hd := disjX hn hx
  rw [bucket_eq c hj] at hy
  apply Classical.byContradiction
  intro hne
  rcases Nat.lt_or_gt_of_ne hne with hlt | hgt
  · -- i < j : y is in the part after bucket i
    have : y ∈ (c.buckets.drop (i + 1)).flatten := by
      refine List.mem_flatten.2 ⟨c.buckets[j], ?_, hy⟩
      have hk : j - (i + 1) < (c.buckets.drop (i + 1)).length := by simp; omega
      have : (c.buckets.drop (i + 1))[j - (i + 1)] = c.buckets[j] := by
        rw [List.getElem_drop]; congr 1; omega
      rw [← this]; exact List.getElem_mem hk
    exact hd.2 y this e.symm
  · have : y ∈ (c.buckets.take i).flatten := by
      refine List.mem_flatten.2 ⟨c.buckets[j], ?_, hy⟩
      have hk : j < (c.buckets.take i).length := by simp; omega
      have : (c.buckets.take i)[j] = c.buckets[j] := by
        rw [List.getElem_take]
      rw [← this]; exact List.getElem_mem hk
    exact hd.1 y this e.symm


/-- editing only the bins with fingerprint `fp` in the bucket that holds `fp` is the same as
    editing them in the whole table (no other bucket has such a bin) -/
theorem set_map_eq {G : Nat → Nat} {c : Cuckoo} (inv : Inv G c) {i fp v : Nat} (hm : (fp, v) ∈ c.bucket i)
    (f : CBin → CBin) (hf : ∀ x : CBin, x.1 ≠ fp → f x = x) :
    c.buckets.set i ((c.bucket i).map f) = c.buckets.map (fun bkt => bkt.map f) := by
  have hi := (mem_bucket hm).1
  apply List.ext_getElem
  · simp
  · intro j h1 h2
    simp only [List.getElem_set, List.getElem_map]
    split
    · rename_i e; subst e; rw [bucket_eq c hi]
    · rename_i hne
      symm
      have hj : j < c.buckets.length := by simpa using h2
      rw [List.map_congr_left (g := id), List.map_id]
      intro x hx
      apply hf
      intro hfp
      have hxj : x ∈ c.bucket j := by rw [bucket_eq c hj]; exact hx
      exact absurd (unique_bucket inv hm hxj hfp.symm) hne

theorem bump_other {fp : Nat} (x : CBin) (h : x.1 ≠ fp) : bump fp x = x := by simp [bump, h]
theorem drop1_other {fp : Nat} (x : CBin) (h : x.1 ≠ fp) : drop1 fp x = x := by simp [drop1, h]

/-- **add of a fingerprint already stored**: its count goes up by one, nothing else changes. -/
theorem ccf_add_present {G : Nat → Nat} {c : Cuckoo} (inv : Inv G c) (h : Nat) (oracle : List Nat)
    (hp : 0 < countOf c (c.fingerprint h)) :
    ∃ c', add G c h oracle = (c', none, oracle) ∧ Inv G c' ∧ SameParams c c' ∧
      c'.count = c.count + 1 ∧ c'.unique = c.unique ∧
      c'.buckets = c.buckets.map (fun bkt => bkt.map (bump (c.fingerprint h))) ∧
      countOf c' (c.fingerprint h) = countOf c (c.fingerprint h) + 1 ∧
      (∀ fp', fp' ≠ c.fingerprint h → countOf c' fp' = countOf c fp') ∧
      check G c' h = check G c h + 1 := by
  rcases present_cases inv (c.fingerprint h) with ⟨_, _, e0⟩ | ⟨i, v, e, hi, hi12, hm, hv, ev, _⟩
  · omega
  obtain ⟨hn, hpos, hfl⟩ := inv_split inv hi
  let c' : Cuckoo := { c with buckets := c.buckets.set i ((c.bucket i).map (bump (c.fingerprint h))),
                              count := c.count + 1 }
  have hinv : Inv G c' := by
    refine inv_set inv hi (c' := c') rfl rfl rfl ?_ ?_ (pos_bump hpos _)
    · rw [fsts_mapX (bump_fst _)]; exact hn
    · intro y hy
      obtain ⟨x, hx, rfl⟩ := List.mem_map.1 hy
      rw [bump_fst]
      exact inv.2.2.2.2.1 i hi x hx
  have hsame : SameParams c c' := ⟨rfl, rfl, rfl, rfl, rfl, rfl, rfl⟩
  have hc1 : countOf c' (c.fingerprint h) = countOf c (c.fingerprint h) + 1 := by
    rw [countOf_set hi (c' := c') rfl, lookup_bump hn hm, ev]
  have hc2 : ∀ fp', fp' ≠ c.fingerprint h → countOf c' fp' = countOf c fp' := by
    intro fp' hne
    rw [countOf_set hi (c' := c') rfl, lookup_bump_other hn hne, countOf_eq_lookup, hfl]
  refine ⟨c', ?_, hinv, hsame, rfl, rfl, ?_, hc1, hc2, ?_⟩
  · unfold add
    simp only []
    rw [e]
    simp only []
    rw [if_pos inv.1]
    rfl
  · exact set_map_eq inv hm _ bump_other
  · rw [ccf_check hinv, ccf_check inv, fingerprint_congr (c := c) (c' := c') rfl, hc1]


theorem indices_lt {G : Nat → Nat} {c : Cuckoo} (inv : Inv G c) (fp : Nat) :
    (indices G c fp).1 < c.buckets.length ∧ (indices G c fp).2 < c.buckets.length := by
  rw [inv.2.1]
  exact ⟨Nat.mod_lt _ inv.2.2.1, Nat.mod_lt _ inv.2.2.1⟩

/-- appending a fresh bin `(fp, v)` to one of the two candidate buckets of `fp` -/
theorem append_bin {G : Nat → Nat} {c : Cuckoo} (inv : Inv G c) {fp v i : Nat} (hv : 1 ≤ v)
    (hfp : fp ∉ c.buckets.flatten.map (·.1)) (hi : i < c.buckets.length)
    (hi12 : i = (indices G c fp).1 ∨ i = (indices G c fp).2) {c' : Cuckoo}
    (hb : c'.buckets = c.buckets.set i (c.bucket i ++ [(fp, v)]))
    (hcnt : c'.counting = c.counting) (hcap : c'.cap = c.cap) :
    Inv G c' ∧ countOf c' fp = v ∧ ∀ fp', fp' ≠ fp → countOf c' fp' = countOf c fp' := by
  obtain ⟨hn, hpos, hfl⟩ := inv_split inv hi
  rw [hfl] at hfp
  refine ⟨inv_set inv hi hb hcnt hcap (nodup_appendX hn hfp v) ?_ (pos_appendX hpos fp hv), ?_, ?_⟩
  · intro y hy
    rcases List.mem_append.1 hy with hy | hy
    · exact inv.2.2.2.2.1 i hi y hy
    · simp only [List.mem_cons, List.not_mem_nil, or_false] at hy
      subst hy; exact hi12
  · rw [countOf_set hi hb, lookup_appendX hn hfp]
  · intro fp' hne
    rw [countOf_set hi hb, lookup_append_other hn hfp v hne, countOf_eq_lookup, hfl]

/-- the filter after a successful `__insert_element` of `bin` into bucket `i` plus bookkeeping -/
def putAt (c : Cuckoo) (i : Nat) (bin : CBin) : Cuckoo :=
  ({ c with buckets := c.buckets.set i (c.bucket i ++ [bin]) } : Cuckoo).placed bin.2

theorem putAt_spec {G : Nat → Nat} {c : Cuckoo} (inv : Inv G c) {fp v i : Nat} (hv : 1 ≤ v)
    (hfp : fp ∉ c.buckets.flatten.map (·.1)) (hi : i < c.buckets.length)
    (hi12 : i = (indices G c fp).1 ∨ i = (indices G c fp).2) :
    (putAt c i (fp, v)).buckets = c.buckets.set i (c.bucket i ++ [(fp, v)]) ∧
    SameParams c (putAt c i (fp, v)) ∧
    (putAt c i (fp, v)).count = c.count + v ∧ (putAt c i (fp, v)).unique = c.unique + 1 ∧
    Inv G (putAt c i (fp, v)) ∧ countOf (putAt c i (fp, v)) fp = v ∧
    ∀ fp', fp' ≠ fp → countOf (putAt c i (fp, v)) fp' = countOf c fp' := by
  refine ⟨rfl, ⟨rfl, rfl, rfl, rfl, rfl, rfl, rfl⟩, rfl, ?_,
    append_bin inv hv hfp hi hi12 (c' := putAt c i (fp, v)) rfl rfl rfl⟩
  show (if c.counting = true then c.unique + 1 else c.unique) = c.unique + 1
  rw [if_pos inv.1]

theorem insertAt_room {c : Cuckoo} {i : Nat} (bin : CBin) (h : (c.bucket i).length < c.b) :
    (c.insertAt i bin).map (fun c' => c'.placed bin.2) = some (putAt c i bin) := by
  unfold insertAt; rw [if_pos h]; rfl

theorem insertAt_full {c : Cuckoo} {i : Nat} (bin : CBin) (h : ¬ (c.bucket i).length < c.b) :
    c.insertAt i bin = none := by
  unfold insertAt; rw [if_neg h]

/-- `_insert_fingerprint` when one of the two candidate buckets has room: first fit, no kick, the
    oracle is not consumed -/
theorem insertFp_room {G : Nat → Nat} {c : Cuckoo} (inv : Inv G c) {fp v : Nat} (hv : 1 ≤ v)
    (hfp : fp ∉ c.buckets.flatten.map (·.1)) (oracle : List Nat)
    (hroom : (c.bucket (indices G c fp).1).length < c.b ∨ (c.bucket (indices G c fp).2).length < c.b) :
    ∃ c' i, insertFp G c (fp, v) (indices G c fp).1 (indices G c fp).2 oracle = (c', none, oracle) ∧
      (i = (indices G c fp).1 ∨ i = (indices G c fp).2) ∧ i < c.buckets.length ∧
      (c.bucket i).length < c.b ∧
      c'.buckets = c.buckets.set i (c.bucket i ++ [(fp, v)]) ∧ SameParams c c' ∧
      c'.count = c.count + v ∧ c'.unique = c.unique + 1 ∧
      Inv G c' ∧ countOf c' fp = v ∧ ∀ fp', fp' ≠ fp → countOf c' fp' = countOf c fp' := by
  obtain ⟨l1, l2⟩ := indices_lt inv fp
  by_cases h1 : (c.bucket (indices G c fp).1).length < c.b
  · refine ⟨putAt c (indices G c fp).1 (fp, v), (indices G c fp).1, ?_, Or.inl rfl, l1, h1,
      putAt_spec inv hv hfp l1 (Or.inl rfl)⟩
    unfold insertFp insertAt
    rw [if_pos h1]; rfl
  · have h2 : (c.bucket (indices G c fp).2).length < c.b := by
      rcases hroom with h | h
      · exact absurd h h1
      · exact h
    refine ⟨putAt c (indices G c fp).2 (fp, v), (indices G c fp).2, ?_, Or.inr rfl, l2, h2,
      putAt_spec inv hv hfp l2 (Or.inr rfl)⟩
    unfold insertFp insertAt
    rw [if_neg h1, if_pos h2]; rfl

/-- **add of a new fingerprint when one of its two buckets has room** (no kick): it is stored with
    count 1 at the end of the first of its two buckets with room -/
theorem ccf_add_room {G : Nat → Nat} {c : Cuckoo} (inv : Inv G c) (h : Nat) (oracle : List Nat)
    (habs : countOf c (c.fingerprint h) = 0)
    (hroom : (c.bucket (indices G c (c.fingerprint h)).1).length < c.b ∨
             (c.bucket (indices G c (c.fingerprint h)).2).length < c.b) :
    ∃ c', add G c h oracle = (c', none, oracle) ∧ Inv G c' ∧ SameParams c c' ∧
      c'.count = c.count + 1 ∧ c'.unique = c.unique + 1 ∧
      (∃ i, (i = (indices G c (c.fingerprint h)).1 ∨ i = (indices G c (c.fingerprint h)).2) ∧
          i < c.buckets.length ∧ (c.bucket i).length < c.b ∧
          c'.buckets = c.buckets.set i (c.bucket i ++ [(c.fingerprint h, 1)])) ∧
      countOf c' (c.fingerprint h) = 1 ∧
      (∀ fp', fp' ≠ c.fingerprint h → countOf c' fp' = countOf c fp') ∧
      check G c' h = 1 := by
  rcases present_cases inv (c.fingerprint h) with ⟨e, hfp, _⟩ | ⟨i, v, _, _, _, _, hv, ev, _⟩
  · obtain ⟨c', i, hins, hi12, hi, hlen, hb, hsame, hcount, huniq, hinv, hc1, hc2⟩ :=
      insertFp_room inv (Nat.le_refl 1) hfp oracle hroom
    refine ⟨c', ?_, hinv, hsame, hcount, huniq, ⟨i, hi12, hi, hlen, hb⟩, hc1, hc2, ?_⟩
    · unfold add
      simp only []
      rw [e]
      simp only []
      rw [hins]
    · rw [ccf_check hinv, fingerprint_congr hsame.2.2.2.2.2.2, hc1]
  · omega


/-- **remove of a fingerprint stored with count > 1**: the count goes down by one, the bin stays -/
theorem ccf_remove_many {G : Nat → Nat} {c : Cuckoo} (inv : Inv G c) (h : Nat)
    (hv : 1 < countOf c (c.fingerprint h)) :
    ∃ c', remove G c h = (c', true) ∧ Inv G c' ∧ SameParams c c' ∧
      c'.count = c.count - 1 ∧ c'.unique = c.unique ∧
      c'.buckets = c.buckets.map (fun bkt => bkt.map (drop1 (c.fingerprint h))) ∧
      countOf c' (c.fingerprint h) = countOf c (c.fingerprint h) - 1 ∧
      (∀ fp', fp' ≠ c.fingerprint h → countOf c' fp' = countOf c fp') ∧
      check G c' h = check G c h - 1 := by
  rcases present_cases inv (c.fingerprint h) with ⟨_, _, e0⟩ | ⟨i, v, e, hi, hi12, hm, _, ev, ef⟩
  · omega
  obtain ⟨hn, hpos, hfl⟩ := inv_split inv hi
  let c' : Cuckoo := { c with buckets := c.buckets.set i ((c.bucket i).map (drop1 (c.fingerprint h))),
                              count := c.count - 1 }
  have hinv : Inv G c' := by
    refine inv_set inv hi (c' := c') rfl rfl rfl ?_ ?_ (pos_drop1 hn hpos hm (by omega))
    · rw [fsts_mapX (drop1_fst _)]; exact hn
    · intro y hy
      obtain ⟨x, hx, rfl⟩ := List.mem_map.1 hy
      rw [drop1_fst]
      exact inv.2.2.2.2.1 i hi x hx
  have hc1 : countOf c' (c.fingerprint h) = countOf c (c.fingerprint h) - 1 := by
    rw [countOf_set hi (c' := c') rfl, lookup_drop1 hn hm, ev]
  have hc2 : ∀ fp', fp' ≠ c.fingerprint h → countOf c' fp' = countOf c fp' := by
    intro fp' hne
    rw [countOf_set hi (c' := c') rfl, lookup_drop1_other hn hne, countOf_eq_lookup, hfl]
  refine ⟨c', ?_, hinv, ⟨rfl, rfl, rfl, rfl, rfl, rfl, rfl⟩, rfl, rfl, ?_, hc1, hc2, ?_⟩
  · unfold remove
    simp only []
    rw [e]
    simp only []
    rw [if_pos inv.1, ef]
    simp only []
    rw [if_neg (by omega)]
    rfl
  · exact set_map_eq inv hm _ drop1_other
  · rw [ccf_check hinv, ccf_check inv, fingerprint_congr (c := c) (c' := c') rfl, hc1]

/-- **remove of a fingerprint stored with count 1**: the bin is dropped -/
theorem ccf_remove_last {G : Nat → Nat} {c : Cuckoo} (inv : Inv G c) (h : Nat)
    (hv : countOf c (c.fingerprint h) = 1) :
    ∃ c', remove G c h = (c', true) ∧ Inv G c' ∧ SameParams c c' ∧
      c'.count = c.count - 1 ∧ c'.unique = c.unique - 1 ∧
      (∃ i, (i = (indices G c (c.fingerprint h)).1 ∨ i = (indices G c (c.fingerprint h)).2) ∧
          (c.fingerprint h, 1) ∈ c.bucket i ∧
          c'.buckets = c.buckets.set i ((c.bucket i).erase (c.fingerprint h, 1))) ∧
      c.fingerprint h ∉ c'.buckets.flatten.map (·.1) ∧
      countOf c' (c.fingerprint h) = 0 ∧
      (∀ fp', fp' ≠ c.fingerprint h → countOf c' fp' = countOf c fp') ∧
      check G c' h = 0 := by
  rcases present_cases inv (c.fingerprint h) with ⟨_, _, e0⟩ | ⟨i, v, e, hi, hi12, hm, _, ev, ef⟩
  · omega
  have hv1 : v = 1 := by omega
  subst hv1
  obtain ⟨hn, hpos, hfl⟩ := inv_split inv hi
  let c' : Cuckoo := { c with buckets := c.buckets.set i ((c.bucket i).erase (c.fingerprint h, 1)),
                              count := c.count - 1, unique := c.unique - 1 }
  have hinv : Inv G c' := by
    refine inv_set inv hi (c' := c') rfl rfl rfl (nodup_eraseX hn _) ?_ (pos_eraseX hpos _)
    intro y hy
    exact inv.2.2.2.2.1 i hi y (List.mem_of_mem_erase hy)
  have hnot : c.fingerprint h ∉ c'.buckets.flatten.map (·.1) := by
    show c.fingerprint h ∉ (c.buckets.set i _).flatten.map (·.1)
    rw [flatten_set _ _ hi]
    exact not_mem_eraseX hn hm
  have hc1 : countOf c' (c.fingerprint h) = 0 := lookup_of_not_mem hnot
  have hc2 : ∀ fp', fp' ≠ c.fingerprint h → countOf c' fp' = countOf c fp' := by
    intro fp' hne
    rw [countOf_set hi (c' := c') rfl, lookup_erase_other hn hm hne, countOf_eq_lookup, hfl]
  refine ⟨c', ?_, hinv, ⟨rfl, rfl, rfl, rfl, rfl, rfl, rfl⟩, rfl, rfl, ⟨i, hi12, hm, rfl⟩, hnot, hc1, hc2, ?_⟩
  · unfold remove
    simp only []
    rw [e]
    simp only []
    rw [if_pos inv.1, ef]
    simp only []
    rw [if_pos (Nat.le_refl 1)]
  · rw [ccf_check hinv, fingerprint_congr (c := c) (c' := c') rfl, hc1]

/-- **remove of a present fingerprint**, both cases together: the reported count goes down by one
    and no other fingerprint is affected -/
theorem ccf_remove {G : Nat → Nat} {c : Cuckoo} (inv : Inv G c) (h : Nat)
    (hv : 0 < countOf c (c.fingerprint h)) :
    ∃ c', remove G c h = (c', true) ∧ Inv G c' ∧ SameParams c c' ∧ c'.count = c.count - 1 ∧
      countOf c' (c.fingerprint h) = countOf c (c.fingerprint h) - 1 ∧
      (∀ fp', fp' ≠ c.fingerprint h → countOf c' fp' = countOf c fp') ∧
      check G c' h = check G c h - 1 := by
  by_cases h1 : countOf c (c.fingerprint h) = 1
  · obtain ⟨c', hr, hinv, hs, hc, _, _, _, hc1, hc2, hk⟩ := ccf_remove_last inv h h1
    exact ⟨c', hr, hinv, hs, hc, by rw [hc1, h1], hc2, by rw [hk, ccf_check inv, h1]⟩
  · obtain ⟨c', hr, hinv, hs, hc, _, _, hc1, hc2, hk⟩ := ccf_remove_many inv h (by omega)
    exact ⟨c', hr, hinv, hs, hc, hc1, hc2, hk⟩

/-- **remove of a key the filter reports absent** changes nothing and says so.  The clause
    "counts ≥ 1" of `Inv` is what makes `check = 0` mean "no bin": a table holding a bin
    `(fp, 0)` (never produced by the operations, see `ccf_absent_needs_pos` below) reports 0 but
    `remove` would still drop that bin and answer `true`. -/
theorem ccf_absent {G : Nat → Nat} {c : Cuckoo} (inv : Inv G c) (h : Nat)
    (h0 : check G c h = 0) : remove G c h = (c, false) := by
  rw [ccf_check inv] at h0
  rcases present_cases inv (c.fingerprint h) with ⟨e, _, _⟩ | ⟨i, v, _, _, _, _, hv, ev, _⟩
  · unfold remove
    simp only []
    rw [e]
  · omega


/-! ### histories -/

inductive Op
  | add (h : Nat)
  | remove (h : Nat)
  deriving DecidableEq, Repr

/-- one call on the model: the filter and the unconsumed oracle afterwards -/
def step (G : Nat → Nat) (s : Cuckoo × List Nat) : Op → Cuckoo × List Nat
  | .add h => ((add G s.1 h s.2).1, (add G s.1 h s.2).2.2)
  | .remove h => ((remove G s.1 h).1, s.2)

/-- the error reported by the call (only `add` can report one) -/
def stepErr (G : Nat → Nat) (s : Cuckoo × List Nat) : Op → Option Err
  | .add h => (add G s.1 h s.2).2.1
  | .remove _ => none

def run (G : Nat → Nat) (c : Cuckoo) (oracle : List Nat) (ops : List Op) : Cuckoo × List Nat :=
  ops.foldl (step G) (c, oracle)

/-- every call of the history returned without error -/
def AllAddsOk (G : Nat → Nat) : Cuckoo × List Nat → List Op → Prop
  | _, [] => True
  | s, op :: ops => stepErr G s op = none ∧ AllAddsOk G (step G s op) ops

/-- an `add` meets a state where its fingerprint is stored or one of its two buckets has room, so
    neither the kick loop nor an expansion is entered -/
def Room (G : Nat → Nat) (c : Cuckoo) : Op → Prop
  | .add h =>
      c.present (indices G c (c.fingerprint h)).1 (indices G c (c.fingerprint h)).2 (c.fingerprint h) ≠ none ∨
      (c.bucket (indices G c (c.fingerprint h)).1).length < c.b ∨
      (c.bucket (indices G c (c.fingerprint h)).2).length < c.b
  | .remove _ => True

/-- `Room` holds at every step of the history (a prefix property) -/
def NoKick (G : Nat → Nat) : Cuckoo × List Nat → List Op → Prop
  | _, [] => True
  | s, op :: ops => Room G s.1 op ∧ NoKick G (step G s op) ops

instance (G : Nat → Nat) (c : Cuckoo) (op : Op) : Decidable (Room G c op) := by
  cases op <;> unfold Room <;> infer_instance

def decNoKick (G : Nat → Nat) : (s : Cuckoo × List Nat) → (ops : List Op) → Decidable (NoKick G s ops)
  | _, [] => isTrue trivial
  | s, op :: ops => @instDecidableAnd _ _ _ (decNoKick G (step G s op) ops)

instance (G : Nat → Nat) (s : Cuckoo × List Nat) (ops : List Op) : Decidable (NoKick G s ops) :=
  decNoKick G s ops

def decAllAddsOk (G : Nat → Nat) : (s : Cuckoo × List Nat) → (ops : List Op) → Decidable (AllAddsOk G s ops)
  | _, [] => isTrue trivial
  | s, op :: ops => @instDecidableAnd _ _ _ (decAllAddsOk G (step G s op) ops)

instance (G : Nat → Nat) (s : Cuckoo × List Nat) (ops : List Op) : Decidable (AllAddsOk G s ops) :=
  decAllAddsOk G s ops

/-- effect of one call on the number of outstanding additions of fingerprint `fp`; a removal at 0
    does nothing (truncated subtraction), in line with `ccf_absent` -/
def tally (fpOf : Nat → Nat) (fp : Nat) (n : Nat) : Op → Nat
  | .add h => if fpOf h = fp then n + 1 else n
  | .remove h => if fpOf h = fp then n - 1 else n

/-- additions minus removals of keys with fingerprint `fp`, processed left to right -/
def outstanding (fpOf : Nat → Nat) (ops : List Op) (fp : Nat) : Nat :=
  ops.foldl (tally fpOf fp) 0

/-- one call without kick: invariant kept, no error, oracle untouched, every count moves as `tally` says -/
theorem ccf_step {G : Nat → Nat} {c : Cuckoo} (inv : Inv G c) (oracle : List Nat) (op : Op)
    (hr : Room G c op) :
    Inv G (step G (c, oracle) op).1 ∧ SameParams c (step G (c, oracle) op).1 ∧
    (step G (c, oracle) op).2 = oracle ∧ stepErr G (c, oracle) op = none ∧
    ∀ fp, countOf (step G (c, oracle) op).1 fp = tally c.fingerprint fp (countOf c fp) op := by
  cases op with
  | add h =>
    have key : ∃ c', add G c h oracle = (c', none, oracle) ∧ Inv G c' ∧ SameParams c c' ∧
        countOf c' (c.fingerprint h) = countOf c (c.fingerprint h) + 1 ∧
        (∀ fp', fp' ≠ c.fingerprint h → countOf c' fp' = countOf c fp') := by
      by_cases hp : 0 < countOf c (c.fingerprint h)
      · obtain ⟨c', ha, hi, hs, _, _, _, h1, h2, _⟩ := ccf_add_present inv h oracle hp
        exact ⟨c', ha, hi, hs, h1, h2⟩
      · have h0 : countOf c (c.fingerprint h) = 0 := by omega
        have hroom : (c.bucket (indices G c (c.fingerprint h)).1).length < c.b ∨
            (c.bucket (indices G c (c.fingerprint h)).2).length < c.b := by
          rcases hr with hpres | hroom
          · rcases present_cases inv (c.fingerprint h) with ⟨e, _, _⟩ | ⟨i, v, _, _, _, _, hv, ev, _⟩
            · exact absurd e hpres
            · omega
          · exact hroom
        obtain ⟨c', ha, hi, hs, _, _, _, h1, h2, _⟩ := ccf_add_room inv h oracle h0 hroom
        exact ⟨c', ha, hi, hs, by rw [h1, h0], h2⟩
    obtain ⟨c', ha, hi, hs, h1, h2⟩ := key
    have e1 : step G (c, oracle) (.add h) = (c', oracle) := by simp only [step, ha]
    have e2 : stepErr G (c, oracle) (.add h) = none := by simp only [stepErr, ha]
    rw [e1]
    refine ⟨hi, hs, rfl, e2, ?_⟩
    intro fp
    simp only [tally]
    split
    · rename_i e; subst e; exact h1
    · rename_i e; exact h2 fp (fun x => e x.symm)
  | remove h =>
    by_cases hp : 0 < countOf c (c.fingerprint h)
    · obtain ⟨c', ha, hi, hs, _, h1, h2, _⟩ := ccf_remove inv h hp
      have e1 : step G (c, oracle) (.remove h) = (c', oracle) := by simp only [step, ha]
      rw [e1]
      refine ⟨hi, hs, rfl, rfl, ?_⟩
      intro fp
      simp only [tally]
      split
      · rename_i e; subst e; exact h1
      · rename_i e; exact h2 fp (fun x => e x.symm)
    · have h0 : countOf c (c.fingerprint h) = 0 := by omega
      have ha := ccf_absent inv h (by rw [ccf_check inv, h0])
      have e1 : step G (c, oracle) (.remove h) = (c, oracle) := by simp only [step, ha]
      rw [e1]
      refine ⟨inv, ⟨rfl, rfl, rfl, rfl, rfl, rfl, rfl⟩, rfl, rfl, ?_⟩
      intro fp
      simp only [tally]
      split
      · rename_i e; subst e; omega
      · rfl

theorem fingerprint_fun {c c' : Cuckoo} (h : SameParams c c') : c'.fingerprint = c.fingerprint :=
  funext (fingerprint_congr h.2.2.2.2.2.2)

theorem SameParams.trans {a b c : Cuckoo} (h1 : SameParams a b) (h2 : SameParams b c) : SameParams a c := by
  unfold SameParams at *
  obtain ⟨a1, a2, a3, a4, a5, a6, a7⟩ := h1
  obtain ⟨b1, b2, b3, b4, b5, b6, b7⟩ := h2
  exact ⟨b1.trans a1, b2.trans a2, b3.trans a3, b4.trans a4, b5.trans a5, b6.trans a6, b7.trans a7⟩

/-- a whole history without kicks, from any well-formed filter -/
theorem ccf_run {G : Nat → Nat} {c : Cuckoo} (inv : Inv G c) (oracle : List Nat) (ops : List Op)
    (hk : NoKick G (c, oracle) ops) :
    Inv G (run G c oracle ops).1 ∧ SameParams c (run G c oracle ops).1 ∧
    (run G c oracle ops).2 = oracle ∧ AllAddsOk G (c, oracle) ops ∧
    ∀ fp, countOf (run G c oracle ops).1 fp = ops.foldl (tally c.fingerprint fp) (countOf c fp) := by
  induction ops generalizing c with
  | nil => exact ⟨inv, ⟨rfl, rfl, rfl, rfl, rfl, rfl, rfl⟩, rfl, trivial, fun _ => rfl⟩
  | cons op ops ih =>
    obtain ⟨hroom, hk'⟩ := hk
    obtain ⟨hi, hs, ho, he, hc⟩ := ccf_step inv oracle op hroom
    have hst : step G (c, oracle) op = ((step G (c, oracle) op).1, oracle) := Prod.ext rfl ho
    rw [hst] at hk'
    obtain ⟨ri, rs, ro, re, rc⟩ := ih hi hk'
    have hrun : run G c oracle (op :: ops) = run G (step G (c, oracle) op).1 oracle ops := by
      simp only [run, List.foldl_cons]; rw [← hst]
    rw [hrun]
    refine ⟨ri, hs.trans rs, ro, ⟨he, by rw [hst]; exact re⟩, ?_⟩
    intro fp
    rw [rc fp, fingerprint_fun hs, hc fp, List.foldl_cons]

/-- **C08, cuckoo half, for histories without kicks.**  Starting from the empty counting cuckoo
    filter, after any history of additions and removals in which no addition has to evict
    (`NoKick`), `check` reports for every key exactly the outstanding additions of all keys sharing
    its fingerprint; no call reported an error, no random draw was consumed, the invariant holds. -/
theorem ccf_exact (G : Nat → Nat) (cap b maxSwaps rate : Nat) (auto : Bool) (fpBits : Nat) (hcap : 0 < cap)
    (oracle : List Nat) (ops : List Op)
    (hk : NoKick G (Cuckoo.new true cap b maxSwaps rate auto fpBits, oracle) ops) :
    Inv G (run G (Cuckoo.new true cap b maxSwaps rate auto fpBits) oracle ops).1 ∧
    SameParams (Cuckoo.new true cap b maxSwaps rate auto fpBits)
      (run G (Cuckoo.new true cap b maxSwaps rate auto fpBits) oracle ops).1 ∧
    (run G (Cuckoo.new true cap b maxSwaps rate auto fpBits) oracle ops).2 = oracle ∧
    AllAddsOk G (Cuckoo.new true cap b maxSwaps rate auto fpBits, oracle) ops ∧
    ∀ h, check G (run G (Cuckoo.new true cap b maxSwaps rate auto fpBits) oracle ops).1 h =
      outstanding (Cuckoo.new true cap b maxSwaps rate auto fpBits).fingerprint ops
        ((Cuckoo.new true cap b maxSwaps rate auto fpBits).fingerprint h) := by
  obtain ⟨ri, rs, ro, re, rc⟩ := ccf_run (inv_new G cap b maxSwaps rate auto fpBits hcap) oracle ops hk
  refine ⟨ri, rs, ro, re, ?_⟩
  intro h
  rw [ccf_check ri, fingerprint_fun rs, rc, countOf_new]
  rfl


/-- **The same statement with kicks and expansions allowed** (proved in `CcfKick.lean`): the
    hypothesis `NoKick` is replaced by "no call reported an error", for every oracle.  `0 < rate` is
    needed: with `rate = 0` an automatic expansion of the model produces a table with no buckets
    and silently loses every bin (see the test below; Python raises ZeroDivisionError there). -/
def ccf_exact_with_kicks_statement : Prop :=
  ∀ (G : Nat → Nat) (cap b maxSwaps rate : Nat) (auto : Bool) (fpBits : Nat), 0 < cap → 0 < rate →
  ∀ (oracle : List Nat) (ops : List Op),
    AllAddsOk G (Cuckoo.new true cap b maxSwaps rate auto fpBits, oracle) ops →
    ∀ h, check G (run G (Cuckoo.new true cap b maxSwaps rate auto fpBits) oracle ops).1 h =
      outstanding (Cuckoo.new true cap b maxSwaps rate auto fpBits).fingerprint ops
        ((Cuckoo.new true cap b maxSwaps rate auto fpBits).fingerprint h)

/-! ### tests (non-vacuity) -/

section Tests

private def G0 : Nat → Nat := fun fp => fp * 7 + 3

/-- 3 buckets of 2 slots; fingerprint 3 stored with count 2 in bucket 0, fingerprint 4 once in bucket 1 -/
private def t0 : Cuckoo := ⟨true, 3, 2, 5, 2, false, 8, [[(3, 2)], [(4, 1)], []], 3, 2⟩

example : Inv G0 t0 := by decide
example : t0.fingerprint 3 = 3 ∧ t0.fingerprint 259 = 3 ∧ t0.fingerprint 256 = 1 := by decide
example : check G0 t0 3 = 2 ∧ countOf t0 3 = 2 ∧ check G0 t0 259 = 2 ∧ check G0 t0 5 = 0 := by decide
-- add of a stored fingerprint (via another key with the same fingerprint): count 2 → 3
example : add G0 t0 259 [9] = (⟨true, 3, 2, 5, 2, false, 8, [[(3, 3)], [(4, 1)], []], 4, 2⟩, none, [9]) := by decide
example : check G0 (add G0 t0 259 [9]).1 3 = check G0 t0 3 + 1 := by decide
-- add of a new fingerprint with room
example : add G0 t0 6 [9] = (⟨true, 3, 2, 5, 2, false, 8, [[(3, 2), (6, 1)], [(4, 1)], []], 4, 3⟩, none, [9]) := by decide
-- remove at count 2: decrement; at count 1: the bin is dropped; absent: nothing happens
example : remove G0 t0 3 = (⟨true, 3, 2, 5, 2, false, 8, [[(3, 1)], [(4, 1)], []], 2, 2⟩, true) := by decide
example : remove G0 t0 4 = (⟨true, 3, 2, 5, 2, false, 8, [[(3, 2)], [], []], 2, 1⟩, true) := by decide
example : check G0 t0 5 = 0 ∧ remove G0 t0 5 = (t0, false) := by decide
-- the theorems apply to this state
example := ccf_add_present (G := G0) (c := t0) (by decide) 259 [9] (by decide)
example := ccf_add_room (G := G0) (c := t0) (by decide) 6 [9] (by decide) (by decide)
example := ccf_remove_many (G := G0) (c := t0) (by decide) 3 (by decide)
example := ccf_remove_last (G := G0) (c := t0) (by decide) 4 (by decide)
example := ccf_absent (G := G0) (c := t0) (by decide) 5 (by decide)

/-- why `Inv` asks for counts ≥ 1: a bin with count 0 is reported absent by `check`, yet `remove`
    drops it and answers `true` (such a bin is never produced by the operations) -/
example : let bad : Cuckoo := ⟨true, 3, 2, 5, 2, false, 8, [[(3, 0)], [], []], 0, 1⟩
    check G0 bad 3 = 0 ∧ remove G0 bad 3 ≠ (bad, false) := by decide

/-- a history without kicks on 3 buckets of 2 slots -/
private def ops0 : List Op :=
  [.add 3, .add 3, .add 4, .remove 3, .add 259, .remove 7, .remove 4, .remove 4, .add 6]

example : NoKick G0 (Cuckoo.new true 3 2 5 2 false 8, [1, 2]) ops0 := by decide
example : outstanding (Cuckoo.new true 3 2 5 2 false 8).fingerprint ops0 3 = 2 ∧
    outstanding (Cuckoo.new true 3 2 5 2 false 8).fingerprint ops0 4 = 0 ∧
    outstanding (Cuckoo.new true 3 2 5 2 false 8).fingerprint ops0 6 = 1 ∧
    outstanding (Cuckoo.new true 3 2 5 2 false 8).fingerprint ops0 7 = 0 := by decide
example : (run G0 (Cuckoo.new true 3 2 5 2 false 8) [1, 2] ops0).1.buckets = [[(3, 2), (6, 1)], [], []] := by decide
example := ccf_exact G0 3 2 5 2 false 8 (by decide) [1, 2] ops0 (by decide)

/-- a history that does kick is rejected by `NoKick` (three fingerprints competing for bucket 0 of
    a one-slot table) -/
example : ¬ NoKick G0 (Cuckoo.new true 3 1 5 2 false 8, []) [.add 3, .add 6] := by decide

/-- `0 < rate` in `ccf_exact_with_kicks_statement` is needed: with `rate = 0` and `auto = true` the
    second add expands to a table without buckets, reports no error, and both keys are lost -/
example : AllAddsOk G0 (Cuckoo.new true 1 1 1 0 true 8, []) [.add 1, .add 2] ∧
    check G0 (run G0 (Cuckoo.new true 1 1 1 0 true 8) [] [.add 1, .add 2]).1 1 = 0 ∧
    outstanding (Cuckoo.new true 1 1 1 0 true 8).fingerprint [.add 1, .add 2] 1 = 1 := by decide

end Tests

end PyProb.Ccf
