/-
  The well-formedness conditions of the export formats are preserved by the update operations,
  count-min sketch family: bins stay within int32, array lengths never change.
-/
import PyProb.Lemmas.FormatsCms

namespace PyProb

/-! ### count-min: stores stay within int32 -/

def BinsOK (bins : List Int) : Prop := ∀ x ∈ bins, -2147483648 ≤ x ∧ x ≤ 2147483647

theorem BinsOK_set {bins : List Int} (h : BinsOK bins) (k : Nat) (v : Int) (hv : -2147483648 ≤ v ∧ v ≤ 2147483647) :
    BinsOK (bins.set k v) := by
  intro x hx
  rcases List.mem_or_eq_of_mem_set hx with hx | rfl
  · exact h x hx
  · exact hv

theorem cms_addLoop_ok (bins : List Int) (pairs : List (Nat × Int)) (acc : List Int) (h : BinsOK bins) :
    BinsOK (CMS.addLoop bins pairs acc).1 ∧ (CMS.addLoop bins pairs acc).1.length = bins.length := by
  induction pairs generalizing bins acc with
  | nil => exact ⟨h, rfl⟩
  | cons kv rest ih =>
      obtain ⟨k, v⟩ := kv
      -- only the ORDER of the library's limits and the cell's storage range matters here, not their values
      have hmax : Gen.int32Max ≤ 2147483647 := by decide
      have hmax0 : (-2147483648 : Int) ≤ Gen.int32Max := by decide
      have hmin : (-2147483648 : Int) ≤ Gen.int32Min := by decide
      have hmin0 : Gen.int32Min ≤ 2147483647 := by decide
      simp only [CMS.addLoop, Gen.cmsAddClampCmp, Cmp.evalInt, decide_eq_true_eq]
      split
      · have := ih (bins.set k Gen.int32Max) (Gen.int32Max :: acc) (BinsOK_set h k _ (by omega))
        simpa using this
      · split
        · exact ⟨h, rfl⟩
        · have := ih (bins.set k v) (v :: acc) (BinsOK_set h k _ (by omega))
          simpa using this

theorem cms_removeLoop_ok (bins : List Int) (pairs : List (Nat × Int)) (acc : List Int) (h : BinsOK bins) :
    BinsOK (CMS.removeLoop bins pairs acc).1 ∧ (CMS.removeLoop bins pairs acc).1.length = bins.length := by
  induction pairs generalizing bins acc with
  | nil => exact ⟨h, rfl⟩
  | cons kv rest ih =>
      obtain ⟨k, v⟩ := kv
      -- only the ORDER of the library's limits and the cell's storage range matters here, not their values
      have hmax : Gen.int32Max ≤ 2147483647 := by decide
      have hmax0 : (-2147483648 : Int) ≤ Gen.int32Max := by decide
      have hmin : (-2147483648 : Int) ≤ Gen.int32Min := by decide
      have hmin0 : Gen.int32Min ≤ 2147483647 := by decide
      simp only [CMS.removeLoop, Gen.cmsRemoveKeepCmp, Cmp.evalInt, decide_eq_true_eq]
      split
      · split
        · exact ⟨h, rfl⟩
        · have := ih (bins.set k v) (v :: acc) (BinsOK_set h k _ (by omega))
          simpa using this
      · have := ih (bins.set k Gen.int32Min) (Gen.int32Min :: acc) (BinsOK_set h k _ (by omega))
        simpa using this

theorem cms_addAlt_ok (c : CMS) (hs : List Nat) (n : Int) (h : BinsOK c.bins) :
    BinsOK (c.addAlt hs n).1.bins ∧ (c.addAlt hs n).1.bins.length = c.bins.length ∧
      (c.addAlt hs n).1.w = c.w ∧ (c.addAlt hs n).1.d = c.d := by
  unfold CMS.addAlt
  simp only
  split
  · exact ⟨h, rfl, rfl, rfl⟩
  · have := cms_addLoop_ok c.bins ((c.binIdx hs).zip ((c.binIdx hs).map fun x => c.bins.getD x 0 + n)) [] h
    generalize CMS.addLoop c.bins ((c.binIdx hs).zip ((c.binIdx hs).map fun x => c.bins.getD x 0 + n)) [] = r at this
    obtain ⟨bins, vals, err⟩ := r
    cases err <;> exact ⟨this.1, this.2, rfl, rfl⟩

theorem cms_removeAlt_ok (c : CMS) (hs : List Nat) (n : Int) (h : BinsOK c.bins) :
    BinsOK (c.removeAlt hs n).1.bins ∧ (c.removeAlt hs n).1.bins.length = c.bins.length ∧
      (c.removeAlt hs n).1.w = c.w ∧ (c.removeAlt hs n).1.d = c.d := by
  unfold CMS.removeAlt
  simp only
  split
  · exact ⟨h, rfl, rfl, rfl⟩
  · have := cms_removeLoop_ok c.bins ((c.binIdx hs).zip ((c.binIdx hs).map fun x => c.bins.getD x 0 - n)) [] h
    generalize CMS.removeLoop c.bins ((c.binIdx hs).zip ((c.binIdx hs).map fun x => c.bins.getD x 0 - n)) [] = r at this
    obtain ⟨bins, vals, err⟩ := r
    cases err <;> exact ⟨this.1, this.2, rfl, rfl⟩

end PyProb
