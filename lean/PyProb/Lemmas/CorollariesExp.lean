/-
  Cross-property corollary 5 (expanding Bloom filter): the growth law of C09 continues to hold
  when the filter is exported and loaded in the middle of a history.

  C09 states its theorems from any state with the invariant and the shape (`…_from`,
  `C09_reload`) and says "the round trip itself is C05"; C05 proves `load (export e) = e` for every
  state with uniform sub-filters (`SubsOK`) and a non-empty queue.  Here the missing link is
  supplied — every state reachable by a C09 history from `new` has uniform sub-filters and a
  non-empty queue (`expanding_run_subs`) — and the pieces are joined for histories
  `ops₁ ++ [export; load] ++ ops₂`.

  Hypotheses that remain: `GeomStable geom est fpr32 k m` (the loader re-derives the geometry from
  the footer with the float parameter function `geom`; the same hypothesis as in C05) and "the
  export succeeded" (64-bit range of the counters, as in C05).
-/
import PyProb.Properties.C05_bloom
import PyProb.Properties.C09

namespace PyProb.Corollaries
open PyProb PyProb.Expanding

/-- one call of a C09 history keeps the sub-filters uniform and the queue non-empty -/
theorem expanding_step_subs (e : Expanding) (op : C09.Op) (hne : e.blooms ≠ [])
    (hsubs : C05.SubsOK e) : (C09.step e op).blooms ≠ [] ∧ C05.SubsOK (C09.step e op) := by
  cases op with
  | add p hs f =>
      have h := expanding_addCore_ok e p hs f hsubs hne
      exact ⟨h.2, h.1⟩
  | push =>
      exact ⟨by simp [C09.step, Expanding.push], C05.C05_expanding_push_subs e hsubs⟩

/-- every state of a C09 history (arbitrary membership answers, `push` allowed, any hash lists)
    from a state with uniform sub-filters has uniform sub-filters and a non-empty queue -/
theorem expanding_run_subs (e : Expanding) (ops : List C09.Op) (hne : e.blooms ≠ [])
    (hsubs : C05.SubsOK e) : (C09.run e ops).blooms ≠ [] ∧ C05.SubsOK (C09.run e ops) := by
  induction ops generalizing e with
  | nil => exact ⟨hne, hsubs⟩
  | cons op ops ih =>
      obtain ⟨h1, h2⟩ := expanding_step_subs e op hne hsubs
      exact ih (C09.step e op) h1 h2

theorem expanding_new_subs (est fpr32 k m : Nat) :
    (Expanding.new est fpr32 k m).blooms ≠ [] ∧ C05.SubsOK (Expanding.new est fpr32 k m) := by
  refine ⟨by simp [Expanding.new], ?_⟩
  intro b hb
  simp only [Expanding.new, List.mem_singleton] at hb
  subst hb; simp [Bloom.new, Expanding.new]

theorem run_append (e : Expanding) (ops₁ ops₂ : List C09.Op) :
    C09.run e (ops₁ ++ ops₂) = C09.run (C09.run e ops₁) ops₂ := by
  simp [C09.run, List.foldl_append]

theorem effCount_append (ops₁ ops₂ : List C09.Op) :
    C09.effCount (ops₁ ++ ops₂) = C09.effCount ops₁ + C09.effCount ops₂ := by
  simp [C09.effCount, List.countP_append]

theorem addCount_append (ops₁ ops₂ : List C09.Op) :
    C09.addCount (ops₁ ++ ops₂) = C09.addCount ops₁ + C09.addCount ops₂ := by
  simp [C09.addCount, List.countP_append]

/-- **export + load of a reachable expanding filter gives the filter back** — for every history
    (any membership answers, `push` allowed), with no well-formedness hypothesis on the state -/
theorem expanding_reload_state (geom : Geom) (est fpr32 k m : Nat)
    (hg : C05.GeomStable geom est fpr32 k m) (ops : List C09.Op) (bytes : Bytes)
    (hexp : (C09.run (Expanding.new est fpr32 k m) ops).exportBytes = .ok bytes) :
    Expanding.load geom bytes = .ok (C09.run (Expanding.new est fpr32 k m) ops) := by
  obtain ⟨hne0, hs0⟩ := expanding_new_subs est fpr32 k m
  obtain ⟨hne, hs⟩ := expanding_run_subs _ ops hne0 hs0
  obtain ⟨a, b, c, d⟩ := C09.run_static (Expanding.new est fpr32 k m) ops
  apply C05.C05_expanding_roundtrip geom _ bytes hne hs _ hexp
  rw [a, b, c, d]; exact hg

/-- **the growth law across a reload.**  `ops₁` and `ops₂` are `push`-free histories of `add`
    calls with at least `k` hashes (membership answers arbitrary); after `ops₁` the filter is
    exported and the bytes are loaded into `e'`.  Then `e'` satisfies the C09 invariant and has the
    shape of `I₁ = effCount ops₁` insertions, and after `ops₂`:
    the state is the one the uninterrupted history `ops₁ ++ ops₂` leads to; no sub-filter exceeds
    `est`; the per-filter counts are `est, …, est, c` with `I₁ + I₂ = x·est + c`;
    `expansions = if I = 0 then 0 else (I − 1) / est` for `I = I₁ + I₂`; `elements_added` counts
    the `add` calls of both parts. -/
theorem expanding_reload_growth (geom : Geom) (est fpr32 k m : Nat) (h1 : 1 ≤ est)
    (hg : C05.GeomStable geom est fpr32 k m) (ops₁ ops₂ : List C09.Op)
    (hok₁ : ∀ op ∈ ops₁, op.ok k) (hadds₁ : ∀ op ∈ ops₁, op.isAdd = true)
    (hok₂ : ∀ op ∈ ops₂, op.ok k) (hadds₂ : ∀ op ∈ ops₂, op.isAdd = true)
    (bytes : Bytes)
    (hexp : (C09.run (Expanding.new est fpr32 k m) ops₁).exportBytes = .ok bytes)
    (e' : Expanding) (hload : Expanding.load geom bytes = .ok e') :
    e'.Inv ∧ e'.Shape (C09.effCount ops₁) ∧ e'.est = est ∧ e'.k = k ∧
    C09.run e' ops₂ = C09.run (Expanding.new est fpr32 k m) (ops₁ ++ ops₂) ∧
    (∀ b ∈ (C09.run e' ops₂).blooms, 0 ≤ b.count ∧ b.count ≤ est) ∧
    (C09.run e' ops₂).Shape (C09.effCount ops₁ + C09.effCount ops₂) ∧
    (C09.run e' ops₂).expansions =
      ((if C09.effCount ops₁ + C09.effCount ops₂ = 0 then 0
        else (C09.effCount ops₁ + C09.effCount ops₂ - 1) / est : Nat) : Int) ∧
    (C09.run e' ops₂).added = (C09.addCount ops₁ + C09.addCount ops₂ : Nat) := by
  rw [expanding_reload_state geom est fpr32 k m hg ops₁ bytes hexp] at hload
  injection hload with hload
  subst hload
  obtain ⟨a, b, _, _⟩ := C09.run_static (Expanding.new est fpr32 k m) ops₁
  have hi0 := C09.C09_inv_new est fpr32 k m h1
  have hi : (C09.run (Expanding.new est fpr32 k m) ops₁).Inv := C09.C09_inv_run _ ops₁ hok₁ hi0
  have hs : (C09.run (Expanding.new est fpr32 k m) ops₁).Shape (C09.effCount ops₁) := by
    have := C09.C09_shape_from (Expanding.new est fpr32 k m) 0 ops₁ hok₁ hadds₁ hi0
      (shape_new est fpr32 k m)
    rwa [Nat.zero_add] at this
  have hok₂' : ∀ op ∈ ops₂, op.ok (C09.run (Expanding.new est fpr32 k m) ops₁).k := by
    rw [b]; exact hok₂
  obtain ⟨r1, r2, r3, r4⟩ := C09.C09_reload _ (C09.effCount ops₁) ops₂ hok₂' hadds₂ hi hs
  rw [a] at r1 r3
  refine ⟨hi, hs, a, b, (run_append _ ops₁ ops₂).symm, r1, r2, r3, ?_⟩
  rw [r4, C09.C09_counted]
  simp [Expanding.new]

/-- with `push` anywhere in the two parts only the bound survives (as in C09), and it does so
    across the reload -/
theorem expanding_reload_bound (geom : Geom) (est fpr32 k m : Nat) (h1 : 1 ≤ est)
    (hg : C05.GeomStable geom est fpr32 k m) (ops₁ ops₂ : List C09.Op)
    (hok₁ : ∀ op ∈ ops₁, op.ok k) (hok₂ : ∀ op ∈ ops₂, op.ok k) (bytes : Bytes)
    (hexp : (C09.run (Expanding.new est fpr32 k m) ops₁).exportBytes = .ok bytes)
    (e' : Expanding) (hload : Expanding.load geom bytes = .ok e') :
    C09.run e' ops₂ = C09.run (Expanding.new est fpr32 k m) (ops₁ ++ ops₂) ∧
    (C09.run e' ops₂).blooms ≠ [] ∧
    ∀ b ∈ (C09.run e' ops₂).blooms, 0 ≤ b.count ∧ b.count ≤ est := by
  rw [expanding_reload_state geom est fpr32 k m hg ops₁ bytes hexp] at hload
  injection hload with hload
  subst hload
  have hok : ∀ op ∈ ops₁ ++ ops₂, op.ok k := by
    intro op hop
    rcases List.mem_append.mp hop with h | h
    · exact hok₁ op h
    · exact hok₂ op h
  rw [← run_append]
  exact ⟨rfl, C09.C09_nonempty est fpr32 k m h1 _ hok, C09.C09_bound est fpr32 k m h1 _ hok⟩

/-- the same for the real API (`add_alt` computes the membership answer with `check_alt`):
    a history of real calls, export + load, a further history of real calls ends in the state of
    the uninterrupted history -/
theorem expanding_reload_api (geom : Geom) (est fpr32 k m : Nat) (h1 : 1 ≤ est)
    (hg : C05.GeomStable geom est fpr32 k m) (aops₁ aops₂ : List C09.AOp)
    (hok₁ : ∀ a ∈ aops₁, a.ok k) (bytes : Bytes)
    (hexp : (C09.runA (Expanding.new est fpr32 k m) aops₁).exportBytes = .ok bytes)
    (e' : Expanding) (hload : Expanding.load geom bytes = .ok e') :
    e' = C09.runA (Expanding.new est fpr32 k m) aops₁ ∧
    C09.runA e' aops₂ = C09.runA (Expanding.new est fpr32 k m) (aops₁ ++ aops₂) := by
  obtain ⟨ops, _, _, hrun⟩ := C09.C09_api (Expanding.new est fpr32 k m) aops₁ hok₁
    (C09.C09_inv_new est fpr32 k m h1)
  rw [hrun] at hexp
  rw [expanding_reload_state geom est fpr32 k m hg ops bytes hexp] at hload
  injection hload with hload
  subst hload
  refine ⟨hrun.symm, ?_⟩
  rw [← hrun]
  simp [C09.runA, List.foldl_append]

/-! ### non-vacuity (test on the sample history of C09: `est = 2`, reload after 4 of 7 calls) -/

private def g16 : Geom := fun _ f => .ok (f, 2, 16)

example :
    let e₁ := C09.run (Expanding.new 2 0 2 16) (C09.sampleOps.take 4)
    ∃ bytes e', e₁.exportBytes = .ok bytes ∧ Expanding.load g16 bytes = .ok e' ∧
      e'.blooms.map (·.count) = [2, 1] ∧
      (C09.run e' (C09.sampleOps.drop 4)).blooms.map (·.count) = [2, 2, 2] ∧
      (C09.run e' (C09.sampleOps.drop 4)).expansions = 2 := by
  refine ⟨_, _, rfl, rfl, ?_⟩
  decide

example := expanding_reload_growth g16 2 0 2 16 (by decide) rfl (C09.sampleOps.take 4)
  (C09.sampleOps.drop 4) (by decide) (by decide) (by decide) (by decide) _ rfl _ rfl

end PyProb.Corollaries
