/-
  Counter bookkeeping of the cuckoo filters (`_inserted_elements`, `__unique_elements`):
  how `insertAt`, the kick loop, `insertFp`, `reinsert`, `expandLogic`, `add`, `remove` and `load`
  move the two counters, and the invariant `CountInv` tying them to the table.
  Core Lean only.  Used by `PyProb/Properties/C14.lean`.
-/
import PyProb.Lemmas.CuckooOps

namespace PyProb.Cuckoo

/-- the weight "count of the bin" -/
abbrev wCnt : CBin → Nat := fun bin => bin.2
/-- the weight "one per bin" -/
abbrev wOne : CBin → Nat := fun _ => 1

/-- the counter invariant: `elements_added` is the sum of all bin counts and, for the counting
    filter, `unique_elements` is the number of bins (the plain filter never touches it) -/
def CountInv (c : Cuckoo) : Prop :=
  c.count = (tsum wCnt c : Int) ∧
  (c.counting = true → c.unique = (tsum wOne c : Int)) ∧
  (c.counting = false → c.unique = 0)

/-! ### the weights written out -/

theorem bsum_wOne (l : List CBin) : bsum wOne l = l.length := by
  induction l with
  | nil => rfl
  | cons a l ih => rw [bsum_cons, ih, List.length_cons]; show 1 + l.length = l.length + 1; omega

theorem tsum_wOne (c : Cuckoo) : tsum wOne c = c.buckets.flatten.length := by
  rw [tsum_eq_flatten, bsum_wOne]

theorem tsum_wCnt (c : Cuckoo) : tsum wCnt c = (c.buckets.flatten.map (·.2)).sum := by
  rw [tsum_eq_flatten]; rfl

theorem bsum_wCnt_of_ones (l : List CBin) (h : ∀ bin ∈ l, bin.2 = 1) : bsum wCnt l = l.length := by
  rw [← bsum_wOne]; exact bsum_congr _ _ _ h

/-! ### the fresh filter -/

theorem CountInv_new (counting : Bool) (cap b maxSwaps rate : Nat) (auto : Bool) (fpBits : Nat) :
    CountInv (Cuckoo.new counting cap b maxSwaps rate auto fpBits) := by
  refine ⟨?_, fun _ => ?_, fun _ => rfl⟩
  · rw [tsum_empty_table _ _ cap rfl]; rfl
  · rw [tsum_empty_table _ _ cap rfl]; rfl

/-! ### counters through `insertAt`, the kick loop, `insertFp` -/

theorem insertAt_counters {c c' : Cuckoo} {i : Nat} {bin : CBin} (h : c.insertAt i bin = some c') :
    c'.count = c.count ∧ c'.unique = c.unique ∧ c'.counting = c.counting := by
  unfold insertAt at h
  split at h
  · simp only [Option.some.injEq] at h; subst h; exact ⟨rfl, rfl, rfl⟩
  · simp at h

/-- what `placed` does to the counters -/
def Bumped (c c' : Cuckoo) (cnt : Nat) : Prop :=
  c'.count = c.count + cnt ∧ c'.unique = (if c.counting then c.unique + 1 else c.unique) ∧
  c'.counting = c.counting

theorem bumped_of_insertAt {c c' : Cuckoo} {i : Nat} {bin : CBin} (cnt : Nat) (h : c.insertAt i bin = some c') :
    Bumped c (c'.placed cnt) cnt := by
  obtain ⟨h1, h2, h3⟩ := insertAt_counters h
  refine ⟨?_, ?_, h3⟩
  · simp only [placed, h1]
  · simp only [placed, h2, h3]

/-- a successful kick loop bumps the counters exactly once, however long the eviction chain -/
theorem kick_counters (G : Nat → Nat) (cnt : Nat) : ∀ (fuel : Nat) (c : Cuckoo) (hand : CBin) (idx : Nat)
    (o : List Nat) (c' : Cuckoo) (o' : List Nat),
    kick G cnt fuel c hand idx o = (some c', o') → Bumped c c' cnt := by
  intro fuel
  induction fuel with
  | zero => intro c hand idx o c' o' h; simp [kick_zero] at h
  | succ fuel ih =>
    intro c hand idx o c' o' h
    rw [kick_succ] at h
    have e1 : (kstep G c hand idx o).1.count = c.count := rfl
    have e2 : (kstep G c hand idx o).1.unique = c.unique := rfl
    have e3 : (kstep G c hand idx o).1.counting = c.counting := rfl
    generalize kstep G c hand idx o = st at *
    obtain ⟨c1, victim, idx'⟩ := st
    simp only at *
    split at h
    · rename_i c2 hins
      simp only [Prod.mk.injEq, Option.some.injEq] at h
      obtain ⟨rfl, _⟩ := h
      have hb := bumped_of_insertAt cnt hins
      unfold Bumped at hb ⊢
      rw [e1, e2, e3] at hb
      exact hb
    · have hb := ih c1 victim idx' o.tail c' o' h
      unfold Bumped at hb ⊢
      rw [e1, e2, e3] at hb
      exact hb

theorem insertFp_counters (G : Nat → Nat) (c : Cuckoo) (bin : CBin) (i1 i2 : Nat) (o : List Nat) :
    ((insertFp G c bin i1 i2 o).2.1 = none ∧ Bumped c (insertFp G c bin i1 i2 o).1 bin.2) ∨
    ((insertFp G c bin i1 i2 o).2.1 = some bin ∧ (insertFp G c bin i1 i2 o).1 = c) := by
  unfold insertFp
  split
  · rename_i c1 hins
    exact Or.inl ⟨rfl, bumped_of_insertAt _ hins⟩
  · split
    · rename_i c1 hins
      exact Or.inl ⟨rfl, bumped_of_insertAt _ hins⟩
    · simp only
      generalize (if o.headD 0 == 0 then i1 else i2) = idx
      rcases kick_none_or_some G bin.2 c.maxSwaps c bin idx o.tail with ⟨o', hk⟩ | ⟨c', o', hk⟩
      · rw [hk]; exact Or.inr ⟨rfl, rfl⟩
      · rw [hk]; exact Or.inl ⟨rfl, kick_counters G bin.2 _ _ _ _ _ _ _ hk⟩

/-! ### `CountInv` through `insertFp`, `reinsert`, `expandLogic` -/

/-- a table that gained exactly the bin `bin` and whose counters were bumped by `bin.2` -/
theorem CountInv_of_bumped {c c' : Cuckoo} {bin : CBin} (hc : CountInv c) (hb : Bumped c c' bin.2)
    (ht : ∀ f, tsum f c' = tsum f c + f bin) : CountInv c' := by
  obtain ⟨h1, h2, h3⟩ := hc
  obtain ⟨b1, b2, b3⟩ := hb
  refine ⟨?_, ?_, ?_⟩
  · rw [b1, h1, ht]; simp
  · intro hcount
    rw [b3] at hcount
    rw [b2, if_pos hcount, h2 hcount, ht]; simp
  · intro hcount
    rw [b3] at hcount
    rw [b2, hcount]; simpa using h3 hcount

theorem insertFp_countInv {G : Nat → Nat} {c : Cuckoo} (bin : CBin) (o : List Nat) (hs : TS G c)
    (hc : CountInv c) : CountInv (insertFp G c bin (bin.1 % c.cap) (G bin.1 % c.cap) o).1 := by
  rcases insertFp_counters G c bin (bin.1 % c.cap) (G bin.1 % c.cap) o with ⟨hn, hb⟩ | ⟨_, he⟩
  · rcases insertFp_spec (G := G) bin o hs with ⟨_, _, _, ht⟩ | ⟨hsome, _⟩
    · exact CountInv_of_bumped hc hb ht
    · rw [hn] at hsome; simp at hsome
  · rw [he]; exact hc

theorem reinsert_countInv (G : Nat → Nat) : ∀ (bins : List CBin) (c : Cuckoo) (o : List Nat) (c' : Cuckoo)
    (o' : List Nat), TS G c → CountInv c → reinsert G bins c o = (some c', o') → CountInv c' := by
  intro bins
  induction bins with
  | nil =>
    intro c o c' o' _ hc h
    simp only [reinsert, Prod.mk.injEq, Option.some.injEq] at h
    obtain ⟨rfl, _⟩ := h
    exact hc
  | cons bin rest ih =>
    intro c o c' o' hs hc h
    simp only [reinsert, indices] at h
    have hspec := insertFp_spec (G := G) bin o hs
    have hci := insertFp_countInv (G := G) bin o hs hc
    generalize insertFp G c bin (bin.1 % c.cap) (G bin.1 % c.cap) o = r at h hspec hci
    obtain ⟨c1, left, o1⟩ := r
    cases left with
    | some l => simp at h
    | none =>
      simp only at h hspec hci
      rcases hspec with ⟨_, hs1, _, _⟩ | ⟨hbad, _⟩
      · exact ih c1 o1 c' o' hs1 hci h
      · simp at hbad

theorem TS_emptied {G : Nat → Nat} {c : Cuckoo} (hs : TS G c) (hr : 0 < c.rate) : TS G (emptied c) := by
  have hbk : ∀ i, (emptied c).bucket i = [] := by
    intro i
    simp only [emptied, bucket, List.getD_eq_getElem?_getD, List.getElem?_replicate]
    split <;> rfl
  refine ⟨by simp [emptied], Nat.mul_pos hs.cap_pos hr, hs.b_pos, ?_, ?_⟩
  · intro i; rw [hbk]; simp
  · intro i b; rw [hbk]; simp

theorem CountInv_emptied (c : Cuckoo) : CountInv (emptied c) := by
  refine ⟨?_, fun _ => ?_, fun _ => rfl⟩
  · rw [tsum_empty_table _ _ (c.cap * c.rate) rfl]; rfl
  · rw [tsum_empty_table _ _ (c.cap * c.rate) rfl]; rfl

/-- `_expand_logic` recounts from zero: the result satisfies `CountInv` whenever it succeeds, and a
    failed expansion hands back the old filter (for which `CountInv` is assumed) -/
theorem expandLogic_countInv {G : Nat → Nat} {c : Cuckoo} (extra : Option CBin) (o : List Nat)
    (hs : TS G c) (hr : 0 < c.rate) (hc : CountInv c) : CountInv (expandLogic G c extra o).1 := by
  rw [expandLogic_eq]
  generalize hrr : reinsert G (extra.toList ++ c.buckets.flatten) (emptied c) o = r
  obtain ⟨r1, o'⟩ := r
  cases r1 with
  | none => exact hc
  | some c' => exact reinsert_countInv G _ _ o c' o' (TS_emptied hs hr) (CountInv_emptied c) hrr

/-- a successful expansion does not even need the counters to have been right before -/
theorem expandLogic_countInv_of_ok {G : Nat → Nat} {c : Cuckoo} (extra : Option CBin) (o : List Nat)
    (hs : TS G c) (hr : 0 < c.rate) (hok : (expandLogic G c extra o).2.1 = none) :
    CountInv (expandLogic G c extra o).1 := by
  rw [expandLogic_eq] at hok ⊢
  generalize hrr : reinsert G (extra.toList ++ c.buckets.flatten) (emptied c) o = r at hok
  obtain ⟨r1, o'⟩ := r
  cases r1 with
  | none => simp at hok
  | some c' => exact reinsert_countInv G _ _ o c' o' (TS_emptied hs hr) (CountInv_emptied c) hrr

/-! ### rewriting one bucket: the three ways `add` / `remove` touch a stored bin -/

/-- the bin with fingerprint `fp` in bucket `i` has its count raised by one -/
theorem CountInv_inc {G : Nat → Nat} {c c' : Cuckoo} {i fp : Nat} (hw : WF G c) (hi : i < c.cap)
    (hh : c.hasFp i fp = true) (hcount : c.counting = true) (hsame : Same c c')
    (hb : c'.buckets = c.buckets.set i ((c.bucket i).map fun bin =>
      if bin.1 == fp then (bin.1, bin.2 + 1) else bin))
    (e1 : c'.count = c.count + 1) (e2 : c'.unique = c.unique) (hc : CountInv c) : CountInv c' := by
  obtain ⟨_, hc'⟩ := WF_modify_map (G := G) (c' := c')
    (fun bin => if bin.1 == fp then (bin.1, bin.2 + 1) else bin) hw hi hsame hb
    (by intro x; by_cases e : (x.1 == fp) = true <;> simp [e])
    (by intro x hx; have := hw.cnt_pos x (stored_of_bucket hx)
        by_cases e : (x.1 == fp) = true <;> simp [e]; exact this)
    (by intro hf; rw [hcount] at hf; exact absurd hf (by simp))
  obtain ⟨h1, h2, h3⟩ := hc
  refine ⟨?_, fun _ => ?_, fun hf => ?_⟩
  · have g1 := hc' wCnt
    have g2 : bsum (wCnt ∘ fun bin => if bin.1 == fp then (bin.1, bin.2 + 1) else bin) (c.bucket i)
        = bsum wCnt (c.bucket i) + bsum (isFp fp) (c.bucket i) := by
      rw [← bsum_add]
      apply bsum_congr
      intro x _
      simp only [Function.comp, isFp, wCnt]
      by_cases e : x.1 = fp
      · simp [e]
      · simp [e]
    have g3 := bsum_isFp_bucket_eq_one hw i fp hh
    rw [g2, g3] at g1
    omega
  · have g1 := hc' wOne
    have g2 : bsum (wOne ∘ fun bin => if bin.1 == fp then (bin.1, bin.2 + 1) else bin) (c.bucket i)
        = bsum wOne (c.bucket i) := rfl
    rw [g2] at g1
    have := h2 hcount
    omega
  · rw [hsame.counting, hcount] at hf; exact absurd hf (by simp)

/-- the bin `bin` (count ≥ 2) with fingerprint `fp` in bucket `i` has its count lowered by one -/
theorem CountInv_dec {G : Nat → Nat} {c c' : Cuckoo} {i fp : Nat} {bin : CBin} (hw : WF G c) (hi : i < c.cap)
    (hh : c.hasFp i fp = true) (hbm : bin ∈ c.bucket i) (hb1 : bin.1 = fp) (hgt : ¬ bin.2 ≤ 1)
    (hcount : c.counting = true) (hsame : Same c c')
    (hb : c'.buckets = c.buckets.set i ((c.bucket i).map fun x =>
      if x.1 == fp then (x.1, x.2 - 1) else x))
    (e1 : c'.count = c.count - 1) (e2 : c'.unique = c.unique) (hc : CountInv c) : CountInv c' := by
  have hbs : stored c bin := stored_of_bucket hbm
  obtain ⟨_, hc'⟩ := WF_modify_map (G := G) (c' := c')
    (fun x => if x.1 == fp then (x.1, x.2 - 1) else x) hw hi hsame hb
    (by intro x; by_cases e : (x.1 == fp) = true <;> simp [e])
    (by
      intro x hx
      have hxs := stored_of_bucket hx
      have := hw.cnt_pos x hxs
      by_cases e : (x.1 == fp) = true
      · have e' : x.1 = fp := by simpa using e
        have : x = bin := stored_unique hw x bin hxs hbs (e'.trans hb1.symm)
        subst this
        simp only [e, if_true]; omega
      · simp only [e]; exact this)
    (by intro hf; rw [hcount] at hf; exact absurd hf (by simp))
  obtain ⟨h1, h2, h3⟩ := hc
  refine ⟨?_, fun _ => ?_, fun hf => ?_⟩
  · have g1 := hc' wCnt
    have g2 : bsum (wCnt ∘ fun x => if x.1 == fp then (x.1, x.2 - 1) else x) (c.bucket i)
        + bsum (isFp fp) (c.bucket i) = bsum wCnt (c.bucket i) := by
      rw [← bsum_add]
      apply bsum_congr
      intro x hx
      have := hw.cnt_pos x (stored_of_bucket hx)
      simp only [Function.comp, isFp, wCnt]
      by_cases e : x.1 = fp
      · simp [e]; omega
      · simp [e]
    have g3 := bsum_isFp_bucket_eq_one hw i fp hh
    rw [g3] at g2
    omega
  · have g1 := hc' wOne
    have g2 : bsum (wOne ∘ fun x => if x.1 == fp then (x.1, x.2 - 1) else x) (c.bucket i)
        = bsum wOne (c.bucket i) := rfl
    rw [g2] at g1
    have := h2 hcount
    omega
  · rw [hsame.counting, hcount] at hf; exact absurd hf (by simp)

/-- a bin of count 1 is erased from bucket `i` -/
theorem CountInv_erase {G : Nat → Nat} {c c' : Cuckoo} {i : Nat} {a : CBin} (hw : WF G c) (hi : i < c.cap)
    (ha : a ∈ c.bucket i) (ha2 : a.2 = 1) (hsame : Same c c')
    (hb : c'.buckets = c.buckets.set i ((c.bucket i).erase a))
    (e1 : c'.count = c.count - 1) (e2 : c'.unique = if c.counting then c.unique - 1 else c.unique)
    (hc : CountInv c) : CountInv c' := by
  obtain ⟨_, hc'⟩ := WF_modify_erase (G := G) (c' := c') a hw hi hsame hb ha
  obtain ⟨h1, h2, h3⟩ := hc
  refine ⟨?_, fun hf => ?_, fun hf => ?_⟩
  · have g1 := hc' wCnt
    have g2 : wCnt a = 1 := ha2
    omega
  · rw [hsame.counting] at hf
    have g1 := hc' wOne
    have g2 : wOne a = 1 := rfl
    have := h2 hf
    rw [e2, if_pos hf]
    omega
  · rw [hsame.counting] at hf
    rw [e2, hf]; simpa using h3 hf

/-! ### `add` -/

theorem add_countInv {G : Nat → Nat} {c : Cuckoo} (h : Nat) (o : List Nat) (hw : WF G c) (hc : CountInv c) :
    CountInv (add G c h o).1 := by
  simp only [add, indices]
  generalize c.fingerprint h = fp
  split
  · rename_i i hp
    obtain ⟨hi12, hh⟩ := present_some hp
    have hi : i < c.cap := by
      rcases hi12 with rfl | rfl <;> exact Nat.mod_lt _ hw.ts.cap_pos
    by_cases hcount : c.counting = true
    · rw [if_pos hcount]
      exact CountInv_inc hw hi hh hcount ⟨rfl, rfl, rfl, rfl, rfl, rfl, rfl⟩ rfl rfl rfl hc
    · rw [if_neg hcount]; exact hc
  · have hci := insertFp_countInv (G := G) (fp, 1) o hw.ts hc
    have hcs := insertFp_counters G c (fp, 1) (fp % c.cap) (G fp % c.cap) o
    simp only at hci hcs
    generalize insertFp G c (fp, 1) (fp % c.cap) (G fp % c.cap) o = r at hci hcs
    obtain ⟨c1, left, o1⟩ := r
    cases left with
    | none => exact hci
    | some l =>
      simp only at hci hcs ⊢
      rcases hcs with ⟨hbad, _⟩ | ⟨_, rfl⟩
      · simp at hbad
      · split
        · exact expandLogic_countInv _ _ hw.ts hw.rate_pos hc
        · exact hc

/-! ### `remove` -/

theorem remove_countInv {G : Nat → Nat} {c : Cuckoo} (h : Nat) (hw : WF G c) (hc : CountInv c) :
    CountInv (remove G c h).1 := by
  simp only [remove, indices]
  generalize c.fingerprint h = fp
  split
  · exact hc
  · rename_i i hp
    obtain ⟨hi12, hh⟩ := present_some hp
    have hi : i < c.cap := by
      rcases hi12 with rfl | rfl <;> exact Nat.mod_lt _ hw.ts.cap_pos
    obtain ⟨bin0, hm0, e0⟩ := (hasFp_iff c i fp).mp hh
    by_cases hcount : c.counting = true
    · rw [if_pos hcount]
      split
      · exact hc
      · rename_i bin hf
        have hb1 : bin.1 = fp := by simpa using List.find?_some hf
        have hbm : bin ∈ c.bucket i := List.mem_of_find?_eq_some hf
        have hbpos := hw.cnt_pos bin (stored_of_bucket hbm)
        split
        · rename_i hle
          exact CountInv_erase hw hi hbm (by omega) ⟨rfl, rfl, rfl, rfl, rfl, rfl, rfl⟩ rfl rfl
            (by simp only [hcount, if_true]) hc
        · rename_i hgt
          exact CountInv_dec hw hi hh hbm hb1 hgt hcount ⟨rfl, rfl, rfl, rfl, rfl, rfl, rfl⟩ rfl rfl rfl hc
    · have hcf : c.counting = false := by simpa using hcount
      rw [if_neg hcount]
      have hb0 : bin0 = (fp, 1) := by
        have := hw.plain hcf bin0 (stored_of_bucket hm0)
        exact Prod.ext e0 this
      subst hb0
      exact CountInv_erase hw hi hm0 rfl ⟨rfl, rfl, rfl, rfl, rfl, rfl, rfl⟩ rfl rfl
        (by simp only [hcf]; rfl) hc

/-! ### by how much `add` / `remove` move `elements_added` -/

theorem tsum_add (f g : CBin → Nat) (c : Cuckoo) : tsum (fun b => f b + g b) c = tsum f c + tsum g c := by
  rw [tsum_eq_flatten, tsum_eq_flatten, tsum_eq_flatten, bsum_add]

/-- the count of a bin whose fingerprint is not `fp` -/
def offFp (fp : Nat) : CBin → Nat := fun b => if b.1 = fp then 0 else b.2

theorem wCnt_split (fp : Nat) (c : Cuckoo) : tsum wCnt c = tsum (cntW fp) c + tsum (offFp fp) c := by
  rw [← tsum_add]
  have : wCnt = fun b => cntW fp b + offFp fp b := by
    funext b
    simp only [cntW, offFp]
    split <;> simp
  rw [this]

/-- an `add` that returns normally raises `elements_added` by one — for the plain filter only if
    the fingerprint was not there yet (`check` reported 0) -/
theorem add_count_delta {G : Nat → Nat} {c : Cuckoo} (h : Nat) (o : List Nat) (hw : WF G c) (hc : CountInv c)
    (hok : (add G c h o).2.1 = none) :
    (add G c h o).1.count = c.count + (if c.counting then 1 else 1 - (check G c h : Int)) := by
  have hc' := add_countInv h o hw hc
  have hchk := check_eq_cnt hw h
  rcases add_spec h o hw with ⟨_, _, _, _, hoff, hcnt, _⟩ | ⟨he, _⟩
  · have h1 := hoff (offFp (c.fingerprint h)) (by intro b hb; simp [offFp, hb])
    have s1 := wCnt_split (c.fingerprint h) (add G c h o).1
    have s2 := wCnt_split (c.fingerprint h) c
    have e1 := hc'.1
    have e2 := hc.1
    by_cases hcount : c.counting = true
    · rw [if_pos hcount] at hcnt ⊢; omega
    · rw [if_neg hcount] at hcnt ⊢; omega
  · rw [hok] at he; simp at he

/-- a `remove` that returns `True` lowers `elements_added` by exactly one -/
theorem remove_count_delta {G : Nat → Nat} {c : Cuckoo} (h : Nat) (hw : WF G c) (hc : CountInv c)
    (hret : (remove G c h).2 = true) : (remove G c h).1.count = c.count - 1 := by
  have hc' := remove_countInv h hw hc
  rcases remove_spec h hw with ⟨_, _, _, _, hoff, hcnt, _⟩ | ⟨hf, _⟩
  · have h1 := hoff (offFp (c.fingerprint h)) (by intro b hb; simp [offFp, hb])
    have s1 := wCnt_split (c.fingerprint h) (remove G c h).1
    have s2 := wCnt_split (c.fingerprint h) c
    have e1 := hc'.1
    have e2 := hc.1
    omega
  · rw [hret] at hf; simp at hf

/-! ### `load` recounts -/

theorem load_countInv (template : Cuckoo) (file : Bytes) (c : Cuckoo) (h : load template file = .ok c) :
    CountInv c := by
  unfold load at h
  simp only at h
  split at h
  · simp at h
  · split at h
    · simp at h
    · split at h
      · simp at h
      · simp only [Except.ok.injEq] at h
        subst h
        refine ⟨rfl, fun hcount => ?_, fun hcount => ?_⟩
        · simp only at hcount ⊢
          rw [if_pos hcount]
          congr 1
          simp only [tsum]
          congr 1
          apply List.map_congr_left
          intro l _
          exact (bsum_wOne l).symm
        · simp only at hcount ⊢
          rw [hcount]; rfl
    · simp at h

end PyProb.Cuckoo
