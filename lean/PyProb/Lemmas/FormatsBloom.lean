/-
  Lemmas on the export formats, Bloom family (Bloom, counting Bloom, expanding / rotating): closed
  forms of `struct.pack` for the layouts extracted from the source (`Generated/Repo.lean`), footer
  parsing, sub-filter parsing.
-/
import PyProb.Lemmas.Codec
import PyProb.Model.Expanding

namespace PyProb

/-! ### closed forms of `pack` for the concrete layouts (all native paddings are zero) -/

theorem expCount_pack (v : Int) : Gen.expCount.pack [v] =
    if v < 0 ∨ v > 18446744073709551615 then .error .structError else .ok (leBytesInt 8 v) := by
  simp [Layout.pack, packGo, Gen.expCount, Field.lo, Field.hi, Gen.uint64Max, Layout.padBefore, Field.size, encField, Layout.isBig]

theorem bloomFooter_pack (a b c : Int) : Gen.bloomFooter.pack [a, b, c] =
    if a < 0 ∨ a > 18446744073709551615 then .error .structError
    else if b < 0 ∨ b > 18446744073709551615 then .error .structError
    else if c < 0 ∨ c > 4294967295 then .error .structError
    else .ok (leBytesInt 8 a ++ leBytesInt 8 b ++ leBytesInt 4 c) := by
  simp [Layout.pack, packGo, Gen.bloomFooter, Field.lo, Field.hi, Gen.uint64Max, Gen.uint32Max, Layout.padBefore, Field.size, encField, Layout.isBig]
  repeat' split
  all_goals simp_all

theorem bloomFooterHex_pack (a b c : Int) : Gen.bloomFooterHex.pack [a, b, c] =
    if a < 0 ∨ a > 18446744073709551615 then .error .structError
    else if b < 0 ∨ b > 18446744073709551615 then .error .structError
    else if c < 0 ∨ c > 4294967295 then .error .structError
    else .ok ((leBytesInt 8 a).reverse ++ (leBytesInt 8 b).reverse ++ (leBytesInt 4 c).reverse) := by
  simp [Layout.pack, packGo, Gen.bloomFooterHex, Field.lo, Field.hi, Gen.uint64Max, Gen.uint32Max, Layout.padBefore, Field.size, encField, Layout.isBig]
  repeat' split
  all_goals simp_all

theorem expFooter_pack (a b c d : Int) : Gen.expFooter.pack [a, b, c, d] =
    if a < 0 ∨ a > 18446744073709551615 then .error .structError
    else if b < 0 ∨ b > 18446744073709551615 then .error .structError
    else if c < 0 ∨ c > 18446744073709551615 then .error .structError
    else if d < 0 ∨ d > 4294967295 then .error .structError
    else .ok (leBytesInt 8 a ++ leBytesInt 8 b ++ leBytesInt 8 c ++ leBytesInt 4 d) := by
  simp [Layout.pack, packGo, Gen.expFooter, Field.lo, Field.hi, Gen.uint64Max, Gen.uint32Max, Layout.padBefore, Field.size, encField, Layout.isBig]
  repeat' split
  all_goals simp_all

theorem bloomFooter_size : Gen.bloomFooter.size = 20 := by decide
theorem bloomFooterHex_size : Gen.bloomFooterHex.size = 20 := by decide
theorem expFooter_size : Gen.expFooter.size = 28 := by decide
theorem expCount_size : Gen.expCount.size = 8 := by decide
theorem bloomCell_size : Gen.bloomCell.size = 1 := by decide
theorem cbfCell_size : Gen.cbfCell.size = 4 := by decide

/-! ### footers -/

theorem lastN_append {α} (a b : List α) (n : Nat) (h : b.length = n) : Bloom.lastN n (a ++ b) = b := by
  unfold Bloom.lastN; exact drop_length_sub_append a b n h

theorem ofFooter_pack (geom : Geom) (lay : Layout) (f : Bytes) (est fpr32 fpr' k m : Nat) (cnt : Int)
    (hp : lay.pack [(est : Int), cnt, (fpr32 : Int)] = .ok f)
    (hg : geom est fpr32 = .ok (fpr', k, m)) :
    Bloom.ofFooter geom lay f = .ok ⟨est, fpr', k, m, [], cnt⟩ := by
  unfold Bloom.ofFooter
  rw [unpack_pack lay _ f hp]
  simp [hg]

/-! ### expanding / rotating: sub-filters -/

/-- sub-filters that share the prototype's parameters and have `sz` bytes each are parsed back -/
theorem parseBlooms_go (proto : Bloom) (sz : Nat) (blooms : List Bloom) (body suf : Bytes)
    (hwf : ∀ b ∈ blooms, b.est = proto.est ∧ b.fpr32 = proto.fpr32 ∧ b.k = proto.k ∧ b.m = proto.m ∧
      b.bits.length = sz)
    (h : Expanding.exportBytes.go blooms = .ok body) :
    Expanding.parseBlooms proto sz blooms.length (body ++ suf) = blooms := by
  induction blooms generalizing body with
  | nil => rfl
  | cons b bs ih =>
      have hb := hwf b (by simp)
      have hbs := fun x hx => hwf x (List.mem_cons_of_mem _ hx)
      simp only [Expanding.exportBytes.go, expCount_pack] at h
      split at h
      · rename_i c rest hc hrest
        injection h with h; subst h
        split at hc
        · cases hc
        · rename_i hrange
          injection hc with hc; subst hc
          have ih := ih rest hbs hrest
          simp only [List.length_cons, Expanding.parseBlooms, expCount_size, List.append_assoc]
          rw [List.take_left' (leBytesInt_length _ _), List.drop_left' (leBytesInt_length _ _)]
          rw [List.take_left' hb.2.2.2.2]
          have hd : List.drop (8 + sz) (leBytesInt 8 b.count ++ (b.bits ++ (rest ++ suf))) = rest ++ suf := by
            rw [← List.append_assoc]; exact List.drop_left' (by simp [hb.2.2.2.2])
          rw [hd, ih]
          have : decField false Field.u64 (leBytesInt 8 b.count) = b.count :=
            decField_leBytesInt .u64 b.count (by simp [Field.lo]; omega) (by simp [Field.hi, Gen.uint64Max]; omega)
          rw [this]
          congr 1
          obtain ⟨e1, e2, e3, e4, -⟩ := hb
          cases b; cases proto; simp_all
      · cases h
      · cases h

end PyProb
