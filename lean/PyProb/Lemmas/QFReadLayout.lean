/-
  Layer A for the canonical layout, for every table size: the read paths of the model terminate
  and are correct on `Spec.layout q auto S` for every canonical `S`.
-/
import PyProb.Lemmas.QFFits
import PyProb.Lemmas.QFLinHashes

namespace PyProb.Spec
open PyProb PyProb.QF PyProb.QFLin

/-- the linear view of the canonical layout of a canonical set -/
theorem layout_lin_canon (q : Nat) (hq1 : 1 ≤ q) (auto : Bool) (S : List Elem) (hS : Sorted S)
    (hq : ∀ x ∈ S, x.1 < 2 ^ q) (hlen : S.length < 2 ^ q) :
    Lin (layout q auto S) (2 ^ q) (emptySlot (2 ^ q) S) S.length
      (dOf (2 ^ q) (emptySlot (2 ^ q) S) (rot (emptySlot (2 ^ q) S) S))
      (rOf (rot (emptySlot (2 ^ q) S) S)) :=
  layout_lin q hq1 auto S hS hq (canon_fits (2 ^ q) S hS hq hlen)

/-- **Layer A1**: `_contained_at_loc` on a canonical table terminates and finds exactly the stored
    elements -/
theorem contained_layout (q : Nat) (hq1 : 1 ≤ q) (auto : Bool) (S : List Elem) (hS : Sorted S)
    (hq : ∀ x ∈ S, x.1 < 2 ^ q) (hlen : S.length < 2 ^ q) (x : Elem) (hx : x.1 < 2 ^ q) :
    ∃ o, containedAtLoc (layout q auto S) x.1 x.2 = .ok o ∧ (o.isSome = true ↔ x ∈ S) := by
  have hF := canon_fits (2 ^ q) S hS hq hlen
  have L := layout_lin q hq1 auto S hS hq hF
  obtain ⟨he, hcnt, _⟩ := hF
  generalize hn : 2 ^ q = n at *
  generalize hee : emptySlot n S = e at *
  have hno : NoQuot e S := (cnt_zero_iff S e).1 hcnt
  generalize hT : rot e S = T at *
  have hperm : T.Perm S := by rw [← hT]; exact rot_perm e S hno
  have hn0 : 0 < n := by omega
  obtain ⟨o, ho, hiff⟩ := containedAtLoc_lin L (off n e x.1) (off_lt_n n e x.1 hn0) x.2
  rw [io_off n e x.1 he hx] at ho
  refine ⟨o, ho, ?_⟩
  rw [hiff]
  constructor
  · rintro ⟨i, hi, h1, h2⟩
    have hmem := getD_mem T i (by rw [hperm.length_eq]; exact hi)
    have hmS := hperm.mem_iff.1 hmem
    have e1 : (T.getD i (0, 0)).1 = x.1 := by
      have := io_off n e (T.getD i (0, 0)).1 he (hq _ hmS)
      simp only [dOf] at h1
      rw [h1, io_off n e x.1 he hx] at this
      exact this.symm
    have : T.getD i (0, 0) = x := Prod.ext e1 h2
    rw [← this]; exact hmS
  · intro hxS
    have hxT := hperm.mem_iff.2 hxS
    obtain ⟨i, hi, hget⟩ := List.getElem_of_mem hxT
    refine ⟨i, by rw [← hperm.length_eq]; exact hi, ?_, ?_⟩
    · simp only [dOf, List.getD_eq_getElem?_getD, List.getElem?_eq_getElem hi, Option.getD_some, hget]
    · simp only [rOf, List.getD_eq_getElem?_getD, List.getElem?_eq_getElem hi, Option.getD_some, hget]

theorem map_range_getD {β : Type} (T : List Elem) (f : Elem → β) :
    (List.range T.length).map (fun i => f (T.getD i (0, 0))) = T.map f := by
  apply List.ext_getElem
  · simp
  · intro i h1 h2
    simp only [List.length_map, List.length_range] at h1
    simp [List.getD_eq_getElem?_getD, List.getElem?_eq_getElem h1]

/-- **Layer A2**: `get_hashes` on a canonical table terminates and lists the hash of every stored
    element exactly once -/
theorem hashes_layout (q : Nat) (hq1 : 1 ≤ q) (auto : Bool) (S : List Elem) (hS : Sorted S)
    (hq : ∀ x ∈ S, x.1 < 2 ^ q) (hlen : S.length < 2 ^ q) :
    ∃ l, getHashes (layout q auto S) = .ok l ∧ l.Perm (S.map (enc q)) := by
  have hF := canon_fits (2 ^ q) S hS hq hlen
  have L := layout_lin q hq1 auto S hS hq hF
  obtain ⟨he, hcnt, _⟩ := hF
  obtain ⟨l, hl, hp⟩ := getHashes_lin L
  refine ⟨l, hl, hp.trans ?_⟩
  generalize hn : 2 ^ q = n at *
  generalize hee : emptySlot n S = e at *
  have hno : NoQuot e S := (cnt_zero_iff S e).1 hcnt
  generalize hT : rot e S = T at *
  have hperm : T.Perm S := by rw [← hT]; exact rot_perm e S hno
  have : (List.range S.length).map (hashF (layout q auto S) n e (dOf n e T) (rOf T)) = T.map (enc q) := by
    rw [← hperm.length_eq, ← map_range_getD T (enc q)]
    apply List.map_congr_left
    intro i hi
    rw [List.mem_range] at hi
    have hmem := hperm.mem_iff.1 (getD_mem T i hi)
    simp only [hashF, enc, dOf, rOf, io_off n e _ he (hq _ hmem)]
    rfl
  rw [this]
  exact hperm.map _

end PyProb.Spec
