/-
  Helper lemmas for C08 (counting cuckoo half): association lists of bins `(fingerprint, count)`
  with pairwise distinct fingerprints, the count looked up for a fingerprint, and the effect of the
  four bucket edits the counting cuckoo filter performs (increment, decrement, drop, append) on a
  table seen as `A ++ X ++ B` (`X` the edited bucket).  Core Lean only; nothing here mentions the
  filter operations themselves (those are in `CcfCount.lean`).
-/
import PyProb.Model.Cuckoo
namespace PyProb.Ccf
open PyProb

def lookup (L : List CBin) (fp : Nat) : Nat := ((L.find? (·.1 == fp)).map (·.2)).getD 0

theorem fst_inj {L : List CBin} (h : (L.map (·.1)).Nodup) {x y : CBin}
    (hx : x ∈ L) (hy : y ∈ L) (e : x.1 = y.1) : x = y := by
  induction L with
  | nil => cases hx
  | cons a L ih =>
    simp only [List.map_cons, List.nodup_cons, List.mem_map, not_exists, not_and] at h
    rcases List.mem_cons.1 hx with rfl | hx' <;> rcases List.mem_cons.1 hy with rfl | hy'
    · rfl
    · exact absurd e.symm (h.1 y hy')
    · exact absurd e (h.1 x hx')
    · exact ih h.2 hx' hy'

theorem lookup_of_mem {L : List CBin} (h : (L.map (·.1)).Nodup) {fp v : Nat}
    (hx : (fp, v) ∈ L) : lookup L fp = v := by
  unfold lookup
  cases e : L.find? (·.1 == fp) with
  | none =>
    have := List.find?_eq_none.1 e _ hx
    simp at this
  | some y =>
    have h1 := List.mem_of_find?_eq_some e
    have h2 := List.find?_some e
    simp only [beq_iff_eq] at h2
    have := fst_inj h h1 hx h2
    subst this; rfl

theorem lookup_of_not_mem {L : List CBin} {fp : Nat} (h : fp ∉ L.map (·.1)) : lookup L fp = 0 := by
  unfold lookup
  have : L.find? (·.1 == fp) = none := by
    rw [List.find?_eq_none]; intro x hx hp
    exact h (List.mem_map.2 ⟨x, hx, by simpa using hp⟩)
  rw [this]; rfl

theorem lookup_pos_mem {L : List CBin} {fp : Nat} (h : 0 < lookup L fp) : (fp, lookup L fp) ∈ L := by
  unfold lookup at h ⊢
  cases e : L.find? (·.1 == fp) with
  | none => rw [e] at h; simp at h
  | some y =>
    have h1 := List.mem_of_find?_eq_some e
    have h2 := List.find?_some e
    simp only [beq_iff_eq] at h2
    subst h2
    simpa using h1

theorem lookup_congr {L L' : List CBin} (h : (L.map (·.1)).Nodup) (h' : (L'.map (·.1)).Nodup)
    {fp : Nat} (hm : ∀ v, (fp, v) ∈ L ↔ (fp, v) ∈ L') : lookup L' fp = lookup L fp := by
  by_cases hin : fp ∈ L.map (·.1)
  · obtain ⟨⟨a, v⟩, hx, rfl⟩ := List.mem_map.1 hin
    rw [lookup_of_mem h hx, lookup_of_mem h' ((hm v).1 hx)]
  · have : fp ∉ L'.map (·.1) := by
      intro hc
      obtain ⟨⟨a, v⟩, hx, rfl⟩ := List.mem_map.1 hc
      exact hin (List.mem_map.2 ⟨_, (hm v).2 hx, rfl⟩)
    rw [lookup_of_not_mem hin, lookup_of_not_mem this]

/-- bump / decrement of the bin with fingerprint fp -/
def bump (fp : Nat) (bin : CBin) : CBin := if bin.1 == fp then (bin.1, bin.2 + 1) else bin
def drop1 (fp : Nat) (bin : CBin) : CBin := if bin.1 == fp then (bin.1, bin.2 - 1) else bin

theorem bump_fst (fp : Nat) (x : CBin) : (bump fp x).1 = x.1 := by unfold bump; split <;> rfl
theorem drop1_fst (fp : Nat) (x : CBin) : (drop1 fp x).1 = x.1 := by unfold drop1; split <;> rfl

theorem map_fst_map {f : CBin → CBin} (hf : ∀ x, (f x).1 = x.1) (X : List CBin) :
    (X.map f).map (·.1) = X.map (·.1) := by
  simp [List.map_map, Function.comp_def, hf]

section ABX
variable {A X B : List CBin}

theorem fsts_mapX {f : CBin → CBin} (hf : ∀ x, (f x).1 = x.1) :
    (A ++ X.map f ++ B).map (·.1) = (A ++ X ++ B).map (·.1) := by
  simp only [List.map_append, map_fst_map hf]

/-- counts after bumping fp in X -/
theorem lookup_bump (h : ((A ++ X ++ B).map (·.1)).Nodup) {fp v : Nat} (hx : (fp, v) ∈ X) :
    lookup (A ++ X.map (bump fp) ++ B) fp = v + 1 := by
  apply lookup_of_mem (by rw [fsts_mapX (bump_fst fp)]; exact h)
  simp only [List.mem_append, List.mem_map]
  exact Or.inl (Or.inr ⟨(fp, v), hx, by simp [bump]⟩)

theorem lookup_bump_other (h : ((A ++ X ++ B).map (·.1)).Nodup) {fp fp' : Nat} (hne : fp' ≠ fp) :
    lookup (A ++ X.map (bump fp) ++ B) fp' = lookup (A ++ X ++ B) fp' := by
  apply lookup_congr h (by rw [fsts_mapX (bump_fst fp)]; exact h)
  intro v
  simp only [List.mem_append, List.mem_map, bump]
  grind


theorem lookup_drop1 (h : ((A ++ X ++ B).map (·.1)).Nodup) {fp v : Nat} (hx : (fp, v) ∈ X) :
    lookup (A ++ X.map (drop1 fp) ++ B) fp = v - 1 := by
  apply lookup_of_mem (by rw [fsts_mapX (drop1_fst fp)]; exact h)
  simp only [List.mem_append, List.mem_map]
  exact Or.inl (Or.inr ⟨(fp, v), hx, by simp [drop1]⟩)

theorem lookup_drop1_other (h : ((A ++ X ++ B).map (·.1)).Nodup) {fp fp' : Nat} (hne : fp' ≠ fp) :
    lookup (A ++ X.map (drop1 fp) ++ B) fp' = lookup (A ++ X ++ B) fp' := by
  apply lookup_congr h (by rw [fsts_mapX (drop1_fst fp)]; exact h)
  intro v
  simp only [List.mem_append, List.mem_map, drop1]
  grind

theorem pos_bump (hp : ∀ y ∈ A ++ X ++ B, 1 ≤ y.2) (fp : Nat) :
    ∀ y ∈ A ++ X.map (bump fp) ++ B, 1 ≤ y.2 := by
  simp only [List.mem_append, List.mem_map, bump] at hp ⊢
  grind

theorem pos_drop1 (h : ((A ++ X ++ B).map (·.1)).Nodup) (hp : ∀ y ∈ A ++ X ++ B, 1 ≤ y.2)
    {fp v : Nat} (hx : (fp, v) ∈ X) (hv : 1 < v) :
    ∀ y ∈ A ++ X.map (drop1 fp) ++ B, 1 ≤ y.2 := by
  intro y hy
  simp only [List.mem_append, List.mem_map] at hy
  rcases hy with (hy | ⟨x, hxX, rfl⟩) | hy
  · exact hp y (by simp [hy])
  · unfold drop1
    split
    · rename_i e
      have : x = (fp, v) := fst_inj h (x := x) (y := (fp, v)) (by simp [hxX]) (by simp [hx]) (by simpa using e)
      subst this; simp; omega
    · exact hp x (by simp [hxX])
  · exact hp y (by simp [hy])

/-- erasing the bin -/
theorem nodup_eraseX (h : ((A ++ X ++ B).map (·.1)).Nodup) (x : CBin) :
    ((A ++ X.erase x ++ B).map (·.1)).Nodup := by
  refine List.Nodup.sublist ?_ h
  apply List.Sublist.map
  exact List.Sublist.append (List.Sublist.append (List.Sublist.refl _) List.erase_sublist) (List.Sublist.refl _)

theorem nodupX (h : ((A ++ X ++ B).map (·.1)).Nodup) : X.Nodup := by
  have : (X.map (·.1)).Nodup := by
    simp only [List.map_append, List.nodup_append] at h
    exact h.1.2.1
  clear h
  induction X with
  | nil => simp
  | cons a X ih =>
    simp only [List.map_cons, List.nodup_cons, List.mem_map, not_exists, not_and] at this ⊢
    exact ⟨fun hc => this.1 a hc rfl, ih this.2⟩

theorem disjX (h : ((A ++ X ++ B).map (·.1)).Nodup) {x : CBin} (hx : x ∈ X) :
    (∀ y ∈ A, y.1 ≠ x.1) ∧ (∀ y ∈ B, y.1 ≠ x.1) := by
  simp only [List.map_append, List.nodup_append, List.mem_append, List.mem_map] at h
  constructor
  · intro y hy e
    exact h.1.2.2 y.1 ⟨y, hy, rfl⟩ x.1 ⟨x, hx, rfl⟩ e
  · intro y hy e
    exact h.2.2 x.1 (Or.inr ⟨x, hx, rfl⟩) y.1 ⟨y, hy, rfl⟩ e.symm

theorem mem_eraseX (h : ((A ++ X ++ B).map (·.1)).Nodup) {x : CBin} (hx : x ∈ X) (y : CBin) :
    y ∈ A ++ X.erase x ++ B ↔ y ≠ x ∧ y ∈ A ++ X ++ B := by
  have hn := nodupX h
  have hd := disjX h hx
  simp only [List.mem_append, hn.mem_erase_iff]
  constructor
  · rintro ((hy | ⟨hne, hy⟩) | hy)
    · exact ⟨fun e => hd.1 y hy (by rw [e]), by simp [hy]⟩
    · exact ⟨hne, by simp [hy]⟩
    · exact ⟨fun e => hd.2 y hy (by rw [e]), by simp [hy]⟩
  · grind

theorem not_mem_eraseX (h : ((A ++ X ++ B).map (·.1)).Nodup) {fp v : Nat} (hx : (fp, v) ∈ X) :
    fp ∉ (A ++ X.erase (fp, v) ++ B).map (·.1) := by
  intro hc
  obtain ⟨y, hy, e⟩ := List.mem_map.1 hc
  rw [mem_eraseX h hx] at hy
  have : y = (fp, v) := fst_inj h hy.2 (by simp [hx]) e
  exact hy.1 this

theorem lookup_erase_other (h : ((A ++ X ++ B).map (·.1)).Nodup) {fp v fp' : Nat} (hx : (fp, v) ∈ X)
    (hne : fp' ≠ fp) :
    lookup (A ++ X.erase (fp, v) ++ B) fp' = lookup (A ++ X ++ B) fp' := by
  apply lookup_congr h (nodup_eraseX h _)
  intro w
  rw [mem_eraseX h hx]
  constructor
  · intro hm; exact ⟨fun e => hne (by cases e; rfl), hm⟩
  · exact fun hm => hm.2

theorem pos_eraseX (hp : ∀ y ∈ A ++ X ++ B, 1 ≤ y.2) (x : CBin) :
    ∀ y ∈ A ++ X.erase x ++ B, 1 ≤ y.2 := by
  intro y hy
  apply hp
  simp only [List.mem_append] at hy ⊢
  rcases hy with (hy | hy) | hy
  · exact Or.inl (Or.inl hy)
  · exact Or.inl (Or.inr (List.mem_of_mem_erase hy))
  · exact Or.inr hy

/-- appending a fresh bin -/
theorem nodup_appendX (h : ((A ++ X ++ B).map (·.1)).Nodup) {fp : Nat}
    (hfp : fp ∉ (A ++ X ++ B).map (·.1)) (v : Nat) :
    ((A ++ (X ++ [(fp, v)]) ++ B).map (·.1)).Nodup := by
  simp only [List.map_append, List.nodup_append, List.mem_append, List.mem_map, List.map_cons,
    List.map_nil, List.mem_cons, List.not_mem_nil, or_false] at h hfp ⊢
  grind

theorem lookup_appendX (h : ((A ++ X ++ B).map (·.1)).Nodup) {fp : Nat}
    (hfp : fp ∉ (A ++ X ++ B).map (·.1)) (v : Nat) :
    lookup (A ++ (X ++ [(fp, v)]) ++ B) fp = v := by
  apply lookup_of_mem (nodup_appendX h hfp v)
  simp

theorem lookup_append_other (h : ((A ++ X ++ B).map (·.1)).Nodup) {fp fp' : Nat}
    (hfp : fp ∉ (A ++ X ++ B).map (·.1)) (v : Nat) (hne : fp' ≠ fp) :
    lookup (A ++ (X ++ [(fp, v)]) ++ B) fp' = lookup (A ++ X ++ B) fp' := by
  apply lookup_congr h (nodup_appendX h hfp v)
  intro w
  simp only [List.mem_append, List.mem_cons, List.not_mem_nil, or_false, Prod.mk.injEq]
  grind

theorem pos_appendX (hp : ∀ y ∈ A ++ X ++ B, 1 ≤ y.2) (fp : Nat) {v : Nat} (hv : 1 ≤ v) :
    ∀ y ∈ A ++ (X ++ [(fp, v)]) ++ B, 1 ≤ y.2 := by
  simp only [List.mem_append, List.mem_cons, List.not_mem_nil, or_false] at hp ⊢
  grind

end ABX

/-! decomposition of a table around bucket i -/
theorem flatten_split (t : List (List CBin)) (i : Nat) (h : i < t.length) :
    t.flatten = (t.take i).flatten ++ t[i] ++ (t.drop (i + 1)).flatten := by
  have e : t = t.take i ++ t[i] :: t.drop (i + 1) := by
    rw [← List.drop_eq_getElem_cons h, List.take_append_drop]
  conv => lhs; rw [e]
  rw [List.flatten_append, List.flatten_cons, List.append_assoc]

theorem flatten_set (t : List (List CBin)) (i : Nat) (h : i < t.length) (X' : List CBin) :
    (t.set i X').flatten = (t.take i).flatten ++ X' ++ (t.drop (i + 1)).flatten := by
  rw [List.set_eq_take_append_cons_drop, if_pos h]
  simp

end PyProb.Ccf
