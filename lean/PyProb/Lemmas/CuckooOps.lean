/-
  Helper lemmas for the cuckoo filter model (properties C03 and C15), part 2:
  the full well-formedness predicate `WF`, look-ups (`hasFp`, `present`, `check`), and the
  specifications of `new`, `add`, `remove`, `expandLogic … none` in terms of `WF` and of the
  weighted sums `tsum`.  Core Lean only.
-/
import PyProb.Lemmas.CuckooCore

namespace PyProb.Cuckoo

/-! ### more on weighted sums -/

theorem bsum_zero_of (f : CBin → Nat) (l : List CBin) (h : ∀ b ∈ l, f b = 0) : bsum f l = 0 := by
  induction l with
  | nil => rfl
  | cons a l ih => simp [h a (by simp), ih (fun b hb => h b (by simp [hb]))]

theorem bsum_map (f : CBin → Nat) (h : CBin → CBin) (l : List CBin) : bsum f (l.map h) = bsum (f ∘ h) l := by
  simp [bsum, List.map_map]

theorem bsum_add (f g : CBin → Nat) (l : List CBin) : bsum (fun b => f b + g b) l = bsum f l + bsum g l := by
  induction l with
  | nil => rfl
  | cons a l ih => simp only [bsum_cons, ih]; omega

theorem bsum_erase (f : CBin → Nat) (l : List CBin) (a : CBin) (h : a ∈ l) : bsum f (l.erase a) + f a = bsum f l := by
  induction l with
  | nil => simp at h
  | cons x l ih =>
    by_cases e : x = a
    · subst e; simp only [List.erase_cons_head, bsum_cons]; omega
    · have hm : a ∈ l := by
        rcases List.mem_cons.mp h with h | h
        · exact absurd h.symm e
        · exact h
      have := ih hm
      rw [List.erase_cons_tail (by simpa using e)]
      simp only [bsum_cons]; omega

theorem isFp_zero_of_bsum (fp : Nat) (l : List CBin) (h : bsum (isFp fp) l = 0) : ∀ b ∈ l, b.1 ≠ fp := by
  intro b hb e
  have : 0 < bsum (isFp fp) l := (bsum_pos_iff _ _).mpr ⟨b, hb, by simp [isFp, e]⟩
  omega

/-- with at most one bin of fingerprint `fp`, a weight that vanishes off `fp` sums to its value at that bin -/
theorem bsum_unique (f : CBin → Nat) (fp : Nat) (l : List CBin) (bin : CBin)
    (hn : bsum (isFp fp) l ≤ 1) (hm : bin ∈ l) (hb : bin.1 = fp) (hf : ∀ b, b.1 ≠ fp → f b = 0) :
    bsum f l = f bin := by
  induction l with
  | nil => simp at hm
  | cons a l ih =>
    simp only [bsum_cons] at hn ⊢
    by_cases e : a = bin
    · subst e
      have h0 : bsum (isFp fp) l = 0 := by simp [isFp, hb] at hn; omega
      rw [bsum_zero_of f l (fun b hb' => hf b (isFp_zero_of_bsum fp l h0 b hb'))]; omega
    · have hm' : bin ∈ l := by
        rcases List.mem_cons.mp hm with h | h
        · exact absurd h.symm e
        · exact h
      have h1 : 0 < bsum (isFp fp) l := (bsum_pos_iff _ _).mpr ⟨bin, hm', by simp [isFp, hb]⟩
      have ha : a.1 ≠ fp := by
        intro e'; simp [isFp, e'] at hn; omega
      rw [hf a ha, ih (by omega) hm']; omega

theorem bsum_isBin_eq_count (bn : CBin) (l : List CBin) : bsum (isBin bn) l = l.count bn := by
  induction l with
  | nil => rfl
  | cons a l ih =>
    simp only [bsum_cons, List.count_cons, ih, isBin, beq_iff_eq]; omega

theorem bsum_cntW_eq (g : Nat) (l : List CBin) :
    bsum (cntW g) l = ((l.filter (·.1 == g)).map (·.2)).sum := by
  induction l with
  | nil => rfl
  | cons a l ih =>
    by_cases e : a.1 = g
    · simp [cntW, e, ih]
    · simp [cntW, e, ih]

/-! ### well-formed tables -/

/-- the full table invariant (internal form; `C15.Inv` is the same thing written out) -/
structure WF (G : Nat → Nat) (c : Cuckoo) : Prop where
  ts : TS G c
  rate_pos : 0 < c.rate
  nodup : ∀ g, tsum (isFp g) c ≤ 1
  cnt_pos : ∀ bin, stored c bin → 1 ≤ bin.2
  plain : c.counting = false → ∀ bin, stored c bin → bin.2 = 1

theorem stored_of_bucket {c : Cuckoo} {i : Nat} {bin : CBin} (h : bin ∈ c.bucket i) : stored c bin :=
  (stored_iff_bucket c bin).mpr ⟨i, h⟩

theorem tsum_unique {G : Nat → Nat} {c : Cuckoo} (hw : WF G c) (f : CBin → Nat) (bin : CBin)
    (hm : stored c bin) (hf : ∀ b, b.1 ≠ bin.1 → f b = 0) : tsum f c = f bin := by
  rw [tsum_eq_flatten]
  exact bsum_unique f bin.1 _ bin (by rw [← tsum_eq_flatten]; exact hw.nodup _) hm rfl hf

theorem stored_unique {G : Nat → Nat} {c : Cuckoo} (hw : WF G c) (x y : CBin)
    (hx : stored c x) (hy : stored c y) (e : x.1 = y.1) : x = y := by
  have h1 := tsum_unique hw (isBin x) y hy (by
    intro b hb; simp only [isBin]; split
    · rename_i hbx; subst hbx; exact absurd e hb
    · rfl)
  have h2 := (stored_iff_tsum c x).mp hx
  by_cases hxy : y = x
  · exact hxy.symm
  · simp [isBin, hxy] at h1; omega

theorem tsum_empty_table (f : CBin → Nat) (c : Cuckoo) (n : Nat) (h : c.buckets = List.replicate n []) :
    tsum f c = 0 := by
  rw [tsum_eq_flatten, h]; simp

theorem WF_new (G : Nat → Nat) (counting : Bool) (cap b maxSwaps rate : Nat) (auto : Bool) (fpBits : Nat)
    (hcap : 0 < cap) (hb : 0 < b) (hrate : 0 < rate) :
    WF G (Cuckoo.new counting cap b maxSwaps rate auto fpBits) := by
  have hbk : ∀ i, (Cuckoo.new counting cap b maxSwaps rate auto fpBits).bucket i = [] := by
    intro i
    simp only [Cuckoo.new, bucket, List.getD_eq_getElem?_getD, List.getElem?_replicate]
    split <;> rfl
  have hst : ∀ bin, ¬ stored (Cuckoo.new counting cap b maxSwaps rate auto fpBits) bin := by
    intro bin h
    obtain ⟨i, hi⟩ := (stored_iff_bucket _ _).mp h
    rw [hbk] at hi; simp at hi
  refine ⟨⟨by simp [Cuckoo.new], hcap, hb, ?_, ?_⟩, hrate, ?_, ?_, ?_⟩
  · intro i; rw [hbk]; simp
  · intro i bin; rw [hbk]; simp
  · intro g; rw [tsum_empty_table _ _ cap rfl]; omega
  · intro bin h; exact absurd h (hst bin)
  · intro _ bin h; exact absurd h (hst bin)

/-- a table that gained (at most) one bin whose fingerprint was absent is well-formed again -/
theorem WF_of_cons {G : Nat → Nat} {c c' : Cuckoo} (hw : WF G c) (hs' : TS G c') (hx : SameX c c')
    (extra : Option CBin) (hc : ∀ f, tsum f c' = tsum f c + optW f extra)
    (hex : ∀ bin, extra = some bin → tsum (isFp bin.1) c = 0 ∧ 1 ≤ bin.2 ∧ (c.counting = false → bin.2 = 1)) :
    WF G c' := by
  have hst : ∀ b, stored c' b → stored c b ∨ extra = some b := by
    intro b hb
    have h1 := (stored_iff_tsum c' b).mp hb
    rw [hc] at h1
    by_cases h2 : 0 < tsum (isBin b) c
    · exact Or.inl ((stored_iff_tsum c b).mpr h2)
    · right
      cases extra with
      | none => simp [optW] at h1; omega
      | some x =>
        simp only [optW, isBin] at h1
        by_cases e : x = b
        · rw [e]
        · simp [e] at h1; omega
  refine ⟨hs', by rw [hx.rate]; exact hw.rate_pos, ?_, ?_, ?_⟩
  · intro g
    rw [hc]
    have := hw.nodup g
    cases extra with
    | none => simpa [optW] using this
    | some x =>
      obtain ⟨h0, _, _⟩ := hex x rfl
      simp only [optW, isFp]
      split
      · rename_i e; subst e; omega
      · omega
  · intro b hb
    rcases hst b hb with h | h
    · exact hw.cnt_pos b h
    · exact (hex b h).2.1
  · intro hcount b hb
    rw [hx.counting] at hcount
    rcases hst b hb with h | h
    · exact hw.plain hcount b h
    · exact (hex b h).2.2 hcount

/-! ### look-ups -/

theorem hasFp_iff (c : Cuckoo) (i fp : Nat) : c.hasFp i fp = true ↔ ∃ bin ∈ c.bucket i, bin.1 = fp := by
  simp [hasFp, List.any_eq_true]

theorem present_none {c : Cuckoo} {i1 i2 fp : Nat} (h : c.present i1 i2 fp = none) :
    c.hasFp i1 fp = false ∧ c.hasFp i2 fp = false := by
  unfold present at h
  split at h
  · simp at h
  · split at h
    · simp at h
    · simp_all

theorem present_some {c : Cuckoo} {i1 i2 fp i : Nat} (h : c.present i1 i2 fp = some i) :
    (i = i1 ∨ i = i2) ∧ c.hasFp i fp = true := by
  unfold present at h
  split at h
  · simp only [Option.some.injEq] at h; subst h; simp_all
  · split at h
    · simp only [Option.some.injEq] at h; subst h; simp_all
    · simp at h

/-- what `check` tests -/
def containsL (G : Nat → Nat) (c : Cuckoo) (fp : Nat) : Prop :=
  c.hasFp (fp % c.cap) fp = true ∨ c.hasFp (G fp % c.cap) fp = true

theorem containsL_iff_stored {G : Nat → Nat} {c : Cuckoo} (hs : TS G c) (fp : Nat) :
    containsL G c fp ↔ ∃ bin, stored c bin ∧ bin.1 = fp := by
  unfold containsL
  rw [hasFp_iff, hasFp_iff]
  constructor
  · rintro (⟨bin, hm, e⟩ | ⟨bin, hm, e⟩) <;> exact ⟨bin, stored_of_bucket hm, e⟩
  · rintro ⟨bin, hm, e⟩
    obtain ⟨i, hi⟩ := (stored_iff_bucket c bin).mp hm
    rcases hs.pos i bin hi with h | h
    · left; exact ⟨bin, by rw [← e, ← h]; exact hi, e⟩
    · right; exact ⟨bin, by rw [← e, ← h]; exact hi, e⟩

theorem containsL_iff_isFp {G : Nat → Nat} {c : Cuckoo} (hs : TS G c) (fp : Nat) :
    containsL G c fp ↔ 0 < tsum (isFp fp) c := by
  rw [containsL_iff_stored hs, tsum_pos_iff]
  constructor
  · rintro ⟨bin, hm, e⟩; exact ⟨bin, hm, by simp [isFp, e]⟩
  · rintro ⟨bin, hm, h⟩
    refine ⟨bin, hm, ?_⟩
    by_cases e : bin.1 = fp
    · exact e
    · simp [isFp, e] at h

theorem containsL_iff_cnt {G : Nat → Nat} {c : Cuckoo} (hw : WF G c) (fp : Nat) :
    containsL G c fp ↔ 0 < tsum (cntW fp) c := by
  rw [containsL_iff_stored hw.ts, tsum_pos_iff]
  constructor
  · rintro ⟨bin, hm, e⟩; exact ⟨bin, hm, by have := hw.cnt_pos bin hm; simp only [cntW, e, if_true]; omega⟩
  · rintro ⟨bin, hm, h⟩
    refine ⟨bin, hm, ?_⟩
    by_cases e : bin.1 = fp
    · exact e
    · simp [cntW, e] at h

/-- a weight that vanishes off an absent fingerprint sums to zero -/
theorem tsum_zero_of_absent {G : Nat → Nat} {c : Cuckoo} (hs : TS G c) (fp : Nat) (habs : ¬ containsL G c fp)
    (f : CBin → Nat) (hf : ∀ b, b.1 ≠ fp → f b = 0) : tsum f c = 0 := by
  by_cases h : 0 < tsum f c
  · exfalso
    obtain ⟨bin, hm, hp⟩ := (tsum_pos_iff f c).mp h
    apply habs
    rw [containsL_iff_stored hs]
    refine ⟨bin, hm, ?_⟩
    by_cases e : bin.1 = fp
    · exact e
    · rw [hf bin e] at hp; omega
  · omega

theorem check_eq_cnt {G : Nat → Nat} {c : Cuckoo} (hw : WF G c) (h : Nat) :
    check G c h = tsum (cntW (c.fingerprint h)) c := by
  simp only [check, indices]
  generalize c.fingerprint h = fp
  split
  · rename_i hp
    obtain ⟨h1, h2⟩ := present_none hp
    symm
    apply tsum_zero_of_absent hw.ts fp
    · unfold containsL; simp [h1, h2]
    · intro b hb; simp [cntW, hb]
  · rename_i i hp
    obtain ⟨_, hh⟩ := present_some hp
    obtain ⟨bin, hm, e⟩ := (hasFp_iff c i fp).mp hh
    cases hf : (c.bucket i).find? (·.1 == fp) with
    | none =>
      rw [List.find?_eq_none] at hf
      exact absurd (by simpa using e) (hf bin hm)
    | some x =>
      have hx1 : x.1 = fp := by simpa using List.find?_some hf
      have hxm := List.mem_of_find?_eq_some hf
      rw [tsum_unique hw (cntW fp) x (stored_of_bucket hxm) (by intro b hb; simp [cntW, hx1 ▸ hb])]
      simp [cntW, hx1]

/-! ### rewriting one bucket -/

theorem modify_spec {G : Nat → Nat} {c c' : Cuckoo} {i : Nat} {bkt' : List CBin} (hs : TS G c) (hi : i < c.cap)
    (hsame : Same c c') (hb : c'.buckets = c.buckets.set i bkt') (hlen : bkt'.length ≤ c.b)
    (hpos : ∀ bin ∈ bkt', i = bin.1 % c.cap ∨ i = G bin.1 % c.cap) :
    TS G c' ∧ (∀ f, tsum f c' + bsum f (c.bucket i) = tsum f c + bsum f bkt') ∧
    (∀ b, stored c' b → stored c b ∨ b ∈ bkt') := by
  have hil : i < c.buckets.length := by rw [hs.len]; exact hi
  have hbk : ∀ j, c'.bucket j = if j = i then bkt' else c.bucket j := by
    intro j; simp only [bucket, hb]; exact getD_set_nil _ _ _ hil _
  refine ⟨⟨?_, ?_, ?_, ?_, ?_⟩, ?_, ?_⟩
  · rw [hb, List.length_set, hs.len, hsame.cap]
  · rw [hsame.cap]; exact hs.cap_pos
  · rw [hsame.b]; exact hs.b_pos
  · intro j; rw [hbk, hsame.b]
    split
    · exact hlen
    · exact hs.size j
  · intro j b; rw [hbk, hsame.cap]
    split
    · rename_i hj; subst hj; exact hpos b
    · exact hs.pos j b
  · intro f
    have := tsum_set f c.buckets i hil bkt'
    simp only [tsum, bucket, hb] at this ⊢
    exact this
  · intro b hb'
    obtain ⟨j, hj⟩ := (stored_iff_bucket c' b).mp hb'
    rw [hbk] at hj
    split at hj
    · exact Or.inr hj
    · exact Or.inl (stored_of_bucket hj)

/-- every bin of bucket `i` is rewritten by a map that keeps fingerprints -/
theorem WF_modify_map {G : Nat → Nat} {c c' : Cuckoo} {i : Nat} (m : CBin → CBin) (hw : WF G c) (hi : i < c.cap)
    (hsame : Same c c') (hb : c'.buckets = c.buckets.set i ((c.bucket i).map m))
    (hm1 : ∀ x, (m x).1 = x.1) (hm2 : ∀ x ∈ c.bucket i, 1 ≤ (m x).2)
    (hm3 : c.counting = false → ∀ x ∈ c.bucket i, (m x).2 = 1) :
    WF G c' ∧ ∀ f, tsum f c' + bsum f (c.bucket i) = tsum f c + bsum (f ∘ m) (c.bucket i) := by
  obtain ⟨hs', hc, hst⟩ := modify_spec (bkt' := (c.bucket i).map m) hw.ts hi hsame hb
    (by rw [List.length_map]; exact hw.ts.size i)
    (by
      intro bin hbin
      obtain ⟨x, hx, rfl⟩ := List.mem_map.mp hbin
      rw [hm1]; exact hw.ts.pos i x hx)
  refine ⟨⟨hs', by rw [hsame.rate]; exact hw.rate_pos, ?_, ?_, ?_⟩, fun f => by rw [hc f, bsum_map]⟩
  · intro g
    have h1 := hc (isFp g)
    rw [bsum_map] at h1
    have h2 : bsum (isFp g ∘ m) (c.bucket i) = bsum (isFp g) (c.bucket i) :=
      bsum_congr _ _ _ (fun x _ => by simp [isFp, hm1])
    have := hw.nodup g
    omega
  · intro b hb'
    rcases hst b hb' with h | h
    · exact hw.cnt_pos b h
    · obtain ⟨x, hx, rfl⟩ := List.mem_map.mp h
      exact hm2 x hx
  · intro hcount b hb'
    rw [hsame.counting] at hcount
    rcases hst b hb' with h | h
    · exact hw.plain hcount b h
    · obtain ⟨x, hx, rfl⟩ := List.mem_map.mp h
      exact hm3 hcount x hx

/-- one bin of bucket `i` is erased -/
theorem WF_modify_erase {G : Nat → Nat} {c c' : Cuckoo} {i : Nat} (a : CBin) (hw : WF G c) (hi : i < c.cap)
    (hsame : Same c c') (hb : c'.buckets = c.buckets.set i ((c.bucket i).erase a)) (ha : a ∈ c.bucket i) :
    WF G c' ∧ ∀ f, tsum f c' + f a = tsum f c := by
  obtain ⟨hs', hc, hst⟩ := modify_spec (bkt' := (c.bucket i).erase a) hw.ts hi hsame hb
    (by have := List.length_erase_of_mem ha; have := hw.ts.size i; omega)
    (fun bin hbin => hw.ts.pos i bin (List.mem_of_mem_erase hbin))
  have hc' : ∀ f, tsum f c' + f a = tsum f c := by
    intro f; have := hc f; have := bsum_erase f _ a ha; omega
  have hst' : ∀ b, stored c' b → stored c b := by
    intro b hb'
    rcases hst b hb' with h | h
    · exact h
    · exact stored_of_bucket (List.mem_of_mem_erase h)
  refine ⟨⟨hs', by rw [hsame.rate]; exact hw.rate_pos, ?_, ?_, ?_⟩, hc'⟩
  · intro g; have := hc' (isFp g); have := hw.nodup g; omega
  · intro b hb'; exact hw.cnt_pos b (hst' b hb')
  · intro hcount b hb'
    rw [hsame.counting] at hcount
    exact hw.plain hcount b (hst' b hb')

theorem bsum_isFp_bucket_eq_one {G : Nat → Nat} {c : Cuckoo} (hw : WF G c) (i fp : Nat)
    (hh : c.hasFp i fp = true) : bsum (isFp fp) (c.bucket i) = 1 := by
  obtain ⟨bin, hm, e⟩ := (hasFp_iff c i fp).mp hh
  have h1 : 0 < bsum (isFp fp) (c.bucket i) := (bsum_pos_iff _ _).mpr ⟨bin, hm, by simp [isFp, e]⟩
  have h2 := bsum_le_tsum (isFp fp) c i
  have h3 := hw.nodup fp
  omega

/-! ### `add` -/

/-- post-condition of `add` of a key with fingerprint `fp` -/
def AddPost (G : Nat → Nat) (c : Cuckoo) (fp : Nat) (c' : Cuckoo) (err : Option Err) : Prop :=
  (err = none ∧ WF G c' ∧ SameX c c' ∧ (c'.cap = c.cap ∨ (c.auto = true ∧ c'.cap = c.cap * c.rate)) ∧
    (∀ f : CBin → Nat, (∀ b, b.1 = fp → f b = 0) → tsum f c' = tsum f c) ∧
    tsum (cntW fp) c' = (if c.counting then tsum (cntW fp) c + 1 else 1) ∧
    (¬ containsL G c fp → ∀ f : CBin → Nat, tsum f c' = tsum f c + f (fp, 1))) ∨
  (err = some .cuckooFull ∧ c' = c)

theorem addPost_of_cons {G : Nat → Nat} {c c' : Cuckoo} {fp : Nat} (hw : WF G c) (habs : ¬ containsL G c fp)
    (hs' : TS G c') (hx : SameX c c') (hcap : c'.cap = c.cap ∨ (c.auto = true ∧ c'.cap = c.cap * c.rate))
    (hc : ∀ f : CBin → Nat, tsum f c' = tsum f c + f (fp, 1)) : AddPost G c fp c' none := by
  have h0 : ∀ f : CBin → Nat, (∀ b, b.1 ≠ fp → f b = 0) → tsum f c = 0 :=
    fun f hf => tsum_zero_of_absent hw.ts fp habs f hf
  refine Or.inl ⟨rfl, ?_, hx, hcap, ?_, ?_, fun _ => hc⟩
  · refine WF_of_cons hw hs' hx (some (fp, 1)) (fun f => by rw [hc]; rfl) ?_
    intro bin hbin
    simp only [Option.some.injEq] at hbin
    subst hbin
    exact ⟨h0 _ (by intro b hb; simp [isFp, hb]), Nat.le_refl 1, fun _ => rfl⟩
  · intro f hf; rw [hc, hf (fp, 1) rfl]; rfl
  · rw [hc, h0 (cntW fp) (by intro b hb; simp [cntW, hb])]
    simp [cntW]

theorem add_spec {G : Nat → Nat} {c : Cuckoo} (h : Nat) (o : List Nat) (hw : WF G c) :
    AddPost G c (c.fingerprint h) (add G c h o).1 (add G c h o).2.1 := by
  simp only [add, indices]
  generalize c.fingerprint h = fp
  split
  · -- the fingerprint is already stored
    rename_i i hp
    obtain ⟨hi12, hh⟩ := present_some hp
    have hi : i < c.cap := by
      rcases hi12 with rfl | rfl <;> exact Nat.mod_lt _ hw.ts.cap_pos
    have hcon : containsL G c fp := by
      rcases hi12 with rfl | rfl
      · exact Or.inl hh
      · exact Or.inr hh
    by_cases hcount : c.counting = true
    · rw [if_pos hcount]
      obtain ⟨hw', hc'⟩ := WF_modify_map (G := G)
        (c' := { c with buckets := c.buckets.set i ((c.bucket i).map fun bin =>
                  if bin.1 == fp then (bin.1, bin.2 + 1) else bin), count := c.count + 1 })
        (fun bin => if bin.1 == fp then (bin.1, bin.2 + 1) else bin) hw hi
        ⟨rfl, rfl, rfl, rfl, rfl, rfl, rfl⟩ rfl
        (by intro x; by_cases e : (x.1 == fp) = true <;> simp [e])
        (by intro x hx; have := hw.cnt_pos x (stored_of_bucket hx)
            by_cases e : (x.1 == fp) = true <;> simp [e]; exact this)
        (by intro hf; rw [hcount] at hf; exact absurd hf (by simp))
      dsimp only
      refine Or.inl ⟨rfl, hw', ⟨rfl, rfl, rfl, rfl, rfl, rfl⟩, Or.inl rfl, ?_, ?_, fun hn => absurd hcon hn⟩
      · intro f hf
        have h1 := hc' f
        have h2 : bsum (f ∘ fun bin => if bin.1 == fp then (bin.1, bin.2 + 1) else bin) (c.bucket i)
            = bsum f (c.bucket i) := by
          apply bsum_congr
          intro x _
          simp only [Function.comp]
          split
          · rename_i e
            have e' : x.1 = fp := by simpa using e
            rw [hf x e', hf (x.1, x.2 + 1) e']
          · rfl
        rw [h2] at h1
        exact Nat.add_right_cancel h1
      · rw [if_pos hcount]
        have h1 := hc' (cntW fp)
        have h2 : bsum (cntW fp ∘ fun bin => if bin.1 == fp then (bin.1, bin.2 + 1) else bin) (c.bucket i)
            = bsum (cntW fp) (c.bucket i) + bsum (isFp fp) (c.bucket i) := by
          rw [← bsum_add]
          apply bsum_congr
          intro x _
          simp only [Function.comp, cntW, isFp]
          by_cases e : x.1 = fp
          · simp [e]
          · simp [e]
        have h3 := bsum_isFp_bucket_eq_one hw i fp hh
        rw [h2, h3] at h1
        exact Nat.add_right_cancel (h1.trans (by omega))
    · have hcf : c.counting = false := by simpa using hcount
      rw [if_neg hcount]
      refine Or.inl ⟨rfl, hw, SameX.refl c, Or.inl rfl, fun _ _ => rfl, ?_, fun hn => absurd hcon hn⟩
      rw [if_neg hcount]
      obtain ⟨bin, hm, e⟩ := (hasFp_iff c i fp).mp hh
      have hst := stored_of_bucket hm
      rw [tsum_unique hw (cntW fp) bin hst (by intro b hb; simp [cntW, e ▸ hb])]
      simp [cntW, e, hw.plain hcf bin hst]
  · -- the fingerprint is new
    rename_i hp
    obtain ⟨hn1, hn2⟩ := present_none hp
    have habs : ¬ containsL G c fp := by unfold containsL; simp [hn1, hn2]
    have hspec := insertFp_spec (G := G) (fp, 1) o hw.ts
    simp only at hspec
    generalize insertFp G c (fp, 1) (fp % c.cap) (G fp % c.cap) o = r at hspec
    obtain ⟨c1, left, o1⟩ := r
    simp only at hspec
    rcases hspec with ⟨hl, hs1, hsame1, hc1⟩ | ⟨hl, hc1⟩
    · subst hl
      exact addPost_of_cons hw habs hs1 hsame1.toX (Or.inl hsame1.cap) hc1
    · subst hl; subst hc1
      simp only
      by_cases ha : c1.auto = true
      · simp only [ha, if_true]
        rcases expandLogic_spec (G := G) (some (fp, 1)) o1 hw.ts hw.rate_pos with
          ⟨he, hs2, hx2, hcap2, hc2⟩ | ⟨he, hc2⟩
        · rw [he]
          exact addPost_of_cons hw habs hs2 hx2 (Or.inr ⟨ha, hcap2⟩) hc2
        · rw [he, hc2]; exact Or.inr ⟨rfl, rfl⟩
      · simp only [ha]
        exact Or.inr ⟨rfl, rfl⟩

/-! ### `remove` -/

/-- post-condition of `remove` of a key with fingerprint `fp` -/
def RemovePost (G : Nat → Nat) (c : Cuckoo) (fp : Nat) (c' : Cuckoo) (ret : Bool) : Prop :=
  (ret = true ∧ WF G c' ∧ Same c c' ∧ containsL G c fp ∧
    (∀ f : CBin → Nat, (∀ b, b.1 = fp → f b = 0) → tsum f c' = tsum f c) ∧
    tsum (cntW fp) c' + 1 = tsum (cntW fp) c ∧
    (c.counting = false → ∀ f : CBin → Nat, tsum f c' + f (fp, 1) = tsum f c)) ∨
  (ret = false ∧ c' = c ∧ ¬ containsL G c fp)

theorem remove_spec {G : Nat → Nat} {c : Cuckoo} (h : Nat) (hw : WF G c) :
    RemovePost G c (c.fingerprint h) (remove G c h).1 (remove G c h).2 := by
  simp only [remove, indices]
  generalize c.fingerprint h = fp
  split
  · rename_i hp
    obtain ⟨hn1, hn2⟩ := present_none hp
    exact Or.inr ⟨rfl, rfl, by unfold containsL; simp [hn1, hn2]⟩
  · rename_i i hp
    obtain ⟨hi12, hh⟩ := present_some hp
    have hi : i < c.cap := by
      rcases hi12 with rfl | rfl <;> exact Nat.mod_lt _ hw.ts.cap_pos
    have hcon : containsL G c fp := by
      rcases hi12 with rfl | rfl
      · exact Or.inl hh
      · exact Or.inr hh
    obtain ⟨bin0, hm0, e0⟩ := (hasFp_iff c i fp).mp hh
    by_cases hcount : c.counting = true
    · rw [if_pos hcount]
      split
      · rename_i hf
        rw [List.find?_eq_none] at hf
        exact absurd (by simpa using e0) (hf bin0 hm0)
      · rename_i bin hf
        have hb1 : bin.1 = fp := by simpa using List.find?_some hf
        have hbm : bin ∈ c.bucket i := List.mem_of_find?_eq_some hf
        have hbs : stored c bin := stored_of_bucket hbm
        have hbpos := hw.cnt_pos bin hbs
        split
        · rename_i hle
          obtain ⟨hw', hc'⟩ := WF_modify_erase (G := G)
            (c' := { c with buckets := c.buckets.set i ((c.bucket i).erase bin), count := c.count - 1,
                            unique := c.unique - 1 })
            bin hw hi ⟨rfl, rfl, rfl, rfl, rfl, rfl, rfl⟩ rfl hbm
          dsimp only
          refine Or.inl ⟨rfl, hw', ⟨rfl, rfl, rfl, rfl, rfl, rfl, rfl⟩, hcon, ?_, ?_, ?_⟩
          · intro f hf0
            have h1 := hc' f
            rw [hf0 bin hb1] at h1
            exact h1
          · have h1 := hc' (cntW fp)
            have h2 : cntW fp bin = 1 := by simp only [cntW, hb1, if_true]; omega
            rw [h2] at h1
            exact h1
          · intro hf; rw [hcount] at hf; exact absurd hf (by simp)
        · rename_i hgt
          obtain ⟨hw', hc'⟩ := WF_modify_map (G := G)
            (c' := { c with buckets := c.buckets.set i ((c.bucket i).map fun x =>
                      if x.1 == fp then (x.1, x.2 - 1) else x), count := c.count - 1 })
            (fun x => if x.1 == fp then (x.1, x.2 - 1) else x) hw hi
            ⟨rfl, rfl, rfl, rfl, rfl, rfl, rfl⟩ rfl
            (by intro x; by_cases e : (x.1 == fp) = true <;> simp [e])
            (by
              intro x hx
              have hxs := stored_of_bucket hx
              have := hw.cnt_pos x hxs
              by_cases e : (x.1 == fp) = true
              · have e' : x.1 = fp := by simpa using e
                have : x = bin := stored_unique hw x bin hxs hbs (e'.trans hb1.symm)
                subst this
                simp only [e, if_true]; omega
              · simp only [e]; exact this)
            (by intro hf; rw [hcount] at hf; exact absurd hf (by simp))
          dsimp only
          refine Or.inl ⟨rfl, hw', ⟨rfl, rfl, rfl, rfl, rfl, rfl, rfl⟩, hcon, ?_, ?_, ?_⟩
          · intro f hf0
            have h1 := hc' f
            have h2 : bsum (f ∘ fun x => if x.1 == fp then (x.1, x.2 - 1) else x) (c.bucket i)
                = bsum f (c.bucket i) := by
              apply bsum_congr
              intro x _
              simp only [Function.comp]
              split
              · rename_i e
                have e' : x.1 = fp := by simpa using e
                rw [hf0 x e', hf0 (x.1, x.2 - 1) e']
              · rfl
            rw [h2] at h1
            exact Nat.add_right_cancel h1
          · have h1 := hc' (cntW fp)
            have h2 : bsum (cntW fp ∘ fun x => if x.1 == fp then (x.1, x.2 - 1) else x) (c.bucket i)
                + bsum (isFp fp) (c.bucket i) = bsum (cntW fp) (c.bucket i) := by
              rw [← bsum_add]
              apply bsum_congr
              intro x hx
              have := hw.cnt_pos x (stored_of_bucket hx)
              simp only [Function.comp, cntW, isFp]
              by_cases e : x.1 = fp
              · simp [e]; omega
              · simp [e]
            have h3 := bsum_isFp_bucket_eq_one hw i fp hh
            rw [h3] at h2
            rw [← h2] at h1
            exact Nat.add_right_cancel (m := bsum (cntW fp ∘ fun x => if x.1 == fp then (x.1, x.2 - 1) else x)
              (c.bucket i)) (by omega)
          · intro hf; rw [hcount] at hf; exact absurd hf (by simp)
    · have hcf : c.counting = false := by simpa using hcount
      rw [if_neg hcount]
      have hb0 : bin0 = (fp, 1) := by
        have := hw.plain hcf bin0 (stored_of_bucket hm0)
        exact Prod.ext e0 this
      subst hb0
      obtain ⟨hw', hc'⟩ := WF_modify_erase (G := G)
        (c' := { c with buckets := c.buckets.set i ((c.bucket i).erase (fp, 1)), count := c.count - 1 })
        (fp, 1) hw hi ⟨rfl, rfl, rfl, rfl, rfl, rfl, rfl⟩ rfl hm0
      dsimp only
      refine Or.inl ⟨rfl, hw', ⟨rfl, rfl, rfl, rfl, rfl, rfl, rfl⟩, hcon, ?_, ?_, fun _ => hc'⟩
      · intro f hf0
        have h1 := hc' f
        rw [hf0 (fp, 1) rfl] at h1
        exact h1
      · have h1 := hc' (cntW fp)
        have h2 : cntW fp (fp, 1) = 1 := by simp [cntW]
        rw [h2] at h1
        exact h1

/-! ### the public `expand()` -/

/-- post-condition of `expand()` -/
def ExpandPost (G : Nat → Nat) (c : Cuckoo) (c' : Cuckoo) (err : Option Err) : Prop :=
  (err = none ∧ WF G c' ∧ SameX c c' ∧ c'.cap = c.cap * c.rate ∧ ∀ f : CBin → Nat, tsum f c' = tsum f c) ∨
  (err = some .cuckooFull ∧ c' = c)

theorem expand_spec {G : Nat → Nat} {c : Cuckoo} (o : List Nat) (hw : WF G c) :
    ExpandPost G c (expandLogic G c none o).1 (expandLogic G c none o).2.1 := by
  rcases expandLogic_spec (G := G) none o hw.ts hw.rate_pos with ⟨he, hs2, hx2, hcap2, hc2⟩ | ⟨he, hc2⟩
  · refine Or.inl ⟨he, WF_of_cons hw hs2 hx2 none hc2 (by intro _ h; simp at h), hx2, hcap2, ?_⟩
    intro f; rw [hc2]; rfl
  · exact Or.inr ⟨he, hc2⟩

end PyProb.Cuckoo
