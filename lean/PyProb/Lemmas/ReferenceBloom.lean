/-
  Lemmas relating the model's Bloom and counting-Bloom operations under the default hashing
  strategy to the documented hashing rule and the reference reader / writer of `Spec/Layout.lean`.
-/
import PyProb.Lemmas.ReferenceCommon
import PyProb.Lemmas.LayoutSpecBloom

namespace PyProb


/-- `check_alt` on a long enough hash list never fails and tests the first `n` positions -/
theorem checkGo_all (m : Nat) (bits : Bytes) (n : Nat) (hs : List Nat) (h : n ≤ hs.length) :
    Bloom.checkGo m bits n hs = .ok ((hs.take n).all fun x => testBitB bits (x % m)) := by
  induction n generalizing hs with
  | zero => simp [Bloom.checkGo]
  | succ n ih =>
      cases hs with
      | nil => simp at h
      | cons x xs =>
          simp only [Bloom.checkGo, List.take_succ_cons, List.all_cons]
          cases hx : testBitB bits (x % m)
          · simp
          · simp [ih xs (by simpa using h)]

theorem positions_spec (b : Bloom) (key : Key) :
    b.positions (defaultFnv key b.k) = Spec.bloomPositions b.k b.m key.units := by
  unfold Bloom.positions Spec.bloomPositions
  rw [defaultFnv_spec, List.take_of_length_le (by simp)]
  simp [List.map_map, Function.comp_def]

theorem bitOfFile_append (bits suf : Bytes) (i : Nat) (h : i / 8 < bits.length) :
    Spec.bitOfFile (bits ++ suf) i = testBitB bits i := by
  rw [testBitB_eq]
  unfold Spec.bitOfFile Spec.at'
  simp [List.getD_eq_getElem?_getD, List.getElem?_append_left h]

theorem foldl_setBit_spec (ps : List Nat) (bs : Bytes) : ps.foldl Spec.setBit bs = ps.foldl setBitB bs := by
  induction ps generalizing bs with
  | nil => rfl
  | cons p ps ih => simp only [List.foldl_cons, spec_setBit, ih]

theorem bloomRun_eq (k m : Nat) (keys : List Key) (b0 : Bloom) (hk : b0.k = k) (hm : b0.m = m) :
    keys.foldl (fun b key => (b.addAlt (defaultFnv key k)).1) b0 =
      { b0 with
        bits := (keys.map Key.units).foldl (fun arr key => (Spec.bloomPositions k m key).foldl Spec.setBit arr) b0.bits
        count := b0.count + keys.length } := by
  induction keys generalizing b0 with
  | nil => simp
  | cons key keys ih =>
      simp only [List.foldl_cons, List.map_cons, List.length_cons]
      have hlen : ¬ (defaultFnv key k).length < b0.k := by rw [C18.C18_len_default, hk]; omega
      have hstep : (b0.addAlt (defaultFnv key k)).1 =
          { b0 with bits := (Spec.bloomPositions k m key.units).foldl Spec.setBit b0.bits, count := b0.count + 1 } := by
        unfold Bloom.addAlt
        simp only [hlen, if_false]
        rw [foldl_setBit_spec, ← hk, ← hm, ← positions_spec, hk]
      rw [hstep, ih _ (by exact hk) (by exact hm)]
      simp only [Bloom.mk.injEq, true_and]
      push_cast; omega

/-! ### counting Bloom: the store loop is a sequence of saturating increments -/

/-- `cells[p] = min(cells[p] + 1, UINT32_MAX)` on the model's cell list -/
def incrI (cells : List Int) (p : Nat) : List Int := cells.set p (min (cells.getD p 0 + 1) 4294967295)

theorem incrI_length (cells : List Int) (p : Nat) : (incrI cells p).length = cells.length := by simp [incrI]

theorem incrI_range (cells : List Int) (p : Nat) (h : ∀ x ∈ cells, 0 ≤ x ∧ x ≤ 4294967295) :
    ∀ x ∈ incrI cells p, 0 ≤ x ∧ x ≤ 4294967295 := by
  intro x hx
  rcases List.mem_or_eq_of_mem_set hx with hx | rfl
  · exact h x hx
  · have : 0 ≤ cells.getD p 0 := by
      rw [List.getD_eq_getElem?_getD]
      cases hq : cells[p]? with
      | none => simp
      | some v => simpa using (h v (List.mem_of_getElem? hq)).1
    omega

theorem incrI_getD_max (cells : List Int) (p q : Nat) (h : cells.getD q 0 = 4294967295) :
    (incrI cells p).getD q 0 = 4294967295 := by
  unfold incrI
  rw [List.getD_eq_getElem?_getD] at h
  by_cases hpq : p = q
  · subst hpq
    by_cases hp : p < cells.length
    · simp only [List.getD_eq_getElem?_getD, List.getElem?_set_self hp, Option.getD_some]
      omega
    · rw [List.set_eq_of_length_le (by omega), List.getD_eq_getElem?_getD]; exact h
  · simpa [List.getD_eq_getElem?_getD, List.getElem?_set_ne hpq] using h

theorem foldl_incrI_inv (ps : List Nat) (cells : List Int) (h : ∀ x ∈ cells, 0 ≤ x ∧ x ≤ 4294967295) :
    (ps.foldl incrI cells).length = cells.length ∧ ∀ x ∈ ps.foldl incrI cells, 0 ≤ x ∧ x ≤ 4294967295 := by
  induction ps generalizing cells with
  | nil => exact ⟨rfl, h⟩
  | cons p ps ih =>
      simp only [List.foldl_cons]
      have := ih (incrI cells p) (incrI_range _ _ h)
      rw [incrI_length] at this
      exact this

theorem cbf_addLoop_one (cur : List Int) (pairs : List (Nat × Int)) (acc : List Int)
    (hcur : ∀ x ∈ cur, 0 ≤ x ∧ x ≤ 4294967295)
    (hp : ∀ kv ∈ pairs, kv.2 > 4294967295 → cur.getD kv.1 0 = 4294967295) :
    ∃ vals, CBF.addLoop 1 cur pairs acc = ((pairs.map (·.1)).foldl incrI cur, vals, none) := by
  induction pairs generalizing cur acc with
  | nil => exact ⟨_, rfl⟩
  | cons kv rest ih =>
      obtain ⟨k, v⟩ := kv
      have hk := hp (k, v) (by simp)
      have hrest : ∀ kv ∈ rest, kv.2 > 4294967295 → (incrI cur k).getD kv.1 0 = 4294967295 :=
        fun kv hkv hv => incrI_getD_max _ _ _ (hp kv (List.mem_cons_of_mem _ hkv) hv)
      have hnn : 0 ≤ cur.getD k 0 := by
        rw [List.getD_eq_getElem?_getD]
        cases hq : cur[k]? with
        | none => simp
        | some x => simpa using (hcur x (List.mem_of_getElem? hq)).1
      have hmax : Gen.uint32Max = 4294967295 := rfl
      simp only [CBF.addLoop, Gen.cbfAddClampCmp, Cmp.evalInt, List.map_cons, List.foldl_cons,
        decide_eq_true_eq]
      by_cases hv : v > Gen.uint32Max
      · rw [if_pos hv]
        have : cur.set k Gen.uint32Max = incrI cur k := by
          unfold incrI; rw [hk (by omega)]; rfl
        rw [this]
        exact ih _ _ (incrI_range _ _ hcur) hrest
      · rw [if_neg hv]
        have e : (if cur.getD k 0 + 1 > Gen.uint32Max then Gen.uint32Max else cur.getD k 0 + 1)
            = min (cur.getD k 0 + 1) 4294967295 := by split <;> omega
        simp only [e]
        rw [if_neg (by omega)]
        exact ih _ _ (incrI_range _ _ hcur) hrest

/-- one `add` of a key under the default strategy -/
theorem cbf_add_default (c : CBF) (key : Key) (hlen : c.cells.length = c.m)
    (hcells : ∀ x ∈ c.cells, 0 ≤ x ∧ x ≤ 4294967295) :
    (c.addAlt (defaultFnv key c.k) 1).1 =
      { c with cells := (Spec.bloomPositions c.k c.m key.units).foldl incrI c.cells,
               count := min (c.count + 1) 18446744073709551615 } := by
  have hidx : c.indices (defaultFnv key c.k) = .ok (Spec.bloomPositions c.k c.m key.units) := by
    unfold CBF.indices
    rw [if_neg (by rw [C18.C18_len_default]; omega), List.take_of_length_le (by rw [C18.C18_len_default]; omega),
      defaultFnv_spec, hlen]
    simp [Spec.bloomPositions, List.map_map, Function.comp_def]
  unfold CBF.addAlt
  rw [hidx]
  simp only [zip_map_self_rf]
  obtain ⟨vals, hv⟩ := cbf_addLoop_one c.cells
    ((Spec.bloomPositions c.k c.m key.units).map fun k => (k, c.cells.getD k 0 + 1)) [] hcells (by
      intro kv hkv hgt
      simp only [List.mem_map] at hkv
      obtain ⟨p, _, rfl⟩ := hkv
      simp only at hgt ⊢
      have : c.cells.getD p 0 ≤ 4294967295 := by
        rw [List.getD_eq_getElem?_getD]
        cases hq : c.cells[p]? with
        | none => simp
        | some x => simpa using (hcells x (List.mem_of_getElem? hq)).2
      omega)
  rw [hv]
  simp [List.map_map, Function.comp_def, Gen.uint64Max]

theorem cbfRun_eq (k m : Nat) (keys : List Key) (c0 : CBF) (hk : c0.k = k) (hm : c0.m = m)
    (hlen : c0.cells.length = m) (hcells : ∀ x ∈ c0.cells, 0 ≤ x ∧ x ≤ 4294967295)
    (hc : c0.count + keys.length ≤ 18446744073709551615) :
    keys.foldl (fun c key => (c.addAlt (defaultFnv key k) 1).1) c0 =
      { c0 with
        cells := (keys.map Key.units).foldl (fun arr key => (Spec.bloomPositions k m key).foldl incrI arr) c0.cells
        count := c0.count + keys.length } := by
  induction keys generalizing c0 with
  | nil => simp
  | cons key keys ih =>
      simp only [List.foldl_cons, List.map_cons, List.length_cons]
      have hstep := cbf_add_default c0 key (by rw [hlen, hm]) hcells
      rw [hk, hm] at hstep
      rw [hstep]
      have hinv := foldl_incrI_inv (Spec.bloomPositions k m key.units) c0.cells hcells
      simp only [List.length_cons] at hc
      rw [ih _ rfl rfl (by simp only; rw [hinv.1, hlen]) (by exact hinv.2)
        (by simp only; omega)]
      simp only [CBF.mk.injEq, true_and]
      omega

theorem incrI_toNat (cells : List Int) (p : Nat) (h : ∀ x ∈ cells, 0 ≤ x) :
    (incrI cells p).map Int.toNat = Spec.incrSat (cells.map Int.toNat) p := by
  induction cells generalizing p with
  | nil => simp [incrI, Spec.incrSat]
  | cons c cs ih =>
      have hc := h c (by simp)
      cases p with
      | zero =>
          simp only [incrI, List.set_cons_zero, List.getD_cons_zero, List.map_cons, Spec.incrSat]
          congr 1
          split <;> omega
      | succ p =>
          have := ih p (fun x hx => h x (List.mem_cons_of_mem _ hx))
          simp only [incrI, List.set_cons_succ, List.getD_cons_succ, List.map_cons, Spec.incrSat] at this ⊢
          rw [this]

theorem foldl_incrI_toNat (ps : List Nat) (cells : List Int) (h : ∀ x ∈ cells, 0 ≤ x ∧ x ≤ 4294967295) :
    (ps.foldl incrI cells).map Int.toNat = ps.foldl Spec.incrSat (cells.map Int.toNat) := by
  induction ps generalizing cells with
  | nil => rfl
  | cons p ps ih =>
      simp only [List.foldl_cons]
      rw [ih _ (incrI_range _ _ h), incrI_toNat _ _ (fun x hx => (h x hx).1)]

theorem foldl_keys_incrI (k m : Nat) (keys : List (List Nat)) (cells : List Int)
    (h : ∀ x ∈ cells, 0 ≤ x ∧ x ≤ 4294967295) :
    let r := keys.foldl (fun arr key => (Spec.bloomPositions k m key).foldl incrI arr) cells
    (∀ x ∈ r, 0 ≤ x ∧ x ≤ 4294967295) ∧
    r.map Int.toNat = keys.foldl (fun arr key => (Spec.bloomPositions k m key).foldl Spec.incrSat arr) (cells.map Int.toNat) := by
  induction keys generalizing cells with
  | nil => exact ⟨h, rfl⟩
  | cons key keys ih =>
      simp only [List.foldl_cons]
      have hinv := foldl_incrI_inv (Spec.bloomPositions k m key) cells h
      have := ih _ hinv.2
      rw [foldl_incrI_toNat _ _ h] at this
      exact this

end PyProb
