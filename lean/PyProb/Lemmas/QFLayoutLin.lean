/-
  The canonical layout `Spec.layout` is a table in the linear view of `QFLin` — provided the
  placement fits in front of the empty slot (`Fits`, proved for all canonical sets in
  `QFFits.lean`).  Hence Layer A1 for the canonical layout.
-/
import PyProb.Lemmas.QFLin
import PyProb.Lemmas.QFLayout
import PyProb.Lemmas.QFSet

namespace PyProb.Spec
open PyProb PyProb.QF PyProb.QFLin

/-! ### arrays built by a fold of `set`s over the cells `cf 0 … cf (m-1)` -/

section arr
variable {α : Type}

def arrOf (f : Cell → Nat) (g : Cell → α) (init : List α) (cf : Nat → Cell) (m : Nat) : List α :=
  ((List.range m).map cf).foldl (fun a c => a.set (f c) (g c)) init

theorem arrOf_succ (f : Cell → Nat) (g : Cell → α) (init : List α) (cf : Nat → Cell) (m : Nat) :
    arrOf f g init cf (m + 1) = (arrOf f g init cf m).set (f (cf m)) (g (cf m)) := by
  simp [arrOf, List.range_succ, List.foldl_append]

theorem arrOf_length (f : Cell → Nat) (g : Cell → α) (init : List α) (cf : Nat → Cell) (m : Nat) :
    (arrOf f g init cf m).length = init.length := by
  induction m with
  | zero => rfl
  | succ m ih => rw [arrOf_succ, List.length_set, ih]

theorem getD_set_eq (l : List α) (i : Nat) (a dflt : α) (h : i < l.length) : (l.set i a).getD i dflt = a := by
  simp [List.getD_eq_getElem?_getD, h]

theorem getD_set_ne (l : List α) (i j : Nat) (a dflt : α) (h : i ≠ j) :
    (l.set i a).getD j dflt = l.getD j dflt := by
  simp [List.getD_eq_getElem?_getD, h]

theorem arrOf_other (f : Cell → Nat) (g : Cell → α) (init : List α) (cf : Nat → Cell) (m j : Nat) (dflt : α)
    (h : ∀ i, i < m → f (cf i) ≠ j) : (arrOf f g init cf m).getD j dflt = init.getD j dflt := by
  induction m with
  | zero => rfl
  | succ m ih =>
      rw [arrOf_succ, getD_set_ne _ _ _ _ _ (h m (by omega))]
      exact ih (fun i hi => h i (by omega))

theorem arrOf_cell (f : Cell → Nat) (g : Cell → α) (init : List α) (cf : Nat → Cell) (m : Nat) (dflt : α)
    (hinj : ∀ i k, i < k → k < m → f (cf i) ≠ f (cf k)) (hlt : ∀ i, i < m → f (cf i) < init.length)
    (i : Nat) (hi : i < m) : (arrOf f g init cf m).getD (f (cf i)) dflt = g (cf i) := by
  induction m with
  | zero => omega
  | succ m ih =>
      rw [arrOf_succ]
      by_cases him : i = m
      · subst him
        exact getD_set_eq _ _ _ _ (by rw [arrOf_length]; exact hlt i hi)
      · rw [getD_set_ne _ _ _ _ _ (by
          intro h; exact hinj i m (by omega) (by omega) h.symm)]
        exact ih (fun a b h1 h2 => hinj a b h1 (by omega)) (fun a ha => hlt a (by omega)) (by omega)

theorem arrOf_true (f : Cell → Nat) (n : Nat) (cf : Nat → Cell) (m j : Nat) :
    (arrOf f (fun _ => true) (List.replicate n false) cf m).getD j false = true ↔
      (∃ i, i < m ∧ f (cf i) = j) ∧ j < n := by
  induction m with
  | zero =>
      simp only [arrOf, List.range_zero, List.map_nil, List.foldl_nil]
      simp only [List.getD_eq_getElem?_getD, List.getElem?_replicate]
      constructor
      · intro h; split at h <;> simp at h
      · rintro ⟨⟨i, hi, _⟩, _⟩; omega
  | succ m ih =>
      rw [arrOf_succ]
      by_cases hj : f (cf m) = j
      · by_cases hjn : j < n
        · rw [hj, getD_set_eq _ _ _ _ (by rw [arrOf_length]; simpa using hjn)]
          simp only [true_iff]
          exact ⟨⟨m, by omega, hj⟩, hjn⟩
        · have : (((arrOf f (fun _ => true) (List.replicate n false) cf m).set (f (cf m)) true).getD j false) = false := by
            rw [List.getD_eq_getElem?_getD, List.getElem?_eq_none]
            · rfl
            · rw [List.length_set, arrOf_length]; simp; omega
          rw [this]
          constructor
          · intro h; cases h
          · rintro ⟨_, h⟩; exact absurd h hjn
      · rw [getD_set_ne _ _ _ _ _ hj, ih]
        constructor
        · rintro ⟨⟨i, hi, h⟩, h2⟩; exact ⟨⟨i, by omega, h⟩, h2⟩
        · rintro ⟨⟨i, hi, h⟩, h2⟩
          refine ⟨⟨i, ?_, h⟩, h2⟩
          by_cases him : i = m
          · subst him; exact absurd h hj
          · omega

end arr

/-! ### the cells of `place`, by index -/

/-- home distance and remainder of the `i`-th element of `T` -/
def dOf (n e : Nat) (T : List Elem) (i : Nat) : Nat := off n e (T.getD i (0, 0)).1
def rOf (T : List Elem) (i : Nat) : Nat := (T.getD i (0, 0)).2

/-- positions when the first free distance is `lo` -/
def posG (lo : Nat) (dd : Nat → Nat) : Nat → Nat
  | 0 => max lo (dd 0)
  | i + 1 => max (posG lo dd i + 1) (dd (i + 1))

theorem posG_zero (dd : Nat → Nat) (i : Nat) : posG 0 dd i = posF dd i := by
  induction i with
  | zero => simp [posG, posF]
  | succ i ih => simp [posG, posF, ih]

def cellG (n e lo : Nat) (pq : Option Nat) (T : List Elem) (i : Nat) : Cell :=
  ⟨(e + 1 + posG lo (dOf n e T) i) % n, (T.getD i (0, 0)).1, (T.getD i (0, 0)).2,
    if i = 0 then pq == some (T.getD 0 (0, 0)).1 else (T.getD (i - 1) (0, 0)).1 == (T.getD i (0, 0)).1⟩

theorem place_eq (n e : Nat) : ∀ (T : List Elem) (lo : Nat) (pq : Option Nat),
    place n e lo pq T = (List.range T.length).map (cellG n e lo pq T) := by
  intro T
  induction T with
  | nil => intro lo pq; rfl
  | cons x xs ih =>
      intro lo pq
      simp only [place, List.length_cons, List.range_succ_eq_map, List.map_cons, List.map_map]
      rw [ih]
      congr 1
      apply List.map_congr_left
      intro i _
      have hpos : ∀ i, posG (max lo (off n e x.1) + 1) (dOf n e xs) i = posG lo (dOf n e (x :: xs)) (i + 1) := by
        intro i
        induction i with
        | zero => simp [posG, dOf]
        | succ i ihi => simp only [posG, ihi]; simp [dOf]
      simp only [cellG, Function.comp, hpos, List.getD_cons_succ, Nat.add_one_ne_zero, if_false]
      congr 1
      cases i with
      | zero => simp
      | succ i => simp

/-! ### the rotated list -/

theorem off_gt (n e a : Nat) (h1 : e < a) (h2 : a < n) : off n e a = a - e - 1 := by
  unfold off
  have : a + n - (e + 1) = (a - e - 1) + n := by omega
  rw [this, Nat.add_mod_right]
  exact Nat.mod_eq_of_lt (by omega)

theorem off_lt (n e a : Nat) (h1 : a < e) (h2 : e < n) : off n e a = a + n - e - 1 := by
  unfold off
  have : a + n - (e + 1) = a + n - e - 1 := by omega
  rw [this]
  exact Nat.mod_eq_of_lt (by omega)

theorem off_io (n e x : Nat) (he : e < n) (hx : x < n) : off n e (io n e x) = x := by
  have h1 : io n e x < n := Nat.mod_lt _ (by omega)
  have h2 := slot_off n e (io n e x) he h1
  exact io_inj n e _ _ (Nat.mod_lt _ (by omega)) hx h2

theorem io_off (n e a : Nat) (he : e < n) (ha : a < n) : io n e (off n e a) = a := slot_off n e a he ha

theorem off_lt_n (n e a : Nat) (hn : 0 < n) : off n e a < n := Nat.mod_lt _ hn

/-- no element hashes to slot `e` -/
def NoQuot (e : Nat) (S : List Elem) : Prop := ∀ x ∈ S, x.1 ≠ e

theorem cnt_zero_iff (S : List Elem) (e : Nat) : cnt S e = 0 ↔ NoQuot e S := by
  unfold cnt NoQuot
  rw [List.countP_eq_zero]
  constructor
  · intro h x hx; simpa using h x hx
  · intro h x hx; simpa using h x hx

theorem rot_perm (e : Nat) (S : List Elem) (h : NoQuot e S) : (rot e S).Perm S := by
  have : S.filter (fun x => decide (x.1 < e)) = S.filter (fun x => !decide (e < x.1)) := by
    apply List.filter_congr
    intro x hx
    have := h x hx
    by_cases h1 : x.1 < e
    · have h2 : ¬ e < x.1 := by omega
      simp [h1, h2]
    · have h2 : e < x.1 := by omega
      simp [h1, h2]
  unfold rot
  rw [this]
  exact List.filter_append_perm _ _

theorem mem_rot (e : Nat) (S : List Elem) (h : NoQuot e S) (x : Elem) : x ∈ rot e S ↔ x ∈ S :=
  (rot_perm e S h).mem_iff

theorem length_rot (e : Nat) (S : List Elem) (h : NoQuot e S) : (rot e S).length = S.length :=
  (rot_perm e S h).length_eq

/-- the order in which the table is read from slot `e + 1` -/
def ltRot (n e : Nat) (a b : Elem) : Prop :=
  off n e a.1 < off n e b.1 ∨ (off n e a.1 = off n e b.1 ∧ a.2 < b.2)

theorem rot_sorted (n e : Nat) (he : e < n) (S : List Elem) (hS : Sorted S) (hq : ∀ x ∈ S, x.1 < n) :
    (rot e S).Pairwise (ltRot n e) := by
  unfold rot
  rw [List.pairwise_append]
  refine ⟨?_, ?_, ?_⟩
  · have := List.Pairwise.sublist (List.filter_sublist (p := fun x : Elem => decide (e < x.1))) hS
    refine List.Pairwise.imp_of_mem ?_ this
    intro a b ha hb hab
    rw [List.mem_filter, decide_eq_true_eq] at ha hb
    rw [ltE_iff] at hab
    unfold ltRot
    rw [off_gt n e a.1 ha.2 (hq a ha.1), off_gt n e b.1 hb.2 (hq b hb.1)]
    omega
  · have := List.Pairwise.sublist (List.filter_sublist (p := fun x : Elem => decide (x.1 < e))) hS
    refine List.Pairwise.imp_of_mem ?_ this
    intro a b ha hb hab
    rw [List.mem_filter, decide_eq_true_eq] at ha hb
    rw [ltE_iff] at hab
    unfold ltRot
    rw [off_lt n e a.1 ha.2 he, off_lt n e b.1 hb.2 he]
    omega
  · intro a ha b hb
    rw [List.mem_filter, decide_eq_true_eq] at ha hb
    unfold ltRot
    rw [off_gt n e a.1 ha.2 (hq a ha.1), off_lt n e b.1 hb.2 he]
    have := hq a ha.1
    omega

theorem getD_mem (T : List Elem) (i : Nat) (h : i < T.length) : T.getD i (0, 0) ∈ T := by
  rw [List.getD_eq_getElem?_getD, List.getElem?_eq_getElem h]
  exact List.getElem_mem h

/-! ### the placement fits in front of the empty slot -/

/-- the empty slot is a slot nothing hashes to, and the last element is placed before it -/
def Fits (n : Nat) (S : List Elem) : Prop :=
  emptySlot n S < n ∧ cnt S (emptySlot n S) = 0 ∧
    ∀ i, i < S.length → posF (dOf n (emptySlot n S) (rot (emptySlot n S) S)) i + 2 ≤ n

instance (n : Nat) (S : List Elem) : Decidable (Fits n S) := by
  unfold Fits; infer_instance

/-- the canonical layout is a table in the linear view -/
theorem layout_lin (q : Nat) (hq1 : 1 ≤ q) (auto : Bool) (S : List Elem) (hS : Sorted S)
    (hq : ∀ x ∈ S, x.1 < 2 ^ q) (hF : Fits (2 ^ q) S) :
    Lin (layout q auto S) (2 ^ q) (emptySlot (2 ^ q) S) S.length
      (dOf (2 ^ q) (emptySlot (2 ^ q) S) (rot (emptySlot (2 ^ q) S) S))
      (rOf (rot (emptySlot (2 ^ q) S) S)) := by
  obtain ⟨he, hcnt, hfit⟩ := hF
  have hn2 : 2 ≤ 2 ^ q := by
    calc 2 = 2 ^ 1 := rfl
      _ ≤ 2 ^ q := Nat.pow_le_pow_right (by omega) hq1
  generalize hn : 2 ^ q = n at *
  generalize hee : emptySlot n S = e at *
  have hno : NoQuot e S := (cnt_zero_iff S e).1 hcnt
  generalize hT : rot e S = T at *
  have hlen : T.length = S.length := by rw [← hT]; exact length_rot e S hno
  have hmemT : ∀ i, i < S.length → T.getD i (0, 0) ∈ S := by
    intro i hi
    have := getD_mem T i (by omega)
    rw [← hT] at this ⊢
    exact (mem_rot e S hno _).1 this
  have hTq : ∀ i, i < S.length → (T.getD i (0, 0)).1 < n := fun i hi => hq _ (hmemT i hi)
  have hTe : ∀ i, i < S.length → (T.getD i (0, 0)).1 ≠ e := fun i hi => hno _ (hmemT i hi)
  have hsorted : T.Pairwise (ltRot n e) := by rw [← hT]; exact rot_sorted n e he S hS hq
  -- the cells
  have hcells : cells n S = (List.range S.length).map (cellG n e 0 none T) := by
    simp only [cells, hee, hT]
    rw [place_eq, hlen]
  -- positions are distinct slots
  have hp_lt : ∀ i, i < S.length → posF (dOf n e T) i < n := fun i hi => by have := hfit i hi; omega
  have hidx : ∀ i, (cellG n e 0 none T i).idx = io n e (posF (dOf n e T) i) := by
    intro i; simp [cellG, io, posG_zero]
  have hinj : ∀ i k, i < k → k < S.length →
      (fun c : Cell => c.idx) (cellG n e 0 none T i) ≠ (fun c : Cell => c.idx) (cellG n e 0 none T k) := by
    intro i k hik hk h
    simp only [hidx] at h
    have := io_inj n e _ _ (hp_lt i (by omega)) (hp_lt k hk) h
    have := p_lt (dOf n e T) i k hik
    omega
  have hd_io : ∀ i, i < S.length → io n e (dOf n e T i) = (T.getD i (0, 0)).1 :=
    fun i hi => io_off n e _ he (hTq i hi)
  refine ⟨hn2, by simp [QF.size, hn], he, ?_, hfit, ?_, ?_, ?_, ?_, ?_⟩
  · -- sorted
    intro i hi
    rw [List.pairwise_iff_getElem] at hsorted
    have := hsorted i (i + 1) (by omega) (by omega) (by omega)
    simp only [ltRot] at this
    simp only [dOf, rOf, List.getD_eq_getElem?_getD, List.getElem?_eq_getElem (show i < T.length by omega),
      List.getElem?_eq_getElem (show i + 1 < T.length by omega), Option.getD_some]
    exact this
  · -- continuation bits
    intro i hi
    have h1 := arrOf_cell (fun c : Cell => c.idx) (fun c : Cell => c.cont) (List.replicate n false)
      (cellG n e 0 none T) S.length false hinj (by intro k hk; simp only [List.length_replicate, hidx, io]; exact Nat.mod_lt _ (by omega)) i hi
    have h2 : (layout q auto S).cont = arrOf (fun c : Cell => c.idx) (fun c : Cell => c.cont)
        (List.replicate n false) (cellG n e 0 none T) S.length := by
      simp only [layout, hn, hcells, arrOf]
    simp only [bit, h2, ← hidx, h1]
    cases i with
    | zero => simp [cellG]
    | succ i =>
        simp only [cellG, Nat.add_one_ne_zero, if_false, Nat.add_sub_cancel, ne_eq, not_false_eq_true,
          decide_true, Bool.true_and]
        have e1 := hd_io (i + 1) hi
        have e2 := hd_io i (by omega)
        by_cases heq : dOf n e T (i + 1) = dOf n e T i
        · have hq' : (T.getD i (0, 0)).1 = (T.getD (i + 1) (0, 0)).1 := by rw [← e2, ← e1, heq]
          rw [hq', heq]
          simp only [beq_self_eq_true, decide_true]
        · have : (T.getD i (0, 0)).1 ≠ (T.getD (i + 1) (0, 0)).1 := by
            intro h; apply heq; simp only [dOf, h]
          have hb : ((T.getD i (0, 0)).1 == (T.getD (i + 1) (0, 0)).1) = false := beq_eq_false_iff_ne.2 this
          rw [hb]
          exact (decide_eq_false heq).symm
  · -- shifted bits
    intro i hi
    have h1 := arrOf_cell (fun c : Cell => c.idx) (fun c : Cell => c.idx != c.quot) (List.replicate n false)
      (cellG n e 0 none T) S.length false hinj (by intro k hk; simp only [List.length_replicate, hidx, io]; exact Nat.mod_lt _ (by omega)) i hi
    have h2 : (layout q auto S).shift = arrOf (fun c : Cell => c.idx) (fun c : Cell => c.idx != c.quot)
        (List.replicate n false) (cellG n e 0 none T) S.length := by
      simp only [layout, hn, hcells, arrOf]
    simp only [bit, h2, ← hidx, h1]
    rw [hidx]
    have e1 := hd_io i hi
    have hquot : (cellG n e 0 none T i).quot = (T.getD i (0, 0)).1 := rfl
    rw [hquot, ← e1]
    by_cases heq : posF (dOf n e T) i = dOf n e T i
    · simp [heq]
    · have : io n e (posF (dOf n e T) i) ≠ io n e (dOf n e T i) := by
        intro h
        exact heq (io_inj n e _ _ (hp_lt i hi) (by have := p_ge_d (dOf n e T) i; have := hp_lt i hi; omega) h)
      simp [heq, this]
  · -- remainders
    intro i hi
    have h1 := arrOf_cell (fun c : Cell => c.idx) (fun c : Cell => c.rem) (List.replicate n 0)
      (cellG n e 0 none T) S.length 0 hinj (by intro k hk; simp only [List.length_replicate, hidx, io]; exact Nat.mod_lt _ (by omega)) i hi
    have h2 : (layout q auto S).rem = arrOf (fun c : Cell => c.idx) (fun c : Cell => c.rem)
        (List.replicate n 0) (cellG n e 0 none T) S.length := by
      simp only [layout, hn, hcells, arrOf]
    simp only [remAt, h2, ← hidx, h1]
    rfl
  · -- slots without an element
    intro x hx hno'
    have hne : ∀ i, i < S.length → (fun c : Cell => c.idx) (cellG n e 0 none T i) ≠ io n e x := by
      intro i hi h
      simp only [hidx] at h
      exact hno' i hi (io_inj n e _ _ (hp_lt i hi) hx h)
    have h2 : (layout q auto S).cont = arrOf (fun c : Cell => c.idx) (fun c : Cell => c.cont)
        (List.replicate n false) (cellG n e 0 none T) S.length := by
      simp only [layout, hn, hcells, arrOf]
    have h3 : (layout q auto S).shift = arrOf (fun c : Cell => c.idx) (fun c : Cell => c.idx != c.quot)
        (List.replicate n false) (cellG n e 0 none T) S.length := by
      simp only [layout, hn, hcells, arrOf]
    have hrep : (List.replicate n false).getD (io n e x) false = false := by
      simp only [List.getD_eq_getElem?_getD, List.getElem?_replicate]; split <;> rfl
    constructor
    · simp only [bit, h2]; rw [arrOf_other _ _ _ _ _ _ _ hne]; exact hrep
    · simp only [bit, h3]; rw [arrOf_other _ _ _ _ _ _ _ hne]; exact hrep
  · -- occupied bits
    intro x hx
    have h2 : (layout q auto S).occ = arrOf (fun c : Cell => c.quot) (fun _ => true)
        (List.replicate n false) (cellG n e 0 none T) S.length := by
      simp only [layout, hn, hcells, arrOf]
    simp only [bit, h2, arrOf_true]
    have hiox : io n e x < n := Nat.mod_lt _ (by omega)
    constructor
    · rintro ⟨⟨i, hi, h⟩, _⟩
      refine ⟨i, hi, ?_⟩
      have hquot : (cellG n e 0 none T i).quot = (T.getD i (0, 0)).1 := rfl
      rw [hquot] at h
      simp only [dOf, h]
      exact off_io n e x he hx
    · rintro ⟨i, hi, h⟩
      refine ⟨⟨i, hi, ?_⟩, hiox⟩
      have hquot : (cellG n e 0 none T i).quot = (T.getD i (0, 0)).1 := rfl
      rw [hquot, ← hd_io i hi, h]

end PyProb.Spec
