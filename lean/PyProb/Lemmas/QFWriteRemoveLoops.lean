/-
  The two simple loops of `_remove_element`, on slots given by their distance from an origin:
  the walk back to the cluster start (`removeMinIdx`) and the left shift (`removeShift`).
  No assumption on the table beyond the array lengths.
-/
import PyProb.Lemmas.QFExtRemove

namespace PyProb.QFRem
open PyProb PyProb.QF PyProb.QFLin PyProb.Spec

/-- the walk back ends at the first cluster start -/
theorem removeMinIdx_walk (u : QF) (n e : Nat) (hs : u.size = n) (hn : 0 < n) (c : Nat)
    (hc : u.isClusterStart (io n e c) = true) :
    ∀ k fuel, (∀ y, c < y → y ≤ c + k → u.isClusterStart (io n e y) = false) → k < fuel →
      removeMinIdx u fuel (io n e (c + k)) = .ok (io n e c) := by
  intro k
  induction k with
  | zero =>
      intro fuel _ hf
      obtain ⟨fuel, rfl⟩ : ∃ f', fuel = f' + 1 := ⟨fuel - 1, by omega⟩
      simp [removeMinIdx, hc]
  | succ k ih =>
      intro fuel hmid hf
      obtain ⟨fuel, rfl⟩ : ∃ f', fuel = f' + 1 := ⟨fuel - 1, by omega⟩
      have h1 := hmid (c + (k + 1)) (by omega) (Nat.le_refl _)
      simp only [removeMinIdx, h1, Bool.false_eq_true, if_false]
      rw [prv_io u n e _ hs hn (by omega), show c + (k + 1) - 1 = c + k by omega]
      exact ih fuel (fun y h2 h3 => hmid y h2 (by omega)) (by omega)

/-- the loop condition of the left shift -/
def goOn (u : QF) (a : Nat) : Bool := !u.isClusterStart a && !u.isEmpty a

theorem goOn_congr (u v : QF) (a : Nat) (h1 : bit v.occ a = bit u.occ a) (h2 : bit v.cont a = bit u.cont a)
    (h3 : bit v.shift a = bit u.shift a) : goOn v a = goOn u a := by
  simp only [goOn, isClusterStart, isEmpty, h1, h2, h3]

/-- `v` is `u` with the remainders, continuation and shifted bits of the distances `X … Y - 1`
    replaced by those of their right neighbours -/
structure ShiftRel (u v : QF) (n e X Y : Nat) : Prop where
  q : v.q = u.q
  auto : v.auto = u.auto
  count : v.count = u.count
  occ : v.occ = u.occ
  lrem : v.rem.length = u.rem.length
  lcont : v.cont.length = u.cont.length
  lshift : v.shift.length = u.shift.length
  rem : ∀ y, y < n → v.remAt (io n e y) =
    if X ≤ y ∧ y < Y then u.remAt (io n e (y + 1)) else u.remAt (io n e y)
  cont : ∀ y, y < n → bit v.cont (io n e y) =
    if X ≤ y ∧ y < Y then bit u.cont (io n e (y + 1)) else bit u.cont (io n e y)
  shift : ∀ y, y < n → bit v.shift (io n e y) =
    if X ≤ y ∧ y < Y then bit u.shift (io n e (y + 1)) else bit u.shift (io n e y)

theorem removeShift_spec (n e : Nat) :
    ∀ t X fuel (u : QF) Y, Y = X + t → Y + 1 < n → u.size = n → u.rem.length = n → u.cont.length = n →
      u.shift.length = n →
      (∀ y, X < y → y ≤ Y → goOn u (io n e y) = true) → goOn u (io n e (Y + 1)) = false → t < fuel →
      ∃ v, removeShift fuel u (io n e X) (io n e (X + 1)) = .ok (v, io n e Y, io n e (Y + 1)) ∧
        ShiftRel u v n e X Y := by
  intro t
  induction t with
  | zero =>
      intro X fuel u Y hY hYn hs l1 l3 l4 hmid hend hf
      obtain ⟨fuel, rfl⟩ : ∃ f', fuel = f' + 1 := ⟨fuel - 1, by omega⟩
      simp only [Nat.add_zero] at hY
      subst hY
      refine ⟨u, ?_, ⟨rfl, rfl, rfl, rfl, rfl, rfl, rfl, ?_, ?_, ?_⟩⟩
      · simp only [goOn] at hend
        simp only [removeShift, hend, Bool.false_eq_true, if_false]
      · intro y hy; rw [if_neg (by omega)]
      · intro y hy; rw [if_neg (by omega)]
      · intro y hy; rw [if_neg (by omega)]
  | succ t ih =>
      intro X fuel u Y hY hYn hs l1 l3 l4 hmid hend hf
      obtain ⟨fuel, rfl⟩ : ∃ f', fuel = f' + 1 := ⟨fuel - 1, by omega⟩
      have hgo := hmid (X + 1) (by omega) (by omega)
      simp only [goOn] at hgo
      simp only [removeShift, hgo, if_true]
      generalize hu1 : ({ u with
          rem := u.rem.set (io n e X) (u.remAt (io n e (X + 1)))
          cont := u.cont.set (io n e X) (bit u.cont (io n e (X + 1)))
          shift := u.shift.set (io n e X) (bit u.shift (io n e (X + 1))) } : QF) = u1
      have hsz : u1.size = n := by rw [← hu1]; exact hs
      have hocc : u1.occ = u.occ := by rw [← hu1]
      have hremv : ∀ y, y < n → u1.remAt (io n e y) =
          if X = y then u.remAt (io n e (X + 1)) else u.remAt (io n e y) := by
        intro y hy; rw [← hu1]; exact getD_set_io u.rem n e X y _ 0 l1 (by omega) hy
      have hcontv : ∀ y, y < n → bit u1.cont (io n e y) =
          if X = y then bit u.cont (io n e (X + 1)) else bit u.cont (io n e y) := by
        intro y hy; rw [← hu1]; exact bit_set_io u.cont n e X y _ l3 (by omega) hy
      have hshiftv : ∀ y, y < n → bit u1.shift (io n e y) =
          if X = y then bit u.shift (io n e (X + 1)) else bit u.shift (io n e y) := by
        intro y hy; rw [← hu1]; exact bit_set_io u.shift n e X y _ l4 (by omega) hy
      have hgoon : ∀ y, X < y → y < n → goOn u1 (io n e y) = goOn u (io n e y) := by
        intro y h1 h2
        apply goOn_congr
        · rw [hocc]
        · rw [hcontv y h2, if_neg (by omega)]
        · rw [hshiftv y h2, if_neg (by omega)]
      have hnx : u1.nxt (io n e (X + 1)) = io n e (X + 1 + 1) := nxt_io u1 n e _ hsz
      rw [hnx]
      obtain ⟨v, hv, R⟩ := ih (X + 1) fuel u1 Y (by omega) hYn hsz
        (by rw [← hu1]; simp [l1]) (by rw [← hu1]; simp [l3]) (by rw [← hu1]; simp [l4])
        (fun y h1 h2 => by rw [hgoon y (by omega) (by omega)]; exact hmid y (by omega) h2)
        (by rw [hgoon (Y + 1) (by omega) hYn]; exact hend) (by omega)
      refine ⟨v, hv, ⟨?_, ?_, ?_, ?_, ?_, ?_, ?_, ?_, ?_, ?_⟩⟩
      · rw [R.q, ← hu1]
      · rw [R.auto, ← hu1]
      · rw [R.count, ← hu1]
      · rw [R.occ, hocc]
      · rw [R.lrem, ← hu1]; simp
      · rw [R.lcont, ← hu1]; simp
      · rw [R.lshift, ← hu1]; simp
      · intro y hy
        rw [R.rem y hy]
        by_cases h1 : X + 1 ≤ y ∧ y < Y
        · rw [if_pos h1, if_pos (by omega), hremv (y + 1) (by omega), if_neg (by omega)]
        · rw [if_neg h1, hremv y hy]
          by_cases h2 : X = y
          · subst h2; rw [if_pos rfl, if_pos (by omega)]
          · rw [if_neg h2, if_neg (by omega)]
      · intro y hy
        rw [R.cont y hy]
        by_cases h1 : X + 1 ≤ y ∧ y < Y
        · rw [if_pos h1, if_pos (by omega), hcontv (y + 1) (by omega), if_neg (by omega)]
        · rw [if_neg h1, hcontv y hy]
          by_cases h2 : X = y
          · subst h2; rw [if_pos rfl, if_pos (by omega)]
          · rw [if_neg h2, if_neg (by omega)]
      · intro y hy
        rw [R.shift y hy]
        by_cases h1 : X + 1 ≤ y ∧ y < Y
        · rw [if_pos h1, if_pos (by omega), hshiftv (y + 1) (by omega), if_neg (by omega)]
        · rw [if_neg h1, hshiftv y hy]
          by_cases h2 : X = y
          · subst h2; rw [if_pos rfl, if_pos (by omega)]
          · rw [if_neg h2, if_neg (by omega)]

end PyProb.QFRem
