/-
  `_shift_insert` on an arbitrary table, slot by slot (no canonical-layout hypothesis): when the
  slots at distances `P, …, P + k - 1` are in use and the slot at distance `P + k` is empty, the
  loop moves their contents one slot to the right and the new element is stored at distance `P`
  (`Desc`).  Distances are counted from slot `e + 1` (`QFLin.io`), and nothing wraps around.
-/
import PyProb.Lemmas.QFExt

namespace PyProb.QFLin
open PyProb PyProb.QF

/-! ### `set` and `getD` -/

theorem getD_set' {α : Type} (l : List α) (i j : Nat) (v dflt : α) (hi : i < l.length) :
    (l.set i v).getD j dflt = if j = i then v else l.getD j dflt := by
  by_cases h : j = i
  · subst h; simp [List.getD_eq_getElem?_getD, hi]
  · rw [if_neg h]
    have : i ≠ j := fun hh => h hh.symm
    simp [List.getD_eq_getElem?_getD, this]

theorem bit_set (l : List Bool) (i j : Nat) (v : Bool) (hi : i < l.length) :
    bit (l.set i v) j = if j = i then v else bit l j := getD_set' l i j v false hi

theorem bit_set_set (l : List Bool) (a b j : Nat) (va vb : Bool) (ha : a < l.length) (hb : b < l.length) :
    bit ((l.set a va).set b vb) j = if j = b then vb else if j = a then va else bit l j := by
  rw [bit_set _ _ _ _ (by rw [List.length_set]; exact hb), bit_set _ _ _ _ ha]

theorem getD_set_set (l : List Nat) (a b j : Nat) (va vb : Nat) (ha : a < l.length) (hb : b < l.length) :
    ((l.set a va).set b vb).getD j 0 = if j = b then vb else if j = a then va else l.getD j 0 := by
  rw [getD_set' _ _ _ _ _ (by rw [List.length_set]; exact hb), getD_set' _ _ _ _ _ ha]

theorem io_eq_iff (n e x y : Nat) (hx : x < n) (hy : y < n) : io n e x = io n e y ↔ x = y :=
  ⟨io_inj n e x y hx hy, fun h => by rw [h]⟩

/-! ### the loop -/

/-- one round of the loop body -/
def step1 (s : QF) (ins next : Nat) : QF :=
  { s with
    cont := (s.cont.set next (bit s.cont ins)).set ins (bit s.cont next)
    shift := s.shift.set next true
    rem := (s.rem.set next (s.remAt ins)).set ins (s.remAt next) }

theorem shiftLoop_succ (ins fuel : Nat) (s : QF) (next : Nat) :
    shiftLoop ins (fuel + 1) s next =
      if s.isEmpty next = true then .ok (step1 s ins next)
      else shiftLoop ins fuel (step1 s ins next) ((step1 s ins next).nxt next) := rfl

/-- the effect of the shift loop started at distance `N` with the insertion slot at distance `P`:
    the contents of `N, …, N + k - 1` move one slot to the right, the content of `P` goes to `N`
    and the content of the empty slot `N + k` goes to `P` -/
theorem shiftLoop_spec (n e : Nat) (hn : 0 < n) (P : Nat) : ∀ (k : Nat) (s : QF) (N fuel : Nat),
    s.size = n → s.rem.length = n → s.cont.length = n → s.shift.length = n →
    P < N → N + k < n → k < fuel →
    (∀ y, N ≤ y → y < N + k → s.isEmpty (io n e y) = false) →
    s.isEmpty (io n e (N + k)) = true →
    ∃ t, shiftLoop (io n e P) fuel s (io n e N) = .ok t ∧
      t.q = s.q ∧ t.occ = s.occ ∧ t.count = s.count ∧ t.auto = s.auto ∧
      t.rem.length = n ∧ t.cont.length = n ∧ t.shift.length = n ∧
      (∀ y, y < n → bit t.cont (io n e y) =
        if y = P then bit s.cont (io n e (N + k)) else if y = N then bit s.cont (io n e P)
        else if N < y ∧ y ≤ N + k then bit s.cont (io n e (y - 1)) else bit s.cont (io n e y)) ∧
      (∀ y, y < n → t.remAt (io n e y) =
        if y = P then s.remAt (io n e (N + k)) else if y = N then s.remAt (io n e P)
        else if N < y ∧ y ≤ N + k then s.remAt (io n e (y - 1)) else s.remAt (io n e y)) ∧
      (∀ y, y < n → bit t.shift (io n e y) =
        if N ≤ y ∧ y ≤ N + k then true else bit s.shift (io n e y)) := by
  intro k
  induction k with
  | zero =>
      intro s N fuel hsz hlr hlc hls hPN hNk hfu _ hemp
      obtain ⟨fuel, rfl⟩ : ∃ f', fuel = f' + 1 := ⟨fuel - 1, by omega⟩
      simp only [Nat.add_zero] at hemp hNk
      have hioP : io n e P < n := io_lt n e P hn
      have hioN : io n e N < n := io_lt n e N hn
      rw [shiftLoop_succ, if_pos hemp]
      simp only [step1]
      refine ⟨_, rfl, rfl, rfl, rfl, rfl, by simp [hlr], by simp [hlc], by simp [hls], ?_, ?_, ?_⟩
      · intro y hy
        simp only [Nat.add_zero]
        rw [bit_set_set _ _ _ _ _ _ (by omega) (by omega)]
        simp only [io_eq_iff n e y P hy (by omega), io_eq_iff n e y N hy (by omega)]
        by_cases h1 : y = P
        · simp [h1]
        · by_cases h2 : y = N
          · simp [h1, h2]
          · simp only [h1, h2, if_false]
            rw [if_neg (by omega)]
      · intro y hy
        simp only [Nat.add_zero, remAt]
        rw [getD_set_set _ _ _ _ _ _ (by omega) (by omega)]
        simp only [io_eq_iff n e y P hy (by omega), io_eq_iff n e y N hy (by omega)]
        by_cases h1 : y = P
        · simp [h1]
        · by_cases h2 : y = N
          · simp [h1, h2]
          · simp only [h1, h2, if_false]
            rw [if_neg (by omega)]
      · intro y hy
        simp only [Nat.add_zero]
        rw [bit_set _ _ _ _ (by omega)]
        simp only [io_eq_iff n e y N hy (by omega)]
        by_cases h2 : y = N
        · simp [h2]
        · rw [if_neg h2, if_neg (by omega)]
  | succ k ih =>
      intro s N fuel hsz hlr hlc hls hPN hNk hfu hne hemp
      obtain ⟨fuel, rfl⟩ : ∃ f', fuel = f' + 1 := ⟨fuel - 1, by omega⟩
      have hioP : io n e P < n := io_lt n e P hn
      have hioN : io n e N < n := io_lt n e N hn
      have hneN := hne N (Nat.le_refl _) (by omega)
      rw [shiftLoop_succ, if_neg (by rw [hneN]; simp)]
      -- the state after one step
      generalize hs1 : step1 s (io n e P) (io n e N) = s1
      simp only [step1] at hs1
      have hsz1 : s1.size = n := by rw [← hs1]; exact hsz
      have hc1 : ∀ y, y < n → bit s1.cont (io n e y) =
          if y = P then bit s.cont (io n e N) else if y = N then bit s.cont (io n e P)
          else bit s.cont (io n e y) := by
        intro y hy
        rw [← hs1]
        simp only []
        rw [bit_set_set _ _ _ _ _ _ (by omega) (by omega)]
        simp only [io_eq_iff n e y P hy (by omega), io_eq_iff n e y N hy (by omega)]
      have hr1 : ∀ y, y < n → s1.remAt (io n e y) =
          if y = P then s.remAt (io n e N) else if y = N then s.remAt (io n e P)
          else s.remAt (io n e y) := by
        intro y hy
        rw [← hs1]
        simp only [remAt]
        rw [getD_set_set _ _ _ _ _ _ (by omega) (by omega)]
        simp only [io_eq_iff n e y P hy (by omega), io_eq_iff n e y N hy (by omega)]
      have hsh1 : ∀ y, y < n → bit s1.shift (io n e y) =
          if y = N then true else bit s.shift (io n e y) := by
        intro y hy
        rw [← hs1]
        simp only []
        rw [bit_set _ _ _ _ (by omega)]
        simp only [io_eq_iff n e y N hy (by omega)]
      have ho1 : s1.occ = s.occ := by rw [← hs1]
      have hemp1 : ∀ y, y < n → y ≠ P → y ≠ N → s1.isEmpty (io n e y) = s.isEmpty (io n e y) := by
        intro y hy h1 h2
        simp only [isEmpty, ho1, hc1 y hy, hsh1 y hy, h1, h2, if_false]
      have hnext : s1.nxt (io n e N) = io n e (N + 1) := nxt_io s1 n e N hsz1
      rw [hnext]
      obtain ⟨t, ht, tq, tocc, tcount, tauto, tlr, tlc, tls, tc, tr, tsh⟩ :=
        ih s1 (N + 1) fuel hsz1 (by rw [← hs1]; simp [hlr]) (by rw [← hs1]; simp [hlc])
          (by rw [← hs1]; simp [hls]) (by omega) (by omega) (by omega)
          (by intro y h1 h2
              rw [hemp1 y (by omega) (by omega) (by omega)]
              exact hne y (by omega) (by omega))
          (by rw [hemp1 _ (by omega) (by omega) (by omega), show N + 1 + k = N + (k + 1) by omega]
              exact hemp)
      refine ⟨t, ht, by rw [tq, ← hs1], by rw [tocc, ho1], by rw [tcount, ← hs1], by rw [tauto, ← hs1],
        tlr, tlc, tls, ?_, ?_, ?_⟩
      · intro y hy
        rw [tc y hy]
        rw [show N + 1 + k = N + (k + 1) by omega]
        by_cases h1 : y = P
        · rw [if_pos h1, if_pos h1, hc1 _ (by omega), if_neg (by omega), if_neg (by omega)]
        · rw [if_neg h1, if_neg h1]
          by_cases h2 : y = N + 1
          · rw [if_pos h2, hc1 P (by omega), if_pos rfl, if_neg (by omega), if_pos (by omega), h2,
              Nat.add_sub_cancel]
          · rw [if_neg h2]
            by_cases h3 : N + 1 < y ∧ y ≤ N + (k + 1)
            · rw [if_pos h3, hc1 _ (by omega), if_neg (by omega), if_neg (by omega), if_neg (by omega),
                if_pos (by omega)]
            · rw [if_neg h3, hc1 y hy, if_neg h1]
              by_cases h4 : y = N
              · rw [if_pos h4, if_pos h4]
              · rw [if_neg h4, if_neg h4, if_neg (by omega)]
      · intro y hy
        rw [tr y hy]
        rw [show N + 1 + k = N + (k + 1) by omega]
        by_cases h1 : y = P
        · rw [if_pos h1, if_pos h1, hr1 _ (by omega), if_neg (by omega), if_neg (by omega)]
        · rw [if_neg h1, if_neg h1]
          by_cases h2 : y = N + 1
          · rw [if_pos h2, hr1 P (by omega), if_pos rfl, if_neg (by omega), if_pos (by omega), h2,
              Nat.add_sub_cancel]
          · rw [if_neg h2]
            by_cases h3 : N + 1 < y ∧ y ≤ N + (k + 1)
            · rw [if_pos h3, hr1 _ (by omega), if_neg (by omega), if_neg (by omega), if_neg (by omega),
                if_pos (by omega)]
            · rw [if_neg h3, hr1 y hy, if_neg h1]
              by_cases h4 : y = N
              · rw [if_pos h4, if_pos h4]
              · rw [if_neg h4, if_neg h4, if_neg (by omega)]
      · intro y hy
        rw [tsh y hy, show N + 1 + k = N + (k + 1) by omega]
        by_cases h3 : N + 1 ≤ y ∧ y ≤ N + (k + 1)
        · rw [if_pos h3, if_pos (by omega)]
        · rw [if_neg h3, hsh1 y hy]
          by_cases h4 : y = N
          · rw [if_pos h4, if_pos (by omega)]
          · rw [if_neg h4, if_neg (by omega)]

/-! ### `_shift_insert` -/

/-- the table `t` is the table `s` with a new element of home distance `D` and remainder `rr` stored
    at distance `P`, the old contents of `P, …, P + k - 1` moved one slot to the right; `nc` is the
    continuation bit of the new element and `fl` says whether the element behind it is forced to be
    a continuation -/
structure Desc (t s : QF) (n e P k D rr : Nat) (nc fl : Bool) : Prop where
  q : t.q = s.q
  count : t.count = s.count
  auto : t.auto = s.auto
  lrem : t.rem.length = n
  locc : t.occ.length = n
  lcont : t.cont.length = n
  lshift : t.shift.length = n
  cont : ∀ y, y < n → bit t.cont (io n e y) =
    if y = P then nc else if P < y ∧ y ≤ P + k then
      (if y = P + 1 ∧ fl = true then true else bit s.cont (io n e (y - 1)))
    else bit s.cont (io n e y)
  shift : ∀ y, y < n → bit t.shift (io n e y) =
    if y = P then decide (P ≠ D) else if P < y ∧ y ≤ P + k then true else bit s.shift (io n e y)
  rem : ∀ y, y < n → t.remAt (io n e y) =
    if y = P then rr else if P < y ∧ y ≤ P + k then s.remAt (io n e (y - 1)) else s.remAt (io n e y)
  occ : ∀ y, y < n → bit t.occ (io n e y) = if y = D then true else bit s.occ (io n e y)

theorem place_desc (s : QF) (n e P D rr : Nat) (orig : Nat) (hn : 0 < n)
    (hlr : s.rem.length = n) (hlo : s.occ.length = n) (hlc : s.cont.length = n) (hls : s.shift.length = n)
    (hP : P < n) (hD : D < n) :
    Desc (s.place (io n e D) rr orig (io n e P)) s n e P 0 D rr (io n e P != orig) false := by
  have hioP : io n e P < n := io_lt n e P hn
  have hioD : io n e D < n := io_lt n e D hn
  refine ⟨rfl, rfl, rfl, by simp [place, hlr], by simp [place, hlo], by simp [place, hlc],
    by simp [place, hls], ?_, ?_, ?_, ?_⟩
  · intro y hy
    simp only [place]
    rw [bit_set _ _ _ _ (by omega)]
    simp only [io_eq_iff n e y P hy hP]
    by_cases h1 : y = P
    · rw [if_pos h1, if_pos h1]
    · rw [if_neg h1, if_neg h1, if_neg (by omega)]
  · intro y hy
    simp only [place]
    rw [bit_set _ _ _ _ (by omega)]
    simp only [io_eq_iff n e y P hy hP]
    by_cases h1 : y = P
    · rw [if_pos h1, if_pos h1]
      by_cases h2 : P = D
      · simp [h2]
      · have : io n e P ≠ io n e D := fun h => h2 (io_inj n e P D hP hD h)
        simp [h2, this]
    · rw [if_neg h1, if_neg h1, if_neg (by omega)]
  · intro y hy
    simp only [place, remAt]
    rw [getD_set' _ _ _ _ _ (by omega)]
    simp only [io_eq_iff n e y P hy hP]
    by_cases h1 : y = P
    · rw [if_pos h1, if_pos h1]
    · rw [if_neg h1, if_neg h1, if_neg (by omega)]
  · intro y hy
    simp only [place]
    rw [bit_set _ _ _ _ (by omega)]
    simp only [io_eq_iff n e y D hy hD]

/-- `_shift_insert` at distance `P` when `P, …, P + k - 1` are in use and `P + k` is empty -/
theorem shiftInsert_desc (s : QF) (n e P k D rr orig : Nat) (flag : Bool) (hn : 0 < n)
    (hsz : s.size = n) (hlr : s.rem.length = n) (hlo : s.occ.length = n) (hlc : s.cont.length = n)
    (hls : s.shift.length = n) (hPk : P + k < n) (hD : D < n)
    (hne : ∀ y, P ≤ y → y < P + k → s.isEmpty (io n e y) = false)
    (hemp : s.isEmpty (io n e (P + k)) = true) :
    ∃ t, shiftInsert s (io n e D) rr orig (io n e P) flag = .ok t ∧
      Desc t s n e P k D rr (io n e P != orig) flag := by
  cases k with
  | zero =>
      simp only [Nat.add_zero] at hemp hPk
      refine ⟨s.place (io n e D) rr orig (io n e P), by simp [shiftInsert, hemp], ?_⟩
      have := place_desc s n e P D rr orig hn hlr hlo hlc hls hPk hD
      refine ⟨this.q, this.count, this.auto, this.lrem, this.locc, this.lcont, this.lshift, ?_,
        this.shift, this.rem, this.occ⟩
      intro y hy
      rw [this.cont y hy]
      by_cases h1 : y = P
      · rw [if_pos h1, if_pos h1]
      · rw [if_neg h1, if_neg h1, if_neg (by omega), if_neg (by omega)]
  | succ k =>
      have hneP := hne P (Nat.le_refl _) (by omega)
      have hempc : bit s.cont (io n e (P + (k + 1))) = false := by
        simp only [isEmpty, Bool.and_eq_true, Bool.not_eq_true'] at hemp
        exact hemp.1.2
      obtain ⟨t, ht, tq, tocc, tcount, tauto, tlr, tlc, tls, tc, tr, tsh⟩ :=
        shiftLoop_spec n e hn P k s (P + 1) s.fuelOf hsz hlr hlc hls (by omega) (by omega)
          (by simp only [fuelOf, hsz]; omega)
          (fun y h1 h2 => hne y (by omega) (by omega))
          (by rw [show P + 1 + k = P + (k + 1) by omega]; exact hemp)
      have hnx : s.nxt (io n e P) = io n e (P + 1) := nxt_io s n e P hsz
      have hsz' : t.size = n := by simp only [QF.size, tq]; exact hsz
      have hnx' : (t.place (io n e D) rr orig (io n e P)).nxt (io n e P) = io n e (P + 1) :=
        nxt_io _ n e P (by simp only [QF.size, place, tq]; exact hsz)
      have hpl := place_desc t n e P D rr orig hn tlr (by rw [tocc]; exact hlo) tlc tls (by omega) hD
      simp only [shiftInsert, hneP, Bool.false_eq_true, if_false, hnx, ht]
      refine ⟨_, rfl, ?_⟩
      have hioP1 : io n e (P + 1) < n := io_lt n e (P + 1) hn
      cases flag with
      | false =>
          simp only [Bool.false_eq_true, if_false]
          refine ⟨by rw [hpl.q, tq], by rw [hpl.count, tcount], by rw [hpl.auto, tauto],
            hpl.lrem, hpl.locc, hpl.lcont, hpl.lshift, ?_, ?_, ?_, ?_⟩
          · intro y hy
            rw [hpl.cont y hy]
            by_cases h1 : y = P
            · rw [if_pos h1, if_pos h1]
            · rw [if_neg h1, if_neg h1, if_neg (by omega), tc y hy, if_neg h1,
                show P + 1 + k = P + (k + 1) by omega]
              by_cases h2 : y = P + 1
              · rw [if_pos h2, if_pos (by omega), if_neg (by simp), h2, Nat.add_sub_cancel]
              · rw [if_neg h2]
                by_cases h3 : P + 1 < y ∧ y ≤ P + (k + 1)
                · rw [if_pos h3, if_pos (by omega), if_neg (by simp)]
                · rw [if_neg h3, if_neg (by omega)]
          · intro y hy
            rw [hpl.shift y hy]
            by_cases h1 : y = P
            · rw [if_pos h1, if_pos h1]
            · rw [if_neg h1, if_neg h1, if_neg (by omega), tsh y hy, show P + 1 + k = P + (k + 1) by omega]
              by_cases h3 : P + 1 ≤ y ∧ y ≤ P + (k + 1)
              · rw [if_pos h3, if_pos (by omega)]
              · rw [if_neg h3, if_neg (by omega)]
          · intro y hy
            rw [hpl.rem y hy]
            by_cases h1 : y = P
            · rw [if_pos h1, if_pos h1]
            · rw [if_neg h1, if_neg h1, if_neg (by omega), tr y hy, if_neg h1,
                show P + 1 + k = P + (k + 1) by omega]
              by_cases h2 : y = P + 1
              · rw [if_pos h2, if_pos (by omega), h2, Nat.add_sub_cancel]
              · rw [if_neg h2]
                by_cases h3 : P + 1 < y ∧ y ≤ P + (k + 1)
                · rw [if_pos h3, if_pos (by omega)]
                · rw [if_neg h3, if_neg (by omega)]
          · intro y hy
            rw [hpl.occ y hy, tocc]
      | true =>
          simp only [if_true, hnx']
          refine ⟨by rw [← tq]; exact hpl.q, by rw [← tcount]; exact hpl.count,
            by rw [← tauto]; exact hpl.auto, hpl.lrem, hpl.locc,
            by simp only [List.length_set]; exact hpl.lcont, hpl.lshift, ?_, ?_, ?_, ?_⟩
          · intro y hy
            simp only []
            rw [bit_set _ _ _ _ (by rw [hpl.lcont]; exact hioP1)]
            simp only [io_eq_iff n e y (P + 1) hy (by omega)]
            by_cases h2 : y = P + 1
            · rw [if_pos h2, if_neg (by omega), if_pos (by omega), if_pos ⟨h2, trivial⟩]
            · rw [if_neg h2, hpl.cont y hy]
              by_cases h1 : y = P
              · rw [if_pos h1, if_pos h1]
              · rw [if_neg h1, if_neg h1, if_neg (by omega), tc y hy, if_neg h1, if_neg h2,
                  show P + 1 + k = P + (k + 1) by omega]
                by_cases h3 : P + 1 < y ∧ y ≤ P + (k + 1)
                · rw [if_pos h3, if_pos (by omega), if_neg (by omega)]
                · rw [if_neg h3, if_neg (by omega)]
          · intro y hy
            show bit (t.place (io n e D) rr orig (io n e P)).shift (io n e y) = _
            rw [hpl.shift y hy]
            by_cases h1 : y = P
            · rw [if_pos h1, if_pos h1]
            · rw [if_neg h1, if_neg h1, if_neg (by omega), tsh y hy, show P + 1 + k = P + (k + 1) by omega]
              by_cases h3 : P + 1 ≤ y ∧ y ≤ P + (k + 1)
              · rw [if_pos h3, if_pos (by omega)]
              · rw [if_neg h3, if_neg (by omega)]
          · intro y hy
            show (t.place (io n e D) rr orig (io n e P)).remAt (io n e y) = _
            rw [hpl.rem y hy]
            by_cases h1 : y = P
            · rw [if_pos h1, if_pos h1]
            · rw [if_neg h1, if_neg h1, if_neg (by omega), tr y hy, if_neg h1,
                show P + 1 + k = P + (k + 1) by omega]
              by_cases h2 : y = P + 1
              · rw [if_pos h2, if_pos (by omega), h2, Nat.add_sub_cancel]
              · rw [if_neg h2]
                by_cases h3 : P + 1 < y ∧ y ≤ P + (k + 1)
                · rw [if_pos h3, if_pos (by omega)]
                · rw [if_neg h3, if_neg (by omega)]
          · intro y hy
            show bit (t.place (io n e D) rr orig (io n e P)).occ (io n e y) = _
            rw [hpl.occ y hy, tocc]

end PyProb.QFLin
