/-
  Expanding / rotating Bloom filters under the default hashing strategy: every `add` of the model
  is one step of the reference writer of `Spec/Layout.lean` (membership test over all sub-filters,
  growth / rotation, insertion into the newest sub-filter), and the writer's state stays small
  enough for every footer field.
-/
import PyProb.Lemmas.ReferenceBloom
import PyProb.Lemmas.WFOpsBloom

namespace PyProb

/-! ### expanding / rotating writers: the model's steps are the reference writer's steps -/

/-- the reference writer's view of a sub-filter -/
def absB (b : Bloom) : Spec.Sub := (b.count.toNat, b.bits)

/-- invariant of the sub-filters during a run -/
def SubsInv (est fpr32 k m : Nat) (bs : List Bloom) : Prop :=
  bs ≠ [] ∧ ∀ b ∈ bs, SubOK est fpr32 k m b ∧ 0 ≤ b.count

theorem bitOfFile_eq (arr : Bytes) (i : Nat) : Spec.bitOfFile arr i = testBitB arr i := by
  rw [testBitB_eq]; rfl

theorem sub_check (b : Bloom) (key : Key) :
    b.checkAlt (defaultFnv key b.k) = .ok (Spec.subHas b.k b.m key.units (absB b)) := by
  unfold Bloom.checkAlt
  rw [checkGo_all _ _ _ _ (by rw [C18.C18_len_default]; exact Nat.le_refl _)]
  rw [List.take_of_length_le (by rw [C18.C18_len_default]; exact Nat.le_refl _), defaultFnv_spec]
  unfold Spec.subHas Spec.bloomPositions absB
  rw [List.all_map, List.all_map]
  congr 2
  funext i
  simp only [Function.comp_def, bitOfFile_eq]

theorem checkGo_any (est fpr32 k m : Nat) (key : Key) (bs : List Bloom)
    (h : ∀ b ∈ bs, SubOK est fpr32 k m b) :
    Expanding.checkGo (defaultFnv key k) bs = .ok ((bs.map absB).any (Spec.subHas k m key.units)) := by
  induction bs with
  | nil => rfl
  | cons b bs ih =>
      obtain ⟨_, _, hk, hm, _⟩ := h b (by simp)
      have ih := ih (fun x hx => h x (List.mem_cons_of_mem _ hx))
      have hc := sub_check b key
      rw [hk, hm] at hc
      simp only [Expanding.checkGo, hc, List.map_cons, List.any_cons]
      cases Spec.subHas k m key.units (absB b)
      · simpa using ih
      · rfl

theorem sub_add (est fpr32 k m : Nat) (b : Bloom) (key : Key) (h : SubOK est fpr32 k m b) (hc : 0 ≤ b.count) :
    (b.addAlt (defaultFnv key k)).2 = none ∧
    absB (b.addAlt (defaultFnv key k)).1 = Spec.subAdd k m key.units (absB b) ∧
    SubOK est fpr32 k m (b.addAlt (defaultFnv key k)).1 ∧ 0 ≤ (b.addAlt (defaultFnv key k)).1.count := by
  have hok := SubOK_addAlt (defaultFnv key k) h
  obtain ⟨_, _, hk, hm, _⟩ := h
  have hlen : ¬ (defaultFnv key k).length < b.k := by rw [C18.C18_len_default, hk]; omega
  have hpos := positions_spec b key
  rw [hk, hm] at hpos
  unfold Bloom.addAlt at hok ⊢
  simp only [hlen, if_false] at hok ⊢
  refine ⟨trivial, ?_, hok, by omega⟩
  unfold absB Spec.subAdd
  simp only [hpos, foldl_setBit_spec]
  congr 1
  omega

theorem addToLast_abs (est fpr32 k m : Nat) (bs : List Bloom) (key : Key) (h : SubsInv est fpr32 k m bs) :
    (Expanding.addToLast bs (defaultFnv key k)).2 = none ∧
    (Expanding.addToLast bs (defaultFnv key k)).1.map absB = Spec.addNewest k m key.units (bs.map absB) ∧
    SubsInv est fpr32 k m (Expanding.addToLast bs (defaultFnv key k)).1 := by
  obtain ⟨hne, hall⟩ := h
  unfold Expanding.addToLast Spec.addNewest
  rw [List.getLast?_map]
  cases hl : bs.getLast? with
  | none => exact absurd (List.getLast?_eq_none_iff.mp hl) hne
  | some b =>
      have hb : b ∈ bs := List.mem_of_getLast? hl
      obtain ⟨hok, hc⟩ := hall b hb
      obtain ⟨s1, s2, s3, s4⟩ := sub_add est fpr32 k m b key hok hc
      simp only [Option.map_some]
      refine ⟨s1, ?_, by simp, ?_⟩
      · simp only [List.map_append, List.map_cons, List.map_nil, s2, List.map_dropLast]
      · intro x hx
        simp only [List.mem_append, List.mem_singleton] at hx
        rcases hx with hx | rfl
        · exact hall x (List.dropLast_subset _ hx)
        · exact ⟨s3, s4⟩

theorem absB_new (est fpr32 k m : Nat) : absB (Bloom.new est fpr32 k m) = Spec.freshSub m := by
  simp [absB, Bloom.new, Spec.freshSub, Bloom.lengthOf, Gen.bloomBitsPerElm]

theorem SubsInv_append_new {est fpr32 k m : Nat} {bs : List Bloom} (h : ∀ b ∈ bs, SubOK est fpr32 k m b ∧ 0 ≤ b.count) :
    SubsInv est fpr32 k m (bs ++ [Bloom.new est fpr32 k m]) := by
  refine ⟨by simp, ?_⟩
  intro x hx
  simp only [List.mem_append, List.mem_singleton] at hx
  rcases hx with hx | rfl
  · exact h x hx
  · exact ⟨SubOK_new _ _ _ _, by simp [Bloom.new]⟩

/-- growth of the expanding filter -/
theorem grow_abs (e : Expanding) (h : SubsInv e.est e.fpr32 e.k e.m e.blooms) :
    e.grow.blooms.map absB = Spec.growExpanding e.est e.m (e.blooms.map absB) ∧
    SubsInv e.est e.fpr32 e.k e.m e.grow.blooms ∧
    e.grow.est = e.est ∧ e.grow.fpr32 = e.fpr32 ∧ e.grow.k = e.k ∧ e.grow.m = e.m ∧ e.grow.added = e.added := by
  obtain ⟨hne, hall⟩ := h
  unfold Expanding.grow Spec.growExpanding
  rw [List.getLast?_map]
  cases hl : e.blooms.getLast? with
  | none => exact absurd (List.getLast?_eq_none_iff.mp hl) hne
  | some b =>
      have hb : b ∈ e.blooms := List.mem_of_getLast? hl
      obtain ⟨_, hc⟩ := hall b hb
      simp only [Option.map_some, Gen.expGrowCmp, Cmp.evalInt, decide_eq_true_eq, absB]
      by_cases hg : b.count ≥ (e.est : Int)
      · rw [if_pos hg, if_pos (by omega)]
        refine ⟨?_, SubsInv_append_new hall, rfl, rfl, rfl, rfl, rfl⟩
        simp only [List.map_append, List.map_cons, List.map_nil, Expanding.fresh]
        rw [absB_new]
      · rw [if_neg hg, if_neg (by omega)]
        exact ⟨rfl, ⟨hne, hall⟩, rfl, rfl, rfl, rfl, rfl⟩

/-- the reference writer's view of an expanding filter -/
def absE (e : Expanding) : List Spec.Sub × Nat := (e.blooms.map absB, e.added.toNat)

theorem expanding_step (e : Expanding) (key : Key)
    (h : SubsInv e.est e.fpr32 e.k e.m e.blooms) (ha : 0 ≤ e.added) :
    let e' := (e.addAlt (defaultFnv key e.k) false).1
    absE e' = Spec.addStep (Spec.growExpanding e.est e.m) e.k e.m (absE e) key.units ∧
    SubsInv e'.est e'.fpr32 e'.k e'.m e'.blooms ∧ 0 ≤ e'.added ∧
    e'.est = e.est ∧ e'.fpr32 = e.fpr32 ∧ e'.k = e.k ∧ e'.m = e.m := by
  have hchk : e.checkAlt (defaultFnv key e.k) = .ok ((e.blooms.map absB).any (Spec.subHas e.k e.m key.units)) :=
    checkGo_any e.est e.fpr32 e.k e.m key e.blooms (fun b hb => (h.2 b hb).1)
  unfold Expanding.addAlt
  simp only [Bool.false_eq_true, if_false, hchk]
  unfold Expanding.addCore Spec.addStep absE
  simp only [Bool.false_or]
  cases hp : (e.blooms.map absB).any (Spec.subHas e.k e.m key.units)
  · -- not present: grow, then add to the newest
    simp only [Bool.not_false, if_true, Bool.false_eq_true, if_false]
    obtain ⟨g1, g2, g3, g4, g5, g6, g7⟩ := grow_abs { e with added := e.added + 1 } h
    simp only at g1 g2 g3 g4 g5 g6 g7
    obtain ⟨a1, a2, a3⟩ := addToLast_abs e.est e.fpr32 e.k e.m _ key g2
    refine ⟨?_, ?_, ?_, g3, g4, g5, g6⟩
    · simp only [a2, g1, g7]
      congr 1; omega
    · simp only [g3, g4, g5, g6]; exact a3
    · simp only [g7]; omega
  · simp only [Bool.not_true, Bool.false_eq_true, if_false, if_true]
    refine ⟨?_, h, by omega, trivial, trivial, trivial, trivial⟩
    congr 1; omega

/-- rotation of the rotating filter -/
theorem rotate_abs (r : Rotating) (q : Nat) (hq : r.q = (q : Int)) (h : SubsInv r.est r.fpr32 r.k r.m r.blooms) :
    (r.rotate false).blooms.map absB = Spec.growRotating r.est q r.m (r.blooms.map absB) ∧
    SubsInv r.est r.fpr32 r.k r.m (r.rotate false).blooms ∧
    (r.rotate false).est = r.est ∧ (r.rotate false).fpr32 = r.fpr32 ∧ (r.rotate false).k = r.k ∧
    (r.rotate false).m = r.m ∧ (r.rotate false).added = r.added ∧ (r.rotate false).q = r.q := by
  obtain ⟨hne, hall⟩ := h
  unfold Rotating.rotate Spec.growRotating
  rw [List.getLast?_map]
  cases hl : r.blooms.getLast? with
  | none => exact absurd (List.getLast?_eq_none_iff.mp hl) hne
  | some b =>
      have hb : b ∈ r.blooms := List.mem_of_getLast? hl
      obtain ⟨⟨hest, _⟩, hc⟩ := hall b hb
      simp only [Option.map_some, Gen.rotReadyCmp, Gen.rotRoomCmp, Cmp.evalInt, Bool.false_and, Bool.false_eq_true,
        if_false, absB, List.length_map, hq, hest, beq_iff_eq, Bool.and_eq_true, decide_eq_true_eq]
      have hdrop : ∀ x ∈ r.blooms.drop 1, SubOK r.est r.fpr32 r.k r.m x ∧ 0 ≤ x.count :=
        fun x hx => hall x (List.mem_of_mem_drop hx)
      by_cases hready : b.count = (r.est : Int)
      · have hr' : b.count.toNat = r.est := by omega
        by_cases hroom : (r.blooms.length : Int) < (q : Int)
        · rw [if_pos ⟨hready, hroom⟩, if_pos hr', if_pos (by omega)]
          refine ⟨?_, SubsInv_append_new hall, rfl, rfl, rfl, rfl, rfl, (by first | rfl | exact hq)⟩
          simp only [List.map_append, List.map_cons, List.map_nil, Expanding.fresh]
          rw [absB_new]
        · rw [if_neg (by intro hh; exact hroom hh.2), if_pos hready, if_pos hr', if_neg (by omega)]
          refine ⟨?_, SubsInv_append_new hdrop, rfl, rfl, rfl, rfl, rfl, (by first | rfl | exact hq)⟩
          simp only [List.map_append, List.map_cons, List.map_nil, Expanding.fresh, List.map_drop]
          rw [absB_new]
      · have hr' : ¬ b.count.toNat = r.est := by omega
        rw [if_neg (by intro hh; exact hready hh.1), if_neg hready, if_neg hr']
        exact ⟨rfl, ⟨hne, hall⟩, rfl, rfl, rfl, rfl, rfl, (by first | rfl | exact hq)⟩

/-- the reference writer's view of a rotating filter -/
def absR (r : Rotating) : List Spec.Sub × Nat := absE r.toExpanding

theorem rotating_step (r : Rotating) (q : Nat) (hq : r.q = (q : Int)) (key : Key)
    (h : SubsInv r.est r.fpr32 r.k r.m r.blooms) (ha : 0 ≤ r.added) :
    let r' := (r.addAlt (defaultFnv key r.k) false).1
    absR r' = Spec.addStep (Spec.growRotating r.est q r.m) r.k r.m (absR r) key.units ∧
    SubsInv r'.est r'.fpr32 r'.k r'.m r'.blooms ∧ 0 ≤ r'.added ∧
    r'.est = r.est ∧ r'.fpr32 = r.fpr32 ∧ r'.k = r.k ∧ r'.m = r.m ∧ r'.q = r.q := by
  have hchk : r.toExpanding.checkAlt (defaultFnv key r.k) =
      .ok ((r.blooms.map absB).any (Spec.subHas r.k r.m key.units)) :=
    checkGo_any r.est r.fpr32 r.k r.m key r.blooms (fun b hb => (h.2 b hb).1)
  unfold Rotating.addAlt
  simp only [Bool.false_eq_true, if_false, hchk]
  unfold Rotating.addCore Spec.addStep absR absE
  simp only [Bool.false_or]
  cases hp : (r.blooms.map absB).any (Spec.subHas r.k r.m key.units)
  · simp only [Bool.not_false, if_true, Bool.false_eq_true, if_false]
    obtain ⟨g1, g2, g3, g4, g5, g6, g7, g8⟩ :=
      rotate_abs { r with added := r.added + 1 } q hq h
    simp only at g1 g2 g3 g4 g5 g6 g7 g8
    obtain ⟨a1, a2, a3⟩ := addToLast_abs r.est r.fpr32 r.k r.m _ key g2
    refine ⟨?_, ?_, ?_, g3, g4, g5, g6, g8⟩
    · simp only [a2, g1, g7]
      congr 1; omega
    · simp only [g3, g4, g5, g6]; exact a3
    · simp only [g7]; omega
  · simp only [Bool.not_true, Bool.false_eq_true, if_false, if_true]
    refine ⟨?_, h, by omega, trivial, trivial, trivial, trivial, trivial⟩
    congr 1; omega

/-! ### whole runs -/

theorem expanding_run (est fpr32 k m : Nat) (keys : List Key) (e0 : Expanding)
    (h1 : e0.est = est) (h2 : e0.fpr32 = fpr32) (h3 : e0.k = k) (h4 : e0.m = m)
    (h : SubsInv est fpr32 k m e0.blooms) (ha : 0 ≤ e0.added) :
    let e := keys.foldl (fun e key => (e.addAlt (defaultFnv key k) false).1) e0
    absE e = (keys.map Key.units).foldl (Spec.addStep (Spec.growExpanding est m) k m) (absE e0) ∧
    SubsInv est fpr32 k m e.blooms ∧ 0 ≤ e.added ∧ e.est = est ∧ e.fpr32 = fpr32 := by
  induction keys generalizing e0 with
  | nil => exact ⟨rfl, h, ha, h1, h2⟩
  | cons key keys ih =>
      simp only [List.foldl_cons, List.map_cons]
      subst h1 h2 h3 h4
      obtain ⟨s1, s2, s3, s4, s5, s6, s7⟩ := expanding_step e0 key h ha
      have := ih (e0.addAlt (defaultFnv key e0.k) false).1 s4 s5 s6 s7 (by rw [s4, s5, s6, s7] at s2; exact s2) s3
      rw [s1] at this
      exact this

theorem rotating_run (est fpr32 k m q : Nat) (keys : List Key) (r0 : Rotating)
    (h1 : r0.est = est) (h2 : r0.fpr32 = fpr32) (h3 : r0.k = k) (h4 : r0.m = m) (hq : r0.q = (q : Int))
    (h : SubsInv est fpr32 k m r0.blooms) (ha : 0 ≤ r0.added) :
    let r := keys.foldl (fun r key => (r.addAlt (defaultFnv key k) false).1) r0
    absR r = (keys.map Key.units).foldl (Spec.addStep (Spec.growRotating est q m) k m) (absR r0) ∧
    SubsInv est fpr32 k m r.blooms ∧ 0 ≤ r.added ∧ r.est = est ∧ r.fpr32 = fpr32 := by
  induction keys generalizing r0 with
  | nil => exact ⟨rfl, h, ha, h1, h2⟩
  | cons key keys ih =>
      simp only [List.foldl_cons, List.map_cons]
      subst h1 h2 h3 h4
      obtain ⟨s1, s2, s3, s4, s5, s6, s7, s8⟩ := rotating_step r0 q hq key h ha
      have := ih (r0.addAlt (defaultFnv key r0.k) false).1 s4 s5 s6 s7 (by rw [s8]; exact hq)
        (by rw [s4, s5, s6, s7] at s2; exact s2) s3
      rw [s1] at this
      exact this

/-! ### size bounds of the reference writer's state (so that every field fits) -/

/-- a growth function adds at most one fresh sub-filter and otherwise keeps (a part of) the list -/
def GrowOK (m : Nat) (grow : List Spec.Sub → List Spec.Sub) : Prop :=
  ∀ subs, (∀ s ∈ grow subs, s ∈ subs ∨ s = Spec.freshSub m) ∧ (grow subs).length ≤ subs.length + 1

theorem growExpanding_ok (est m : Nat) : GrowOK m (Spec.growExpanding est m) := by
  intro subs
  unfold Spec.growExpanding
  cases subs.getLast? with
  | none => exact ⟨fun s hs => Or.inl hs, Nat.le_succ _⟩
  | some s =>
      simp only
      split
      · refine ⟨fun x hx => ?_, by simp⟩
        simp only [List.mem_append, List.mem_singleton] at hx
        exact hx
      · exact ⟨fun s hs => Or.inl hs, Nat.le_succ _⟩

theorem growRotating_ok (est q m : Nat) : GrowOK m (Spec.growRotating est q m) := by
  intro subs
  unfold Spec.growRotating
  cases subs.getLast? with
  | none => exact ⟨fun s hs => Or.inl hs, Nat.le_succ _⟩
  | some s =>
      simp only
      split
      · split
        · refine ⟨fun x hx => ?_, by simp⟩
          simp only [List.mem_append, List.mem_singleton] at hx
          exact hx
        · refine ⟨fun x hx => ?_, by simp⟩
          simp only [List.mem_append, List.mem_singleton] at hx
          rcases hx with hx | hx
          · exact Or.inl (List.mem_of_mem_drop hx)
          · exact Or.inr hx
      · exact ⟨fun s hs => Or.inl hs, Nat.le_succ _⟩

theorem addStep_bound (m : Nat) (grow : List Spec.Sub → List Spec.Sub) (hg : GrowOK m grow) (k : Nat)
    (keys : List (List Nat)) (st : List Spec.Sub × Nat)
    (h : (∀ s ∈ st.1, s.1 ≤ st.2) ∧ st.1.length ≤ st.2 + 1) :
    let st' := keys.foldl (Spec.addStep grow k m) st
    (∀ s ∈ st'.1, s.1 ≤ st'.2) ∧ st'.1.length ≤ st'.2 + 1 ∧ st'.2 = st.2 + keys.length := by
  induction keys generalizing st with
  | nil => exact ⟨h.1, h.2, rfl⟩
  | cons key keys ih =>
      simp only [List.foldl_cons, List.length_cons]
      have hstep : (∀ s ∈ (Spec.addStep grow k m st key).1, s.1 ≤ (Spec.addStep grow k m st key).2) ∧
          (Spec.addStep grow k m st key).1.length ≤ (Spec.addStep grow k m st key).2 + 1 ∧
          (Spec.addStep grow k m st key).2 = st.2 + 1 := by
        unfold Spec.addStep
        split
        · exact ⟨fun s hs => Nat.le_succ_of_le (h.1 s hs), by simp only; omega, rfl⟩
        · obtain ⟨g1, g2⟩ := hg st.1
          have hgb : ∀ s ∈ grow st.1, s.1 ≤ st.2 := by
            intro s hs
            rcases g1 s hs with hs | rfl
            · exact h.1 s hs
            · simp [Spec.freshSub]
          simp only
          unfold Spec.addNewest
          cases hl : (grow st.1).getLast? with
          | none => exact ⟨fun s hs => Nat.le_succ_of_le (hgb s hs), by simp only; omega, trivial⟩
          | some l =>
              have hlm : l ∈ grow st.1 := List.mem_of_getLast? hl
              refine ⟨?_, ?_, trivial⟩
              · intro s hs
                simp only [List.mem_append, List.mem_singleton] at hs
                rcases hs with hs | rfl
                · exact Nat.le_succ_of_le (hgb s (List.dropLast_subset _ hs))
                · simp only [Spec.subAdd]; have := hgb l hlm; omega
              · have hne : grow st.1 ≠ [] := List.ne_nil_of_mem hlm
                have : 0 < (grow st.1).length := List.length_pos_iff.mpr hne
                simp only [List.length_append, List.length_dropLast, List.length_singleton]
                omega
      obtain ⟨i1, i2, i3⟩ := ih (Spec.addStep grow k m st key) ⟨hstep.1, hstep.2.1⟩
      exact ⟨i1, i2, by rw [i3, hstep.2.2]; omega⟩

end PyProb
