/-
  `_contained_at_loc` on a table in the linear view returns the slot of the element that is
  looked up (the read lemma `QFLin.containedAtLoc_lin` only says that it finds something).
-/
import PyProb.Lemmas.QFExtRemove

namespace PyProb.QFRem
open PyProb PyProb.QF PyProb.QFLin PyProb.Spec

section find
variable {s : QF} {n e m : Nat} {d r : Nat → Nat}

theorem run_rem_lt (L : Lin s n e m d r) (f j : Nat) (hj : j < m)
    (hgrp : ∀ k, f ≤ k → k ≤ j → d k = d f) : ∀ k, f ≤ k → k < j → r k < r j := by
  intro k h1 h2
  induction j with
  | zero => omega
  | succ j ih =>
      have hso := L.sorted j (by omega)
      have e1 := hgrp j (by omega) (by omega)
      have e2 := hgrp (j + 1) (by omega) (by omega)
      by_cases hk : k = j
      · subst hk; omega
      · have := ih (by omega) (fun k' h3 h4 => hgrp k' h3 (by omega)) (by omega)
        omega

theorem containedLoop_find (L : Lin s n e m d r) (f j : Nat) (hj : j < m)
    (hgrp : ∀ k, f ≤ k → k ≤ j → d k = d f) (hncf : contF d f = false) :
    ∀ t k fuel, j = k + t → f ≤ k → t < fuel →
      containedLoop s (r j) fuel (io n e (posF d k)) (if k = f then 0 else 1) =
        .ok (some (io n e (posF d j))) := by
  intro t
  induction t with
  | zero =>
      intro k fuel hk hfk hfu
      simp only [Nat.add_zero] at hk
      subst hk
      obtain ⟨fuel, rfl⟩ : ∃ f', fuel = f' + 1 := ⟨fuel - 1, by omega⟩
      have hce := isEmpty_cell L j hj
      have hcb := cont_cell L j hj
      have hrem := L.rem j hj
      have hstarts : (if (!bit s.cont (io n e (posF d j))) = true then (if j = f then 0 else 1) + 1
          else (if j = f then 0 else 1)) = 1 := by
        rw [hcb]
        by_cases hgf : j = f
        · subst hgf; simp [hncf]
        · have : contF d j = true := by
            simp only [contF, Bool.and_eq_true, decide_eq_true_eq]
            refine ⟨by omega, ?_⟩
            rw [hgrp j (by omega) (Nat.le_refl _), hgrp (j - 1) (by omega) (by omega)]
          simp [this, hgf]
      simp only [containedLoop, hce, Bool.false_eq_true, if_false, hstarts, hrem]
      simp
  | succ t ih =>
      intro k fuel hk hfk hfu
      obtain ⟨fuel, rfl⟩ : ∃ f', fuel = f' + 1 := ⟨fuel - 1, by omega⟩
      have hkm : k < m := by omega
      have hce := isEmpty_cell L k hkm
      have hcb := cont_cell L k hkm
      have hrem := L.rem k hkm
      have hstarts : (if (!bit s.cont (io n e (posF d k))) = true then (if k = f then 0 else 1) + 1
          else (if k = f then 0 else 1)) = 1 := by
        rw [hcb]
        by_cases hgf : k = f
        · subst hgf; simp [hncf]
        · have : contF d k = true := by
            simp only [contF, Bool.and_eq_true, decide_eq_true_eq]
            refine ⟨by omega, ?_⟩
            rw [hgrp k (by omega) (by omega), hgrp (k - 1) (by omega) (by omega)]
          simp [this, hgf]
      have hlt := run_rem_lt L f j hj hgrp k hfk (by omega)
      simp only [containedLoop, hce, Bool.false_eq_true, if_false, hstarts, hrem]
      have hgt : ¬ (r k > r j) := by omega
      have hbeq : (r k == r j) = false := by simp; omega
      have hnext := nxt_io s n e (posF d k) L.size
      simp only [show ((1 : Nat) == 2) = false from rfl, Bool.false_or, decide_eq_true_eq, hgt,
        if_false, hbeq, Bool.false_eq_true, hnext]
      have hp1 : posF d (k + 1) = posF d k + 1 := by
        apply p_shifted
        have e1 := hgrp k hfk (by omega)
        have e2 := hgrp (k + 1) (by omega) (by omega)
        have := p_ge_d d k
        have := p_step d k
        omega
      rw [← hp1]
      have := ih (k + 1) fuel (by omega) (by omega) (by omega)
      rw [if_neg (by omega)] at this
      exact this

/-- the look-up of a stored element returns its slot -/
theorem contained_find (L : Lin s n e m d r) (j : Nat) (hj : j < m) :
    s.containedAtLoc (io n e (d j)) (r j) = .ok (some (io n e (posF d j))) := by
  have hdjn : d j < n := by have := p_ge_d d j; have := pos_lt L j hj; omega
  have ho : bit s.occ (io n e (d j)) = true := (L.occ _ hdjn).2 ⟨j, hj, rfl⟩
  obtain ⟨f, hfj, hdf, hfmin⟩ := exists_first (fun k => d k = d j) j rfl
  have hfm : f < m := by omega
  have hgrp : ∀ k, f ≤ k → k ≤ j → d k = d f := by
    intro k h1 h2
    have := d_mono L f k h1 (by omega)
    have := d_mono L k j h2 hj
    omega
  have hstart := getStartIndex_lin L f hfm (by intro k hk; rw [hdf]; exact hfmin k hk)
  rw [hdf] at hstart
  have hncf : contF d f = false := by
    simp only [contF, Bool.and_eq_false_iff, decide_eq_false_iff_not]
    by_cases hf0 : f = 0
    · left; omega
    · right; intro heq; exact hfmin (f - 1) (by omega) (by rw [← heq]; exact hdf)
  have hlen : j - f ≤ n := by
    have := p_mono d f j (by omega)
    have := pos_lt L j hj
    omega
  have hloop := containedLoop_find L f j hj hgrp hncf (j - f) f s.fuelOf (by omega)
    (Nat.le_refl _) (by simp only [fuelOf, L.size]; omega)
  simp only [if_true] at hloop
  simp only [containedAtLoc, ho, Bool.not_true, Bool.false_eq_true, if_false, hstart, hloop]

end find
end PyProb.QFRem
