/-
  Step-level lemmas on the expanding Bloom filter model (`Model/Expanding.lean`, structure
  `Expanding`): the guards, `addToLast`, the effect of one `addCore` on the queue of sub-filters,
  the invariants `Expanding.Inv` / `Expanding.Geo` / `Expanding.Shape` and their preservation,
  membership over the queue.  Used by C09 and (through `RotatingCore`) C10.  Core Lean only.
-/
import PyProb.Lemmas.GuardCanon
import PyProb.Model.Expanding
import PyProb.Lemmas.BloomOps

namespace PyProb

/-! ### the comparison guards taken from the repository -/

theorem expGrow_eval (a b : Int) : Gen.expGrowCmp.evalInt a b = decide (a ≥ b) := rfl
theorem rotReady_eval (a b : Int) : Gen.rotReadyCmp.evalInt a b = (a == b) := rfl
theorem rotRoom_eval (a b : Int) : Gen.rotRoomCmp.evalInt a b = decide (a < b) := rfl

/-! ### one sub-filter -/

/-- geometry of a sub-filter: `m > 0` bits stored in `ceil(m/8)` bytes -/
def Bloom.GeoOK (m : Nat) (b : Bloom) : Prop := b.m = m ∧ b.bits.length = (m + 7) / 8

theorem Bloom.geoOK_new (est fpr32 k m : Nat) : (Bloom.new est fpr32 k m).GeoOK m := by
  simp [Bloom.GeoOK, Bloom.new, Bloom.lengthOf_eq]

theorem Bloom.geoOK_addAlt (m : Nat) (b : Bloom) (hs : List Nat) (h : b.GeoOK m) :
    (b.addAlt hs).1.GeoOK m := by
  refine ⟨by rw [Bloom.addAlt_m]; exact h.1, ?_⟩
  rw [Bloom.addAlt_bits, foldl_setBitB_length]; exact h.2

/-- a key is present right after it was inserted -/
theorem Bloom.check_addAlt_self (m : Nat) (b : Bloom) (hs : List Nat) (hm : 0 < m) (hg : b.GeoOK m)
    (hk : b.k ≤ hs.length) : (b.addAlt hs).1.checkAlt hs = .ok true := by
  obtain ⟨h1, h2⟩ := hg
  subst h1
  unfold Bloom.checkAlt
  rw [Bloom.checkGo_true_iff, Bloom.addAlt_k, Bloom.addAlt_m]
  refine ⟨hk, fun h hh => ?_⟩
  rw [Bloom.testBitB_addAlt b hs _ h2 hm]
  have : h % b.m ∈ b.positions hs := by
    simp only [Bloom.positions, List.mem_map]; exact ⟨h, hh, rfl⟩
  simp [this]

/-- insertions never remove a key from a sub-filter -/
theorem Bloom.check_addAlt_mono (m : Nat) (b : Bloom) (hs hs' : List Nat) (hm : 0 < m)
    (hg : b.GeoOK m) (hc : b.checkAlt hs = .ok true) : (b.addAlt hs').1.checkAlt hs = .ok true := by
  obtain ⟨h1, h2⟩ := hg
  subst h1
  unfold Bloom.checkAlt at hc ⊢
  rw [Bloom.checkGo_true_iff] at hc
  rw [Bloom.checkGo_true_iff, Bloom.addAlt_k, Bloom.addAlt_m]
  refine ⟨hc.1, fun h hh => ?_⟩
  rw [Bloom.testBitB_addAlt b hs' _ h2 hm, hc.2 h hh]; simp

/-- `b'` is `b0` after zero or more further insertions (nothing else happened to it) -/
def Bloom.Ext (b0 b' : Bloom) : Prop :=
  ∃ hss : List (List Nat), b' = hss.foldl (fun b h => (b.addAlt h).1) b0

theorem Bloom.Ext.refl (b : Bloom) : Bloom.Ext b b := ⟨[], rfl⟩

theorem Bloom.Ext.step {b0 b' : Bloom} (h : Bloom.Ext b0 b') (hs : List Nat) :
    Bloom.Ext b0 (b'.addAlt hs).1 := by
  obtain ⟨hss, rfl⟩ := h
  exact ⟨hss ++ [hs], by simp [List.foldl_append]⟩

theorem Bloom.Ext.check {b0 b' : Bloom} (h : Bloom.Ext b0 b') (m : Nat) (hm : 0 < m)
    (hg : b0.GeoOK m) (hs : List Nat) (hc : b0.checkAlt hs = .ok true) :
    b'.checkAlt hs = .ok true := by
  obtain ⟨hss, rfl⟩ := h
  induction hss generalizing b0 with
  | nil => exact hc
  | cons x xs ih =>
      exact ih (Bloom.geoOK_addAlt m b0 x hg) (Bloom.check_addAlt_mono m b0 hs x hm hg hc)

theorem Bloom.Ext.k {b0 b' : Bloom} (h : Bloom.Ext b0 b') : b'.k = b0.k := by
  obtain ⟨hss, rfl⟩ := h
  induction hss generalizing b0 with
  | nil => rfl
  | cons x xs ih => rw [List.foldl_cons, ih, Bloom.addAlt_k]

namespace Expanding

/-! ### membership over the queue -/

/-- with a long enough hash list the membership test never raises -/
theorem checkGo_total (hs : List Nat) (bs : List Bloom) (hk : ∀ b ∈ bs, b.k ≤ hs.length) :
    ∃ p, checkGo hs bs = .ok p := by
  induction bs with
  | nil => exact ⟨false, rfl⟩
  | cons b bs ih =>
      have hb : b.checkAlt hs = .ok ((hs.take b.k).all fun h => testBitB b.bits (h % b.m)) :=
        Bloom.checkGo_ok _ _ _ _ (hk b (by simp))
      obtain ⟨p, hp⟩ := ih (fun c hc => hk c (by simp [hc]))
      unfold checkGo
      rw [hb]
      cases (hs.take b.k).all fun h => testBitB b.bits (h % b.m)
      · exact ⟨p, hp⟩
      · exact ⟨true, rfl⟩

/-- membership in one sub-filter is membership in the queue -/
theorem checkGo_of_mem (hs : List Nat) (bs : List Bloom) (hk : ∀ b ∈ bs, b.k ≤ hs.length)
    (b' : Bloom) (hb' : b' ∈ bs) (hc : b'.checkAlt hs = .ok true) : checkGo hs bs = .ok true := by
  induction bs with
  | nil => simp at hb'
  | cons b bs ih =>
      have hb : b.checkAlt hs = .ok ((hs.take b.k).all fun h => testBitB b.bits (h % b.m)) :=
        Bloom.checkGo_ok _ _ _ _ (hk b (by simp))
      unfold checkGo
      rcases List.mem_cons.mp hb' with rfl | hm
      · rw [hc]
      · rw [hb]
        cases (hs.take b.k).all fun h => testBitB b.bits (h % b.m)
        · exact ih (fun c hc => hk c (by simp [hc])) hm
        · rfl

/-- the queue answers present only if some sub-filter does -/
theorem checkGo_true_mem (hs : List Nat) (bs : List Bloom) (h : checkGo hs bs = .ok true) :
    ∃ b ∈ bs, b.checkAlt hs = .ok true := by
  induction bs with
  | nil => simp [checkGo] at h
  | cons b bs ih =>
      unfold checkGo at h
      split at h
      · cases h
      · exact ⟨b, by simp, by assumption⟩
      · obtain ⟨c, hc, hcc⟩ := ih h
        exact ⟨c, by simp [hc], hcc⟩

/-! ### `addToLast`, `fresh` -/

theorem addToLast_concat (init : List Bloom) (z : Bloom) (hs : List Nat) :
    addToLast (init ++ [z]) hs = (init ++ [(z.addAlt hs).1], (z.addAlt hs).2) := by
  simp [addToLast]

theorem fresh_count (e : Expanding) : e.fresh.count = 0 := rfl
theorem fresh_k (e : Expanding) : e.fresh.k = e.k := rfl
theorem fresh_est (e : Expanding) : e.fresh.est = e.est := rfl
theorem fresh_geo (e : Expanding) : e.fresh.GeoOK e.m := Bloom.geoOK_new _ _ _ _

/-- every non-empty queue has a newest sub-filter -/
theorem exists_concat {α} (l : List α) (h : l ≠ []) : ∃ init z, l = init ++ [z] := by
  rcases List.eq_nil_or_concat l with h' | ⟨init, z, h'⟩
  · exact absurd h' h
  · exact ⟨init, z, by simpa using h'⟩

/-! ### one `addCore`: the fields that do not depend on the queue -/

theorem grow_static (e : Expanding) :
    e.grow.est = e.est ∧ e.grow.fpr32 = e.fpr32 ∧ e.grow.k = e.k ∧ e.grow.m = e.m ∧
    e.grow.added = e.added := by
  unfold grow
  split
  · simp
  · split <;> simp

theorem addCore_static (e : Expanding) (p : Bool) (hs : List Nat) (f : Bool) :
    (e.addCore p hs f).1.est = e.est ∧ (e.addCore p hs f).1.fpr32 = e.fpr32 ∧
    (e.addCore p hs f).1.k = e.k ∧ (e.addCore p hs f).1.m = e.m ∧
    (e.addCore p hs f).1.added = e.added + 1 := by
  have := grow_static { e with added := e.added + 1 }
  simp only [addCore]
  split
  · simpa using this
  · simp

/-- a suppressed duplicate leaves the queue alone and raises nothing -/
theorem addCore_noeff (e : Expanding) (p : Bool) (hs : List Nat) (f : Bool)
    (h : (f || !p) = false) :
    (e.addCore p hs f).1.blooms = e.blooms ∧ (e.addCore p hs f).2 = none := by
  simp [addCore, h]

/-- an effective insertion: grow iff the newest sub-filter is full, then insert into the newest -/
theorem addCore_blooms_eff (e : Expanding) (init : List Bloom) (z : Bloom)
    (p : Bool) (hs : List Nat) (f : Bool)
    (hb : e.blooms = init ++ [z]) (h : (f || !p) = true) :
    (e.addCore p hs f).1.blooms =
      if (e.est : Int) ≤ z.count then init ++ [z] ++ [(e.fresh.addAlt hs).1]
      else init ++ [(z.addAlt hs).1] := by
  unfold addCore grow
  simp only [h, hb, if_true, List.getLast?_concat, expGrow_eval]
  split
  · rename_i hc
    have hc' : (e.est : Int) ≤ z.count := by simpa using hc
    simp only [hc', if_true]
    rw [addToLast_concat]; rfl
  · rename_i hc
    have hc' : ¬ (e.est : Int) ≤ z.count := by simpa using hc
    simp only [hc', if_false]
    rw [addToLast_concat]

theorem addCore_err_eff (e : Expanding) (init : List Bloom) (z : Bloom)
    (p : Bool) (hs : List Nat) (f : Bool)
    (hb : e.blooms = init ++ [z]) (h : (f || !p) = true) :
    (e.addCore p hs f).2 =
      if (e.est : Int) ≤ z.count then (e.fresh.addAlt hs).2 else (z.addAlt hs).2 := by
  unfold addCore grow
  simp only [h, hb, if_true, List.getLast?_concat, expGrow_eval]
  split
  · rename_i hc
    have hc' : (e.est : Int) ≤ z.count := by simpa using hc
    simp only [hc', if_true]
    rw [addToLast_concat]; rfl
  · rename_i hc
    have hc' : ¬ (e.est : Int) ≤ z.count := by simpa using hc
    simp only [hc', if_false]
    rw [addToLast_concat]

/-! ### invariants -/

/-- C09 invariant: at least one sub-filter, every sub-filter holds between 0 and `est` insertions
    and uses the filter's number of hashes -/
def Inv (e : Expanding) : Prop :=
  1 ≤ e.est ∧ e.blooms ≠ [] ∧ ∀ b ∈ e.blooms, 0 ≤ b.count ∧ b.count ≤ e.est ∧ b.k = e.k

/-- geometry invariant (only needed for statements about membership) -/
def Geo (e : Expanding) : Prop := 0 < e.m ∧ ∀ b ∈ e.blooms, b.GeoOK e.m

theorem inv_new (est fpr32 k m : Nat) (h : 1 ≤ est) : (Expanding.new est fpr32 k m).Inv := by
  refine ⟨h, by simp [Expanding.new], ?_⟩
  intro b hb
  simp only [Expanding.new, List.mem_singleton] at hb
  subst hb
  simp [Expanding.new, Bloom.new]

theorem geo_new (est fpr32 k m : Nat) (h : 0 < m) : (Expanding.new est fpr32 k m).Geo := by
  refine ⟨h, ?_⟩
  intro b hb
  simp only [Expanding.new, List.mem_singleton] at hb
  subst hb
  exact Bloom.geoOK_new _ _ _ _

/-- a per-filter predicate that holds of fresh filters and survives insertions survives `addCore` -/
theorem addCore_forall (P : Bloom → Prop) (e : Expanding) (p : Bool) (hs : List Nat) (f : Bool)
    (hne : e.blooms ≠ [])
    (hadd : ∀ b hs, P b → P (b.addAlt hs).1) (hfresh : P e.fresh)
    (h : ∀ b ∈ e.blooms, P b) : ∀ b ∈ (e.addCore p hs f).1.blooms, P b := by
  cases hf : (f || !p)
  · rw [(addCore_noeff e p hs f hf).1]; exact h
  · obtain ⟨init, z, hb⟩ := exists_concat e.blooms hne
    rw [addCore_blooms_eff e init z p hs f hb hf]
    rw [hb] at h
    intro b
    split
    · intro hm
      simp only [List.mem_append, List.mem_singleton] at hm
      rcases hm with (hm | rfl) | rfl
      · exact h b (by simp [hm])
      · exact h b (by simp)
      · exact hadd _ _ hfresh
    · intro hm
      simp only [List.mem_append, List.mem_singleton] at hm
      rcases hm with hm | rfl
      · exact h b (by simp [hm])
      · exact hadd _ _ (h z (by simp))

theorem push_forall (P : Bloom → Prop) (e : Expanding) (hfresh : P e.fresh)
    (h : ∀ b ∈ e.blooms, P b) : ∀ b ∈ e.push.blooms, P b := by
  intro b hm
  simp only [push, List.mem_append, List.mem_singleton] at hm
  rcases hm with hm | rfl
  · exact h b hm
  · exact hfresh

theorem addCore_ne_nil (e : Expanding) (p : Bool) (hs : List Nat) (f : Bool) (hne : e.blooms ≠ []) :
    (e.addCore p hs f).1.blooms ≠ [] := by
  cases hf : (f || !p)
  · rw [(addCore_noeff e p hs f hf).1]; exact hne
  · obtain ⟨init, z, hb⟩ := exists_concat e.blooms hne
    rw [addCore_blooms_eff e init z p hs f hb hf]
    split <;> simp

/-- `addCore` keeps the invariant, for any membership answer -/
theorem inv_addCore (e : Expanding) (p : Bool) (hs : List Nat) (f : Bool) (hk : e.k ≤ hs.length)
    (hi : e.Inv) : (e.addCore p hs f).1.Inv := by
  obtain ⟨h1, hne, hall⟩ := hi
  obtain ⟨s1, -, s3, -, -⟩ := addCore_static e p hs f
  refine ⟨by rw [s1]; exact h1, addCore_ne_nil e p hs f hne, ?_⟩
  rw [s1, s3]
  cases hf : (f || !p)
  · rw [(addCore_noeff e p hs f hf).1]; exact hall
  · obtain ⟨init, z, hb⟩ := exists_concat e.blooms hne
    rw [addCore_blooms_eff e init z p hs f hb hf]
    rw [hb] at hall
    have hz := hall z (by simp)
    intro b
    split
    · intro hm
      simp only [List.mem_append, List.mem_singleton] at hm
      rcases hm with (hm | rfl) | rfl
      · exact hall b (by simp [hm])
      · exact hz
      · rw [Bloom.addAlt_count, Bloom.addAlt_k, fresh_k, fresh_count]
        simp only [show ¬ hs.length < e.k by omega, if_false]
        exact ⟨by omega, by omega, trivial⟩
    · rename_i hc
      intro hm
      simp only [List.mem_append, List.mem_singleton] at hm
      rcases hm with hm | rfl
      · exact hall b (by simp [hm])
      · rw [Bloom.addAlt_count, Bloom.addAlt_k, hz.2.2]
        simp only [show ¬ hs.length < e.k by omega, if_false]
        exact ⟨by omega, by omega, trivial⟩

theorem inv_push (e : Expanding) (hi : e.Inv) : e.push.Inv := by
  obtain ⟨h1, hne, hall⟩ := hi
  refine ⟨h1, by simp [push], ?_⟩
  apply push_forall (fun b => 0 ≤ b.count ∧ b.count ≤ (e.est : Int) ∧ b.k = e.k) e _ hall
  exact ⟨by simp [fresh_count], by simp [fresh_count], rfl⟩

theorem geo_addCore (e : Expanding) (p : Bool) (hs : List Nat) (f : Bool) (hne : e.blooms ≠ [])
    (hg : e.Geo) : (e.addCore p hs f).1.Geo := by
  obtain ⟨-, -, -, s4, -⟩ := addCore_static e p hs f
  refine ⟨by rw [s4]; exact hg.1, ?_⟩
  rw [s4]
  exact addCore_forall (fun b => b.GeoOK e.m) e p hs f hne
    (fun b hs h => Bloom.geoOK_addAlt _ b hs h) (fresh_geo e) hg.2

theorem geo_push (e : Expanding) (hg : e.Geo) : e.push.Geo :=
  ⟨hg.1, push_forall (fun b => b.GeoOK e.m) e (fresh_geo e) hg.2⟩

/-- under the invariant an insertion with enough hashes raises nothing -/
theorem addCore_no_error (e : Expanding) (p : Bool) (hs : List Nat) (f : Bool) (hk : e.k ≤ hs.length)
    (hi : e.Inv) : (e.addCore p hs f).2 = none := by
  obtain ⟨_, hne, hall⟩ := hi
  cases hf : (f || !p)
  · exact (addCore_noeff e p hs f hf).2
  · obtain ⟨init, z, hb⟩ := exists_concat e.blooms hne
    rw [addCore_err_eff e init z p hs f hb hf]
    have hz := hall z (by simp [hb])
    split
    · rw [Bloom.addAlt_err, fresh_k]; simp; omega
    · rw [Bloom.addAlt_err, hz.2.2]; simp; omega

/-- with too few hashes an effective insertion raises IndexError (the excluded case) -/
theorem addCore_short_error (e : Expanding) (p : Bool) (hs : List Nat) (f : Bool)
    (hk : hs.length < e.k) (hf : (f || !p) = true) (hi : e.Inv) :
    (e.addCore p hs f).2 = some .indexError := by
  obtain ⟨_, hne, hall⟩ := hi
  obtain ⟨init, z, hb⟩ := exists_concat e.blooms hne
  rw [addCore_err_eff e init z p hs f hb hf]
  have hz := hall z (by simp [hb])
  split
  · rw [Bloom.addAlt_err, fresh_k]; simp [hk]
  · rw [Bloom.addAlt_err, hz.2.2]; simp [hk]

/-- the real `add_alt` is `addCore` with the answer of `check_alt` -/
theorem addAlt_eq_addCore (e : Expanding) (hs : List Nat) (f : Bool) (hk : e.k ≤ hs.length)
    (hi : e.Inv) : ∃ p, e.checkAlt hs = .ok p ∧ e.addAlt hs f = e.addCore p hs f := by
  obtain ⟨p, hp⟩ := checkGo_total hs e.blooms (fun b hb => by rw [(hi.2.2 b hb).2.2]; exact hk)
  refine ⟨p, hp, ?_⟩
  unfold addAlt
  cases f
  · simp only [checkAlt, hp]; rfl
  · simp [addCore]

/-! ### the exact shape of the queue when nobody calls `push` -/

/-- after `n` effective insertions and no `push`: `x` full sub-filters followed by one holding `c`,
    `n = x·est + c`, and the newest is non-empty once the filter has grown -/
def Shape (e : Expanding) (n : Nat) : Prop :=
  ∃ x c : Nat, e.blooms.map (·.count) = List.replicate x (e.est : Int) ++ [(c : Int)] ∧
    (0 < x → 1 ≤ c) ∧ c ≤ e.est ∧ n = x * e.est + c

theorem shape_new (est fpr32 k m : Nat) : (Expanding.new est fpr32 k m).Shape 0 :=
  ⟨0, 0, by simp [Expanding.new, Bloom.new], by simp, by simp, by simp⟩

/-- the shape determines the number of sub-filters -/
theorem Shape.length {e : Expanding} {n : Nat} (h : e.Shape n) (h1 : 1 ≤ e.est) :
    e.blooms.length = (if n = 0 then 0 else (n - 1) / e.est) + 1 := by
  obtain ⟨x, c, hm, hx, hc, hn⟩ := h
  have hl : e.blooms.length = x + 1 := by
    have := congrArg List.length hm
    simpa using this
  rw [hl]
  congr 1
  by_cases hx0 : x = 0
  · subst hx0
    simp only [Nat.zero_mul, Nat.zero_add] at hn
    subst hn
    split
    · rfl
    · exact (Nat.div_eq_of_lt (by omega)).symm
  · have hc1 := hx (by omega)
    have hn0 : n ≠ 0 := by omega
    simp only [hn0, if_false]
    have : n - 1 = (c - 1) + e.est * x := by rw [hn, Nat.mul_comm]; omega
    rw [this, Nat.add_mul_div_left _ _ (by omega), Nat.div_eq_of_lt (by omega)]
    omega

/-- an effective insertion advances the shape by one -/
theorem shape_addCore_eff (e : Expanding) (n : Nat) (p : Bool) (hs : List Nat) (f : Bool)
    (hk : e.k ≤ hs.length) (h1 : 1 ≤ e.est) (hkk : ∀ b ∈ e.blooms, b.k = e.k)
    (hf : (f || !p) = true) (h : e.Shape n) : (e.addCore p hs f).1.Shape (n + 1) := by
  obtain ⟨x, c, hm, hx, hc, hn⟩ := h
  have hne : e.blooms ≠ [] := by
    intro h0; rw [h0] at hm; simp at hm
  obtain ⟨init, z, hb⟩ := exists_concat e.blooms hne
  obtain ⟨s1, -, -, -, -⟩ := addCore_static e p hs f
  rw [hb, List.map_append, List.map_singleton] at hm
  obtain ⟨hi, hz⟩ := List.append_inj' hm rfl
  have hz : z.count = (c : Int) := by simpa using hz
  have hzk : z.k = e.k := hkk z (by simp [hb])
  unfold Shape
  rw [s1, addCore_blooms_eff e init z p hs f hb hf]
  split
  · rename_i hfull
    have hce : c = e.est := by omega
    refine ⟨x + 1, 1, ?_, by omega, h1, ?_⟩
    · rw [List.map_append, List.map_append, hi, List.map_singleton, List.map_singleton,
        Bloom.addAlt_count, fresh_k, fresh_count, hz, hce, List.replicate_succ']
      simp only [show ¬ hs.length < e.k by omega, if_false]
      rfl
    · rw [hn, hce, Nat.succ_mul]
  · rename_i hfull
    refine ⟨x, c + 1, ?_, by omega, by omega, by omega⟩
    rw [List.map_append, hi, List.map_singleton, Bloom.addAlt_count, hzk, hz]
    simp only [show ¬ hs.length < e.k by omega, if_false]
    rfl

theorem shape_addCore_noeff (e : Expanding) (n : Nat) (p : Bool) (hs : List Nat) (f : Bool)
    (hf : (f || !p) = false) (h : e.Shape n) : (e.addCore p hs f).1.Shape n := by
  obtain ⟨s1, -, -, -, -⟩ := addCore_static e p hs f
  unfold Shape
  rw [s1, (addCore_noeff e p hs f hf).1]
  exact h

end Expanding
end PyProb
