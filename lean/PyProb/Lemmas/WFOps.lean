/-
  The well-formedness conditions of the export formats are preserved by the update operations:
  counting-Bloom cells stay within uint32, count-min bins within int32, array lengths never
  change, the sub-filters of expanding / rotating filters stay uniform.

  The lemmas live in one module per data-structure family (there is no cuckoo part: the cuckoo
  bookkeeping is in `Lemmas/CuckooAcct.lean`); this module only gathers them.
-/
import PyProb.Lemmas.WFOpsBloom
import PyProb.Lemmas.WFOpsCms
