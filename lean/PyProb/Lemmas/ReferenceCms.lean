/-
  Lemmas relating the model's count-min operations under the default hashing strategy to the
  documented hashing rule and the reference reader / writer of `Spec/Layout.lean`.
-/
import PyProb.Lemmas.ReferenceCommon
import PyProb.Lemmas.LayoutSpecCms

namespace PyProb

/-- the head of the sorted list is the minimum -/
theorem sortInts_head (x : Int) (xs : List Int) :
    ∃ rest, CMS.sortInts (x :: xs) = xs.foldl min x :: rest := by
  have hperm := List.mergeSort_perm (x :: xs) (fun a b => decide (a ≤ b))
  have hsorted := List.pairwise_mergeSort (le := fun a b => decide (a ≤ b))
    (by intro a b c; simp; omega) (by intro a b; simp; omega) (x :: xs)
  unfold CMS.sortInts
  generalize (x :: xs).mergeSort (fun a b => decide (a ≤ b)) = s at hperm hsorted
  cases s with
  | nil => exact absurd hperm.length_eq (by simp)
  | cons y ys =>
      refine ⟨ys, ?_⟩
      congr 1
      have hy : y ∈ x :: xs := hperm.mem_iff.mp (by simp)
      have hmin := foldl_min_le xs x
      have hmem := foldl_min_mem xs x
      have hm : xs.foldl min x ∈ y :: ys := hperm.mem_iff.mpr (by
        rcases hmem with h | h
        · rw [h]; simp
        · exact List.mem_cons_of_mem _ h)
      have h1 : xs.foldl min x ≤ y := by
        rcases List.mem_cons.mp hy with rfl | hy
        · exact hmin.1
        · exact hmin.2 y hy
      have h2 : y ≤ xs.foldl min x := by
        rcases List.mem_cons.mp hm with h | h
        · omega
        · have := (List.pairwise_cons.mp hsorted).1 _ h
          simpa using this
      omega

theorem binIdx_default (c : CMS) (key : Key) :
    c.binIdx (defaultFnv key c.d) = (List.range c.d).map fun i => Spec.hashI key.units i % c.w + i * c.w := by
  unfold CMS.binIdx
  rw [defaultFnv_spec, List.length_map, List.length_range, List.zipWith_map_right, List.zipWith_self]

theorem cms_idx_lt {w d i r : Nat} (hi : i < d) (hr : r < w) : r + i * w < w * d := by
  have : (i + 1) * w ≤ d * w := Nat.mul_le_mul_right w hi
  rw [Nat.succ_mul] at this
  rw [Nat.mul_comm w d]; omega

/-! ### count-min: the store loop is a sequence of saturating increments -/

/-- `bins[p] = min(bins[p] + 1, INT32_MAX)` on the model's cell list -/
def incrC (cells : List Int) (p : Nat) : List Int := cells.set p (min (cells.getD p 0 + 1) 2147483647)

theorem incrC_length (cells : List Int) (p : Nat) : (incrC cells p).length = cells.length := by simp [incrC]

theorem getD_range (cells : List Int) (p : Nat) (h : ∀ x ∈ cells, -2147483648 ≤ x ∧ x ≤ 2147483647) :
    -2147483648 ≤ cells.getD p 0 ∧ cells.getD p 0 ≤ 2147483647 := by
  rw [List.getD_eq_getElem?_getD]
  cases hq : cells[p]? with
  | none => simp
  | some v => simpa using h v (List.mem_of_getElem? hq)

theorem incrC_range (cells : List Int) (p : Nat) (h : ∀ x ∈ cells, -2147483648 ≤ x ∧ x ≤ 2147483647) :
    ∀ x ∈ incrC cells p, -2147483648 ≤ x ∧ x ≤ 2147483647 := by
  intro x hx
  rcases List.mem_or_eq_of_mem_set hx with hx | rfl
  · exact h x hx
  · have := getD_range cells p h
    omega

theorem foldl_incrC_inv (ps : List Nat) (cells : List Int) (h : ∀ x ∈ cells, -2147483648 ≤ x ∧ x ≤ 2147483647) :
    (ps.foldl incrC cells).length = cells.length ∧
      ∀ x ∈ ps.foldl incrC cells, -2147483648 ≤ x ∧ x ≤ 2147483647 := by
  induction ps generalizing cells with
  | nil => exact ⟨rfl, h⟩
  | cons p ps ih =>
      simp only [List.foldl_cons]
      have := ih (incrC cells p) (incrC_range _ _ h)
      rw [incrC_length] at this
      exact this

theorem incrC_spec (cells : List Int) (p : Nat) : Spec.incrSatI cells p = incrC cells p := by
  induction cells generalizing p with
  | nil => simp [incrC, Spec.incrSatI]
  | cons c cs ih =>
      cases p with
      | zero =>
          simp only [incrC, List.set_cons_zero, List.getD_cons_zero, Spec.incrSatI]
          congr 1
          split <;> omega
      | succ p =>
          have := ih p
          simp only [incrC, List.set_cons_succ, List.getD_cons_succ, Spec.incrSatI] at this ⊢
          rw [this]

theorem cms_addLoop_one (cur : List Int) (ks : List Nat) (acc : List Int) (hnd : ks.Nodup)
    (hcur : ∀ x ∈ cur, -2147483648 ≤ x ∧ x ≤ 2147483647) :
    ∃ vals, CMS.addLoop cur (ks.map fun k => (k, cur.getD k 0 + 1)) acc = (ks.foldl incrC cur, vals, none) := by
  induction ks generalizing cur acc with
  | nil => exact ⟨_, rfl⟩
  | cons k rest ih =>
      have hk := getD_range cur k hcur
      have hmax : Gen.int32Max = 2147483647 := rfl
      have hmin : Gen.int32Min = -2147483648 := rfl
      obtain ⟨hknot, hnd'⟩ := List.nodup_cons.mp hnd
      have hrest : (rest.map fun k' => (k', cur.getD k' 0 + 1)) =
          rest.map fun k' => (k', (incrC cur k).getD k' 0 + 1) := by
        apply List.map_congr_left
        intro k' hk'
        have : k ≠ k' := fun e => hknot (e ▸ hk')
        simp [incrC, List.getD_eq_getElem?_getD, List.getElem?_set_ne this]
      simp only [List.map_cons, CMS.addLoop, Gen.cmsAddClampCmp, Cmp.evalInt, decide_eq_true_eq, List.foldl_cons]
      by_cases hv : cur.getD k 0 + 1 > Gen.int32Max
      · rw [if_pos hv]
        have : cur.set k Gen.int32Max = incrC cur k := by
          unfold incrC; congr 1; omega
        rw [this, hrest]
        exact ih _ _ hnd' (incrC_range _ _ hcur)
      · rw [if_neg hv, if_neg (by omega)]
        have : cur.set k (cur.getD k 0 + 1) = incrC cur k := by
          unfold incrC; congr 1; omega
        rw [this, hrest]
        exact ih _ _ hnd' (incrC_range _ _ hcur)

theorem cms_idx_nodup (w d : Nat) (hw : 0 < w) (r : Nat → Nat) :
    ((List.range d).map fun i => r i % w + i * w).Nodup := by
  unfold List.Nodup
  rw [List.pairwise_map]
  apply List.Pairwise.imp _ List.pairwise_lt_range
  intro i j hij
  have h1 : (i + 1) * w ≤ j * w := Nat.mul_le_mul_right w hij
  rw [Nat.succ_mul] at h1
  have := Nat.mod_lt (r i) hw
  have := Nat.mod_lt (r j) hw
  omega

/-- one `add` of a key under the default strategy -/
theorem cms_add_default (c : CMS) (key : Key) (hlen : c.bins.length = c.w * c.d) (hw : 0 < c.w)
    (hbins : ∀ x ∈ c.bins, -2147483648 ≤ x ∧ x ≤ 2147483647) :
    (c.addAlt (defaultFnv key c.d) 1).1 =
      { c with bins := ((List.range c.d).map fun i => Spec.hashI key.units i % c.w + i * c.w).foldl incrC c.bins,
               total := if c.total + 1 > 9223372036854775807 then 9223372036854775807 else c.total + 1 } := by
  unfold CMS.addAlt
  rw [binIdx_default]
  have hany : ((List.range c.d).map fun i => Spec.hashI key.units i % c.w + i * c.w).any (· ≥ c.bins.length) = false := by
    simp only [List.any_eq_false, List.mem_map, List.mem_range, decide_eq_true_eq]
    rintro x ⟨i, hi, rfl⟩
    have := cms_idx_lt (d := c.d) hi (Nat.mod_lt (Spec.hashI key.units i) hw)
    omega
  simp only [hany, Bool.false_eq_true, if_false, zip_map_self_rf]
  obtain ⟨vals, hv⟩ := cms_addLoop_one c.bins _ [] (cms_idx_nodup c.w c.d hw (Spec.hashI key.units)) hbins
  rw [hv]
  simp [Gen.cmsTotalMaxCmp, Cmp.evalInt, Gen.int64Max]

theorem cmsRun_eq (w d : Nat) (hw : 0 < w) (keys : List Key) (c0 : CMS) (hcw : c0.w = w) (hcd : c0.d = d)
    (hlen : c0.bins.length = w * d) (hbins : ∀ x ∈ c0.bins, -2147483648 ≤ x ∧ x ≤ 2147483647)
    (ht : c0.total + keys.length ≤ 9223372036854775807) :
    keys.foldl (fun c key => (c.addAlt (defaultFnv key d) 1).1) c0 =
      { c0 with
        bins := (keys.map Key.units).foldl
          (fun arr key => (List.range d).foldl (fun a i => Spec.incrSatI a (i * w + Spec.hashI key i % w)) arr) c0.bins
        total := c0.total + keys.length } := by
  induction keys generalizing c0 with
  | nil => simp
  | cons key keys ih =>
      simp only [List.foldl_cons, List.map_cons, List.length_cons]
      have hstep := cms_add_default c0 key (by rw [hlen, hcw, hcd]) (by omega) hbins
      rw [hcw, hcd] at hstep
      rw [hstep]
      have hinv := foldl_incrC_inv ((List.range d).map fun i => Spec.hashI key.units i % w + i * w) c0.bins hbins
      simp only [List.length_cons] at ht
      rw [ih _ rfl rfl (by simp only; rw [hinv.1, hlen]) (by exact hinv.2) (by simp only; split <;> omega)]
      simp only [CMS.mk.injEq, hcw, hcd, true_and, and_true]
      refine ⟨?_, by split <;> omega⟩
      congr 1
      rw [List.foldl_map]
      congr 1
      funext a i
      rw [incrC_spec, Nat.add_comm]

theorem cms_keys_range (w d : Nat) (keys : List (List Nat)) (cells : List Int)
    (h : ∀ x ∈ cells, -2147483648 ≤ x ∧ x ≤ 2147483647) :
    ∀ x ∈ keys.foldl
        (fun arr key => (List.range d).foldl (fun a i => Spec.incrSatI a (i * w + Spec.hashI key i % w)) arr) cells,
      -2147483648 ≤ x ∧ x ≤ 2147483647 := by
  induction keys generalizing cells with
  | nil => exact h
  | cons key keys ih =>
      simp only [List.foldl_cons]
      apply ih
      have e : (List.range d).foldl (fun a i => Spec.incrSatI a (i * w + Spec.hashI key i % w)) cells
          = ((List.range d).map fun i => i * w + Spec.hashI key i % w).foldl incrC cells := by
        rw [List.foldl_map]; congr 1; funext a i; rw [incrC_spec]
      rw [e]
      exact (foldl_incrC_inv _ cells h).2

/-! ### count-min readers -/

theorem perm_sum_int {l₁ l₂ : List Int} (h : l₁.Perm l₂) : l₁.sum = l₂.sum := by
  induction h with
  | nil => rfl
  | cons x _ ih => simp [ih]
  | swap x y l => simp only [List.sum_cons]; omega
  | trans _ _ ih1 ih2 => rw [ih1, ih2]

theorem at'_append_right (a b : Bytes) (i : Nat) : Spec.at' (a ++ b) (a.length + i) = Spec.at' b i := by
  simp [Spec.at', List.getD_eq_getElem?_getD, List.getElem?_append_right]

theorem rdU32_append_right (a b : Bytes) (off : Nat) :
    Spec.rdU32 (a ++ b) (a.length + off) = Spec.rdU32 b off := by
  unfold Spec.rdU32
  simp only [Nat.add_assoc, at'_append_right]

theorem rdI64_append_right (a b : Bytes) (off : Nat) :
    Spec.rdI64 (a ++ b) (a.length + off) = Spec.rdI64 b off := by
  unfold Spec.rdI64 Spec.rdU64
  simp only [Nat.add_assoc, rdU32_append_right]

theorem rdI64_cmsFooter (w d : Nat) (t : Int) (h0 : -9223372036854775808 ≤ t) (h1 : t ≤ 9223372036854775807) :
    Spec.rdI64 (Spec.cmsFooter w d t) 8 = t := by
  simp only [Spec.rdI64, Spec.rdU64, Spec.rdU32, Spec.cmsFooter, Spec.u32le, Spec.i64le, Spec.u64le, Spec.at',
    List.cons_append, List.nil_append, List.getD_eq_getElem?_getD]
  simp only [List.getElem?_cons_succ, List.getElem?_cons_zero, Option.getD_some]
  split <;> split <;> omega

theorem flatMap_i32le_length (cells : List Int) : (cells.flatMap Spec.i32le).length = 4 * cells.length := by
  induction cells with
  | nil => rfl
  | cons c cs ih =>
      simp only [List.flatMap_cons, List.length_append, List.length_cons, ih]
      simp [Spec.i32le, Spec.u32le]; omega

/-- the footer's `elements_added`, read back from the file -/
theorem rdI64_cmsFile (w d : Nat) (cells : List Int) (t : Int) (hlen : cells.length = w * d)
    (h0 : -9223372036854775808 ≤ t) (h1 : t ≤ 9223372036854775807) :
    Spec.rdI64 (Spec.cmsFileFlat w d cells t) (4 * (w * d) + 8) = t := by
  unfold Spec.cmsFileFlat
  rw [← hlen, ← flatMap_i32le_length, rdI64_append_right, rdI64_cmsFooter w d t h0 h1]

/-- `check` under the default strategy: the query applied to the sorted counters read from the file -/
theorem cms_check_default (c : CMS) (key : Key)
    (hlen : c.bins.length = c.w * c.d) (hw : 0 < c.w)
    (hbins : ∀ x ∈ c.bins, -2147483648 ≤ x ∧ x ≤ 2147483647) :
    c.checkAlt (defaultFnv key c.d) =
      c.query c.total (Spec.cmsSorted c.w c.d (Spec.cmsFileFlat c.w c.d c.bins c.total) key.units) := by
  unfold CMS.checkAlt
  rw [binIdx_default]
  have hany : ((List.range c.d).map fun i => Spec.hashI key.units i % c.w + i * c.w).any (· ≥ c.bins.length) = false := by
    simp only [List.any_eq_false, List.mem_map, List.mem_range, decide_eq_true_eq]
    rintro x ⟨i, hi, rfl⟩
    have := cms_idx_lt (d := c.d) hi (Nat.mod_lt (Spec.hashI key.units i) hw)
    omega
  simp only [hany, Bool.false_eq_true, if_false]
  have hvals : ((List.range c.d).map fun i => Spec.hashI key.units i % c.w + i * c.w).map (fun x => c.bins.getD x 0)
      = (List.range c.d).map (Spec.cmsCellOf c.w (Spec.cmsFileFlat c.w c.d c.bins c.total) key.units) := by
    rw [List.map_map]
    apply List.map_congr_left
    intro i hi
    simp only [Function.comp_def, Spec.cmsCellOf, Spec.cmsFileFlat]
    rw [rdI32_cells _ _ _ (by rw [hlen, Nat.add_comm]; exact cms_idx_lt (List.mem_range.mp hi) (Nat.mod_lt _ hw)) hbins,
      Nat.add_comm]
  rw [hvals]
  rfl

theorem cmsSorted_length (w d : Nat) (file key : Bytes) : (Spec.cmsSorted w d file key).length = d := by
  simp [Spec.cmsSorted]

theorem cmsSorted_sum (w d : Nat) (file key : Bytes) :
    (Spec.cmsSorted w d file key).sum = ((List.range d).map (Spec.cmsCellOf w file key)).sum :=
  perm_sum_int (List.mergeSort_perm _ _)

theorem cmsSorted_head (w d : Nat) (file key : Bytes) :
    (Spec.cmsSorted w d file key).head? = Spec.refReaderCmsMin w d file key := by
  unfold Spec.cmsSorted Spec.refReaderCmsMin
  cases (List.range d).map (Spec.cmsCellOf w file key) with
  | nil => simp
  | cons x xs =>
      obtain ⟨rest, hr⟩ := sortInts_head x xs
      unfold CMS.sortInts at hr
      rw [hr]; rfl

end PyProb
