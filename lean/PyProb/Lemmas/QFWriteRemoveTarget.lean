/-
  Removing element `j` from a table `s` in the linear view: the cluster `a … b` of `j`, and the
  content of a table `t` that is the linear view of the sequence without `j`, slot by slot in terms
  of the content of `s`:
  * outside the slots `P = pos j … Z = pos b` nothing changes (`t_out`),
  * the slots `P … Z - 1` hold what their right neighbours held (`t_mid`),
  * slot `Z` is empty (`t_end`),
  * the occupied bits are those of `s`, except possibly at the home of `j` (`t_occ`).
-/
import PyProb.Lemmas.QFExtRemove

namespace PyProb.QFRem
open PyProb PyProb.QF PyProb.QFLin PyProb.Spec

/-- element `j` of the table `s`, its cluster starts with element `a` and ends with element `b` -/
structure Ctx (s : QF) (n e m : Nat) (d r : Nat → Nat) (j a b : Nat) : Prop where
  X : LinX s n e m d r
  hj : j < m
  haj : a ≤ j
  hjb : j ≤ b
  hbm : b < m
  home : posF d a = d a
  shifted : ∀ k, a < k → k ≤ b → posF d k ≠ d k
  next : b + 1 < m → posF d (b + 1) = d (b + 1)

theorem ctx_exists {s : QF} {n e m : Nat} {d r : Nat → Nat} (X : LinX s n e m d r) (j : Nat) (hj : j < m) :
    ∃ a b, Ctx s n e m d r j a b := by
  obtain ⟨a, ha, hpa, hk⟩ := cluster d j
  obtain ⟨b, hjb, hbm, hsh, hnext⟩ := cluster_end d m j hj
  refine ⟨a, b, X, hj, ha, hjb, hbm, hpa, ?_, hnext⟩
  intro k h1 h2
  by_cases h : k ≤ j
  · exact hk k h1 h
  · exact hsh k (by omega) h2

section ctx
variable {s t : QF} {n e m : Nat} {d r : Nat → Nat} {j a b : Nat}

theorem Ctx.L (C : Ctx s n e m d r j a b) : Lin s n e m d r := C.X.lin

theorem Ctx.contig (C : Ctx s n e m d r j a b) (k : Nat) (h1 : a ≤ k) (h2 : k ≤ b) :
    posF d k = posF d a + (k - a) := QFLin.contig d a b C.shifted k h1 h2

theorem Ctx.mono (C : Ctx s n e m d r j a b) (k : Nat) (h : k + 1 < m) : d k ≤ d (k + 1) := by
  have := C.L.sorted k h; omega

theorem Ctx.pn_lt (_ : Ctx s n e m d r j a b) (i : Nat) (h : i < j) : posF (del j d) i = posF d i :=
  pos_del_lt d j i h

theorem Ctx.pn_mid (C : Ctx s n e m d r j a b) (i : Nat) (h1 : j ≤ i) (h2 : i < b) :
    posF (del j d) i + 1 = posF d (i + 1) :=
  pos_del_mid d j b (fun k hk => C.mono k (by have := C.hbm; omega))
    (fun k h3 h4 => C.shifted k (by have := C.haj; omega) h4) i h1 h2

theorem Ctx.pn_ge (C : Ctx s n e m d r j a b) (i : Nat) (h1 : b ≤ i) (h2 : b + 1 < m) :
    posF (del j d) i = posF d (i + 1) :=
  pos_del_ge d j b C.hjb (fun k hk => C.mono k (by have := C.hbm; omega))
    (fun k h3 h4 => C.shifted k (by have := C.haj; omega) h4) (C.next h2) i h1

theorem Ctx.fitb (C : Ctx s n e m d r j a b) : posF d b + 2 ≤ n := C.L.fit b C.hbm

/-- a distance strictly between two consecutive elements holds nothing -/
theorem nocell_between (d : Nat → Nat) (m i y : Nat) (h1 : posF d i < y)
    (h2 : i + 1 < m → y < posF d (i + 1)) : ∀ k, k < m → posF d k ≠ y := by
  intro k hk hp
  by_cases hki : k ≤ i
  · have := p_mono d k i hki; omega
  · have := p_mono d (i + 1) k (by omega)
    have := h2 (by omega)
    omega

/-- the slot behind the cluster is empty or a cluster start -/
theorem Ctx.after (C : Ctx s n e m d r j a b) :
    (s.isEmpty (io n e (posF d b + 1)) || s.isClusterStart (io n e (posF d b + 1))) = true := by
  have hfit := C.fitb
  by_cases h : b + 1 < m ∧ posF d (b + 1) = posF d b + 1
  · have h1 := isClusterStart_cell C.L (b + 1) h.1
    rw [h.2] at h1
    rw [h1]
    have h2 := C.next h.1
    rw [h.2] at h2
    simp [h2]
  · have hno : ∀ k, k < m → posF d k ≠ posF d b + 1 := by
      apply nocell_between d m b _ (by omega)
      intro h1
      have := p_step d b
      omega
    rw [isEmpty_nocell C.L _ (by omega) hno]
    rfl

/-- the other elements of the cluster are neither cluster starts nor empty -/
theorem Ctx.inside (C : Ctx s n e m d r j a b) (k : Nat) (h1 : a < k) (h2 : k ≤ b) :
    s.isEmpty (io n e (posF d k)) = false ∧ s.isClusterStart (io n e (posF d k)) = false := by
  have hk : k < m := by have := C.hbm; omega
  refine ⟨isEmpty_cell C.L k hk, ?_⟩
  rw [isClusterStart_cell C.L k hk]
  simp [C.shifted k h1 h2]

/-- the continuation bit of the slot behind element `j` -/
theorem Ctx.cont_next (C : Ctx s n e m d r j a b) :
    bit s.cont (io n e (posF d j + 1)) = (decide (j + 1 < m) && contF d (j + 1)) := by
  have hfit := C.L.fit j C.hj
  by_cases h : j + 1 < m ∧ posF d (j + 1) = posF d j + 1
  · have := cont_cell C.L (j + 1) h.1
    rw [h.2] at this
    rw [this]
    simp [h.1]
  · have hno : ∀ k, k < m → posF d k ≠ posF d j + 1 := by
      apply nocell_between d m j _ (by omega)
      intro h1
      have := p_step d j
      omega
    rw [(C.L.nocell _ (by omega) hno).1]
    by_cases h1 : j + 1 < m
    · have h2 : posF d (j + 1) = d (j + 1) := by
        apply Classical.byContradiction
        intro hne
        exact h ⟨h1, p_shifted d j hne⟩
      simp [contF_home d _ h2]
    · simp [h1]

/-! ### the target table -/

theorem t_out (C : Ctx s n e m d r j a b) (T : LinX t n e (m - 1) (del j d) (del j r)) (y : Nat) (hy : y < n)
    (h : y < posF d j ∨ posF d b < y) :
    t.remAt (io n e y) = s.remAt (io n e y) ∧ bit t.cont (io n e y) = bit s.cont (io n e y) ∧
      bit t.shift (io n e y) = bit s.shift (io n e y) := by
  have hj := C.hj
  have hjb := C.hjb
  have hbm := C.hbm
  rcases cell_or_not d m y with ⟨i, hi, hp⟩ | hno
  · by_cases hij : i < j
    · -- the same element at the same slot
      have hp' := C.pn_lt i hij
      have him : i < m - 1 := by omega
      have e1 := T.lin.rem i him
      have e2 := T.lin.cont i him
      have e3 := T.lin.shift i him
      rw [hp', hp] at e1 e2 e3
      rw [del_lt j r i hij] at e1
      rw [show (decide (i ≠ 0) && decide (del j d i = del j d (i - 1))) = contF (del j d) i from rfl,
        contF_del_lt d j i hij] at e2
      rw [del_lt j d i hij] at e3
      have f1 := C.L.rem i hi
      have f2 := cont_cell C.L i hi
      have f3 := C.L.shift i hi
      rw [hp] at f1 f2 f3
      rw [e1, e2, e3, f1, f2, f3]
      exact ⟨rfl, rfl, rfl⟩
    · -- an element behind the cluster: same slot, index one less
      have hbi : b < i := by
        apply Classical.byContradiction
        intro hh
        have h1 := p_mono d j i (by omega)
        have h2 := p_mono d i b (by omega)
        omega
      obtain ⟨i', rfl⟩ : ∃ i', i = i' + 1 := ⟨i - 1, by omega⟩
      have hp' := C.pn_ge i' (by omega) (by omega)
      have him : i' < m - 1 := by omega
      have e1 := T.lin.rem i' him
      have e2 := T.lin.cont i' him
      have e3 := T.lin.shift i' him
      rw [hp', hp] at e1 e2 e3
      rw [del_ge j r i' (by omega)] at e1
      rw [show (decide (i' ≠ 0) && decide (del j d i' = del j d (i' - 1))) = contF (del j d) i' from rfl] at e2
      rw [del_ge j d i' (by omega)] at e3
      have f1 := C.L.rem (i' + 1) hi
      have f2 := cont_cell C.L (i' + 1) hi
      have f3 := C.L.shift (i' + 1) hi
      rw [hp] at f1 f2 f3
      have hc : contF (del j d) i' = contF d (i' + 1) := by
        by_cases hji : j < i'
        · exact contF_del_gt d j i' hji
        · have hji' : i' = j := by omega
          subst hji'
          have hbj : b = i' := by omega
          subst hbj
          have h1 : posF d (b + 1) = d (b + 1) := C.next hi
          rw [contF_home d _ h1]
          apply contF_home
          rw [hp', h1, del_ge b d b (Nat.le_refl _)]
      rw [e1, e2, e3, f1, f2, f3, hc]
      exact ⟨rfl, rfl, rfl⟩
  · -- no element before, none after
    have hno' : ∀ i, i < m - 1 → posF (del j d) i ≠ y := by
      intro i hi hp
      by_cases hij : i < j
      · rw [C.pn_lt i hij] at hp; exact hno i (by omega) hp
      · by_cases hib : i < b
        · have h1 := C.pn_mid i (by omega) hib
          have h2 := p_mono d j (i + 1) (by omega)
          have h3 := p_mono d (i + 1) b (by omega)
          omega
        · rw [C.pn_ge i (by omega) (by omega)] at hp; exact hno (i + 1) (by omega) hp
    have e1 := T.rem0 y hy hno'
    have e2 := T.lin.nocell y hy hno'
    have f1 := C.X.rem0 y hy hno
    have f2 := C.L.nocell y hy hno
    rw [e1, e2.1, e2.2, f1, f2.1, f2.2]
    exact ⟨rfl, rfl, rfl⟩

theorem t_mid (C : Ctx s n e m d r j a b) (T : LinX t n e (m - 1) (del j d) (del j r)) (y : Nat)
    (h1 : posF d j ≤ y) (h2 : y < posF d b) :
    t.remAt (io n e y) = s.remAt (io n e (y + 1)) ∧
      bit t.cont (io n e y) =
        (if y = posF d j then (contF d j && contF d (j + 1)) else bit s.cont (io n e (y + 1))) ∧
      bit s.shift (io n e (y + 1)) = true := by
  have hj := C.hj
  have hjb := C.hjb
  have hbm := C.hbm
  have haj := C.haj
  have cj := C.contig j haj hjb
  have cb := C.contig b (by omega) (Nat.le_refl _)
  -- the new index of the element that ends up at distance `y`
  obtain ⟨i, hi1, hi2, hpi⟩ : ∃ i, j ≤ i ∧ i < b ∧ posF d (i + 1) = y + 1 := by
    refine ⟨j + (y - posF d j), by omega, by omega, ?_⟩
    rw [C.contig _ (by omega) (by omega)]
    omega
  have hp' := C.pn_mid i hi1 hi2
  have hp'' : posF (del j d) i = y := by omega
  have him : i < m - 1 := by omega
  have e1 := T.lin.rem i him
  have e2 := T.lin.cont i him
  rw [hp''] at e1 e2
  rw [del_ge j r i hi1] at e1
  rw [show (decide (i ≠ 0) && decide (del j d i = del j d (i - 1))) = contF (del j d) i from rfl] at e2
  have f1 := C.L.rem (i + 1) (by omega)
  have f2 := cont_cell C.L (i + 1) (by omega)
  have f3 := C.L.shift (i + 1) (by omega)
  rw [hpi] at f1 f2 f3
  refine ⟨by rw [e1, f1], ?_, ?_⟩
  · rw [e2]
    by_cases hy : y = posF d j
    · rw [if_pos hy]
      have hij : i = j := by
        have := C.contig (i + 1) (by omega) (by omega)
        omega
      subst hij
      exact contF_del_eq d i (fun h0 => by have := C.mono (i - 1) (by omega); rwa [show i - 1 + 1 = i by omega] at this)
        (C.mono i (by omega))
    · rw [if_neg hy, f2]
      have hij : j < i := by
        have := C.contig (i + 1) (by omega) (by omega)
        omega
      exact contF_del_gt d j i hij
  · rw [f3]
    have h3 := C.shifted (i + 1) (by omega) (by omega)
    rw [hpi] at h3
    simp [h3]

theorem new_nocell_Z (C : Ctx s n e m d r j a b) : ∀ i, i < m - 1 → posF (del j d) i ≠ posF d b := by
  have hj := C.hj
  have hjb := C.hjb
  have hbm := C.hbm
  intro i hi hp
  by_cases hij : i < j
  · rw [C.pn_lt i hij] at hp
    have := p_lt d i b (by omega); omega
  · by_cases hib : i < b
    · have h1 := C.pn_mid i (by omega) hib
      have h3 := p_mono d (i + 1) b (by omega)
      omega
    · rw [C.pn_ge i (by omega) (by omega)] at hp
      have := p_lt d b (i + 1) (by omega); omega

theorem t_end (C : Ctx s n e m d r j a b) (T : LinX t n e (m - 1) (del j d) (del j r)) :
    t.remAt (io n e (posF d b)) = 0 ∧ bit t.cont (io n e (posF d b)) = false ∧
      bit t.shift (io n e (posF d b)) = false ∧ bit t.occ (io n e (posF d b)) = false := by
  have hZ : posF d b < n := by have := C.fitb; omega
  have hno := new_nocell_Z C
  have e2 := T.lin.nocell _ hZ hno
  exact ⟨T.rem0 _ hZ hno, e2.1, e2.2, occ_nocell T.lin _ hZ hno⟩

/-- `j` is the only element with its home -/
def only (d : Nat → Nat) (m j : Nat) : Bool := !contF d j && !(decide (j + 1 < m) && contF d (j + 1))

theorem t_occ (C : Ctx s n e m d r j a b) (T : LinX t n e (m - 1) (del j d) (del j r)) (y : Nat) (hy : y < n) :
    bit t.occ (io n e y) = (bit s.occ (io n e y) && !(decide (y = d j) && only d m j)) := by
  have hj := C.hj
  have L := C.L
  rw [Bool.eq_iff_iff, T.lin.occ y hy]
  simp only [Bool.and_eq_true, Bool.not_eq_true', Bool.and_eq_false_iff, decide_eq_false_iff_not]
  rw [L.occ y hy]
  constructor
  · rintro ⟨i, hi, hdi⟩
    -- the old index of the witness
    obtain ⟨k, hk, hkj, hdk⟩ : ∃ k, k < m ∧ k ≠ j ∧ d k = y := by
      by_cases hij : i < j
      · exact ⟨i, by omega, by omega, by rw [del_lt j d i hij] at hdi; exact hdi⟩
      · exact ⟨i + 1, by omega, by omega, by rw [del_ge j d i (by omega)] at hdi; exact hdi⟩
    refine ⟨⟨k, hk, hdk⟩, ?_⟩
    by_cases hyd : y = d j
    · right
      simp only [only, Bool.and_eq_false_iff, Bool.not_eq_false', Bool.and_eq_true, decide_eq_true_eq]
      by_cases hlt : k < j
      · left
        have h1 := d_mono L k (j - 1) (by omega) (by omega)
        have h2 := d_mono L (j - 1) j (by omega) hj
        simp only [contF, Bool.and_eq_true, decide_eq_true_eq]
        exact ⟨by omega, by omega⟩
      · right
        have h1 := d_mono L (j + 1) k (by omega) hk
        have h2 := d_mono L j (j + 1) (by omega) (by omega)
        refine ⟨by omega, ?_⟩
        simp only [contF, Bool.and_eq_true, decide_eq_true_eq, Nat.add_sub_cancel]
        exact ⟨by omega, by omega⟩
    · left; exact hyd
  · rintro ⟨⟨k, hk, hdk⟩, hnot⟩
    by_cases hkj : k = j
    · subst hkj
      rcases hnot with hnot | hnot
      · exact absurd hdk.symm hnot
      · simp only [only, Bool.and_eq_false_iff, Bool.not_eq_false', Bool.and_eq_true, decide_eq_true_eq] at hnot
        rcases hnot with hc | ⟨hlt, hc⟩
        · simp only [contF, Bool.and_eq_true, decide_eq_true_eq] at hc
          refine ⟨k - 1, by omega, ?_⟩
          rw [del_lt k d (k - 1) (by omega)]; omega
        · simp only [contF, Bool.and_eq_true, decide_eq_true_eq, Nat.add_sub_cancel] at hc
          refine ⟨k, by omega, ?_⟩
          rw [del_ge k d k (Nat.le_refl _)]; omega
    · by_cases hlt : k < j
      · exact ⟨k, by omega, by rw [del_lt j d k hlt]; exact hdk⟩
      · refine ⟨k - 1, by omega, ?_⟩
        rw [del_ge j d (k - 1) (by omega), show k - 1 + 1 = k by omega]; exact hdk

/-- the structure of the cluster of `t` the repair pass walks over -/
theorem new_cluster (C : Ctx s n e m d r j a b) (hjb : j < b) :
    (∀ k, k < b - a → a + k < m - 1 ∧ posF (del j d) (a + k) = posF d a + k) ∧
    (∀ i, i < m - 1 → posF (del j d) i ≠ posF d a + (b - a)) ∧ posF d a + (b - a) + 1 < n := by
  have hbm := C.hbm
  have haj := C.haj
  have cb := C.contig b (by omega) (Nat.le_refl _)
  refine ⟨?_, ?_, ?_⟩
  · intro k hk
    refine ⟨by omega, ?_⟩
    by_cases h : a + k < j
    · rw [C.pn_lt _ h, C.contig _ (by omega) (by omega)]; omega
    · have h1 := C.pn_mid (a + k) (by omega) (by omega)
      have h2 := C.contig (a + k + 1) (by omega) (by omega)
      omega
  · rw [← cb]; exact new_nocell_Z C
  · have := C.fitb; omega

end ctx
end PyProb.QFRem
