/-
  BOUNDED CHECK (a test by kernel evaluation): `B2_remove` at q = 3 on every subset of two
  universes.
-/
import PyProb.Lemmas.QFBoundedDefs

namespace PyProb.QFBounded

theorem checkRemove_UA : checkRemove UA = true := by decide +kernel
theorem checkRemove_UB : checkRemove UB = true := by decide +kernel

end PyProb.QFBounded
