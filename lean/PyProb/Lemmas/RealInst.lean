/-
  The `ℝ` instance of `RealLike` (PyProb/Model/Sizing.lean) used for the C07 theorems, plus the
  unfolding lemmas that turn the generic sizing formulas into ordinary real-number expressions.

  `realLikeWith narrow` is the whole family of real instances, one for every candidate
  float32-narrowing function `narrow : ℝ → ℝ`; the registered instance is `realLikeWith id`.
  `bloomBits`, `bloomHashes`, `cmsWidth`, `cmsDepth`, `cuckooFpBits`, … do not use `narrow32`, so
  they are definitionally the same in every member of the family; only `bloomParams` does.
-/
import PyProb.Model.Sizing
import Mathlib.Analysis.SpecialFunctions.Log.Basic
import Mathlib.Analysis.SpecialFunctions.Log.Base
import Mathlib.Analysis.SpecialFunctions.Pow.Real
import Mathlib.Algebra.Order.Floor.Ring

namespace PyProb

open Classical

/-- Python `round(x)` on a real: nearest integer, ties to even. -/
noncomputable def roundHalfEven (x : ℝ) : Int :=
  let f : Int := ⌊x⌋
  if x - f < 1 / 2 then f else if x - f > 1 / 2 then f + 1 else if f % 2 = 0 then f else f + 1

/-- The real-number instance with an arbitrary float32-narrowing function. -/
@[reducible] noncomputable def realLikeWith (narrow : ℝ → ℝ) : RealLike ℝ where
  ofInt := fun i => (i : ℝ)
  const := fun _ num den => (num : ℝ) / (den : ℝ)
  add := fun a b => a + b
  sub := fun a b => a - b
  mul := fun a b => a * b
  div := fun a b => a / b
  neg := fun a => -a
  log := Real.log
  exp := Real.exp
  log2 := Real.logb 2
  pow := fun x y => x ^ y
  ceilInt := fun x => ⌈x⌉
  truncInt := fun x => if x < 0 then ⌈x⌉ else ⌊x⌋
  roundInt := roundHalfEven
  narrow32 := narrow
  lt := fun a b => decide (a < b)
  le := fun a b => decide (a ≤ b)

noncomputable instance instRealLikeReal : RealLike ℝ := realLikeWith id

/-- the code's literal `0.4804530139182` (exact value of the double) -/
noncomputable def c1 : ℝ := (Gen.bloomLn2SqNum : ℝ) / (Gen.bloomLn2SqDen : ℝ)
/-- the code's literal `0.6931471805599453` (exact value of the double) -/
noncomputable def c2 : ℝ := (Gen.bloomLn2Num : ℝ) / (Gen.bloomLn2Den : ℝ)

theorem c1_eq : c1 = 8655072057804149 / 18014398509481984 := by
  simp [c1, Gen.bloomLn2SqNum, Gen.bloomLn2SqDen]

theorem c2_eq : c2 = 6243314768165359 / 9007199254740992 := by
  simp [c2, Gen.bloomLn2Num, Gen.bloomLn2Den]

theorem cms_c2_eq : (Gen.cmsLn2Num : ℝ) / (Gen.cmsLn2Den : ℝ) = c2 := by
  simp [c2, Gen.bloomLn2Num, Gen.bloomLn2Den, Gen.cmsLn2Num, Gen.cmsLn2Den]

theorem c1_pos : 0 < c1 := by rw [c1_eq]; norm_num
theorem c2_pos : 0 < c2 := by rw [c2_eq]; norm_num

/-! ### round-half-even is within 1/2 -/

theorem abs_roundHalfEven_sub_le (x : ℝ) : |(roundHalfEven x : ℝ) - x| ≤ 1 / 2 := by
  have h1 : (⌊x⌋ : ℝ) ≤ x := Int.floor_le x
  have h2 : x < (⌊x⌋ : ℝ) + 1 := Int.lt_floor_add_one x
  unfold roundHalfEven
  simp only
  rw [abs_le]
  split_ifs with ha hb hc
  · constructor <;> linarith
  · push_cast; constructor <;> linarith
  · have : x - (⌊x⌋ : ℝ) = 1 / 2 := le_antisymm (not_lt.mp hb) (not_lt.mp ha)
    constructor <;> linarith
  · have : x - (⌊x⌋ : ℝ) = 1 / 2 := le_antisymm (not_lt.mp hb) (not_lt.mp ha)
    push_cast; constructor <;> linarith

theorem roundHalfEven_eq_of_lt_half (f : Int) (x : ℝ) (h1 : (f : ℝ) ≤ x) (h2 : x < f + 1 / 2) :
    roundHalfEven x = f := by
  have hf : ⌊x⌋ = f := Int.floor_eq_iff.mpr ⟨h1, by linarith⟩
  unfold roundHalfEven
  simp only [hf]
  rw [if_pos (by linarith)]

theorem roundHalfEven_nonneg {x : ℝ} (hx : 0 ≤ x) : 0 ≤ roundHalfEven x := by
  have hf : 0 ≤ ⌊x⌋ := Int.floor_nonneg.mpr hx
  unfold roundHalfEven
  simp only
  split_ifs <;> omega

theorem roundHalfEven_nonpos {x : ℝ} (hx : x ≤ 0) : roundHalfEven x ≤ 0 := by
  have h := abs_roundHalfEven_sub_le x
  rw [abs_le] at h
  have : (roundHalfEven x : ℝ) < 1 := by linarith [h.2]
  have : roundHalfEven x < 1 := by exact_mod_cast this
  omega

/-! ### unfolding the generic formulas at ℝ (any narrowing function) -/

section unfold
variable (nr : ℝ → ℝ)

@[simp] theorem rl_ofInt (i : Int) : @RealLike.ofInt ℝ (realLikeWith nr) i = (i : ℝ) := rfl
@[simp] theorem rl_const (b : UInt64) (num den : Nat) :
    @RealLike.const ℝ (realLikeWith nr) b num den = (num : ℝ) / (den : ℝ) := rfl
@[simp] theorem rl_add (a b : ℝ) : @RealLike.add ℝ (realLikeWith nr) a b = a + b := rfl
@[simp] theorem rl_sub (a b : ℝ) : @RealLike.sub ℝ (realLikeWith nr) a b = a - b := rfl
@[simp] theorem rl_mul (a b : ℝ) : @RealLike.mul ℝ (realLikeWith nr) a b = a * b := rfl
@[simp] theorem rl_div (a b : ℝ) : @RealLike.div ℝ (realLikeWith nr) a b = a / b := rfl
@[simp] theorem rl_neg (a : ℝ) : @RealLike.neg ℝ (realLikeWith nr) a = -a := rfl
@[simp] theorem rl_log (a : ℝ) : @RealLike.log ℝ (realLikeWith nr) a = Real.log a := rfl
@[simp] theorem rl_exp (a : ℝ) : @RealLike.exp ℝ (realLikeWith nr) a = Real.exp a := rfl
@[simp] theorem rl_log2 (a : ℝ) : @RealLike.log2 ℝ (realLikeWith nr) a = Real.logb 2 a := rfl
@[simp] theorem rl_pow (a b : ℝ) : @RealLike.pow ℝ (realLikeWith nr) a b = a ^ b := rfl
@[simp] theorem rl_ceilInt (a : ℝ) : @RealLike.ceilInt ℝ (realLikeWith nr) a = ⌈a⌉ := rfl
@[simp] theorem rl_truncInt (a : ℝ) :
    @RealLike.truncInt ℝ (realLikeWith nr) a = if a < 0 then ⌈a⌉ else ⌊a⌋ := rfl
@[simp] theorem rl_roundInt (a : ℝ) :
    @RealLike.roundInt ℝ (realLikeWith nr) a = roundHalfEven a := rfl
@[simp] theorem rl_narrow32 (a : ℝ) : @RealLike.narrow32 ℝ (realLikeWith nr) a = nr a := rfl
@[simp] theorem rl_lt (a b : ℝ) : @RealLike.lt ℝ (realLikeWith nr) a b = decide (a < b) := rfl
@[simp] theorem rl_le (a b : ℝ) : @RealLike.le ℝ (realLikeWith nr) a b = decide (a ≤ b) := rfl

theorem ofNat_real (n : Nat) : @RealLike.ofNat ℝ (realLikeWith nr) n = (n : ℝ) := by
  simp [RealLike.ofNat]

theorem bloomBits_real (n : Nat) (t : ℝ) :
    @bloomBits ℝ (realLikeWith nr) n t = ⌈(-(n : ℝ) * Real.log t) / c1⌉ := by
  simp [bloomBits, bloomLn2Sq, RealLike.ofNat, c1]

theorem bloomHashes_real (n : Nat) (m : Int) :
    @bloomHashes ℝ (realLikeWith nr) n m = roundHalfEven (c2 * (m : ℝ) / (n : ℝ)) := by
  simp [bloomHashes, bloomLn2, RealLike.ofNat, c2]

theorem cmsWidth_real (e : ℝ) : @cmsWidth ℝ (realLikeWith nr) e = ⌈(2 : ℝ) / e⌉ := by
  simp [cmsWidth]

theorem cmsDepth_real (c : ℝ) :
    @cmsDepth ℝ (realLikeWith nr) c = ⌈(-Real.log (1 - c)) / c2⌉ := by
  simp [cmsDepth, cmsLn2, cms_c2_eq]

theorem cuckooFpBits_real (e : ℝ) (b : Nat) :
    @cuckooFpBits ℝ (realLikeWith nr) e b
      = ⌈Real.logb 2 (1 / e) + Real.logb 2 (b : ℝ) + 1⌉ := by
  simp [cuckooFpBits, RealLike.ofNat]

theorem cuckooErrorRate_real (f b : Nat) :
    @cuckooErrorRate ℝ (realLikeWith nr) f b
      = 1 / (2 : ℝ) ^ ((f : ℝ) - (Real.logb 2 (b : ℝ) + 1)) := by
  simp [cuckooErrorRate, RealLike.ofNat]

theorem currentFpr_real (m k : Nat) (n : Int) :
    @currentFpr ℝ (realLikeWith nr) m k n
      = (1 - Real.exp ((((k : Int) * (-1) * n : Int) : ℝ) / (m : ℝ))) ^ (k : ℝ) := by
  simp [currentFpr, RealLike.ofNat]

/-- `bloomParams` at ℝ with the Boolean tests turned into propositions. -/
theorem bloomParams_real (n : Int) (p : ℝ) :
    @bloomParams ℝ (realLikeWith nr) n p =
      if n ≤ 0 then .error .initError
      else if ¬ (0 ≤ p ∧ p < 1) then .error .initError
      else if ¬ (0 < nr p) then .error .valueError
      else if @bloomHashes ℝ (realLikeWith nr) n.toNat
                (@bloomBits ℝ (realLikeWith nr) n.toNat (nr p)) = 0 then .error .initError
      else .ok (nr p,
                (@bloomHashes ℝ (realLikeWith nr) n.toNat
                  (@bloomBits ℝ (realLikeWith nr) n.toNat (nr p))).toNat,
                (@bloomBits ℝ (realLikeWith nr) n.toNat (nr p)).toNat) := by
  unfold bloomParams
  by_cases h1 : n ≤ 0
  · simp [h1]
  · by_cases h2 : (0 ≤ p ∧ p < 1)
    · by_cases h3 : 0 < nr p
      · simp [h1, h2, h3]
      · simp [h1, h2, h3]
    · have hb : (!(decide ((0 : ℝ) ≤ p) && decide (p < 1))) = true := by
        rcases lt_or_ge p 0 with h | h
        · simp [not_le.mpr h]
        · have : ¬ p < 1 := fun b => h2 ⟨h, b⟩
          simp [this]
      simp only [h1, if_false, rl_le, rl_lt, rl_ofInt, Int.cast_zero, Int.cast_one]
      rw [if_pos hb, if_pos h2]

end unfold

end PyProb
