/-
  Lemmas on the export formats, cuckoo family: closed forms of `struct.pack` for the layouts
  extracted from the source (`Generated/Repo.lean`), bucket parsing.
-/
import PyProb.Lemmas.Codec
import PyProb.Model.Cuckoo

namespace PyProb

/-! ### closed forms of `pack` for the concrete layouts (all native paddings are zero) -/

theorem cuckooFooter_pack (a b : Int) : Gen.cuckooFooter.pack [a, b] =
    if a < 0 ∨ a > 4294967295 then .error .structError
    else if b < 0 ∨ b > 4294967295 then .error .structError
    else .ok (leBytesInt 4 a ++ leBytesInt 4 b) := by
  simp [Layout.pack, packGo, Gen.cuckooFooter, Field.lo, Field.hi, Gen.uint32Max, Layout.padBefore, Field.size, encField, Layout.isBig]
  repeat' split
  all_goals simp_all

theorem cuckooFooter_size : Gen.cuckooFooter.size = 8 := by decide

/-! ### cuckoo buckets -/

/-- the cell the export writes for one bin -/
def cuckooCell (counting : Bool) (bin : CBin) : Bytes :=
  if counting then leBytes 4 bin.1 ++ leBytes 4 bin.2 else leBytes 4 bin.1

def cuckooW (counting : Bool) : Nat := if counting then 8 else 4

/-- what a bin must satisfy to survive the export format -/
def BinOK (counting : Bool) (bin : CBin) : Prop :=
  0 < bin.1 ∧ bin.1 < 2 ^ 32 ∧ bin.2 < 2 ^ 32 ∧ (counting = false → bin.2 = 1)

instance (counting : Bool) (bin : CBin) : Decidable (BinOK counting bin) := by
  unfold BinOK; infer_instance

theorem cuckooCell_length (counting : Bool) (bin : CBin) : (cuckooCell counting bin).length = cuckooW counting := by
  unfold cuckooCell cuckooW; cases counting <;> simp

theorem ofLE_replicate_zero (n : Nat) : ofLE (List.replicate n 0) = 0 := by
  induction n with
  | zero => rfl
  | succ n ih => simp [List.replicate_succ, ofLE, ih]

theorem parseBucket_zeros (counting : Bool) (z : Nat) :
    Cuckoo.parseBucket counting z (List.replicate (z * cuckooW counting) 0) = [] := by
  induction z with
  | zero => rfl
  | succ z ih =>
      have hsplit : List.replicate ((z + 1) * cuckooW counting) 0
          = List.replicate (cuckooW counting) 0 ++ List.replicate (z * cuckooW counting) 0 := by
        rw [List.replicate_append_replicate]; congr 1; rw [Nat.succ_mul]; omega
      simp only [Cuckoo.parseBucket]
      have h4 : List.take 4 (List.replicate ((z + 1) * cuckooW counting) 0) = List.replicate 4 0 := by
        rw [List.take_replicate]; congr 1
        have : 4 ≤ cuckooW counting := by unfold cuckooW; cases counting <;> simp
        rw [Nat.succ_mul]; omega
      rw [h4, ofLE_replicate_zero]
      simp only [Nat.lt_irrefl, if_false]
      have hd : List.drop (if counting = true then 8 else 4) (List.replicate ((z + 1) * cuckooW counting) 0)
          = List.replicate (z * cuckooW counting) 0 := by
        rw [hsplit]; exact List.drop_left' (by simp [cuckooW])
      rw [hd, ih]

theorem parseBucket_bins (counting : Bool) (bins : List CBin) (z : Nat)
    (h : ∀ bin ∈ bins, BinOK counting bin) :
    Cuckoo.parseBucket counting (bins.length + z)
      (bins.flatMap (cuckooCell counting) ++ List.replicate (z * cuckooW counting) 0) = bins := by
  induction bins with
  | nil => simpa using parseBucket_zeros counting z
  | cons bin bins ih =>
      obtain ⟨h0, h1, h2, h3⟩ := h bin (by simp)
      have ih := ih (fun x hx => h x (List.mem_cons_of_mem _ hx))
      have hlen : bins.length + 1 + z = (bins.length + z) + 1 := by omega
      simp only [List.length_cons, hlen, Cuckoo.parseBucket, List.flatMap_cons, List.append_assoc]
      have hfp : ofLE (List.take 4 (cuckooCell counting bin ++
          (bins.flatMap (cuckooCell counting) ++ List.replicate (z * cuckooW counting) 0))) = bin.1 := by
        unfold cuckooCell
        cases counting <;> simp only [Bool.false_eq_true, if_false, if_true, List.append_assoc]
          <;> rw [List.take_left' (leBytes_length _ _), ofLE_leBytes_of_lt (by simpa using h1)]
      have hdrop : List.drop (if counting = true then 8 else 4) (cuckooCell counting bin ++
          (bins.flatMap (cuckooCell counting) ++ List.replicate (z * cuckooW counting) 0))
          = bins.flatMap (cuckooCell counting) ++ List.replicate (z * cuckooW counting) 0 :=
        List.drop_left' (by rw [cuckooCell_length]; rfl)
      have hcnt : (if counting = true then ofLE (List.take 4 (List.drop 4 (cuckooCell counting bin ++
          (bins.flatMap (cuckooCell counting) ++ List.replicate (z * cuckooW counting) 0)))) else 1) = bin.2 := by
        cases counting
        · simp [h3 rfl]
        · simp only [if_true, cuckooCell, List.append_assoc]
          rw [List.drop_left' (leBytes_length _ _), List.take_left' (leBytes_length _ _),
            ofLE_leBytes_of_lt (by simpa using h2)]
      rw [hfp, hcnt, hdrop, ih, if_pos h0]

/-- the bytes the export writes for one bucket -/
def bucketBytes (counting : Bool) (b : Nat) (bkt : List CBin) : Bytes :=
  bkt.flatMap (cuckooCell counting) ++ List.replicate ((b - bkt.length) * cuckooW counting) 0

theorem bucketBytes_length (counting : Bool) (b : Nat) (bkt : List CBin) (h : bkt.length ≤ b) :
    (bucketBytes counting b bkt).length = cuckooW counting * b := by
  have : (bkt.flatMap (cuckooCell counting)).length = bkt.length * cuckooW counting := by
    induction bkt with
    | nil => simp
    | cons x xs ih =>
        simp only [List.flatMap_cons, List.length_append, cuckooCell_length, List.length_cons]
        rw [ih (by simp at h; omega), Nat.succ_mul]; omega
  simp only [bucketBytes, List.length_append, List.length_replicate, this]
  rw [← Nat.add_mul, Nat.mul_comm]; congr 1; omega

theorem parseBuckets_body (counting : Bool) (b : Nat) (buckets : List (List CBin)) (suf : Bytes)
    (h : ∀ bkt ∈ buckets, bkt.length ≤ b ∧ ∀ bin ∈ bkt, BinOK counting bin) :
    Cuckoo.parseBuckets counting b buckets.length (buckets.flatMap (bucketBytes counting b) ++ suf) = buckets := by
  induction buckets with
  | nil => rfl
  | cons bkt rest ih =>
      obtain ⟨hl, hb⟩ := h bkt (by simp)
      have ih := ih (fun x hx => h x (List.mem_cons_of_mem _ hx))
      simp only [List.length_cons, Cuckoo.parseBuckets, List.flatMap_cons, List.append_assoc]
      have hlen := bucketBytes_length counting b bkt hl
      unfold cuckooW at hlen
      rw [List.take_left' hlen, List.drop_left' hlen, ih]
      congr 1
      have := parseBucket_bins counting bkt (b - bkt.length) hb
      rw [show bkt.length + (b - bkt.length) = b by omega] at this
      exact this

theorem body_length (counting : Bool) (b : Nat) (buckets : List (List CBin))
    (h : ∀ bkt ∈ buckets, bkt.length ≤ b) :
    (buckets.flatMap (bucketBytes counting b)).length = buckets.length * (cuckooW counting * b) := by
  induction buckets with
  | nil => simp
  | cons bkt rest ih =>
      simp only [List.flatMap_cons, List.length_append, List.length_cons]
      rw [bucketBytes_length _ _ _ (h bkt (by simp)), ih (fun x hx => h x (List.mem_cons_of_mem _ hx)), Nat.succ_mul]
      omega

end PyProb
