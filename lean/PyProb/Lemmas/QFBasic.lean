/-
  Unconditional facts about the quotient-filter model: which errors the loops can produce,
  preservation of the table shape (quotient, array lengths, auto flag) and of the element counter
  by the write paths.
-/
import PyProb.Model.QF

namespace PyProb.QF

/-! ### the fuelled loops of the look-up and insertion paths can only fail by running out of fuel -/

theorem startBack_err (s : QF) (quot fuel j c : Nat) (e : Err) (h : startBack s quot fuel j c = .error e) :
    e = .diverged := by
  induction fuel generalizing j c with
  | zero => simp [startBack] at h; exact h.symm
  | succ f ih =>
      simp only [startBack] at h
      split at h
      · exact ih _ _ h
      · cases h

theorem startFwd_err (s : QF) (fuel j c : Nat) (e : Err) (h : startFwd s fuel j c = .error e) :
    e = .diverged := by
  induction fuel generalizing j c with
  | zero => simp [startFwd] at h; exact h.symm
  | succ f ih =>
      simp only [startFwd] at h
      split at h
      · split at h
        · cases h
        · exact ih _ _ h
      · exact ih _ _ h

theorem getStartIndex_err (s : QF) (quot : Nat) (e : Err) (h : getStartIndex s quot = .error e) :
    e = .diverged := by
  simp only [getStartIndex] at h
  split at h
  · cases h
  · split at h
    · rename_i e' he; cases h; exact startBack_err _ _ _ _ _ _ he
    · exact startFwd_err _ _ _ _ _ h

theorem containedLoop_err (s : QF) (rr fuel idx st : Nat) (e : Err)
    (h : containedLoop s rr fuel idx st = .error e) : e = .diverged := by
  induction fuel generalizing idx st with
  | zero => simp [containedLoop] at h; exact h.symm
  | succ f ih =>
      simp only [containedLoop] at h
      split at h
      · cases h
      · (repeat' split at h) <;> first | (cases h; done) | exact ih _ _ h

theorem containedAtLoc_err (s : QF) (qq rr : Nat) (e : Err) (h : containedAtLoc s qq rr = .error e) :
    e = .diverged := by
  simp only [containedAtLoc] at h
  split at h
  · cases h
  · split at h
    · rename_i e' he; cases h; exact getStartIndex_err _ _ _ he
    · exact containedLoop_err _ _ _ _ _ _ h

theorem shiftLoop_err (ins fuel : Nat) (s : QF) (next : Nat) (e : Err)
    (h : shiftLoop ins fuel s next = .error e) : e = .diverged := by
  induction fuel generalizing s next with
  | zero => simp [shiftLoop] at h; exact h.symm
  | succ f ih =>
      simp only [shiftLoop] at h
      split at h
      · cases h
      · exact ih _ _ h

theorem shiftInsert_err (s : QF) (qq rr orig ins : Nat) (flag : Bool) (e : Err)
    (h : shiftInsert s qq rr orig ins flag = .error e) : e = .diverged := by
  simp only [shiftInsert] at h
  split at h
  · cases h
  · split at h
    · rename_i e' he; cases h; exact shiftLoop_err _ _ _ _ _ he
    · cases h

theorem addScan_err (s : QF) (rr fuel idx st : Nat) (e : Err) (h : addScan s rr fuel idx st = .error e) :
    e = .diverged := by
  induction fuel generalizing idx st with
  | zero => simp [addScan] at h; exact h.symm
  | succ f ih =>
      simp only [addScan] at h
      split at h
      · exact ih _ _ h
      · cases h

/-- the part of `_add` after the capacity test -/
def addCore (s : QF) (qq rr : Nat) : R QF :=
  if s.isEmpty qq then .ok { s with rem := s.rem.set qq rr, occ := s.occ.set qq true }
  else
    match s.getStartIndex qq with
    | .error e => .error e
    | .ok start =>
        if !bit s.occ qq then s.shiftInsert qq rr start start false
        else
          match addScan s rr s.fuelOf start 0 with
          | .error e => .error e
          | .ok (idx, starts) => s.shiftInsert qq rr start idx (starts != 1)

theorem addQR_eq (s : QF) (qq rr : Nat) :
    addQR s qq rr =
      if s.count ≥ (s.size : Int) - 1 then .error .qfError
      else match addCore s qq rr with
        | .error e => .error e
        | .ok t => .ok { t with count := t.count + 1 } := rfl

theorem addCore_err (s : QF) (qq rr : Nat) (e : Err) (h : addCore s qq rr = .error e) : e = .diverged := by
  simp only [addCore] at h
  split at h
  · cases h
  · split at h
    · rename_i e' he; cases h; exact getStartIndex_err _ _ _ he
    · split at h
      · exact shiftInsert_err _ _ _ _ _ _ _ h
      · split at h
        · rename_i e' he; cases h; exact addScan_err _ _ _ _ _ _ he
        · exact shiftInsert_err _ _ _ _ _ _ _ h

/-! ### shape -/

/-- same quotient, same auto flag, same array lengths, same counter -/
structure SameShape (s t : QF) : Prop where
  q : t.q = s.q
  auto : t.auto = s.auto
  rem : t.rem.length = s.rem.length
  occ : t.occ.length = s.occ.length
  cont : t.cont.length = s.cont.length
  shift : t.shift.length = s.shift.length
  count : t.count = s.count

theorem SameShape.refl (s : QF) : SameShape s s := ⟨rfl, rfl, rfl, rfl, rfl, rfl, rfl⟩

theorem SameShape.trans {s t u : QF} (h₁ : SameShape s t) (h₂ : SameShape t u) : SameShape s u :=
  ⟨h₂.q.trans h₁.q, h₂.auto.trans h₁.auto, h₂.rem.trans h₁.rem, h₂.occ.trans h₁.occ,
   h₂.cont.trans h₁.cont, h₂.shift.trans h₁.shift, h₂.count.trans h₁.count⟩

theorem SameShape.size {s t : QF} (h : SameShape s t) : t.size = s.size := by
  simp [QF.size, h.q]

theorem shiftLoop_shape (ins fuel : Nat) (s : QF) (next : Nat) (t : QF)
    (h : shiftLoop ins fuel s next = .ok t) : SameShape s t := by
  induction fuel generalizing s next with
  | zero => simp [shiftLoop] at h
  | succ f ih =>
      simp only [shiftLoop] at h
      split at h
      · cases h; constructor <;> simp
      · have := ih _ _ h
        refine SameShape.trans ?_ this
        constructor <;> simp

theorem place_shape (s : QF) (qq rr orig ins : Nat) : SameShape s (s.place qq rr orig ins) := by
  constructor <;> simp [place]

theorem shiftInsert_shape (s : QF) (qq rr orig ins : Nat) (flag : Bool) (t : QF)
    (h : shiftInsert s qq rr orig ins flag = .ok t) : SameShape s t := by
  simp only [shiftInsert] at h
  split at h
  · cases h; exact place_shape ..
  · split at h
    · cases h
    · rename_i s' hs'
      have h1 := shiftLoop_shape _ _ _ _ _ hs'
      cases h
      refine SameShape.trans h1 (SameShape.trans (place_shape s' qq rr orig ins) ?_)
      split
      · constructor <;> simp
      · exact SameShape.refl _

theorem addCore_shape (s : QF) (qq rr : Nat) (t : QF) (h : addCore s qq rr = .ok t) : SameShape s t := by
  simp only [addCore] at h
  split at h
  · cases h; constructor <;> simp
  · split at h
    · cases h
    · split at h
      · exact shiftInsert_shape _ _ _ _ _ _ _ h
      · split at h
        · cases h
        · exact shiftInsert_shape _ _ _ _ _ _ _ h

theorem removeShift_shape (fuel : Nat) (s : QF) (idx next : Nat) (t : QF) (i j : Nat)
    (h : removeShift fuel s idx next = .ok (t, i, j)) : SameShape s t := by
  induction fuel generalizing s idx next with
  | zero => simp [removeShift] at h
  | succ f ih =>
      simp only [removeShift] at h
      split at h
      · have := ih _ _ _ h
        refine SameShape.trans ?_ this
        constructor <;> simp
      · cases h; exact SameShape.refl _

theorem removeRepair_shape (stop fuel : Nat) (s : QF) (m : Nat) (cur : Option Nat) (queue : List Nat)
    (t : QF) (h : removeRepair stop fuel s m cur queue = .ok t) : SameShape s t := by
  induction fuel generalizing s m cur queue with
  | zero => simp [removeRepair] at h
  | succ f ih =>
      simp only [removeRepair] at h
      split at h
      · cases h; exact SameShape.refl _
      · split at h
        · cases h
        · have := ih _ _ _ _ h
          refine SameShape.trans ?_ this
          split
          · constructor <;> simp
          · exact SameShape.refl _

/-- `_remove_element` of a stored element: same shape, counter decremented -/
theorem removeQR_shape_some (s : QF) (qq rr idx : Nat) (t : QF)
    (hc : containedAtLoc s qq rr = .ok (some idx)) (h : removeQR s qq rr = .ok t) :
    SameShape { s with count := s.count - 1 } t := by
  simp only [removeQR, hc] at h
  split at h
  · cases h
    split
    · constructor <;> simp
    · constructor <;> simp
  · split at h
    · cases h
    · split at h
      · cases h
      · rename_i minIdx _ s2 i2 n2 hsh
        have h1 := removeShift_shape _ _ _ _ _ _ _ hsh
        have h2 := removeRepair_shape _ _ _ _ _ _ _ h
        refine SameShape.trans ?_ h2
        refine SameShape.trans ?_ (SameShape.trans h1 ?_)
        · split
          · constructor <;> simp
          · exact SameShape.refl _
        · split
          · constructor <;> simp
          · constructor <;> simp

/-! ### `add_alt` after the resize test -/

/-- `add_alt` after the auto-resize test: look the hash up, insert it when it is not there -/
def addTail (s : QF) (h : Nat) : R QF :=
  match s.containedAtLoc (s.quotOf h) (s.remOf h) with
  | .error e => .error e
  | .ok (some _) => .ok s
  | .ok none => s.addQR (s.quotOf h) (s.remOf h)

theorem addAlt_succ (b : Nat) (s : QF) (h : Nat) :
    addAlt (b + 1) s h =
      match (if s.auto && s.overLoaded then resize b s none else .ok s) with
      | .error e => .error e
      | .ok s => addTail s h := by
  rw [addAlt]; rfl

theorem addAlt_noresize (b : Nat) (s : QF) (h : Nat) (hno : (s.auto && s.overLoaded) = false) :
    addAlt (b + 1) s h = addTail s h := by
  rw [addAlt_succ, hno]; rfl

end PyProb.QF
