/-
  Bridges between the model's codecs (`Model/Base.lean`) and the independently written layout
  specification (`Spec/Layout.lean`), cuckoo family: buckets.
-/
import PyProb.Lemmas.LayoutSpecCommon
import PyProb.Lemmas.FormatsCuckoo

namespace PyProb

/-! ### cuckoo buckets -/

theorem flatMap_u32le_zeros (n : Nat) : (List.replicate n 0).flatMap Spec.u32le = List.replicate (n * 4) 0 := by
  induction n with
  | zero => rfl
  | succ n ih =>
      rw [List.replicate_succ, List.flatMap_cons, ih, Nat.succ_mul, Nat.add_comm (n * 4) 4,
        ← List.replicate_append_replicate]
      rfl

theorem flatMap_pair_zeros (n : Nat) :
    (List.replicate n ((0, 0) : Nat × Nat)).flatMap (fun s => Spec.u32le s.1 ++ Spec.u32le s.2)
      = List.replicate (n * 8) 0 := by
  induction n with
  | zero => rfl
  | succ n ih =>
      rw [List.replicate_succ, List.flatMap_cons, ih, Nat.succ_mul, Nat.add_comm (n * 8) 8,
        ← List.replicate_append_replicate]
      rfl

theorem bucketBytes_plain_spec (b : Nat) (bkt : List CBin) :
    bucketBytes false b bkt = (bkt.map (fun s : CBin => s.1) ++ List.replicate (b - bkt.length) 0).flatMap Spec.u32le := by
  simp only [bucketBytes, cuckooW, Bool.false_eq_true, if_false, List.flatMap_append,
    flatMap_u32le_zeros, List.flatMap_map]
  congr 1
  apply flatMap_congr'
  intro x _; simp only [cuckooCell, Bool.false_eq_true, if_false, leBytes4_eq]

theorem bucketBytes_counting_spec (b : Nat) (bkt : List CBin) :
    bucketBytes true b bkt =
      (bkt ++ List.replicate (b - bkt.length) (0, 0)).flatMap fun s : CBin => Spec.u32le s.1 ++ Spec.u32le s.2 := by
  simp only [bucketBytes, cuckooW, if_true, List.flatMap_append, flatMap_pair_zeros]
  congr 1
  apply flatMap_congr'
  intro x _; simp only [cuckooCell, if_true, leBytes4_eq]

end PyProb
