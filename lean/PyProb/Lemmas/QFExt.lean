/-
  Extensional tools for the linear view `QFLin.Lin` of a quotient-filter table, shared by the
  write-path proofs:

  * `Extra`: the facts about a table that `Lin` leaves open (array lengths; remainders are zero
    outside the cells).  `Lin` + `Extra` determine the four arrays: `lin_ext`.
  * `lin_congr`: `Lin`/`Extra` only look at `d`, `r` below `m`.
  * `rebase`: change of the empty slot.  A table in the linear view from slot `e` is also a table in
    the linear view from any other slot `io n e c` that stays empty, the element sequence being
    rotated (`rotD`, `rotR`); stated with the hypothesis that the rotated sequence fits.
  * `pw_ext`: two lists sorted by the same asymmetric relation with the same members are equal.
  * `Spec.layout_extra`, `Spec.layout_lin_at`: the canonical layout `Spec.layout q auto S` is a table
    in the linear view (with `Extra`) from ANY slot `e` nothing hashes to and in front of which the
    placement of `S` fits, not only from the slot `Spec.emptySlot` that its definition uses.  (Both
    write paths need this: the empty slot chosen for the larger set also stays empty in the table of
    the smaller set.)
-/
import PyProb.Lemmas.QFLin
import PyProb.Lemmas.QFLinHashes
import PyProb.Lemmas.QFReadLayout

namespace PyProb.QFLin
open PyProb PyProb.QF

/-! ### what `Lin` leaves open -/

/-- array lengths, and remainders are zero outside the cells -/
structure Extra (s : QF) (n e m : Nat) (d : Nat → Nat) : Prop where
  lrem : s.rem.length = n
  locc : s.occ.length = n
  lcont : s.cont.length = n
  lshift : s.shift.length = n
  rem0 : ∀ x, x < n → (∀ i, i < m → posF d i ≠ x) → s.remAt (io n e x) = 0

theorem list_ext_getD {α : Type} (l₁ l₂ : List α) (n : Nat) (dflt : α) (h₁ : l₁.length = n)
    (h₂ : l₂.length = n) (h : ∀ j, j < n → l₁.getD j dflt = l₂.getD j dflt) : l₁ = l₂ := by
  apply List.ext_getElem (by omega)
  intro j hj₁ hj₂
  have := h j (by omega)
  simpa [List.getD_eq_getElem?_getD, List.getElem?_eq_getElem hj₁, List.getElem?_eq_getElem hj₂] using this

theorem io_lt (n e x : Nat) (hn : 0 < n) : io n e x < n := Nat.mod_lt _ hn

/-- every slot is at some distance -/
theorem io_surj (n e j : Nat) (he : e < n) (hj : j < n) : ∃ y, y < n ∧ io n e y = j := by
  refine ⟨(j + n - (e + 1)) % n, Nat.mod_lt _ (by omega), ?_⟩
  simp only [io]
  rw [Nat.add_mod_mod]
  have : e + 1 + (j + n - (e + 1)) = j + n := by omega
  rw [this, Nat.add_mod_right]
  exact Nat.mod_eq_of_lt hj

theorem io_add_n (n e x : Nat) : io n e (x + n) = io n e x := by
  simp only [io]
  rw [← Nat.add_assoc, Nat.add_mod_right]

/-- the distance from slot `io n e c` in terms of the distance from `e` -/
theorem io_io (n e c y : Nat) : io n (io n e c) y = io n e (c + 1 + y) := by
  simp only [io]
  rw [Nat.add_assoc ((e + 1 + c) % n), Nat.mod_add_mod]
  congr 1; omega

theorem posF_congr (d d' : Nat → Nat) (i : Nat) (h : ∀ k, k ≤ i → d k = d' k) : posF d i = posF d' i := by
  induction i with
  | zero => simp only [posF]; exact h 0 (Nat.le_refl _)
  | succ i ih =>
      simp only [posF]
      rw [ih (fun k hk => h k (by omega)), h (i + 1) (Nat.le_refl _)]

section ext
variable {s s' : QF} {n e m : Nat} {d r d' r' : Nat → Nat}

/-- `Lin` and `Extra` only depend on `d`, `r` below `m` -/
theorem lin_congr (L : Lin s n e m d r) (hd : ∀ i, i < m → d i = d' i) (hr : ∀ i, i < m → r i = r' i) :
    Lin s n e m d' r' := by
  have hp : ∀ i, i < m → posF d i = posF d' i := fun i hi => posF_congr d d' i (fun k hk => hd k (by omega))
  refine ⟨L.n2, L.size, L.he, ?_, ?_, ?_, ?_, ?_, ?_, ?_⟩
  · intro i hi
    rw [← hd i (by omega), ← hd (i + 1) hi, ← hr i (by omega), ← hr (i + 1) hi]
    exact L.sorted i hi
  · intro i hi; rw [← hp i hi]; exact L.fit i hi
  · intro i hi
    rw [← hp i hi, L.cont i hi, hd i hi]
    by_cases h0 : i = 0
    · simp [h0]
    · rw [hd (i - 1) (by omega)]
  · intro i hi; rw [← hp i hi, ← hd i hi]; exact L.shift i hi
  · intro i hi; rw [← hp i hi, ← hr i hi]; exact L.rem i hi
  · intro x hx h
    exact L.nocell x hx (fun i hi => by rw [hp i hi]; exact h i hi)
  · intro x hx
    rw [L.occ x hx]
    constructor
    · rintro ⟨i, hi, h⟩; exact ⟨i, hi, by rw [← hd i hi]; exact h⟩
    · rintro ⟨i, hi, h⟩; exact ⟨i, hi, by rw [hd i hi]; exact h⟩

theorem extra_congr (X : Extra s n e m d) (hd : ∀ i, i < m → d i = d' i) : Extra s n e m d' := by
  have hp : ∀ i, i < m → posF d i = posF d' i := fun i hi => posF_congr d d' i (fun k hk => hd k (by omega))
  refine ⟨X.lrem, X.locc, X.lcont, X.lshift, ?_⟩
  intro x hx h
  exact X.rem0 x hx (fun i hi => by rw [hp i hi]; exact h i hi)

/-- **same view, same table**: `Lin` and `Extra` determine the four arrays -/
theorem lin_ext (L : Lin s n e m d r) (X : Extra s n e m d) (L' : Lin s' n e m d r)
    (X' : Extra s' n e m d) (hq : s.q = s'.q) (hc : s.count = s'.count) (ha : s.auto = s'.auto) :
    s = s' := by
  have hn : 0 < n := by have := L.n2; omega
  have key : ∀ j, j < n → bit s.occ j = bit s'.occ j ∧ bit s.cont j = bit s'.cont j ∧
      bit s.shift j = bit s'.shift j ∧ s.remAt j = s'.remAt j := by
    intro j hj
    obtain ⟨y, hy, rfl⟩ := io_surj n e j L.he hj
    refine ⟨?_, ?_⟩
    · have h1 := L.occ y hy
      have h2 := L'.occ y hy
      cases hb : bit s.occ (io n e y) <;> cases hb' : bit s'.occ (io n e y)
      · rfl
      · have := h1.2 (h2.1 hb'); rw [hb] at this; cases this
      · have := h2.2 (h1.1 hb); rw [hb'] at this; cases this
      · rfl
    · by_cases hcell : ∃ i, i < m ∧ posF d i = y
      · obtain ⟨i, hi, rfl⟩ := hcell
        exact ⟨by rw [L.cont i hi, L'.cont i hi], by rw [L.shift i hi, L'.shift i hi],
          by rw [L.rem i hi, L'.rem i hi]⟩
      · have hno : ∀ i, i < m → posF d i ≠ y := fun i hi h => hcell ⟨i, hi, h⟩
        have h1 := L.nocell y hy hno
        have h2 := L'.nocell y hy hno
        exact ⟨by rw [h1.1, h2.1], by rw [h1.2, h2.2], by rw [X.rem0 y hy hno, X'.rem0 y hy hno]⟩
  have e1 : s.occ = s'.occ := list_ext_getD _ _ n false X.locc X'.locc (fun j hj => (key j hj).1)
  have e2 : s.cont = s'.cont := list_ext_getD _ _ n false X.lcont X'.lcont (fun j hj => (key j hj).2.1)
  have e3 : s.shift = s'.shift := list_ext_getD _ _ n false X.lshift X'.lshift (fun j hj => (key j hj).2.2.1)
  have e4 : s.rem = s'.rem := list_ext_getD _ _ n 0 X.lrem X'.lrem (fun j hj => (key j hj).2.2.2)
  cases s; cases s'
  simp only at hq hc ha e1 e2 e3 e4
  subst hq hc ha e1 e2 e3 e4
  rfl

end ext

/-! ### change of the empty slot -/

/-- the homes read from slot `io n e c`, the elements `a, …, m-1` first -/
def rotD (n m a c : Nat) (d : Nat → Nat) (i : Nat) : Nat :=
  if i < m - a then d (i + a) - (c + 1) else d (i - (m - a)) + (n - 1 - c)

def rotR (m a : Nat) (r : Nat → Nat) (i : Nat) : Nat :=
  if i < m - a then r (i + a) else r (i - (m - a))

section rebase
variable {s : QF} {n e m : Nat} {d r : Nat → Nat}

theorem rotD_snd_ge (n m a c : Nat) (d : Nat → Nat) (ha : a ≤ m) (hc : c < n) (u : Nat) (hu : u < a) :
    posF d u + (n - 1 - c) ≤ posF (rotD n m a c d) (m - a + u) := by
  induction u with
  | zero =>
      have h1 : rotD n m a c d (m - a) = d 0 + (n - 1 - c) := by simp [rotD]
      have h2 := p_ge_d (rotD n m a c d) (m - a)
      simp only [Nat.add_zero, posF]
      omega
  | succ u ih =>
      have ih := ih (by omega)
      have h1 : rotD n m a c d (m - a + (u + 1)) = d (u + 1) + (n - 1 - c) := by
        simp only [rotD]
        rw [if_neg (by omega)]
        congr 2; omega
      rw [show m - a + (u + 1) = (m - a + u) + 1 by omega] at h1 ⊢
      simp only [posF, h1]
      omega

/-- positions in the rotated view, given that the rotated sequence fits -/
theorem rot_pos (L : Lin s n e m d r) (a c : Nat) (ha : a ≤ m) (hc : c < n)
    (h1 : ∀ i, i < a → d i < c) (h2 : ∀ i, a ≤ i → i < m → c < d i)
    (hfit : ∀ i, i < m → posF (rotD n m a c d) i + 2 ≤ n) :
    (∀ u, u < a → posF d u + 1 ≤ c) ∧
    (∀ i, i < m - a → c + 1 ≤ posF d (i + a) ∧ posF (rotD n m a c d) i = posF d (i + a) - (c + 1)) ∧
    (∀ u, u < a → posF (rotD n m a c d) (m - a + u) = posF d u + (n - 1 - c)) := by
  have hA : ∀ u, u < a → posF d u + 1 ≤ c := by
    intro u hu
    have := rotD_snd_ge n m a c d ha hc u hu
    have := hfit (m - a + u) (by omega)
    omega
  have hB : ∀ i, i < m - a → c + 1 ≤ posF d (i + a) ∧
      posF (rotD n m a c d) i = posF d (i + a) - (c + 1) := by
    intro i
    induction i with
    | zero =>
        intro hi
        have hda := h2 a (Nat.le_refl _) (by omega)
        have hpa : posF d a = d a := by
          cases a with
          | zero => rfl
          | succ a' =>
              have := hA a' (by omega)
              simp only [posF]; omega
        have hr : rotD n m a c d 0 = d a - (c + 1) := by simp [rotD, hi]
        have hp0 : posF (rotD n m a c d) 0 = rotD n m a c d 0 := rfl
        rw [Nat.zero_add, hp0, hr, hpa]
        omega
    | succ i ih =>
        intro hi
        obtain ⟨ih1, ih2⟩ := ih (by omega)
        have hdi := h2 (i + 1 + a) (by omega) (by omega)
        have : rotD n m a c d (i + 1) = d (i + 1 + a) - (c + 1) := by simp [rotD, hi]
        rw [show i + 1 + a = (i + a) + 1 by omega] at hdi this ⊢
        simp only [posF, this, ih2]
        omega
  refine ⟨hA, hB, ?_⟩
  intro u
  induction u with
  | zero =>
      intro hu
      have h1' : rotD n m a c d (m - a) = d 0 + (n - 1 - c) := by simp [rotD]
      simp only [Nat.add_zero]
      cases hma : m - a with
      | zero => rw [hma] at h1'; simp only [posF, h1']
      | succ k =>
          rw [hma] at h1'
          obtain ⟨hb1, hb2⟩ := hB k (by omega)
          have hf := L.fit (k + a) (by omega)
          simp only [posF, h1', hb2]
          omega
  | succ u ih =>
      intro hu
      have ih := ih (by omega)
      have h1' : rotD n m a c d (m - a + (u + 1)) = d (u + 1) + (n - 1 - c) := by
        simp only [rotD]
        rw [if_neg (by omega)]
        congr 2; omega
      rw [show m - a + (u + 1) = (m - a + u) + 1 by omega] at h1' ⊢
      simp only [posF, h1', ih]
      omega

/-- the slot of a rotated position is the slot of the old position -/
theorem rot_slot (L : Lin s n e m d r) (a c : Nat) (ha : a ≤ m) (hc : c < n)
    (h1 : ∀ i, i < a → d i < c) (h2 : ∀ i, a ≤ i → i < m → c < d i)
    (hfit : ∀ i, i < m → posF (rotD n m a c d) i + 2 ≤ n) (i : Nat) (hi : i < m) :
    io n (io n e c) (posF (rotD n m a c d) i) =
      io n e (posF d (if i < m - a then i + a else i - (m - a))) := by
  obtain ⟨hA, hB, hC⟩ := rot_pos L a c ha hc h1 h2 hfit
  rw [io_io]
  by_cases hia : i < m - a
  · obtain ⟨hb1, hb2⟩ := hB i hia
    rw [if_pos hia, hb2]
    congr 1; omega
  · have := hC (i - (m - a)) (by omega)
    rw [show m - a + (i - (m - a)) = i by omega] at this
    rw [if_neg hia, this]
    have hpa := hA (i - (m - a)) (by omega)
    rw [show c + 1 + (posF d (i - (m - a)) + (n - 1 - c)) = posF d (i - (m - a)) + n by omega, io_add_n]

/-- the old distance of the slot at new distance `y` -/
def oldDist (n c y : Nat) : Nat := if c + 1 + y < n then c + 1 + y else c + 1 + y - n

theorem io_oldDist (n e c y : Nat) (hc : c < n) (hy : y < n) : io n (io n e c) y = io n e (oldDist n c y) := by
  rw [io_io]
  unfold oldDist
  split
  · rfl
  · rw [← io_add_n n e (c + 1 + y - n)]
    congr 1; omega

/-- no rotated position at `y` means no old position at the old distance of `y` -/
theorem rot_nocell (L : Lin s n e m d r) (a c : Nat) (ha : a ≤ m) (hc : c < n)
    (h1 : ∀ i, i < a → d i < c) (h2 : ∀ i, a ≤ i → i < m → c < d i)
    (hfit : ∀ i, i < m → posF (rotD n m a c d) i + 2 ≤ n) (y : Nat) (hy : y < n)
    (hno : ∀ i, i < m → posF (rotD n m a c d) i ≠ y) : ∀ i, i < m → posF d i ≠ oldDist n c y := by
  obtain ⟨hA, hB, hC⟩ := rot_pos L a c ha hc h1 h2 hfit
  intro i hi heq
  unfold oldDist at heq
  by_cases hia : i < a
  · have hp := hA i hia
    have hc' := hC i hia
    apply hno (m - a + i) (by omega)
    split at heq <;> omega
  · obtain ⟨hb1, hb2⟩ := hB (i - a) (by omega)
    rw [show i - a + a = i by omega] at hb1 hb2
    apply hno (i - a) (by omega)
    split at heq <;> omega

/-- **change of the empty slot** -/
theorem rebase (L : Lin s n e m d r) (a c : Nat) (ha : a ≤ m) (hc : c < n)
    (h1 : ∀ i, i < a → d i < c) (h2 : ∀ i, a ≤ i → i < m → c < d i)
    (hfit : ∀ i, i < m → posF (rotD n m a c d) i + 2 ≤ n) :
    Lin s n (io n e c) m (rotD n m a c d) (rotR m a r) := by
  have hn : 0 < n := by have := L.n2; omega
  obtain ⟨hA, hB, hC⟩ := rot_pos L a c ha hc h1 h2 hfit
  have hslot := rot_slot L a c ha hc h1 h2 hfit
  have hdle : ∀ i, i < m → d i + 2 ≤ n := fun i hi => by
    have := L.fit i hi; have := p_ge_d d i; omega
  refine ⟨L.n2, L.size, io_lt n e c hn, ?_, hfit, ?_, ?_, ?_, ?_, ?_⟩
  · -- sorted
    intro i hi
    simp only [rotD, rotR]
    by_cases c1 : i + 1 < m - a
    · rw [if_pos (show i < m - a by omega), if_pos c1, if_pos (show i < m - a by omega), if_pos c1]
      have := L.sorted (i + a) (by omega)
      have := h2 (i + a) (by omega) (by omega)
      rw [show i + 1 + a = i + a + 1 by omega]
      omega
    · by_cases c2 : i < m - a
      · rw [if_pos c2, if_neg c1]
        have := hdle (i + a) (by omega)
        have := h2 (i + a) (by omega) (by omega)
        left; omega
      · rw [if_neg c2, if_neg c1, if_neg c2, if_neg c1]
        have := L.sorted (i - (m - a)) (by omega)
        rw [show i + 1 - (m - a) = i - (m - a) + 1 by omega]
        omega
  · -- continuation bits
    intro i hi
    rw [hslot i hi]
    by_cases c1 : i < m - a
    · rw [if_pos c1, L.cont (i + a) (by omega)]
      by_cases i0 : i = 0
      · subst i0
        simp only [Nat.zero_add, ne_eq, not_true_eq_false, decide_false, Bool.false_and,
          Bool.and_eq_false_iff, decide_eq_false_iff_not, Decidable.not_not]
        by_cases a0 : a = 0
        · left; exact a0
        · right
          have := h1 (a - 1) (by omega)
          have := h2 a (Nat.le_refl _) (by omega)
          omega
      · have e1 : rotD n m a c d i = d (i + a) - (c + 1) := by simp [rotD, c1]
        have e2 : rotD n m a c d (i - 1) = d (i - 1 + a) - (c + 1) := by
          simp only [rotD]; rw [if_pos (by omega)]
        have := h2 (i + a) (by omega) (by omega)
        have := h2 (i - 1 + a) (by omega) (by omega)
        rw [e1, e2, show i + a - 1 = i - 1 + a by omega]
        have t1 : decide (i + a ≠ 0) = true := by simp; omega
        have t2 : decide (i ≠ 0) = true := by simp [i0]
        rw [t1, t2]
        simp only [Bool.true_and, decide_eq_decide]
        omega
    · rw [if_neg c1, L.cont (i - (m - a)) (by omega)]
      have e1 : rotD n m a c d i = d (i - (m - a)) + (n - 1 - c) := by simp [rotD, c1]
      by_cases u0 : i - (m - a) = 0
      · rw [u0]
        simp only [ne_eq, not_true_eq_false, decide_false, Bool.false_and]
        symm
        simp only [Bool.and_eq_false_iff, decide_eq_false_iff_not, Decidable.not_not]
        by_cases i0 : i = 0
        · left; exact i0
        · right
          have e2 : rotD n m a c d (i - 1) = d (i - 1 + a) - (c + 1) := by
            simp only [rotD]; rw [if_pos (by omega)]
          have := hdle (i - 1 + a) (by omega)
          have := h2 (i - 1 + a) (by omega) (by omega)
          rw [e1, e2]; omega
      · have e2 : rotD n m a c d (i - 1) = d (i - 1 - (m - a)) + (n - 1 - c) := by
          simp only [rotD]; rw [if_neg (by omega)]
        rw [e1, e2, show i - 1 - (m - a) = i - (m - a) - 1 by omega]
        have t1 : decide (i - (m - a) ≠ 0) = true := by simp [u0]
        have t2 : decide (i ≠ 0) = true := by simp; omega
        rw [t1, t2]
        simp only [Bool.true_and, decide_eq_decide]
        omega
  · -- shifted bits
    intro i hi
    rw [hslot i hi]
    by_cases c1 : i < m - a
    · obtain ⟨hb1, hb2⟩ := hB i c1
      have e1 : rotD n m a c d i = d (i + a) - (c + 1) := by simp [rotD, c1]
      have := h2 (i + a) (by omega) (by omega)
      rw [if_pos c1, L.shift (i + a) (by omega), hb2, e1]
      simp only [decide_eq_decide]; omega
    · have hc' := hC (i - (m - a)) (by omega)
      rw [show m - a + (i - (m - a)) = i by omega] at hc'
      have e1 : rotD n m a c d i = d (i - (m - a)) + (n - 1 - c) := by simp [rotD, c1]
      rw [if_neg c1, L.shift (i - (m - a)) (by omega), hc', e1]
      simp only [decide_eq_decide]; omega
  · -- remainders
    intro i hi
    rw [hslot i hi]
    by_cases c1 : i < m - a
    · rw [if_pos c1, L.rem (i + a) (by omega)]; simp [rotR, c1]
    · rw [if_neg c1, L.rem (i - (m - a)) (by omega)]; simp [rotR, c1]
  · -- slots without an element
    intro y hy hno
    rw [io_oldDist n e c y hc hy]
    have hy' : oldDist n c y < n := by unfold oldDist; split <;> omega
    exact L.nocell _ hy' (rot_nocell L a c ha hc h1 h2 hfit y hy hno)
  · -- occupied bits
    intro y hy
    rw [io_oldDist n e c y hc hy]
    have hy' : oldDist n c y < n := by unfold oldDist; split <;> omega
    rw [L.occ _ hy']
    constructor
    · rintro ⟨i, hi, hdi⟩
      unfold oldDist at hdi
      by_cases hia : i < a
      · have := h1 i hia
        refine ⟨m - a + i, by omega, ?_⟩
        simp only [rotD]
        rw [if_neg (by omega), show m - a + i - (m - a) = i by omega]
        split at hdi <;> omega
      · have := h2 i (by omega) hi
        refine ⟨i - a, by omega, ?_⟩
        simp only [rotD]
        rw [if_pos (by omega), show i - a + a = i by omega]
        split at hdi <;> omega
    · rintro ⟨i, hi, hdi⟩
      simp only [rotD] at hdi
      unfold oldDist
      by_cases c1 : i < m - a
      · rw [if_pos c1] at hdi
        have := h2 (i + a) (by omega) (by omega)
        have := hdle (i + a) (by omega)
        refine ⟨i + a, by omega, ?_⟩
        split <;> omega
      · rw [if_neg c1] at hdi
        have := h1 (i - (m - a)) (by omega)
        refine ⟨i - (m - a), by omega, ?_⟩
        split <;> omega

theorem rebase_extra (L : Lin s n e m d r) (X : Extra s n e m d) (a c : Nat) (ha : a ≤ m) (hc : c < n)
    (h1 : ∀ i, i < a → d i < c) (h2 : ∀ i, a ≤ i → i < m → c < d i)
    (hfit : ∀ i, i < m → posF (rotD n m a c d) i + 2 ≤ n) :
    Extra s n (io n e c) m (rotD n m a c d) := by
  refine ⟨X.lrem, X.locc, X.lcont, X.lshift, ?_⟩
  intro y hy hno
  rw [io_oldDist n e c y hc hy]
  have hy' : oldDist n c y < n := by unfold oldDist; split <;> omega
  exact X.rem0 _ hy' (rot_nocell L a c ha hc h1 h2 hfit y hy hno)

end rebase

/-! ### sorted lists with the same members -/

theorem pw_ext {α : Type} {R : α → α → Prop} : ∀ (l₁ l₂ : List α), l₁.Pairwise R → l₂.Pairwise R →
    (∀ a, a ∈ l₁ ↔ a ∈ l₂) → (∀ a b, a ∈ l₁ → b ∈ l₁ → R a b → R b a → False) → l₁ = l₂
  | [], [], _, _, _, _ => rfl
  | [], b :: _, _, _, h, _ => by have := (h b).2 (by simp); simp at this
  | a :: _, [], _, _, h, _ => by have := (h a).1 (by simp); simp at this
  | a :: l₁, b :: l₂, h₁, h₂, h, hasym => by
      rw [List.pairwise_cons] at h₁ h₂
      have hab : a = b := by
        apply Classical.byContradiction
        intro hne
        have ha : a ∈ b :: l₂ := (h a).1 (by simp)
        have hb : b ∈ a :: l₁ := (h b).2 (by simp)
        have ha' : a ∈ l₂ := by
          rcases List.mem_cons.1 ha with e | hm
          · exact absurd e hne
          · exact hm
        have hb' : b ∈ l₁ := by
          rcases List.mem_cons.1 hb with e | hm
          · exact absurd e.symm hne
          · exact hm
        exact hasym a b (by simp) (List.mem_cons_of_mem _ hb') (h₁.1 b hb') (h₂.1 a ha')
      subst hab
      congr 1
      apply pw_ext l₁ l₂ h₁.2 h₂.2
      · intro c
        constructor
        · intro hc
          have : c ∈ a :: l₂ := (h c).1 (List.mem_cons_of_mem _ hc)
          rcases List.mem_cons.1 this with e | hm
          · subst e
            exact absurd (h₁.1 c hc) (fun hr => hasym c c (by simp) (by simp) hr hr)
          · exact hm
        · intro hc
          have : c ∈ a :: l₁ := (h c).2 (List.mem_cons_of_mem _ hc)
          rcases List.mem_cons.1 this with e | hm
          · subst e
            have hr := h₂.1 c hc
            exact absurd hr (fun hr => hasym c c (by simp) (by simp) hr hr)
          · exact hm
      · intro x y hx hy
        exact hasym x y (List.mem_cons_of_mem _ hx) (List.mem_cons_of_mem _ hy)

end PyProb.QFLin

namespace PyProb.Spec
open PyProb PyProb.QF PyProb.QFLin

/-! ### `Extra` for the canonical layout in its own view -/

theorem layout_extra (q : Nat) (auto : Bool) (S : List Elem) (hF : Fits (2 ^ q) S) :
    Extra (layout q auto S) (2 ^ q) (emptySlot (2 ^ q) S) S.length
      (dOf (2 ^ q) (emptySlot (2 ^ q) S) (rot (emptySlot (2 ^ q) S) S)) := by
  obtain ⟨he, hcnt, hfit⟩ := hF
  refine ⟨layout_rem_length q auto S, layout_occ_length q auto S, layout_cont_length q auto S,
    layout_shift_length q auto S, ?_⟩
  generalize hn : 2 ^ q = n at *
  generalize hee : emptySlot n S = e at *
  have hno : NoQuot e S := (cnt_zero_iff S e).1 hcnt
  generalize hT : rot e S = T at *
  have hlen : T.length = S.length := by rw [← hT]; exact length_rot e S hno
  have hcells : cells n S = (List.range S.length).map (cellG n e 0 none T) := by
    simp only [cells, hee, hT]
    rw [place_eq, hlen]
  have hidx : ∀ i, (cellG n e 0 none T i).idx = io n e (posF (dOf n e T) i) := by
    intro i; simp [cellG, io, posG_zero]
  intro x hx hno'
  have h2 : (layout q auto S).rem = arrOf (fun c : Cell => c.idx) (fun c : Cell => c.rem)
      (List.replicate n 0) (cellG n e 0 none T) S.length := by
    simp only [layout, hn, hcells, arrOf]
  have hne : ∀ i, i < S.length → (fun c : Cell => c.idx) (cellG n e 0 none T i) ≠ io n e x := by
    intro i hi h
    simp only [hidx] at h
    exact hno' i hi (io_inj n e _ _ (by have := hfit i hi; omega) hx h)
  simp only [remAt, h2]
  rw [arrOf_other _ _ _ _ _ _ _ hne]
  simp only [List.getD_eq_getElem?_getD, List.getElem?_replicate]
  split <;> rfl

/-! ### offsets from two empty slots -/

theorem off_rebase (n e0 c q : Nat) (he0 : e0 < n) (hc : c < n) (hq : q < n) :
    (c < off n e0 q → off n (io n e0 c) q = off n e0 q - (c + 1)) ∧
    (off n e0 q < c → off n (io n e0 c) q = off n e0 q + (n - 1 - c)) := by
  have hn : 0 < n := by omega
  have he : io n e0 c < n := io_lt n e0 c hn
  have ho : off n e0 q < n := off_lt_n n e0 q hn
  have hio : io n e0 (off n e0 q) = q := io_off n e0 q he0 hq
  constructor
  · intro h
    have h1 : io n (io n e0 c) (off n e0 q - (c + 1)) = q := by
      rw [io_io, show c + 1 + (off n e0 q - (c + 1)) = off n e0 q by omega, hio]
    rw [← h1, off_io n (io n e0 c) _ he (by omega), h1]
  · intro h
    have h1 : io n (io n e0 c) (off n e0 q + (n - 1 - c)) = q := by
      rw [io_io, show c + 1 + (off n e0 q + (n - 1 - c)) = off n e0 q + n by omega, io_add_n, hio]
    rw [← h1, off_io n (io n e0 c) _ he (by omega), h1]

theorem off_inj (n e a b : Nat) (he : e < n) (ha : a < n) (hb : b < n) (h : off n e a = off n e b) : a = b := by
  rw [← io_off n e a he ha, ← io_off n e b he hb, h]

theorem ltRot_asymm (n e : Nat) (a b : Elem) (h1 : ltRot n e a b) (h2 : ltRot n e b a) : False := by
  unfold ltRot at h1 h2; omega

theorem getD_eq_getElem' (T : List Elem) (i : Nat) (h : i < T.length) : T.getD i (0, 0) = T[i] := by
  simp [List.getD_eq_getElem?_getD, List.getElem?_eq_getElem h]

/-! ### the canonical layout from another empty slot -/

/-- **the canonical layout in the linear view from any slot that stays empty** -/
theorem layout_lin_at (q : Nat) (hq1 : 1 ≤ q) (auto : Bool) (S : List Elem) (hS : Sorted S)
    (hq : ∀ x ∈ S, x.1 < 2 ^ q) (hlen : S.length < 2 ^ q) (e : Nat) (he : e < 2 ^ q)
    (hno : NoQuot e S)
    (hfit : ∀ i, i < S.length → posF (dOf (2 ^ q) e (rot e S)) i + 2 ≤ 2 ^ q) :
    Lin (layout q auto S) (2 ^ q) e S.length (dOf (2 ^ q) e (rot e S)) (rOf (rot e S)) ∧
    Extra (layout q auto S) (2 ^ q) e S.length (dOf (2 ^ q) e (rot e S)) := by
  have hF := canon_fits (2 ^ q) S hS hq hlen
  have L0 := layout_lin q hq1 auto S hS hq hF
  have X0 := layout_extra q auto S hF
  obtain ⟨he0, hcnt0, _⟩ := hF
  generalize hn : 2 ^ q = n at *
  generalize hee : emptySlot n S = e0 at *
  have hn0 : 0 < n := by omega
  have hno0 : NoQuot e0 S := (cnt_zero_iff S e0).1 hcnt0
  generalize hT0 : rot e0 S = T0 at *
  generalize hT : rot e S = T at *
  have hperm0 : T0.Perm S := by rw [← hT0]; exact rot_perm e0 S hno0
  have hperm : T.Perm S := by rw [← hT]; exact rot_perm e S hno
  have hlen0 : T0.length = S.length := hperm0.length_eq
  have hsorted0 : T0.Pairwise (ltRot n e0) := by rw [← hT0]; exact rot_sorted n e0 he0 S hS hq
  have hsorted : T.Pairwise (ltRot n e) := by rw [← hT]; exact rot_sorted n e he S hS hq
  -- the new empty slot, seen from the old one
  generalize hc : off n e0 e = c
  have hcn : c < n := by rw [← hc]; exact off_lt_n n e0 e hn0
  have hioc : io n e0 c = e := by rw [← hc]; exact io_off n e0 e he0 he
  generalize hm : S.length = m at *
  generalize hd0 : dOf n e0 T0 = d0 at *
  generalize hr0 : rOf T0 = r0 at *
  have hd0i : ∀ i (hi : i < m), d0 i = off n e0 (T0[i]'(by omega)).1 := by
    intro i hi
    rw [← hd0]; simp only [dOf, getD_eq_getElem' T0 i (by omega)]
  have hmem0 : ∀ i (hi : i < m), T0[i]'(by omega) ∈ S := fun i hi => hperm0.mem_iff.1 (List.getElem_mem _)
  have hd0ne : ∀ i, i < m → d0 i ≠ c := by
    intro i hi h
    rw [hd0i i hi, ← hc] at h
    exact hno _ (hmem0 i hi) (off_inj n e0 _ _ he0 (hq _ (hmem0 i hi)) he h)
  generalize ha : Bfn d0 m c = a
  have ham : a ≤ m := by rw [← ha]; exact B_le_m d0 m c
  have h1 : ∀ i, i < a → d0 i < c := by
    intro i hi
    exact (B_char L0 c i (by omega)).1 (by rw [ha]; exact hi)
  have h2 : ∀ i, a ≤ i → i < m → c < d0 i := by
    intro i hi him
    have : ¬ d0 i < c := fun h => by
      have := (B_char L0 c i him).2 h
      rw [ha] at this; omega
    have := hd0ne i him
    omega
  -- the rotated list
  have hT2 : T0.drop a ++ T0.take a = T := by
    apply pw_ext (R := ltRot n e)
    · rw [List.pairwise_append]
      refine ⟨?_, ?_, ?_⟩
      · refine List.Pairwise.imp_of_mem ?_ (List.Pairwise.sublist (List.drop_sublist a T0) hsorted0)
        intro x y hx hy hxy
        obtain ⟨i, hi, rfl⟩ := List.mem_drop_iff_getElem.1 hx
        obtain ⟨k, hk, rfl⟩ := List.mem_drop_iff_getElem.1 hy
        have e1 := h2 (a + i) (by omega) (by omega)
        have e2 := h2 (a + k) (by omega) (by omega)
        rw [hd0i (a + i) (by omega)] at e1
        rw [hd0i (a + k) (by omega)] at e2
        have q1 := hq _ (hmem0 (a + i) (by omega))
        have q2 := hq _ (hmem0 (a + k) (by omega))
        unfold ltRot at hxy ⊢
        rw [← hioc, (off_rebase n e0 c _ he0 hcn q1).1 e1, (off_rebase n e0 c _ he0 hcn q2).1 e2]
        omega
      · refine List.Pairwise.imp_of_mem ?_ (List.Pairwise.sublist (List.take_sublist a T0) hsorted0)
        intro x y hx hy hxy
        obtain ⟨i, hi, rfl⟩ := List.mem_take_iff_getElem.1 hx
        obtain ⟨k, hk, rfl⟩ := List.mem_take_iff_getElem.1 hy
        have e1 := h1 i (by omega)
        have e2 := h1 k (by omega)
        rw [hd0i i (by omega)] at e1
        rw [hd0i k (by omega)] at e2
        have q1 := hq _ (hmem0 i (by omega))
        have q2 := hq _ (hmem0 k (by omega))
        unfold ltRot at hxy ⊢
        rw [← hioc, (off_rebase n e0 c _ he0 hcn q1).2 e1, (off_rebase n e0 c _ he0 hcn q2).2 e2]
        omega
      · intro x hx y hy
        obtain ⟨i, hi, rfl⟩ := List.mem_drop_iff_getElem.1 hx
        obtain ⟨k, hk, rfl⟩ := List.mem_take_iff_getElem.1 hy
        have e1 := h2 (a + i) (by omega) (by omega)
        have e2 := h1 k (by omega)
        rw [hd0i (a + i) (by omega)] at e1
        rw [hd0i k (by omega)] at e2
        have q1 := hq _ (hmem0 (a + i) (by omega))
        have q2 := hq _ (hmem0 k (by omega))
        have o1 := off_lt_n n e0 (T0[a + i]).1 hn0
        unfold ltRot
        rw [← hioc, (off_rebase n e0 c _ he0 hcn q1).1 e1, (off_rebase n e0 c _ he0 hcn q2).2 e2]
        omega
    · exact hsorted
    · intro y
      have : (T0.drop a ++ T0.take a).Perm T0 := by
        have := List.perm_append_comm (l₁ := T0.drop a) (l₂ := T0.take a)
        rw [List.take_append_drop] at this
        exact this
      rw [this.mem_iff, hperm0.mem_iff, hperm.mem_iff]
    · intro x y _ _ hxy hyx
      exact ltRot_asymm n e x y hxy hyx
  -- the rotated sequence is the sequence of `T`
  have hTlen : T.length = m := hperm.length_eq.trans hm
  have hdT : ∀ i, i < m → rotD n m a c d0 i = dOf n e T i ∧ rotR m a r0 i = rOf T i := by
    intro i hi
    have hg : T.getD i (0, 0) = if i < m - a then T0.getD (i + a) (0, 0) else T0.getD (i - (m - a)) (0, 0) := by
      rw [← hT2]
      simp only [List.getD_eq_getElem?_getD]
      by_cases c1 : i < m - a
      · rw [if_pos c1, List.getElem?_append_left (by simp; omega), List.getElem?_drop]
        congr 2; omega
      · rw [if_neg c1, List.getElem?_append_right (by simp; omega), List.getElem?_take]
        simp only [List.length_drop]
        rw [if_pos (by omega), hlen0]
    by_cases c1 : i < m - a
    · rw [if_pos c1] at hg
      have e1 := h2 (i + a) (by omega) (by omega)
      rw [hd0i (i + a) (by omega)] at e1
      have q1 := hq _ (hmem0 (i + a) (by omega))
      constructor
      · simp only [rotD, if_pos c1, dOf, hg]
        rw [hd0i (i + a) (by omega), getD_eq_getElem' T0 (i + a) (by omega), ← hioc,
          (off_rebase n e0 c _ he0 hcn q1).1 e1]
      · simp only [rotR, if_pos c1, rOf, hg]
        rw [← hr0]; rfl
    · rw [if_neg c1] at hg
      have e1 := h1 (i - (m - a)) (by omega)
      rw [hd0i (i - (m - a)) (by omega)] at e1
      have q1 := hq _ (hmem0 (i - (m - a)) (by omega))
      constructor
      · simp only [rotD, if_neg c1, dOf, hg]
        rw [hd0i (i - (m - a)) (by omega), getD_eq_getElem' T0 (i - (m - a)) (by omega), ← hioc,
          (off_rebase n e0 c _ he0 hcn q1).2 e1]
      · simp only [rotR, if_neg c1, rOf, hg]
        rw [← hr0]; rfl
  have hfit2 : ∀ i, i < m → posF (rotD n m a c d0) i + 2 ≤ n := by
    intro i hi
    rw [posF_congr _ (dOf n e T) i (fun k hk => (hdT k (by omega)).1)]
    exact hfit i hi
  have L2 := rebase L0 a c ham hcn h1 h2 hfit2
  have X2 := rebase_extra L0 X0 a c ham hcn h1 h2 hfit2
  rw [hioc] at L2 X2
  exact ⟨lin_congr L2 (fun i hi => (hdT i hi).1) (fun i hi => (hdT i hi).2),
    extra_congr X2 (fun i hi => (hdT i hi).1)⟩

end PyProb.Spec
