/-
  `_add` on a table in the linear view: `_get_start_index` of a quotient that is not occupied, the
  scan of `_add` through the run of an occupied quotient, and the three cases of `_add` put together:
  the new table is in the linear view of the sequence with the new element inserted (`view_add`).
-/
import PyProb.Lemmas.QFWriteAddDesc
import PyProb.Lemmas.QFBasic

namespace PyProb.QFLin
open PyProb PyProb.QF

section view
variable {s : QF} {n e m : Nat} {d r : Nat → Nat}

/-- every distance between the home and the position of an element holds an element -/
theorem cell_between (L : Lin s n e m d r) (i x : Nat) (hi : i < m) (h1 : d i ≤ x) (h2 : x ≤ posF d i) :
    ∃ k, k ≤ i ∧ posF d k = x := by
  obtain ⟨a, ha, hpa, hk⟩ := cluster d i
  have hc := contig d a i hk
  have h3 : d a ≤ d i := d_mono L a i ha hi
  have h4 := hc i ha (Nat.le_refl _)
  refine ⟨a + (x - posF d a), by omega, ?_⟩
  rw [hc _ (by omega) (by omega)]; omega

/-- the slot behind the last element of a run is not a continuation -/
theorem cont_after (L : Lin s n e m d r) (i : Nat) (hi : i < m) (hnext : i + 1 < m → d (i + 1) ≠ d i)
    (hn : posF d i + 1 < n) : bit s.cont (io n e (posF d i + 1)) = false := by
  by_cases hcell : i + 1 < m ∧ posF d (i + 1) = posF d i + 1
  · obtain ⟨hm1, hp1⟩ := hcell
    rw [← hp1, L.cont (i + 1) hm1]
    have := hnext hm1
    simp [this]
  · have hno : ∀ k, k < m → posF d k ≠ posF d i + 1 := by
      intro k hk heq
      by_cases hki : k ≤ i
      · have := p_mono d k i hki; omega
      · have h4 := p_step d i
        by_cases hh : k = i + 1
        · subst hh; exact hcell ⟨hk, heq⟩
        · have := p_lt d (i + 1) k (by omega); omega
    exact (L.nocell _ hn hno).1

theorem contF_first (L : Lin s n e m d r) (a : Nat) (ha : a < m) (hpa : posF d a = d a) : contF d a = false := by
  simp only [contF, Bool.and_eq_false_iff, decide_eq_false_iff_not]
  by_cases ha0 : a = 0
  · left; omega
  · right
    intro heq
    have h1 := p_ge_d d (a - 1)
    have h2 := p_lt d (a - 1) a (by omega)
    omega

/-! ### `_get_start_index` of a quotient that is not occupied -/

/-- the second loop of `_get_start_index`, run to the end of the runs `a, …, j - 1` -/
theorem startFwd_walk2 (L : Lin s n e m d r) (a j : Nat) (hj : j ≤ m)
    (hcontig : ∀ k, a ≤ k → k < j → posF d k = posF d a + (k - a))
    (hend : bit s.cont (io n e (posF d a + (j - a))) = false) :
    ∀ t k cnts fuel, j = k + t → a ≤ k → cnts = cntP (fun k => !contF d k) k t + 1 → t < fuel →
      startFwd s fuel (io n e (posF d a + (k - a))) cnts = .ok (io n e (posF d a + (j - a))) := by
  intro t
  induction t with
  | zero =>
      intro k cnts fuel hk hak hc hfu
      obtain ⟨fuel, rfl⟩ : ∃ f', fuel = f' + 1 := ⟨fuel - 1, by omega⟩
      simp only [Nat.add_zero] at hk
      subst hk
      simp only [cntP_zero, Nat.zero_add] at hc
      simp [startFwd, hend, hc]
  | succ t ih =>
      intro k cnts fuel hk hak hc hfu
      obtain ⟨fuel, rfl⟩ : ∃ f', fuel = f' + 1 := ⟨fuel - 1, by omega⟩
      have hkm : k < m := by omega
      have hslot : posF d a + (k - a) = posF d k := (hcontig k hak (by omega)).symm
      have hcb := L.cont k hkm
      rw [show (decide (k ≠ 0) && decide (d k = d (k - 1))) = contF d k from rfl, ← hslot] at hcb
      have hnext : s.nxt (io n e (posF d a + (k - a))) = io n e (posF d a + (k + 1 - a)) := by
        rw [nxt_io s n e _ L.size]; congr 1; omega
      rw [cntP_succ_bot] at hc
      cases hck : contF d k
      · rw [hck] at hcb hc
        simp only [Bool.not_false, if_true] at hc
        have hne : (cnts == 1) = false := by
          simp only [beq_eq_false_iff_ne]; omega
        simp only [startFwd, hcb, Bool.not_false, if_true, hne, Bool.false_eq_true, if_false, hnext]
        exact ih (k + 1) (cnts - 1) fuel (by omega) (by omega) (by omega) (by omega)
      · rw [hck] at hcb hc
        simp only [Bool.not_true, Bool.false_eq_true, if_false, Nat.zero_add] at hc
        simp only [startFwd, hcb, Bool.not_true, Bool.false_eq_true, if_false, hnext]
        exact ih (k + 1) cnts fuel (by omega) (by omega) hc (by omega)

/-- `_get_start_index` of a quotient that is not occupied but whose slot is in use: the slot behind
    the runs of the smaller quotients of the cluster -/
theorem getStartIndex_unocc (L : Lin s n e m d r) (j D : Nat) (hj : j ≤ m) (hj1 : 1 ≤ j)
    (hlo : ∀ i, i < j → d i < D) (hhi : ∀ i, j ≤ i → i < m → D < d i)
    (hcell : D ≤ posF d (j - 1)) (hE : posF d (j - 1) + 2 ≤ n) :
    s.getStartIndex (io n e D) = .ok (io n e (posF d (j - 1) + 1)) := by
  have hn : 0 < n := by have := L.n2; omega
  have hjm : j - 1 < m := by omega
  have hdj := hlo (j - 1) (by omega)
  obtain ⟨k0, hk0, hpk0⟩ := cell_between L (j - 1) D hjm (by omega) hcell
  obtain ⟨a, ha, hpa, hk⟩ := cluster d (j - 1)
  have hc := contig d a (j - 1) hk
  have hda : d a ≤ d (j - 1) := d_mono L a (j - 1) ha hjm
  have hpj := hc (j - 1) ha (Nat.le_refl _)
  have hak0 : a ≤ k0 := by
    apply Classical.byContradiction
    intro h
    have := p_lt d k0 a (by omega); omega
  have hpk0' := hc k0 hak0 hk0
  have hne : s.isEmpty (io n e D) = false := by
    rw [← hpk0]; exact isEmpty_cell L k0 (by omega)
  simp only [getStartIndex, hne, Bool.false_eq_true, if_false]
  have hsh_a : bit s.shift (io n e (posF d a)) = false := by
    rw [L.shift a (by omega)]; simp [hpa]
  have hback := startBack_walk (s := s) (e := e) L.size hn (io n e D) (posF d a) hsh_a
    (D - posF d a) D 0 s.fuelOf (by omega)
    (by
      intro j' h1 h2
      have hkk := hc (a + (j' - posF d a)) (by omega) (by omega)
      have hj' : posF d (a + (j' - posF d a)) = j' := by omega
      have := L.shift (a + (j' - posF d a)) (by omega)
      rw [hj'] at this
      rw [this]
      have := hk (a + (j' - posF d a)) (by omega) (by omega)
      rw [hj'] at this
      simp [this])
    (by simp only [fuelOf, L.size]; omega)
  rw [hback]
  simp only [Nat.zero_add]
  -- the count
  have hnca : contF d a = false := contF_first L a (by omega) hpa
  have hcnt : cntP (fun j' => io n e j' == io n e D || bit s.occ (io n e j')) (posF d a) (D - posF d a + 1)
      = cntP (fun k => !contF d k) a (j - a) + 1 := by
    rw [cntP_succ_top, show posF d a + (D - posF d a) = D by omega]
    simp only [beq_self_eq_true, Bool.true_or, if_true]
    congr 1
    have h1 : cntP (fun j' => io n e j' == io n e D || bit s.occ (io n e j')) (posF d a) (D - posF d a)
        = cntP (fun j' => bit s.occ (io n e j')) (posF d a) (D - posF d a) := by
      apply cntP_congr
      intro y h1 h2
      have : (io n e y == io n e D) = false := by
        simp only [beq_eq_false_iff_ne]
        intro h; have := io_inj n e y D (by omega) (by omega) h; omega
      simp [this]
    rw [h1, hpa]
    have hsplit : D - d a = (d (j - 1) - d a + 1) + (D - d (j - 1) - 1) := by omega
    rw [hsplit, cntP_add]
    have h2 := count_runs L a hnca (j - 1 - a) (by omega)
    rw [show a + (j - 1 - a) = j - 1 by omega, show j - 1 - a + 1 = j - a by omega] at h2
    have h3 : cntP (fun j' => bit s.occ (io n e j')) (d a + (d (j - 1) - d a + 1)) (D - d (j - 1) - 1) = 0 := by
      apply cntP_false
      intro y hy1 hy2
      cases ho : bit s.occ (io n e y)
      · rfl
      · exfalso
        obtain ⟨i, hi, hdi⟩ := (L.occ y (by omega)).1 ho
        by_cases hij : i < j
        · have := d_mono L i (j - 1) (by omega) hjm; omega
        · have := hhi i (by omega) hi; omega
    rw [h2, h3, Nat.add_zero]
  rw [hcnt]
  have hend : bit s.cont (io n e (posF d a + (j - a))) = false := by
    rw [show posF d a + (j - a) = posF d (j - 1) + 1 by omega]
    apply cont_after L (j - 1) hjm _ (by omega)
    intro h
    have := hhi (j - 1 + 1) (by omega) h
    omega
  have := startFwd_walk2 L a j hj (fun k h1 h2 => hc k h1 (by omega)) hend (j - a) a _ s.fuelOf
    (by omega) (Nat.le_refl _) rfl (by simp only [fuelOf, L.size]; omega)
  rw [Nat.sub_self, Nat.add_zero] at this
  rw [this, show posF d a + (j - a) = posF d (j - 1) + 1 by omega]

/-! ### the scan of `_add` through a run -/

theorem addScan_run (L : Lin s n e m d r) (f g j rr : Nat) (hg : g < m)
    (hgrp : ∀ k, f ≤ k → k ≤ g → d k = d f) (hlast : g + 1 < m → d (g + 1) ≠ d f)
    (hjg : j ≤ g + 1) (hlt : ∀ i, f ≤ i → i < j → r i < rr) (hgt : j ≤ g → rr ≤ r j) :
    ∀ t i fuel, (if j ≤ g then j else g) = i + t → f ≤ i → t + 2 ≤ fuel →
      addScan s rr fuel (io n e (posF d i)) 0 =
        .ok (io n e (if j ≤ g then posF d j else posF d g + 1), if j ≤ g then 0 else 1) := by
  have hfit := L.fit g hg
  intro t
  induction t with
  | zero =>
      intro i fuel hi hfi hfu
      obtain ⟨fuel, rfl⟩ : ∃ f', fuel = f' + 2 := ⟨fuel - 2, by omega⟩
      simp only [Nat.add_zero] at hi
      by_cases hjg' : j ≤ g
      · rw [if_pos hjg'] at hi
        subst hi
        have hrem := L.rem j (by omega)
        have := hgt hjg'
        have hnot : ¬ (rr > r j) := by omega
        simp only [addScan, hrem, hnot, decide_false, Bool.and_false, Bool.false_eq_true, if_false,
          if_pos hjg']
      · rw [if_neg hjg'] at hi
        subst hi
        have hrem := L.rem g hg
        have hce := isEmpty_cell L g hg
        have hlt' := hlt g hfi (by omega)
        have hcf : bit s.cont (io n e (posF d g + 1)) = false := by
          apply cont_after L g hg _ (by omega)
          intro h; rw [hgrp g hfi (Nat.le_refl _)]; exact hlast h
        have hnext := nxt_io s n e (posF d g) L.size
        have hgt' : rr > r g := hlt'
        simp only [addScan, hrem, hce, hgt', hnext, hcf, if_neg hjg']
        simp
  | succ t ih =>
      intro i fuel hi hfi hfu
      obtain ⟨fuel, rfl⟩ : ∃ f', fuel = f' + 1 := ⟨fuel - 1, by omega⟩
      have hij : i < j := by split at hi <;> omega
      have hig : i < g := by split at hi <;> omega
      have him : i < m := by omega
      have hrem := L.rem i him
      have hce := isEmpty_cell L i him
      have hgt' : rr > r i := hlt i hfi hij
      have e1 := hgrp i hfi (by omega)
      have e2 := hgrp (i + 1) (by omega) (by omega)
      have hp1 : posF d (i + 1) = posF d i + 1 := by
        apply p_shifted
        have := p_ge_d d i
        have := p_step d i
        omega
      have hnext : s.nxt (io n e (posF d i)) = io n e (posF d (i + 1)) := by
        rw [nxt_io s n e (posF d i) L.size, hp1]
      have hcb : bit s.cont (io n e (posF d (i + 1))) = true := by
        rw [L.cont (i + 1) (by omega)]
        simp [e1, e2]
      simp only [addScan, hrem, hce, hgt', hnext, hcb]
      simp only [beq_self_eq_true, Bool.not_false, Bool.and_self, decide_true, if_true, Bool.not_true,
        Bool.false_eq_true, if_false]
      exact ih (i + 1) fuel (by omega) (by omega) (by omega)

/-! ### `_shift_insert` at the position of the new element -/

/-- `_shift_insert` at the position that the new sequence assigns to the new element produces the
    table of the new sequence, provided the two continuation bits come out right -/
theorem view_shiftInsert (L : Lin s n e m d r) (X : Extra s n e m d) (j D rr : Nat) (hj : j ≤ m)
    (hsorted : ∀ i, i + 1 < m + 1 → insAt j D d i < insAt j D d (i + 1) ∨
      (insAt j D d i = insAt j D d (i + 1) ∧ insAt j rr r i < insAt j rr r (i + 1)))
    (hfit : ∀ i, i < m + 1 → posF (insAt j D d) i + 2 ≤ n)
    (orig : Nat) (flag : Bool)
    (hnc : (io n e (posF (insAt j D d) j) != orig) = contF (insAt j D d) j)
    (hfl : j < m → (if posF d j = posF (insAt j D d) j ∧ flag = true then true else contF d j)
      = contF (insAt j D d) (j + 1)) :
    ∃ t, shiftInsert s (io n e D) rr orig (io n e (posF (insAt j D d) j)) flag = .ok t ∧
      Lin t n e (m + 1) (insAt j D d) (insAt j rr r) ∧ Extra t n e (m + 1) (insAt j D d) ∧
      t.q = s.q ∧ t.count = s.count ∧ t.auto = s.auto := by
  have hn : 0 < n := by have := L.n2; omega
  have hPfit := hfit j (by omega)
  have hDP : D ≤ posF (insAt j D d) j := by
    have := p_ge_d (insAt j D d) j
    rw [insAt_eq] at this; exact this
  -- the old element `j` is not in front of the new position
  have hPle : j < m → posF (insAt j D d) j ≤ posF d j := by
    intro hjm
    have h2 := hsorted j (by omega)
    rw [insAt_eq, insAt_gt j D d j (Nat.le_refl _)] at h2
    rw [pos_ins_j]
    cases j with
    | zero => simp only [if_true, posF]; omega
    | succ j' =>
        rw [if_neg (by omega), Nat.add_sub_cancel]
        simp only [posF]; omega
  obtain ⟨k, hblock, hgap⟩ := ins_block d m j (posF (insAt j D d) j) hPle
  have hlow : ∀ i, i < j → posF d i < posF (insAt j D d) j := by
    intro i hi
    have h1 := pos_ins_lt j D d i hi
    have h2 := p_lt (insAt j D d) i j hi
    omega
  have hPk : posF (insAt j D d) j + k < n := by
    cases k with
    | zero => omega
    | succ k =>
        obtain ⟨h1, h2⟩ := hblock k (by omega)
        have := L.fit (j + k) h1
        omega
  have hne : ∀ y, posF (insAt j D d) j ≤ y → y < posF (insAt j D d) j + k → s.isEmpty (io n e y) = false := by
    intro y h1 h2
    obtain ⟨h3, h4⟩ := hblock (y - posF (insAt j D d) j) (by omega)
    rw [show posF (insAt j D d) j + (y - posF (insAt j D d) j) = y by omega] at h4
    rw [← h4]
    exact isEmpty_cell L _ h3
  have hemp : s.isEmpty (io n e (posF (insAt j D d) j + k)) = true := by
    apply isEmpty_nocell L _ hPk
    intro i hi heq
    by_cases h1 : i < j
    · have := hlow i h1; omega
    · by_cases h2 : i < j + k
      · obtain ⟨_, h4⟩ := hblock (i - j) (by omega)
        rw [show j + (i - j) = i by omega] at h4
        omega
      · have := hgap (by omega)
        have := p_mono d (j + k) i (by omega)
        omega
  obtain ⟨t, ht, hD⟩ := shiftInsert_desc s n e (posF (insAt j D d) j) k D rr orig flag hn L.size X.lrem
    X.locc X.lcont X.lshift hPk (by omega) hne hemp
  rw [hnc] at hD
  have hfl' : j < m → (if 1 ≤ k ∧ flag = true then true else contF d j) = contF (insAt j D d) (j + 1) := by
    intro hjm
    rw [← hfl hjm]
    by_cases hk : 1 ≤ k
    · obtain ⟨_, h4⟩ := hblock 0 (by omega)
      simp only [Nat.add_zero] at h4
      by_cases hf : flag = true
      · rw [if_pos ⟨hk, hf⟩, if_pos ⟨h4, hf⟩]
      · rw [if_neg (fun h => hf h.2), if_neg (fun h => hf h.2)]
    · have hk0 : k = 0 := by omega
      subst hk0
      have := hgap (by omega)
      simp only [Nat.add_zero] at this
      rw [if_neg (fun h => hk h.1), if_neg (fun h => by omega)]
  obtain ⟨L', X'⟩ := desc_lin L X j D rr k _ flag hj hD hblock hgap hsorted hfit rfl hfl'
  exact ⟨t, ht, L', X', hD.q, hD.count, hD.auto⟩

theorem set_false_self (l : List Bool) (i : Nat) (h : bit l i = false) : l.set i false = l := by
  apply List.ext_getElem (by simp)
  intro k h1 h2
  rw [List.getElem_set]
  split
  · rename_i hik
    subst hik
    simp only [bit, List.getD_eq_getElem?_getD, List.getElem?_eq_getElem h2, Option.getD_some] at h
    exact h.symm
  · rfl

/-! ### `_add` -/

/-- **`_add` on the linear view**: the element with home distance `D` and remainder `rr` that
    belongs at index `j` of the element sequence is inserted there -/
theorem view_add (L : Lin s n e m d r) (X : Extra s n e m d) (j D rr : Nat) (hj : j ≤ m)
    (hsorted : ∀ i, i + 1 < m + 1 → insAt j D d i < insAt j D d (i + 1) ∨
      (insAt j D d i = insAt j D d (i + 1) ∧ insAt j rr r i < insAt j rr r (i + 1)))
    (hfit : ∀ i, i < m + 1 → posF (insAt j D d) i + 2 ≤ n) :
    ∃ t, addCore s (io n e D) rr = .ok t ∧
      Lin t n e (m + 1) (insAt j D d) (insAt j rr r) ∧ Extra t n e (m + 1) (insAt j D d) ∧
      t.q = s.q ∧ t.count = s.count ∧ t.auto = s.auto := by
  have hn : 0 < n := by have := L.n2; omega
  have hPfit := hfit j (by omega)
  have hDP : D ≤ posF (insAt j D d) j := by
    have := p_ge_d (insAt j D d) j
    rw [insAt_eq] at this; exact this
  have hDn : D < n := by omega
  -- the neighbours of the new element
  have hF1 : 1 ≤ j → d (j - 1) < D ∨ (d (j - 1) = D ∧ r (j - 1) < rr) := by
    intro h1
    have h2 := hsorted (j - 1) (by omega)
    rw [show j - 1 + 1 = j by omega, insAt_eq, insAt_eq, insAt_lt j D d (j - 1) (by omega),
      insAt_lt j rr r (j - 1) (by omega)] at h2
    exact h2
  have hF2 : j < m → D < d j ∨ (D = d j ∧ rr < r j) := by
    intro h1
    have h2 := hsorted j (by omega)
    rw [insAt_eq, insAt_eq, insAt_gt j D d j (Nat.le_refl _), insAt_gt j rr r j (Nat.le_refl _)] at h2
    exact h2
  have hlo : ∀ i, i < j → d i ≤ D := by
    intro i hi
    have := d_mono L i (j - 1) (by omega) (by omega)
    have := hF1 (by omega)
    omega
  have hhi : ∀ i, j ≤ i → i < m → D ≤ d i := by
    intro i h1 h2
    have := d_mono L j i h1 h2
    have := hF2 (by omega)
    omega
  have hcj1 : contF (insAt j D d) (j + 1) = decide (d j = D) := by
    simp only [contF, Nat.add_sub_cancel, insAt_eq, insAt_gt j D d j (Nat.le_refl _)]
    simp
  have hcj : contF (insAt j D d) j = (decide (j ≠ 0) && decide (D = d (j - 1))) := by
    simp only [contF, insAt_eq]
    by_cases h0 : j = 0
    · simp [h0]
    · rw [insAt_lt j D d (j - 1) (by omega)]
  have hPj := pos_ins_j j D d
  simp only [addCore]
  by_cases hemp : s.isEmpty (io n e D) = true
  · ---- (a) the home slot is empty
    rw [if_pos hemp]
    have hnocell : ∀ i, i < m → posF d i ≠ D := by
      intro i hi h
      have := isEmpty_cell L i hi
      rw [h, hemp] at this; cases this
    have hnohome : ∀ i, i < m → d i ≠ D := by
      intro i hi h
      obtain ⟨k, hk, hpk⟩ := pos_of_home L i hi
      exact hnocell k (by omega) (by omega)
    have hP : posF (insAt j D d) j = D := by
      rw [hPj]
      by_cases h0 : j = 0
      · rw [if_pos h0]
      · rw [if_neg h0]
        have h1 := hlo (j - 1) (by omega)
        have h2 := hnohome (j - 1) (by omega)
        have : posF d (j - 1) < D := by
          apply Classical.byContradiction
          intro h
          obtain ⟨k, hk, hpk⟩ := cell_between L (j - 1) D (by omega) h1 (by omega)
          exact hnocell k (by omega) hpk
        omega
    have hbits : bit s.cont (io n e D) = false ∧ bit s.shift (io n e D) = false := by
      simp only [isEmpty, Bool.and_eq_true, Bool.not_eq_true'] at hemp
      exact ⟨hemp.1.2, hemp.2⟩
    have hplace : ({ s with rem := s.rem.set (io n e D) rr, occ := s.occ.set (io n e D) true } : QF)
        = s.place (io n e D) rr (io n e D) (io n e D) := by
      simp only [place, bne_self_eq_false, set_false_self _ _ hbits.1, set_false_self _ _ hbits.2]
    have hsi : shiftInsert s (io n e D) rr (io n e D) (io n e D) false
        = .ok (s.place (io n e D) rr (io n e D) (io n e D)) := by
      simp [shiftInsert, hemp]
    obtain ⟨t, ht, L', X', h1, h2, h3⟩ := view_shiftInsert L X j D rr hj hsorted hfit (io n e D) false
      (by
        rw [hP, hcj]
        simp only [bne_self_eq_false]
        symm
        simp only [Bool.and_eq_false_iff, decide_eq_false_iff_not, Decidable.not_not]
        by_cases h0 : j = 0
        · left; exact h0
        · right; intro h; exact hnohome (j - 1) (by omega) h.symm)
      (by
        intro hjm
        rw [if_neg (fun h => by simp at h), hcj1]
        have h1 := hnohome j hjm
        have h2 := hhi j (Nat.le_refl _) hjm
        simp only [contF]
        rw [decide_eq_false h1]
        simp only [Bool.and_eq_false_iff, decide_eq_false_iff_not, Decidable.not_not]
        by_cases h0 : j = 0
        · left; exact h0
        · right
          have := hlo (j - 1) (by omega)
          omega)
    rw [hP, hsi] at ht
    rw [hplace]
    exact ⟨t, ht, L', X', h1, h2, h3⟩
  · rw [if_neg hemp]
    have hemp' : s.isEmpty (io n e D) = false := by
      cases h : s.isEmpty (io n e D)
      · rfl
      · exact absurd h hemp
    -- the home slot holds an element
    have hcellD : ∃ k0, k0 < m ∧ posF d k0 = D := by
      apply Classical.byContradiction
      intro h
      have := isEmpty_nocell L D hDn (fun i hi heq => h ⟨i, hi, heq⟩)
      rw [hemp'] at this; cases this
    obtain ⟨k0, hk0m, hpk0⟩ := hcellD
    by_cases hocc : bit s.occ (io n e D) = true
    · ---- (c) the quotient is occupied
      obtain ⟨i0, hi0, hdi0⟩ := (L.occ D hDn).1 hocc
      obtain ⟨f, hfi, hdf, hfmin⟩ := exists_first (fun k => d k = D) i0 hdi0
      obtain ⟨g, hig, hgm, hdg, hgmax⟩ := exists_last (fun k => d k = D) m (m - i0 - 1) i0 (by omega) hdi0
      have hfm : f < m := by omega
      have hgrp : ∀ k, f ≤ k → k ≤ g → d k = d f := by
        intro k h1 h2
        have := d_mono L f k h1 (by omega)
        have := d_mono L k g h2 hgm
        omega
      have hstart := getStartIndex_lin L f hfm (by intro k hk; rw [hdf]; exact hfmin k hk)
      rw [hdf] at hstart
      -- the index of the new element lies in the run
      have hfj : f ≤ j := by
        apply Classical.byContradiction
        intro h
        have h1 := hhi j (by omega) (by omega)
        have h2 := d_mono L j f (by omega) hfm
        exact hfmin j (by omega) (by omega)
      have hjg : j ≤ g + 1 := by
        apply Classical.byContradiction
        intro h
        have h1 := hlo (g + 1) (by omega)
        have h2 := d_mono L g (g + 1) (by omega) (by omega)
        exact hgmax (g + 1) (by omega) (by omega) (by omega)
      have hrmono : ∀ k k', f ≤ k → k ≤ k' → k' ≤ g → r k ≤ r k' := by
        intro k k' h1 h2 h3
        induction k' with
        | zero => have : k = 0 := by omega
                  subst this; exact Nat.le_refl _
        | succ k' ih =>
            by_cases hk : k = k' + 1
            · subst hk; exact Nat.le_refl _
            · have := ih (by omega) (by omega)
              have hso := L.sorted k' (by omega)
              have e1 := hgrp k' (by omega) (by omega)
              have e2 := hgrp (k' + 1) (by omega) (by omega)
              omega
      have hlt : ∀ i, f ≤ i → i < j → r i < rr := by
        intro i h1 h2
        have h3 := hF1 (by omega)
        have h4 := hgrp (j - 1) (by omega) (by omega)
        have h5 := hrmono i (j - 1) h1 (by omega) (by omega)
        omega
      have hgt : j ≤ g → rr ≤ r j := by
        intro h1
        have h3 := hF2 (by omega)
        have h4 := hgrp j hfj h1
        omega
      have hgn : g + 2 ≤ n := by
        have := p_mono d 0 g (by omega); have := L.fit g hgm; omega
      have hscan := addScan_run L f g j rr hgm hgrp
        (by intro h1; rw [hdf]; exact hgmax (g + 1) (by omega) h1) hjg hlt hgt
        ((if j ≤ g then j else g) - f) f s.fuelOf (by split <;> omega) (Nat.le_refl _)
        (by simp only [fuelOf, L.size]; split <;> omega)
      -- the position of the new element
      have hP : posF (insAt j D d) j = if j ≤ g then posF d j else posF d g + 1 := by
        rw [hPj]
        by_cases hjg' : j ≤ g
        · rw [if_pos hjg']
          have h4 := hgrp j hfj hjg'
          by_cases h0 : j = 0
          · rw [if_pos h0, h0]; simp only [posF]; rw [h0] at h4; omega
          · rw [if_neg h0]
            obtain ⟨j', rfl⟩ : ∃ j', j = j' + 1 := ⟨j - 1, by omega⟩
            simp only [Nat.add_sub_cancel, posF]; omega
        · rw [if_neg hjg', if_neg (by omega)]
          have : j - 1 = g := by omega
          rw [this]
          have := p_ge_d d g
          omega
      simp only [hstart, hocc, Bool.not_true, Bool.false_eq_true, if_false, hscan]
      rw [← hP]
      obtain ⟨t, ht, L', X', h1, h2, h3⟩ := view_shiftInsert L X j D rr hj hsorted hfit
        (io n e (posF d f)) ((if j ≤ g then 0 else 1) != 1)
        (by
          rw [hcj]
          by_cases hjf : j = f
          · have e1 : posF (insAt j D d) j = posF d f := by
              rw [hP, if_pos (by omega), hjf]
            rw [e1]
            simp only [bne_self_eq_false]
            symm
            simp only [Bool.and_eq_false_iff, decide_eq_false_iff_not, Decidable.not_not]
            by_cases h0 : j = 0
            · left; exact h0
            · right; intro h; exact hfmin (j - 1) (by omega) h.symm
          · have e1 : d (j - 1) = D := by rw [hgrp (j - 1) (by omega) (by omega), hdf]
            have e2 : posF d f < posF (insAt j D d) j := by
              have := p_mono d f (j - 1) (by omega)
              rw [hPj, if_neg (by omega)]
              omega
            have hff := L.fit f hfm
            have : io n e (posF (insAt j D d) j) ≠ io n e (posF d f) := by
              intro h
              have := io_inj n e (posF (insAt j D d) j) (posF d f) (by omega) (by omega) h
              omega
            rw [bne_iff_ne.2 this, e1]
            have : j ≠ 0 := by omega
            simp [this])
        (by
          intro hjm
          rw [hcj1]
          by_cases hjg' : j ≤ g
          · have e1 : posF d j = posF (insAt j D d) j := by rw [hP, if_pos hjg']
            have e2 : d j = D := by rw [hgrp j hfj hjg', hdf]
            rw [if_pos ⟨e1, by simp [hjg']⟩]
            simp [e2]
          · have hj' : j = g + 1 := by omega
            rw [if_neg (fun h => by simp [hjg'] at h)]
            have e2 : d j ≠ D := by rw [hj']; exact hgmax (g + 1) (by omega) (by omega)
            simp only [contF]
            rw [decide_eq_false e2]
            simp only [Bool.and_eq_false_iff, decide_eq_false_iff_not, Decidable.not_not]
            right
            rw [hj', Nat.add_sub_cancel, hdg]
            rw [hj'] at e2; exact e2)
      exact ⟨t, ht, L', X', h1, h2, h3⟩
    · ---- (b) the quotient is not occupied
      have hocc' : bit s.occ (io n e D) = false := by
        cases h : bit s.occ (io n e D)
        · rfl
        · exact absurd h hocc
      have hnohome : ∀ i, i < m → d i ≠ D := by
        intro i hi h
        have := (L.occ D hDn).2 ⟨i, hi, h⟩
        rw [hocc'] at this; cases this
      have hk0j : k0 < j := by
        apply Classical.byContradiction
        intro h
        have h1 := hhi k0 (by omega) hk0m
        have h2 := hnohome k0 hk0m
        have h3 := p_ge_d d k0
        omega
      have hcell : D ≤ posF d (j - 1) := by
        have := p_mono d k0 (j - 1) (by omega); omega
      have hP : posF (insAt j D d) j = posF d (j - 1) + 1 := by
        rw [hPj, if_neg (by omega)]; omega
      have hstart := getStartIndex_unocc L j D hj (by omega)
        (fun i hi => by have := hlo i hi; have := hnohome i (by omega); omega)
        (fun i h1 h2 => by have := hhi i h1 h2; have := hnohome i h2; omega)
        hcell (by omega)
      simp only [hstart, hocc', Bool.not_false, if_true]
      rw [← hP]
      obtain ⟨t, ht, L', X', h1, h2, h3⟩ := view_shiftInsert L X j D rr hj hsorted hfit
        (io n e (posF (insAt j D d) j)) false
        (by
          rw [hcj]
          simp only [bne_self_eq_false]
          symm
          simp only [Bool.and_eq_false_iff, decide_eq_false_iff_not, Decidable.not_not]
          right; intro h; exact hnohome (j - 1) (by omega) h.symm)
        (by
          intro hjm
          rw [if_neg (fun h => by simp at h), hcj1]
          have h1 := hnohome j hjm
          have h2 := hhi j (Nat.le_refl _) hjm
          simp only [contF]
          rw [decide_eq_false h1]
          simp only [Bool.and_eq_false_iff, decide_eq_false_iff_not, Decidable.not_not]
          right
          have := hlo (j - 1) (by omega)
          omega)
      exact ⟨t, ht, L', X', h1, h2, h3⟩

end view
end PyProb.QFLin
