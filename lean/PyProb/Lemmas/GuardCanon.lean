/-
  The translator (harness/extract_facts.py) reads every guard it extracts as it is WRITTEN —
  `subject <raw> bound + off` — and hands the models a canonical operator against the bound itself.
  This file re-proves, on every run and for whatever the translator emitted, that the canonical
  operator means the same as the written guard:

    * for the integer guards of the expanding / rotating filters:  for all integers a, b
        raw a (b + off)  =  canonical a b                     (`a <= b - 1` is `a < b`, …);
    * for the saturation clamps (`if v <raw> M+off: cell = M else: cell = v`, and the mirrored
      "keep" form of remove):  the value stored is the same for all integers v
        (`>=` and `>` store the same value, because at v = M both branches store M).

  So the translator's normalisation is checked by the kernel, not trusted.  A spelling outside the
  recognised ones is reported by the translator as a missing fact (a broken tie), never guessed.
-/
import PyProb.Generated.Repo

namespace PyProb.GuardCanon
open PyProb

/-- closes `raw a (b + off) = canon a b` once the three generated constants are unfolded -/
macro "guard_canon" : tactic =>
  `(tactic| first
    | rfl
    | (simp only [Cmp.evalInt, Int.add_zero, decide_eq_decide, beq_iff_eq, bne_iff_ne, ne_eq, ge_iff_le, gt_iff_lt]
       try omega)
    | (simp only [Cmp.evalInt]; simp; try omega))

theorem expGrow_canon (a b : Int) :
    Gen.expGrowCmpRaw.evalInt a (b + Gen.expGrowCmpOff) = Gen.expGrowCmp.evalInt a b := by
  unfold Gen.expGrowCmpRaw Gen.expGrowCmpOff Gen.expGrowCmp; guard_canon

theorem rotReady_canon (a b : Int) :
    Gen.rotReadyCmpRaw.evalInt a (b + Gen.rotReadyCmpOff) = Gen.rotReadyCmp.evalInt a b := by
  unfold Gen.rotReadyCmpRaw Gen.rotReadyCmpOff Gen.rotReadyCmp; guard_canon

theorem rotRoom_canon (a b : Int) :
    Gen.rotRoomCmpRaw.evalInt a (b + Gen.rotRoomCmpOff) = Gen.rotRoomCmp.evalInt a b := by
  unfold Gen.rotRoomCmpRaw Gen.rotRoomCmpOff Gen.rotRoomCmp; guard_canon

/-- closes the clamp equalities -/
macro "clamp_canon" : tactic =>
  `(tactic| (simp only [Cmp.evalInt, Int.add_zero]
             repeat' split
             all_goals (first | rfl | (simp only [decide_eq_true_eq, decide_eq_false_iff_not] at *; omega) | (simp at *; omega))))

/-- count-min `add`: `if v <guard> INT32_MAX: cell = INT32_MAX else: cell = v` -/
theorem cmsAddClamp_canon (v : Int) :
    (if Gen.cmsAddClampCmpRaw.evalInt v (Gen.int32Max + Gen.cmsAddClampCmpOff) then Gen.int32Max else v)
      = (if Gen.cmsAddClampCmp.evalInt v Gen.int32Max then Gen.int32Max else v) := by
  unfold Gen.cmsAddClampCmpRaw Gen.cmsAddClampCmpOff Gen.cmsAddClampCmp; clamp_canon

/-- count-min total: `if total <guard> INT64_MAX: total = INT64_MAX` -/
theorem cmsTotalMax_canon (v : Int) :
    (if Gen.cmsTotalMaxCmpRaw.evalInt v (Gen.int64Max + Gen.cmsTotalMaxCmpOff) then Gen.int64Max else v)
      = (if Gen.cmsTotalMaxCmp.evalInt v Gen.int64Max then Gen.int64Max else v) := by
  unfold Gen.cmsTotalMaxCmpRaw Gen.cmsTotalMaxCmpOff Gen.cmsTotalMaxCmp; clamp_canon

/-- count-min `remove`: `if v <guard> INT32_MIN: cell = v else: cell = INT32_MIN` -/
theorem cmsRemoveKeep_canon (v : Int) :
    (if Gen.cmsRemoveKeepCmpRaw.evalInt v (Gen.int32Min + Gen.cmsRemoveKeepCmpOff) then v else Gen.int32Min)
      = (if Gen.cmsRemoveKeepCmp.evalInt v Gen.int32Min then v else Gen.int32Min) := by
  unfold Gen.cmsRemoveKeepCmpRaw Gen.cmsRemoveKeepCmpOff Gen.cmsRemoveKeepCmp; clamp_canon

set_option linter.unusedVariables false in
/-- counting Bloom `add`: `if v <guard> UINT32_MAX: cell = UINT32_MAX else: cell = min(w, UINT32_MAX)`
    where `w ≥ v` is the cell's current value plus the amount (positions of one key may coincide) -/
theorem cbfAddClamp_canon (v w : Int) (h : v ≤ w) :
    (if Gen.cbfAddClampCmpRaw.evalInt v (Gen.uint32Max + Gen.cbfAddClampCmpOff) then (Gen.uint32Max : Int)
      else min w Gen.uint32Max)
      = (if Gen.cbfAddClampCmp.evalInt v Gen.uint32Max then (Gen.uint32Max : Int) else min w Gen.uint32Max) := by
  unfold Gen.cbfAddClampCmpRaw Gen.cbfAddClampCmpOff Gen.cbfAddClampCmp; clamp_canon

end PyProb.GuardCanon
