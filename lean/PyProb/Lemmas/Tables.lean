/-
  Abstract logic of the tracking tables of HeavyHitters / StreamThreshold
  (countminsketch.py), independent of the sketch: the table update depends only on the sequence
  of `(key, returned estimate)` pairs.  Core Lean only.
-/
import PyProb.Model.CMS

namespace PyProb
namespace Table

/-- the keys of a table, in insertion order -/
def keys (t : Table) : List Key := t.map (·.1)

@[simp] theorem keys_nil : keys [] = [] := rfl
@[simp] theorem keys_cons (p : Key × Int) (t : Table) : keys (p :: t) = p.1 :: keys t := rfl
@[simp] theorem keys_append (a b : Table) : keys (a ++ b) = keys a ++ keys b := by simp [keys]
@[simp] theorem keys_length (t : Table) : (keys t).length = t.length := by simp [keys]

theorem mem_keys_of_mem {t : Table} {k : Key} {v : Int} (h : (k, v) ∈ t) : k ∈ keys t :=
  List.mem_map.mpr ⟨(k, v), h, rfl⟩

@[simp] theorem get?_nil (k : Key) : get? [] k = none := rfl

theorem get?_cons (p : Key × Int) (t : Table) (k : Key) :
    get? (p :: t) k = if p.1 = k then some p.2 else get? t k := by
  by_cases h : p.1 = k <;> simp [get?, h]

theorem get?_eq_none_iff (t : Table) (k : Key) : t.get? k = none ↔ k ∉ keys t := by
  induction t with
  | nil => simp
  | cons p t ih =>
      rw [get?_cons]
      by_cases h : p.1 = k
      · simp [h]
      · have : ¬ k = p.1 := fun e => h e.symm
        simp [h, ih, this]

theorem get?_isSome_iff (t : Table) (k : Key) : (t.get? k).isSome = true ↔ k ∈ keys t := by
  have := get?_eq_none_iff t k
  cases h : t.get? k <;> simp_all

theorem mem_of_get? {t : Table} {k : Key} {v : Int} (h : t.get? k = some v) : (k, v) ∈ t := by
  induction t with
  | nil => simp at h
  | cons p t ih =>
      rw [get?_cons] at h
      by_cases e : p.1 = k
      · simp only [e, if_true, Option.some.injEq] at h
        have : p = (k, v) := by cases p; simp_all
        simp [this]
      · simp only [e, if_false] at h
        exact List.mem_cons_of_mem _ (ih h)

theorem get?_of_mem {t : Table} (hn : (keys t).Nodup) {k : Key} {v : Int} (h : (k, v) ∈ t) :
    t.get? k = some v := by
  induction t with
  | nil => simp at h
  | cons p t ih =>
      rw [get?_cons]
      simp only [keys_cons, List.nodup_cons] at hn
      rcases List.mem_cons.mp h with e | e
      · subst e; simp
      · have : p.1 ≠ k := fun e' => hn.1 (e' ▸ mem_keys_of_mem e)
        simp [this, ih hn.2 e]

theorem get?_iff_mem {t : Table} (hn : (keys t).Nodup) (k : Key) (v : Int) :
    t.get? k = some v ↔ (k, v) ∈ t := ⟨mem_of_get?, get?_of_mem hn⟩

/-! ### `set` -/

theorem any_key (t : Table) (key : Key) : t.any (·.1 == key) = true ↔ key ∈ keys t := by
  simp only [keys, List.any_eq_true, List.mem_map, beq_iff_eq]

theorem set_of_not_mem {t : Table} {key : Key} (h : key ∉ keys t) (v : Int) :
    t.set key v = t ++ [(key, v)] := by
  have : ¬ t.any (·.1 == key) = true := fun e => h ((any_key t key).mp e)
  unfold set; rw [if_neg this]

theorem set_of_mem {t : Table} {key : Key} (h : key ∈ keys t) (v : Int) :
    t.set key v = t.map fun p => if p.1 = key then (key, v) else p := by
  have : t.any (·.1 == key) = true := (any_key t key).mpr h
  unfold set; rw [if_pos this]
  apply List.map_congr_left
  intro p _
  by_cases e : p.1 = key <;> simp [e]

theorem keys_set_of_mem {t : Table} {key : Key} (h : key ∈ keys t) (v : Int) :
    keys (t.set key v) = keys t := by
  rw [set_of_mem h, keys, keys, List.map_map]
  apply List.map_congr_left
  intro p _
  by_cases e : p.1 = key <;> simp [e]

theorem keys_set_of_not_mem {t : Table} {key : Key} (h : key ∉ keys t) (v : Int) :
    keys (t.set key v) = keys t ++ [key] := by
  rw [set_of_not_mem h]; simp

theorem length_set_of_mem {t : Table} {key : Key} (h : key ∈ keys t) (v : Int) :
    (t.set key v).length = t.length := by
  rw [set_of_mem h]; simp

theorem length_set_of_not_mem {t : Table} {key : Key} (h : key ∉ keys t) (v : Int) :
    (t.set key v).length = t.length + 1 := by
  rw [set_of_not_mem h]; simp

theorem nodup_set {t : Table} (hn : (keys t).Nodup) (key : Key) (v : Int) :
    (keys (t.set key v)).Nodup := by
  by_cases h : key ∈ keys t
  · rw [keys_set_of_mem h]; exact hn
  · rw [keys_set_of_not_mem h]
    exact List.nodup_append.mpr ⟨hn, by simp, by
      intro a ha b hb; simp at hb; subst hb; exact fun e => h (e ▸ ha)⟩

theorem mem_keys_set (t : Table) (key : Key) (v : Int) (k : Key) :
    k ∈ keys (t.set key v) ↔ k = key ∨ k ∈ keys t := by
  by_cases h : key ∈ keys t
  · rw [keys_set_of_mem h]
    constructor
    · exact Or.inr
    · rintro (rfl | e); exact h; exact e
  · rw [keys_set_of_not_mem h]; simp [or_comm]

theorem get?_map_set_self (t : Table) (key : Key) (v : Int) (h : key ∈ keys t) :
    get? (t.map fun p => if p.1 = key then (key, v) else p) key = some v := by
  induction t with
  | nil => simp at h
  | cons p t ih =>
      simp only [List.map_cons, get?_cons]
      by_cases e : p.1 = key
      · simp [e]
      · have : key ∈ keys t := by
          simp only [keys_cons, List.mem_cons] at h
          rcases h with h | h
          · exact absurd h.symm e
          · exact h
        simp [e, ih this]

theorem get?_map_set_ne (t : Table) (key : Key) (v : Int) (k : Key) (hk : k ≠ key) :
    get? (t.map fun p => if p.1 = key then (key, v) else p) k = get? t k := by
  induction t with
  | nil => simp
  | cons p t ih =>
      simp only [List.map_cons, get?_cons, ih]
      by_cases e : p.1 = key
      · have h1 : ¬ key = k := fun x => hk x.symm
        simp [e, h1]
      · simp [e]

theorem get?_append (a b : Table) (k : Key) :
    get? (a ++ b) k = (get? a k).or (get? b k) := by
  induction a with
  | nil => simp
  | cons p a ih =>
      simp only [List.cons_append, get?_cons, ih]
      by_cases e : p.1 = k <;> simp [e]

theorem get?_set_self (t : Table) (key : Key) (v : Int) : (t.set key v).get? key = some v := by
  by_cases h : key ∈ keys t
  · rw [set_of_mem h]; exact get?_map_set_self t key v h
  · rw [set_of_not_mem h, get?_append, (get?_eq_none_iff t key).mpr h]
    simp [get?_cons]

theorem get?_set_ne (t : Table) (key : Key) (v : Int) {k : Key} (hk : k ≠ key) :
    (t.set key v).get? k = t.get? k := by
  by_cases h : key ∈ keys t
  · rw [set_of_mem h]; exact get?_map_set_ne t key v k hk
  · have : ¬ key = k := fun x => hk x.symm
    rw [set_of_not_mem h, get?_append]
    simp [get?_cons, this]

theorem get?_set (t : Table) (key : Key) (v : Int) (k : Key) :
    (t.set key v).get? k = if k = key then some v else t.get? k := by
  by_cases hk : k = key
  · subst hk; simp [get?_set_self]
  · simp [hk, get?_set_ne t key v hk]

/-! ### `pop` -/

theorem keys_pop (t : Table) (k : Key) : keys (t.pop k) = (keys t).filter (· != k) := by
  simp only [pop, keys, List.filter_map]; rfl

theorem nodup_pop {t : Table} (hn : (keys t).Nodup) (k : Key) : (keys (t.pop k)).Nodup := by
  rw [keys_pop]; exact hn.filter _

theorem mem_keys_pop (t : Table) (k k' : Key) : k' ∈ keys (t.pop k) ↔ k' ∈ keys t ∧ k' ≠ k := by
  rw [keys_pop]; simp

theorem get?_pop (t : Table) (key : Key) (k : Key) :
    (t.pop key).get? k = if k = key then none else t.get? k := by
  induction t with
  | nil => simp [pop]
  | cons p t ih =>
      have ih' : get? (List.filter (fun x => x.1 != key) t) k = if k = key then none else get? t k := ih
      simp only [pop, List.filter_cons]
      by_cases e : p.1 = key
      · simp only [e, bne_self_eq_false, Bool.false_eq_true, if_false, ih', get?_cons]
        by_cases hk : k = key
        · simp [hk]
        · have : ¬ key = k := fun x => hk x.symm
          simp [hk, this]
      · have : (p.1 != key) = true := by simp [e]
        simp only [this, if_true, get?_cons, ih']
        by_cases hk : k = key
        · have : ¬ p.1 = k := fun x => e (x.trans hk)
          simp [hk, e]
        · simp [hk]

theorem length_pop_of_not_mem {t : Table} {k : Key} (h : k ∉ keys t) : t.pop k = t := by
  induction t with
  | nil => rfl
  | cons p t ih =>
      simp only [keys_cons, List.mem_cons, not_or] at h
      have e : (p.1 != k) = true := by simpa using fun x => h.1 x.symm
      have ih' : List.filter (fun x => x.1 != k) t = t := ih h.2
      simp [pop, e, ih']

theorem length_pop {t : Table} (hn : (keys t).Nodup) {k : Key} (h : k ∈ keys t) :
    (t.pop k).length + 1 = t.length := by
  induction t with
  | nil => simp at h
  | cons p t ih =>
      simp only [keys_cons, List.nodup_cons] at hn
      simp only [pop, List.filter_cons]
      by_cases e : p.1 = k
      · have : k ∉ keys t := e ▸ hn.1
        have := length_pop_of_not_mem this
        simp only [pop] at this
        simp [e, this]
      · have hk : k ∈ keys t := by
          simp only [keys_cons, List.mem_cons] at h
          rcases h with h | h
          · exact absurd h.symm e
          · exact h
        have := ih hn.2 hk
        simp only [pop] at this
        simp [e, this]

/-! ### `argmin` -/

theorem argmin_eq_none {t : Table} : argmin t = none ↔ t = [] := by
  cases t <;> simp [argmin]

private theorem foldl_min (rest : Table) (p m : Key × Int)
    (hm : rest.foldl (fun best q => if q.2 < best.2 then q else best) p = m) :
    (m = p ∨ m ∈ rest) ∧ m.2 ≤ p.2 ∧ ∀ q ∈ rest, m.2 ≤ q.2 := by
  induction rest generalizing p with
  | nil => simp at hm; simp [hm]
  | cons q rest ih =>
      simp only [List.foldl_cons] at hm
      obtain ⟨h1, h2, h3⟩ := ih (if q.2 < p.2 then q else p) hm
      refine ⟨?_, ?_, ?_⟩
      · rcases h1 with h1 | h1
        · rw [h1]; split <;> simp
        · exact Or.inr (List.mem_cons_of_mem _ h1)
      · split at h2 <;> omega
      · intro r hr
        rcases List.mem_cons.mp hr with rfl | hr
        · split at h2 <;> omega
        · exact h3 r hr

/-- `argmin` returns a member whose value is least -/
theorem argmin_spec {t : Table} {p : Key × Int} (h : argmin t = some p) :
    p ∈ t ∧ ∀ q ∈ t, p.2 ≤ q.2 := by
  cases t with
  | nil => simp [argmin] at h
  | cons a rest =>
      simp only [argmin, Option.some.injEq] at h
      obtain ⟨h1, h2, h3⟩ := foldl_min rest a p h
      refine ⟨?_, ?_⟩
      · rcases h1 with h1 | h1
        · simp [h1]
        · exact List.mem_cons_of_mem _ h1
      · intro q hq
        rcases List.mem_cons.mp hq with rfl | hq
        · exact h2
        · exact h3 q hq

end Table

/-- induction on a list from the right -/
theorem snoc_induction {α : Type _} {motive : List α → Prop} (nil : motive [])
    (snoc : ∀ l a, motive l → motive (l ++ [a])) (l : List α) : motive l := by
  have : ∀ r : List α, motive r.reverse := by
    intro r
    induction r with
    | nil => exact nil
    | cons a r ih => rw [List.reverse_cons]; exact snoc _ _ ih
  simpa using this l.reverse

/-! ### histories of `(key, returned estimate)` pairs -/

/-- the estimate returned by the most recent step on `k` (`none`: `k` never seen) -/
def lastRet (seq : List (Key × Int)) (k : Key) : Option Int :=
  seq.foldl (fun acc p => if p.1 = k then some p.2 else acc) none

/-- number of distinct keys seen -/
def distinct (seq : List (Key × Int)) : Nat := (seq.map (·.1)).eraseDups.length

@[simp] theorem lastRet_nil (k : Key) : lastRet [] k = none := rfl

theorem lastRet_snoc (seq : List (Key × Int)) (p : Key × Int) (k : Key) :
    lastRet (seq ++ [p]) k = if p.1 = k then some p.2 else lastRet seq k := by
  simp [lastRet, List.foldl_append]

theorem lastRet_eq_none_iff (seq : List (Key × Int)) (k : Key) :
    lastRet seq k = none ↔ k ∉ seq.map (·.1) := by
  induction seq using snoc_induction with
  | nil => simp
  | snoc seq p ih =>
      rw [lastRet_snoc]
      by_cases e : p.1 = k
      · simp [e]
      · have : ¬ k = p.1 := fun x => e x.symm
        simp [e, ih, this]

@[simp] theorem distinct_nil : distinct [] = 0 := rfl

theorem distinct_snoc (seq : List (Key × Int)) (p : Key × Int) :
    distinct (seq ++ [p]) = distinct seq + if lastRet seq p.1 = none then 1 else 0 := by
  simp only [distinct, List.map_append, List.map_cons, List.map_nil, List.eraseDups_append,
    List.length_append]
  by_cases h : lastRet seq p.1 = none
  · have h' := (lastRet_eq_none_iff seq p.1).mp h
    simp [h, List.removeAll, h', List.eraseDups_cons]
  · have h' : p.1 ∈ seq.map (·.1) := by
      have := fun x => h ((lastRet_eq_none_iff seq p.1).mpr x)
      simpa using this
    simp [h, List.removeAll, h']

theorem distinct_le_snoc (seq : List (Key × Int)) (p : Key × Int) :
    distinct seq ≤ distinct (seq ++ [p]) := by
  rw [distinct_snoc]; omega

/-! ### HeavyHitters: the table logic of `HH.addAlt` after the sketch returned `res` -/

/-- the part of a `HH` that the table logic touches -/
structure HHS where
  table : Table
  size : Nat
  smallest : Int

/-- exact mirror of the branches of `HH.addAlt` below `(c, .ok res)` -/
def hhStep (num : Int) (s : HHS) (key : Key) (res : Int) : HHS × R Int :=
  if (s.size : Int) < num then
    let had := s.table.get? key
    let t := s.table.set key res
    ({ s with table := t, size := if had.isNone then t.length else s.size }, .ok res)
  else if (s.table.get? key).isSome then ({ s with table := s.table.set key res }, .ok res)
  else if res > s.smallest then
    let t := s.table.set key res
    match Table.argmin t with
    | none => ({ s with table := t }, .error .valueError)
    | some (k, _) =>
        let t := t.pop k
        match Table.argmin t with
        | none => ({ s with table := t }, .error .valueError)
        | some (_, v) => ({ s with table := t, smallest := v }, .ok res)
  else (s, .ok res)

def HH.abs (h : HH) : HHS := ⟨h.table, h.size, h.smallest⟩

/-- `HH.addAlt` passes a sketch error through and leaves the table alone -/
theorem HH.addAlt_error (h : HH) (key : Key) (hs : List Nat) (n : Int) (c : CMS) (e : Err)
    (hc : h.cms.addAlt hs n = (c, .error e)) :
    h.addAlt key hs n = ({ h with cms := c }, .error e) := by
  unfold HH.addAlt
  simp only [hc]

/-- `HH.addAlt` is the sketch update followed by `hhStep` on the returned estimate -/
theorem HH.addAlt_ok (h : HH) (key : Key) (hs : List Nat) (n : Int) (c : CMS) (res : Int)
    (hc : h.cms.addAlt hs n = (c, .ok res)) :
    h.addAlt key hs n =
      ({ h with cms := c, table := (hhStep h.num h.abs key res).1.table,
                size := (hhStep h.num h.abs key res).1.size,
                smallest := (hhStep h.num h.abs key res).1.smallest },
       (hhStep h.num h.abs key res).2) := by
  unfold HH.addAlt
  simp only [hc]
  unfold hhStep HH.abs
  dsimp only
  split
  · rfl
  · split
    · rfl
    · split
      · rcases Table.argmin (h.table.set key res) with _ | ⟨k, m⟩
        · rfl
        · dsimp only
          rcases Table.argmin ((h.table.set key res).pop k) with _ | ⟨k2, v⟩ <;> rfl
      · rfl

/-- invariant of the table logic after the history `seq` -/
structure HHInv (num : Int) (seq : List (Key × Int)) (s : HHS) : Prop where
  nodup : (Table.keys s.table).Nodup
  size : s.size = s.table.length
  le : (s.table.length : Int) ≤ num
  count : (s.table.length : Int) = min num (distinct seq)
  tracked : ∀ k v, s.table.get? k = some v → lastRet seq k = some v
  notfull : (s.table.length : Int) < num →
    s.smallest = 0 ∧ ∀ k, lastRet seq k ≠ none → k ∈ Table.keys s.table
  low : ∀ k v, s.table.get? k = some v → s.smallest ≤ v
  untracked : ∀ u r, lastRet seq u = some r → s.table.get? u = none → r ≤ s.smallest

theorem HHInv.init (num : Int) (hnum : 1 ≤ num) : HHInv num [] ⟨[], 0, 0⟩ where
  nodup := by simp
  size := rfl
  le := by simp; omega
  count := by simp; omega
  tracked := by simp
  notfull := by simp
  low := by simp
  untracked := by simp

private theorem tracked_set {t : Table} {seq : List (Key × Int)} (key : Key) (res : Int)
    (h : ∀ k v, t.get? k = some v → lastRet seq k = some v) :
    ∀ k v, (t.set key res).get? k = some v → lastRet (seq ++ [(key, res)]) k = some v := by
  intro k v hg
  rw [Table.get?_set] at hg; rw [lastRet_snoc]
  by_cases ek : k = key
  · subst ek; simpa using hg
  · have : ¬ key = k := fun x => ek x.symm
    simp only [ek, this, if_false] at hg ⊢; exact h k v hg

private theorem low_set {t : Table} (key : Key) (res m : Int)
    (h : ∀ k v, t.get? k = some v → m ≤ v) (hm : m ≤ res) :
    ∀ k v, (t.set key res).get? k = some v → m ≤ v := by
  intro k v hg
  rw [Table.get?_set] at hg
  by_cases ek : k = key
  · simp only [ek, if_true, Option.some.injEq] at hg; omega
  · simp only [ek, if_false] at hg; exact h k v hg

private theorem untracked_set {t : Table} {seq : List (Key × Int)} (key : Key) (res m : Int)
    (h : ∀ u r, lastRet seq u = some r → t.get? u = none → r ≤ m) :
    ∀ u r, lastRet (seq ++ [(key, res)]) u = some r → (t.set key res).get? u = none → r ≤ m := by
  intro u r h1 h2
  rw [Table.get?_set] at h2; rw [lastRet_snoc] at h1
  by_cases ek : u = key
  · simp [ek] at h2
  · have : ¬ key = u := fun x => ek x.symm
    simp only [ek, this, if_false] at h1 h2; exact h u r h1 h2

/-- one step of the table logic: never the `ValueError` branch, and the invariant is kept,
    provided the estimate is non-negative and not below the key's previous estimate -/
theorem hhStep_inv {num : Int} {seq : List (Key × Int)} {s : HHS} (hnum : 1 ≤ num)
    (hI : HHInv num seq s) (key : Key) (res : Int) (hr : 0 ≤ res)
    (hm : ∀ v, lastRet seq key = some v → v ≤ res) :
    (hhStep num s key res).2 = .ok res ∧
      HHInv num (seq ++ [(key, res)]) (hhStep num s key res).1 := by
  have hd := distinct_snoc seq (key, res)
  by_cases h1 : (s.size : Int) < num
  · have hlen : (s.table.length : Int) < num := by rw [← hI.size]; exact h1
    obtain ⟨hs0, hseen⟩ := hI.notfull hlen
    have hseen' : ∀ k, lastRet (seq ++ [(key, res)]) k ≠ none →
        k ∈ Table.keys (s.table.set key res) := by
      intro k hk'; rw [Table.mem_keys_set]
      rw [lastRet_snoc] at hk'
      by_cases ek : key = k
      · exact Or.inl ek.symm
      · simp only [ek, if_false] at hk'; exact Or.inr (hseen k hk')
    by_cases hk : key ∈ Table.keys s.table
    · obtain ⟨v0, hv0⟩ := Option.isSome_iff_exists.mp ((Table.get?_isSome_iff _ _).mpr hk)
      have e : hhStep num s key res = ({ s with table := s.table.set key res }, .ok res) := by
        simp [hhStep, h1, hv0]
      have hne : lastRet seq key ≠ none := by rw [hI.tracked _ _ hv0]; simp
      rw [e]; dsimp only
      refine ⟨rfl, ?_⟩
      exact {
        nodup := Table.nodup_set hI.nodup key res
        size := by simp [Table.length_set_of_mem hk, hI.size]
        le := by simp only [Table.length_set_of_mem hk]; exact hI.le
        count := by
          simp only [Table.length_set_of_mem hk, hd, hne, if_false]; simpa using hI.count
        tracked := tracked_set key res hI.tracked
        notfull := fun _ => ⟨hs0, hseen'⟩
        low := low_set key res _ hI.low (by show s.smallest ≤ res; omega)
        untracked := untracked_set key res _ hI.untracked }
    · have hnone : s.table.get? key = none := (Table.get?_eq_none_iff _ _).mpr hk
      have e : hhStep num s key res =
          ({ s with table := s.table.set key res, size := (s.table.set key res).length }, .ok res) := by
        simp [hhStep, h1, hnone]
      have hnone' : lastRet seq key = none := by
        cases h : lastRet seq key with
        | none => rfl
        | some v => exact absurd (hseen key (by simp [h])) hk
      have hc := hI.count
      rw [e]; dsimp only
      refine ⟨rfl, ?_⟩
      exact {
        nodup := Table.nodup_set hI.nodup key res
        size := rfl
        le := by simp only [Table.length_set_of_not_mem hk]; omega
        count := by
          simp only [Table.length_set_of_not_mem hk, hd, hnone', if_true]; omega
        tracked := tracked_set key res hI.tracked
        notfull := fun _ => ⟨hs0, hseen'⟩
        low := low_set key res _ hI.low (by show s.smallest ≤ res; omega)
        untracked := untracked_set key res _ hI.untracked }
  · have hfull : (s.table.length : Int) = num := by
      have := hI.le; have := hI.size; omega
    have hc := hI.count
    by_cases hk : key ∈ Table.keys s.table
    · obtain ⟨v0, hv0⟩ := Option.isSome_iff_exists.mp ((Table.get?_isSome_iff _ _).mpr hk)
      have e : hhStep num s key res = ({ s with table := s.table.set key res }, .ok res) := by
        simp [hhStep, h1, hv0]
      have hl0 := hI.tracked _ _ hv0
      have hne : lastRet seq key ≠ none := by rw [hl0]; simp
      have := hm v0 hl0
      have := hI.low _ _ hv0
      rw [e]; dsimp only
      refine ⟨rfl, ?_⟩
      exact {
        nodup := Table.nodup_set hI.nodup key res
        size := by simp [Table.length_set_of_mem hk, hI.size]
        le := by simp only [Table.length_set_of_mem hk]; exact hI.le
        count := by
          simp only [Table.length_set_of_mem hk, hd, hne, if_false]; simpa using hI.count
        tracked := tracked_set key res hI.tracked
        notfull := by
          intro h; simp only [Table.length_set_of_mem hk] at h; omega
        low := low_set key res _ hI.low (by show s.smallest ≤ res; omega)
        untracked := untracked_set key res _ hI.untracked }
    · have hnone : s.table.get? key = none := (Table.get?_eq_none_iff _ _).mpr hk
      by_cases h3 : res > s.smallest
      · -- insert, then evict the first least entry
        have hnd := Table.nodup_set hI.nodup key res
        have hlt := Table.length_set_of_not_mem hk res
        have htr := tracked_set key res hI.tracked
        have hlo := low_set key res _ hI.low (Int.le_of_lt h3)
        have hun := untracked_set key res _ hI.untracked
        cases hA : Table.argmin (s.table.set key res) with
        | none => rw [Table.argmin_eq_none] at hA; rw [hA] at hlt; simp at hlt
        | some p =>
          obtain ⟨k, m⟩ := p
          obtain ⟨hmem, hmin⟩ := Table.argmin_spec hA
          have hlp := Table.length_pop hnd (Table.mem_keys_of_mem hmem)
          have hgk := Table.get?_of_mem hnd hmem
          cases hB : Table.argmin ((s.table.set key res).pop k) with
          | none => rw [Table.argmin_eq_none] at hB; rw [hB] at hlp; simp at hlp; omega
          | some q =>
            obtain ⟨k2, v⟩ := q
            obtain ⟨hmem2, hmin2⟩ := Table.argmin_spec hB
            have hnd2 := Table.nodup_pop hnd k
            have hg2 := Table.get?_of_mem hnd2 hmem2
            rw [Table.get?_pop] at hg2
            have hk2 : ¬ k2 = k := by
              intro x; simp [x] at hg2
            simp only [hk2, if_false] at hg2
            have hmv : m ≤ v := hmin _ (Table.mem_of_get? hg2)
            have hsv : s.smallest ≤ v := hlo _ _ hg2
            have e : hhStep num s key res =
                ({ s with table := (s.table.set key res).pop k, smallest := v }, .ok res) := by
              simp [hhStep, h1, hnone, h3, hA, hB]
            rw [e]; dsimp only
            refine ⟨rfl, ?_⟩
            exact {
              nodup := hnd2
              size := by dsimp only; have := hI.size; omega
              le := by dsimp only; omega
              count := by
                dsimp only
                rw [hd]; split <;> omega
              tracked := by
                intro x w hx
                dsimp only at hx
                rw [Table.get?_pop] at hx
                by_cases ex : x = k
                · simp [ex] at hx
                · simp only [ex, if_false] at hx; exact htr x w hx
              notfull := by
                intro h
                have : ((List.length (Table.pop (s.table.set key res) k) : Nat) : Int) < num := h
                omega
              low := by
                intro x w hx
                have hx' : Table.get? (Table.pop (s.table.set key res) k) x = some w := hx
                exact hmin2 _ (Table.mem_of_get? hx')
              untracked := by
                intro u r hu1 hu2
                have hu2' : Table.get? (Table.pop (s.table.set key res) k) u = none := hu2
                show r ≤ v
                rw [Table.get?_pop] at hu2'
                by_cases eu : u = k
                · subst eu
                  have := htr _ _ hgk
                  rw [this] at hu1
                  simp only [Option.some.injEq] at hu1
                  omega
                · simp only [eu, if_false] at hu2'
                  have := hun u r hu1 hu2'
                  omega }
      · have e : hhStep num s key res = (s, .ok res) := by
          simp [hhStep, h1, hnone, h3]
        rw [e]; dsimp only
        refine ⟨rfl, ?_⟩
        exact {
          nodup := hI.nodup
          size := hI.size
          le := hI.le
          count := by rw [hd]; split <;> omega
          tracked := by
            intro x w hx
            rw [lastRet_snoc]
            have : ¬ key = x := by
              intro ex; subst ex; rw [hnone] at hx; simp at hx
            simp only [this, if_false]; exact hI.tracked x w hx
          notfull := by intro h; omega
          low := hI.low
          untracked := by
            intro u r hu1 hu2
            rw [lastRet_snoc] at hu1
            by_cases eu : key = u
            · simp only [eu, if_true, Option.some.injEq] at hu1; omega
            · simp only [eu, if_false] at hu1; exact hI.untracked u r hu1 hu2 } 

/-! ### HeavyHitters: all histories -/

/-- hypothesis on a history: every estimate is non-negative and not below the estimate the same key
    got the time before (what a count-min sketch under additions delivers, see `CmsMono`) -/
def MonoSeq (seq : List (Key × Int)) : Prop :=
  ∀ pre k r post, seq = pre ++ (k, r) :: post → 0 ≤ r ∧ ∀ v, lastRet pre k = some v → v ≤ r

theorem monoSeq_nil : MonoSeq [] := by
  intro pre k r post h; simp at h

theorem monoSeq_snoc (seq : List (Key × Int)) (p : Key × Int) :
    MonoSeq (seq ++ [p]) ↔
      MonoSeq seq ∧ 0 ≤ p.2 ∧ ∀ v, lastRet seq p.1 = some v → v ≤ p.2 := by
  constructor
  · intro h
    refine ⟨?_, ?_⟩
    · intro pre k r post e
      exact h pre k r (post ++ [p]) (by rw [e]; simp)
    · exact h seq p.1 p.2 [] rfl
  · rintro ⟨h1, h2⟩ pre k r post e
    rcases List.eq_nil_or_concat post with rfl | ⟨L, b, rfl⟩
    · obtain ⟨e1, e2⟩ := List.append_inj' e rfl
      simp only [List.cons.injEq, and_true] at e2
      subst e1; subst e2; exact h2
    · rw [List.concat_eq_append, ← List.cons_append, ← List.append_assoc] at e
      obtain ⟨e1, _⟩ := List.append_inj' e rfl
      exact h1 pre k r L e1

/-- run the table logic over a history from the empty table; the log collects the results -/
def hhRun (num : Int) (seq : List (Key × Int)) : HHS × List (R Int) :=
  seq.foldl (fun st p => ((hhStep num st.1 p.1 p.2).1, st.2 ++ [(hhStep num st.1 p.1 p.2).2]))
    (⟨[], 0, 0⟩, [])

theorem hhRun_snoc (num : Int) (seq : List (Key × Int)) (p : Key × Int) :
    hhRun num (seq ++ [p]) =
      ((hhStep num (hhRun num seq).1 p.1 p.2).1,
       (hhRun num seq).2 ++ [(hhStep num (hhRun num seq).1 p.1 p.2).2]) := by
  simp [hhRun, List.foldl_append]

theorem hhRun_inv {num : Int} (hnum : 1 ≤ num) (seq : List (Key × Int)) (hm : MonoSeq seq) :
    HHInv num seq (hhRun num seq).1 ∧ (hhRun num seq).2 = seq.map fun p => .ok p.2 := by
  induction seq using snoc_induction with
  | nil => exact ⟨HHInv.init num hnum, rfl⟩
  | snoc seq p ih =>
      obtain ⟨hm1, hr, hv⟩ := (monoSeq_snoc seq p).mp hm
      obtain ⟨hI, hlog⟩ := ih hm1
      obtain ⟨h1, h2⟩ := hhStep_inv hnum hI p.1 p.2 hr hv
      rw [hhRun_snoc]
      exact ⟨h2, by simp [hlog, h1]⟩

/-- (d) the `ValueError` branches are never taken: every step returns its estimate -/
theorem hhRun_ok {num : Int} (hnum : 1 ≤ num) (seq : List (Key × Int)) (hm : MonoSeq seq) :
    (hhRun num seq).2 = seq.map fun p => .ok p.2 := (hhRun_inv hnum seq hm).2

/-- (a) the table holds `min(num, distinct keys seen)` keys -/
theorem hhRun_size {num : Int} (hnum : 1 ≤ num) (seq : List (Key × Int)) (hm : MonoSeq seq) :
    ((hhRun num seq).1.table.length : Int) = min num (distinct seq) ∧
      (hhRun num seq).1.size = (hhRun num seq).1.table.length :=
  ⟨(hhRun_inv hnum seq hm).1.count, (hhRun_inv hnum seq hm).1.size⟩

/-- (b) every tracked key carries its most recent estimate; no key is tracked twice -/
theorem hhRun_tracked {num : Int} (hnum : 1 ≤ num) (seq : List (Key × Int)) (hm : MonoSeq seq) :
    (Table.keys (hhRun num seq).1.table).Nodup ∧
      ∀ k v, (k, v) ∈ (hhRun num seq).1.table → lastRet seq k = some v := by
  have hI := (hhRun_inv hnum seq hm).1
  exact ⟨hI.nodup, fun k v h => hI.tracked k v (Table.get?_of_mem hI.nodup h)⟩

theorem HHInv.untracked_le {num : Int} {seq : List (Key × Int)} {s : HHS} (hI : HHInv num seq s)
    {u : Key} {r : Int} (hu : lastRet seq u = some r) (hn : u ∉ Table.keys s.table)
    {k : Key} {v : Int} (hk : (k, v) ∈ s.table) : r ≤ v := by
  have h1 := hI.untracked u r hu ((Table.get?_eq_none_iff _ _).mpr hn)
  have h2 := hI.low k v (Table.get?_of_mem hI.nodup hk)
  omega

/-- (c) no untracked key's most recent estimate exceeds a tracked one -/
theorem hhRun_untracked {num : Int} (hnum : 1 ≤ num) (seq : List (Key × Int)) (hm : MonoSeq seq)
    (u : Key) (r : Int) (hu : lastRet seq u = some r) (hn : u ∉ Table.keys (hhRun num seq).1.table)
    (k : Key) (v : Int) (hk : (k, v) ∈ (hhRun num seq).1.table) : r ≤ v :=
  (hhRun_inv hnum seq hm).1.untracked_le hu hn hk

/-! ### StreamThreshold -/

/-- mirror of the table update of `ST.addAlt` (`isAdd = true`) / `ST.removeAlt` (`false`) after
    the sketch returned `res` -/
def stStep (T : Int) (t : Table) (isAdd : Bool) (key : Key) (res : Int) : Table :=
  if isAdd then (if res ≥ T then t.set key res else t.pop key)
  else (if res < T then t.pop key else t.set key res)

theorem stStep_eq (T : Int) (t : Table) (isAdd : Bool) (key : Key) (res : Int) :
    stStep T t isAdd key res = if T ≤ res then t.set key res else t.pop key := by
  unfold stStep
  cases isAdd
  · by_cases h : T ≤ res
    · have : ¬ res < T := by omega
      simp [h, this]
    · have : res < T := by omega
      simp [h, this]
  · simp

theorem ST.addAlt_error (s : ST) (key : Key) (hs : List Nat) (n : Int) (c : CMS) (e : Err)
    (hc : s.cms.addAlt hs n = (c, .error e)) :
    s.addAlt key hs n = ({ s with cms := c }, .error e) := by
  unfold ST.addAlt; simp only [hc]

theorem ST.addAlt_ok (s : ST) (key : Key) (hs : List Nat) (n : Int) (c : CMS) (res : Int)
    (hc : s.cms.addAlt hs n = (c, .ok res)) :
    s.addAlt key hs n =
      ({ s with cms := c, table := stStep s.threshold s.table true key res }, .ok res) := by
  unfold ST.addAlt stStep; simp only [hc]
  split <;> simp_all

theorem ST.removeAlt_error (s : ST) (key : Key) (hs : List Nat) (n : Int) (c : CMS) (e : Err)
    (hc : s.cms.removeAlt hs n = (c, .error e)) :
    s.removeAlt key hs n = ({ s with cms := c }, .error e) := by
  unfold ST.removeAlt; simp only [hc]

theorem ST.removeAlt_ok (s : ST) (key : Key) (hs : List Nat) (n : Int) (c : CMS) (res : Int)
    (hc : s.cms.removeAlt hs n = (c, .ok res)) :
    s.removeAlt key hs n =
      ({ s with cms := c, table := stStep s.threshold s.table false key res }, .ok res) := by
  unfold ST.removeAlt stStep; simp only [hc]
  split <;> simp_all

/-- the table is exactly the set of keys whose most recent estimate reached the threshold -/
structure STInv (T : Int) (seq : List (Key × Int)) (t : Table) : Prop where
  nodup : (Table.keys t).Nodup
  spec : ∀ k v, t.get? k = some v ↔ lastRet seq k = some v ∧ T ≤ v

theorem STInv.init (T : Int) : STInv T [] [] := ⟨by simp, by simp⟩

theorem stStep_inv {T : Int} {seq : List (Key × Int)} {t : Table} (hI : STInv T seq t)
    (isAdd : Bool) (key : Key) (res : Int) :
    STInv T (seq ++ [(key, res)]) (stStep T t isAdd key res) := by
  rw [stStep_eq]
  by_cases h : T ≤ res
  · simp only [h, if_true]
    refine ⟨Table.nodup_set hI.nodup key res, ?_⟩
    intro k v
    rw [Table.get?_set, lastRet_snoc]
    by_cases ek : k = key
    · subst ek
      simp only [if_true, Option.some.injEq]
      constructor
      · intro e; subst e; exact ⟨rfl, h⟩
      · exact fun e => e.1
    · have : ¬ key = k := fun x => ek x.symm
      simp only [ek, this, if_false]; exact hI.spec k v
  · simp only [h, if_false]
    refine ⟨Table.nodup_pop hI.nodup key, ?_⟩
    intro k v
    rw [Table.get?_pop, lastRet_snoc]
    by_cases ek : k = key
    · subst ek
      simp only [if_true, Option.some.injEq]
      constructor
      · intro e; simp at e
      · rintro ⟨e, h'⟩; subst e; exact absurd h' h
    · have : ¬ key = k := fun x => ek x.symm
      simp only [ek, this, if_false]; exact hI.spec k v

/-- all histories of `(isAdd, key, estimate)` steps, from the empty table -/
def stRun (T : Int) (ops : List (Bool × Key × Int)) : Table :=
  ops.foldl (fun t o => stStep T t o.1 o.2.1 o.2.2) []

theorem stRun_inv (T : Int) (ops : List (Bool × Key × Int)) :
    STInv T (ops.map (·.2)) (stRun T ops) := by
  induction ops using snoc_induction with
  | nil => exact STInv.init T
  | snoc ops o ih =>
      have : stRun T (ops ++ [o]) = stStep T (stRun T ops) o.1 o.2.1 o.2.2 := by
        simp [stRun, List.foldl_append]
      rw [this, List.map_append]
      exact stStep_inv ih o.1 o.2.1 o.2.2

end PyProb
