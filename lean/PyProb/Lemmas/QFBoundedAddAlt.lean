/-
  BOUNDED CHECK (a test by kernel evaluation): `add_alt` as a whole (look-up, insertion or refusal)
  at q = 3 on every subset of universe B.
-/
import PyProb.Lemmas.QFBoundedDefs

namespace PyProb.QFBounded

theorem checkAddAlt_UB : checkAddAlt UB = true := by decide +kernel

end PyProb.QFBounded
