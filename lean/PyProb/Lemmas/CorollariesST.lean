/-
  Cross-property corollary 2 (StreamThreshold with legitimate removals).

  C17 proves that the tracking table of `StreamThreshold` holds exactly the keys whose most recent
  RETURNED estimate is `≥ T` (`C17_st_table`), and the true-count form only for add-only
  histories.  C02 proves, for the count-min sketch alone, `estimate ≥ true count` over histories
  with removals that are `Legit` (amounts positive, a removal never exceeds the key's current true
  count) and `Small` (the amounts added never exceed 2^31-1, so no clamp fires), and that the
  value returned by `add`/`remove` is `check` of the key immediately afterwards (`C02_ret`).

  Here the two are joined.  The sketch embedded in a StreamThreshold follows the C02 history
  (`st_cms_eq_run`), every call returns an estimate (`st_all_ok`), and the estimate returned by the
  most recent call on `k` is at least `k`'s true count — at the time of that call, which is also
  `k`'s true count at the end, since the true count of `k` only changes in calls on `k`
  (`st_lastEst_ge_count`).  Hence `st_never_missing_legit`: a key whose true count is `≥ T ≥ 1`
  is in the table.  No "at the time of the last operation" qualifier is needed in the statement.
-/
import PyProb.Properties.C02
import PyProb.Properties.C17

namespace PyProb.Corollaries
open PyProb

/-- a StreamThreshold call as a call on the embedded sketch -/
def stToCms : C17.StOp → C02.Op
  | .add key n => .add key n
  | .remove key n => .remove key n

def stKey : C17.StOp → Key
  | .add key _ => key
  | .remove key _ => key

theorem stToCms_key (op : C17.StOp) : (stToCms op).key = stKey op := by cases op <;> rfl

/-- the two definitions of "true count" (C17's and C02's) agree -/
theorem trueCount_eq_cnt (ops : List C17.StOp) (k : Key) :
    C17.trueCount ops k = C02.cnt (ops.map stToCms) k := by
  unfold C17.trueCount C02.cnt
  rw [List.map_map]
  congr 1
  apply List.map_congr_left
  intro op _
  cases op <;> rfl

private theorem legit_prefix {ops : List C02.Op} {op : C02.Op} (h : C02.Legit (ops ++ [op])) :
    C02.Legit ops := by
  intro i hi
  have := h i (by simp; omega)
  rw [List.take_append_of_le_length (by omega), List.getElem_append_left hi] at this
  exact this

private theorem small_prefix {ops : List C02.Op} {op : C02.Op} (h : C02.Small (ops ++ [op])) :
    C02.Small ops := by
  intro i hi
  have := h i (by simp; omega)
  rw [List.take_append_of_le_length hi] at this
  exact this

private theorem cnt_snoc (ops : List C02.Op) (op : C02.Op) (k : Key) :
    C02.cnt (ops ++ [op]) k = C02.cnt ops k + if op.key = k then op.signed else 0 := by
  simp [C02.cnt, List.sum_append]

private theorem cnt_zero_of_absent (ops : List C02.Op) (k : Key) (h : ∀ op ∈ ops, op.key ≠ k) :
    C02.cnt ops k = 0 := by
  induction ops with
  | nil => rfl
  | cons op ops ih =>
      have h1 : op.key ≠ k := h op (by simp)
      have h2 := ih (fun o ho => h o (List.mem_cons_of_mem _ ho))
      simp only [C02.cnt, List.map_cons, List.sum_cons, h1, if_false] at h2 ⊢
      omega

section
variable {w d : Nat} {H : Key → Nat → List Nat}

/-- the invariant linking a StreamThreshold run to the count-min history of its sketch -/
structure STLegitInv (w d : Nat) (H : Key → Nat → List Nat) (ops : List C17.StOp)
    (st : ST × C17.Log) : Prop where
  cms : st.1.cms = C02.run w d H .min (ops.map stToCms)
  allok : ∀ e ∈ st.2, ∃ v, e.2 = .ok v
  keys : st.2.map (·.1) = ops.map stKey
  est : ∀ k, (∃ op ∈ ops, stKey op = k) →
    ∃ v, C17.lastEst st.2 k = some v ∧ C02.cnt (ops.map stToCms) k ≤ v

theorem st_legit_inv (hw : 0 < w) (hd : 0 < d) (hH : ∀ key, (H key d).length = d) (T : Int)
    (ops : List C17.StOp) (hL : C02.Legit (ops.map stToCms)) (hS : C02.Small (ops.map stToCms)) :
    STLegitInv w d H ops (C17.runST H (ST.new w d T) ops) := by
  induction ops using snoc_induction with
  | nil =>
      exact ⟨rfl, by simp [C17.runST], rfl, by simp⟩
  | snoc ops op ih =>
      rw [List.map_append, List.map_singleton] at hL hS
      have I := ih (legit_prefix hL) (small_prefix hS)
      -- the sketch before the call, its depth, and what the call returns
      have hbin := C02.C02_bin_invariant (H := H) hw hH .min (ops.map stToCms) (legit_prefix hL)
        (small_prefix hS)
      have hret := C02.C02_ret (H := H) hw hH .min (ops.map stToCms) (stToCms op) hL hS
      obtain ⟨v, hv, hcv⟩ := C02.C02_lower (H := H) hw hd hH (ops.map stToCms ++ [stToCms op]) hL hS
        (stToCms op).key
      rw [hv] at hret
      have hrun : C02.run w d H .min (ops.map stToCms ++ [stToCms op]) =
          (C02.stepOp d H (C02.run w d H .min (ops.map stToCms)) (stToCms op)).1 := by
        simp [C02.run, List.foldl_append]
      rw [C17.runST_snoc]
      generalize C17.runST H (ST.new w d T) ops = st at I ⊢
      obtain ⟨s, log⟩ := st
      have hcms : s.cms = C02.run w d H .min (ops.map stToCms) := I.cms
      have hsd : s.cms.d = d := by rw [hcms]; exact hbin.2.1
      -- the step of the StreamThreshold: the sketch step, an estimate is returned
      have hstep : ∃ tbl, C17.stepST H (s, log) op =
          (⟨(C02.stepOp d H s.cms (stToCms op)).1, tbl, s.threshold⟩,
            log ++ [(stKey op, .ok v)]) := by
        cases op with
        | add key n =>
            have e : s.cms.addAlt (H key s.cms.d) n =
                ((C02.stepOp d H s.cms (.add key n)).1, .ok v) := by
              rw [hsd]
              show C02.stepOp d H s.cms (.add key n) = _
              rw [Prod.ext_iff]; exact ⟨rfl, by rw [hcms]; exact hret⟩
            refine ⟨stStep s.threshold s.table true key v, ?_⟩
            simp only [C17.stepST, ST.addAlt_ok s key _ n _ v e, stKey]
            rfl
        | remove key n =>
            have e : s.cms.removeAlt (H key s.cms.d) n =
                ((C02.stepOp d H s.cms (.remove key n)).1, .ok v) := by
              rw [hsd]
              show C02.stepOp d H s.cms (.remove key n) = _
              rw [Prod.ext_iff]; exact ⟨rfl, by rw [hcms]; exact hret⟩
            refine ⟨stStep s.threshold s.table false key v, ?_⟩
            simp only [C17.stepST, ST.removeAlt_ok s key _ n _ v e, stKey]
            rfl
      obtain ⟨tbl, hs⟩ := hstep
      rw [hs]
      refine ⟨?_, ?_, ?_, ?_⟩
      · show (C02.stepOp d H s.cms (stToCms op)).1 = _
        rw [List.map_append, List.map_singleton, hrun, hcms]
      · intro e he
        rcases List.mem_append.mp he with he | he
        · exact I.allok e he
        · simp only [List.mem_singleton] at he; subst he; exact ⟨v, rfl⟩
      · have := I.keys
        simp only at this
        simp [this]
      · intro k hk
        show ∃ v', C17.lastEst (log ++ [(stKey op, .ok v)]) k = some v' ∧ _
        rw [C17.lastEst_snoc_ok, List.map_append, List.map_singleton]
        by_cases ek : stKey op = k
        · refine ⟨v, by rw [if_pos ek], ?_⟩
          rw [← ek, ← stToCms_key]; exact hcv
        · rw [if_neg ek, cnt_snoc, stToCms_key, if_neg ek, Int.add_zero]
          obtain ⟨o, ho, hok⟩ := hk
          rcases List.mem_append.mp ho with ho | ho
          · exact I.est k ⟨o, ho, hok⟩
          · simp only [List.mem_singleton] at ho; subst ho; exact absurd hok ek

/-- the sketch embedded in a StreamThreshold after a legit, small history is the count-min sketch
    of C02 after the same history -/
theorem st_cms_eq_run (hw : 0 < w) (hd : 0 < d) (hH : ∀ key, (H key d).length = d) (T : Int)
    (ops : List C17.StOp) (hL : C02.Legit (ops.map stToCms)) (hS : C02.Small (ops.map stToCms)) :
    (C17.runST H (ST.new w d T) ops).1.cms = C02.run w d H .min (ops.map stToCms) :=
  (st_legit_inv hw hd hH T ops hL hS).cms

/-- along a legit, small history every StreamThreshold call returns an estimate (none raises) -/
theorem st_all_ok (hw : 0 < w) (hd : 0 < d) (hH : ∀ key, (H key d).length = d) (T : Int)
    (ops : List C17.StOp) (hL : C02.Legit (ops.map stToCms)) (hS : C02.Small (ops.map stToCms)) :
    (C17.runST H (ST.new w d T) ops).2.map (·.1) = ops.map stKey ∧
    ∀ e ∈ (C17.runST H (ST.new w d T) ops).2, ∃ v, e.2 = .ok v :=
  ⟨(st_legit_inv hw hd hH T ops hL hS).keys, (st_legit_inv hw hd hH T ops hL hS).allok⟩

/-- the estimate returned by the most recent call on `k` is at least `k`'s true count (which has
    not changed since that call) -/
theorem st_lastEst_ge_count (hw : 0 < w) (hd : 0 < d) (hH : ∀ key, (H key d).length = d) (T : Int)
    (ops : List C17.StOp) (hL : C02.Legit (ops.map stToCms)) (hS : C02.Small (ops.map stToCms))
    (k : Key) (hk : ∃ op ∈ ops, stKey op = k) :
    ∃ v, C17.lastEst (C17.runST H (ST.new w d T) ops).2 k = some v ∧
      C02.cnt (ops.map stToCms) k ≤ v :=
  (st_legit_inv hw hd hH T ops hL hS).est k hk

/-- **StreamThreshold never misses a key whose true count reaches the threshold — with
    removals.**  For all `w, d > 0`, every hash strategy giving `d` hashes, every threshold
    `T ≥ 1`, every history of `add(key, n)` / `remove(key, n)` on `StreamThreshold(w, d, T)` whose
    count-min history is `Legit` and `Small` (C02): a key whose TRUE count (added minus removed)
    is `≥ T` is in the table, with a value `v ≥` its true count, and `v` is the estimate returned
    by the most recent call on that key. -/
theorem st_never_missing_legit (hw : 0 < w) (hd : 0 < d) (hH : ∀ key, (H key d).length = d)
    (T : Int) (hT : 1 ≤ T) (ops : List C17.StOp) (hL : C02.Legit (ops.map stToCms))
    (hS : C02.Small (ops.map stToCms)) (k : Key) (hk : T ≤ C02.cnt (ops.map stToCms) k) :
    ∃ v, (k, v) ∈ (C17.runST H (ST.new w d T) ops).1.table ∧
      (C17.runST H (ST.new w d T) ops).1.table.get? k = some v ∧
      C17.lastEst (C17.runST H (ST.new w d T) ops).2 k = some v ∧
      C02.cnt (ops.map stToCms) k ≤ v ∧ T ≤ v := by
  have hocc : ∃ op ∈ ops, stKey op = k := by
    apply Classical.byContradiction
    intro hno
    have : C02.cnt (ops.map stToCms) k = 0 := by
      apply cnt_zero_of_absent
      intro o ho e
      obtain ⟨op, hop, rfl⟩ := List.mem_map.mp ho
      exact hno ⟨op, hop, by rw [← stToCms_key]; exact e⟩
    omega
  obtain ⟨v, hv, hcv⟩ := st_lastEst_ge_count hw hd hH T ops hL hS k hocc
  have hTv : T ≤ v := by omega
  exact ⟨v, C17.C17_st_never_missing w d T H ops k v hv hTv,
    ((C17.C17_st_table w d T H ops).2.1 k v).mpr ⟨hv, hTv⟩, hv, hcv, hTv⟩

/-- the same in C17's vocabulary (`trueCount`) -/
theorem st_never_missing_legit' (hw : 0 < w) (hd : 0 < d) (hH : ∀ key, (H key d).length = d)
    (T : Int) (hT : 1 ≤ T) (ops : List C17.StOp) (hL : C02.Legit (ops.map stToCms))
    (hS : C02.Small (ops.map stToCms)) (k : Key) (hk : T ≤ C17.trueCount ops k) :
    ∃ v, (k, v) ∈ (C17.runST H (ST.new w d T) ops).1.table ∧ C17.trueCount ops k ≤ v := by
  rw [trueCount_eq_cnt] at hk ⊢
  obtain ⟨v, h1, _, _, h4, _⟩ := st_never_missing_legit hw hd hH T hT ops hL hS k hk
  exact ⟨v, h1, h4⟩

/-- a tracked key's value is never below its true count -/
theorem st_tracked_ge_count (hw : 0 < w) (hd : 0 < d) (hH : ∀ key, (H key d).length = d)
    (T : Int) (ops : List C17.StOp) (hL : C02.Legit (ops.map stToCms))
    (hS : C02.Small (ops.map stToCms)) (k : Key) (v : Int)
    (hkv : (k, v) ∈ (C17.runST H (ST.new w d T) ops).1.table) :
    C02.cnt (ops.map stToCms) k ≤ v ∧ T ≤ v := by
  obtain ⟨hle, hTv⟩ := ((C17.C17_st_table w d T H ops).2.2 k v).mp hkv
  refine ⟨?_, hTv⟩
  have hocc : ∃ op ∈ ops, stKey op = k := by
    have hkeys := (st_all_ok hw hd hH T ops hL hS).1
    rw [C17.lastEst_eq] at hle
    have hne : lastRet (C17.okSeq (C17.runST H (ST.new w d T) ops).2) k ≠ none := by rw [hle]; simp
    rw [Ne, lastRet_eq_none_iff, Classical.not_not] at hne
    obtain ⟨p, hp, hpk⟩ := List.mem_map.mp hne
    simp only [C17.okSeq, List.mem_filterMap] at hp
    obtain ⟨e, he, hep⟩ := hp
    have hek : e.1 = k := by
      cases h2 : e.2 with
      | ok x => rw [h2] at hep; simp only [Option.some.injEq] at hep; rw [← hpk, ← hep]
      | error x => rw [h2] at hep; cases hep
    have : e.1 ∈ (C17.runST H (ST.new w d T) ops).2.map (·.1) := List.mem_map.mpr ⟨e, he, rfl⟩
    rw [hkeys] at this
    obtain ⟨op, hop, hopk⟩ := List.mem_map.mp this
    exact ⟨op, hop, hopk.trans hek⟩
  obtain ⟨v', hv', hcv⟩ := st_lastEst_ge_count hw hd hH T ops hL hS k hocc
  rw [hv'] at hle
  injection hle with hle
  omega

end

/-! ### non-vacuity: the colliding history of C02's examples, with removals, threshold 2 -/

def exStOps : List C17.StOp :=
  [.add C02.kA 3, .add C02.kC 5, .remove C02.kA 1, .add C02.kB 4, .remove C02.kC 5]

example : exStOps.map stToCms = C02.exOps := rfl

instance (pre : List C02.Op) (op : C02.Op) : Decidable (C02.OpOK pre op) := by
  cases op <;> simp only [C02.OpOK] <;> infer_instance
instance (ops : List C02.Op) : Decidable (C02.Legit ops) := by unfold C02.Legit; infer_instance
instance (ops : List C02.Op) : Decidable (C02.Small ops) := by unfold C02.Small; infer_instance

theorem exStOps_legit : C02.Legit (exStOps.map stToCms) := by decide
theorem exStOps_small : C02.Small (exStOps.map stToCms) := by decide

/-- width 2, depth 2, all three keys collide in row 1; `kB` (true count 4) and `kA` (true count 2)
    reach the threshold 2 and are tracked, `kC` (true count 0 after its removal) need not be -/
example : ∃ v, (C02.kB, v) ∈ (C17.runST C02.exH (ST.new 2 2 2) exStOps).1.table ∧
    (C17.runST C02.exH (ST.new 2 2 2) exStOps).1.table.get? C02.kB = some v ∧
    C17.lastEst (C17.runST C02.exH (ST.new 2 2 2) exStOps).2 C02.kB = some v ∧
    C02.cnt (exStOps.map stToCms) C02.kB ≤ v ∧ 2 ≤ v :=
  st_never_missing_legit (by decide) (by decide) (by intro key; simp [C02.exH]) 2 (by decide)
    exStOps exStOps_legit exStOps_small C02.kB (by decide)

example : (C02.cnt (exStOps.map stToCms) C02.kA, C02.cnt (exStOps.map stToCms) C02.kB,
    C02.cnt (exStOps.map stToCms) C02.kC) = (2, 4, 0) := by decide

end PyProb.Corollaries
