/-
  **Layer B2 (removal refines the canonical layout), for every table size and every canonical set.**

  `QF.remove_layout`: removing a stored element `x` from the canonical table `layout q auto S` of a
  canonical set `S` with the model of `_remove_element` terminates (the fuel is not exhausted, no
  exception) and yields exactly the canonical table of `S` without `x`, counter decremented.

  Route: the canonical table of `S` is a table in the linear view from its empty slot `e`
  (`layout_lin`, `canon_fits`); on the linear view `_remove_element` computes the table of the
  sequence without the removed element (`QFRem.removeQR_lin`: look-up, walk back to the cluster
  start, edge case of the first move, left shift, clearing of the last slot, metadata repair
  pass); slot `e` stays empty, so the canonical table of `S \ {x}` is that table as well
  (`Spec.layout_lin_at`: the canonical layout can be read from any slot that stays empty).
-/
import PyProb.Lemmas.QFWriteRemoveLin
import PyProb.Lemmas.QFExt

namespace PyProb.QFRem
open PyProb PyProb.QF PyProb.QFLin PyProb.Spec

/-- deleting an element never moves a later element to the right -/
theorem pos_del_le (d : Nat → Nat) (j i : Nat) : posF (del j d) i ≤ posF d (i + 1) := by
  induction i with
  | zero =>
      have e2 : posF d (0 + 1) = max (d 0 + 1) (d (0 + 1)) := rfl
      have e1 : posF (del j d) 0 = del j d 0 := rfl
      rw [e1, e2]
      simp only [del]
      split <;> omega
  | succ i ih =>
      have e1 := posF_succ d (i + 1)
      have e2 := posF_succ (del j d) i
      have h1 := p_ge_d d (i + 1)
      have h2 : del j d (i + 1) = d (i + 1) ∨ del j d (i + 1) = d (i + 1 + 1) := by
        simp only [del]; split
        · exact Or.inl rfl
        · exact Or.inr rfl
      omega

theorem ltRot_irrefl' (n e : Nat) (a : Elem) : ¬ ltRot n e a a := by unfold ltRot; omega

/-- the rotated list of the smaller set is the rotated list without the element -/
theorem rot_erase (n e : Nat) (he : e < n) (S : List Elem) (hS : Sorted S) (hq : ∀ y ∈ S, y.1 < n)
    (hno : NoQuot e S) (x : Elem) (j : Nat) (hj : j < (rot e S).length) (hx : (rot e S)[j] = x) :
    rot e (Spec.erase x S) = (rot e S).eraseIdx j := by
  have hsub : ∀ y, y ∈ Spec.erase x S → y ∈ S := fun y hy => List.mem_of_mem_erase hy
  have hno' : NoQuot e (Spec.erase x S) := fun y hy => hno y (hsub y hy)
  have hsorted := rot_sorted n e he S hS hq
  have hS' : Sorted (Spec.erase x S) := List.Pairwise.sublist List.erase_sublist hS
  have hmem : ∀ y, y ∈ Spec.erase x S ↔ y ≠ x ∧ y ∈ S := fun y =>
    (sorted_nodup ltE_total hS).mem_erase_iff
  apply pw_ext (R := ltRot n e)
  · exact rot_sorted n e he _ hS' (fun y hy => hq y (hsub y hy))
  · exact List.Pairwise.sublist (List.eraseIdx_sublist _ _) hsorted
  · intro y
    rw [mem_rot e _ hno' y, hmem y, List.mem_eraseIdx_iff_getElem]
    constructor
    · rintro ⟨hne, hy⟩
      obtain ⟨i, hi, hget⟩ := List.getElem_of_mem ((mem_rot e S hno y).2 hy)
      refine ⟨i, hi, ?_, hget⟩
      intro hij
      subst hij
      exact hne (hget.symm.trans hx)
    · rintro ⟨i, hi, hij, hget⟩
      refine ⟨?_, ?_⟩
      · intro hyx
        rw [List.pairwise_iff_getElem] at hsorted
        by_cases hlt : i < j
        · have := hsorted i j hi hj hlt
          rw [hget, hx, hyx] at this
          exact ltRot_irrefl' n e x this
        · have := hsorted j i hj hi (by omega)
          rw [hget, hx, hyx] at this
          exact ltRot_irrefl' n e x this
      · rw [← hget]
        exact (mem_rot e S hno _).1 (List.getElem_mem hi)
  · intro a b _ _ hab hba
    exact ltRot_asymm n e a b hab hba

/-- the canonical table of a canonical set, in the linear view from its empty slot -/
theorem layout_linX (q : Nat) (hq1 : 1 ≤ q) (auto : Bool) (S : List Elem) (hS : Sorted S)
    (hq : ∀ x ∈ S, x.1 < 2 ^ q) (hlen : S.length < 2 ^ q) :
    LinX (layout q auto S) (2 ^ q) (emptySlot (2 ^ q) S) S.length
      (dOf (2 ^ q) (emptySlot (2 ^ q) S) (rot (emptySlot (2 ^ q) S) S))
      (rOf (rot (emptySlot (2 ^ q) S) S)) := by
  have hF := canon_fits (2 ^ q) S hS hq hlen
  have L := layout_lin q hq1 auto S hS hq hF
  have E := layout_extra q auto S hF
  exact ⟨L, E.lrem, E.locc, E.lcont, E.lshift, E.rem0⟩

end PyProb.QFRem

namespace PyProb.QF
open PyProb PyProb.QFLin PyProb.Spec PyProb.QFRem

/-- **removal refines the canonical layout** (Layer B2 of C04, all table sizes) -/
theorem remove_layout (q : Nat) (auto : Bool) (S : List Spec.Elem) (x : Spec.Elem)
    (hc : Spec.Canon q S) (hx : x ∈ S) :
    QF.removeQR (Spec.layout q auto S) x.1 x.2 = .ok (Spec.layout q auto (Spec.erase x S)) := by
  obtain ⟨hq3, _, hS, hrange, hlen⟩ := hc
  have hq1 : 1 ≤ q := by omega
  have hq : ∀ y ∈ S, y.1 < 2 ^ q := fun y hy => (hrange y hy).1
  have X := layout_linX q hq1 auto S hS hq hlen
  obtain ⟨he, hcnt, hfit⟩ := canon_fits (2 ^ q) S hS hq hlen
  generalize hee : emptySlot (2 ^ q) S = e at *
  have hno : NoQuot e S := (cnt_zero_iff S e).1 hcnt
  generalize hT : rot e S = T at *
  have hperm : T.Perm S := by rw [← hT]; exact rot_perm e S hno
  have hTlen : T.length = S.length := hperm.length_eq
  -- the index of `x` in the table
  obtain ⟨j, hjT, hget⟩ := List.getElem_of_mem (hperm.mem_iff.2 hx)
  have hj : j < S.length := by omega
  -- the smaller set
  generalize hS1 : Spec.erase x S = S1
  have hsub : ∀ y, y ∈ S1 → y ∈ S := fun y hy => by
    rw [← hS1] at hy; exact List.mem_of_mem_erase hy
  have hS' : Sorted S1 := by rw [← hS1]; exact List.Pairwise.sublist List.erase_sublist hS
  have hq' : ∀ y ∈ S1, y.1 < 2 ^ q := fun y hy => hq y (hsub y hy)
  have hlen' : S1.length + 1 = S.length := by
    rw [← hS1]
    have h1 := List.length_erase_of_mem hx
    have h2 : 0 < S.length := List.length_pos_of_mem hx
    unfold Spec.erase
    omega
  have hno' : NoQuot e S1 := fun y hy => hno y (hsub y hy)
  have hrot : rot e S1 = T.eraseIdx j := by
    rw [← hS1]
    rw [← hT]
    exact rot_erase (2 ^ q) e he S hS hq hno x j (by rw [hT]; exact hjT) (by simp only [hT]; exact hget)
  have hseq : ∀ i, dOf (2 ^ q) e (rot e S1) i = del j (dOf (2 ^ q) e T) i ∧
      rOf (rot e S1) i = del j (rOf T) i := by
    intro i
    rw [hrot]
    simp only [dOf, rOf, del, List.getD_eq_getElem?_getD, List.getElem?_eraseIdx]
    split <;> exact ⟨rfl, rfl⟩
  have hfit' : ∀ i, i < S1.length →
      posF (dOf (2 ^ q) e (rot e S1)) i + 2 ≤ 2 ^ q := by
    intro i hi
    rw [posF_congr _ (del j (dOf (2 ^ q) e T)) i (fun k _ => (hseq k).1)]
    have h1 := pos_del_le (dOf (2 ^ q) e T) j i
    have h2 := hfit (i + 1) (by omega)
    omega
  obtain ⟨L', E'⟩ := layout_lin_at q hq1 auto S1 hS' hq' (by omega) e he hno' hfit'
  have hm : S1.length = S.length - 1 := by omega
  rw [hm] at L' E'
  have L'' := lin_congr L' (fun i _ => (hseq i).1) (fun i _ => (hseq i).2)
  have E'' := extra_congr E' (fun i _ => (hseq i).1)
  have T' : LinX (layout q auto S1) (2 ^ q) e (S.length - 1) (del j (dOf (2 ^ q) e T))
      (del j (rOf T)) := ⟨L'', E''.lrem, E''.locc, E''.lcont, E''.lshift, E''.rem0⟩
  have hcount : (layout q auto S1).count = (layout q auto S).count - 1 := by
    simp only [layout_count]; omega
  have key := removeQR_lin X j hj T' rfl rfl hcount
  have hgetD : T.getD j (0, 0) = x := by
    simp [List.getD_eq_getElem?_getD, List.getElem?_eq_getElem hjT, hget]
  have h1 : io (2 ^ q) e (dOf (2 ^ q) e T j) = x.1 := by
    simp only [dOf, hgetD]
    exact io_off (2 ^ q) e x.1 he (hq x hx)
  have h2 : rOf T j = x.2 := by simp only [rOf, hgetD]
  rw [h1, h2] at key
  exact key

/-- test (non-vacuity): an instance with a cluster that is shifted left and split by the repair
    pass — removing `(0, 1)` from `{(0,1), (0,2), (1,0), (1,3)}` in the 8-slot table -/
example : QF.removeQR (Spec.layout 3 false [(0, 1), (0, 2), (1, 0), (1, 3)]) 0 1 =
    .ok (Spec.layout 3 false [(0, 2), (1, 0), (1, 3)]) :=
  remove_layout 3 false [(0, 1), (0, 2), (1, 0), (1, 3)] (0, 1) (by decide) (by decide)

end PyProb.QF
