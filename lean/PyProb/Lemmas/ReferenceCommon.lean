/-
  Lemmas relating the model's operations under the default hashing strategy to the documented
  hashing rule and the reference reader / writer of `Spec/Layout.lean`: the part that does not
  depend on any data-structure family (the hashing rule, reading cells back, minimum of a list).
-/
import PyProb.Lemmas.LayoutSpecCommon
import PyProb.Properties.C18

namespace PyProb

/-- the documented hashing rule is the model's default strategy -/
theorem defaultFnv_spec (key : Key) (k : Nat) :
    defaultFnv key k = (List.range k).map (Spec.hashI key.units) := by
  rw [C18.C18_default_is_published_fnv]
  rfl

/-! ### reading cells back from a file -/

theorem at'_u32le_succ (c : Nat) (rest : Bytes) (i : Nat) :
    Spec.at' (Spec.u32le c ++ rest) (i + 4) = Spec.at' rest i := by
  simp [Spec.at', Spec.u32le, List.getD_eq_getElem?_getD]

theorem rdU32_u32le_succ (c : Nat) (rest : Bytes) (off : Nat) :
    Spec.rdU32 (Spec.u32le c ++ rest) (off + 4) = Spec.rdU32 rest off := by
  unfold Spec.rdU32
  rw [show off + 4 + 1 = off + 1 + 4 by omega, show off + 4 + 2 = off + 2 + 4 by omega,
    show off + 4 + 3 = off + 3 + 4 by omega]
  simp only [at'_u32le_succ]

theorem rdU32_u32le_zero (c : Nat) (rest : Bytes) (h : c < 2 ^ 32) :
    Spec.rdU32 (Spec.u32le c ++ rest) 0 = c := by
  simp [Spec.rdU32, Spec.at', Spec.u32le]
  omega

/-- the uint32 at byte offset `4p` of a counter file is counter `p` -/
theorem rdU32_cells (cells : List Nat) (suf : Bytes) (p : Nat) (hp : p < cells.length)
    (h : ∀ x ∈ cells, x < 2 ^ 32) :
    Spec.rdU32 (cells.flatMap Spec.u32le ++ suf) (4 * p) = cells.getD p 0 := by
  induction cells generalizing p with
  | nil => simp at hp
  | cons c cs ih =>
      simp only [List.flatMap_cons, List.append_assoc]
      cases p with
      | zero => simpa using rdU32_u32le_zero c _ (h c (by simp))
      | succ p =>
          rw [show 4 * (p + 1) = 4 * p + 4 by omega, rdU32_u32le_succ]
          rw [ih p (by simpa using hp) (fun x hx => h x (List.mem_cons_of_mem _ hx))]
          simp

/-- two's complement code of an int32 -/
def enc32 (v : Int) : Nat := if v < 0 then (v + 4294967296).toNat else v.toNat

theorem rdI32_cells (cells : List Int) (suf : Bytes) (p : Nat) (hp : p < cells.length)
    (h : ∀ x ∈ cells, -2147483648 ≤ x ∧ x ≤ 2147483647) :
    Spec.rdI32 (cells.flatMap Spec.i32le ++ suf) (4 * p) = cells.getD p 0 := by
  have e : cells.flatMap Spec.i32le = (cells.map enc32).flatMap Spec.u32le := by
    rw [List.flatMap_map]; rfl
  unfold Spec.rdI32
  rw [e, rdU32_cells _ _ p (by simpa using hp)]
  · have hc := h cells[p] (List.getElem_mem hp)
    simp only [List.getD_eq_getElem?_getD, List.getElem?_map, List.getElem?_eq_getElem hp, Option.map_some,
      Option.getD_some]
    unfold enc32
    split <;> split <;> omega
  · intro x hx
    simp only [List.mem_map] at hx
    obtain ⟨v, hv, rfl⟩ := hx
    have := h v hv
    unfold enc32
    split <;> omega

/-! ### minimum of a list -/

theorem natCast_foldl_min (xs : List Nat) (x : Nat) :
    ((xs.foldl min x : Nat) : Int) = (xs.map Int.ofNat).foldl min (x : Int) := by
  induction xs generalizing x with
  | nil => rfl
  | cons y ys ih =>
      simp only [List.foldl_cons, List.map_cons]
      rw [ih]
      congr 1
      simp only [Int.ofNat_eq_natCast]
      omega

theorem foldl_min_le (xs : List Int) (x : Int) : xs.foldl min x ≤ x ∧ ∀ y ∈ xs, xs.foldl min x ≤ y := by
  induction xs generalizing x with
  | nil => simp
  | cons y ys ih =>
      simp only [List.foldl_cons, List.mem_cons]
      have := ih (min x y)
      refine ⟨by omega, ?_⟩
      intro z hz
      rcases hz with rfl | hz
      · omega
      · exact this.2 z hz

theorem foldl_min_mem (xs : List Int) (x : Int) : xs.foldl min x = x ∨ xs.foldl min x ∈ xs := by
  induction xs generalizing x with
  | nil => simp
  | cons y ys ih =>
      simp only [List.foldl_cons, List.mem_cons]
      rcases ih (min x y) with h | h
      · rw [h]
        by_cases hxy : x ≤ y
        · left; omega
        · right; left; omega
      · right; right; exact h

theorem zip_map_self_rf {α β} (l : List α) (f : α → β) : l.zip (l.map f) = l.map fun k => (k, f k) := by
  induction l with
  | nil => rfl
  | cons a l ih => simp [ih]

end PyProb
