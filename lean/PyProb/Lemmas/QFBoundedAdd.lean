/-
  BOUNDED CHECK (a test by kernel evaluation): `B1_add` at q = 3 on every subset of two universes.
-/
import PyProb.Lemmas.QFBoundedDefs

namespace PyProb.QFBounded

theorem checkAdd_UA : checkAdd UA = true := by decide +kernel
theorem checkAdd_UB : checkAdd UB = true := by decide +kernel

end PyProb.QFBounded
