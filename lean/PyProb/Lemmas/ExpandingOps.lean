/-
  Lemmas on the expanding Bloom filter model (`Model/Expanding.lean`): the scan over the
  sub-filters and the "add to the newest sub-filter" step.  Used by C01.
-/
import PyProb.Lemmas.BloomOps
import PyProb.Model.Expanding

namespace PyProb

/-- with a long enough hash list the scan never raises, and answers present exactly when some
    sub-filter does -/
theorem Expanding.checkGo_spec (hs : List Nat) (bs : List Bloom) (hk : ∀ b ∈ bs, b.k ≤ hs.length) :
    ∃ p, Expanding.checkGo hs bs = .ok p ∧ (p = true ↔ ∃ b ∈ bs, b.checkAlt hs = .ok true) := by
  induction bs with
  | nil => exact ⟨false, rfl, by simp⟩
  | cons b bs ih =>
      obtain ⟨p, hp, hiff⟩ := ih (fun x hx => hk x (by simp [hx]))
      have hb : b.checkAlt hs = .ok ((hs.take b.k).all fun h => testBitB b.bits (h % b.m)) :=
        Bloom.checkGo_ok _ _ _ _ (hk b (by simp))
      cases hv : (hs.take b.k).all fun h => testBitB b.bits (h % b.m) with
      | true =>
          rw [hv] at hb
          exact ⟨true, by simp [Expanding.checkGo, hb], by simp [hb]⟩
      | false =>
          rw [hv] at hb
          refine ⟨p, by simp [Expanding.checkGo, hb, hp], ?_⟩
          rw [hiff]; simp [hb]

theorem Expanding.checkGo_true_of_mem (hs : List Nat) (bs : List Bloom) (hk : ∀ b ∈ bs, b.k ≤ hs.length)
    (b : Bloom) (hb : b ∈ bs) (h : b.checkAlt hs = .ok true) : Expanding.checkGo hs bs = .ok true := by
  obtain ⟨p, hp, hiff⟩ := Expanding.checkGo_spec hs bs hk
  have : p = true := hiff.2 ⟨b, hb, h⟩
  rw [hp, this]

/-- the add step rewrites the newest sub-filter only -/
theorem Expanding.addToLast_snoc (init : List Bloom) (last : Bloom) (hs : List Nat) :
    Expanding.addToLast (init ++ [last]) hs = (init ++ [(last.addAlt hs).1], (last.addAlt hs).2) := by
  simp [Expanding.addToLast]

theorem Expanding.blooms_eq_snoc (bs : List Bloom) (h : bs ≠ []) : ∃ init last, bs = init ++ [last] := by
  rcases List.eq_nil_or_concat bs with e | ⟨l, b, e⟩
  · exact absurd e h
  · exact ⟨l, b, by simpa using e⟩

/-- growth appends a fresh sub-filter or does nothing -/
theorem Expanding.grow_blooms (e : Expanding) :
    e.grow.blooms = e.blooms ∨ e.grow.blooms = e.blooms ++ [e.fresh] := by
  unfold Expanding.grow
  split
  · exact Or.inl rfl
  · split
    · exact Or.inr rfl
    · exact Or.inl rfl

theorem Expanding.grow_params (e : Expanding) :
    e.grow.k = e.k ∧ e.grow.m = e.m ∧ e.grow.est = e.est ∧ e.grow.fpr32 = e.fpr32 := by
  unfold Expanding.grow
  split
  · exact ⟨rfl, rfl, rfl, rfl⟩
  · split <;> exact ⟨rfl, rfl, rfl, rfl⟩

/-! ### lists of sub-filters of one geometry -/

/-- a non-empty list of well-formed sub-filters of geometry `(k, m)` -/
def GoodBlooms (k m : Nat) (bs : List Bloom) : Prop := bs ≠ [] ∧ ∀ b ∈ bs, b.WF ∧ b.k = k ∧ b.m = m

/-- some sub-filter answers present -/
def Reports (bs : List Bloom) (hs : List Nat) : Prop := ∃ b ∈ bs, b.checkAlt hs = .ok true

theorem GoodBlooms.append_fresh {k m : Nat} {bs : List Bloom} (h : GoodBlooms k m bs) (f : Bloom)
    (hf : f.WF ∧ f.k = k ∧ f.m = m) : GoodBlooms k m (bs ++ [f]) := by
  refine ⟨by simp, fun b hb => ?_⟩
  rcases List.mem_append.1 hb with hb | hb
  · exact h.2 b hb
  · have : b = f := by simpa using hb
    subst this; exact hf

theorem Reports.append {bs : List Bloom} {hs : List Nat} (h : Reports bs hs) (l : List Bloom) :
    Reports (bs ++ l) hs := by
  obtain ⟨b, hb, hc⟩ := h
  exact ⟨b, List.mem_append_left _ hb, hc⟩

theorem addToLast_spec {k m : Nat} {bs : List Bloom} (h : GoodBlooms k m bs) (hs : List Nat) :
    GoodBlooms k m (Expanding.addToLast bs hs).1 ∧
    (∀ hs', Reports bs hs' → Reports (Expanding.addToLast bs hs).1 hs') ∧
    (k ≤ hs.length → Reports (Expanding.addToLast bs hs).1 hs) := by
  obtain ⟨init, last, rfl⟩ := Expanding.blooms_eq_snoc bs h.1
  rw [Expanding.addToLast_snoc]
  have hl := h.2 last (by simp)
  have hw' : (last.addAlt hs).1.WF := Bloom.addAlt_wf last hs hl.1
  refine ⟨⟨by simp, fun b hb => ?_⟩, fun hs' hr => ?_, fun hk => ?_⟩
  · rcases List.mem_append.1 hb with hb | hb
    · exact h.2 b (List.mem_append_left _ hb)
    · have : b = (last.addAlt hs).1 := by simpa using hb
      subst this
      exact ⟨hw', by rw [Bloom.addAlt_k]; exact hl.2.1, by rw [Bloom.addAlt_m]; exact hl.2.2⟩
  · obtain ⟨b, hb, hc⟩ := hr
    rcases List.mem_append.1 hb with hb | hb
    · exact ⟨b, List.mem_append_left _ hb, hc⟩
    · have : b = last := by simpa using hb
      subst this
      exact ⟨_, by simp, Bloom.checkAlt_addAlt_mono b hs' hs hl.1 hc⟩
  · exact ⟨_, by simp, Bloom.checkAlt_addAlt_self last hs hl.1 (by rw [hl.2.1]; exact hk)⟩

/-- representation invariant of the expanding filter -/
def Expanding.WF (e : Expanding) : Prop := 0 < e.m ∧ GoodBlooms e.k e.m e.blooms

theorem Expanding.fresh_good (e : Expanding) (hm : 0 < e.m) : e.fresh.WF ∧ e.fresh.k = e.k ∧ e.fresh.m = e.m :=
  ⟨Bloom.new_wf _ _ _ _ hm, rfl, rfl⟩

theorem Expanding.new_wf (est fpr k m : Nat) (hm : 0 < m) : (Expanding.new est fpr k m).WF := by
  refine ⟨hm, by simp [Expanding.new], fun b hb => ?_⟩
  have : b = Bloom.new est fpr k m := by simpa [Expanding.new] using hb
  subst this
  exact ⟨Bloom.new_wf _ _ _ _ hm, rfl, rfl⟩

theorem Expanding.push_spec (e : Expanding) (hw : e.WF) :
    e.push.WF ∧ e.push.k = e.k ∧ ∀ hs, Reports e.blooms hs → Reports e.push.blooms hs :=
  ⟨⟨hw.1, hw.2.append_fresh _ (e.fresh_good hw.1)⟩, rfl, fun _ h => h.append _⟩

theorem Expanding.addCore_spec (e : Expanding) (present : Bool) (hs : List Nat) (force : Bool) (hw : e.WF) :
    (e.addCore present hs force).1.WF ∧ (e.addCore present hs force).1.k = e.k ∧
    (∀ hs', Reports e.blooms hs' → Reports (e.addCore present hs force).1.blooms hs') ∧
    ((force || !present) = true → e.k ≤ hs.length → Reports (e.addCore present hs force).1.blooms hs) := by
  unfold Expanding.addCore
  by_cases hc : (force || !present) = true
  · simp only [hc, if_true]
    obtain ⟨hk, hm, _, _⟩ := Expanding.grow_params { e with added := e.added + 1 }
    have hg : GoodBlooms e.k e.m ({ e with added := e.added + 1 } : Expanding).grow.blooms ∧
        ∀ hs', Reports e.blooms hs' → Reports ({ e with added := e.added + 1 } : Expanding).grow.blooms hs' := by
      rcases Expanding.grow_blooms { e with added := e.added + 1 } with h | h
      · rw [h]; exact ⟨hw.2, fun _ x => x⟩
      · rw [h]; exact ⟨hw.2.append_fresh _ (e.fresh_good hw.1), fun _ x => x.append _⟩
    obtain ⟨g1, g2, g3⟩ := addToLast_spec hg.1 hs
    refine ⟨⟨?_, ?_⟩, ?_, fun hs' hr => g2 hs' (hg.2 hs' hr), fun _ hl => g3 hl⟩
    · show 0 < ({ e with added := e.added + 1 } : Expanding).grow.m
      rw [hm]; exact hw.1
    · show GoodBlooms ({ e with added := e.added + 1 } : Expanding).grow.k
        ({ e with added := e.added + 1 } : Expanding).grow.m _
      rw [hk, hm]; exact g1
    · exact hk
  · simp only [hc]
    exact ⟨hw, rfl, fun _ x => x, fun h => absurd h (by simp)⟩

theorem Expanding.checkAlt_iff (e : Expanding) (hs : List Nat) (hw : e.WF) (hl : e.k ≤ hs.length) :
    e.checkAlt hs = .ok true ↔ Reports e.blooms hs := by
  have hk : ∀ b ∈ e.blooms, b.k ≤ hs.length := fun b hb => by rw [(hw.2.2 b hb).2.1]; exact hl
  obtain ⟨p, hp, hiff⟩ := Expanding.checkGo_spec hs e.blooms hk
  unfold Expanding.checkAlt Reports
  rw [hp, ← hiff]
  constructor
  · intro h; injection h
  · intro h; rw [h]

theorem Expanding.addAlt_spec (e : Expanding) (hs : List Nat) (force : Bool) (hw : e.WF) :
    (e.addAlt hs force).1.WF ∧ (e.addAlt hs force).1.k = e.k ∧
    (∀ hs', Reports e.blooms hs' → Reports (e.addAlt hs force).1.blooms hs') ∧
    (e.k ≤ hs.length → Reports (e.addAlt hs force).1.blooms hs) := by
  unfold Expanding.addAlt
  cases force with
  | true =>
      obtain ⟨a, b, c, d⟩ := Expanding.addCore_spec e true hs true hw
      exact ⟨a, b, c, fun hl => d rfl hl⟩
  | false =>
      simp only [Bool.false_eq_true, if_false]
      cases hc : e.checkAlt hs with
      | error err => exact ⟨hw, rfl, fun _ x => x, fun hl => by
          have hk : ∀ b ∈ e.blooms, b.k ≤ hs.length := fun b hb => by rw [(hw.2.2 b hb).2.1]; exact hl
          obtain ⟨p, hp, _⟩ := Expanding.checkGo_spec hs e.blooms hk
          unfold Expanding.checkAlt at hc
          rw [hp] at hc; cases hc⟩
      | ok p =>
          obtain ⟨a, b, c, d⟩ := Expanding.addCore_spec e p hs false hw
          refine ⟨a, b, c, fun hl => ?_⟩
          cases p with
          | false => exact d rfl hl
          | true => exact c hs ((Expanding.checkAlt_iff e hs hw hl).1 hc)

end PyProb
