/-
  Lemmas on the export formats: closed forms of `struct.pack` for the layouts extracted from the
  source (`Generated/Repo.lean`), footer parsing, sub-filter and bucket parsing.

  The lemmas live in one module per data-structure family, so that a change of one family's
  extracted layout does not invalidate the other families; this module only gathers them.
-/
import PyProb.Lemmas.FormatsBloom
import PyProb.Lemmas.FormatsCms
import PyProb.Lemmas.FormatsCuckoo
