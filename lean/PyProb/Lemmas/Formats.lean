/-
  Lemmas on the export formats: closed forms of `struct.pack` for the layouts extracted from the
  source (`Generated/Repo.lean`), footer parsing, sub-filter and bucket parsing.
-/
import PyProb.Lemmas.Codec
import PyProb.Model.Expanding
import PyProb.Model.CMS
import PyProb.Model.Cuckoo

namespace PyProb

/-! ### closed forms of `pack` for the concrete layouts (all native paddings are zero) -/

theorem expCount_pack (v : Int) : Gen.expCount.pack [v] =
    if v < 0 ∨ v > 18446744073709551615 then .error .structError else .ok (leBytesInt 8 v) := by
  simp [Layout.pack, packGo, Gen.expCount, Field.lo, Field.hi, Gen.uint64Max, Layout.padBefore, Field.size, encField, Layout.isBig]

theorem bloomFooter_pack (a b c : Int) : Gen.bloomFooter.pack [a, b, c] =
    if a < 0 ∨ a > 18446744073709551615 then .error .structError
    else if b < 0 ∨ b > 18446744073709551615 then .error .structError
    else if c < 0 ∨ c > 4294967295 then .error .structError
    else .ok (leBytesInt 8 a ++ leBytesInt 8 b ++ leBytesInt 4 c) := by
  simp [Layout.pack, packGo, Gen.bloomFooter, Field.lo, Field.hi, Gen.uint64Max, Gen.uint32Max, Layout.padBefore, Field.size, encField, Layout.isBig]
  repeat' split
  all_goals simp_all

theorem bloomFooterHex_pack (a b c : Int) : Gen.bloomFooterHex.pack [a, b, c] =
    if a < 0 ∨ a > 18446744073709551615 then .error .structError
    else if b < 0 ∨ b > 18446744073709551615 then .error .structError
    else if c < 0 ∨ c > 4294967295 then .error .structError
    else .ok ((leBytesInt 8 a).reverse ++ (leBytesInt 8 b).reverse ++ (leBytesInt 4 c).reverse) := by
  simp [Layout.pack, packGo, Gen.bloomFooterHex, Field.lo, Field.hi, Gen.uint64Max, Gen.uint32Max, Layout.padBefore, Field.size, encField, Layout.isBig]
  repeat' split
  all_goals simp_all

theorem cmsFooter_pack (a b c : Int) : Gen.cmsFooter.pack [a, b, c] =
    if a < 0 ∨ a > 4294967295 then .error .structError
    else if b < 0 ∨ b > 4294967295 then .error .structError
    else if c < -9223372036854775808 ∨ c > 9223372036854775807 then .error .structError
    else .ok (leBytesInt 4 a ++ leBytesInt 4 b ++ leBytesInt 8 c) := by
  simp [Layout.pack, packGo, Gen.cmsFooter, Field.lo, Field.hi, Gen.int64Max, Gen.int64Min, Gen.uint32Max, Layout.padBefore, Field.size, encField, Layout.isBig]
  repeat' split
  all_goals simp_all

theorem expFooter_pack (a b c d : Int) : Gen.expFooter.pack [a, b, c, d] =
    if a < 0 ∨ a > 18446744073709551615 then .error .structError
    else if b < 0 ∨ b > 18446744073709551615 then .error .structError
    else if c < 0 ∨ c > 18446744073709551615 then .error .structError
    else if d < 0 ∨ d > 4294967295 then .error .structError
    else .ok (leBytesInt 8 a ++ leBytesInt 8 b ++ leBytesInt 8 c ++ leBytesInt 4 d) := by
  simp [Layout.pack, packGo, Gen.expFooter, Field.lo, Field.hi, Gen.uint64Max, Gen.uint32Max, Layout.padBefore, Field.size, encField, Layout.isBig]
  repeat' split
  all_goals simp_all

theorem cuckooFooter_pack (a b : Int) : Gen.cuckooFooter.pack [a, b] =
    if a < 0 ∨ a > 4294967295 then .error .structError
    else if b < 0 ∨ b > 4294967295 then .error .structError
    else .ok (leBytesInt 4 a ++ leBytesInt 4 b) := by
  simp [Layout.pack, packGo, Gen.cuckooFooter, Field.lo, Field.hi, Gen.uint32Max, Layout.padBefore, Field.size, encField, Layout.isBig]
  repeat' split
  all_goals simp_all

theorem bloomFooter_size : Gen.bloomFooter.size = 20 := by decide
theorem bloomFooterHex_size : Gen.bloomFooterHex.size = 20 := by decide
theorem cmsFooter_size : Gen.cmsFooter.size = 16 := by decide
theorem expFooter_size : Gen.expFooter.size = 28 := by decide
theorem expCount_size : Gen.expCount.size = 8 := by decide
theorem cuckooFooter_size : Gen.cuckooFooter.size = 8 := by decide
theorem bloomCell_size : Gen.bloomCell.size = 1 := by decide
theorem cbfCell_size : Gen.cbfCell.size = 4 := by decide
theorem cmsCell_size : Gen.cmsCell.size = 4 := by decide

/-! ### footers -/

theorem lastN_append {α} (a b : List α) (n : Nat) (h : b.length = n) : Bloom.lastN n (a ++ b) = b := by
  unfold Bloom.lastN; exact drop_length_sub_append a b n h

theorem cms_lastN_append {α} (a b : List α) (n : Nat) (h : b.length = n) : CMS.lastN n (a ++ b) = b := by
  unfold CMS.lastN; exact drop_length_sub_append a b n h

theorem ofFooter_pack (geom : Geom) (lay : Layout) (f : Bytes) (est fpr32 fpr' k m : Nat) (cnt : Int)
    (hp : lay.pack [(est : Int), cnt, (fpr32 : Int)] = .ok f)
    (hg : geom est fpr32 = .ok (fpr', k, m)) :
    Bloom.ofFooter geom lay f = .ok ⟨est, fpr', k, m, [], cnt⟩ := by
  unfold Bloom.ofFooter
  rw [unpack_pack lay _ f hp]
  simp [hg]

/-! ### expanding / rotating: sub-filters -/

/-- sub-filters that share the prototype's parameters and have `sz` bytes each are parsed back -/
theorem parseBlooms_go (proto : Bloom) (sz : Nat) (blooms : List Bloom) (body suf : Bytes)
    (hwf : ∀ b ∈ blooms, b.est = proto.est ∧ b.fpr32 = proto.fpr32 ∧ b.k = proto.k ∧ b.m = proto.m ∧
      b.bits.length = sz)
    (h : Expanding.exportBytes.go blooms = .ok body) :
    Expanding.parseBlooms proto sz blooms.length (body ++ suf) = blooms := by
  induction blooms generalizing body with
  | nil => rfl
  | cons b bs ih =>
      have hb := hwf b (by simp)
      have hbs := fun x hx => hwf x (List.mem_cons_of_mem _ hx)
      simp only [Expanding.exportBytes.go, expCount_pack] at h
      split at h
      · rename_i c rest hc hrest
        injection h with h; subst h
        split at hc
        · cases hc
        · rename_i hrange
          injection hc with hc; subst hc
          have ih := ih rest hbs hrest
          simp only [List.length_cons, Expanding.parseBlooms, expCount_size, List.append_assoc]
          rw [List.take_left' (leBytesInt_length _ _), List.drop_left' (leBytesInt_length _ _)]
          rw [List.take_left' hb.2.2.2.2]
          have hd : List.drop (8 + sz) (leBytesInt 8 b.count ++ (b.bits ++ (rest ++ suf))) = rest ++ suf := by
            rw [← List.append_assoc]; exact List.drop_left' (by simp [hb.2.2.2.2])
          rw [hd, ih]
          have : decField false Field.u64 (leBytesInt 8 b.count) = b.count :=
            decField_leBytesInt .u64 b.count (by simp [Field.lo]; omega) (by simp [Field.hi, Gen.uint64Max]; omega)
          rw [this]
          congr 1
          obtain ⟨e1, e2, e3, e4, -⟩ := hb
          cases b; cases proto; simp_all
      · cases h
      · cases h

/-! ### cuckoo buckets -/

/-- the cell the export writes for one bin -/
def cuckooCell (counting : Bool) (bin : CBin) : Bytes :=
  if counting then leBytes 4 bin.1 ++ leBytes 4 bin.2 else leBytes 4 bin.1

def cuckooW (counting : Bool) : Nat := if counting then 8 else 4

/-- what a bin must satisfy to survive the export format -/
def BinOK (counting : Bool) (bin : CBin) : Prop :=
  0 < bin.1 ∧ bin.1 < 2 ^ 32 ∧ bin.2 < 2 ^ 32 ∧ (counting = false → bin.2 = 1)

instance (counting : Bool) (bin : CBin) : Decidable (BinOK counting bin) := by
  unfold BinOK; infer_instance

theorem cuckooCell_length (counting : Bool) (bin : CBin) : (cuckooCell counting bin).length = cuckooW counting := by
  unfold cuckooCell cuckooW; cases counting <;> simp

theorem ofLE_replicate_zero (n : Nat) : ofLE (List.replicate n 0) = 0 := by
  induction n with
  | zero => rfl
  | succ n ih => simp [List.replicate_succ, ofLE, ih]

theorem parseBucket_zeros (counting : Bool) (z : Nat) :
    Cuckoo.parseBucket counting z (List.replicate (z * cuckooW counting) 0) = [] := by
  induction z with
  | zero => rfl
  | succ z ih =>
      have hsplit : List.replicate ((z + 1) * cuckooW counting) 0
          = List.replicate (cuckooW counting) 0 ++ List.replicate (z * cuckooW counting) 0 := by
        rw [List.replicate_append_replicate]; congr 1; rw [Nat.succ_mul]; omega
      simp only [Cuckoo.parseBucket]
      have h4 : List.take 4 (List.replicate ((z + 1) * cuckooW counting) 0) = List.replicate 4 0 := by
        rw [List.take_replicate]; congr 1
        have : 4 ≤ cuckooW counting := by unfold cuckooW; cases counting <;> simp
        rw [Nat.succ_mul]; omega
      rw [h4, ofLE_replicate_zero]
      simp only [Nat.lt_irrefl, if_false]
      have hd : List.drop (if counting = true then 8 else 4) (List.replicate ((z + 1) * cuckooW counting) 0)
          = List.replicate (z * cuckooW counting) 0 := by
        rw [hsplit]; exact List.drop_left' (by simp [cuckooW])
      rw [hd, ih]

theorem parseBucket_bins (counting : Bool) (bins : List CBin) (z : Nat)
    (h : ∀ bin ∈ bins, BinOK counting bin) :
    Cuckoo.parseBucket counting (bins.length + z)
      (bins.flatMap (cuckooCell counting) ++ List.replicate (z * cuckooW counting) 0) = bins := by
  induction bins with
  | nil => simpa using parseBucket_zeros counting z
  | cons bin bins ih =>
      obtain ⟨h0, h1, h2, h3⟩ := h bin (by simp)
      have ih := ih (fun x hx => h x (List.mem_cons_of_mem _ hx))
      have hlen : bins.length + 1 + z = (bins.length + z) + 1 := by omega
      simp only [List.length_cons, hlen, Cuckoo.parseBucket, List.flatMap_cons, List.append_assoc]
      have hfp : ofLE (List.take 4 (cuckooCell counting bin ++
          (bins.flatMap (cuckooCell counting) ++ List.replicate (z * cuckooW counting) 0))) = bin.1 := by
        unfold cuckooCell
        cases counting <;> simp only [Bool.false_eq_true, if_false, if_true, List.append_assoc]
          <;> rw [List.take_left' (leBytes_length _ _), ofLE_leBytes_of_lt (by simpa using h1)]
      have hdrop : List.drop (if counting = true then 8 else 4) (cuckooCell counting bin ++
          (bins.flatMap (cuckooCell counting) ++ List.replicate (z * cuckooW counting) 0))
          = bins.flatMap (cuckooCell counting) ++ List.replicate (z * cuckooW counting) 0 :=
        List.drop_left' (by rw [cuckooCell_length]; rfl)
      have hcnt : (if counting = true then ofLE (List.take 4 (List.drop 4 (cuckooCell counting bin ++
          (bins.flatMap (cuckooCell counting) ++ List.replicate (z * cuckooW counting) 0)))) else 1) = bin.2 := by
        cases counting
        · simp [h3 rfl]
        · simp only [if_true, cuckooCell, List.append_assoc]
          rw [List.drop_left' (leBytes_length _ _), List.take_left' (leBytes_length _ _),
            ofLE_leBytes_of_lt (by simpa using h2)]
      rw [hfp, hcnt, hdrop, ih, if_pos h0]

/-- the bytes the export writes for one bucket -/
def bucketBytes (counting : Bool) (b : Nat) (bkt : List CBin) : Bytes :=
  bkt.flatMap (cuckooCell counting) ++ List.replicate ((b - bkt.length) * cuckooW counting) 0

theorem bucketBytes_length (counting : Bool) (b : Nat) (bkt : List CBin) (h : bkt.length ≤ b) :
    (bucketBytes counting b bkt).length = cuckooW counting * b := by
  have : (bkt.flatMap (cuckooCell counting)).length = bkt.length * cuckooW counting := by
    induction bkt with
    | nil => simp
    | cons x xs ih =>
        simp only [List.flatMap_cons, List.length_append, cuckooCell_length, List.length_cons]
        rw [ih (by simp at h; omega), Nat.succ_mul]; omega
  simp only [bucketBytes, List.length_append, List.length_replicate, this]
  rw [← Nat.add_mul, Nat.mul_comm]; congr 1; omega

theorem parseBuckets_body (counting : Bool) (b : Nat) (buckets : List (List CBin)) (suf : Bytes)
    (h : ∀ bkt ∈ buckets, bkt.length ≤ b ∧ ∀ bin ∈ bkt, BinOK counting bin) :
    Cuckoo.parseBuckets counting b buckets.length (buckets.flatMap (bucketBytes counting b) ++ suf) = buckets := by
  induction buckets with
  | nil => rfl
  | cons bkt rest ih =>
      obtain ⟨hl, hb⟩ := h bkt (by simp)
      have ih := ih (fun x hx => h x (List.mem_cons_of_mem _ hx))
      simp only [List.length_cons, Cuckoo.parseBuckets, List.flatMap_cons, List.append_assoc]
      have hlen := bucketBytes_length counting b bkt hl
      unfold cuckooW at hlen
      rw [List.take_left' hlen, List.drop_left' hlen, ih]
      congr 1
      have := parseBucket_bins counting bkt (b - bkt.length) hb
      rw [show bkt.length + (b - bkt.length) = b by omega] at this
      exact this

theorem body_length (counting : Bool) (b : Nat) (buckets : List (List CBin))
    (h : ∀ bkt ∈ buckets, bkt.length ≤ b) :
    (buckets.flatMap (bucketBytes counting b)).length = buckets.length * (cuckooW counting * b) := by
  induction buckets with
  | nil => simp
  | cons bkt rest ih =>
      simp only [List.flatMap_cons, List.length_append, List.length_cons]
      rw [bucketBytes_length _ _ _ (h bkt (by simp)), ih (fun x hx => h x (List.mem_cons_of_mem _ hx)), Nat.succ_mul]
      omega

end PyProb
