/-
  Bookkeeping of the cuckoo filters' two element counters (`_inserted_elements`, `__unique_elements`):
  in every reachable state `count` is the sum of the stored counts and `unique` the number of bins
  (counting filter; 0 for the plain filter), and no stored fingerprint is 0.  Needed by the export
  round trip (C05): the loader recomputes both counters from the table.
  Built on the table lemmas of `CuckooCore` / `CuckooOps` (conservation of every weighted sum).
-/
import PyProb.Lemmas.CuckooOps

namespace PyProb.Cuckoo
open PyProb

/-! ### how the two element counters move (independent of the table contents) -/

/-- `1` for the counting filter, `0` for the plain one: what `placed` adds to `unique` -/
def uInc (c : Cuckoo) : Int := if c.counting then 1 else 0

theorem insertAt_fields {c c' : Cuckoo} {i : Nat} {bin : CBin} (h : c.insertAt i bin = some c') :
    c'.count = c.count ∧ c'.unique = c.unique ∧ c'.counting = c.counting := by
  unfold insertAt at h
  split at h
  · injection h with h; subst h; exact ⟨rfl, rfl, rfl⟩
  · cases h

theorem placed_fields (c : Cuckoo) (n : Nat) :
    (c.placed n).count = c.count + n ∧ (c.placed n).unique = c.unique + uInc c ∧
      (c.placed n).counting = c.counting := by
  unfold placed uInc
  refine ⟨rfl, ?_, rfl⟩
  simp only
  split <;> simp

theorem kick_fields (G : Nat → Nat) (cnt : Nat) : ∀ (fuel : Nat) (c : Cuckoo) (hand : CBin) (idx : Nat)
    (o : List Nat) (c' : Cuckoo) (o' : List Nat),
    kick G cnt fuel c hand idx o = (some c', o') →
    c'.count = c.count + cnt ∧ c'.unique = c.unique + uInc c ∧ c'.counting = c.counting := by
  intro fuel
  induction fuel with
  | zero => intro c hand idx o c' o' h; simp [kick_zero] at h
  | succ fuel ih =>
      intro c hand idx o c' o' h
      rw [kick_succ] at h
      split at h
      · rename_i c1 hins
        obtain ⟨h1, h2, h3⟩ := insertAt_fields hins
        simp only [Prod.mk.injEq, Option.some.injEq] at h
        obtain ⟨rfl, -⟩ := h
        obtain ⟨p1, p2, p3⟩ := placed_fields c1 cnt
        have hk : (kstep G c hand idx o).1.count = c.count ∧ (kstep G c hand idx o).1.unique = c.unique ∧
            (kstep G c hand idx o).1.counting = c.counting := ⟨rfl, rfl, rfl⟩
        refine ⟨by rw [p1, h1, hk.1], ?_, by rw [p3, h3, hk.2.2]⟩
        rw [p2, h2, hk.2.1]; unfold uInc; rw [h3, hk.2.2]
      · have := ih _ _ _ _ _ _ h
        exact this

theorem insertFp_fields (G : Nat → Nat) (c : Cuckoo) (bin : CBin) (i1 i2 : Nat) (o : List Nat) :
    ((insertFp G c bin i1 i2 o).2.1 = none ∧
      (insertFp G c bin i1 i2 o).1.count = c.count + bin.2 ∧
      (insertFp G c bin i1 i2 o).1.unique = c.unique + uInc c ∧
      (insertFp G c bin i1 i2 o).1.counting = c.counting) ∨
    ((insertFp G c bin i1 i2 o).2.1 = some bin ∧ (insertFp G c bin i1 i2 o).1 = c) := by
  unfold insertFp
  split
  · rename_i c1 hins
    obtain ⟨h1, h2, h3⟩ := insertAt_fields hins
    obtain ⟨p1, p2, p3⟩ := placed_fields c1 bin.2
    left
    refine ⟨rfl, by rw [p1, h1], ?_, by rw [p3, h3]⟩
    rw [p2, h2]; unfold uInc; rw [h3]
  · split
    · rename_i c1 hins
      obtain ⟨h1, h2, h3⟩ := insertAt_fields hins
      obtain ⟨p1, p2, p3⟩ := placed_fields c1 bin.2
      left
      refine ⟨rfl, by rw [p1, h1], ?_, by rw [p3, h3]⟩
      rw [p2, h2]; unfold uInc; rw [h3]
    · simp only
      split
      · rename_i c1 o1 hk
        left
        obtain ⟨k1, k2, k3⟩ := kick_fields G bin.2 _ _ _ _ _ _ _ hk
        exact ⟨rfl, k1, k2, k3⟩
      · right; exact ⟨rfl, rfl⟩

theorem reinsert_fields (G : Nat → Nat) : ∀ (bins : List CBin) (c : Cuckoo) (o : List Nat) (c' : Cuckoo) (o' : List Nat),
    reinsert G bins c o = (some c', o') →
    c'.count = c.count + (bsum (·.2) bins : Nat) ∧ c'.unique = c.unique + uInc c * (bins.length : Nat) ∧
      c'.counting = c.counting := by
  intro bins
  induction bins with
  | nil =>
      intro c o c' o' h
      simp only [reinsert, Prod.mk.injEq, Option.some.injEq] at h
      obtain ⟨rfl, -⟩ := h
      simp
  | cons bin rest ih =>
      intro c o c' o' h
      simp only [reinsert, indices] at h
      have hf := insertFp_fields G c bin (bin.1 % c.cap) (G bin.1 % c.cap) o
      generalize insertFp G c bin (bin.1 % c.cap) (G bin.1 % c.cap) o = r at h hf
      obtain ⟨c1, left, o1⟩ := r
      cases left with
      | some l => simp at h
      | none =>
          simp only at h hf
          rcases hf with ⟨_, f1, f2, f3⟩ | ⟨hbad, _⟩
          · obtain ⟨g1, g2, g3⟩ := ih c1 o1 c' o' h
            refine ⟨?_, ?_, by rw [g3, f3]⟩
            · rw [g1, f1]; simp only [bsum_cons]; push_cast; omega
            · rw [g2, f2]; unfold uInc; rw [f3]; simp only [List.length_cons]; push_cast
              split <;> omega
          · simp at hbad

theorem expandLogic_fields (G : Nat → Nat) (c : Cuckoo) (extra : Option CBin) (o : List Nat) :
    ((expandLogic G c extra o).2.1 = none ∧
      (expandLogic G c extra o).1.count = ((optW (·.2) extra + tsum (·.2) c : Nat) : Int) ∧
      (expandLogic G c extra o).1.unique = uInc c * ((optW (fun _ => 1) extra + tsum (fun _ => 1) c : Nat) : Int) ∧
      (expandLogic G c extra o).1.counting = c.counting) ∨
    ((expandLogic G c extra o).2.1 = some .cuckooFull ∧ (expandLogic G c extra o).1 = c) := by
  rw [expandLogic_eq]
  generalize hrr : reinsert G (extra.toList ++ c.buckets.flatten) (emptied c) o = r
  obtain ⟨r1, o'⟩ := r
  cases r1 with
  | none => exact Or.inr ⟨rfl, rfl⟩
  | some c' =>
      obtain ⟨g1, g2, g3⟩ := reinsert_fields G _ _ o c' o' hrr
      left
      refine ⟨rfl, ?_, ?_, g3⟩
      · simp only
        rw [g1, bsum_append, ← tsum_eq_flatten]
        cases extra <;> simp [emptied, optW]
      · simp only
        rw [g2]
        have hlen : ∀ l : List CBin, l.length = bsum (fun _ => 1) l := by
          intro l; induction l with
          | nil => rfl
          | cons a l ih => simp only [List.length_cons, bsum_cons, ih]; omega
        rw [hlen, bsum_append, ← tsum_eq_flatten]
        have : uInc (emptied c) = uInc c := rfl
        rw [this]
        cases extra <;> simp [emptied, optW]

theorem add_fields (G : Nat → Nat) (c : Cuckoo) (h : Nat) (o : List Nat) :
    (add G c h o).1 = c ∨
    (containsL G c (c.fingerprint h) ∧ c.counting = true ∧ (add G c h o).1.count = c.count + 1 ∧
      (add G c h o).1.unique = c.unique ∧ (add G c h o).1.counting = c.counting) ∨
    (¬ containsL G c (c.fingerprint h) ∧ (add G c h o).1.count = c.count + 1 ∧
      (add G c h o).1.unique = c.unique + uInc c ∧ (add G c h o).1.counting = c.counting) ∨
    (¬ containsL G c (c.fingerprint h) ∧
      (add G c h o).1.count = ((1 + tsum (·.2) c : Nat) : Int) ∧
      (add G c h o).1.unique = uInc c * ((1 + tsum (fun _ => 1) c : Nat) : Int) ∧
      (add G c h o).1.counting = c.counting) := by
  simp only [add, indices]
  generalize c.fingerprint h = fp
  split
  · rename_i i hp
    obtain ⟨hi12, hh⟩ := present_some hp
    have hcont : containsL G c fp := by
      rcases hi12 with rfl | rfl
      · exact Or.inl hh
      · exact Or.inr hh
    split
    · rename_i hc
      right; left
      exact ⟨hcont, hc, rfl, rfl, rfl⟩
    · left; rfl
  · rename_i hp
    obtain ⟨h1, h2⟩ := present_none hp
    have hnot : ¬ containsL G c fp := by
      rintro (h | h)
      · rw [h1] at h; cases h
      · rw [h2] at h; cases h
    have hf := insertFp_fields G c (fp, 1) (fp % c.cap) (G fp % c.cap) o
    generalize insertFp G c (fp, 1) (fp % c.cap) (G fp % c.cap) o = r at hf
    obtain ⟨c1, left, o1⟩ := r
    cases left with
    | none =>
        simp only at hf ⊢
        rcases hf with ⟨_, f1, f2, f3⟩ | ⟨hbad, _⟩
        · right; right; left
          exact ⟨hnot, by simpa using f1, f2, f3⟩
        · simp at hbad
    | some l =>
        simp only at hf ⊢
        rcases hf with ⟨hbad, _⟩ | ⟨hl, hc1⟩
        · simp at hbad
        · simp only [Option.some.injEq] at hl
          subst hl; subst hc1
          split
          · have he := expandLogic_fields G c1 (some (fp, 1)) o1
            rcases he with ⟨_, e1, e2, e3⟩ | ⟨_, e1⟩
            · right; right; right
              exact ⟨hnot, by simpa [optW] using e1, by simpa [optW] using e2, e3⟩
            · left; exact e1
          · left; rfl

theorem remove_fields (G : Nat → Nat) (c : Cuckoo) (h : Nat) :
    (remove G c h).1 = c ∨
    (c.counting = false ∧ (remove G c h).1.count = c.count - 1 ∧ (remove G c h).1.unique = c.unique ∧
      (remove G c h).1.counting = c.counting) ∨
    (c.counting = true ∧ ∃ bin, stored c bin ∧ bin.1 = c.fingerprint h ∧
      (remove G c h).1.count = c.count - 1 ∧
      (remove G c h).1.unique = (if bin.2 ≤ 1 then c.unique - 1 else c.unique) ∧
      (remove G c h).1.counting = c.counting) := by
  simp only [remove, indices]
  generalize c.fingerprint h = fp
  split
  · left; rfl
  · rename_i i hp
    split
    · rename_i hc
      split
      · left; rfl
      · rename_i bin hfind
        have hmem : bin ∈ c.bucket i := List.mem_of_find?_eq_some hfind
        have hfp : bin.1 = fp := by simpa using List.find?_some hfind
        right; right
        refine ⟨hc, bin, stored_of_bucket hmem, hfp, ?_⟩
        split
        · exact ⟨rfl, rfl, rfl⟩
        · exact ⟨rfl, rfl, rfl⟩
    · rename_i hc
      right; left
      exact ⟨by simpa using hc, rfl, rfl, rfl⟩

/-! ### the bookkeeping invariant -/

/-- no stored fingerprint is 0, `count` is the sum of the stored counts, `unique` the number of
    bins (counting filter) or 0 (plain filter) -/
structure Acct (c : Cuckoo) : Prop where
  fpPos : tsum (isFp 0) c = 0
  count : c.count = ((tsum (·.2) c : Nat) : Int)
  unique : c.unique = uInc c * ((tsum (fun _ => 1) c : Nat) : Int)

theorem tsum_add (f g : CBin → Nat) (c : Cuckoo) : tsum (fun b => f b + g b) c = tsum f c + tsum g c := by
  simp only [tsum_eq_flatten, bsum_add]

theorem tsum_split (f : CBin → Nat) (fp : Nat) (c : Cuckoo) :
    tsum f c = tsum (fun b => if b.1 = fp then f b else 0) c + tsum (fun b => if b.1 = fp then 0 else f b) c := by
  rw [← tsum_add]
  congr 1
  funext b
  split <;> simp

theorem fingerprint_pos (c : Cuckoo) (h : Nat) : 0 < c.fingerprint h := by
  unfold fingerprint
  simp only
  split
  · decide
  · rename_i hne
    have : h % 2 ^ c.fpBits ≠ 0 := by simpa using hne
    omega

theorem isFp_le_one {G : Nat → Nat} {c : Cuckoo} (hw : WF G c) (fp : Nat) : tsum (isFp fp) c ≤ 1 := hw.nodup fp

theorem isFp_pos_iff_cntW_pos {G : Nat → Nat} {c : Cuckoo} (hw : WF G c) (fp : Nat) :
    0 < tsum (isFp fp) c ↔ 0 < tsum (cntW fp) c := by
  rw [tsum_pos_iff, tsum_pos_iff]
  constructor
  · rintro ⟨bin, hs, hb⟩
    have hfp : bin.1 = fp := by
      unfold isFp at hb; split at hb
      · assumption
      · omega
    exact ⟨bin, hs, by have := hw.cnt_pos bin hs; simp [cntW, hfp]; omega⟩
  · rintro ⟨bin, hs, hb⟩
    have hfp : bin.1 = fp := by
      unfold cntW at hb; split at hb
      · assumption
      · omega
    exact ⟨bin, hs, by simp [isFp, hfp]⟩

theorem acct_new (counting : Bool) (cap b maxSwaps rate : Nat) (auto : Bool) (fpBits : Nat) :
    Acct (Cuckoo.new counting cap b maxSwaps rate auto fpBits) := by
  have h0 : ∀ f, tsum f (Cuckoo.new counting cap b maxSwaps rate auto fpBits) = 0 :=
    fun f => tsum_empty_table f _ cap rfl
  exact ⟨h0 _, by rw [h0]; rfl, by rw [h0]; simp [Cuckoo.new]⟩

theorem acct_add {G : Nat → Nat} {c : Cuckoo} (h : Nat) (o : List Nat) (hw : WF G c) (ha : Acct c) :
    Acct (add G c h o).1 := by
  have hfp := fingerprint_pos c h
  rcases add_spec h o hw with ⟨_, hw', hx, _, hrest, hcnt, habs⟩ | ⟨_, hsame⟩
  · have hu : uInc (add G c h o).1 = uInc c := by unfold uInc; rw [hx.counting]
    rcases add_fields G c h o with hA | ⟨hcont, hcounting, f1, f2, _⟩ | ⟨hnot, f1, f2, _⟩ | ⟨hnot, f1, f2, _⟩
    · rw [hA]; exact ha
    · -- the fingerprint was present (counting filter): its count goes up by one
      have h0 : tsum (isFp 0) (add G c h o).1 = tsum (isFp 0) c :=
        hrest _ (by intro b hb; simp only [isFp]; rw [if_neg (by omega)])
      have hS : tsum (·.2) (add G c h o).1 = tsum (·.2) c + 1 := by
        rw [tsum_split (·.2) (c.fingerprint h) (add G c h o).1, tsum_split (·.2) (c.fingerprint h) c]
        have e1 : (fun b : CBin => if b.1 = c.fingerprint h then b.2 else 0) = cntW (c.fingerprint h) := rfl
        rw [e1, hcnt, hcounting, hrest _ (by intro b hb; simp [hb])]
        simp only [if_true]; omega
      have hN : tsum (fun _ => 1) (add G c h o).1 = tsum (fun _ => 1) c := by
        rw [tsum_split (fun _ => 1) (c.fingerprint h) (add G c h o).1, tsum_split (fun _ => 1) (c.fingerprint h) c]
        have e1 : (fun b : CBin => if b.1 = c.fingerprint h then 1 else 0) = isFp (c.fingerprint h) := rfl
        rw [e1, hrest (fun b => if b.1 = c.fingerprint h then 0 else 1) (by intro b hb; simp [hb])]
        have p1 : 0 < tsum (isFp (c.fingerprint h)) c := (containsL_iff_isFp hw.ts _).mp hcont
        have p2 : 0 < tsum (isFp (c.fingerprint h)) (add G c h o).1 :=
          (isFp_pos_iff_cntW_pos hw' _).mpr (by rw [hcnt, hcounting]; simp)
        have q1 := isFp_le_one hw (c.fingerprint h)
        have q2 := isFp_le_one hw' (c.fingerprint h)
        omega
      refine ⟨by rw [h0]; exact ha.fpPos, ?_, ?_⟩
      · rw [f1, hS, ha.count]; push_cast; rfl
      · rw [f2, hu, hN, ha.unique]
    · -- a new bin was placed
      have hall := habs hnot
      refine ⟨?_, ?_, ?_⟩
      · rw [hall, ha.fpPos]; simp only [isFp]; rw [if_neg (by omega)]
      · rw [f1, hall, ha.count]; push_cast; rfl
      · rw [f2, hu, hall, ha.unique]; push_cast; rw [Int.mul_add, Int.mul_one]
    · -- a new bin was placed after an automatic expansion
      have hall := habs hnot
      refine ⟨?_, ?_, ?_⟩
      · rw [hall, ha.fpPos]; simp only [isFp]; rw [if_neg (by omega)]
      · rw [f1, hall]; push_cast; omega
      · rw [f2, hu, hall]; push_cast; rw [Int.add_comm]
  · rw [hsame]; exact ha

theorem acct_remove {G : Nat → Nat} {c : Cuckoo} (h : Nat) (hw : WF G c) (ha : Acct c) :
    Acct (remove G c h).1 := by
  have hfp := fingerprint_pos c h
  rcases remove_spec h hw with ⟨_, hw', hsame, hcont, hrest, hcnt, hplain⟩ | ⟨_, hc, _⟩
  · have hu : uInc (remove G c h).1 = uInc c := by unfold uInc; rw [hsame.counting]
    have h0 : tsum (isFp 0) (remove G c h).1 = tsum (isFp 0) c :=
      hrest _ (by intro b hb; simp only [isFp]; rw [if_neg (by omega)])
    rcases remove_fields G c h with hA | ⟨hc, f1, f2, _⟩ | ⟨hc, bin, hst, hbfp, f1, f2, _⟩
    · rw [hA]; exact ha
    · have hall := hplain hc
      have hu0 : uInc c = 0 := by unfold uInc; rw [hc]; rfl
      refine ⟨by rw [h0]; exact ha.fpPos, ?_, ?_⟩
      · have := hall (·.2)
        simp only at this
        rw [f1, ha.count, ← this]; push_cast; omega
      · rw [f2, hu, ha.unique, hu0]; simp
    · have hu1 : uInc c = 1 := by unfold uInc; rw [hc]; rfl
      have hS : tsum (·.2) (remove G c h).1 + 1 = tsum (·.2) c := by
        rw [tsum_split (·.2) (c.fingerprint h) (remove G c h).1, tsum_split (·.2) (c.fingerprint h) c]
        have e1 : (fun b : CBin => if b.1 = c.fingerprint h then b.2 else 0) = cntW (c.fingerprint h) := rfl
        rw [e1, hrest (fun b => if b.1 = c.fingerprint h then 0 else b.2) (by intro b hb; simp [hb])]
        omega
      have hbin : tsum (cntW (c.fingerprint h)) c = bin.2 := by
        rw [tsum_unique hw (cntW (c.fingerprint h)) bin hst (by
          intro b hb; simp only [cntW]; rw [if_neg (by rw [← hbfp]; exact hb)])]
        simp [cntW, hbfp]
      have p1 : 0 < tsum (isFp (c.fingerprint h)) c := (containsL_iff_isFp hw.ts _).mp hcont
      have q1 := isFp_le_one hw (c.fingerprint h)
      have q2 := isFp_le_one hw' (c.fingerprint h)
      have hiff := isFp_pos_iff_cntW_pos hw' (c.fingerprint h)
      have hN : tsum (fun _ => 1) (remove G c h).1 + (if bin.2 ≤ 1 then 1 else 0) = tsum (fun _ => 1) c := by
        rw [tsum_split (fun _ => 1) (c.fingerprint h) (remove G c h).1, tsum_split (fun _ => 1) (c.fingerprint h) c]
        have e1 : (fun b : CBin => if b.1 = c.fingerprint h then 1 else 0) = isFp (c.fingerprint h) := rfl
        rw [e1, hrest (fun b => if b.1 = c.fingerprint h then 0 else 1) (by intro b hb; simp [hb])]
        by_cases hle : bin.2 ≤ 1
        · rw [if_pos hle]
          have : ¬ 0 < tsum (isFp (c.fingerprint h)) (remove G c h).1 := by
            rw [hiff]; omega
          omega
        · rw [if_neg hle]
          have : 0 < tsum (isFp (c.fingerprint h)) (remove G c h).1 := by
            rw [hiff]; omega
          omega
      refine ⟨by rw [h0]; exact ha.fpPos, ?_, ?_⟩
      · rw [f1, ha.count, ← hS]; push_cast; omega
      · rw [f2, hu, hu1, ha.unique, hu1, ← hN]
        split <;> (push_cast; omega)
  · rw [hc]; exact ha

theorem acct_expand {G : Nat → Nat} {c : Cuckoo} (o : List Nat) (hw : WF G c) (ha : Acct c) :
    Acct (expandLogic G c none o).1 := by
  rcases expand_spec o hw with ⟨_, _, hx, _, hall⟩ | ⟨_, hsame⟩
  · have hu : uInc (expandLogic G c none o).1 = uInc c := by unfold uInc; rw [hx.counting]
    rcases expandLogic_fields G c none o with ⟨_, e1, e2, _⟩ | ⟨_, e1⟩
    · refine ⟨by rw [hall]; exact ha.fpPos, ?_, ?_⟩
      · rw [e1, hall]; simp [optW]
      · rw [e2, hu, hall]; simp [optW]
    · rw [e1]; exact ha
  · rw [hsame]; exact ha

theorem bsum_one_length (l : List CBin) : bsum (fun _ => 1) l = l.length := by
  induction l with
  | nil => rfl
  | cons a l ih => simp only [bsum_cons, List.length_cons, ih]; omega


end PyProb.Cuckoo
