/-
  Bridges between the model's codecs (`Model/Base.lean`) and the independently written layout
  specification (`Spec/Layout.lean`), count-min sketch family: the footer.
-/
import PyProb.Lemmas.LayoutSpecCommon
import PyProb.Lemmas.FormatsCms

namespace PyProb

theorem cmsFooter_spec (w d : Nat) (t : Int) :
    Gen.cmsFooter.pack [(w : Int), (d : Int), t] =
      if w < 2 ^ 32 ∧ d < 2 ^ 32 ∧ -9223372036854775808 ≤ t ∧ t ≤ 9223372036854775807
      then .ok (Spec.cmsFooter w d t) else .error .structError := by
  rw [cmsFooter_pack]
  by_cases h : w < 2 ^ 32 ∧ d < 2 ^ 32 ∧ -9223372036854775808 ≤ t ∧ t ≤ 9223372036854775807
  · obtain ⟨h1, h2, h3, h4⟩ := h
    rw [if_neg (by omega), if_neg (by omega), if_neg (by omega), if_pos ⟨h1, h2, h3, h4⟩]
    rw [leBytesInt4_nat (by omega) (by omega), leBytesInt4_nat (by omega) (by omega), leBytesInt8_int h3 h4]
    simp [Spec.cmsFooter]
  · rw [if_neg h]
    repeat' split
    all_goals first | rfl | (exfalso; apply h; omega)

end PyProb
