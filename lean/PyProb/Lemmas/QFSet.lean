/-
  Finite sets as strictly sorted lists (`Spec.insertBy`, `List.erase`): membership, sortedness,
  extensionality, transport along order-preserving maps; the two orders used by the quotient
  filter (`ltE` on (quotient, remainder) pairs, `ltN` on hashes) and the hash/element bijection.
-/
import PyProb.Spec.QF

namespace PyProb.Spec

/-- a strict total order given as a Boolean function -/
structure StrictTotal {α : Type} (lt : α → α → Bool) : Prop where
  irrefl : ∀ a, lt a a = false
  trans : ∀ a b c, lt a b = true → lt b c = true → lt a c = true
  tri : ∀ a b, lt a b = true ∨ a = b ∨ lt b a = true

section generic
variable {α : Type} [DecidableEq α] {lt : α → α → Bool}

theorem mem_insertBy (x a : α) (l : List α) : a ∈ insertBy lt x l ↔ a = x ∨ a ∈ l := by
  induction l with
  | nil => simp [insertBy]
  | cons y ys ih =>
      simp only [insertBy]
      split
      · simp
      · split
        · rename_i h; subst h; simp
        · simp only [List.mem_cons, ih]
          constructor
          · rintro (h | h | h) <;> simp [h]
          · rintro (h | h | h) <;> simp [h]

omit [DecidableEq α] in
theorem sorted_cons {a : α} {l : List α} :
    SortedBy lt (a :: l) ↔ (∀ b ∈ l, lt a b = true) ∧ SortedBy lt l := by
  simp [SortedBy, List.pairwise_cons]

theorem sorted_insertBy (ho : StrictTotal lt) (x : α) (l : List α) (hl : SortedBy lt l) :
    SortedBy lt (insertBy lt x l) := by
  induction l with
  | nil => simp [insertBy, SortedBy]
  | cons y ys ih =>
      rw [sorted_cons] at hl
      simp only [insertBy]
      split
      · rename_i hxy
        rw [sorted_cons]
        refine ⟨?_, sorted_cons.2 hl⟩
        intro b hb
        rcases List.mem_cons.1 hb with h | h
        · subst h; exact hxy
        · exact ho.trans _ _ _ hxy (hl.1 b h)
      · rename_i hxy
        split
        · exact sorted_cons.2 hl
        · rename_i hne
          rw [sorted_cons]
          refine ⟨?_, ih hl.2⟩
          intro b hb
          rcases (mem_insertBy x b ys).1 hb with h | h
          · subst h
            rcases ho.tri b y with h | h | h
            · exact absurd h hxy
            · exact absurd h hne
            · exact h
          · exact hl.1 b h

theorem length_insertBy_of_not_mem (x : α) (l : List α) (h : x ∉ l) :
    (insertBy lt x l).length = l.length + 1 := by
  induction l with
  | nil => simp [insertBy]
  | cons y ys ih =>
      simp only [List.mem_cons, not_or] at h
      simp only [insertBy]
      split
      · simp
      · rw [if_neg h.1]; simp [ih h.2]

theorem insertBy_of_mem (ho : StrictTotal lt) (x : α) (l : List α) (hl : SortedBy lt l) (h : x ∈ l) :
    insertBy lt x l = l := by
  induction l with
  | nil => simp at h
  | cons y ys ih =>
      rw [sorted_cons] at hl
      simp only [insertBy]
      rcases List.mem_cons.1 h with h | h
      · subst h; simp [ho.irrefl]
      · have hyx := hl.1 x h
        have : lt x y = false := by
          cases hxy : lt x y
          · rfl
          · have := ho.trans _ _ _ hxy hyx; rw [ho.irrefl] at this; cases this
        rw [this]
        have hne : x ≠ y := by
          intro e; subst e; rw [ho.irrefl] at hyx; cases hyx
        simp [hne, ih hl.2 h]

omit [DecidableEq α] in
theorem sorted_nodup (ho : StrictTotal lt) {l : List α} (hl : SortedBy lt l) : l.Nodup := by
  unfold SortedBy at hl
  refine List.Pairwise.imp ?_ hl
  intro a b hab e
  subst e; rw [ho.irrefl] at hab; cases hab

theorem sorted_erase {l : List α} (hl : SortedBy lt l) (x : α) : SortedBy lt (l.erase x) :=
  List.Pairwise.sublist List.erase_sublist hl

theorem mem_erase_sorted (ho : StrictTotal lt) {l : List α} (hl : SortedBy lt l) (x a : α) :
    a ∈ l.erase x ↔ a ≠ x ∧ a ∈ l :=
  (sorted_nodup ho hl).mem_erase_iff

theorem length_erase_of_mem {l : List α} {x : α} (h : x ∈ l) : (l.erase x).length + 1 = l.length := by
  have := List.length_erase_of_mem h
  have : 0 < l.length := List.length_pos_of_mem h
  omega

omit [DecidableEq α] in
/-- two strictly sorted lists with the same members are equal -/
theorem sorted_ext (ho : StrictTotal lt) : ∀ {l₁ l₂ : List α}, SortedBy lt l₁ → SortedBy lt l₂ →
    (∀ a, a ∈ l₁ ↔ a ∈ l₂) → l₁ = l₂
  | [], [], _, _, _ => rfl
  | [], b :: _, _, _, h => by have := (h b).2 (by simp); simp at this
  | a :: _, [], _, _, h => by have := (h a).1 (by simp); simp at this
  | a :: l₁, b :: l₂, h₁, h₂, h => by
      rw [sorted_cons] at h₁ h₂
      have hab : a = b := by
        rcases ho.tri a b with hlt | he | hlt
        · -- a < b ≤ everything in the second list, but a is in it
          have ha : a ∈ b :: l₂ := (h a).1 (by simp)
          rcases List.mem_cons.1 ha with e | hm
          · exact e
          · have := ho.trans _ _ _ hlt (h₂.1 a hm); rw [ho.irrefl] at this; cases this
        · exact he
        · have hb : b ∈ a :: l₁ := (h b).2 (by simp)
          rcases List.mem_cons.1 hb with e | hm
          · exact e.symm
          · have := ho.trans _ _ _ hlt (h₁.1 b hm); rw [ho.irrefl] at this; cases this
      subst hab
      congr 1
      apply sorted_ext ho h₁.2 h₂.2
      intro c
      constructor
      · intro hc
        have : c ∈ a :: l₂ := (h c).1 (List.mem_cons_of_mem _ hc)
        rcases List.mem_cons.1 this with e | hm
        · subst e; have := h₁.1 c hc; rw [ho.irrefl] at this; cases this
        · exact hm
      · intro hc
        have : c ∈ a :: l₁ := (h c).2 (List.mem_cons_of_mem _ hc)
        rcases List.mem_cons.1 this with e | hm
        · subst e; have := h₂.1 c hc; rw [ho.irrefl] at this; cases this
        · exact hm

end generic

/-- transport of `insertBy` along a map that preserves and reflects the order on the elements
    concerned -/
theorem map_insertBy {α β : Type} [DecidableEq α] [DecidableEq β] {lt : α → α → Bool}
    {lt' : β → β → Bool} (f : α → β) (x : α) (l : List α)
    (hlt : ∀ y ∈ l, lt' (f x) (f y) = lt x y) (hinj : ∀ y ∈ l, f x = f y → x = y) :
    (insertBy lt x l).map f = insertBy lt' (f x) (l.map f) := by
  induction l with
  | nil => simp [insertBy]
  | cons y ys ih =>
      have h1 := hlt y (by simp)
      have h2 := hinj y (by simp)
      have ih' := ih (fun z hz => hlt z (List.mem_cons_of_mem _ hz))
        (fun z hz => hinj z (List.mem_cons_of_mem _ hz))
      simp only [insertBy, List.map_cons, h1]
      split
      · simp
      · by_cases e : x = y
        · subst e; simp
        · have : f x ≠ f y := fun h => e (h2 h)
          simp [e, this, ih']

/-! ### the two concrete orders -/

theorem ltN_total : StrictTotal ltN where
  irrefl := by intro a; simp [ltN]
  trans := by intro a b c; simp only [ltN, decide_eq_true_eq]; omega
  tri := by intro a b; simp only [ltN, decide_eq_true_eq]; omega

theorem ltE_iff (a b : Elem) : ltE a b = true ↔ a.1 < b.1 ∨ (a.1 = b.1 ∧ a.2 < b.2) := by
  simp [ltE]

theorem ltE_total : StrictTotal ltE where
  irrefl := by
    intro a
    cases h : ltE a a
    · rfl
    · rw [ltE_iff] at h; omega
  trans := by intro a b c; simp only [ltE_iff]; omega
  tri := by
    intro a b
    simp only [ltE_iff]
    rcases a with ⟨a1, a2⟩; rcases b with ⟨b1, b2⟩
    simp only [Prod.mk.injEq]
    omega

/-! ### hashes and elements -/

theorem two_pow_split (q : Nat) (hq : q ≤ 32) : 2 ^ q * 2 ^ (32 - q) = 2 ^ 32 := by
  rw [← Nat.pow_add]; congr 1; omega

theorem dec_fst_lt (q h : Nat) (hq : q ≤ 32) (hh : h < 2 ^ 32) : (dec q h).1 < 2 ^ q := by
  simp only [dec]
  rw [Nat.div_lt_iff_lt_mul (Nat.two_pow_pos _), two_pow_split q hq]
  exact hh

theorem dec_snd_lt (q h : Nat) : (dec q h).2 < 2 ^ (32 - q) := Nat.mod_lt _ (Nat.two_pow_pos _)

theorem enc_dec (q h : Nat) : enc q (dec q h) = h := by
  simp only [enc, dec]
  rw [Nat.mul_comm]; exact Nat.div_add_mod _ _

theorem dec_enc (q : Nat) (x : Elem) (hx : x.2 < 2 ^ (32 - q)) : dec q (enc q x) = x := by
  rcases x with ⟨a, b⟩
  simp only [enc, dec] at *
  have hp : 0 < 2 ^ (32 - q) := Nat.two_pow_pos _
  congr 1
  · rw [Nat.mul_comm, Nat.mul_add_div hp, Nat.div_eq_of_lt hx]; rfl
  · rw [Nat.mul_comm, Nat.mul_add_mod, Nat.mod_eq_of_lt hx]

theorem dec_inj (q a b : Nat) (h : dec q a = dec q b) : a = b := by
  rw [← enc_dec q a, ← enc_dec q b, h]

theorem ltE_dec (q a b : Nat) : ltE (dec q a) (dec q b) = ltN a b := by
  have hp : 0 < 2 ^ (32 - q) := Nat.two_pow_pos _
  generalize hP : 2 ^ (32 - q) = P at hp
  have ha := Nat.div_add_mod a P
  have hb := Nat.div_add_mod b P
  have hma := Nat.mod_lt a hp
  have hmb := Nat.mod_lt b hp
  cases hlt : ltN a b
  · cases h : ltE (dec q a) (dec q b)
    · rfl
    · exfalso
      simp only [ltN, decide_eq_false_iff_not] at hlt
      rw [ltE_iff] at h
      simp only [dec, hP] at h
      rcases h with h | ⟨h1, h2⟩
      · have : P * (a / P + 1) ≤ P * (b / P) := Nat.mul_le_mul_left _ h
        rw [Nat.mul_add, Nat.mul_one] at this
        omega
      · rw [h1] at ha; omega
  · simp only [ltN, decide_eq_true_eq] at hlt
    rw [ltE_iff]
    simp only [dec, hP]
    by_cases hq : a / P < b / P
    · exact Or.inl hq
    · right
      have hle : a / P ≤ b / P := Nat.div_le_div_right (Nat.le_of_lt hlt)
      have he : a / P = b / P := by omega
      refine ⟨he, ?_⟩
      rw [he] at ha; omega

theorem pairs_insertN (q h : Nat) (H : List Nat) :
    pairs q (insertN h H) = insert (dec q h) (pairs q H) := by
  unfold pairs insertN insert
  apply map_insertBy
  · intro y _; exact ltE_dec q h y
  · intro y _ e; exact dec_inj q _ _ e

theorem pairs_sorted (q : Nat) (H : List Nat) (hH : SortedN H) : Sorted (pairs q H) := by
  unfold pairs
  simp only [SortedBy] at *
  rw [List.pairwise_map]
  exact List.Pairwise.imp (fun {a b} h => by rw [ltE_dec]; exact h) hH

theorem mem_pairs (q h : Nat) (H : List Nat) : dec q h ∈ pairs q H ↔ h ∈ H := by
  unfold pairs
  rw [List.mem_map]
  constructor
  · rintro ⟨a, ha, e⟩; rw [← dec_inj q _ _ e]; exact ha
  · intro hh; exact ⟨h, hh, rfl⟩

theorem pairs_erase (q h : Nat) (H : List Nat) : pairs q (H.erase h) = erase (dec q h) (pairs q H) := by
  unfold pairs erase
  induction H with
  | nil => simp
  | cons y ys ih =>
      by_cases e : y = h
      · subst e; simp
      · have : dec q y ≠ dec q h := fun hh => e (dec_inj q _ _ hh)
        rw [List.erase_cons_tail (by simpa using e), List.map_cons, List.map_cons,
          List.erase_cons_tail (by simpa using this), ih]

theorem map_enc_pairs (q : Nat) (H : List Nat) : (pairs q H).map (enc q) = H := by
  unfold pairs
  rw [List.map_map]
  conv => rhs; rw [← List.map_id H]
  apply List.map_congr_left
  intro a _; exact enc_dec q a

end PyProb.Spec
