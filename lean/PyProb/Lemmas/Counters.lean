/-
  Step-level facts about the element counters of the Bloom family and the counting Bloom filter
  (`count`, `added`): what one call of `add_alt` / `remove_alt` / `clear` / `push` / `pop` does to
  the counter, by unfolding the models.  Core Lean only.  Used by `PyProb/Properties/C14.lean`.
  (The cuckoo counters are in `Lemmas/CuckooCount.lean`.)
-/
import PyProb.Lemmas.ExpandingCore
import PyProb.Lemmas.RotatingCore

namespace PyProb.Counters
open PyProb

/-! ### Bloom filter -/

theorem bloom_add_count (b : Bloom) (hs : List Nat) :
    (b.addAlt hs).1.count = if b.k ≤ hs.length then b.count + 1 else b.count := by
  unfold Bloom.addAlt
  by_cases h : hs.length < b.k
  · simp only [h, if_true]; rw [if_neg (by omega)]
  · simp only [h, if_false]; rw [if_pos (by omega)]

theorem bloom_add_err (b : Bloom) (hs : List Nat) :
    (b.addAlt hs).2 = if b.k ≤ hs.length then none else some .indexError := by
  unfold Bloom.addAlt
  by_cases h : hs.length < b.k
  · simp only [h, if_true]; rw [if_neg (by omega)]
  · simp only [h, if_false]; rw [if_pos (by omega)]

theorem bloom_add_k (b : Bloom) (hs : List Nat) : (b.addAlt hs).1.k = b.k := by
  unfold Bloom.addAlt; split <;> rfl

/-! ### expanding / rotating Bloom filter with the real `add_alt` -/

/-- `add_alt` counts the call in every branch: forced, suppressed duplicate, effective insertion,
    and also when the membership test or the insertion raises -/
theorem expanding_addAlt_added (e : Expanding) (hs : List Nat) (f : Bool) :
    (e.addAlt hs f).1.added = e.added + 1 := by
  unfold Expanding.addAlt
  split
  · exact (Expanding.addCore_static e true hs true).2.2.2.2
  · split
    · rfl
    · exact (Expanding.addCore_static e _ hs false).2.2.2.2

theorem rotating_addAlt_added (r : Rotating) (hs : List Nat) (f : Bool) :
    (r.addAlt hs f).1.added = r.added + 1 := by
  unfold Rotating.addAlt
  split
  · exact (Rotating.addCore_static r true hs true).2.2.2.2.1
  · split
    · rfl
    · exact (Rotating.addCore_static r _ hs false).2.2.2.2.1

theorem rotating_pop_added (r r' : Rotating) (h : r.pop = .ok r') : r'.added = r.added := by
  unfold Rotating.pop at h
  split at h
  · cases h
  · cases h; rfl

/-! ### counting Bloom filter -/

/-- the positions `add_alt` / `remove_alt` touch (repetitions kept) -/
def touched (c : CBF) (hs : List Nat) : List Nat := (hs.take c.k).map (· % c.cells.length)

/-- the minimum over the touched cells: what `remove_alt` compares the amount with -/
def touchedMin (c : CBF) (hs : List Nat) : Int :=
  CBF.minList ((touched c hs).map fun k => c.cells.getD k 0)

theorem cbf_indices (c : CBF) (hs : List Nat) :
    c.indices hs = if hs.length < c.k then .error .indexError else .ok (touched c hs) := rfl

/-- `add_alt`: a call that returns sets the counter to the clamped sum; a call that raises
    leaves it alone -/
theorem cbf_add_count (c : CBF) (hs : List Nat) (n : Int) :
    (∀ v, (c.addAlt hs n).2 = .ok v → (c.addAlt hs n).1.count = min (c.count + n) Gen.uint64Max) ∧
    (∀ e, (c.addAlt hs n).2 = .error e → (c.addAlt hs n).1.count = c.count) := by
  unfold CBF.addAlt
  cases hi : c.indices hs with
  | error e => simp
  | ok idx =>
    simp only
    generalize CBF.addLoop n c.cells (idx.zip (idx.map fun k => c.cells.getD k 0 + n)) [] = r
    obtain ⟨cells, vals, err⟩ := r
    cases err <;> simp

/-- `remove_alt` returning a value: enough hashes were supplied, and one of the three branches:
    a saturated key (nothing changes), an absent key (nothing changes), or the decrement by
    `min n (minimum touched cell)` -/
theorem cbf_remove_ok (c : CBF) (hs : List Nat) (n v : Int) (h : (c.removeAlt hs n).2 = .ok v) :
    c.k ≤ hs.length ∧
    ((touchedMin c hs = Gen.uint32Max ∧ v = Gen.uint32Max ∧ (c.removeAlt hs n).1 = c) ∨
     (touchedMin c hs = 0 ∧ v = 0 ∧ (c.removeAlt hs n).1 = c) ∨
     (touchedMin c hs ≠ Gen.uint32Max ∧ touchedMin c hs ≠ 0 ∧
       v = touchedMin c hs - min n (touchedMin c hs) ∧
       (c.removeAlt hs n).1.count = c.count - min n (touchedMin c hs))) := by
  unfold CBF.removeAlt at h ⊢
  rw [cbf_indices] at h ⊢
  by_cases hk : hs.length < c.k
  · simp [hk] at h
  · refine ⟨by omega, ?_⟩
    simp only [hk, if_false] at h ⊢
    have hmn : CBF.minList ((touched c hs).map fun k => c.cells.getD k 0) = touchedMin c hs := rfl
    cases ht : touched c hs with
    | nil => rw [ht] at h; simp at h
    | cons x xs =>
      rw [ht] at h
      simp only at h ⊢
      rw [← ht] at h ⊢
      rw [hmn] at h ⊢
      by_cases h1 : touchedMin c hs = Gen.uint32Max
      · left
        simp only [h1, beq_self_eq_true, if_true] at h ⊢
        simp only [Except.ok.injEq] at h
        exact ⟨trivial, h.symm, trivial⟩
      · have b1 : (touchedMin c hs == Gen.uint32Max) = false := by simpa using h1
        simp only [b1, Bool.false_eq_true, if_false] at h ⊢
        by_cases h2 : touchedMin c hs = 0
        · right; left
          simp only [h2, beq_self_eq_true, if_true] at h ⊢
          simp only [Except.ok.injEq] at h
          exact ⟨trivial, h.symm, trivial⟩
        · have b2 : (touchedMin c hs == 0) = false := by simpa using h2
          simp only [b2, Bool.false_eq_true, if_false] at h ⊢
          right; right
          have hr : (if touchedMin c hs > n then n else touchedMin c hs) = min n (touchedMin c hs) := by
            split <;> omega
          rw [hr] at h ⊢
          generalize CBF.removeLoop (min n (touchedMin c hs)) c.cells (touched c hs) = r at h ⊢
          obtain ⟨cells, err⟩ := r
          cases err with
          | some e => simp at h
          | none =>
            simp only [Except.ok.injEq] at h
            exact ⟨h1, h2, h.symm, rfl⟩

/-- `remove_alt` raising (too few hashes, or the store below zero half-way) leaves the counter -/
theorem cbf_remove_err (c : CBF) (hs : List Nat) (n : Int) (e : Err) (h : (c.removeAlt hs n).2 = .error e) :
    (c.removeAlt hs n).1.count = c.count := by
  unfold CBF.removeAlt at h ⊢
  cases hi : c.indices hs with
  | error e' => rfl
  | ok idx =>
    rw [hi] at h
    simp only at h ⊢
    cases idx with
    | nil => rfl
    | cons x xs =>
      simp only at h ⊢
      split
      · rfl
      · split
        · rfl
        · rename_i h1 h2
          simp only [h1, h2] at h
          generalize CBF.removeLoop _ c.cells (x :: xs) = r at h ⊢
          obtain ⟨cells, err⟩ := r
          cases err with
          | some e => rfl
          | none => simp at h

end PyProb.Counters
