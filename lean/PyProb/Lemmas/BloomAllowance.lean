/-
  The Bloom-filter "rounding allowance": a code-independent real inequality.

  With `m` bits chosen so that `m·c1 ≥ −n ln t` and a hash count `k ≥ 1` within ½ of `c2·m/n`
  (`c1 = 8655072057804149/2^54 ≤ ln² 2`, `c2 = 6243314768165359/2^53 ≤ ln 2` are the exact values
  of the code's literals), the textbook false-positive rate `(1 − e^{−kn/m})^k` is at most
  `1.07·t`   (`bloom_rounding_allowance`, all `n m k` unbounded, no extra hypotheses).

  Proof.  Put `u = k·n/m`, `a = c2`, `c = c1 ≤ a²`, `v = u − a`, `y = e^{−v}`.  The hypotheses say
  `t ≥ exp(−c·k/u)` and `2ak/(2k+1) ≤ u ≤ 2ak/(2k−1)`, so it suffices to bound
  `A^k` where `A = (1 − e^{−u})·e^{c/u}`.  Because `e^{−a} ≥ ½`, `e^{a} ≤ 2` and
  `c/u ≤ a²/u = a − v + v²/u`,
      `A ≤ (1 − y/2)·2y·e^{v²/u} = (1 − (1−y)²)·e^{v²/u} ≤ exp(v²/u − (1−y)²)`   (`factor_le_exp`).
  * `u ≤ a`:  `(1−y)² ≥ v²`, and `k·v²(1/u − 1) ≤ (a/6)(1 − 2a/3) ≤ 1/16`        (`case_left`).
  * `u ≥ a`:  `1−y ≥ v/(1+v)` and `1/u − 1/(1+v)² ≤ 1/a − 1`, so the exponent is at most
    `k·v²(1−a)/a`, which is `≤ (2/9)·a(1−a) ≤ 1/16` for `k ≥ 2` and `≤ (1−a)³/a ≤ 1/16` for
    `k = 1, u ≤ 1`                                                             (`case_right`).
    In these cases `A^k ≤ e^{1/16} ≤ 16/15 ≤ 1.07`.
  * `k = 1`, `1 ≤ u ≤ 2a`: with `d = 2a − u`, `e^{−u} ≥ ¼(1 + d + d²/2)` and
    `1 − e^{−u} ≤ ¾(1 − ad/(2u)) ≤ ¾·e^{−ad/(2u)}`, while `e^{c/u} ≤ e^{a/2}·e^{ad/(2u)}`; hence
    `A ≤ ¾·e^{a/2} ≤ ¾·1.4143 < 1.07`   (this is where the supremum `¾√2 ≈ 1.0607` sits)
                                                                               (`case_one_far`).
-/
import PyProb.Lemmas.Log2Bound

namespace PyProb.BloomAllowance

open Real

/-- what the proof needs to know about the two constants -/
structure Consts (a c : ℝ) : Prop where
  a_lo : 6931 / 10000 ≤ a
  a_hi : a ≤ 6932 / 10000
  exp_a : exp a ≤ 2
  c_le : c ≤ a ^ 2

theorem exp_sixteenth_le : exp (1 / 16) ≤ 107 / 100 := by
  have h := one_sub_le_exp_neg (1 / 16)
  rw [exp_neg] at h
  have hp := exp_pos (1 / 16 : ℝ)
  have hm := mul_inv_cancel₀ hp.ne'
  nlinarith

/-- `A ≤ e^B` with `k·B ≤ 1/16` gives `A^k ≤ 1.07` -/
theorem pow_le_of_exp {A B : ℝ} (k : ℕ) (hA : 0 ≤ A) (hAB : A ≤ exp B)
    (hkB : (k : ℝ) * B ≤ 1 / 16) : A ^ k ≤ 107 / 100 :=
  calc A ^ k ≤ (exp B) ^ k := pow_le_pow_left₀ hA hAB k
    _ = exp (k * B) := (exp_nat_mul B k).symm
    _ ≤ exp (1 / 16) := exp_le_exp.mpr hkB
    _ ≤ 107 / 100 := exp_sixteenth_le

theorem one_sub_exp_neg_nonneg {u : ℝ} (hu : 0 < u) : 0 ≤ 1 - exp (-u) := by
  have : exp (-u) ≤ 1 := exp_le_one_iff.mpr (by linarith)
  linarith

/-- recentring at `a`: `A ≤ (1 − (1−y)²)·e^{v²/u}` -/
theorem factor_le {a c u : ℝ} (H : Consts a c) (hu : 0 < u) :
    (1 - exp (-u)) * exp (c / u) ≤
      (1 - (1 - exp (-(u - a))) ^ 2) * exp ((u - a) ^ 2 / u) := by
  have ha : 0 < a := by linarith [H.a_lo]
  have hypos : 0 < exp (-(u - a)) := exp_pos _
  have hEpos : 0 < exp ((u - a) ^ 2 / u) := exp_pos _
  have hea : 1 / 2 ≤ exp (-a) := by
    rw [exp_neg]
    have hp := exp_pos a
    have hm := mul_inv_cancel₀ hp.ne'
    have hi : 0 < (exp a)⁻¹ := inv_pos.mpr hp
    nlinarith [H.exp_a]
  have h1 : exp (-u) = exp (-a) * exp (-(u - a)) := by
    rw [← exp_add]; congr 1; ring
  have h2 : 1 - exp (-u) ≤ 1 - exp (-(u - a)) / 2 := by
    rw [h1]; nlinarith
  have h3 : c / u ≤ a + (-(u - a)) + (u - a) ^ 2 / u := by
    have : a + (-(u - a)) + (u - a) ^ 2 / u = a ^ 2 / u := by
      field_simp; ring
    rw [this]
    exact div_le_div_of_nonneg_right H.c_le hu.le
  have h4 : exp (c / u) ≤ 2 * exp (-(u - a)) * exp ((u - a) ^ 2 / u) := by
    calc exp (c / u) ≤ exp (a + (-(u - a)) + (u - a) ^ 2 / u) := exp_le_exp.mpr h3
      _ = exp a * exp (-(u - a)) * exp ((u - a) ^ 2 / u) := by rw [exp_add, exp_add]
      _ ≤ 2 * exp (-(u - a)) * exp ((u - a) ^ 2 / u) := by
          have := H.exp_a
          gcongr
  have h5 := one_sub_exp_neg_nonneg hu
  calc (1 - exp (-u)) * exp (c / u)
      ≤ (1 - exp (-(u - a)) / 2) * (2 * exp (-(u - a)) * exp ((u - a) ^ 2 / u)) :=
        mul_le_mul h2 h4 (exp_pos _).le (h5.trans h2)
    _ = _ := by ring

/-- … and then `1 − z ≤ e^{−z}` -/
theorem factor_le_exp {a c u s : ℝ} (H : Consts a c) (hu : 0 < u)
    (hs : s ≤ (1 - exp (-(u - a))) ^ 2) :
    (1 - exp (-u)) * exp (c / u) ≤ exp ((u - a) ^ 2 / u - s) := by
  refine (factor_le H hu).trans ?_
  have h1 : 1 - (1 - exp (-(u - a))) ^ 2 ≤ exp (-s) :=
    (one_sub_le_exp_neg _).trans (exp_le_exp.mpr (by linarith))
  have h2 : exp ((u - a) ^ 2 / u - s) = exp (-s) * exp ((u - a) ^ 2 / u) := by
    rw [← exp_add]; congr 1; ring
  rw [h2]
  exact mul_le_mul_of_nonneg_right h1 (exp_pos _).le

/-! ### `u ≤ a` -/

theorem case_left {a c u : ℝ} (H : Consts a c) (k : ℕ) (hk : 1 ≤ k) (hu : 0 < u) (hua : u ≤ a)
    (hlo : 2 * a * (k : ℝ) ≤ (2 * (k : ℝ) + 1) * u) :
    ((1 - exp (-u)) * exp (c / u)) ^ k ≤ 107 / 100 := by
  have ha : 0 < a := by linarith [H.a_lo]
  have hkR : (1 : ℝ) ≤ k := by exact_mod_cast hk
  have hr : 0 ≤ a - u := by linarith
  -- `(1 − y)² ≥ v²`
  have hs : (u - a) ^ 2 ≤ (1 - exp (-(u - a))) ^ 2 := by
    have h := add_one_le_exp (-(u - a))
    nlinarith
  have hA := factor_le_exp H hu hs
  refine pow_le_of_exp k (mul_nonneg (one_sub_exp_neg_nonneg hu) (exp_pos _).le) hA ?_
  -- `k·v²/u ≤ (a − u)/2`
  have h1 : (k : ℝ) * ((u - a) ^ 2 / u) ≤ (a - u) / 2 := by
    rw [← mul_div_assoc, div_le_iff₀ hu]
    nlinarith [mul_le_mul_of_nonneg_right hlo hr]
  have h1' : 0 ≤ (k : ℝ) * ((u - a) ^ 2 / u) := by positivity
  -- `u ≥ 2a/3`
  have h2 : 2 * a ≤ 3 * u := by nlinarith
  have h3 : (a - u) / 2 ≤ a / 6 := by linarith
  have h4 : 0 ≤ 1 - u := by linarith [H.a_hi]
  have h5 : 1 - u ≤ 1 - 2 * a / 3 := by linarith
  have h6 : (k : ℝ) * ((u - a) ^ 2 / u - (u - a) ^ 2)
      = ((k : ℝ) * ((u - a) ^ 2 / u)) * (1 - u) := by
    field_simp
  rw [h6]
  have h7 : ((k : ℝ) * ((u - a) ^ 2 / u)) * (1 - u) ≤ (a / 6) * (1 - 2 * a / 3) :=
    mul_le_mul (h1.trans h3) h5 h4 (by linarith)
  refine h7.trans ?_
  nlinarith [H.a_lo, H.a_hi]

/-! ### `u ≥ a` -/

/-- `1/(a+v) − 1/(1+v)² ≤ (1−a)/a` for every `v ≥ 0` -/
theorem bracket_le {a v : ℝ} (halo : 6931 / 10000 ≤ a) (hahi : a ≤ 6932 / 10000) (hv : 0 ≤ v) :
    1 / (a + v) - 1 / (1 + v) ^ 2 ≤ (1 - a) / a := by
  have ha : 0 < a := by linarith
  have hav : 0 < a + v := by linarith
  have h1v : 0 < (1 + v) ^ 2 := by positivity
  rw [div_sub_div _ _ hav.ne' h1v.ne', div_le_div_iff₀ (mul_pos hav h1v) ha]
  have c1 : 0 ≤ 1 - 2 * a ^ 2 := by nlinarith
  have c2 : 0 ≤ 2 - 2 * a - a ^ 2 := by nlinarith
  have c3 : 0 ≤ 1 - a := by linarith
  have t1 := mul_nonneg hv c1
  have t2 := mul_nonneg (sq_nonneg v) c2
  have t3 := mul_nonneg (pow_nonneg hv 3) c3
  nlinarith

/-- for `u ≥ a` the factor is at most `exp(v²(1−a)/a)` -/
theorem right_factor {a c u : ℝ} (H : Consts a c) (hau : a ≤ u) :
    (1 - exp (-u)) * exp (c / u) ≤ exp ((u - a) ^ 2 * ((1 - a) / a)) := by
  have ha : 0 < a := by linarith [H.a_lo]
  have hu : 0 < u := by linarith
  have hv : 0 ≤ u - a := by linarith
  have h1v : 0 < 1 + (u - a) := by linarith
  -- `1 − y ≥ v/(1+v)`
  have hy : exp (-(u - a)) ≤ 1 / (1 + (u - a)) := by
    rw [exp_neg, one_div]
    exact inv_anti₀ h1v (by linarith [add_one_le_exp (u - a)])
  have hq : 0 ≤ (u - a) / (1 + (u - a)) := div_nonneg hv h1v.le
  have hs : (u - a) ^ 2 / (1 + (u - a)) ^ 2 ≤ (1 - exp (-(u - a))) ^ 2 := by
    rw [← div_pow]
    apply pow_le_pow_left₀ hq
    have : (u - a) / (1 + (u - a)) = 1 - 1 / (1 + (u - a)) := by
      field_simp; ring
    rw [this]; linarith
  refine (factor_le_exp H hu hs).trans (exp_le_exp.mpr ?_)
  have hb := bracket_le H.a_lo H.a_hi hv
  rw [show a + (u - a) = u by ring] at hb
  have : (u - a) ^ 2 / u - (u - a) ^ 2 / (1 + (u - a)) ^ 2
      = (u - a) ^ 2 * (1 / u - 1 / (1 + (u - a)) ^ 2) := by ring
  rw [this]
  exact mul_le_mul_of_nonneg_left hb (sq_nonneg _)

theorem case_right_ge_two {a c u : ℝ} (H : Consts a c) (k : ℕ) (hk : 2 ≤ k) (hau : a ≤ u)
    (hhi : (2 * (k : ℝ) - 1) * u ≤ 2 * a * (k : ℝ)) :
    ((1 - exp (-u)) * exp (c / u)) ^ k ≤ 107 / 100 := by
  have ha : 0 < a := by linarith [H.a_lo]
  have hu : 0 < u := by linarith
  have hkR : (2 : ℝ) ≤ k := by exact_mod_cast hk
  have hv : 0 ≤ u - a := by linarith
  refine pow_le_of_exp k (mul_nonneg (one_sub_exp_neg_nonneg hu) (exp_pos _).le)
    (right_factor H hau) ?_
  -- `(2k−1)·v ≤ a`
  have h1 : (2 * (k : ℝ) - 1) * (u - a) ≤ a := by linarith
  have h2 : ((2 * (k : ℝ) - 1) * (u - a)) ^ 2 ≤ a ^ 2 :=
    pow_le_pow_left₀ (mul_nonneg (by linarith) hv) h1 2
  have h3 : 9 * (k : ℝ) ≤ 2 * (2 * (k : ℝ) - 1) ^ 2 := by nlinarith
  have h4 : 9 * ((k : ℝ) * (u - a) ^ 2) ≤ 2 * a ^ 2 := by
    have := mul_le_mul_of_nonneg_right h3 (sq_nonneg (u - a))
    nlinarith
  have h5 : 0 ≤ (1 - a) / a := div_nonneg (by linarith [H.a_hi]) ha.le
  have h6 : (k : ℝ) * ((u - a) ^ 2 * ((1 - a) / a)) ≤ (2 * a ^ 2 / 9) * ((1 - a) / a) := by
    rw [← mul_assoc]
    exact mul_le_mul_of_nonneg_right (by linarith) h5
  refine h6.trans ?_
  have : (2 * a ^ 2 / 9) * ((1 - a) / a) = 2 * (a * (1 - a)) / 9 := by
    field_simp
  rw [this]
  nlinarith [sq_nonneg (a - 1 / 2)]

theorem case_right_one_near {a c u : ℝ} (H : Consts a c) (hau : a ≤ u) (hu1 : u ≤ 1) :
    (1 - exp (-u)) * exp (c / u) ≤ 107 / 100 := by
  have ha : 0 < a := by linarith [H.a_lo]
  have hu : 0 < u := by linarith
  have hv : 0 ≤ u - a := by linarith
  have h := pow_le_of_exp 1 (mul_nonneg (one_sub_exp_neg_nonneg hu) (exp_pos _).le)
    (right_factor H hau) ?_
  · simpa using h
  have h1 : u - a ≤ 1 - a := by linarith
  have h2 : (u - a) ^ 2 ≤ (1 - a) ^ 2 := pow_le_pow_left₀ hv h1 2
  have h5 : 0 ≤ (1 - a) / a := div_nonneg (by linarith [H.a_hi]) ha.le
  have h6 : (u - a) ^ 2 * ((1 - a) / a) ≤ (1 - a) ^ 2 * ((1 - a) / a) :=
    mul_le_mul_of_nonneg_right h2 h5
  have h7 : (1 - a) ^ 2 * ((1 - a) / a) ≤ 1 / 16 := by
    rw [← mul_div_assoc, div_le_iff₀ ha]
    have e1 : 1 - a ≤ 3069 / 10000 := by linarith [H.a_lo]
    have e0 : 0 ≤ 1 - a := by linarith [H.a_hi]
    have e2 : (1 - a) ^ 2 ≤ (3069 / 10000) ^ 2 := pow_le_pow_left₀ e0 e1 2
    have e3 : (1 - a) ^ 2 * (1 - a) ≤ (3069 / 10000) ^ 2 * (3069 / 10000) :=
      mul_le_mul e2 e1 e0 (by positivity)
    nlinarith [H.a_lo]
  push_cast
  linarith

/-- `k = 1`, `1 ≤ u ≤ 2a`: the region containing the supremum `¾·√2` -/
theorem case_one_far {a c u : ℝ} (H : Consts a c) (hu1 : 1 ≤ u) (hu2 : u ≤ 2 * a) :
    (1 - exp (-u)) * exp (c / u) ≤ 107 / 100 := by
  have ha : 0 < a := by linarith [H.a_lo]
  have hu : 0 < u := by linarith
  have hd : 0 ≤ 2 * a - u := by linarith
  -- `e^{−a} ≥ ½`
  have hea : 1 / 2 ≤ exp (-a) := by
    rw [exp_neg]
    have hp := exp_pos a
    have hm := mul_inv_cancel₀ hp.ne'
    have hi : 0 < (exp a)⁻¹ := inv_pos.mpr hp
    nlinarith [H.exp_a]
  -- `e^{−u} ≥ ¼(1 + d + d²/2)`
  have h1 : exp (-u) = exp (-a) * exp (-a) * exp (2 * a - u) := by
    rw [← exp_add, ← exp_add]; congr 1; ring
  have hq := quadratic_le_exp_of_nonneg hd
  have h2 : (1 + (2 * a - u) + (2 * a - u) ^ 2 / 2) / 4 ≤ exp (-u) := by
    rw [h1]
    have : 1 / 4 ≤ exp (-a) * exp (-a) := by nlinarith
    have hpos : 0 ≤ 1 + (2 * a - u) + (2 * a - u) ^ 2 / 2 := by positivity
    nlinarith [mul_le_mul this hq hpos (by positivity)]
  -- `1 − e^{−u} ≤ ¾(1 − z)`, `z = a·d/(2u)`
  have h3 : 1 - exp (-u) ≤ 3 / 4 * (1 - a * (2 * a - u) / (2 * u)) := by
    have key : 3 / 4 * (a * (2 * a - u) / (2 * u))
        ≤ (2 * a - u) / 4 + (2 * a - u) ^ 2 / 8 := by
      rw [← mul_div_assoc, div_le_iff₀ (by linarith)]
      have hpoly : 3 * a ≤ (2 + (2 * a - u)) * u := by nlinarith [H.a_lo, H.a_hi]
      nlinarith [mul_le_mul_of_nonneg_left hpoly hd]
    linarith
  have h4 : 1 - exp (-u) ≤ 3 / 4 * exp (-(a * (2 * a - u) / (2 * u))) := by
    have := one_sub_le_exp_neg (a * (2 * a - u) / (2 * u))
    linarith
  -- `e^{c/u} ≤ e^{a/2}·e^{z}`
  have h5 : c / u ≤ a / 2 + a * (2 * a - u) / (2 * u) := by
    have : a / 2 + a * (2 * a - u) / (2 * u) = a ^ 2 / u := by
      field_simp; ring
    rw [this]
    exact div_le_div_of_nonneg_right H.c_le hu.le
  have h6 : exp (c / u) ≤ exp (a / 2) * exp (a * (2 * a - u) / (2 * u)) := by
    rw [← exp_add]; exact exp_le_exp.mpr h5
  -- `e^{a/2} ≤ 1.4143`
  have h7 : exp (a / 2) ≤ 14143 / 10000 := by
    have hsq : exp (a / 2) * exp (a / 2) = exp a := by
      rw [← exp_add]; congr 1; ring
    have hp := exp_pos (a / 2)
    by_contra hcon
    rw [not_le] at hcon
    nlinarith [H.exp_a]
  have hz : exp (-(a * (2 * a - u) / (2 * u))) * exp (a * (2 * a - u) / (2 * u)) = 1 := by
    rw [← exp_add]; simp
  calc (1 - exp (-u)) * exp (c / u)
      ≤ (3 / 4 * exp (-(a * (2 * a - u) / (2 * u)))) *
          (exp (a / 2) * exp (a * (2 * a - u) / (2 * u))) :=
        mul_le_mul h4 h6 (exp_pos _).le (by positivity)
    _ = 3 / 4 * exp (a / 2) *
          (exp (-(a * (2 * a - u) / (2 * u))) * exp (a * (2 * a - u) / (2 * u))) := by ring
    _ = 3 / 4 * exp (a / 2) := by rw [hz, mul_one]
    _ ≤ 107 / 100 := by linarith

/-! ### all cases together -/

/-- For every integer `k ≥ 1` and real `u` with `2ak/(2k+1) ≤ u ≤ 2ak/(2k−1)`:
    `((1 − e^{−u})·e^{c/u})^k ≤ 1.07`. -/
theorem core {a c u : ℝ} (H : Consts a c) (k : ℕ) (hk : 1 ≤ k) (hu : 0 < u)
    (hlo : 2 * a * (k : ℝ) ≤ (2 * (k : ℝ) + 1) * u)
    (hhi : (2 * (k : ℝ) - 1) * u ≤ 2 * a * (k : ℝ)) :
    ((1 - exp (-u)) * exp (c / u)) ^ k ≤ 107 / 100 := by
  rcases le_total u a with hua | hau
  · exact case_left H k hk hu hua hlo
  rcases Nat.lt_or_ge k 2 with hk2 | hk2
  · have hk1 : k = 1 := by omega
    subst hk1
    rw [pow_one]
    rcases le_total u 1 with hu1 | hu1
    · exact case_right_one_near H hau hu1
    · refine case_one_far H hu1 ?_
      push_cast at hhi
      linarith
  · exact case_right_ge_two H k hk2 hau hhi

/-- the code's two literals satisfy `Consts` -/
theorem consts_code :
    Consts (6243314768165359 / 9007199254740992) (8655072057804149 / 18014398509481984) where
  a_lo := by norm_num
  a_hi := by norm_num
  exp_a := by
    have h := exp_le_exp.mpr code_ln2_le_log_two_num
    rwa [exp_log (by norm_num)] at h
  c_le := by norm_num

/-- The rounding allowance (exactly the statement `PyProb.C07.C07_BloomRoundingAllowance`). -/
theorem bloom_rounding_allowance :
    ∀ (n m k : Nat) (t : ℝ), 1 ≤ n → 1 ≤ m → 1 ≤ k → 0 < t → t < 1 →
      -(n : ℝ) * Real.log t ≤ (m : ℝ) * (8655072057804149 / 18014398509481984) →
      |(k : ℝ) - (6243314768165359 / 9007199254740992) * (m : ℝ) / (n : ℝ)| ≤ 1 / 2 →
      (1 - Real.exp (-((k : ℝ) * (n : ℝ) / (m : ℝ)))) ^ k ≤ (107 / 100) * t := by
  intro n m k t hn hm hk ht0 _ hbits hhash
  have hnR : (0 : ℝ) < n := by exact_mod_cast hn
  have hmR : (0 : ℝ) < m := by exact_mod_cast hm
  have hkR : (0 : ℝ) < k := by exact_mod_cast hk
  obtain ⟨hh1, hh2⟩ := abs_le.mp hhash
  have hu : (0 : ℝ) < (k : ℝ) * (n : ℝ) / (m : ℝ) := by positivity
  -- the window for `u = k·n/m`
  have hx2 : (6243314768165359 / 9007199254740992) * (m : ℝ) ≤ ((k : ℝ) + 1 / 2) * n := by
    have : (6243314768165359 / 9007199254740992) * (m : ℝ) / (n : ℝ) ≤ (k : ℝ) + 1 / 2 := by
      linarith
    rwa [div_le_iff₀ hnR] at this
  have hx1 : ((k : ℝ) - 1 / 2) * n ≤ (6243314768165359 / 9007199254740992) * (m : ℝ) := by
    have : (k : ℝ) - 1 / 2 ≤ (6243314768165359 / 9007199254740992) * (m : ℝ) / (n : ℝ) := by
      linarith
    rwa [le_div_iff₀ hnR] at this
  have hlo : 2 * (6243314768165359 / 9007199254740992) * (k : ℝ)
      ≤ (2 * (k : ℝ) + 1) * ((k : ℝ) * (n : ℝ) / (m : ℝ)) := by
    rw [show (2 * (k : ℝ) + 1) * ((k : ℝ) * (n : ℝ) / (m : ℝ))
        = ((2 * (k : ℝ) + 1) * ((k : ℝ) * (n : ℝ))) / (m : ℝ) by ring, le_div_iff₀ hmR]
    nlinarith [mul_le_mul_of_nonneg_left hx2 hkR.le]
  have hhi : (2 * (k : ℝ) - 1) * ((k : ℝ) * (n : ℝ) / (m : ℝ))
      ≤ 2 * (6243314768165359 / 9007199254740992) * (k : ℝ) := by
    rw [show (2 * (k : ℝ) - 1) * ((k : ℝ) * (n : ℝ) / (m : ℝ))
        = ((2 * (k : ℝ) - 1) * ((k : ℝ) * (n : ℝ))) / (m : ℝ) by ring, div_le_iff₀ hmR]
    nlinarith [mul_le_mul_of_nonneg_left hx1 hkR.le]
  have hcore := core consts_code k hk hu hlo hhi
  -- `t ≥ exp(−k·(c/u))`
  have hkc : (k : ℝ) * ((8655072057804149 / 18014398509481984) / ((k : ℝ) * (n : ℝ) / (m : ℝ)))
      = (m : ℝ) * (8655072057804149 / 18014398509481984) / (n : ℝ) := by
    field_simp
  have ht : exp (-((k : ℝ) *
      ((8655072057804149 / 18014398509481984) / ((k : ℝ) * (n : ℝ) / (m : ℝ))))) ≤ t := by
    rw [← le_log_iff_exp_le ht0, hkc, neg_le, le_div_iff₀ hnR]
    linarith
  rw [mul_pow, ← exp_nat_mul] at hcore
  rw [exp_neg] at ht
  set E := exp ((k : ℝ) *
      ((8655072057804149 / 18014398509481984) / ((k : ℝ) * (n : ℝ) / (m : ℝ)))) with hE
  have hEpos : 0 < E := exp_pos _
  have hEi : E * E⁻¹ = 1 := mul_inv_cancel₀ hEpos.ne'
  have hP : 0 ≤ (1 - exp (-((k : ℝ) * (n : ℝ) / (m : ℝ)))) ^ k :=
    pow_nonneg (one_sub_exp_neg_nonneg hu) k
  have hEi0 : 0 < E⁻¹ := inv_pos.mpr hEpos
  calc (1 - exp (-((k : ℝ) * (n : ℝ) / (m : ℝ)))) ^ k
      = ((1 - exp (-((k : ℝ) * (n : ℝ) / (m : ℝ)))) ^ k * E) * E⁻¹ := by
        rw [mul_assoc, hEi, mul_one]
    _ ≤ (107 / 100) * E⁻¹ := mul_le_mul_of_nonneg_right hcore hEi0.le
    _ ≤ (107 / 100) * t := mul_le_mul_of_nonneg_left ht (by norm_num)

end PyProb.BloomAllowance
