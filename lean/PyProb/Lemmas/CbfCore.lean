/-
  Helper lemmas for the counting Bloom filter (`PyProb.CBF`): `minList`, the store loops of
  `add_alt` / `remove_alt` as a pointwise "bump" of the touched cells (with multiplicities), and
  the resulting closed forms of `addAlt` / `removeAlt` below the saturation limit.
-/
import PyProb.Lemmas.GuardCanon
import PyProb.Model.Bloom

namespace PyProb.Cbf
open PyProb CBF

/-! ### `minList` -/

theorem foldl_min_le_init (xs : List Int) (a : Int) : xs.foldl min a ≤ a := by
  induction xs generalizing a with
  | nil => simp
  | cons x xs ih =>
    simp only [List.foldl_cons]
    have := ih (min a x)
    omega

theorem foldl_min_le_mem (xs : List Int) (a : Int) : ∀ x ∈ xs, xs.foldl min a ≤ x := by
  induction xs generalizing a with
  | nil => simp
  | cons y xs ih =>
    intro x hx
    simp only [List.foldl_cons]
    rcases List.mem_cons.mp hx with rfl | hx
    · have := foldl_min_le_init xs (min a x); omega
    · exact ih _ x hx

theorem foldl_min_mem (xs : List Int) (a : Int) : xs.foldl min a = a ∨ xs.foldl min a ∈ xs := by
  induction xs generalizing a with
  | nil => simp
  | cons y xs ih =>
    simp only [List.foldl_cons, List.mem_cons]
    rcases ih (min a y) with h | h
    · rcases Int.le_total a y with h' | h'
      · left; rw [h]; omega
      · right; left; rw [h]; omega
    · right; right; exact h

theorem minList_le {l : List Int} {x : Int} (h : x ∈ l) : minList l ≤ x := by
  cases l with
  | nil => cases h
  | cons a xs =>
    simp only [minList]
    rcases List.mem_cons.mp h with rfl | h
    · exact foldl_min_le_init _ _
    · exact foldl_min_le_mem _ _ _ h

theorem minList_mem {l : List Int} (h : l ≠ []) : minList l ∈ l := by
  cases l with
  | nil => exact absurd rfl h
  | cons a xs =>
    simp only [minList, List.mem_cons]
    rcases foldl_min_mem xs a with h | h
    · left; exact h
    · right; exact h

theorem le_minList {l : List Int} (h : l ≠ []) (b : Int) (hb : ∀ x ∈ l, b ≤ x) : b ≤ minList l :=
  hb _ (minList_mem h)

theorem minList_map_add {ι} (l : List ι) (f : ι → Int) (n : Int) (h : l ≠ []) :
    minList (l.map fun i => f i + n) = minList (l.map f) + n := by
  have h1 : l.map (fun i => f i + n) ≠ [] := by simpa using h
  have h2 : l.map f ≠ [] := by simpa using h
  apply Int.le_antisymm
  · obtain ⟨i, hi, e⟩ := List.mem_map.mp (minList_mem h2)
    have : minList (l.map fun i => f i + n) ≤ f i + n :=
      minList_le (List.mem_map.mpr ⟨i, hi, rfl⟩)
    omega
  · obtain ⟨i, hi, e⟩ := List.mem_map.mp (minList_mem h1)
    have : minList (l.map f) ≤ f i := minList_le (List.mem_map.mpr ⟨i, hi, rfl⟩)
    omega

/-! ### lists: `getD` after `set` -/

theorem getD_set (l : List Int) (k j : Nat) (v : Int) :
    (l.set k v).getD j 0 = if k = j ∧ k < l.length then v else l.getD j 0 := by
  simp only [List.getD_eq_getElem?_getD, List.getElem?_set]
  by_cases h : k = j
  · subst h
    by_cases h' : k < l.length
    · simp [h']
    · simp [h']
  · simp [h]

theorem getD_eq_getElem (l : List Int) {j : Nat} (h : j < l.length) : l.getD j 0 = l[j] := by
  rw [List.getD_eq_getElem?_getD, List.getElem?_eq_getElem h]; rfl

theorem getD_nonneg_of_mem {l : List Int} (h : ∀ x ∈ l, 0 ≤ x) (j : Nat) : 0 ≤ l.getD j 0 := by
  rw [List.getD_eq_getElem?_getD]
  cases e : l[j]? with
  | none => simp
  | some x => simpa using h x (List.mem_of_getElem? e)

theorem mem_iff_getD {l : List Int} {P : Int → Prop} (h : ∀ j, j < l.length → P (l.getD j 0)) :
    ∀ x ∈ l, P x := by
  intro x hx
  obtain ⟨j, hj, rfl⟩ := List.getElem_of_mem hx
  have := h j hj
  simpa [List.getD_eq_getElem?_getD, hj] using this

/-! ### `bump`: add `n` to a cell once per occurrence of its index -/

def bump (n : Int) (cells : List Int) (idx : List Nat) : List Int :=
  idx.foldl (fun cs j => cs.set j (cs.getD j 0 + n)) cells

@[simp] theorem bump_nil (n : Int) (cells : List Int) : bump n cells [] = cells := rfl

theorem bump_cons (n : Int) (cells : List Int) (k : Nat) (rest : List Nat) :
    bump n cells (k :: rest) = bump n (cells.set k (cells.getD k 0 + n)) rest := rfl

@[simp] theorem bump_length (n : Int) (cells : List Int) (idx : List Nat) :
    (bump n cells idx).length = cells.length := by
  induction idx generalizing cells with
  | nil => rfl
  | cons k rest ih => rw [bump_cons, ih, List.length_set]

theorem getD_bump (n : Int) (cells : List Int) (idx : List Nat) (j : Nat) (hj : j < cells.length) :
    (bump n cells idx).getD j 0 = cells.getD j 0 + (idx.count j : Int) * n := by
  induction idx generalizing cells with
  | nil => simp
  | cons k rest ih =>
    rw [bump_cons, ih _ (by simpa using hj), getD_set, List.count_cons]
    by_cases h : k = j
    · subst h
      simp only [hj, and_self, if_true, beq_self_eq_true]
      rw [Int.natCast_add, Int.add_mul]
      omega
    · have : (k == j) = false := by simpa using h
      simp [h, this]

theorem getD_bump_all (n : Int) (cells : List Int) (idx : List Nat) (hin : ∀ k ∈ idx, k < cells.length)
    (j : Nat) : (bump n cells idx).getD j 0 = cells.getD j 0 + (idx.count j : Int) * n := by
  by_cases hj : j < cells.length
  · exact getD_bump n cells idx j hj
  · have h0 : idx.count j = 0 := List.count_eq_zero.mpr fun h => hj (hin j h)
    have h1 : (bump n cells idx).getD j 0 = 0 := by
      rw [List.getD_eq_getElem?_getD, List.getElem?_eq_none (by simp; omega)]; rfl
    have h2 : cells.getD j 0 = 0 := by
      rw [List.getD_eq_getElem?_getD, List.getElem?_eq_none (by omega)]; rfl
    rw [h0, h1, h2]; simp

/-- bumping by `n` and then by `-n` over the same index list restores the cells -/
theorem bump_bump_neg (n : Int) (cells : List Int) (idx : List Nat) :
    bump (-n) (bump n cells idx) idx = cells := by
  apply List.ext_getElem
  · simp
  · intro j h1 h2
    have e := getD_bump (-n) (bump n cells idx) idx j (by simpa using h2)
    rw [getD_bump n cells idx j h2] at e
    have e1 : (bump (-n) (bump n cells idx) idx).getD j 0 = (bump (-n) (bump n cells idx) idx)[j] :=
      getD_eq_getElem _ h1
    have e2 : cells.getD j 0 = cells[j] := getD_eq_getElem _ h2
    rw [e1, e2, Int.mul_neg] at e
    omega

/-! ### the store loops -/

theorem clamp_false (v : Int) (h : v ≤ Gen.uint32Max) :
    Gen.cbfAddClampCmp.evalInt v Gen.uint32Max = false := by
  simp [Gen.cbfAddClampCmp, Cmp.evalInt]; omega

/-- below the limit, the store loop of `add_alt` adds `n` once per occurrence and returns the
    precomputed values -/
theorem addLoop_unsat (n : Int) (hn : 0 ≤ n) (ps : List (Nat × Int)) :
    ∀ (cells acc : List Int),
      (∀ p ∈ ps, p.2 ≤ Gen.uint32Max) →
      (∀ j, 0 ≤ cells.getD j 0) →
      (∀ j, cells.getD j 0 + ((ps.map (·.1)).count j : Int) * n ≤ Gen.uint32Max) →
      addLoop n cells ps acc = (bump n cells (ps.map (·.1)), acc.reverse ++ ps.map (·.2), none) := by
  induction ps with
  | nil => intro cells acc _ _ _; simp [addLoop]
  | cons p rest ih =>
    intro cells acc hv h0 hu
    obtain ⟨k, v⟩ := p
    have hvk : v ≤ Gen.uint32Max := hv (k, v) (by simp)
    have huk := hu k
    simp only [List.map_cons, List.count_cons, beq_self_eq_true, if_true] at huk
    rw [Int.natCast_add, Int.add_mul] at huk
    have hc : 0 ≤ (((rest.map (·.1)).count k : Nat) : Int) * n :=
      Int.mul_nonneg (Int.natCast_nonneg _) hn
    have h0k := h0 k
    have hle : cells.getD k 0 + n ≤ Gen.uint32Max := by omega
    have hnot : ¬ cells.getD k 0 + n > Gen.uint32Max := by omega
    have hneg : ¬ cells.getD k 0 + n < 0 := by omega
    simp only [addLoop, clamp_false v hvk, Bool.false_eq_true, if_false, hnot, hneg]
    rw [ih]
    · simp [bump_cons]
    · intro p hp; exact hv p (List.mem_cons_of_mem _ hp)
    · intro j; rw [getD_set]; split
      · omega
      · exact h0 j
    · intro j
      have huj := hu j
      simp only [List.map_cons, List.count_cons] at huj
      rw [getD_set]
      by_cases h : k = j
      · subst h
        simp only [beq_self_eq_true, if_true] at huj
        rw [Int.natCast_add, Int.add_mul] at huj
        split <;> omega
      · have : (k == j) = false := by simpa using h
        simp only [this, Bool.false_eq_true, if_false, Nat.add_zero] at huj
        simp only [h, false_and, if_false]
        exact huj

/-- when every touched cell is below the limit and holds at least `r` per occurrence, the
    decrement loop of `remove_alt` subtracts `r` once per occurrence -/
theorem removeLoop_ok (r : Int) (hr : 0 ≤ r) (idx : List Nat) :
    ∀ (cells : List Int),
      (∀ k ∈ idx, k < cells.length) →
      (∀ j, cells.getD j 0 < Gen.uint32Max) →
      (∀ j, (idx.count j : Int) * r ≤ cells.getD j 0) →
      removeLoop r cells idx = (bump (-r) cells idx, none) := by
  induction idx with
  | nil => intro cells _ _ _; simp [removeLoop]
  | cons k rest ih =>
    intro cells hin hlt hge
    have hk : k < cells.length := hin k (by simp)
    have hgk := hge k
    simp only [List.count_cons, beq_self_eq_true, if_true] at hgk
    rw [Int.natCast_add, Int.add_mul] at hgk
    have hc : 0 ≤ ((rest.count k : Nat) : Int) * r := Int.mul_nonneg (Int.natCast_nonneg _) hr
    have hneg : ¬ cells.getD k 0 - r < 0 := by omega
    simp only [removeLoop, hlt k, if_true, hneg, if_false]
    rw [ih]
    · simp [bump_cons, Int.sub_eq_add_neg]
    · intro k' hk'; rw [List.length_set]; exact hin k' (List.mem_cons_of_mem _ hk')
    · intro j; rw [getD_set]; split
      · have := hlt k; omega
      · exact hlt j
    · intro j
      have hgj := hge j
      simp only [List.count_cons] at hgj
      rw [getD_set]
      by_cases h : k = j
      · subst h
        simp only [beq_self_eq_true, if_true] at hgj
        rw [Int.natCast_add, Int.add_mul] at hgj
        simp only [hk, and_self, if_true]
        omega
      · have : (k == j) = false := by simpa using h
        simp only [this, Bool.false_eq_true, if_false, Nat.add_zero] at hgj
        simp only [h, false_and, if_false]
        exact hgj

/-! ### closed forms of `addAlt` / `removeAlt` -/

/-- the `k` positions of a hash list (with repetitions) -/
def pos (c : CBF) (hs : List Nat) : List Nat := (hs.take c.k).map (· % c.cells.length)

theorem indices_ok (c : CBF) (hs : List Nat) (hl : c.k ≤ hs.length) : c.indices hs = .ok (pos c hs) := by
  simp [indices, pos, Nat.not_lt.mpr hl]

theorem indices_short (c : CBF) (hs : List Nat) (hl : hs.length < c.k) :
    c.indices hs = .error .indexError := by
  simp [indices, hl]

theorem pos_lt (c : CBF) (hs : List Nat) (hm : 0 < c.cells.length) : ∀ j ∈ pos c hs, j < c.cells.length := by
  intro j hj
  obtain ⟨h, _, rfl⟩ := List.mem_map.mp hj
  exact Nat.mod_lt _ hm

theorem pos_ne_nil (c : CBF) (hs : List Nat) (hk : 0 < c.k) (hl : c.k ≤ hs.length) : pos c hs ≠ [] := by
  intro h
  have : (pos c hs).length = c.k := by simp [pos]; omega
  rw [h] at this; simp at this; omega

theorem zip_map_self_cc {α β} (l : List α) (f : α → β) : l.zip (l.map f) = l.map fun a => (a, f a) := by
  induction l with
  | nil => rfl
  | cons a l ih => simp [ih]

theorem le_count_mul {j : Nat} {l : List Nat} (h : j ∈ l) {n : Int} (hn : 0 ≤ n) :
    n ≤ (l.count j : Int) * n := by
  have h1 : (1 : Int) ≤ (l.count j : Int) := by
    have := List.count_pos_iff.mpr h; omega
  have := Int.mul_le_mul_of_nonneg_right h1 hn
  omega

theorem addAlt_unsat (c : CBF) (hs : List Nat) (n : Int) (hl : c.k ≤ hs.length) (hn : 0 ≤ n)
    (h0 : ∀ x ∈ c.cells, 0 ≤ x)
    (hu : ∀ j, c.cells.getD j 0 + ((pos c hs).count j : Int) * n ≤ Gen.uint32Max) :
    c.addAlt hs n =
      ({ c with cells := bump n c.cells (pos c hs), count := min (c.count + n) Gen.uint64Max },
       .ok (minList ((pos c hs).map fun j => c.cells.getD j 0 + n))) := by
  unfold addAlt
  rw [indices_ok c hs hl]
  simp only [zip_map_self_cc]
  rw [addLoop_unsat n hn]
  · simp [List.map_map, Function.comp_def]
  · intro p hp
    obtain ⟨j, hj, rfl⟩ := List.mem_map.mp hp
    have := hu j
    have := le_count_mul hj hn
    simp only; omega
  · exact getD_nonneg_of_mem h0
  · simpa [List.map_map, Function.comp_def] using hu

theorem removeAlt_ok (c : CBF) (hs : List Nat) (n r : Int) (hl : c.k ≤ hs.length)
    (hm : 0 < c.cells.length) (hne : pos c hs ≠ [])
    (hlt : ∀ j, c.cells.getD j 0 < Gen.uint32Max)
    (hmn0 : minList ((pos c hs).map fun k => c.cells.getD k 0) ≠ 0)
    (hr : r = if minList ((pos c hs).map fun k => c.cells.getD k 0) > n then n
              else minList ((pos c hs).map fun k => c.cells.getD k 0))
    (hr0 : 0 ≤ r)
    (hge : ∀ j, ((pos c hs).count j : Int) * r ≤ c.cells.getD j 0) :
    c.removeAlt hs n =
      ({ c with cells := bump (-r) c.cells (pos c hs), count := c.count - r },
       .ok (minList ((pos c hs).map fun k => c.cells.getD k 0) - r)) := by
  unfold removeAlt
  rw [indices_ok c hs hl]
  have hmax : minList ((pos c hs).map fun k => c.cells.getD k 0) ≠ Gen.uint32Max := by
    have hne' : (pos c hs).map (fun k => c.cells.getD k 0) ≠ [] := by simpa using hne
    obtain ⟨j, _, e⟩ := List.mem_map.mp (minList_mem hne')
    have := hlt j
    omega
  simp only [beq_iff_eq, hmax, hmn0, if_false, ← hr]
  rw [removeLoop_ok r hr0 _ _ (pos_lt c hs hm) hlt hge]

/-! ### sums over a duplicate-free key list -/

theorem sum_nonneg {l : List Int} (h : ∀ x ∈ l, 0 ≤ x) : 0 ≤ l.sum := by
  induction l with
  | nil => simp
  | cons a l ih =>
    have := h a (by simp)
    have := ih fun x hx => h x (List.mem_cons_of_mem _ hx)
    simp only [List.sum_cons]; omega

theorem term_le_sum {κ} (K : List κ) (F : κ → Int) (h : ∀ x ∈ K, 0 ≤ F x) {key : κ} (hk : key ∈ K) :
    F key ≤ (K.map F).sum := by
  induction K with
  | nil => cases hk
  | cons a K ih =>
    have h1 : 0 ≤ (K.map F).sum := sum_nonneg (by
      intro x hx; obtain ⟨y, hy, rfl⟩ := List.mem_map.mp hx; exact h y (List.mem_cons_of_mem _ hy))
    have ha := h a (by simp)
    simp only [List.map_cons, List.sum_cons]
    rcases List.mem_cons.mp hk with rfl | hk
    · omega
    · have := ih (fun x hx => h x (List.mem_cons_of_mem _ hx)) hk; omega

theorem sum_map_add_single {κ} [DecidableEq κ] (K : List κ) (F : κ → Int) (key : κ) (b : Int)
    (hn : K.Nodup) (hk : key ∈ K) :
    (K.map fun x => F x + if x = key then b else 0).sum = (K.map F).sum + b := by
  induction K with
  | nil => cases hk
  | cons a K ih =>
    have hn' := List.nodup_cons.mp hn
    simp only [List.map_cons, List.sum_cons]
    by_cases h : a = key
    · subst h
      have : (K.map fun x => F x + if x = a then b else 0) = K.map F := by
        apply List.map_congr_left
        intro x hx
        have : x ≠ a := fun e => hn'.1 (e ▸ hx)
        simp [this]
      rw [this]; simp; omega
    · have hk' : key ∈ K := by
        rcases List.mem_cons.mp hk with e | e
        · exact absurd e.symm h
        · exact e
      rw [ih hn'.2 hk']; simp [h]; omega

/-- duplicate-free list of the elements of a list -/
def dedup {κ} [DecidableEq κ] : List κ → List κ
  | [] => []
  | a :: l => if a ∈ dedup l then dedup l else a :: dedup l

theorem mem_dedup {κ} [DecidableEq κ] (l : List κ) (x : κ) : x ∈ dedup l ↔ x ∈ l := by
  induction l with
  | nil => simp [dedup]
  | cons a l ih =>
    simp only [dedup]
    split
    · next h => rw [ih, List.mem_cons]; constructor
                · exact Or.inr
                · rintro (rfl | h')
                  · exact ih.mp h
                  · exact h'
    · simp [ih]

theorem nodup_dedup {κ} [DecidableEq κ] (l : List κ) : (dedup l).Nodup := by
  induction l with
  | nil => simp [dedup]
  | cons a l ih =>
    simp only [dedup]
    split
    · exact ih
    · next h => exact List.nodup_cons.mpr ⟨h, ih⟩

/-- induction over the prefixes of a list -/
theorem prefix_induction_all {α} (P : List α → Prop) (ops : List α) (h0 : P [])
    (hs : ∀ i (hi : i < ops.length), P (ops.take i) → P (ops.take i ++ [ops[i]])) :
    ∀ i, i ≤ ops.length → P (ops.take i) := by
  intro i
  induction i with
  | zero => intro _; simpa using h0
  | succ i ih =>
    intro hi
    rw [List.take_succ_eq_append_getElem (by omega)]
    exact hs i (by omega) (ih (by omega))

theorem prefix_induction {α} (P : List α → Prop) (ops : List α) (h0 : P [])
    (hs : ∀ i (hi : i < ops.length), P (ops.take i) → P (ops.take i ++ [ops[i]])) : P ops := by
  simpa using prefix_induction_all P ops h0 hs ops.length (Nat.le_refl _)

end PyProb.Cbf
