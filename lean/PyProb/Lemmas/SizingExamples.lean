/-
  Numeric evaluations of the real-number sizing formulas at a few concrete inputs, and a sample
  narrowing function; used only by the non-vacuity examples of Properties/C07.lean.
-/
import PyProb.Lemmas.RealInst
import PyProb.Lemmas.Log2Bound

namespace PyProb

/-- confidence 95 % gives depth 5 (`ln 20 / 0.693… ≈ 4.32`) -/
theorem cmsDepth_95 : cmsDepth (α := ℝ) (95 / 100) = 5 := by
  rw [show cmsDepth (α := ℝ) (95 / 100) = _ from cmsDepth_real id _, Int.ceil_eq_iff]
  have hl : -Real.log (1 - 95 / 100) = Real.log 20 := by
    rw [show (1 - 95 / 100 : ℝ) = 20⁻¹ by norm_num, Real.log_inv, neg_neg]
  rw [hl]
  have h16 : Real.log 16 = 4 * Real.log 2 := by
    rw [show (16 : ℝ) = 2 ^ 4 by norm_num, Real.log_pow]; norm_num
  have hlo : Real.log 16 < Real.log 20 := Real.log_lt_log (by norm_num) (by norm_num)
  have hhi := log_twenty_le_346
  have h1 := c2_le_log_two
  rw [c2_eq] at h1 ⊢
  constructor
  · rw [lt_div_iff₀ (by norm_num)]; push_cast; linarith
  · rw [div_le_iff₀ (by norm_num)]; push_cast; linarith

theorem bloomBits_1_half : bloomBits (α := ℝ) 1 (1 / 2) = 2 := by
  rw [show bloomBits (α := ℝ) 1 (1 / 2) = _ from bloomBits_real id _ _, Int.ceil_eq_iff]
  have hl : Real.log (1 / 2) = -Real.log 2 := by rw [one_div, Real.log_inv]
  rw [hl]
  have h1 := c2_le_log_two
  have h2 := log_two_le_096
  rw [c2_eq] at h1
  rw [c1_eq]
  constructor
  · rw [lt_div_iff₀ (by norm_num)]; push_cast; linarith
  · rw [div_le_iff₀ (by norm_num)]; push_cast; linarith

theorem bloomHashes_1_2 : bloomHashes (α := ℝ) 1 2 = 1 := by
  rw [show bloomHashes (α := ℝ) 1 2 = _ from bloomHashes_real id _ _]
  apply roundHalfEven_eq_of_lt_half <;> rw [c2_eq] <;> norm_num

/-- a non-trivial narrowing for the stability examples: round up to a multiple of ½ -/
noncomputable def upHalf (x : ℝ) : ℝ := (⌈x * 2⌉ : ℝ) / 2

theorem upHalf_idem (x : ℝ) : upHalf (upHalf x) = upHalf x := by
  unfold upHalf
  rw [div_mul_cancel₀ _ (by norm_num : (2 : ℝ) ≠ 0), Int.ceil_intCast]

theorem upHalf_monotone : Monotone upHalf := by
  intro a b hab
  unfold upHalf
  have : ⌈a * 2⌉ ≤ ⌈b * 2⌉ := Int.ceil_mono (by linarith)
  have : (⌈a * 2⌉ : ℝ) ≤ ⌈b * 2⌉ := by exact_mod_cast this
  linarith

theorem upHalf_one : upHalf 1 = 1 := by
  unfold upHalf
  rw [show (1 : ℝ) * 2 = ((2 : Int) : ℝ) by norm_num, Int.ceil_intCast]; norm_num

theorem upHalf_three_tenths : upHalf (3 / 10) = 1 / 2 := by
  unfold upHalf
  rw [show ⌈(3 / 10 : ℝ) * 2⌉ = 1 by rw [Int.ceil_eq_iff]; norm_num]; norm_num

end PyProb
