/-
  Lemmas on the count-min sketch model (`Model/CMS.lean`): without clamping `add_alt(hs, n)` adds
  `n` to every bin addressed by `hs` and to the total; histories; `join`.  Used by C12 and C13.
-/
import PyProb.Model.CMS
import PyProb.Lemmas.CbfOps

namespace PyProb

/-- `binIdx` depends on the width only -/
def cmsIdx (w : Nat) (hs : List Nat) : List Nat :=
  (List.range hs.length).zipWith (fun i v => v % w + i * w) hs

theorem CMS.binIdx_eq (c : CMS) (hs : List Nat) : c.binIdx hs = cmsIdx c.w hs := rfl

/-- every bin index of a hash list of length `d` lies inside `w * d` bins -/
theorem cmsIdx_lt (w : Nat) (hs : List Nat) (hw : 0 < w) : ∀ x ∈ cmsIdx w hs, x < w * hs.length := by
  intro x hx
  obtain ⟨i, hi, rfl⟩ := List.mem_iff_getElem.1 hx
  have hi' : i < hs.length := by simpa [cmsIdx] using hi
  simp only [cmsIdx, List.getElem_zipWith, List.getElem_range]
  have h1 : hs[i] % w < w := Nat.mod_lt _ hw
  have h2 : (i + 1) * w ≤ hs.length * w := Nat.mul_le_mul_right w hi'
  rw [Nat.mul_comm w hs.length]
  rw [Nat.add_mul] at h2
  omega

/-- what one `add_alt(hs, n)` adds to bin `j` -/
def cmsHit (idx : List Nat) (n : Int) (j : Nat) : Int := if j ∈ idx then n else 0

theorem foldl_set_length (ps : List (Nat × Int)) (bins : List Int) :
    (ps.foldl (fun b p => b.set p.1 p.2) bins).length = bins.length := by
  induction ps generalizing bins with
  | nil => rfl
  | cons p ps ih => rw [List.foldl_cons, ih]; simp

theorem foldl_set_getD (f : Nat → Int) (idx : List Nat) (bins : List Int) (h : ∀ i ∈ idx, i < bins.length)
    (j : Nat) :
    ((idx.map fun i => (i, f i)).foldl (fun b p => b.set p.1 p.2) bins).getD j 0
      = if j ∈ idx then f j else bins.getD j 0 := by
  induction idx generalizing bins with
  | nil => simp
  | cons i is ih =>
      have hi : i < bins.length := h i (by simp)
      rw [List.map_cons, List.foldl_cons, ih _ (fun x hx => by simpa using h x (by simp [hx]))]
      by_cases hj : j ∈ is
      · simp [hj]
      · simp only [hj, if_false, List.mem_cons, or_false]
        rw [getD_set_int _ _ _ _ hi]
        by_cases e : i = j
        · subst e; simp
        · have : ¬ j = i := fun x => e x.symm
          simp [e, this]

/-- when no stored value leaves the int32 range the store loop is a plain sequence of stores -/
theorem CMS.addLoop_unclamped (ps : List (Nat × Int)) (bins acc : List Int)
    (h : ∀ p ∈ ps, Gen.int32Min ≤ p.2 ∧ p.2 ≤ Gen.int32Max) :
    ∃ vals, CMS.addLoop bins ps acc = (ps.foldl (fun b p => b.set p.1 p.2) bins, vals, none) := by
  induction ps generalizing bins acc with
  | nil => exact ⟨acc.reverse, rfl⟩
  | cons p ps ih =>
      obtain ⟨k, v⟩ := p
      have hv := h (k, v) (by simp)
      have h1 : Gen.cmsAddClampCmp.evalInt v Gen.int32Max = false := by
        simp only [Gen.cmsAddClampCmp, Cmp.evalInt, decide_eq_false_iff_not]; omega
      have h2 : ¬ v < (-2147483648 : Int) := by
        have := hv.1; simp only [Gen.int32Min] at this; omega
      obtain ⟨vals, hvals⟩ := ih (bins.set k v) (v :: acc) (fun q hq => h q (by simp [hq]))
      refine ⟨vals, ?_⟩
      rw [CMS.addLoop]
      simp only [h1, Bool.false_eq_true, if_false, if_neg h2]
      rw [hvals]; rfl

/-- `add_alt` when neither a bin nor the total is clamped -/
theorem CMS.addAlt_unclamped (c : CMS) (hs : List Nat) (n : Int)
    (hidx : ∀ i ∈ c.binIdx hs, i < c.bins.length)
    (hb : ∀ i ∈ c.binIdx hs, Gen.int32Min ≤ c.bins.getD i 0 + n ∧ c.bins.getD i 0 + n ≤ Gen.int32Max)
    (ht : c.total + n ≤ Gen.int64Max) :
    (c.addAlt hs n).1.w = c.w ∧ (c.addAlt hs n).1.d = c.d ∧ (c.addAlt hs n).1.mode = c.mode ∧
    (c.addAlt hs n).1.total = c.total + n ∧ (c.addAlt hs n).1.bins.length = c.bins.length ∧
    ∀ j, (c.addAlt hs n).1.bins.getD j 0 = c.bins.getD j 0 + cmsHit (c.binIdx hs) n j := by
  have hany : (c.binIdx hs).any (· ≥ c.bins.length) = false := by
    rw [List.any_eq_false]
    intro x hx; have := hidx x hx; simp; omega
  have hz : (c.binIdx hs).zip ((c.binIdx hs).map fun x => c.bins.getD x 0 + n)
      = (c.binIdx hs).map fun x => (x, c.bins.getD x 0 + n) := zip_map_self _ _
  obtain ⟨vals, hvals⟩ := CMS.addLoop_unclamped
    ((c.binIdx hs).map fun x => (x, c.bins.getD x 0 + n)) c.bins [] (by
      intro p hp
      obtain ⟨i, hi, rfl⟩ := List.mem_map.1 hp
      exact hb i hi)
  have htot : Gen.cmsTotalMaxCmp.evalInt (c.total + n) Gen.int64Max = false := by
    simp only [Gen.cmsTotalMaxCmp, Cmp.evalInt, decide_eq_false_iff_not]; omega
  unfold CMS.addAlt
  simp only [hany, Bool.false_eq_true, if_false, hz, hvals, htot, true_and]
  refine ⟨foldl_set_length _ _, fun j => ?_⟩
  rw [foldl_set_getD (fun x => c.bins.getD x 0 + n) _ _ hidx]
  unfold cmsHit
  split <;> simp

/-! ### histories -/

def CMS.runAdds (c : CMS) (xs : List (List Nat × Int)) : CMS :=
  xs.foldl (fun c p => (c.addAlt p.1 p.2).1) c

/-- the exact count a history contributes to bin `j` -/
def cmsTot (w j : Nat) : List (List Nat × Int) → Int
  | [] => 0
  | p :: xs => cmsHit (cmsIdx w p.1) p.2 j + cmsTot w j xs

/-- the sum of all amounts of a history -/
def cmsAmt : List (List Nat × Int) → Int
  | [] => 0
  | p :: xs => p.2 + cmsAmt xs

theorem cmsTot_append (w j : Nat) (xs ys : List (List Nat × Int)) :
    cmsTot w j (xs ++ ys) = cmsTot w j xs + cmsTot w j ys := by
  induction xs with
  | nil => simp [cmsTot]
  | cons p xs ih => simp only [List.cons_append, cmsTot, ih]; omega

theorem cmsAmt_append (xs ys : List (List Nat × Int)) : cmsAmt (xs ++ ys) = cmsAmt xs + cmsAmt ys := by
  induction xs with
  | nil => simp [cmsAmt]
  | cons p xs ih => simp only [List.cons_append, cmsAmt, ih]; omega

theorem cmsHit_bounds (idx : List Nat) (n : Int) (j : Nat) (hn : 0 ≤ n) : 0 ≤ cmsHit idx n j ∧ cmsHit idx n j ≤ n := by
  unfold cmsHit; split <;> omega

theorem cmsTot_bounds (w j : Nat) (xs : List (List Nat × Int)) (hn : ∀ p ∈ xs, 0 ≤ p.2) :
    0 ≤ cmsTot w j xs ∧ cmsTot w j xs ≤ cmsAmt xs := by
  induction xs with
  | nil => simp [cmsTot, cmsAmt]
  | cons p xs ih =>
      have := ih (fun q hq => hn q (by simp [hq]))
      have h2 := cmsHit_bounds (cmsIdx w p.1) p.2 j (hn p (by simp))
      simp only [cmsTot, cmsAmt]; omega

theorem cmsAmt_nonneg (xs : List (List Nat × Int)) (hn : ∀ p ∈ xs, 0 ≤ p.2) : 0 ≤ cmsAmt xs := by
  induction xs with
  | nil => simp [cmsAmt]
  | cons p xs ih =>
      have := ih (fun q hq => hn q (by simp [hq]))
      have := hn p (by simp)
      simp only [cmsAmt]; omega

theorem cmsTot_eq_zero (w d j : Nat) (xs : List (List Nat × Int)) (hw : 0 < w)
    (hl : ∀ p ∈ xs, p.1.length = d) (hj : w * d ≤ j) : cmsTot w j xs = 0 := by
  induction xs with
  | nil => rfl
  | cons p xs ih =>
      have h1 : cmsHit (cmsIdx w p.1) p.2 j = 0 := by
        unfold cmsHit
        rw [if_neg]
        intro h
        have := cmsIdx_lt w p.1 hw j h
        rw [hl p (by simp)] at this
        omega
      simp only [cmsTot, h1, ih (fun q hq => hl q (by simp [hq]))]; rfl

theorem CMS.runAdds_unclamped (xs : List (List Nat × Int)) (c : CMS) (hw : 0 < c.w)
    (hlen : c.bins.length = c.w * c.d) (hl : ∀ p ∈ xs, p.1.length = c.d) (hn : ∀ p ∈ xs, 0 ≤ p.2)
    (hc : ∀ j, 0 ≤ c.bins.getD j 0 ∧ c.bins.getD j 0 + cmsTot c.w j xs ≤ Gen.int32Max)
    (ht : c.total + cmsAmt xs ≤ Gen.int64Max) :
    (c.runAdds xs).w = c.w ∧ (c.runAdds xs).d = c.d ∧ (c.runAdds xs).mode = c.mode ∧
    (c.runAdds xs).total = c.total + cmsAmt xs ∧ (c.runAdds xs).bins.length = c.bins.length ∧
    ∀ j, (c.runAdds xs).bins.getD j 0 = c.bins.getD j 0 + cmsTot c.w j xs := by
  induction xs generalizing c with
  | nil => exact ⟨rfl, rfl, rfl, by simp [CMS.runAdds, cmsAmt], rfl, fun j => by simp [CMS.runAdds, cmsTot]⟩
  | cons p xs ih =>
      have hn' : ∀ q ∈ xs, 0 ≤ q.2 := fun q hq => hn q (by simp [hq])
      have hl' : ∀ q ∈ xs, q.1.length = c.d := fun q hq => hl q (by simp [hq])
      have hp : 0 ≤ p.2 := hn p (by simp)
      have hpl : p.1.length = c.d := hl p (by simp)
      have hrun : c.runAdds (p :: xs) = (c.addAlt p.1 p.2).1.runAdds xs := rfl
      have hamt := cmsAmt_nonneg xs hn'
      have hidx : ∀ i ∈ c.binIdx p.1, i < c.bins.length := by
        intro i hi
        rw [CMS.binIdx_eq] at hi
        have := cmsIdx_lt c.w p.1 hw i hi
        rw [hlen, ← hpl]; exact this
      obtain ⟨e1, e2, e3, e4, e5, e6⟩ := CMS.addAlt_unclamped c p.1 p.2 hidx
        (fun i hi => by
          have := hc i
          have h2 := cmsTot_bounds c.w i xs hn'
          simp only [cmsTot, cmsHit] at this
          rw [CMS.binIdx_eq] at hi
          rw [if_pos hi] at this
          simp only [Gen.int32Min, Gen.int32Max] at *
          omega)
        (by simp only [cmsAmt] at ht; omega)
      rw [hrun]
      obtain ⟨r1, r2, r3, r4, r5, r6⟩ := ih (c.addAlt p.1 p.2).1 (by rw [e1]; exact hw)
        (by rw [e5, e1, e2]; exact hlen) (by rw [e2]; exact hl') hn'
        (fun j => by
          have := hc j
          have h2 := cmsHit_bounds (c.binIdx p.1) p.2 j hp
          rw [e6, e1]
          simp only [cmsTot] at this
          rw [← CMS.binIdx_eq] at this
          omega)
        (by rw [e4]; simp only [cmsAmt] at ht; omega)
      refine ⟨by rw [r1, e1], by rw [r2, e2], by rw [r3, e3], ?_, by rw [r5, e5], fun j => ?_⟩
      · rw [r4, e4]; simp only [cmsAmt]; omega
      · rw [r6, e6, e1]; simp only [cmsTot]; rw [← CMS.binIdx_eq]; omega

end PyProb
