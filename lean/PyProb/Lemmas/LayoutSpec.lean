/-
  Bridges between the model's codecs (`Model/Base.lean`, `Model/Bitarray.lean`) and the
  independently written layout specification (`Spec/Layout.lean`).

  The lemmas live in one module per data-structure family (plus a family-independent one); this
  module only gathers them.
-/
import PyProb.Lemmas.LayoutSpecCommon
import PyProb.Lemmas.LayoutSpecBloom
import PyProb.Lemmas.LayoutSpecCms
import PyProb.Lemmas.LayoutSpecCuckoo
