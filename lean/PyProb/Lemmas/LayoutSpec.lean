/-
  Bridges between the model's codecs (`Model/Base.lean`, `Model/Bitarray.lean`) and the
  independently written layout specification (`Spec/Layout.lean`).
-/
import PyProb.Lemmas.Formats
import PyProb.Lemmas.Bits
import PyProb.Spec.Layout

namespace PyProb

/-! ### integers -/

theorem leBytes4_eq (v : Nat) : leBytes 4 v = Spec.u32le v := by
  simp only [leBytes, Spec.u32le]
  congr 1 <;> (try congr 1) <;> (try congr 1) <;> (try congr 1) <;> omega

theorem leBytes8_eq (v : Nat) : leBytes 8 v = Spec.u64le v := by
  simp only [leBytes, Spec.u64le, Nat.div_div_eq_div_mul]

theorem leBytesInt4_nat {v : Int} (h0 : 0 ≤ v) (h1 : v ≤ 4294967295) :
    leBytesInt 4 v = Spec.u32le v.toNat := by
  rw [leBytesInt_nonneg h0 (by simp; omega), leBytes4_eq]

theorem leBytesInt8_nat {v : Int} (h0 : 0 ≤ v) (h1 : v ≤ 18446744073709551615) :
    leBytesInt 8 v = Spec.u64le v.toNat := by
  rw [leBytesInt_nonneg h0 (by simp; omega), leBytes8_eq]

theorem leBytesInt4_int {v : Int} (h0 : -2147483648 ≤ v) (h1 : v ≤ 2147483647) :
    leBytesInt 4 v = Spec.i32le v := by
  unfold leBytesInt Spec.i32le
  rw [leBytes4_eq]
  congr 1
  have : ((256 ^ 4 : Nat) : Int) = 4294967296 := by simp
  rw [this]
  split
  · have : v % 4294967296 = v + 4294967296 := by omega
    rw [this]
  · have : v % 4294967296 = v := by omega
    rw [this]

theorem leBytesInt8_int {v : Int} (h0 : -9223372036854775808 ≤ v) (h1 : v ≤ 9223372036854775807) :
    leBytesInt 8 v = Spec.i64le v := by
  unfold leBytesInt Spec.i64le
  rw [leBytes8_eq]
  congr 1
  have : ((256 ^ 8 : Nat) : Int) = 18446744073709551616 := by simp
  rw [this]
  split
  · have : v % 18446744073709551616 = v + 18446744073709551616 := by omega
    rw [this]
  · have : v % 18446744073709551616 = v := by omega
    rw [this]

/-! ### bits -/

theorem spec_orByteAt (bs : Bytes) (j t : Nat) :
    Spec.orByteAt bs j t = bs.set j (bs.getD j 0 ||| 1 <<< t) := by
  induction bs generalizing j with
  | nil => simp [Spec.orByteAt]
  | cons b bs ih =>
      cases j with
      | zero => simp [Spec.orByteAt, Nat.one_shiftLeft]
      | succ j => simp [Spec.orByteAt, ih]

theorem spec_setBit (bs : Bytes) (i : Nat) : Spec.setBit bs i = setBitB bs i := by
  unfold Spec.setBit setBitB; exact spec_orByteAt _ _ _

theorem byteOfBits_testBit (x : Nat) (h : x < 256) : Spec.byteOfBits (fun t => x.testBit t) = x := by
  revert x
  decide +kernel

theorem byteOfBits_congr (f g : Nat → Bool) (h : ∀ t, t < 8 → f t = g t) :
    Spec.byteOfBits f = Spec.byteOfBits g := by
  simp only [Spec.byteOfBits, h 0 (by decide), h 1 (by decide), h 2 (by decide), h 3 (by decide),
    h 4 (by decide), h 5 (by decide), h 6 (by decide), h 7 (by decide)]

theorem bits_eq_byteOfBits (bits : Bytes) (h : ∀ x ∈ bits, x < 256) :
    bits = (List.range bits.length).map fun j => Spec.byteOfBits fun t => testBitB bits (8 * j + t) := by
  apply List.ext_getElem
  · simp
  · intro j h1 h2
    simp only [List.getElem_map, List.getElem_range]
    have hx := h bits[j] (List.getElem_mem h1)
    rw [byteOfBits_congr _ (fun t => (bits[j]).testBit t), byteOfBits_testBit _ hx]
    intro t ht
    rw [testBitB_eq]
    have e1 : (8 * j + t) / 8 = j := by omega
    have e2 : (8 * j + t) % 8 = t := by omega
    rw [e1, e2, List.getD_eq_getElem?_getD, List.getElem?_eq_getElem h1]
    rfl

theorem bloomFooter_spec (est fpr32 : Nat) (cnt : Int) :
    Gen.bloomFooter.pack [(est : Int), cnt, (fpr32 : Int)] =
      if est < 2 ^ 64 ∧ 0 ≤ cnt ∧ cnt < 2 ^ 64 ∧ fpr32 < 2 ^ 32
      then .ok (Spec.bloomFooter est cnt.toNat fpr32) else .error .structError := by
  rw [bloomFooter_pack]
  by_cases h : est < 2 ^ 64 ∧ 0 ≤ cnt ∧ cnt < 2 ^ 64 ∧ fpr32 < 2 ^ 32
  · obtain ⟨h1, h2, h3, h4⟩ := h
    rw [if_neg (by omega), if_neg (by omega), if_neg (by omega), if_pos ⟨h1, h2, h3, h4⟩]
    rw [leBytesInt8_nat (by omega) (by omega), leBytesInt8_nat h2 (by omega), leBytesInt4_nat (by omega) (by omega)]
    simp [Spec.bloomFooter]
  · rw [if_neg h]
    repeat' split
    all_goals first | rfl | (exfalso; apply h; omega)

theorem bloomFooterHex_spec (est fpr32 : Nat) (cnt : Int) :
    Gen.bloomFooterHex.pack [(est : Int), cnt, (fpr32 : Int)] =
      if est < 2 ^ 64 ∧ 0 ≤ cnt ∧ cnt < 2 ^ 64 ∧ fpr32 < 2 ^ 32
      then .ok ((Spec.u64le est).reverse ++ (Spec.u64le cnt.toNat).reverse ++ (Spec.u32le fpr32).reverse)
      else .error .structError := by
  rw [bloomFooterHex_pack]
  by_cases h : est < 2 ^ 64 ∧ 0 ≤ cnt ∧ cnt < 2 ^ 64 ∧ fpr32 < 2 ^ 32
  · obtain ⟨h1, h2, h3, h4⟩ := h
    rw [if_neg (by omega), if_neg (by omega), if_neg (by omega), if_pos ⟨h1, h2, h3, h4⟩]
    rw [leBytesInt8_nat (by omega) (by omega), leBytesInt8_nat h2 (by omega), leBytesInt4_nat (by omega) (by omega)]
    simp
  · rw [if_neg h]
    repeat' split
    all_goals first | rfl | (exfalso; apply h; omega)

theorem cmsFooter_spec (w d : Nat) (t : Int) :
    Gen.cmsFooter.pack [(w : Int), (d : Int), t] =
      if w < 2 ^ 32 ∧ d < 2 ^ 32 ∧ -9223372036854775808 ≤ t ∧ t ≤ 9223372036854775807
      then .ok (Spec.cmsFooter w d t) else .error .structError := by
  rw [cmsFooter_pack]
  by_cases h : w < 2 ^ 32 ∧ d < 2 ^ 32 ∧ -9223372036854775808 ≤ t ∧ t ≤ 9223372036854775807
  · obtain ⟨h1, h2, h3, h4⟩ := h
    rw [if_neg (by omega), if_neg (by omega), if_neg (by omega), if_pos ⟨h1, h2, h3, h4⟩]
    rw [leBytesInt4_nat (by omega) (by omega), leBytesInt4_nat (by omega) (by omega), leBytesInt8_int h3 h4]
    simp [Spec.cmsFooter]
  · rw [if_neg h]
    repeat' split
    all_goals first | rfl | (exfalso; apply h; omega)

theorem expFooter_spec (n est fpr32 : Nat) (added : Int) :
    Gen.expFooter.pack [(n : Int), (est : Int), added, (fpr32 : Int)] =
      if n < 2 ^ 64 ∧ est < 2 ^ 64 ∧ 0 ≤ added ∧ added < 2 ^ 64 ∧ fpr32 < 2 ^ 32
      then .ok (Spec.u64le n ++ Spec.u64le est ++ Spec.u64le added.toNat ++ Spec.u32le fpr32)
      else .error .structError := by
  rw [expFooter_pack]
  by_cases h : n < 2 ^ 64 ∧ est < 2 ^ 64 ∧ 0 ≤ added ∧ added < 2 ^ 64 ∧ fpr32 < 2 ^ 32
  · obtain ⟨h1, h2, h3, h4, h5⟩ := h
    rw [if_neg (by omega), if_neg (by omega), if_neg (by omega), if_neg (by omega), if_pos ⟨h1, h2, h3, h4, h5⟩]
    rw [leBytesInt8_nat (by omega) (by omega), leBytesInt8_nat (by omega) (by omega),
      leBytesInt8_nat h3 (by omega), leBytesInt4_nat (by omega) (by omega)]
    simp
  · rw [if_neg h]
    repeat' split
    all_goals first | rfl | (exfalso; apply h; omega)

theorem flatMap_congr' {α β} {l : List α} {f g : α → List β} (h : ∀ a ∈ l, f a = g a) :
    l.flatMap f = l.flatMap g := by
  simp only [List.flatMap_def, List.map_congr_left h]

/-! ### cell arrays -/

theorem cellsBytes_u32_spec (cells : List Int) (h : ∀ x ∈ cells, 0 ≤ x ∧ x ≤ 4294967295) :
    cellsBytes .u32 cells = (cells.map Int.toNat).flatMap Spec.u32le := by
  induction cells with
  | nil => rfl
  | cons c cs ih =>
      have hc := h c (by simp)
      have ih := ih (fun x hx => h x (List.mem_cons_of_mem _ hx))
      simp only [cellsBytes, List.flatMap_cons, List.map_cons] at ih ⊢
      rw [ih]; congr 1
      exact leBytesInt4_nat hc.1 hc.2

theorem cellsBytes_i32_spec (cells : List Int) (h : ∀ x ∈ cells, -2147483648 ≤ x ∧ x ≤ 2147483647) :
    cellsBytes .i32 cells = cells.flatMap Spec.i32le := by
  induction cells with
  | nil => rfl
  | cons c cs ih =>
      have hc := h c (by simp)
      have ih := ih (fun x hx => h x (List.mem_cons_of_mem _ hx))
      simp only [cellsBytes, List.flatMap_cons] at ih ⊢
      rw [ih]; congr 1
      exact leBytesInt4_int hc.1 hc.2

theorem list_eq_map_getD (l : List Int) (w : Nat) (h : w ≤ l.length) :
    l.take w = (List.range w).map fun j => l.getD j 0 := by
  apply List.ext_getElem
  · simp; omega
  · intro j h1 h2
    simp at h1 h2
    simp [List.getD_eq_getElem?_getD, List.getElem?_eq_getElem (show j < l.length by omega)]

/-- a flat array of `w*d` cells is the row-major concatenation of its rows -/
theorem flatMap_rows {β} (w d : Nat) (cells : List Int) (g : Int → List β) (h : cells.length = w * d) :
    cells.flatMap g = (List.range d).flatMap fun i => (List.range w).flatMap fun j => g (cells.getD (i * w + j) 0) := by
  induction d generalizing cells with
  | zero =>
      have : cells = [] := List.eq_nil_of_length_eq_zero (by simpa using h)
      subst this; rfl
  | succ d ih =>
      have hw : w ≤ cells.length := by rw [h, Nat.mul_succ]; omega
      have hsplit : cells = cells.take w ++ cells.drop w := (List.take_append_drop w cells).symm
      have hd : (cells.drop w).length = w * d := by rw [List.length_drop, h, Nat.mul_succ]; omega
      rw [List.range_succ_eq_map, List.flatMap_cons, List.flatMap_map]
      conv => lhs; rw [hsplit, List.flatMap_append, ih _ hd, list_eq_map_getD cells w hw, List.flatMap_map]
      simp only [Nat.zero_mul, Nat.zero_add]
      congr 1
      apply flatMap_congr'
      intro i _
      apply flatMap_congr'
      intro j _
      congr 1
      simp only [List.getD_eq_getElem?_getD, List.getElem?_drop]
      congr 2
      rw [Nat.succ_mul]; omega

/-! ### cuckoo buckets -/

theorem flatMap_u32le_zeros (n : Nat) : (List.replicate n 0).flatMap Spec.u32le = List.replicate (n * 4) 0 := by
  induction n with
  | zero => rfl
  | succ n ih =>
      rw [List.replicate_succ, List.flatMap_cons, ih, Nat.succ_mul, Nat.add_comm (n * 4) 4,
        ← List.replicate_append_replicate]
      rfl

theorem flatMap_pair_zeros (n : Nat) :
    (List.replicate n ((0, 0) : Nat × Nat)).flatMap (fun s => Spec.u32le s.1 ++ Spec.u32le s.2)
      = List.replicate (n * 8) 0 := by
  induction n with
  | zero => rfl
  | succ n ih =>
      rw [List.replicate_succ, List.flatMap_cons, ih, Nat.succ_mul, Nat.add_comm (n * 8) 8,
        ← List.replicate_append_replicate]
      rfl

theorem bucketBytes_plain_spec (b : Nat) (bkt : List CBin) :
    bucketBytes false b bkt = (bkt.map (fun s : CBin => s.1) ++ List.replicate (b - bkt.length) 0).flatMap Spec.u32le := by
  simp only [bucketBytes, cuckooW, Bool.false_eq_true, if_false, List.flatMap_append,
    flatMap_u32le_zeros, List.flatMap_map]
  congr 1
  apply flatMap_congr'
  intro x _; simp only [cuckooCell, Bool.false_eq_true, if_false, leBytes4_eq]

theorem bucketBytes_counting_spec (b : Nat) (bkt : List CBin) :
    bucketBytes true b bkt =
      (bkt ++ List.replicate (b - bkt.length) (0, 0)).flatMap fun s : CBin => Spec.u32le s.1 ++ Spec.u32le s.2 := by
  simp only [bucketBytes, cuckooW, if_true, List.flatMap_append, flatMap_pair_zeros]
  congr 1
  apply flatMap_congr'
  intro x _; simp only [cuckooCell, if_true, leBytes4_eq]

/-! ### expanding sub-filters -/

theorem expanding_go_spec (blooms : List Bloom) (h : ∀ b ∈ blooms, 0 ≤ b.count ∧ b.count < 2 ^ 64) :
    Expanding.exportBytes.go blooms =
      .ok ((blooms.map fun b => (b.count.toNat, b.bits)).flatMap fun s => Spec.u64le s.1 ++ s.2) := by
  induction blooms with
  | nil => rfl
  | cons b bs ih =>
      have hb := h b (by simp)
      have ih := ih (fun x hx => h x (List.mem_cons_of_mem _ hx))
      simp only [Expanding.exportBytes.go, expCount_pack, ih]
      rw [if_neg (by omega)]
      simp only [List.map_cons, List.flatMap_cons, List.append_assoc]
      rw [leBytesInt8_nat hb.1 (by omega)]

theorem expanding_go_error (blooms : List Bloom) (h : ∃ b ∈ blooms, ¬ (0 ≤ b.count ∧ b.count < 2 ^ 64)) :
    Expanding.exportBytes.go blooms = .error .structError := by
  induction blooms with
  | nil => simp at h
  | cons b bs ih =>
      simp only [Expanding.exportBytes.go, expCount_pack]
      by_cases hb : 0 ≤ b.count ∧ b.count < 2 ^ 64
      · have : ∃ x ∈ bs, ¬ (0 ≤ x.count ∧ x.count < 2 ^ 64) := by
          obtain ⟨x, hx, hbad⟩ := h
          rcases List.mem_cons.mp hx with rfl | hx
          · exact absurd hb hbad
          · exact ⟨x, hx, hbad⟩
        rw [ih this, if_neg (by omega)]
      · rw [if_pos (by omega)]

end PyProb
