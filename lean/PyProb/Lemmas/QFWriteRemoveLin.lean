/-
  `_remove_element` on a table in the linear view: removing element `j` from a table `s` that is
  the linear view of a sequence gives the table `t` that is the linear view of the sequence
  without `j` (`removeQR_lin`).
-/
import PyProb.Lemmas.QFWriteRemoveFind
import PyProb.Lemmas.QFWriteRemoveLoops
import PyProb.Lemmas.QFWriteRemoveRepair
import PyProb.Lemmas.QFWriteRemoveTarget

namespace PyProb.QFRem
open PyProb PyProb.QF PyProb.QFLin PyProb.Spec

/-! ### the model, cut into pieces -/

/-- "clean out the last element" -/
def clearAt (v : QF) (z : Nat) : QF :=
  { v with rem := v.rem.set z 0, occ := v.occ.set z false, cont := v.cont.set z false,
           shift := v.shift.set z false }

/-- … and clear the occupied bit of the quotient when its run has become empty -/
def finish (v : QF) (z qq : Nat) (o : Bool) : QF :=
  if o then { clearAt v z with occ := (clearAt v z).occ.set qq false } else clearAt v z

/-- the "edge case for first move" -/
def firstMove (s : QF) (idx : Nat) : QF × Nat × Nat :=
  if s.isRunOrClusterStart idx && bit s.cont (s.nxt idx) then
    ({ s with rem := s.rem.set idx (s.remAt (s.nxt idx)), cont := s.cont.set idx false,
              shift := s.shift.set idx (bit s.shift (s.nxt idx)) }, s.nxt idx, s.nxt (s.nxt idx))
  else (s, idx, s.nxt idx)

/-- `_remove_element` after the look-up and the decrement of the counter -/
def removeTail (s : QF) (qq idx : Nat) : R QF :=
  if s.isEmpty (s.nxt idx) || s.isClusterStart (s.nxt idx) then
    .ok (finish s idx qq (s.isRunOrClusterStart idx && !bit s.cont (s.nxt idx)))
  else
    match removeMinIdx s s.fuelOf idx with
    | .error e => .error e
    | .ok minIdx =>
        match removeShift s.fuelOf (firstMove s idx).1 (firstMove s idx).2.1 (firstMove s idx).2.2 with
        | .error e => .error e
        | .ok (v, idx', next') =>
            removeRepair next' (finish v idx' qq (s.isRunOrClusterStart idx && !bit s.cont (s.nxt idx))).fuelOf
              (finish v idx' qq (s.isRunOrClusterStart idx && !bit s.cont (s.nxt idx))) minIdx none []

theorem removeQR_some (s : QF) (qq rr idx : Nat) (hc : s.containedAtLoc qq rr = .ok (some idx)) :
    s.removeQR qq rr = removeTail { s with count := s.count - 1 } qq idx := by
  simp only [removeQR, hc, removeTail, firstMove, finish, clearAt]
  rfl

theorem finish_q (v : QF) (z qq : Nat) (o : Bool) : (finish v z qq o).q = v.q := by
  cases o <;> rfl
theorem finish_auto (v : QF) (z qq : Nat) (o : Bool) : (finish v z qq o).auto = v.auto := by
  cases o <;> rfl
theorem finish_count (v : QF) (z qq : Nat) (o : Bool) : (finish v z qq o).count = v.count := by
  cases o <;> rfl
theorem finish_rem (v : QF) (z qq : Nat) (o : Bool) : (finish v z qq o).rem = v.rem.set z 0 := by
  cases o <;> rfl
theorem finish_cont (v : QF) (z qq : Nat) (o : Bool) : (finish v z qq o).cont = v.cont.set z false := by
  cases o <;> rfl
theorem finish_shift (v : QF) (z qq : Nat) (o : Bool) : (finish v z qq o).shift = v.shift.set z false := by
  cases o <;> rfl
theorem finish_occ (v : QF) (z qq : Nat) (o : Bool) :
    (finish v z qq o).occ = if o then (v.occ.set z false).set qq false else v.occ.set z false := by
  cases o <;> rfl

/-! ### the table after the left shift -/

/-- `v` is `s` with the slots `P … Z - 1` overwritten by their right neighbours, the continuation
    bit of slot `P` being `c0` -/
structure VRel (s v : QF) (n e P Z : Nat) (c0 : Bool) : Prop where
  q : v.q = s.q
  auto : v.auto = s.auto
  count : v.count = s.count
  occ : v.occ = s.occ
  lrem : v.rem.length = n
  lcont : v.cont.length = n
  lshift : v.shift.length = n
  rem : ∀ y, y < n → v.remAt (io n e y) =
    if P ≤ y ∧ y < Z then s.remAt (io n e (y + 1)) else s.remAt (io n e y)
  cont : ∀ y, y < n → bit v.cont (io n e y) =
    if P ≤ y ∧ y < Z then (if y = P then c0 else bit s.cont (io n e (y + 1))) else bit s.cont (io n e y)
  shift : ∀ y, y < n → bit v.shift (io n e y) =
    if P ≤ y ∧ y < Z then bit s.shift (io n e (y + 1)) else bit s.shift (io n e y)

section asm
variable {s t : QF} {n e m : Nat} {d r : Nat → Nat} {j a b : Nat}

theorem Ctx.nxtP (C : Ctx s n e m d r j a b) : s.nxt (io n e (posF d j)) = io n e (posF d j + 1) :=
  nxt_io s n e _ C.L.size

theorem Ctx.orig (C : Ctx s n e m d r j a b) :
    (s.isRunOrClusterStart (io n e (posF d j)) && !bit s.cont (io n e (posF d j + 1))) = only d m j := by
  rw [isRunOrClusterStart_cell C.L j C.hj, C.cont_next]; rfl

theorem Ctx.fm (C : Ctx s n e m d r j a b) :
    (s.isRunOrClusterStart (io n e (posF d j)) && bit s.cont (io n e (posF d j + 1))) =
      (!contF d j && (decide (j + 1 < m) && contF d (j + 1))) := by
  rw [isRunOrClusterStart_cell C.L j C.hj, C.cont_next]

theorem Ctx.branch (C : Ctx s n e m d r j a b) :
    (s.isEmpty (io n e (posF d j + 1)) || s.isClusterStart (io n e (posF d j + 1))) = decide (j = b) := by
  by_cases h : j = b
  · have := C.after
    rw [← h] at this
    rw [this]; simp [h]
  · have hjb := C.hjb
    have haj := C.haj
    have h1 := C.inside (j + 1) (by omega) (by omega)
    have h2 := C.contig (j + 1) (by omega) (by omega)
    have h3 := C.contig j haj hjb
    rw [show posF d (j + 1) = posF d j + 1 by omega] at h1
    rw [h1.1, h1.2]; simp [h]

/-- the table after `finish` agrees with the target, except for shifted bits in `[P, Z)` -/
theorem finish_vs_t (C : Ctx s n e m d r j a b) (T : LinX t n e (m - 1) (del j d) (del j r))
    (v : QF) (V : VRel s v n e (posF d j) (posF d b) (contF d j && contF d (j + 1))) (y : Nat) (hy : y < n) :
    (finish v (io n e (posF d b)) (io n e (d j)) (only d m j)).remAt (io n e y) = t.remAt (io n e y) ∧
    bit (finish v (io n e (posF d b)) (io n e (d j)) (only d m j)).occ (io n e y) = bit t.occ (io n e y) ∧
    bit (finish v (io n e (posF d b)) (io n e (d j)) (only d m j)).cont (io n e y) = bit t.cont (io n e y) ∧
    (bit (finish v (io n e (posF d b)) (io n e (d j)) (only d m j)).shift (io n e y) = bit t.shift (io n e y) ∨
      (posF d j ≤ y ∧ y < posF d b ∧
        bit (finish v (io n e (posF d b)) (io n e (d j)) (only d m j)).shift (io n e y) = true)) := by
  have hZ : posF d b < n := by have := C.fitb; omega
  have hdj : d j < n := by have := p_ge_d d j; have := pos_lt C.L j C.hj; omega
  have hPZ : posF d j ≤ posF d b := by have := p_mono d j b C.hjb; omega
  have locc : v.occ.length = n := by rw [V.occ]; exact C.X.locc
  simp only [remAt, finish_rem, finish_cont, finish_shift, finish_occ]
  rw [getD_set_io v.rem n e _ y 0 0 V.lrem hZ hy, bit_set_io v.cont n e _ y false V.lcont hZ hy,
    bit_set_io v.shift n e _ y false V.lshift hZ hy]
  have hoccu : bit (if only d m j = true then (v.occ.set (io n e (posF d b)) false).set (io n e (d j)) false
      else v.occ.set (io n e (posF d b)) false) (io n e y) =
      (if posF d b = y then false else (bit s.occ (io n e y) && !(decide (y = d j) && only d m j))) := by
    cases ho : only d m j
    · simp only [Bool.false_eq_true, if_false, Bool.and_false, Bool.not_false, Bool.and_true]
      rw [bit_set_io v.occ n e _ y false locc hZ hy, V.occ]
    · simp only [if_true, Bool.and_true]
      rw [bit_set_io _ n e _ y false (by simp [locc]) hdj hy, bit_set_io v.occ n e _ y false locc hZ hy, V.occ]
      by_cases h1 : d j = y
      · subst h1; simp
      · have : ¬ y = d j := fun h => h1 h.symm
        simp [h1, this]
  rw [hoccu]
  by_cases hyZ : posF d b = y
  · -- the last slot of the old cluster
    subst hyZ
    obtain ⟨e1, e2, e3, e4⟩ := t_end C T
    simp only [if_true, remAt] at *
    rw [e1, e2, e3, e4]
    exact ⟨rfl, rfl, rfl, Or.inl rfl⟩
  · simp only [if_neg hyZ]
    have hocc := t_occ C T y hy
    by_cases hmid : posF d j ≤ y ∧ y < posF d b
    · obtain ⟨e1, e2, e3⟩ := t_mid C T y hmid.1 hmid.2
      have f1 := V.rem y hy
      have f2 := V.cont y hy
      have f3 := V.shift y hy
      rw [if_pos hmid] at f1 f2 f3
      simp only [remAt] at f1 e1
      refine ⟨by rw [f1, e1], hocc.symm, ?_, Or.inr ⟨hmid.1, hmid.2, by rw [f3, e3]⟩⟩
      rw [f2, e2]
    · obtain ⟨e1, e2, e3⟩ := t_out C T y hy (by omega)
      have f1 := V.rem y hy
      have f2 := V.cont y hy
      have f3 := V.shift y hy
      rw [if_neg hmid] at f1 f2 f3
      simp only [remAt] at f1 e1
      exact ⟨by rw [f1, e1], hocc.symm, by rw [f2, e2], Or.inl (by rw [f3, e3])⟩

theorem finish_lengths (v : QF) (z qq : Nat) (o : Bool) (n : Nat) (l1 : v.rem.length = n)
    (l2 : v.occ.length = n) (l3 : v.cont.length = n) (l4 : v.shift.length = n) :
    (finish v z qq o).rem.length = n ∧ (finish v z qq o).occ.length = n ∧
      (finish v z qq o).cont.length = n ∧ (finish v z qq o).shift.length = n := by
  rw [finish_rem, finish_cont, finish_shift, finish_occ]
  cases o <;> simp [l1, l2, l3, l4]

/-- **case (a)**: element `j` is the last element of its cluster -/
theorem removeTail_last (C : Ctx s n e m d r j a b) (T : LinX t n e (m - 1) (del j d) (del j r))
    (hjb : j = b) (hq : t.q = s.q) (hauto : t.auto = s.auto) (hcount : t.count = s.count) :
    removeTail s (io n e (d j)) (io n e (posF d j)) = .ok t := by
  subst hjb
  have hbr := C.branch
  simp only [decide_true] at hbr
  simp only [removeTail, C.nxtP, hbr, if_true, C.orig]
  congr 1
  have V : VRel s s n e (posF d j) (posF d j) (contF d j && contF d (j + 1)) :=
    ⟨rfl, rfl, rfl, rfl, C.X.lrem, C.X.lcont, C.X.lshift,
      fun y _ => by rw [if_neg (by omega)], fun y _ => by rw [if_neg (by omega)],
      fun y _ => by rw [if_neg (by omega)]⟩
  obtain ⟨k1, k2, k3, k4⟩ := finish_lengths s (io n e (posF d j)) (io n e (d j)) (only d m j) n
    C.X.lrem C.X.locc C.X.lcont C.X.lshift
  apply qf_ext_io _ _ n e C.L.he (by rw [finish_q, hq]) (by rw [finish_auto, hauto])
    (by rw [finish_count, hcount]) k1 k2 k3 k4 T.lrem T.locc T.lcont T.lshift
  intro y hy
  obtain ⟨h1, h2, h3, h4⟩ := finish_vs_t C T s V y hy
  refine ⟨h1, h2, h3, ?_⟩
  rcases h4 with h4 | h4
  · exact h4
  · omega

/-- the left shift, without the edge case -/
theorem shift_plain (C : Ctx s n e m d r j a b) (hjb : j < b)
    (hfm : (!contF d j && (decide (j + 1 < m) && contF d (j + 1))) = false) :
    ∃ v, removeShift s.fuelOf s (io n e (posF d j)) (io n e (posF d j + 1)) =
        .ok (v, io n e (posF d b), io n e (posF d b + 1)) ∧
      VRel s v n e (posF d j) (posF d b) (contF d j && contF d (j + 1)) := by
  have hbm := C.hbm
  have haj := C.haj
  have cj := C.contig j haj C.hjb
  have cb := C.contig b (by omega) (Nat.le_refl _)
  have hfit := C.fitb
  have X := C.X
  obtain ⟨v, hv, R⟩ := removeShift_spec n e (posF d b - posF d j) (posF d j) s.fuelOf s (posF d b)
    (by omega) (by omega) C.L.size X.lrem X.lcont X.lshift
    (by
      intro y h1 h2
      have hk := C.contig (a + (y - posF d a)) (by omega) (by omega)
      have := C.inside (a + (y - posF d a)) (by omega) (by omega)
      rw [show posF d (a + (y - posF d a)) = y by omega] at this
      simp [goOn, this.1, this.2])
    (by
      have := C.after
      simp only [goOn]
      cases h1 : s.isEmpty (io n e (posF d b + 1)) <;> cases h2 : s.isClusterStart (io n e (posF d b + 1)) <;>
        simp_all)
    (by simp only [fuelOf, C.L.size]; omega)
  refine ⟨v, hv, ⟨R.q, R.auto, R.count, R.occ, by rw [R.lrem, X.lrem], by rw [R.lcont, X.lcont],
    by rw [R.lshift, X.lshift], R.rem, ?_, R.shift⟩⟩
  intro y hy
  rw [R.cont y hy]
  by_cases hmid : posF d j ≤ y ∧ y < posF d b
  · rw [if_pos hmid, if_pos hmid]
    by_cases hyP : y = posF d j
    · rw [if_pos hyP, hyP, C.cont_next]
      have : j + 1 < m := by omega
      simp only [this, decide_true, Bool.true_and] at hfm ⊢
      cases h1 : contF d j <;> cases h2 : contF d (j + 1) <;> simp_all
    · rw [if_neg hyP]
  · rw [if_neg hmid, if_neg hmid]

/-- the left shift after the "edge case for first move" -/
theorem shift_first (C : Ctx s n e m d r j a b) (hjb : j < b)
    (hfm : (!contF d j && (decide (j + 1 < m) && contF d (j + 1))) = true) :
    ∃ v, removeShift s.fuelOf
        { s with rem := s.rem.set (io n e (posF d j)) (s.remAt (io n e (posF d j + 1))),
                 cont := s.cont.set (io n e (posF d j)) false,
                 shift := s.shift.set (io n e (posF d j)) (bit s.shift (io n e (posF d j + 1))) }
        (io n e (posF d j + 1)) (io n e (posF d j + 1 + 1)) =
        .ok (v, io n e (posF d b), io n e (posF d b + 1)) ∧
      VRel s v n e (posF d j) (posF d b) (contF d j && contF d (j + 1)) := by
  have hbm := C.hbm
  have haj := C.haj
  have cj := C.contig j haj C.hjb
  have cb := C.contig b (by omega) (Nat.le_refl _)
  have hfit := C.fitb
  have X := C.X
  have hPn : posF d j < n := by omega
  generalize hs1 : ({ s with
      rem := s.rem.set (io n e (posF d j)) (s.remAt (io n e (posF d j + 1)))
      cont := s.cont.set (io n e (posF d j)) false
      shift := s.shift.set (io n e (posF d j)) (bit s.shift (io n e (posF d j + 1))) } : QF) = s1
  have hsz : s1.size = n := by rw [← hs1]; exact C.L.size
  have hfu : s.fuelOf = s1.fuelOf := by rw [← hs1]; rfl
  have hocc : s1.occ = s.occ := by rw [← hs1]
  have hremv : ∀ y, y < n → s1.remAt (io n e y) =
      if posF d j = y then s.remAt (io n e (posF d j + 1)) else s.remAt (io n e y) := by
    intro y hy; rw [← hs1]; exact getD_set_io s.rem n e _ y _ 0 X.lrem hPn hy
  have hcontv : ∀ y, y < n → bit s1.cont (io n e y) =
      if posF d j = y then false else bit s.cont (io n e y) := by
    intro y hy; rw [← hs1]; exact bit_set_io s.cont n e _ y _ X.lcont hPn hy
  have hshiftv : ∀ y, y < n → bit s1.shift (io n e y) =
      if posF d j = y then bit s.shift (io n e (posF d j + 1)) else bit s.shift (io n e y) := by
    intro y hy; rw [← hs1]; exact bit_set_io s.shift n e _ y _ X.lshift hPn hy
  have hgoon : ∀ y, posF d j < y → y < n → goOn s1 (io n e y) = goOn s (io n e y) := by
    intro y h1 h2
    apply goOn_congr
    · rw [hocc]
    · rw [hcontv y h2, if_neg (by omega)]
    · rw [hshiftv y h2, if_neg (by omega)]
  obtain ⟨v, hv, R⟩ := removeShift_spec n e (posF d b - (posF d j + 1)) (posF d j + 1) s.fuelOf s1 (posF d b)
    (by omega) (by omega) hsz (by rw [← hs1]; simp [X.lrem]) (by rw [← hs1]; simp [X.lcont])
    (by rw [← hs1]; simp [X.lshift])
    (by
      intro y h1 h2
      rw [hgoon y (by omega) (by omega)]
      have hk := C.contig (a + (y - posF d a)) (by omega) (by omega)
      have := C.inside (a + (y - posF d a)) (by omega) (by omega)
      rw [show posF d (a + (y - posF d a)) = y by omega] at this
      simp [goOn, this.1, this.2])
    (by
      rw [hgoon _ (by omega) (by omega)]
      have := C.after
      simp only [goOn]
      cases h1 : s.isEmpty (io n e (posF d b + 1)) <;> cases h2 : s.isClusterStart (io n e (posF d b + 1)) <;>
        simp_all)
    (by simp only [fuelOf, C.L.size]; omega)
  have hcj : contF d j = false := by
    cases h1 : contF d j
    · rfl
    · rw [h1] at hfm; simp at hfm
  refine ⟨v, hv, ⟨?_, ?_, ?_, ?_, ?_, ?_, ?_, ?_, ?_, ?_⟩⟩
  · rw [R.q, ← hs1]
  · rw [R.auto, ← hs1]
  · rw [R.count, ← hs1]
  · rw [R.occ, hocc]
  · rw [R.lrem, ← hs1]; simp [X.lrem]
  · rw [R.lcont, ← hs1]; simp [X.lcont]
  · rw [R.lshift, ← hs1]; simp [X.lshift]
  · intro y hy
    rw [R.rem y hy]
    by_cases h1 : posF d j + 1 ≤ y ∧ y < posF d b
    · rw [if_pos h1, if_pos (by omega), hremv (y + 1) (by omega), if_neg (by omega)]
    · rw [if_neg h1, hremv y hy]
      by_cases h2 : posF d j = y
      · subst h2; rw [if_pos rfl, if_pos (by omega)]
      · rw [if_neg h2, if_neg (by omega)]
  · intro y hy
    rw [R.cont y hy]
    by_cases h1 : posF d j + 1 ≤ y ∧ y < posF d b
    · rw [if_pos h1, if_pos (by omega), hcontv (y + 1) (by omega), if_neg (by omega), if_neg (by omega)]
    · rw [if_neg h1, hcontv y hy]
      by_cases h2 : posF d j = y
      · subst h2; rw [if_pos rfl, if_pos (by omega), if_pos rfl, hcj]; rfl
      · rw [if_neg h2, if_neg (by omega)]
  · intro y hy
    rw [R.shift y hy]
    by_cases h1 : posF d j + 1 ≤ y ∧ y < posF d b
    · rw [if_pos h1, if_pos (by omega), hshiftv (y + 1) (by omega), if_neg (by omega)]
    · rw [if_neg h1, hshiftv y hy]
      by_cases h2 : posF d j = y
      · subst h2; rw [if_pos rfl, if_pos (by omega)]
      · rw [if_neg h2, if_neg (by omega)]

/-- both variants of the left shift -/
theorem shift_any (C : Ctx s n e m d r j a b) (hjb : j < b) :
    ∃ v, removeShift s.fuelOf (firstMove s (io n e (posF d j))).1 (firstMove s (io n e (posF d j))).2.1
        (firstMove s (io n e (posF d j))).2.2 = .ok (v, io n e (posF d b), io n e (posF d b + 1)) ∧
      VRel s v n e (posF d j) (posF d b) (contF d j && contF d (j + 1)) := by
  have hnx2 : s.nxt (io n e (posF d j + 1)) = io n e (posF d j + 1 + 1) := nxt_io s n e _ C.L.size
  cases hfm : (!contF d j && (decide (j + 1 < m) && contF d (j + 1)))
  · have h1 := C.fm
    rw [hfm] at h1
    simp only [firstMove, C.nxtP, h1, Bool.false_eq_true, if_false]
    exact shift_plain C hjb hfm
  · have h1 := C.fm
    rw [hfm] at h1
    simp only [firstMove, C.nxtP, h1, if_true, hnx2]
    exact shift_first C hjb hfm

/-- **case (b)**: element `j` is followed by elements of its cluster -/
theorem removeTail_inner (C : Ctx s n e m d r j a b) (T : LinX t n e (m - 1) (del j d) (del j r))
    (hjb : j < b) (hq : t.q = s.q) (hauto : t.auto = s.auto) (hcount : t.count = s.count) :
    removeTail s (io n e (d j)) (io n e (posF d j)) = .ok t := by
  have hbm := C.hbm
  have haj := C.haj
  have cj := C.contig j haj C.hjb
  have cb := C.contig b (by omega) (Nat.le_refl _)
  have hfit := C.fitb
  have X := C.X
  have hn0 : 0 < n := by omega
  have hbr := C.branch
  rw [show decide (j = b) = false by simp; omega] at hbr
  -- the walk back to the cluster start
  have hmin : removeMinIdx s s.fuelOf (io n e (posF d j)) = .ok (io n e (posF d a)) := by
    have := removeMinIdx_walk s n e C.L.size hn0 (posF d a)
      (by rw [isClusterStart_cell C.L a (by omega)]; simp [C.home])
      (posF d j - posF d a) s.fuelOf
      (by
        intro y h1 h2
        have hk := C.contig (a + (y - posF d a)) (by omega) (by omega)
        have := C.inside (a + (y - posF d a)) (by omega) (by omega)
        rw [show posF d (a + (y - posF d a)) = y by omega] at this
        exact this.2)
      (by simp only [fuelOf, C.L.size]; omega)
    rw [show posF d a + (posF d j - posF d a) = posF d j by omega] at this
    exact this
  obtain ⟨v, hv, V⟩ := shift_any C hjb
  simp only [removeTail, C.nxtP, hbr, Bool.false_eq_true, if_false, hmin, hv, C.orig]
  generalize hu : finish v (io n e (posF d b)) (io n e (d j)) (only d m j) = u
  have hfin : ∀ y, y < n → _ := fun y hy => finish_vs_t C T v V y hy
  rw [hu] at hfin
  have locc : v.occ.length = n := by rw [V.occ]; exact X.locc
  obtain ⟨k1, k2, k3, k4⟩ := finish_lengths v (io n e (posF d b)) (io n e (d j)) (only d m j) n
    V.lrem locc V.lcont V.lshift
  rw [hu] at k1 k2 k3 k4
  have huq : u.q = s.q := by rw [← hu, finish_q, V.q]
  have P : Pre u t n e (posF d a) (b - a) :=
    ⟨by simp only [QF.size, huq]; exact C.L.size, k2, k3, k4, fun y hy => (hfin y hy).2.1,
      fun y hy => (hfin y hy).2.2.1,
      fun y hy => by
        rcases (hfin y hy).2.2.2 with h | h
        · exact Or.inl h
        · exact Or.inr ⟨by omega, by omega, h.2.2⟩⟩
  obtain ⟨hcells, hnocell, hend⟩ := new_cluster C hjb
  have hB : Bfn (del j d) (m - 1) (posF d a) ≤ a := by
    apply Classical.byContradiction
    intro hh
    have h1 := B_le_m (del j d) (m - 1) (posF d a)
    have h2 := (B_char T.lin (posF d a) a (by omega)).1 (by omega)
    by_cases haj' : a < j
    · rw [del_lt j d a haj', ← C.home] at h2; omega
    · have : a = j := by omega
      subst this
      rw [del_ge a d a (Nat.le_refl _)] at h2
      have := C.mono a (by omega)
      rw [← C.home] at this
      omega
  obtain ⟨sh', h1, h2, h3⟩ := repair_spec T.lin u (posF d a) (b - a) a P hcells hnocell hend hB
  rw [show posF d a + (b - a) = posF d b by omega] at h1
  rw [h1]
  congr 1
  apply qf_ext_io { u with shift := sh' } t n e C.L.he (show u.q = t.q by rw [huq, hq])
    (show u.auto = t.auto by rw [← hu, finish_auto, V.auto, hauto])
    (show u.count = t.count by rw [← hu, finish_count, V.count, hcount])
    k1 k2 k3 h2 T.lrem T.locc T.lcont T.lshift
  intro y hy
  exact ⟨(hfin y hy).1, (hfin y hy).2.1, (hfin y hy).2.2.1, h3 y hy⟩

/-- removing element `j` from a table in the linear view -/
theorem removeTail_lin (X : LinX s n e m d r) (j : Nat) (hj : j < m)
    (T : LinX t n e (m - 1) (del j d) (del j r))
    (hq : t.q = s.q) (hauto : t.auto = s.auto) (hcount : t.count = s.count) :
    removeTail s (io n e (d j)) (io n e (posF d j)) = .ok t := by
  obtain ⟨a, b, C⟩ := ctx_exists X j hj
  by_cases hjb : j = b
  · exact removeTail_last C T hjb hq hauto hcount
  · exact removeTail_inner C T (by have := C.hjb; omega) hq hauto hcount

theorem linX_count (X : LinX s n e m d r) (c : Int) : LinX { s with count := c } n e m d r :=
  ⟨⟨X.lin.n2, X.lin.size, X.lin.he, X.lin.sorted, X.lin.fit, X.lin.cont, X.lin.shift, X.lin.rem,
    X.lin.nocell, X.lin.occ⟩, X.lrem, X.locc, X.lcont, X.lshift, X.rem0⟩

/-- **`_remove_element` on the linear view**: removing a stored element gives the table of the
    sequence without it, with the counter decremented -/
theorem removeQR_lin (X : LinX s n e m d r) (j : Nat) (hj : j < m)
    (T : LinX t n e (m - 1) (del j d) (del j r))
    (hq : t.q = s.q) (hauto : t.auto = s.auto) (hcount : t.count = s.count - 1) :
    s.removeQR (io n e (d j)) (r j) = .ok t := by
  rw [removeQR_some s _ _ _ (contained_find X.lin j hj)]
  exact removeTail_lin (linX_count X _) j hj T hq hauto hcount

end asm
end PyProb.QFRem
