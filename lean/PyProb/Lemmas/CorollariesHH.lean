/-
  Cross-property corollary 3 (HeavyHitters and true counts).

  C17 proves about the tracking table of `HeavyHitters` only facts about ESTIMATES
  (`C17_hh_untracked`: no untracked key's most recent estimate exceeds a tracked one).  With C02
  (`estimate ≥ true count` for histories without clamping) this gives the true-count form:

  * `hh_untracked_count_le_tracked` : an untracked key's TRUE count is ≤ every tracked value;
  * `hh_tracks_heaviest`            : hence a key whose true count exceeds some tracked value
                                      (in particular the smallest one) is tracked;
  * `hh_tracked_ge_count`           : a tracked key's value is ≥ its true count.

  The converse direction (an untracked key's ESTIMATE could exceed another key's TRUE count) is
  not a theorem and is not claimed.  Hypotheses: `w, d > 0`, `d` hashes per key, `num ≥ 1`,
  add-only history with amounts `n ≥ 1` (C02's `Legit`; the class has no `remove`), and C02's
  `Small` (the amounts added never exceed 2^31-1, so no bin is clamped — with clamping the
  estimate can fall below the true count and the statement is false).
-/
import PyProb.Properties.C02
import PyProb.Properties.C17

namespace PyProb.Corollaries
open PyProb

/-- a HeavyHitters call as a call on the embedded sketch -/
def hhToCms (op : Key × Int) : C02.Op := .add op.1 op.2

private theorem legit_of_pos (ops : List (Key × Int)) (h : ∀ op ∈ ops, 0 < op.2) :
    C02.Legit (ops.map hhToCms) := by
  intro i hi
  rw [List.getElem_map]
  show 0 < _
  simp only [List.length_map] at hi
  exact h _ (List.getElem_mem hi)

private theorem small_prefix' {ops : List C02.Op} {op : C02.Op} (h : C02.Small (ops ++ [op])) :
    C02.Small ops := by
  intro i hi
  have := h i (by simp; omega)
  rw [List.take_append_of_le_length hi] at this
  exact this

private theorem cnt_snoc' (ops : List C02.Op) (op : C02.Op) (k : Key) :
    C02.cnt (ops ++ [op]) k = C02.cnt ops k + if op.key = k then op.signed else 0 := by
  simp [C02.cnt, List.sum_append]

private theorem cnt_cons' (op : C02.Op) (ops : List C02.Op) (k : Key) :
    C02.cnt (op :: ops) k = (if op.key = k then op.signed else 0) + C02.cnt ops k := by
  simp [C02.cnt]

private theorem cnt_add_nonneg (ops : List (Key × Int)) (h : ∀ op ∈ ops, 0 < op.2) (k : Key) :
    0 ≤ C02.cnt (ops.map hhToCms) k := by
  induction ops with
  | nil => simp [C02.cnt]
  | cons op ops ih =>
      have h1 := h op (by simp)
      have h2 := ih (fun o ho => h o (List.mem_cons_of_mem _ ho))
      rw [List.map_cons, cnt_cons']
      have e1 : (hhToCms op).key = op.1 := rfl
      have e2 : (hhToCms op).signed = op.2 := rfl
      rw [e1, e2]
      split <;> omega

private theorem cnt_add_absent (ops : List (Key × Int)) (u : Key) (h : ∀ op ∈ ops, op.1 ≠ u) :
    C02.cnt (ops.map hhToCms) u = 0 := by
  induction ops with
  | nil => rfl
  | cons op ops ih =>
      have h1 : op.1 ≠ u := h op (by simp)
      have h2 := ih (fun o ho => h o (List.mem_cons_of_mem _ ho))
      rw [List.map_cons, cnt_cons']
      have e1 : (hhToCms op).key = op.1 := rfl
      rw [e1, if_neg h1, h2]; rfl

/-- what a HeavyHitters call reports: the estimate of the sketch, or the `ValueError` of the
    eviction (which C17 shows to be dead) -/
private theorem hhStep_snd (num : Int) (s : HHS) (key : Key) (res : Int) :
    (hhStep num s key res).2 = .ok res ∨ (hhStep num s key res).2 = .error .valueError := by
  unfold hhStep
  by_cases h1 : (s.size : Int) < num
  · rw [if_pos h1]; exact Or.inl rfl
  · rw [if_neg h1]
    by_cases h2 : (s.table.get? key).isSome = true
    · rw [if_pos h2]; exact Or.inl rfl
    · rw [if_neg h2]
      by_cases h3 : res > s.smallest
      · rw [if_pos h3]
        dsimp only
        cases (s.table.set key res).argmin with
        | none => exact Or.inr rfl
        | some p =>
            obtain ⟨k, x⟩ := p
            dsimp only
            cases ((s.table.set key res).pop k).argmin with
            | none => exact Or.inr rfl
            | some q => exact Or.inl rfl
      · rw [if_neg h3]; exact Or.inl rfl

section
variable {w d : Nat} {H : Key → Nat → List Nat}

/-- the invariant linking a HeavyHitters run to the count-min history of its sketch -/
structure HHCountInv (w d : Nat) (H : Key → Nat → List Nat) (ops : List (Key × Int))
    (st : HH × C17.Log) : Prop where
  cms : st.1.cms = C02.run w d H .min (ops.map hhToCms)
  seen : ∀ k v, C17.lastEst st.2 k = some v → C02.cnt (ops.map hhToCms) k ≤ v

theorem hh_count_inv (hw : 0 < w) (hd : 0 < d) (hH : ∀ key, (H key d).length = d) (num : Int)
    (hnum : 1 ≤ num) (ops : List (Key × Int)) (hpos : ∀ op ∈ ops, 0 < op.2)
    (hS : C02.Small (ops.map hhToCms)) :
    HHCountInv w d H ops (C17.runHH H (HH.new w d num) ops) := by
  induction ops using snoc_induction with
  | nil => exact ⟨rfl, by simp [C17.runHH, C17.lastEst]⟩
  | snoc ops op ih =>
      have hpos0 : ∀ o ∈ ops, 0 < o.2 := fun o ho => hpos o (List.mem_append_left _ ho)
      have hL := legit_of_pos _ hpos
      have hallok := (C17.C17_hh_ok w d num hw hd hnum H hH (ops ++ [op])
        (fun o ho => Int.le_of_lt (hpos o ho))).2
      rw [List.map_append, List.map_singleton] at hL hS
      have I := ih hpos0 (small_prefix' hS)
      have hbin := C02.C02_bin_invariant (H := H) hw hH .min (ops.map hhToCms)
        (legit_of_pos _ hpos0) (small_prefix' hS)
      have hret := C02.C02_ret (H := H) hw hH .min (ops.map hhToCms) (hhToCms op) hL hS
      obtain ⟨v, hv, hcv⟩ := C02.C02_lower (H := H) hw hd hH (ops.map hhToCms ++ [hhToCms op]) hL hS
        (hhToCms op).key
      rw [hv] at hret
      have hrun : C02.run w d H .min (ops.map hhToCms ++ [hhToCms op]) =
          (C02.stepOp d H (C02.run w d H .min (ops.map hhToCms)) (hhToCms op)).1 := by
        simp [C02.run, List.foldl_append]
      rw [C17.runHH_snoc] at hallok ⊢
      generalize C17.runHH H (HH.new w d num) ops = st at I hallok ⊢
      obtain ⟨s, log⟩ := st
      obtain ⟨key, n⟩ := op
      have hcms : s.cms = C02.run w d H .min (ops.map hhToCms) := I.cms
      have hsd : s.cms.d = d := by rw [hcms]; exact hbin.2.1
      have e : s.cms.addAlt (H key s.cms.d) n =
          ((C02.stepOp d H s.cms (.add key n)).1, .ok v) := by
        rw [hsd]
        show C02.stepOp d H s.cms (.add key n) = _
        rw [Prod.ext_iff]; exact ⟨rfl, by rw [hcms]; exact hret⟩
      have hstep := HH.addAlt_ok s key _ n _ v e
      -- the call returned an estimate (C17), so it returned the sketch's estimate
      have hres : (hhStep s.num s.abs key v).2 = .ok v := by
        rcases hhStep_snd s.num s.abs key v with h | h
        · exact h
        · exfalso
          have := hallok (key, (s.addAlt key (H key s.cms.d) n).2) (by simp [C17.stepHH])
          obtain ⟨v', hv', _⟩ := this
          rw [hstep] at hv'
          dsimp only at hv'
          rw [h] at hv'
          cases hv'
      refine ⟨?_, ?_⟩
      · show (s.addAlt key (H key s.cms.d) n).1.cms = _
        rw [hstep, List.map_append, List.map_singleton, hrun, hcms]
        rfl
      · intro k x hx
        have hlog : (C17.stepHH H (s, log) (key, n)).2 = log ++ [(key, .ok v)] := by
          simp only [C17.stepHH, hstep, hres]
        rw [hlog, C17.lastEst_snoc_ok] at hx
        rw [List.map_append, List.map_singleton, cnt_snoc']
        by_cases ek : key = k
        · rw [if_pos ek] at hx
          injection hx with hx
          subst hx
          rw [← cnt_snoc', ← ek]
          exact hcv
        · rw [if_neg ek] at hx
          have : (hhToCms (key, n)).key = key := rfl
          rw [this, if_neg ek, Int.add_zero]
          exact I.seen k x hx

/-- the sketch embedded in a HeavyHitters object follows the count-min history of C02 -/
theorem hh_cms_eq_run (hw : 0 < w) (hd : 0 < d) (hH : ∀ key, (H key d).length = d) (num : Int)
    (hnum : 1 ≤ num) (ops : List (Key × Int)) (hpos : ∀ op ∈ ops, 0 < op.2)
    (hS : C02.Small (ops.map hhToCms)) :
    (C17.runHH H (HH.new w d num) ops).1.cms = C02.run w d H .min (ops.map hhToCms) :=
  (hh_count_inv hw hd hH num hnum ops hpos hS).cms

/-- every estimate HeavyHitters has most recently returned for a key is at least the key's true
    count -/
theorem hh_lastEst_ge_count (hw : 0 < w) (hd : 0 < d) (hH : ∀ key, (H key d).length = d)
    (num : Int) (hnum : 1 ≤ num) (ops : List (Key × Int)) (hpos : ∀ op ∈ ops, 0 < op.2)
    (hS : C02.Small (ops.map hhToCms)) (k : Key) (v : Int)
    (hk : C17.lastEst (C17.runHH H (HH.new w d num) ops).2 k = some v) :
    C02.cnt (ops.map hhToCms) k ≤ v :=
  (hh_count_inv hw hd hH num hnum ops hpos hS).seen k v hk

/-- a tracked key's value is at least its true count (and so is ≥ 0) -/
theorem hh_tracked_ge_count (hw : 0 < w) (hd : 0 < d) (hH : ∀ key, (H key d).length = d)
    (num : Int) (hnum : 1 ≤ num) (ops : List (Key × Int)) (hpos : ∀ op ∈ ops, 0 < op.2)
    (hS : C02.Small (ops.map hhToCms)) (k : Key) (v : Int)
    (hkv : (k, v) ∈ (C17.runHH H (HH.new w d num) ops).1.table) :
    C02.cnt (ops.map hhToCms) k ≤ v ∧ 0 ≤ v := by
  have hle := (C17.C17_hh_tracked w d num hw hd hnum H hH ops
    (fun o ho => Int.le_of_lt (hpos o ho))).2 k v hkv
  have h1 := hh_lastEst_ge_count hw hd hH num hnum ops hpos hS k v hle
  have h2 := cnt_add_nonneg ops hpos k
  exact ⟨h1, by omega⟩

/-- **an untracked key's TRUE count is at most every tracked value** (for every key, whether or
    not it occurs in the history) -/
theorem hh_untracked_count_le_tracked (hw : 0 < w) (hd : 0 < d)
    (hH : ∀ key, (H key d).length = d) (num : Int) (hnum : 1 ≤ num) (ops : List (Key × Int))
    (hpos : ∀ op ∈ ops, 0 < op.2) (hS : C02.Small (ops.map hhToCms)) (u : Key)
    (hu : u ∉ (C17.runHH H (HH.new w d num) ops).1.table.map (·.1)) (k : Key) (v : Int)
    (hkv : (k, v) ∈ (C17.runHH H (HH.new w d num) ops).1.table) :
    C02.cnt (ops.map hhToCms) u ≤ v := by
  have hn : ∀ o ∈ ops, 0 ≤ o.2 := fun o ho => Int.le_of_lt (hpos o ho)
  cases hl : C17.lastEst (C17.runHH H (HH.new w d num) ops).2 u with
  | some est =>
      have h1 := hh_lastEst_ge_count hw hd hH num hnum ops hpos hS u est hl
      have h2 := C17.C17_hh_untracked w d num hw hd hnum H hH ops hn u est hl hu k v hkv
      omega
  | none =>
      -- `u` never occurred: its true count is 0, and tracked values are ≥ 0
      have hv0 := (hh_tracked_ge_count hw hd hH num hnum ops hpos hS k v hkv).2
      have hkeys := (C17.C17_hh_ok w d num hw hd hnum H hH ops hn).1
      have hall := (C17.C17_hh_ok w d num hw hd hnum H hH ops hn).2
      have hnot : ∀ op ∈ ops, op.1 ≠ u := by
        intro op hop e
        rw [C17.lastEst_eq, lastRet_eq_none_iff] at hl
        apply hl
        have hm : op.1 ∈ (C17.runHH H (HH.new w d num) ops).2.map (·.1) := by
          rw [hkeys]; exact List.mem_map.mpr ⟨op, hop, rfl⟩
        obtain ⟨en, hen, hek⟩ := List.mem_map.mp hm
        obtain ⟨x, hx, _⟩ := hall en hen
        refine List.mem_map.mpr ⟨(en.1, x), ?_, by rw [hek]; exact e⟩
        simp only [C17.okSeq, List.mem_filterMap]
        exact ⟨en, hen, by rw [hx]⟩
      have hz : C02.cnt (ops.map hhToCms) u = 0 := cnt_add_absent ops u hnot
      omega

/-- **HeavyHitters tracks the heaviest keys by TRUE count**: a key whose true count exceeds some
    tracked value — in particular the smallest tracked value — is itself tracked -/
theorem hh_tracks_heaviest (hw : 0 < w) (hd : 0 < d) (hH : ∀ key, (H key d).length = d)
    (num : Int) (hnum : 1 ≤ num) (ops : List (Key × Int)) (hpos : ∀ op ∈ ops, 0 < op.2)
    (hS : C02.Small (ops.map hhToCms)) (u k : Key) (v : Int)
    (hkv : (k, v) ∈ (C17.runHH H (HH.new w d num) ops).1.table)
    (hgt : v < C02.cnt (ops.map hhToCms) u) :
    u ∈ (C17.runHH H (HH.new w d num) ops).1.table.map (·.1) := by
  apply Classical.byContradiction
  intro hu
  have := hh_untracked_count_le_tracked hw hd hH num hnum ops hpos hS u hu k v hkv
  omega

end

/-! ### non-vacuity: the run of C17's first test (w = d = 2, two tracked keys out of four) -/

def exHHOps : List (Key × Int) := [(C17.ka, 5), (C17.kb, 3), (C17.kc, 1), (C17.ka, 2), (C17.kd, 1)]

instance hhSmallDec (ops : List C02.Op) : Decidable (C02.Small ops) := by
  unfold C02.Small; infer_instance

example : (∀ op ∈ exHHOps, 0 < op.2) ∧ C02.Small (exHHOps.map hhToCms) := ⟨by decide, by decide⟩

/-- untracked `kd` (true count 1, estimate 4) and `kb` (true count 3): both ≤ the tracked 6 and 8 -/
example : ∀ k v, (k, v) ∈ (C17.runHH C17.Hx (HH.new 2 2 2) exHHOps).1.table →
    C02.cnt (exHHOps.map hhToCms) k ≤ v ∧ 0 ≤ v :=
  fun k v h => hh_tracked_ge_count (by decide) (by decide) (C17.Hx_length 2) 2 (by decide) exHHOps
    (by decide) (by decide) k v h

end PyProb.Corollaries
