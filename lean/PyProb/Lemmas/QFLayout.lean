/-
  Elementary facts about the canonical layout `Spec.layout`: its shape, the empty table, the
  table of one element.
-/
import PyProb.Spec.QF

namespace PyProb.Spec
open PyProb

@[simp] theorem layout_q (q : Nat) (auto : Bool) (S : List Elem) : (layout q auto S).q = q := rfl
@[simp] theorem layout_auto (q : Nat) (auto : Bool) (S : List Elem) : (layout q auto S).auto = auto := rfl
@[simp] theorem layout_count (q : Nat) (auto : Bool) (S : List Elem) :
    (layout q auto S).count = (S.length : Nat) := rfl
@[simp] theorem layout_size (q : Nat) (auto : Bool) (S : List Elem) : (layout q auto S).size = 2 ^ q := rfl

theorem foldl_set_length {α β : Type} (f : β → Nat) (g : β → α) (cs : List β) (a : List α) :
    (cs.foldl (fun a c => a.set (f c) (g c)) a).length = a.length := by
  induction cs generalizing a with
  | nil => rfl
  | cons c cs ih => simp [List.foldl_cons, ih]

@[simp] theorem layout_rem_length (q : Nat) (auto : Bool) (S : List Elem) :
    (layout q auto S).rem.length = 2 ^ q := by
  simp [layout, foldl_set_length]

@[simp] theorem layout_occ_length (q : Nat) (auto : Bool) (S : List Elem) :
    (layout q auto S).occ.length = 2 ^ q := by
  simp [layout, foldl_set_length]

@[simp] theorem layout_cont_length (q : Nat) (auto : Bool) (S : List Elem) :
    (layout q auto S).cont.length = 2 ^ q := by
  simp [layout, foldl_set_length]

@[simp] theorem layout_shift_length (q : Nat) (auto : Bool) (S : List Elem) :
    (layout q auto S).shift.length = 2 ^ q := by
  simp [layout, foldl_set_length]

/-- the canonical table of the empty set is the table `__set_params` builds -/
theorem layout_nil (q : Nat) (auto : Bool) : layout q auto [] = QF.empty q auto := by
  simp [layout, cells, rot, place, QF.empty]

/-! ### one element -/

theorem cnt_single (x : Elem) (i : Nat) : cnt [x] i = if x.1 = i then 1 else 0 := by
  simp [cnt, List.countP_cons]

theorem carry_single (n : Nat) (x : Elem) (k : Nat) : carry n [x] k = 0 := by
  induction k with
  | zero => rfl
  | succ k ih => simp only [carry, ih, cnt_single]; split <;> rfl

theorem emptySlot_single (n : Nat) (hn : 2 ≤ n) (x : Elem) :
    emptySlot n [x] = if x.1 = 0 then 1 else 0 := by
  obtain ⟨m, rfl⟩ : ∃ m, n = m + 2 := ⟨n - 2, by omega⟩
  by_cases h : x.1 = 0
  · have h1 : (m + 2 + 1) % (m + 2) = 1 := by
      rw [Nat.add_mod_left]; exact Nat.mod_eq_of_lt (by omega)
    simp [emptySlot, findFree, isFree, carry_single, cnt_single, h, h1]
  · simp [emptySlot, findFree, isFree, carry_single, cnt_single, h]

theorem slot_off (n e a : Nat) (he : e < n) (ha : a < n) : (e + 1 + off n e a) % n = a := by
  unfold off
  rw [Nat.add_mod_mod]
  have : e + 1 + (a + n - (e + 1)) = a + n := by omega
  rw [this, Nat.add_mod_right]
  exact Nat.mod_eq_of_lt ha

theorem set_replicate_self {α : Type} (n i : Nat) (a : α) : (List.replicate n a).set i a = List.replicate n a := by
  apply List.ext_getElem
  · simp
  · intro j h1 h2
    simp

theorem cells_single (n : Nat) (hn : 2 ≤ n) (x : Elem) (hx : x.1 < n) :
    cells n [x] = [⟨x.1, x.1, x.2, false⟩] := by
  have he := emptySlot_single n hn x
  have hen : emptySlot n [x] < n := by rw [he]; split <;> omega
  have hne : emptySlot n [x] ≠ x.1 := by rw [he]; split <;> omega
  simp only [cells]
  generalize emptySlot n [x] = e at *
  have hrot : rot e [x] = [x] := by
    simp only [rot, List.filter_cons, List.filter_nil]
    by_cases h : e < x.1
    · have : ¬ x.1 < e := by omega
      simp [h, this]
    · have : x.1 < e := by omega
      simp [h, this]
  rw [hrot]
  simp only [place, Nat.zero_max, slot_off n e x.1 hen hx]
  simp

/-- the canonical table of one element -/
theorem layout_single (q : Nat) (hq : 1 ≤ q) (auto : Bool) (x : Elem) (hx : x.1 < 2 ^ q) :
    layout q auto [x] =
      { QF.empty q auto with
        rem := (List.replicate (2 ^ q) 0).set x.1 x.2
        occ := (List.replicate (2 ^ q) false).set x.1 true
        count := 1 } := by
  have hn : 2 ≤ 2 ^ q := by
    calc 2 = 2 ^ 1 := rfl
      _ ≤ 2 ^ q := Nat.pow_le_pow_right (by omega) hq
  simp [layout, cells_single _ hn x hx, QF.empty]

end PyProb.Spec
