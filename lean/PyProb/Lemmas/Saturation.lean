/-
  Helper lemmas for C16 (saturating counters), counting-Bloom half: the store loops of
  `CBF.add_alt` / `CBF.remove_alt` in closed form, range preservation. Core Lean only.
-/
import PyProb.Model.Bloom

namespace PyProb.Saturation
open PyProb

/-- what a counting-Bloom cell holds after a saturating store -/
def sat32 (v : Int) : Int := min Gen.uint32Max v

/-- all cells are valid `uint32` values -/
def CellsOK (cells : List Int) : Prop := ∀ x ∈ cells, 0 ≤ x ∧ x ≤ Gen.uint32Max

theorem CellsOK.getD {cells : List Int} (h : CellsOK cells) (k : Nat) :
    0 ≤ cells.getD k 0 ∧ cells.getD k 0 ≤ Gen.uint32Max := by
  rw [List.getD_eq_getElem?_getD]
  cases e : cells[k]? with
  | none => simp [Gen.uint32Max]
  | some x => exact h x (List.mem_of_getElem? e)

theorem CellsOK.set {cells : List Int} (h : CellsOK cells) (k : Nat) (v : Int)
    (h0 : 0 ≤ v) (h1 : v ≤ Gen.uint32Max) : CellsOK (cells.set k v) := by
  intro x hx
  rcases List.mem_or_eq_of_mem_set hx with e | e
  · exact h x e
  · subst e; exact ⟨h0, h1⟩

theorem CellsOK.replicate (m : Nat) : CellsOK (List.replicate m 0) := by
  intro x hx
  have := (List.mem_replicate.1 hx).2
  subst this; simp [Gen.uint32Max]

theorem getD_set (l : List Int) (k j : Nat) (v : Int) :
    (l.set k v).getD j 0 = if k = j ∧ k < l.length then v else l.getD j 0 := by
  simp only [List.getD_eq_getElem?_getD, List.getElem?_set]
  by_cases e : k = j
  · subst e
    by_cases e2 : k < l.length
    · simp [e2]
    · simp [e2]
  · simp [e]

theorem clampCell_range (v : Int) (h : 0 ≤ v) :
    0 ≤ CBF.clampCell v ∧ CBF.clampCell v ≤ Gen.uint32Max ∧
      CBF.clampCell v = min Gen.uint32Max v := by
  simp only [CBF.clampCell, Gen.uint32Max]; omega

/-! ### `minList` -/

theorem foldl_min_le (l : List Int) (a : Int) :
    l.foldl min a ≤ a ∧ (∀ y ∈ l, l.foldl min a ≤ y) ∧ (l.foldl min a = a ∨ l.foldl min a ∈ l) := by
  induction l generalizing a with
  | nil => simp
  | cons x t ih =>
      obtain ⟨h1, h2, h3⟩ := ih (min a x)
      simp only [List.foldl_cons]
      refine ⟨by omega, ?_, ?_⟩
      · intro y hy
        rcases List.mem_cons.1 hy with e | e
        · subst e; omega
        · exact h2 y e
      · rcases h3 with e | e
        · by_cases c : a ≤ x
          · left; rw [e]; omega
          · right; rw [e]; simp; left; omega
        · right; simp [e]

/-- `minList` of a non-empty list is a member and a lower bound -/
theorem minList_spec (l : List Int) (h : l ≠ []) :
    CBF.minList l ∈ l ∧ ∀ y ∈ l, CBF.minList l ≤ y := by
  cases l with
  | nil => exact absurd rfl h
  | cons x t =>
      obtain ⟨h1, h2, h3⟩ := foldl_min_le t x
      simp only [CBF.minList]
      refine ⟨?_, ?_⟩
      · rcases h3 with e | e
        · simp [e]
        · simp [e]
      · intro y hy
        rcases List.mem_cons.1 hy with e | e
        · subst e; exact h1
        · exact h2 y e

theorem minList_const (l : List Int) (h : l ≠ []) (a : Int) (hc : ∀ y ∈ l, y = a) :
    CBF.minList l = a := hc _ (minList_spec l h).1

/-! ### the store loop of `add_alt` -/

/-- one clamped increment per occurrence of an index -/
def bumpCells (n : Int) (idx : List Nat) (cells : List Int) : List Int :=
  idx.foldl (fun cs k => cs.set k (sat32 (cs.getD k 0 + n))) cells

theorem bumpCells_length (n : Int) (idx : List Nat) (cells : List Int) :
    (bumpCells n idx cells).length = cells.length := by
  unfold bumpCells
  induction idx generalizing cells with
  | nil => rfl
  | cons x t ih => rw [List.foldl_cons, ih, List.length_set]

theorem bumpCells_ok (n : Int) (hn : 0 ≤ n) (idx : List Nat) (cells : List Int)
    (h : CellsOK cells) : CellsOK (bumpCells n idx cells) := by
  unfold bumpCells
  induction idx generalizing cells with
  | nil => exact h
  | cons x t ih =>
      rw [List.foldl_cons]
      apply ih
      have := h.getD x
      apply h.set
      · simp only [sat32, Gen.uint32Max] at *; omega
      · simp only [sat32, Gen.uint32Max] at *; omega

/-- closed form: a cell hit `c` times holds `min uint32Max (old + n*c)` -/
theorem bumpCells_getD (n : Int) (hn : 0 ≤ n) (idx : List Nat) (cells : List Int) (j : Nat)
    (hidx : ∀ k ∈ idx, k < cells.length) (hj : cells.getD j 0 ≤ Gen.uint32Max) :
    (bumpCells n idx cells).getD j 0 = sat32 (cells.getD j 0 + n * (idx.count j : Int)) := by
  unfold bumpCells
  induction idx generalizing cells with
  | nil => simp only [List.foldl_nil, List.count_nil]; simp only [sat32, Gen.uint32Max] at *; omega
  | cons x t ih =>
      have hx : x < cells.length := hidx x (by simp)
      rw [List.foldl_cons, ih]
      · rw [getD_set, List.count_cons]
        have hc : 0 ≤ n * (t.count j : Int) := Int.mul_nonneg hn (by omega)
        by_cases e : x = j
        · subst e
          have : n * ((t.count x + 1 : Nat) : Int) = n * (t.count x : Int) + n := by
            rw [Int.natCast_add, Int.mul_add]; simp
          simp only [hx, and_self, if_true, beq_self_eq_true, this]
          generalize n * (t.count x : Int) = q at hc
          simp only [sat32, Gen.uint32Max] at *; omega
        · have : (x == j) = false := by simp [e]
          simp [e, this]
      · intro k hk; rw [List.length_set]; exact hidx k (by simp [hk])
      · rw [getD_set]
        split
        · simp only [sat32, Gen.uint32Max]; omega
        · exact hj

theorem cbf_addLoop_eq (n : Int) (hn : 0 ≤ n) (old : List Int) (idx : List Nat)
    (cells acc : List Int)
    (hold : ∀ k, old.getD k 0 ≤ cells.getD k 0)
    (hmax : ∀ k, old.getD k 0 ≤ Gen.uint32Max)
    (h0 : ∀ k, 0 ≤ cells.getD k 0) :
    CBF.addLoop n cells (idx.zip (idx.map fun k => old.getD k 0 + n)) acc =
      (bumpCells n idx cells, acc.reverse ++ idx.map (fun k => sat32 (old.getD k 0 + n)), none) := by
  unfold bumpCells
  induction idx generalizing cells acc with
  | nil => simp [CBF.addLoop]
  | cons x t ih =>
      simp only [List.map_cons, List.zip_cons_cons, CBF.addLoop, List.foldl_cons]
      have hx := hold x
      have hm := hmax x
      have hz := h0 x
      have key : ∀ v, 0 ≤ v → v ≤ Gen.uint32Max → old.getD x 0 ≤ v →
          (∀ k, old.getD k 0 ≤ (cells.set x v).getD k 0) ∧ (∀ k, 0 ≤ (cells.set x v).getD k 0) := by
        intro v hv0 hv1 hv2
        constructor
        · intro k; rw [getD_set]; split
          · rename_i h; rw [← h.1]; exact hv2
          · exact hold k
        · intro k; rw [getD_set]; split
          · exact hv0
          · exact h0 k
      by_cases c : old.getD x 0 + n > Gen.uint32Max
      · have e : sat32 (cells.getD x 0 + n) = Gen.uint32Max := by
          simp only [sat32, Gen.uint32Max] at *; omega
        have e' : sat32 (old.getD x 0 + n) = Gen.uint32Max := by
          simp only [sat32, Gen.uint32Max] at *; omega
        obtain ⟨k1, k2⟩ := key Gen.uint32Max (by simp [Gen.uint32Max]) (Int.le_refl _) hm
        simp only [Gen.cbfAddClampCmp, Cmp.evalInt, c, decide_true, if_true, e]
        rw [ih _ _ k1 k2, e']
        simp
      · have e' : sat32 (old.getD x 0 + n) = old.getD x 0 + n := by
          simp only [sat32, Gen.uint32Max] at *; omega
        have e : (if cells.getD x 0 + n > Gen.uint32Max then Gen.uint32Max else cells.getD x 0 + n)
            = sat32 (cells.getD x 0 + n) := by
          simp only [sat32, Gen.uint32Max]; omega
        have hs0 : 0 ≤ sat32 (cells.getD x 0 + n) := by
          simp only [sat32, Gen.uint32Max] at *; omega
        have hs1 : sat32 (cells.getD x 0 + n) ≤ Gen.uint32Max := by
          simp only [sat32, Gen.uint32Max] at *; omega
        have hs2 : old.getD x 0 ≤ sat32 (cells.getD x 0 + n) := by
          simp only [sat32, Gen.uint32Max] at *; omega
        obtain ⟨k1, k2⟩ := key _ hs0 hs1 hs2
        have c2 : ¬ sat32 (cells.getD x 0 + n) < 0 := by omega
        simp only [Gen.cbfAddClampCmp, Cmp.evalInt, c, decide_false, Bool.false_eq_true, if_false,
          e, c2]
        rw [ih _ _ k1 k2, e']
        simp

/-- the positions of one key: `[hashes[i] % bloom_length for i in range(number_hashes)]` -/
def cbfIdx (c : CBF) (hs : List Nat) : List Nat := (hs.take c.k).map (· % c.cells.length)

theorem cbfIdx_lt (c : CBF) (hs : List Nat) (hm : 0 < c.cells.length) :
    ∀ k ∈ cbfIdx c hs, k < c.cells.length := by
  intro k hk
  simp only [cbfIdx, List.mem_map] at hk
  obtain ⟨a, _, e⟩ := hk
  rw [← e]; exact Nat.mod_lt _ hm

theorem cbf_indices_eq (c : CBF) (hs : List Nat) (hl : c.k ≤ hs.length) :
    c.indices hs = .ok (cbfIdx c hs) := by
  have : ¬ hs.length < c.k := by omega
  simp [CBF.indices, this, cbfIdx]

theorem cbf_addAlt_eq (c : CBF) (hs : List Nat) (n : Int) (hn : 0 ≤ n) (hl : c.k ≤ hs.length)
    (hok : CellsOK c.cells) :
    c.addAlt hs n =
      ({ c with cells := bumpCells n (cbfIdx c hs) c.cells,
                count := min (c.count + n) Gen.uint64Max },
       .ok (CBF.minList ((cbfIdx c hs).map fun k => sat32 (c.cells.getD k 0 + n)))) := by
  unfold CBF.addAlt
  rw [cbf_indices_eq c hs hl]
  simp only
  rw [cbf_addLoop_eq n hn c.cells (cbfIdx c hs) c.cells [] (fun _ => Int.le_refl _)
    (fun k => (hok.getD k).2) (fun k => (hok.getD k).1)]
  simp

/-! ### the decrement loop of `remove_alt` -/

theorem cbf_removeLoop_length (r : Int) (idx : List Nat) (cells : List Int) :
    (CBF.removeLoop r cells idx).1.length = cells.length := by
  induction idx generalizing cells with
  | nil => rfl
  | cons x t ih =>
      simp only [CBF.removeLoop]
      split
      · split
        · rfl
        · rw [ih]; simp
      · exact ih _

/-- a cell at the limit is never written by the decrement loop -/
theorem cbf_removeLoop_frozen (r : Int) (idx : List Nat) (cells : List Int) (j : Nat)
    (hj : cells.getD j 0 = Gen.uint32Max) :
    (CBF.removeLoop r cells idx).1.getD j 0 = Gen.uint32Max := by
  induction idx generalizing cells with
  | nil => exact hj
  | cons x t ih =>
      simp only [CBF.removeLoop]
      split
      · rename_i hlt
        split
        · exact hj
        · apply ih
          rw [getD_set]
          split
          · rename_i h; rw [h.1] at hlt; omega
          · exact hj
      · exact ih _ hj

theorem cbf_removeLoop_ok (r : Int) (hr : 0 ≤ r) (idx : List Nat) (cells : List Int)
    (h : CellsOK cells) : CellsOK (CBF.removeLoop r cells idx).1 := by
  induction idx generalizing cells with
  | nil => exact h
  | cons x t ih =>
      simp only [CBF.removeLoop]
      have := h.getD x
      split
      · split
        · exact h
        · apply ih
          apply h.set <;> omega
      · exact ih _ h

/-- `remove_alt` either leaves the filter alone or runs the decrement loop once with an
    amount `r` (`r ≥ 0` on a well-formed filter when `n ≥ 0`) -/
theorem cbf_removeAlt_cases (c : CBF) (hs : List Nat) (n : Int) :
    (c.removeAlt hs n).1 = c ∨
    ∃ r, (0 ≤ n → CellsOK c.cells → 0 ≤ r) ∧
      (c.removeAlt hs n).1.cells = (CBF.removeLoop r c.cells (cbfIdx c hs)).1 ∧
      (c.removeAlt hs n).1.m = c.m ∧ (c.removeAlt hs n).1.k = c.k := by
  unfold CBF.removeAlt
  by_cases hl : hs.length < c.k
  · left; simp [CBF.indices, hl]
  · rw [cbf_indices_eq c hs (by omega)]
    simp only
    cases hidx : cbfIdx c hs with
    | nil => left; rfl
    | cons x t =>
        simp only
        split
        · left; rfl
        · split
          · left; rfl
          · right
            refine ⟨(if CBF.minList (List.map (fun k => c.cells.getD k 0) (x :: t)) > n then n
                else CBF.minList (List.map (fun k => c.cells.getD k 0) (x :: t))), ?_, ?_⟩
            rotate_left
            · split
              · rename_i cells e heq
                exact ⟨by rw [heq], rfl, rfl⟩
              · rename_i cells heq
                exact ⟨by rw [heq], rfl, rfl⟩
            · intro hn hok
              have hmem := (minList_spec (List.map (fun k => c.cells.getD k 0) (x :: t))
                (by simp)).1
              obtain ⟨k, _, e⟩ := List.mem_map.1 hmem
              have := (hok.getD k).1
              rw [e] at this
              split <;> omega

theorem cbf_removeAlt_at_limit (c : CBF) (hs : List Nat) (n : Int) (hl : c.k ≤ hs.length)
    (hne : cbfIdx c hs ≠ [])
    (hmin : CBF.minList ((cbfIdx c hs).map fun k => c.cells.getD k 0) = Gen.uint32Max) :
    c.removeAlt hs n = (c, .ok Gen.uint32Max) := by
  unfold CBF.removeAlt
  rw [cbf_indices_eq c hs hl]
  simp only
  cases hidx : cbfIdx c hs with
  | nil => exact absurd hidx hne
  | cons x t =>
      rw [hidx] at hmin
      simp only [hmin, beq_self_eq_true, if_true]

end PyProb.Saturation
