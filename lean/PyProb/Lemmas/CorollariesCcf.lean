/-
  Cross-property corollary 4 (counting cuckoo filter): exact counts survive export + load.

  `C08_ccf_exact_with_kicks` (counts are exact after any history in which no call raised) and the
  export round trip of C05 are combined: the state reached by a history from `new` satisfies the
  table invariant of C15 and the bookkeeping invariant `Cuckoo.Acct`, hence `CuckooWF`, hence
  `load template (export c)` gives back table, capacity, bucket size, swap limit and both element
  counters; what the format does not store comes from the template.  `check` reads only
  `fpBits`, `cap` and the table, so for the counts to stay exact the template has to carry the same
  `fpBits` and be a COUNTING filter (`counting = true`, which decides the cell width the loader
  parses); with the same `rate` and `auto` as well the loaded state is EQUAL to the exported one.
-/
import PyProb.Properties.C05_cuckoo
import PyProb.Properties.C08

namespace PyProb.Corollaries
open PyProb PyProb.Cuckoo
open PyProb.Ccf (outstanding AllAddsOk)

/-- the table invariant of C15 and the counters' bookkeeping along a history with one threaded
    oracle (the history type of C08), whether or not calls raised -/
theorem ccf_run_inv_acct (G : Nat → Nat) (ops : List Ccf.Op) (c : Cuckoo) (oracle : List Nat)
    (hinv : C15.Inv G c) (ha : Acct c) :
    C15.Inv G (Ccf.run G c oracle ops).1 ∧ Acct (Ccf.run G c oracle ops).1 := by
  induction ops generalizing c oracle with
  | nil => exact ⟨hinv, ha⟩
  | cons op ops ih =>
      have hrun : Ccf.run G c oracle (op :: ops) =
          Ccf.run G (Ccf.step G (c, oracle) op).1 (Ccf.step G (c, oracle) op).2 ops := rfl
      rw [hrun]
      have hw := (C15.inv_iff_wf G c).mp hinv
      cases op with
      | add h => exact ih _ _ (C15.C15_add G c h oracle hinv) (acct_add h oracle hw ha)
      | remove h => exact ih _ _ (C15.C15_remove G c h hinv) (acct_remove h hw ha)

/-- every state of a counting cuckoo filter reached from `new` is well formed for the export
    round trip -/
theorem ccf_run_wf (G : Nat → Nat) (cap b maxSwaps rate : Nat) (auto : Bool) (fpBits : Nat)
    (hcap : 0 < cap) (hb : 0 < b) (hrate : 0 < rate) (oracle : List Nat) (ops : List Ccf.Op) :
    C05.CuckooWF (Ccf.run G (Cuckoo.new true cap b maxSwaps rate auto fpBits) oracle ops).1 := by
  obtain ⟨hinv, ha⟩ := ccf_run_inv_acct G ops _ oracle
    (C15.C15_init G true cap b maxSwaps rate auto fpBits hcap hb hrate)
    (acct_new true cap b maxSwaps rate auto fpBits)
  exact C05.C05_cuckoo_wf_of_inv G _ hinv ha

/-- what `load` builds from a template and the export of a well-formed counting table satisfies
    the counting invariant of C08 again and stores the same counts -/
private theorem loaded_inv (G : Nat → Nat) (template c : Cuckoo) (inv : Ccf.Inv G c)
    (hcount : template.counting = true) :
    Ccf.Inv G { template with cap := c.cap, b := c.b, maxSwaps := c.maxSwaps, buckets := c.buckets,
                              count := c.count, unique := c.unique } := by
  obtain ⟨_, h2, h3, h4, h5, h6⟩ := inv
  exact ⟨hcount, h2, h3, h4, h5, h6⟩

/-- **Exact counts survive export + load.**  Let `c` be the state of a counting cuckoo filter
    after any history of add / remove from `CountingCuckooFilter(cap, b, maxSwaps, rate, auto,
    fpBits)` (`0 < cap, b, rate`; any second hash `G`, any oracle) in which no call raised
    (evictions and automatic expansions allowed), and let its export succeed with `bytes`.  Loading
    `bytes` into ANY template that is a counting filter with the same fingerprint width succeeds,
    gives back the table, the capacity, the bucket size, the swap limit and both element counters,
    the invariant holds again, and `check` of every key equals the outstanding additions of the keys
    sharing its fingerprint.  If the template also carries the same `rate` and `auto`, the loaded
    state is equal to `c`. -/
theorem ccf_reload_exact (G : Nat → Nat) (cap b maxSwaps rate : Nat) (auto : Bool) (fpBits : Nat)
    (hcap : 0 < cap) (hb : 0 < b) (hrate : 0 < rate) (oracle : List Nat) (ops : List Ccf.Op)
    (hok : AllAddsOk G (Cuckoo.new true cap b maxSwaps rate auto fpBits, oracle) ops)
    (template : Cuckoo) (hcount : template.counting = true) (hfp : template.fpBits = fpBits)
    (bytes : Bytes)
    (hexp : (Ccf.run G (Cuckoo.new true cap b maxSwaps rate auto fpBits) oracle ops).1.exportBytes
      = .ok bytes) :
    let c := (Ccf.run G (Cuckoo.new true cap b maxSwaps rate auto fpBits) oracle ops).1
    ∃ c', Cuckoo.load template bytes = .ok c' ∧
      c'.buckets = c.buckets ∧ c'.cap = c.cap ∧ c'.b = b ∧ c'.maxSwaps = maxSwaps ∧
      c'.count = c.count ∧ c'.unique = c.unique ∧
      c'.counting = true ∧ c'.fpBits = fpBits ∧ c'.rate = template.rate ∧ c'.auto = template.auto ∧
      Ccf.Inv G c' ∧
      (∀ h, check G c' h = check G c h) ∧
      (∀ h, check G c' h =
        outstanding (Cuckoo.new true cap b maxSwaps rate auto fpBits).fingerprint ops
          ((Cuckoo.new true cap b maxSwaps rate auto fpBits).fingerprint h)) ∧
      (template.rate = rate → template.auto = auto → c' = c) := by
  intro c
  obtain ⟨ri, rs, rc⟩ := C08.C08_ccf_exact_any G cap b maxSwaps rate auto fpBits hcap hrate oracle ops hok
  have wf : C05.CuckooWF c := ccf_run_wf G cap b maxSwaps rate auto fpBits hcap hb hrate oracle ops
  obtain ⟨s1, s2, s3, s4, s5, s6⟩ := rs
  change c.counting = true at s1
  change c.b = b at s2
  change c.maxSwaps = maxSwaps at s3
  change c.rate = rate at s4
  change c.auto = auto at s5
  change c.fpBits = fpBits at s6
  change Ccf.Inv G c at ri
  change ∀ h, check G c h = _ at rc
  have hload := C05.C05_cuckoo_roundtrip template c bytes wf (hcount.trans s1.symm) hexp
  have inv' := loaded_inv G template c ri hcount
  refine ⟨_, hload, rfl, rfl, s2, s3, rfl, rfl, hcount, hfp, rfl, rfl, inv', ?_, ?_, ?_⟩
  · intro h
    simp only [check, fingerprint, indices, present, hasFp, bucket, hfp, s6]
  · intro h
    rw [← rc h]
    simp only [check, fingerprint, indices, present, hasFp, bucket, hfp, s6]
  · intro hr hau
    obtain ⟨t1, t2, t3, t4, t5, t6, t7, t8, t9, t10⟩ := template
    obtain ⟨c1, c2, c3, c4, c5, c6, c7, c8, c9, c10⟩ := c
    simp only at hcount hfp hr hau s1 s4 s5 s6
    subst hcount hfp hr hau s1
    simp only [s4, s5, s6]

/-- **… and stay exact afterwards.**  A history `ops₁`, then export + load into a counting template
    with the same fingerprint width (its `rate ≥ 1` and `auto` may differ from the original
    filter's — they are not stored), then a further history `ops₂` with its own oracle, no call
    raising: `check` of every key equals the outstanding additions over `ops₁ ++ ops₂`. -/
theorem ccf_reload_history (G : Nat → Nat) (cap b maxSwaps rate : Nat) (auto : Bool) (fpBits : Nat)
    (hcap : 0 < cap) (hb : 0 < b) (hrate : 0 < rate) (oracle₁ : List Nat) (ops₁ : List Ccf.Op)
    (hok₁ : AllAddsOk G (Cuckoo.new true cap b maxSwaps rate auto fpBits, oracle₁) ops₁)
    (template : Cuckoo) (hcount : template.counting = true) (hfp : template.fpBits = fpBits)
    (htr : 0 < template.rate) (bytes : Bytes)
    (hexp : (Ccf.run G (Cuckoo.new true cap b maxSwaps rate auto fpBits) oracle₁ ops₁).1.exportBytes
      = .ok bytes)
    (c' : Cuckoo) (hload : Cuckoo.load template bytes = .ok c')
    (oracle₂ : List Nat) (ops₂ : List Ccf.Op) (hok₂ : AllAddsOk G (c', oracle₂) ops₂) (h : Nat) :
    check G (Ccf.run G c' oracle₂ ops₂).1 h =
      outstanding (Cuckoo.new true cap b maxSwaps rate auto fpBits).fingerprint (ops₁ ++ ops₂)
        ((Cuckoo.new true cap b maxSwaps rate auto fpBits).fingerprint h) := by
  obtain ⟨c'', hl, hbk, _, _, _, _, _, _, hfp', hrate', _, inv', _, _, _⟩ :=
    ccf_reload_exact G cap b maxSwaps rate auto fpBits hcap hb hrate oracle₁ ops₁ hok₁ template hcount
      hfp bytes hexp
  rw [hload] at hl
  injection hl with hl
  subst hl
  obtain ⟨ri₁, rs₁, rc₁⟩ := Ccf.ccf_run_any (Ccf.inv_new G cap b maxSwaps rate auto fpBits hcap) hrate
    oracle₁ ops₁ hok₁
  obtain ⟨ri₂, rs₂, rc₂⟩ := Ccf.ccf_run_any inv' (by rw [hrate']; exact htr) oracle₂ ops₂ hok₂
  have hfpfun : c'.fingerprint = (Cuckoo.new true cap b maxSwaps rate auto fpBits).fingerprint :=
    funext (Ccf.fingerprint_congr (c := Cuckoo.new true cap b maxSwaps rate auto fpBits) hfp')
  have hcnt : ∀ fp, Ccf.countOf c' fp =
      Ccf.countOf (Ccf.run G (Cuckoo.new true cap b maxSwaps rate auto fpBits) oracle₁ ops₁).1 fp := by
    intro fp; simp only [Ccf.countOf, hbk]
  rw [Ccf.ccf_check ri₂, Ccf.fingerprint_congr rs₂.2.2.2.2.2, rc₂, hcnt, rc₁, Ccf.countOf_new, hfpfun]
  simp only [outstanding, List.foldl_append]

/-! ### non-vacuity (tests on a concrete instance) -/

/-- the history of `C08.exKick` (a real eviction chain), exported and reloaded into a template with
    a different capacity, bucket size, rate and auto flag, then continued -/
example :
    let c := (Ccf.run C08.exG (Cuckoo.new true 3 1 5 2 false 8) [0, 0, 0, 7] C08.exKick).1
    let t := Cuckoo.new true 99 4 500 3 true 8
    ∃ bytes c', c.exportBytes = .ok bytes ∧ Cuckoo.load t bytes = .ok c' ∧
      check C08.exG c' 3 = 2 ∧ check C08.exG c' 4 = 0 ∧ check C08.exG c' 6 = 1 ∧
      AllAddsOk C08.exG (c', []) [.add 3, .remove 6] ∧
      check C08.exG (Ccf.run C08.exG c' [] [.add 3, .remove 6]).1 3 = 3 := by
  refine ⟨_, _, rfl, rfl, ?_⟩
  decide

end PyProb.Corollaries
