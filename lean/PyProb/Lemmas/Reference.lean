/-
  Lemmas relating the model's Bloom, counting-Bloom and count-min operations under the default
  hashing strategy to the documented hashing rule and the reference reader / writer of
  `Spec/Layout.lean`.

  The lemmas live in one module per data-structure family (plus a family-independent one); this
  module only gathers them (and `Lemmas/LayoutSpec.lean`, as before).
-/
import PyProb.Lemmas.LayoutSpec
import PyProb.Lemmas.ReferenceCommon
import PyProb.Lemmas.ReferenceBloom
import PyProb.Lemmas.ReferenceCms
