/-
  Lemmas relating the model's Bloom operations under the default hashing strategy to the
  documented hashing rule and the reference reader / writer of `Spec/Layout.lean`.
-/
import PyProb.Lemmas.LayoutSpec
import PyProb.Properties.C18

namespace PyProb

/-- `check_alt` on a long enough hash list never fails and tests the first `n` positions -/
theorem checkGo_all (m : Nat) (bits : Bytes) (n : Nat) (hs : List Nat) (h : n ≤ hs.length) :
    Bloom.checkGo m bits n hs = .ok ((hs.take n).all fun x => testBitB bits (x % m)) := by
  induction n generalizing hs with
  | zero => simp [Bloom.checkGo]
  | succ n ih =>
      cases hs with
      | nil => simp at h
      | cons x xs =>
          simp only [Bloom.checkGo, List.take_succ_cons, List.all_cons]
          cases hx : testBitB bits (x % m)
          · simp
          · simp [ih xs (by simpa using h)]

/-- the documented hashing rule is the model's default strategy -/
theorem defaultFnv_spec (key : Key) (k : Nat) :
    defaultFnv key k = (List.range k).map (Spec.hashI key.units) := by
  rw [C18.C18_default_is_published_fnv]
  rfl

theorem positions_spec (b : Bloom) (key : Key) :
    b.positions (defaultFnv key b.k) = Spec.bloomPositions b.k b.m key.units := by
  unfold Bloom.positions Spec.bloomPositions
  rw [defaultFnv_spec, List.take_of_length_le (by simp)]
  simp [List.map_map, Function.comp_def]

theorem bitOfFile_append (bits suf : Bytes) (i : Nat) (h : i / 8 < bits.length) :
    Spec.bitOfFile (bits ++ suf) i = testBitB bits i := by
  rw [testBitB_eq]
  unfold Spec.bitOfFile Spec.at'
  simp [List.getD_eq_getElem?_getD, List.getElem?_append_left h]

theorem foldl_setBit_spec (ps : List Nat) (bs : Bytes) : ps.foldl Spec.setBit bs = ps.foldl setBitB bs := by
  induction ps generalizing bs with
  | nil => rfl
  | cons p ps ih => simp only [List.foldl_cons, spec_setBit, ih]

theorem bloomRun_eq (k m : Nat) (keys : List Key) (b0 : Bloom) (hk : b0.k = k) (hm : b0.m = m) :
    keys.foldl (fun b key => (b.addAlt (defaultFnv key k)).1) b0 =
      { b0 with
        bits := (keys.map Key.units).foldl (fun arr key => (Spec.bloomPositions k m key).foldl Spec.setBit arr) b0.bits
        count := b0.count + keys.length } := by
  induction keys generalizing b0 with
  | nil => simp
  | cons key keys ih =>
      simp only [List.foldl_cons, List.map_cons, List.length_cons]
      have hlen : ¬ (defaultFnv key k).length < b0.k := by rw [C18.C18_len_default, hk]; omega
      have hstep : (b0.addAlt (defaultFnv key k)).1 =
          { b0 with bits := (Spec.bloomPositions k m key.units).foldl Spec.setBit b0.bits, count := b0.count + 1 } := by
        unfold Bloom.addAlt
        simp only [hlen, if_false]
        rw [foldl_setBit_spec, ← hk, ← hm, ← positions_spec, hk]
      rw [hstep, ih _ (by exact hk) (by exact hm)]
      simp only [Bloom.mk.injEq, true_and]
      push_cast; omega

end PyProb
